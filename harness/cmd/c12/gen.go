package main

// Abstract REST-style applications, their seeded generator and the Sysl text they are rendered to.
// The abstract application is what the oracle judges the exported documents against (it never looks at the model).

import (
	"fmt"
	"sort"
	"strings"

	"verifharness/common"
)

type aType struct {
	Kind   string   `json:"k"`            // prim ref seq set inline
	Prim   string   `json:"p,omitempty"`  // Sysl primitive as written
	Ref    string   `json:"r,omitempty"`  // type name in the same application ("Other.Thing": a type of another application)
	FK     string   `json:"fk,omitempty"` // ref only, inside a !table: the referenced field (`Cust.cid`)
	Elem   *aType   `json:"e,omitempty"`
	Opt    bool     `json:"o,omitempty"`
	Fields []aField `json:"f,omitempty"` // inline: a nested (in-place) type, compiled to the type "<Outer>.<field>"
	Nested bool     `json:"nested,omitempty"` // ref only, set by the oracle's expandNested: Ref is the full name of a nested type
	Bare   bool     `json:"bare,omitempty"`   // ref only, type of a query parameter: written `?name=Type` without braces
}
type aField struct {
	Name string `json:"n"`
	T    aType  `json:"t"`
}
type aEnumItem struct {
	Name  string `json:"n"`
	Value int    `json:"v"`
}
type aTypeDef struct {
	Name   string      `json:"n"`
	Kind   string      `json:"k"` // tuple enum alias table union map
	Fields []aField    `json:"f,omitempty"`
	Enum   []aEnumItem `json:"e,omitempty"`
	Alias  *aType      `json:"a,omitempty"`
	Alts   []string    `json:"u,omitempty"`  // union: the alternatives (type names)
	MapKey string      `json:"mk,omitempty"` // map: the json_map_key attribute (a field name)
}
type aParam struct {
	Name string `json:"n"`
	In   string `json:"i"` // query path header body
	T    aType  `json:"t"`
}
type aRet struct {
	Name string `json:"n"` // ok error 200 404 ... ; "" = `return <type>` without a name
	T    *aType `json:"t,omitempty"`
}
type aEndpoint struct {
	Method string   `json:"m"`
	Path   string   `json:"p"` // with {name} place-holders
	Params []aParam `json:"ps,omitempty"`
	Rets   []aRet   `json:"rs,omitempty"`
	Plain  bool     `json:"plain,omitempty"` // RPC-style endpoint (name = Path), no REST parts
	Wrap   []string `json:"w,omitempty"`     // Wrap[i]: the statement Rets[i] is nested in ("" / absent: top level): if else foreach until while oneof group deep
}
type aApp struct {
	Name      string      `json:"name"`
	Version   string      `json:"version"`
	Types     []aTypeDef  `json:"types"`
	Endpoints []aEndpoint `json:"eps"`
	Desc      string      `json:"desc,omitempty"`   // @description
	Server    string      `json:"server,omitempty"` // @env.1.url
	Style     string      `json:"style"`            // "sysl": hand-written style; "imported": header names via name="..", numeric return codes
	Long      string      `json:"long,omitempty"`   // the long name: App "long name":
	Attrs     []aAttr     `json:"attrs,omitempty"`  // further application attributes (info stream)
}

var (
	primPool  = []string{"int", "string", "bool", "float", "decimal", "date", "datetime", "bytes", "int32", "int64", "string(10)"}
	typeNames = []string{"Item", "Order", "Zed", "Account", "Node", "Tree", "Err", "Colour", "Page", "Blob", "Tag", "User"}
	fieldPool = []string{"id", "name", "zip", "Alpha", "next", "kids", "owner", "tags", "b", "a", "count", "when", "Zeta", "left", "right", "n", "items", "kind"}
	paramPool = []string{"limit", "tag", "offset", "Zq", "after", "a", "token", "trace", "X", "req", "payload", "sort"}
	enumPool  = []string{"red", "GREEN", "blue", "Amber", "cyan", "zz", "A1"}
	segPool   = []string{"items", "orders", "Users", "a", "zeta", "b", "admin"}
	pvarPool  = []string{"id", "key", "uid", "Zid"}
	methods   = []string{"GET", "POST", "PUT", "DELETE", "PATCH"}
)

type gen struct {
	r *common.Rng
}

func (g *gen) pick(ss []string) string { return ss[g.r.Intn(len(ss))] }

func (g *gen) pickDistinct(pool []string, n int) []string {
	idx := make([]int, len(pool))
	for i := range idx {
		idx[i] = i
	}
	for i := len(idx) - 1; i > 0; i-- {
		j := g.r.Intn(i + 1)
		idx[i], idx[j] = idx[j], idx[i]
	}
	if n > len(pool) {
		n = len(pool)
	}
	out := make([]string, n)
	for i := 0; i < n; i++ {
		out[i] = pool[idx[i]]
	}
	return out
}

// a field / parameter / return type; refs only to names in `types`
func (g *gen) typ(types []string, allowColl, allowOpt bool, primsOnly bool) aType {
	k := g.r.Intn(100)
	var t aType
	switch {
	case primsOnly || len(types) == 0 || k < 40:
		t = aType{Kind: "prim", Prim: g.pick(primPool)}
	case k < 70 || !allowColl:
		t = aType{Kind: "ref", Ref: g.pick(types)}
	case k < 90:
		e := g.typ(types, false, false, false)
		t = aType{Kind: "seq", Elem: &e}
	default:
		e := g.typ(types, false, false, false)
		t = aType{Kind: "set", Elem: &e}
	}
	if allowOpt && g.r.Chance(2, 5) {
		t.Opt = true
	}
	return t
}

func (g *gen) app(name string, style string, big bool) aApp {
	a := aApp{Name: name, Version: "1." + fmt.Sprint(g.r.Intn(9)), Style: style}
	if g.r.Chance(1, 3) {
		a.Server = "http://api.example.com/v" + fmt.Sprint(g.r.Intn(3))
	}
	nt := 1 + g.r.Intn(4)
	if big {
		nt = 3 + g.r.Intn(5)
	}
	names := g.pickDistinct(typeNames, nt)
	for i, n := range names {
		td := aTypeDef{Name: n}
		k := g.r.Intn(100)
		switch {
		case k < 70 || i == 0:
			td.Kind = "tuple"
			nf := g.r.Intn(6)
			if big || g.r.Chance(1, 3) {
				nf = 3 + g.r.Intn(6) // maps with >= 3 entries
			}
			for _, fn := range g.pickDistinct(fieldPool, nf) {
				td.Fields = append(td.Fields, aField{Name: fn, T: g.typ(names, true, true, false)})
			}
			// self- and mutual recursion
			if g.r.Chance(1, 3) {
				td.Fields = append(td.Fields, aField{Name: "self", T: aType{Kind: "ref", Ref: n, Opt: g.r.Bool()}})
			}
			if g.r.Chance(1, 4) {
				e := aType{Kind: "ref", Ref: n}
				td.Fields = append(td.Fields, aField{Name: "selves", T: aType{Kind: "seq", Elem: &e, Opt: g.r.Bool()}})
			}
		case k < 85:
			td.Kind = "enum"
			vals := map[int]bool{}
			for _, en := range g.pickDistinct(enumPool, 1+g.r.Intn(4)) {
				v := g.r.Intn(12)
				for vals[v] {
					v++
				}
				vals[v] = true
				td.Enum = append(td.Enum, aEnumItem{en, v})
			}
		default:
			td.Kind = "alias"
			t := g.typ(names[:i], true, false, i == 0)
			if t.Prim == "string(10)" { // an alias body takes no constraint
				t.Prim = "string"
			}
			td.Alias = &t
		}
		a.Types = append(a.Types, td)
	}
	ne := 1 + g.r.Intn(3)
	if big {
		ne = 2 + g.r.Intn(4)
	}
	used := map[string]bool{}
	for i := 0; i < ne; i++ {
		var ep aEndpoint
		for try := 0; try < 20; try++ {
			ep = aEndpoint{Method: g.pick(methods)}
			nseg := 1 + g.r.Intn(3)
			var pvars []string
			segs := []string{}
			for s := 0; s < nseg; s++ {
				if s > 0 && g.r.Chance(1, 3) {
					pv := g.pick(pvarPool)
					dup := false
					for _, x := range pvars {
						dup = dup || x == pv
					}
					if !dup {
						pvars = append(pvars, pv)
						segs = append(segs, "{"+pv+"}")
						continue
					}
				}
				segs = append(segs, g.pick(segPool))
			}
			ep.Path = "/" + strings.Join(segs, "/")
			if used[ep.Method+" "+ep.Path] {
				continue
			}
			used[ep.Method+" "+ep.Path] = true
			for _, pv := range pvars {
				ep.Params = append(ep.Params, aParam{Name: pv, In: "path", T: aType{Kind: "prim", Prim: g.pick([]string{"int", "string", "int64"})}})
			}
			break
		}
		taken := map[string]bool{}
		for _, p := range ep.Params {
			taken[p.Name] = true
		}
		np := g.r.Intn(4)
		if big || g.r.Chance(1, 3) {
			np = 3 + g.r.Intn(3)
		}
		hasBody := false
		for _, pn := range g.pickDistinct(paramPool, np) {
			if taken[pn] {
				continue
			}
			taken[pn] = true
			k := g.r.Intn(100)
			switch {
			case k < 45:
				t := g.typ(nil, false, true, true)
				if t.Prim == "string(10)" { // the query-parameter syntax takes no constraint
					t.Prim = "string"
				}
				ep.Params = append(ep.Params, aParam{Name: pn, In: "query", T: t})
			case k < 75:
				t := g.typ(nil, false, true, true)
				ep.Params = append(ep.Params, aParam{Name: pn, In: "header", T: t})
			case !hasBody && ep.Method != "GET" && ep.Method != "DELETE":
				hasBody = true
				t := g.typ(names, style == "sysl", true, false)
				if t.Kind == "prim" {
					t = aType{Kind: "ref", Ref: names[0], Opt: t.Opt}
				}
				if t.Kind == "set" && t.Elem.Kind == "prim" {
					// `(p <: set of string [~body])` makes the parser's listener dereference nil (reported as a parse
					// error since the C01 repair): not an input the exporter ever sees
					t.Kind = "seq"
				}
				ep.Params = append(ep.Params, aParam{Name: pn, In: "body", T: t})
			}
		}
		// responses: distinct status codes
		codes := g.pickDistinct([]string{"ok", "error", "201", "404", "500", "202"}, g.r.Intn(4))
		if style == "imported" {
			codes = g.pickDistinct([]string{"200", "201", "404", "500", "202"}, g.r.Intn(4))
		}
		sort.Strings(codes)
		// reverse half of the time: declaration order differs from sorted order
		if g.r.Bool() {
			for l, r := 0, len(codes)-1; l < r; l, r = l+1, r-1 {
				codes[l], codes[r] = codes[r], codes[l]
			}
		}
		for _, c := range codes {
			rt := aRet{Name: c}
			k := g.r.Intn(100)
			switch {
			case k < 55:
				rt.T = &aType{Kind: "ref", Ref: g.pick(names)}
			case k < 75:
				e := aType{Kind: "ref", Ref: g.pick(names)}
				rt.T = &aType{Kind: "seq", Elem: &e}
			case k < 85 && style == "sysl":
				rt.T = &aType{Kind: "prim", Prim: g.pick([]string{"string", "bool", "date", "datetime"})}
			case k < 90 && style == "sysl":
				e := aType{Kind: "prim", Prim: "string"}
				rt.T = &aType{Kind: "seq", Elem: &e}
			default:
				// no payload
			}
			ep.Rets = append(ep.Rets, rt)
		}
		a.Endpoints = append(a.Endpoints, ep)
	}
	return a
}

// kinds stream (deepen round 3): an application of the main stream plus !table (primary key, foreign key `T.f`, reference
// to a !type, optional attributes), !union, json_map_key maps, nested (in-place) types and references into another
// application, each used by fields, parameters and returns
func (g *gen) appKinds(name string, style string) aApp {
	a := g.app(name, style, false)
	var recs []string // names of !type / !table: what a union may list and a table may refer to
	firstTuple := -1
	for i, td := range a.Types {
		if td.Kind == "tuple" {
			recs = append(recs, td.Name)
			if firstTuple < 0 {
				firstTuple = i
			}
		}
	}
	var added []string
	if g.r.Chance(7, 10) {
		cust := aTypeDef{Name: "Cust", Kind: "table", Fields: []aField{{"cid", aType{Kind: "prim", Prim: "int"}}}}
		for _, fn := range g.pickDistinct([]string{"name", "zip", "Alpha", "since", "b"}, 1+g.r.Intn(4)) {
			cust.Fields = append(cust.Fields, aField{fn, g.typ(nil, false, true, true)})
		}
		if len(recs) > 0 && g.r.Bool() {
			cust.Fields = append(cust.Fields, aField{"item", aType{Kind: "ref", Ref: g.pick(recs), Opt: g.r.Bool()}})
		}
		if g.r.Chance(1, 3) {
			e := aType{Kind: "prim", Prim: "string"}
			cust.Fields = append(cust.Fields, aField{"tags", aType{Kind: "seq", Elem: &e, Opt: g.r.Bool()}})
		}
		a.Types = append(a.Types, cust)
		added = append(added, "Cust")
		if g.r.Bool() {
			ord := aTypeDef{Name: "Ord", Kind: "table", Fields: []aField{{"oid", aType{Kind: "prim", Prim: "int"}},
				{"cust", aType{Kind: "ref", Ref: "Cust", FK: "cid", Opt: g.r.Bool()}}, {"n", aType{Kind: "prim", Prim: "decimal", Opt: g.r.Bool()}}}}
			a.Types = append(a.Types, ord)
			added = append(added, "Ord")
		}
	}
	recs = append(recs, added...)
	if len(recs) > 0 && g.r.Chance(2, 5) {
		a.Types = append(a.Types, aTypeDef{Name: "Either", Kind: "union", Alts: g.pickDistinct(recs, 1+g.r.Intn(3))})
		added = append(added, "Either")
	}
	if g.r.Chance(2, 5) {
		m := aTypeDef{Name: "Dict", Kind: "map", MapKey: "key", Fields: []aField{{"key", aType{Kind: "prim", Prim: "string"}}}}
		for _, fn := range g.pickDistinct([]string{"val", "Alpha", "n", "who"}, 1+g.r.Intn(3)) {
			m.Fields = append(m.Fields, aField{fn, g.typ(recs, false, true, false)})
		}
		a.Types = append(a.Types, m)
		added = append(added, "Dict")
	}
	if firstTuple >= 0 {
		td := &a.Types[firstTuple]
		if g.r.Chance(2, 5) {
			in := aType{Kind: "inline"}
			for _, fn := range g.pickDistinct([]string{"x", "Y", "z", "w"}, 1+g.r.Intn(3)) {
				in.Fields = append(in.Fields, aField{fn, g.typ(nil, false, true, true)})
			}
			td.Fields = append(td.Fields, aField{Name: "inner", T: in})
		}
		if g.r.Chance(1, 4) {
			td.Fields = append(td.Fields, aField{Name: "far", T: aType{Kind: "ref", Ref: "Other.Thing", Opt: g.r.Bool()}})
		}
		// the new kinds are used: as field types ...
		for _, n := range added {
			if g.r.Bool() {
				td.Fields = append(td.Fields, aField{Name: "use" + n, T: aType{Kind: "ref", Ref: n, Opt: g.r.Bool()}})
			}
		}
	}
	// ... as return and body types
	for i := range a.Endpoints {
		ep := &a.Endpoints[i]
		if len(added) == 0 {
			break
		}
		for r := range ep.Rets {
			if ep.Rets[r].T != nil && ep.Rets[r].T.Kind == "ref" && g.r.Bool() {
				ep.Rets[r].T.Ref = g.pick(added)
			}
		}
		for pi := range ep.Params {
			if ep.Params[pi].In == "body" && ep.Params[pi].T.Kind == "ref" && g.r.Bool() {
				ep.Params[pi].T.Ref = g.pick(added)
			}
		}
	}
	return a
}

// params stream (deepen round 3, second pass): an application of the main stream whose path, query and header parameters
// are of DECLARED types - alias of a primitive, alias of a sequence, enum, !type, !table - optional or not, the query
// parameters with braces (`?status={Status}`) and, rarely, without (`?status=Status`)
func (g *gen) appParams(name string, style string) aApp {
	a := g.app(name, style, false)
	decl := []string{}
	for _, td := range a.Types {
		if td.Kind == "tuple" {
			decl = append(decl, td.Name)
			break
		}
	}
	a.Types = append(a.Types, aTypeDef{Name: "PId", Kind: "alias", Alias: &aType{Kind: "prim", Prim: g.pick([]string{"int", "string", "int64"})}})
	decl = append(decl, "PId")
	if g.r.Chance(3, 5) {
		e := aType{Kind: "prim", Prim: "string"}
		a.Types = append(a.Types, aTypeDef{Name: "PSeq", Kind: "alias", Alias: &aType{Kind: "seq", Elem: &e}})
		decl = append(decl, "PSeq")
	}
	if g.r.Chance(3, 5) {
		a.Types = append(a.Types, aTypeDef{Name: "PEnum", Kind: "enum", Enum: []aEnumItem{{"on", 1}, {"off", 0}, {"Auto", 5}}})
		decl = append(decl, "PEnum")
	}
	if g.r.Chance(2, 5) {
		a.Types = append(a.Types, aTypeDef{Name: "PTab", Kind: "table", Fields: []aField{{"pid", aType{Kind: "prim", Prim: "int"}}, {"label", aType{Kind: "prim", Prim: "string", Opt: true}}}})
		decl = append(decl, "PTab")
	}
	bare := false
	for i := range a.Endpoints {
		ep := &a.Endpoints[i]
		taken := map[string]bool{}
		for pi := range ep.Params {
			p := &ep.Params[pi]
			taken[p.Name] = true
			switch p.In {
			case "path":
				if g.r.Chance(2, 3) {
					p.T = aType{Kind: "ref", Ref: g.pick(decl)}
				}
			case "query", "header":
				if g.r.Chance(1, 2) {
					p.T = aType{Kind: "ref", Ref: g.pick(decl), Opt: p.T.Opt}
				}
			}
		}
		// at least one query and one header parameter of a declared type per endpoint
		for _, in := range []string{"query", "header"} {
			for _, pn := range g.pickDistinct([]string{"status", "Trace", "colour", "pg", "who"}, 1+g.r.Intn(2)) {
				if taken[pn] {
					continue
				}
				taken[pn] = true
				p := aParam{Name: pn, In: in, T: aType{Kind: "ref", Ref: g.pick(decl), Opt: g.r.Chance(2, 5)}}
				if in == "query" && !bare && g.r.Chance(1, 6) {
					p.T.Bare, bare = true, true
				}
				ep.Params = append(ep.Params, p)
			}
		}
	}
	return a
}

// stmts stream (deepen round 3, second pass): an application of the main stream whose return statements are nested in if /
// else, loops, for-each, one-of alternatives and groups (also three levels deep), where several return statements may carry
// the same status, plus - in a third of the applications - RPC-style endpoints and a description
func (g *gen) appStmts(name string, style string) aApp {
	a := g.app(name, style, false)
	wraps := []string{"if", "else", "foreach", "until", "while", "oneof", "oneof", "group", "deep"}
	for i := range a.Endpoints {
		ep := &a.Endpoints[i]
		if len(ep.Rets) == 0 {
			ep.Rets = append(ep.Rets, aRet{Name: map[bool]string{true: "200", false: "ok"}[style == "imported"], T: &aType{Kind: "ref", Ref: a.Types[0].Name}})
		}
		// the same status a second time, with another payload
		if g.r.Chance(1, 3) {
			r := ep.Rets[g.r.Intn(len(ep.Rets))]
			dup := aRet{Name: r.Name, T: &aType{Kind: "prim", Prim: "string"}}
			if style == "imported" {
				dup.T = &aType{Kind: "ref", Ref: a.Types[len(a.Types)-1].Name}
			}
			ep.Rets = append(ep.Rets, dup)
		}
		ep.Wrap = make([]string, len(ep.Rets))
		for r := range ep.Rets {
			if g.r.Chance(3, 5) {
				ep.Wrap[r] = g.pick(wraps)
			}
		}
	}
	if g.r.Chance(1, 3) {
		a.Endpoints = append(a.Endpoints, aEndpoint{Plain: true, Path: "Login", Rets: []aRet{{Name: "ok", T: &aType{Kind: "ref", Ref: a.Types[0].Name}}}})
		if g.r.Bool() {
			a.Endpoints = append(a.Endpoints, aEndpoint{Plain: true, Path: "Audit"})
		}
	}
	if g.r.Chance(1, 2) {
		a.Desc = g.pick([]string{"A shop", "Things, and more: things", "x"})
	}
	return a
}

// ---------------------------------------------------------------- rendering

func typeText(t aType) string {
	var s string
	switch t.Kind {
	case "prim":
		s = t.Prim
	case "ref":
		s = t.Ref
		if t.FK != "" {
			s += "." + t.FK
		}
	case "inline":
		s = "(inline)"
	case "seq":
		s = "sequence of " + typeText(*t.Elem)
	case "set":
		s = "set of " + typeText(*t.Elem)
	}
	if t.Opt {
		s += "?"
	}
	return s
}

// tagFirst decides, from the parameter's name alone (so that it is stable over re-renderings), whether other patterns
// are written in front of the parameter's location tag
func tagFirst(name string) bool {
	h := 0
	for i := 0; i < len(name); i++ {
		h += int(name[i])
	}
	return h%3 == 0
}

func renderApp(b *strings.Builder, a aApp) {
	if a.Long != "" {
		fmt.Fprintf(b, "%s %q:\n", a.Name, a.Long)
	} else {
		fmt.Fprintf(b, "%s:\n", a.Name)
	}
	if a.Version != "" {
		fmt.Fprintf(b, "    @version = %q\n", a.Version)
	}
	if a.Desc != "" {
		fmt.Fprintf(b, "    @description = %q\n", a.Desc)
	}
	if a.Server != "" {
		fmt.Fprintf(b, "    @env.1.url = %q\n", a.Server)
	}
	renderAttrs(b, a)
	if len(a.Types) == 0 && len(a.Endpoints) == 0 {
		b.WriteString("    ...\n")
	}
	for _, ep := range a.Endpoints {
		if ep.Plain {
			fmt.Fprintf(b, "    %s:\n", ep.Path)
			if len(ep.Rets) == 0 {
				b.WriteString("        ...\n")
			}
			renderRets(b, ep, "        ")
			continue
		}
		path := ep.Path
		var query, others []string
		for _, p := range ep.Params {
			switch p.In {
			case "path":
				path = strings.Replace(path, "{"+p.Name+"}", "{"+p.Name+" <: "+typeText(p.T)+"}", 1)
			case "query":
				tt := typeText(p.T)
				if p.T.Kind != "prim" && !p.T.Bare {
					tt = "{" + strings.TrimSuffix(tt, "?") + "}"
					if p.T.Opt {
						tt += "?"
					}
				}
				query = append(query, p.Name+"="+tt)
			case "header":
				attrs := "~header"
				if tagFirst(p.Name) {
					attrs = "~audit, ~header" // the location tag is not always the first pattern
				}
				if a.Style == "imported" {
					attrs = fmt.Sprintf("~header, name=%q", p.Name)
					if !p.T.Opt {
						attrs += ", ~required"
					}
				}
				others = append(others, fmt.Sprintf("%s <: %s [%s]", p.Name, typeText(p.T), attrs))
			case "body":
				attrs := "~body"
				if tagFirst(p.Name) {
					attrs = "~audit, ~traced, ~body" // the location tag is not always the first pattern
				}
				if a.Style == "imported" && !p.T.Opt {
					attrs += ", ~required"
				}
				others = append(others, fmt.Sprintf("%s <: %s [%s]", p.Name, typeText(p.T), attrs))
			}
		}
		fmt.Fprintf(b, "    %s:\n        %s", path, ep.Method)
		if len(others) > 0 {
			fmt.Fprintf(b, " (%s)", strings.Join(others, ", "))
		}
		if len(query) > 0 {
			fmt.Fprintf(b, " ?%s", strings.Join(query, "&"))
		}
		b.WriteString(":\n")
		if len(ep.Rets) == 0 {
			b.WriteString("            ...\n")
		}
		renderRets(b, ep, "            ")
	}
	for _, t := range a.Types {
		switch t.Kind {
		case "tuple":
			fmt.Fprintf(b, "    !type %s:\n", t.Name)
			if len(t.Fields) == 0 {
				b.WriteString("        ...\n")
			}
			for _, f := range t.Fields {
				if f.T.Kind == "inline" {
					fmt.Fprintf(b, "        %s <:\n", f.Name)
					for _, g := range f.T.Fields {
						fmt.Fprintf(b, "            %s <: %s\n", g.Name, typeText(g.T))
					}
					continue
				}
				fmt.Fprintf(b, "        %s <: %s\n", f.Name, typeText(f.T))
			}
		case "map":
			fmt.Fprintf(b, "    !type %s [json_map_key=%q]:\n", t.Name, t.MapKey)
			for _, f := range t.Fields {
				fmt.Fprintf(b, "        %s <: %s\n", f.Name, typeText(f.T))
			}
		case "table":
			fmt.Fprintf(b, "    !table %s:\n", t.Name)
			for i, f := range t.Fields {
				pk := ""
				if i == 0 {
					pk = " [~pk]"
				}
				fmt.Fprintf(b, "        %s <: %s%s\n", f.Name, typeText(f.T), pk)
			}
		case "union":
			fmt.Fprintf(b, "    !union %s:\n", t.Name)
			for _, alt := range t.Alts {
				fmt.Fprintf(b, "        %s\n", alt)
			}
		case "enum":
			fmt.Fprintf(b, "    !enum %s:\n", t.Name)
			for _, e := range t.Enum {
				fmt.Fprintf(b, "        %s: %d\n", e.Name, e.Value)
			}
		case "alias":
			fmt.Fprintf(b, "    !alias %s:\n        %s\n", t.Name, typeText(*t.Alias))
		}
	}
}

func retText(r aRet) string {
	switch {
	case r.Name == "" && r.T != nil:
		return "return " + typeText(*r.T)
	case r.T == nil:
		return "return " + r.Name
	}
	return "return " + r.Name + " <: " + typeText(*r.T)
}

// the return statements of an endpoint, each inside the statement its Wrap entry names
func renderRets(b *strings.Builder, ep aEndpoint, ind string) {
	inOneOf := false
	for i, r := range ep.Rets {
		w := ""
		if i < len(ep.Wrap) {
			w = ep.Wrap[i]
		}
		if w != "oneof" {
			inOneOf = false
		}
		rt := retText(r)
		switch w {
		case "if":
			fmt.Fprintf(b, "%sif cond%d:\n%s    %s\n", ind, i, ind, rt)
		case "else":
			fmt.Fprintf(b, "%sif cond%d:\n%s    log it\n%selse:\n%s    %s\n", ind, i, ind, ind, ind, rt)
		case "foreach":
			fmt.Fprintf(b, "%sfor each x in xs:\n%s    %s\n", ind, ind, rt)
		case "until":
			fmt.Fprintf(b, "%suntil done:\n%s    %s\n", ind, ind, rt)
		case "while":
			fmt.Fprintf(b, "%swhile busy:\n%s    log it\n%s    %s\n", ind, ind, ind, rt)
		case "group":
			fmt.Fprintf(b, "%sgrouped:\n%s    %s\n", ind, ind, rt)
		case "deep":
			fmt.Fprintf(b, "%sif cond%d:\n%s    for each x in xs:\n%s        one of:\n%s            case a:\n%s                %s\n", ind, i, ind, ind, ind, ind, rt)
		case "oneof":
			if !inOneOf {
				fmt.Fprintf(b, "%sone of:\n", ind)
				inOneOf = true
			}
			fmt.Fprintf(b, "%s    case c%d:\n%s        %s\n", ind, i, ind, rt)
		default:
			fmt.Fprintf(b, "%s%s\n", ind, rt)
		}
	}
}

func render(apps []aApp) string {
	var b strings.Builder
	for _, a := range apps {
		renderApp(&b, a)
	}
	return b.String()
}

// the shapes Appendix B of DESIGN.md and the property's quantifier name; run first in every tier
func corpus() []aApp {
	ref := func(n string, opt bool) aType { return aType{Kind: "ref", Ref: n, Opt: opt} }
	prim := func(p string, opt bool) aType { return aType{Kind: "prim", Prim: p, Opt: opt} }
	seq := func(e aType, opt bool) aType { return aType{Kind: "seq", Elem: &e, Opt: opt} }
	set := func(e aType, opt bool) aType { return aType{Kind: "set", Elem: &e, Opt: opt} }
	pt := func(t aType) *aType { return &t }
	return []aApp{
		{Name: "OptArrays", Version: "1.0", Style: "sysl", Types: []aTypeDef{
			{Name: "Item", Kind: "tuple", Fields: []aField{
				{"tags", seq(prim("string", false), true)}, {"kids", seq(ref("Item", false), true)}, {"req", seq(prim("int", false), false)},
				{"id", prim("int", false)}, {"name", prim("string", true)}, {"owner", ref("Owner", true)}, {"zset", set(ref("Owner", false), true)}}},
			{Name: "Owner", Kind: "tuple", Fields: []aField{{"item", ref("Item", false)}, {"n", prim("string", false)}}}},
			Endpoints: []aEndpoint{{Method: "GET", Path: "/items", Rets: []aRet{{"ok", pt(seq(ref("Item", false), false))}}}}},
		{Name: "MixedRequired", Version: "2.0", Style: "sysl", Types: []aTypeDef{
			{Name: "Zed", Kind: "tuple", Fields: []aField{
				{"zip", prim("string", false)}, {"Alpha", prim("int", true)}, {"b", prim("bool", false)}, {"a", prim("date", true)},
				{"when", prim("datetime", false)}, {"count", prim("decimal", false)}, {"n", prim("float", true)}, {"blob", prim("bytes", false)}}},
			{Name: "Colour", Kind: "enum", Enum: []aEnumItem{{"red", 7}, {"GREEN", 1}, {"blue", 4}}},
			{Name: "Names", Kind: "alias", Alias: pt(seq(prim("string", false), false))}},
			Endpoints: []aEndpoint{{Method: "POST", Path: "/zeds/{id}", Params: []aParam{
				{"id", "path", prim("int", false)}, {"limit", "query", prim("int", true)}, {"Zq", "query", prim("string", false)}, {"after", "query", prim("date", true)},
				{"trace", "header", prim("string", false)}, {"X", "header", prim("int", true)}, {"req", "body", ref("Zed", false)}},
				Rets: []aRet{{"ok", pt(ref("Zed", false))}, {"404", pt(ref("Zed", false))}, {"error", nil}}}}},
		{Name: "Recursive", Version: "1.0", Style: "sysl", Types: []aTypeDef{
			{Name: "Node", Kind: "tuple", Fields: []aField{{"next", ref("Node", true)}, {"kids", seq(ref("Node", false), false)}, {"tree", ref("Tree", false)}}},
			{Name: "Tree", Kind: "tuple", Fields: []aField{{"root", ref("Node", false)}, {"others", set(ref("Tree", false), true)}}}},
			Endpoints: []aEndpoint{{Method: "PUT", Path: "/tree", Params: []aParam{{"t", "body", ref("Tree", true)}},
				Rets: []aRet{{"ok", pt(ref("Node", false))}}}}},
		{Name: "AfterTuple", Version: "1.0", Style: "imported", Types: []aTypeDef{
			{Name: "Alpha", Kind: "tuple", Fields: []aField{{"id", prim("int", false)}, {"name", prim("string", true)}, {"tags", seq(prim("string", false), false)}}},
			{Name: "Beta", Kind: "enum", Enum: []aEnumItem{{"on", 1}, {"off", 0}}},
			{Name: "Gamma", Kind: "alias", Alias: pt(prim("int", false))},
			{Name: "Delta", Kind: "alias", Alias: pt(ref("Alpha", false))},
			{Name: "Omega", Kind: "tuple"},
			{Name: "Zeta", Kind: "alias", Alias: pt(seq(prim("string", false), false))}},
			Endpoints: []aEndpoint{{Method: "GET", Path: "/a", Rets: []aRet{{"200", pt(ref("Alpha", false))}}}}},
		// deepen round 3: every new type kind once, deterministic
		{Name: "Kinds", Version: "1.0", Style: "sysl", Types: []aTypeDef{
			{Name: "Item", Kind: "tuple", Fields: []aField{{"id", prim("int", false)},
				{"inner", aType{Kind: "inline", Fields: []aField{{"a", prim("int", false)}, {"b", prim("string", true)}}}},
				{"cust", ref("Cust", true)}, {"either", ref("Either", false)}, {"dict", ref("Dict", true)}}},
			{Name: "Cust", Kind: "table", Fields: []aField{{"cid", prim("int", false)}, {"name", prim("string", true)}, {"zip", prim("string", false)},
				{"item", ref("Item", false)}, {"maybe", ref("Item", true)}, {"tags", seq(prim("string", false), true)}}},
			{Name: "Ord", Kind: "table", Fields: []aField{{"oid", prim("int", false)}, {"cust", aType{Kind: "ref", Ref: "Cust", FK: "cid"}},
				{"prev", aType{Kind: "ref", Ref: "Ord", FK: "oid", Opt: true}}, {"n", prim("decimal", true)}}},
			{Name: "Either", Kind: "union", Alts: []string{"Item", "Cust"}},
			{Name: "Dict", Kind: "map", MapKey: "key", Fields: []aField{{"key", prim("string", false)}, {"val", prim("int", true)}, {"who", ref("Cust", false)}}}},
			Endpoints: []aEndpoint{{Method: "GET", Path: "/custs", Rets: []aRet{{"ok", pt(seq(ref("Cust", false), false))}}},
				{Method: "POST", Path: "/ords", Params: []aParam{{"o", "body", ref("Ord", false)}}, Rets: []aRet{{"ok", pt(ref("Either", false))}, {"404", nil}}}}},
		{Name: "CrossApp", Version: "1.0", Style: "sysl", Types: []aTypeDef{
			{Name: "Item", Kind: "tuple", Fields: []aField{{"id", prim("int", false)}, {"far", ref("Other.Thing", false)}, {"fars", seq(ref("Other.Thing", false), true)}}}},
			Endpoints: []aEndpoint{{Method: "GET", Path: "/items", Rets: []aRet{{"ok", pt(ref("Item", false))}}}}},
		// second pass: parameters of declared types in every location, with and without braces
		{Name: "DeclParams", Version: "1.0", Style: "sysl", Types: []aTypeDef{
			{Name: "OrderId", Kind: "alias", Alias: pt(prim("int", false))},
			{Name: "TraceToken", Kind: "alias", Alias: pt(prim("string", false))},
			{Name: "Status", Kind: "alias", Alias: pt(seq(prim("string", false), false))},
			{Name: "Colour", Kind: "enum", Enum: []aEnumItem{{"red", 1}, {"blue", 2}}},
			{Name: "Page", Kind: "tuple", Fields: []aField{{"n", prim("int", false)}}},
			{Name: "Cust", Kind: "table", Fields: []aField{{"cid", prim("int", false)}}},
			{Name: "Order", Kind: "tuple", Fields: []aField{{"id", ref("OrderId", false)}}}},
			Endpoints: []aEndpoint{
				{Method: "GET", Path: "/orders/{id}", Params: []aParam{{Name: "id", In: "path", T: ref("OrderId", false)},
					{Name: "trace", In: "header", T: ref("TraceToken", false)}, {Name: "col", In: "header", T: ref("Colour", true)},
					{Name: "status", In: "query", T: ref("Status", false)}, {Name: "colour", In: "query", T: ref("Colour", true)}, {Name: "pg", In: "query", T: ref("Page", false)}},
					Rets: []aRet{{"ok", pt(ref("Order", false))}}},
				{Method: "GET", Path: "/custs/{c}/{e}", Params: []aParam{{Name: "c", In: "path", T: ref("Cust", false)}, {Name: "e", In: "path", T: ref("Colour", false)},
					{Name: "t", In: "query", T: ref("Cust", true)}}, Rets: []aRet{{"ok", pt(ref("Order", false))}}}}},
		{Name: "NestedReturns", Version: "1.0", Desc: "Returns inside blocks", Style: "sysl", Types: []aTypeDef{
			{Name: "Item", Kind: "tuple", Fields: []aField{{"id", prim("int", false)}}},
			{Name: "Err", Kind: "tuple", Fields: []aField{{"msg", prim("string", false)}}}},
			Endpoints: []aEndpoint{
				{Method: "GET", Path: "/x", Rets: []aRet{{"404", pt(ref("Err", false))}, {"ok", pt(ref("Item", false))}, {"500", pt(ref("Err", false))},
					{"201", pt(ref("Item", false))}, {"202", nil}, {"203", pt(ref("Item", false))}, {"204", nil}, {"205", pt(ref("Item", false))}, {"error", pt(ref("Err", false))}},
					Wrap: []string{"if", "else", "foreach", "oneof", "oneof", "until", "while", "deep", ""}},
				{Method: "GET", Path: "/same", Rets: []aRet{{"ok", pt(ref("Item", false))}, {"ok", pt(ref("Err", false))}}, Wrap: []string{"if", "else"}},
				{Plain: true, Path: "Login", Rets: []aRet{{"ok", pt(ref("Item", false))}}}}},
		{Name: "BareQuery", Version: "1.0", Style: "sysl", Types: []aTypeDef{
			{Name: "Status", Kind: "alias", Alias: pt(prim("string", false))}},
			Endpoints: []aEndpoint{{Method: "GET", Path: "/orders", Params: []aParam{{Name: "status", In: "query", T: aType{Kind: "ref", Ref: "Status", Bare: true}}},
				Rets: []aRet{{"ok", pt(prim("string", false))}}}}},
		{Name: "Imported", Version: "1.0", Style: "imported", Types: []aTypeDef{
			{Name: "Obj", Kind: "tuple", Fields: []aField{{"name", prim("string", true)}, {"id", prim("int", false)}, {"parts", seq(ref("Obj", false), true)}}}},
			Endpoints: []aEndpoint{{Method: "POST", Path: "/test/{key}", Params: []aParam{
				{"key", "path", prim("string", false)}, {"q", "query", prim("int", true)}, {"min_date", "header", prim("string", false)}, {"k", "header", prim("int", true)},
				{"createrequest", "body", ref("Obj", false)}},
				Rets: []aRet{{"200", pt(ref("Obj", false))}, {"404", nil}}}}},
	}
}
