package main

// The command `sysl export` through the REAL BINARY ($VERIF_SYSL_BIN): the matrix
//
//	-f (none) | swagger | openapi2 | openapi3 | an unknown format
//	-o (none) | x.json | x.yaml | x.yml | x | x.JSON | a.b/x | sub/dir/x.json | %(appname).json | %(appname).yaml | pre.%(appname).post.yaml
//	-a (none) | an application of the module | a namespaced one | one that does not exist
//
// on a module with several applications.  ORACLE (reads nothing but the files and the exit status): a file named *.json
// is JSON, a file named *.yaml / *.yml is YAML and not JSON; every file decodes to the document the library call
// (runExport2 / runExport3, the steps of writeSwaggerForApp) gives for exactly one application, by the exporter -f names;
// without -a every application has its file, with -a exactly the named one; a combination that asks for nothing unusual
// (extension json / yaml, a known format, an existing application) must succeed.  The observation (error class, or the
// files as name token / exporter / syntax / application) is compared with Export/CliExport.v inside Coq.

import (
	"bytes"
	"encoding/json"
	"fmt"
	"os"
	"os/exec"
	"path/filepath"
	"reflect"
	"sort"
	"strings"
	"sync"
	"time"

	"github.com/ghodss/yaml"

	"verifharness/common"
)

type cliCase struct {
	Args   []string `json:"args"`   // as given to `sysl export` (without the module name)
	Format string   `json:"format"` // value of -f, "" = flag absent
	Out    string   `json:"out"`    // value of -o, "" = flag absent
	App    string   `json:"app"`    // value of -a, "" = flag absent
	Module string   `json:"module"` // Sysl text
	Apps   []string `json:"apps"`   // application names of the module
}

type cliFile struct {
	Rel   string
	Bytes []byte
}

type cliRun struct {
	Status  int
	Output  string
	Files   []cliFile
	Timeout bool
}

const cliHeader = `From Coq Require Import String List NArith ZArith Bool.
Import ListNotations.
Require Import Verif.Export.CliExport Verif.Export.Run Verif.Base.Harness.
Local Open Scope string_scope.`

const cliFooter = `Definition M := Eval vm_compute in mismatches c12c_ok cases.
Print M.`

func runCli(bin string, cc cliCase) (r cliRun) {
	dir, err := os.MkdirTemp("", "c12cli")
	if err != nil {
		r.Status = -1
		r.Output = err.Error()
		return r
	}
	defer os.RemoveAll(dir)
	os.WriteFile(filepath.Join(dir, "m.sysl"), []byte(cc.Module), 0o644)
	cmd := exec.Command(bin, append(append([]string{"export"}, cc.Args...), "m.sysl")...)
	cmd.Dir = dir
	var outb bytes.Buffer
	cmd.Stdout, cmd.Stderr = &outb, &outb
	if err := cmd.Start(); err != nil {
		r.Status = -1
		r.Output = err.Error()
		return r
	}
	done := make(chan error, 1)
	go func() { done <- cmd.Wait() }()
	select {
	case err := <-done:
		if ee, ok := err.(*exec.ExitError); ok {
			r.Status = ee.ExitCode()
		} else if err != nil {
			r.Status = -1
		}
	case <-time.After(60 * time.Second):
		cmd.Process.Kill()
		<-done
		r.Timeout = true
	}
	r.Output = outb.String()
	filepath.Walk(dir, func(p string, info os.FileInfo, err error) error {
		if err != nil || info.IsDir() {
			return nil
		}
		rel, _ := filepath.Rel(dir, p)
		if rel == "m.sysl" {
			return nil
		}
		b, _ := os.ReadFile(p)
		r.Files = append(r.Files, cliFile{rel, b})
		return nil
	})
	return r
}

// the documents the library calls give: exporter ("swagger" | "openapi3") -> application -> decoded document
func libraryDocs(text string) (map[string]map[string]interface{}, []string, string) {
	m, perr := compile(text)
	if perr != "" {
		return nil, nil, perr
	}
	docs := map[string]map[string]interface{}{"swagger": {}, "openapi3": {}}
	var names []string
	for n, app := range m.Apps {
		names = append(names, n)
		for ex, out := range map[string]exportOut{"swagger": runExport2(app, "json"), "openapi3": runExport3(app, "json")} {
			if out.Err != "" || out.Panic != "" {
				return nil, nil, fmt.Sprintf("library export %s of %s fails: %s%s", ex, n, out.Err, out.Panic)
			}
			var d interface{}
			if err := json.Unmarshal(out.Bytes, &d); err != nil {
				return nil, nil, "library output is not JSON"
			}
			docs[ex][n] = d
		}
	}
	sort.Strings(names)
	return docs, names, ""
}

var cliModules = []string{
	`Shop:
    @version = "1.0"
    /items/{id <: int}:
        GET ?limit=int?:
            return ok <: Item
    !type Item:
        id <: int
        name <: string?
Ns :: Deep:
    @version = "2.0"
    /deep:
        POST (req <: D [~body]):
            return 201 <: D
    !type D:
        x <: string
        ds <: sequence of D?
Zoo:
    @version = "0.1"
    /animals:
        GET:
            return 200 <: sequence of Animal
    !type Animal:
        legs <: int
    !enum Kind:
        cat: 1
        dog: 2
`,
	`Solo "A long name":
    @version = "3"
    /solo:
        GET:
            return ok <: string
    !alias Id:
        int
`,
}

func cliMatrix(c *common.Ctx, g *gen) []cliCase {
	formats := []string{"", "swagger", "openapi2", "openapi3", "bogus"}
	outs := []string{"", "x.json", "x.yaml", "x.yml", "x", "x.JSON", "a.b/x", "sub/dir/x.json", "%(appname).json", "%(appname).yaml", "pre.%(appname).post.yaml", "out/%(appname).json"}
	var cases []cliCase
	for mi, mod := range cliModules {
		_, names, _ := libraryDocs(mod)
		appSel := []string{"", "Nope"}
		appSel = append(appSel, names...)
		for _, f := range formats {
			for _, o := range outs {
				for ai, a := range appSel {
					if !c.Thorough() && !c.Search {
						// quick: the whole -f x -o plane without -a on the first module, a third of the rest
						if !(mi == 0 && ai == 0) && g.r.Intn(3) != 0 {
							continue
						}
					}
					cc := cliCase{Format: f, Out: o, App: a, Module: mod, Apps: names}
					add := func(short, long, v string) {
						if v == "" {
							return
						}
						switch g.r.Intn(3) {
						case 0:
							cc.Args = append(cc.Args, short, v)
						case 1:
							cc.Args = append(cc.Args, long, v)
						default:
							cc.Args = append(cc.Args, long+"="+v)
						}
					}
					add("-f", "--format", f)
					add("-o", "--output", o)
					add("-a", "--app-name", a)
					cases = append(cases, cc)
				}
			}
		}
	}
	return cases
}

func strictJSON(b []byte) bool {
	var v interface{}
	return json.Unmarshal(b, &v) == nil
}

// judgeCli: the oracle for one run; returns the observation as a Gallina term
func judgeCli(cc cliCase, r cliRun, docs map[string]map[string]interface{}, fail func(key, format string, a ...interface{})) string {
	apps := cc.Apps
	if r.Timeout {
		fail("cli:nontermination", "sysl export %v did not terminate within 60 s", cc.Args)
		return ""
	}
	if strings.Contains(r.Output, "panic:") || strings.Contains(r.Output, "goroutine ") {
		fail("cli:panic", "sysl export %v dies with a Go panic: %s", cc.Args, firstLine(r.Output))
		return ""
	}
	out := cc.Out
	if out == "" {
		out = "%(appname).yaml"
	}
	ext := filepath.Ext(out)
	wantEx := map[string]string{"": "swagger", "swagger": "swagger", "openapi2": "swagger", "openapi3": "openapi3"}[cc.Format]
	appExists := cc.App == ""
	for _, n := range apps {
		appExists = appExists || n == cc.App
	}
	usual := (ext == ".json" || ext == ".yaml") && wantEx != "" && appExists
	if r.Status != 0 {
		if usual {
			fail("cli:unexpected-failure", "sysl export %v fails with status %d: %s", cc.Args, r.Status, firstLine(r.Output))
		}
		if len(r.Files) > 0 {
			fail("cli:files-after-error", "sysl export %v exits with status %d but left %d file(s)", cc.Args, r.Status, len(r.Files))
		}
		cls := "other"
		switch {
		case strings.Contains(r.Output, "could not determine output format"):
			cls = "extension"
		case strings.Contains(r.Output, "app not found in the Sysl file"):
			cls = "app not found"
		case strings.Contains(r.Output, "unsupported export format"):
			cls = "unsupported export format"
		}
		return "(XErr " + coqString(cls) + ")"
	}
	if len(r.Files) == 0 {
		fail("cli:success-without-output", "sysl export %v exits with status 0 and writes nothing", cc.Args)
		return "(XFiles [])"
	}
	type obs struct{ name, ex, syn, app string }
	var seen []obs
	covered := map[string]int{}
	for _, f := range r.Files {
		isJSON := strictJSON(f.Bytes)
		syn := "yaml"
		if isJSON {
			syn = "json"
		}
		var doc interface{}
		switch fe := strings.ToLower(filepath.Ext(f.Rel)); {
		case fe == ".json":
			if !isJSON {
				fail("cli:wrong-syntax:json", "sysl export %v: %s does not parse as JSON: %s", cc.Args, f.Rel, firstLine(string(f.Bytes)))
			}
		case fe == ".yaml" || fe == ".yml":
			if isJSON {
				fail("cli:wrong-syntax:yaml", "sysl export %v: %s is JSON, not YAML: %s", cc.Args, f.Rel, firstLine(string(f.Bytes)))
			}
		}
		yj, err := yaml.YAMLToJSON(f.Bytes)
		if err != nil || json.Unmarshal(yj, &doc) != nil {
			fail("cli:unreadable-output", "sysl export %v: %s is neither JSON nor YAML", cc.Args, f.Rel)
			continue
		}
		dm, _ := doc.(map[string]interface{})
		ex := "?"
		switch {
		case dm["openapi"] != nil:
			ex = "openapi3"
		case dm["swagger"] != nil:
			ex = "swagger"
		}
		if wantEx != "" && ex != wantEx {
			fail("cli:wrong-exporter", "sysl export %v: %s is a %s document, -f asks for %s", cc.Args, f.Rel, ex, wantEx)
		}
		app := "?"
		for _, n := range apps {
			if d, ok := docs[ex][n]; ok && reflect.DeepEqual(d, doc) {
				app = n
			}
		}
		if app == "?" {
			fail("cli:differs-from-library", "sysl export %v: %s is not the document the library call gives for any application of the module", cc.Args, f.Rel)
		}
		covered[app]++
		// the name token
		tok := "(FLabel " + coqString("?"+f.Rel) + ")"
		stem := strings.TrimSuffix(out, ext)
		switch {
		case f.Rel == filepath.Clean(out):
			tok = "FLit"
		case !strings.Contains(out, "%(") && f.Rel == filepath.Clean(stem+"."+app+ext):
			tok = "(FInfix " + coqString(app) + ")"
		case strings.Contains(out, "%(") && f.Rel == filepath.Clean(strings.ReplaceAll(out, "%(appname)", app)):
			tok = "(FLabel " + coqString(app) + ")"
		}
		seen = append(seen, obs{tok, ex, syn, app})
	}
	if cc.App == "" {
		for _, n := range apps {
			if covered[n] != 1 {
				fail("cli:one-file-per-application", "sysl export %v: application %s has %d file(s) among %v", cc.Args, n, covered[n], fileNames(r.Files))
			}
		}
	} else if covered[cc.App] != 1 || len(r.Files) != 1 {
		fail("cli:selected-application", "sysl export %v: expected exactly one file, for %s; got %v", cc.Args, cc.App, fileNames(r.Files))
	}
	sort.Slice(seen, func(i, j int) bool { return seen[i].app < seen[j].app })
	var ts []string
	for _, o := range seen {
		ts = append(ts, fmt.Sprintf("(%s, %s, %s, %s)", o.name, coqString(o.ex), coqString(o.syn), coqString(o.app)))
	}
	return "(XFiles " + common.GList(ts) + ")"
}

func fileNames(fs []cliFile) []string {
	var s []string
	for _, f := range fs {
		s = append(s, f.Rel)
	}
	return s
}

func cliCaseTerm(cc cliCase, obs string) string {
	var args []string
	for _, kv := range [][2]string{{"format", cc.Format}, {"output", cc.Out}, {"app-name", cc.App}} {
		if kv[1] != "" {
			args = append(args, fmt.Sprintf("(%s, %s)", coqString(kv[0]), coqString(kv[1])))
		}
	}
	var apps []string
	for _, n := range cc.Apps {
		apps = append(apps, coqString(n))
	}
	return fmt.Sprintf("(%s, %s,\n %s)", common.GList(args), common.GList(apps), obs)
}

func cliStream(c *common.Ctx, g *gen) {
	bin := os.Getenv("VERIF_SYSL_BIN")
	if bin == "" {
		c.Res.Notes = append(c.Res.Notes, "VERIF_SYSL_BIN not set: the command-line stream was skipped")
		return
	}
	cases := cliMatrix(c, g)
	docsOf := map[string]map[string]map[string]interface{}{}
	for _, mod := range cliModules {
		d, _, e := libraryDocs(mod)
		if e != "" {
			c.Fail("harness:cli-module-does-not-export", e, replayT{Kind: "cli", Cli: &cliCase{Module: mod}})
			return
		}
		docsOf[mod] = d
	}
	runs := make([]cliRun, len(cases))
	var wg sync.WaitGroup
	sem := make(chan struct{}, 8)
	for i := range cases {
		wg.Add(1)
		sem <- struct{}{}
		go func(i int) {
			defer wg.Done()
			defer func() { <-sem }()
			runs[i] = runCli(bin, cases[i])
		}(i)
	}
	wg.Wait()
	cs := c.NewCases("C12C", cliHeader, "c12c_case", cliFooter, 200)
	for i, cc := range cases {
		cc := cc
		rp := replayT{Kind: "cli", Cli: &cc}
		c.Count(fmt.Sprintf("cli|%s|%s|%s|%d", cc.Format, cc.Out, cc.App, len(cc.Apps)), true)
		c.Hist("stream:cli")
		c.Hist("cli-format:" + cc.Format)
		c.Hist("cli-ext:" + filepath.Ext(cc.Out))
		obs := judgeCli(cc, runs[i], docsOf[cc.Module], func(key, format string, a ...interface{}) { c.Fail(key, fmt.Sprintf(format, a...), rp) })
		if runs[i].Status == 0 {
			c.Hist("cli-outcome:ok")
		} else {
			c.Hist("cli-outcome:error")
		}
		if obs != "" {
			cs.Add(cliCaseTerm(cc, obs), rp)
			c.Hist("coq-case-cli")
		}
	}
	cs.Close()
}
