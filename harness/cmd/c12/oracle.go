package main

// The model-independent ORACLE of C12: judges the documents the real exporters wrote against the abstract
// application they were generated from (gen.go), reading nothing but the bytes.
//
//	well-formed     yaml and json outputs denote the same document; OpenAPI 3: kin-openapi loads and validates it;
//	                Swagger 2: kin-openapi/openapi2 and go-openapi/spec decode it, and the structural rules of the
//	                Swagger 2 parameter object hold
//	complete        every type is a schema with every field: kind, array-ness and items (also of optional arrays),
//	                reference target, required = exactly the non-optional fields, nothing extra; every REST endpoint is
//	                an operation with its parameters by location (name, required-ness, type), request body, responses
//	round trip      the real importer reads the document back, the result compiles, and its types / endpoints have the
//	                same structure (at the granularity OpenAPI can express: int32/int64 -> integer, float/decimal ->
//	                number; an enum comes back as a string alias carrying the values)
//
// Every failure is reported with an abstract key; the first matching class per document, per clause.

import (
	"context"
	"encoding/json"
	"fmt"
	"reflect"
	"regexp"
	"sort"
	"strconv"
	"strings"

	"github.com/anz-bank/sysl/pkg/sysl"
	"github.com/getkin/kin-openapi/openapi2"
	"github.com/getkin/kin-openapi/openapi3"
	"github.com/ghodss/yaml"
	"github.com/go-openapi/spec"
)

type finding struct{ Key, What string }

type judge struct {
	loadDangling    string // kin-openapi could not load the document because a $ref does not resolve: its message
	validatorGaveUp bool
	fmtName         string // oas3 | swagger
	out             []finding
	seen            map[string]bool
}

func (j *judge) fail(key, format string, a ...interface{}) {
	key = j.fmtName + ":" + key
	if j.seen == nil {
		j.seen = map[string]bool{}
	}
	if j.seen[key] {
		return
	}
	j.seen[key] = true
	j.out = append(j.out, finding{key, fmt.Sprintf(format, a...)})
}

// JSON type + format an OpenAPI document has to show for a Sysl primitive
func primJSON(p string) (typ, format string) {
	if i := strings.Index(p, "("); i >= 0 {
		p = p[:i]
	}
	switch p {
	case "int", "int32", "int64":
		return "integer", ""
	case "float", "decimal":
		return "number", ""
	case "bool":
		return "boolean", ""
	case "date":
		return "string", "date"
	case "datetime":
		return "string", "date-time"
	case "bytes":
		return "string", ""
	}
	return "string", ""
}

func primClass(p string) string {
	if i := strings.Index(p, "("); i >= 0 {
		p = p[:i]
	}
	switch p {
	case "int32", "int64":
		return "int"
	case "decimal":
		return "float"
	}
	return p
}

func tyDesc(t aType) string {
	o := ""
	if t.Opt {
		o = ":optional"
	}
	switch t.Kind {
	case "prim":
		return primClass(t.Prim)
	case "ref":
		return "ref"
	}
	return t.Kind + o
}

// checkType: does schema s (decoded JSON) present type t?  where: human-readable location; role: field / param / response ...
func (j *judge) checkType(t aType, sv interface{}, refPrefix, role, where string) {
	s := asMap(sv)
	if sv == nil || s == nil {
		j.fail(role+"-schema-missing:"+tyDesc(t), "%s: no schema", where)
		return
	}
	switch t.Kind {
	case "prim":
		wt, wf := primJSON(t.Prim)
		if j.fmtName == "swagger" {
			role = "any" // one root cause whatever the position (used by prim-as-ref only)
		}
		// the one known way the Swagger primitive table is wrong: int -> number/integer, date(-time) -> string/string;
		// any other wrong kind gets the key of its position
		gotT, gotF := asStr(s["type"]), asStr(s["format"])
		kindKey := role + "-kind:" + primClass(t.Prim)
		if j.fmtName == "swagger" {
			kindKey = "unexpected-kind:" + primClass(t.Prim)
			switch pc := primClass(t.Prim); {
			case pc == "int" && gotT == "number" && gotF == "integer", (pc == "date" || pc == "datetime") && gotT == "string" && gotF == "string":
				kindKey = "any-kind:" + pc
			}
		}
		if r := asStr(s["$ref"]); r != "" {
			j.fail(role+"-prim-as-ref", "%s: primitive %s is written as a reference %s", where, t.Prim, r)
		} else if gotT != wt {
			j.fail(kindKey, "%s: %s must be of JSON type %s, schema says type=%q format=%q", where, t.Prim, wt, gotT, gotF)
		} else if wf != "" && gotF != wf {
			j.fail(kindKey, "%s: %s must have format %s, schema says format=%q", where, t.Prim, wf, gotF)
		}
		if _, has := s["properties"]; has {
			j.fail("extra-content:properties-on-primitive", "%s: the schema of primitive %s has properties: %s", where, t.Prim, compact(s["properties"]))
		}
	case "ref":
		got := asStr(s["$ref"])
		if t.FK != "" && got == refPrefix+t.Ref+"/properties/"+t.FK {
			return // a foreign key may name the table or the field of the table
		}
		if i := strings.LastIndex(t.Ref, "."); i >= 0 {
			// a nested (in-place) type "Outer.field" or a type of another application "App.Type".  The known shapes:
			// OpenAPI 3 refers to the last component (judged by the dangling-reference rule, own key), Swagger writes
			// {type: object, format: <field>} resp. {type: object, format: <App>}
			last, first, cls := t.Ref[i+1:], t.Ref[:i], "cross-application"
			if t.Nested {
				cls = "nested-type"
			}
			switch {
			case got == refPrefix+t.Ref:
			case j.fmtName == "oas3" && got == refPrefix+last && len(s) == 1:
			case j.fmtName == "swagger" && asStr(s["type"]) == "object" && (t.Nested && asStr(s["format"]) == last || !t.Nested && asStr(s["format"]) == first):
				j.fail("ref-as-format:"+cls, "%s: reference to %s is written as %s", where, t.Ref, compact(s))
			default:
				j.fail(role+"-ref-target:"+cls, "%s: must refer to %s, schema is %v", where, t.Ref, compact(s))
			}
			return
		}
		if asStr(s["$ref"]) != refPrefix+t.Ref {
			if j.fmtName == "swagger" && asStr(s["format"]) == t.Ref && asStr(s["type"]) == "object" {
				j.fail("ref-as-format", "%s: reference to %s is written as {type: object, format: %s}, not as $ref", where, t.Ref, t.Ref)
			} else {
				j.fail(role+"-ref-target", "%s: must refer to %s%s, schema is %v", where, refPrefix, t.Ref, compact(s))
			}
		}
	case "seq", "set":
		opt := ""
		if t.Opt {
			opt = ":optional"
		}
		if asStr(s["type"]) != "array" {
			key := role + "-arrayness:" + t.Kind + opt
			if j.fmtName == "swagger" && role == "response" && !(asStr(s["$ref"]) == refPrefix+t.Elem.Ref+t.Elem.Prim && len(s) == 1) {
				key = "response-arrayness-unexpected:" + t.Kind // not the known shape "$ref to the last word of the type text"
			}
			j.fail(key, "%s: %s must be an array, schema is %v", where, typeText(t), compact(s))
			return
		}
		if _, has := s["properties"]; has {
			j.fail("extra-content:properties-on-array", "%s: the array schema of %s has properties: %s", where, typeText(t), compact(s["properties"]))
		}
		it, ok := s["items"]
		if !ok {
			j.fail(role+"-items-missing:"+t.Kind+opt, "%s: array %s has no items", where, typeText(t))
			return
		}
		j.checkType(*t.Elem, it, refPrefix, role+"-items", where+"[]")
	}
}

func compact(v interface{}) string {
	b, _ := json.Marshal(v)
	if len(b) > 160 {
		b = append(b[:160], "..."...)
	}
	return string(b)
}

func retCode(name string) string {
	switch name {
	case "ok", "":
		return "200"
	case "error":
		return "default"
	}
	return name
}

// ---------------------------------------------------------------- decoding / well-formedness

func decodeBoth(j *judge, jsonB, yamlB []byte) map[string]interface{} {
	var dj, dy map[string]interface{}
	if err := json.Unmarshal(jsonB, &dj); err != nil {
		j.fail("not-well-formed:json-syntax", "json output does not parse: %v", err)
		return nil
	}
	yj, err := yaml.YAMLToJSON(yamlB)
	if err != nil {
		j.fail("not-well-formed:yaml-syntax", "yaml output does not parse: %v", err)
		return dj
	}
	if err := json.Unmarshal(yj, &dy); err != nil || !reflect.DeepEqual(dj, dy) {
		j.fail("yaml-json-differ", "yaml and json outputs denote different documents")
	}
	return dj
}

var quotedRE = regexp.MustCompile(`"[^"]*"|'[^']*'|\d+|invalid path \S+|invalid operation \S+|#/\S+`)

func errClass(err error) string {
	s := err.Error()
	if len(s) > 90 {
		s = s[:90]
	}
	s = quotedRE.ReplaceAllString(s, "_")
	s = strings.Map(func(r rune) rune {
		if r == ' ' || r == ':' {
			return '-'
		}
		if (r >= 'a' && r <= 'z') || (r >= 'A' && r <= 'Z') || r == '_' {
			return r
		}
		return -1
	}, s)
	if len(s) > 60 {
		s = s[:60]
	}
	return s
}

// rules of the specification checked directly on the decoded document (also when the validator gives up):
// every $ref names an existing component schema; every {name} of a path template is a declared, required path parameter
func ownRules3(j *judge, doc map[string]interface{}, a aApp) {
	schemas := asMap(asMap(doc["components"])["schemas"])
	// the two known ways a reference dangles: the last component of a nested type's name, of a type of another application
	nestedLast, crossLast := map[string]bool{}, map[string]bool{}
	var note func(t aType)
	note = func(t aType) {
		if t.Elem != nil {
			note(*t.Elem)
		}
		if i := strings.LastIndex(t.Ref, "."); t.Kind == "ref" && i >= 0 {
			crossLast[t.Ref[i+1:]] = true
		}
	}
	for _, td := range a.Types {
		for _, f := range td.Fields {
			if f.T.Kind == "inline" {
				nestedLast[f.Name] = true
			}
			note(f.T)
		}
		if td.Alias != nil {
			note(*td.Alias)
		}
	}
	for _, ep := range a.Endpoints {
		for _, p := range ep.Params {
			note(p.T)
		}
		for _, r := range ep.Rets {
			if r.T != nil {
				note(*r.T)
			}
		}
	}
	dangling := 0
	var walk func(v interface{}, where string)
	walk = func(v interface{}, where string) {
		switch x := v.(type) {
		case map[string]interface{}:
			if r, ok := x["$ref"].(string); ok {
				n := strings.TrimPrefix(r, "#/components/schemas/")
				if n == r || schemas[n] == nil {
					dangling++
					switch {
					case n != r && nestedLast[n]:
						j.fail("not-well-formed:dangling-ref:nested-type", "%s: $ref %s names no component schema (the nested type is exported under its full name <Outer>.%s)", where, r, n)
					case n != r && crossLast[n]:
						j.fail("not-well-formed:dangling-ref:cross-application", "%s: $ref %s names no component schema (%s is a type of another application; the document holds one application)", where, r, n)
					default:
						j.fail("not-well-formed:dangling-ref", "%s: $ref %s names no component schema", where, r)
					}
				}
			}
			for k, c := range x {
				walk(c, where+"/"+k)
			}
		case []interface{}:
			for _, c := range x {
				walk(c, where)
			}
		}
	}
	walk(doc, "")
	if j.loadDangling != "" && dangling == 0 {
		j.fail("not-well-formed:load:unresolved-reference", "kin-openapi cannot load the document: %s", j.loadDangling)
	}
	for path, pi := range asMap(doc["paths"]) {
		for meth, opv := range asMap(pi) {
			declared := map[string]bool{}
			for _, pv := range asList(asMap(opv)["parameters"]) {
				p := asMap(pv)
				if asStr(p["in"]) == "path" {
					if r, _ := p["required"].(bool); !r {
						j.fail("not-well-formed:path-param-not-required", "%s %s: path parameter %v must be required", meth, path, p["name"])
					}
					declared[asStr(p["name"])] = true
				}
			}
			for _, seg := range strings.Split(path, "/") {
				if strings.HasPrefix(seg, "{") && strings.HasSuffix(seg, "}") && !declared[seg[1:len(seg)-1]] {
					j.fail("not-well-formed:undeclared-path-param", "%s %s: %s is not declared as a path parameter", meth, path, seg)
				}
			}
			if asMap(opv)["responses"] == nil {
				j.fail("not-well-formed:no-responses", "%s %s: responses is required", meth, path)
			}
		}
	}
	if asStr(asMap(doc["info"])["title"]) == "" || asStr(asMap(doc["info"])["version"]) == "" {
		j.fail("not-well-formed:info", "info.title and info.version are required")
	}
	checkInfo(j, doc, a)
}

// the info attributes the exporters read: a version / description in the document is the one of the application
func checkInfo(j *judge, doc map[string]interface{}, a aApp) {
	info := asMap(doc["info"])
	if v := asStr(info["version"]); a.Version != "" && v != a.Version {
		j.fail("info:version", "@version = %q is exported as info.version %q", a.Version, v)
	}
	if d, has := info["description"]; a.Desc != "" && (!has || asStr(d) != a.Desc) {
		j.fail("info:description", "@description = %q is exported as info.description %v", a.Desc, d)
	}
	if a.Server != "" && j.fmtName == "oas3" {
		srv := asList(doc["servers"])
		if len(srv) != 1 || asStr(asMap(srv[0])["url"]) != a.Server {
			j.fail("info:server", "@env.1.url = %q is exported as servers %s", a.Server, compact(doc["servers"]))
		}
	}
}

func wellFormed3(j *judge, jsonB []byte, a aApp) {
	loader := openapi3.NewLoader()
	doc, err := loader.LoadFromData(jsonB)
	if err != nil && strings.Contains(err.Error(), "kin-openapi bug found: circular schema reference not handled") {
		// the validator gives up on some reference cycles and says so itself: no verdict from it for this document
		// (every $ref is still checked against the type it has to name by the completeness clauses)
		j.validatorGaveUp = true
		return
	}
	if err != nil && strings.Contains(err.Error(), "failed to resolve") && strings.Contains(err.Error(), "#/components/schemas/") {
		// a $ref that names no component schema: reported, with the reference, by ownRules3
		j.loadDangling = firstLine(err.Error())
		return
	}
	if err != nil {
		j.fail("not-well-formed:load:"+errClass(err), "kin-openapi cannot load the document: %v", err)
		return
	}
	if err := doc.Validate(context.Background()); err != nil {
		// known: an RPC-style endpoint (one-word name) is exported as the GET operation of the "path" that is its name
		for _, ep := range a.Endpoints {
			if ep.Plain && strings.Contains(err.Error(), fmt.Sprintf("path %q does not start with a forward slash", ep.Path)) {
				j.fail("not-well-formed:rpc-endpoint-as-path", "the RPC-style endpoint %s is exported as the operation GET of the path %q, which is not a path: %v", ep.Path, ep.Path, firstLine(err.Error()))
				return
			}
		}
		j.fail("not-well-formed:validate:"+errClass(err), "kin-openapi rejects the document: %v", err)
	}
}

// every $ref of a Swagger document has to name a definition; the two known ways the exporter writes a dangling one
// (a bare `return ok|error` read as a type, a primitive return type read as a definition name) keep their own keys
func danglingRefs2(j *judge, doc map[string]interface{}) {
	defs := asMap(doc["definitions"])
	var walk func(v interface{}, where string)
	walk = func(v interface{}, where string) {
		switch x := v.(type) {
		case map[string]interface{}:
			if r, ok := x["$ref"].(string); ok {
				n := strings.TrimPrefix(r, "#/definitions/")
				if n == r || defs[n] == nil {
					switch primClass(n) {
					case "ok", "error":
						j.fail("bare-status-as-type", "%s: $ref %s: a `return %s` without payload was exported as a reference to a type of that name", where, r, n)
					case "string", "int", "bool", "float", "date", "datetime", "bytes":
						j.fail("any-prim-as-ref", "%s: primitive %s is written as a reference %s", where, n, r)
					default:
						j.fail("not-well-formed:dangling-ref", "%s: $ref %s names no definition", where, r)
					}
				}
			}
			for k, c := range x {
				walk(c, where+"/"+k)
			}
		case []interface{}:
			for _, c := range x {
				walk(c, where)
			}
		}
	}
	walk(doc["paths"], "paths")
	walk(doc["definitions"], "definitions")
}

func wellFormed2(j *judge, jsonB []byte, doc map[string]interface{}, a aApp) {
	danglingRefs2(j, doc)
	var k openapi2.T
	if err := json.Unmarshal(jsonB, &k); err != nil {
		j.fail("not-well-formed:decode-kin:"+errClass(err), "kin-openapi/openapi2 cannot decode the document: %v", err)
	}
	var g spec.Swagger
	if err := json.Unmarshal(jsonB, &g); err != nil {
		j.fail("not-well-formed:decode-go-openapi:"+errClass(err), "go-openapi/spec cannot decode the document: %v", err)
	}
	if asStr(doc["swagger"]) != "2.0" {
		j.fail("not-well-formed:version", "swagger field is %v", doc["swagger"])
	}
	info := asMap(doc["info"])
	if asStr(info["title"]) == "" {
		j.fail("not-well-formed:info-title", "info.title is required and missing")
	}
	if asStr(info["version"]) == "" {
		j.fail("not-well-formed:info-version", "info.version is required and missing")
	}
	checkInfo(j, doc, a)
	// the parameter object of Swagger 2
	for path, pi := range asMap(doc["paths"]) {
		for meth, opv := range asMap(pi) {
			where := meth + " " + path
			// the parameters of this operation that are of a declared type: by location, the type names (a header
			// parameter may be exported without its name), and the query parameters written without braces
			declared, bareQ := map[string]map[string]int{"path": {}, "query": {}, "header": {}}, map[string]bool{}
			for _, ep := range a.Endpoints {
				if ep.Plain || ep.Path != path || strings.ToLower(ep.Method) != meth {
					continue
				}
				for _, ap := range ep.Params {
					if ap.T.Kind == "ref" && ap.In != "body" {
						if ap.T.Bare {
							bareQ[ap.Name] = true
						} else {
							declared[ap.In][ap.T.Ref]++
						}
					}
				}
			}
			for _, pv := range asList(asMap(opv)["parameters"]) {
				p := asMap(pv)
				in := asStr(p["in"])
				_, hasSchema := p["schema"]
				refShape := false
				// known shape 1: a path / query / header parameter of declared type T is written as
				// {type: object, format: T, schema: {$ref: T}} - Swagger 2 has no such parameter (own key, by location)
				if f := asStr(p["format"]); in != "body" && hasSchema && asStr(p["type"]) == "object" && declared[in][f] > 0 &&
					asStr(asMap(p["schema"])["$ref"]) == "#/definitions/"+f && len(asMap(p["schema"])) == 1 {
					declared[in][f]--
					refShape = true
					j.fail("not-well-formed:reference-typed-param:"+in, "%s: the %s parameter of declared type %s is written as %s; a Swagger 2 non-body parameter has a primitive type and no schema", where, in, f, compact(p))
				}
				// known shape 2: `?status=Status` (no braces) reaches the exporter without a type: {in: query, name: status}
				if _, hasType := p["type"]; in == "query" && bareQ[asStr(p["name"])] && !hasType && !hasSchema {
					j.fail("not-well-formed:param-without-type:query-bare-type-name", "%s: query parameter %v has neither type nor schema: %s", where, p["name"], compact(p))
					continue
				}
				switch {
				case asStr(p["name"]) == "":
					j.fail("not-well-formed:param-without-name:"+in, "%s: a parameter in %q has no name: %s", where, in, compact(p))
				case in == "":
					j.fail("not-well-formed:param-without-in", "%s: parameter %v has no `in`", where, p["name"])
				}
				if hasSchema && in != "body" && !refShape {
					j.fail("not-well-formed:schema-on-non-body-param:"+in, "%s: parameter in %q carries a schema (only body parameters may): %s", where, in, compact(p))
				}
				if in == "body" && !hasSchema {
					j.fail("not-well-formed:body-param-without-schema", "%s: body parameter without schema", where)
				}
				if in == "path" {
					if r, _ := p["required"].(bool); !r {
						j.fail("not-well-formed:path-param-not-required", "%s: path parameter %v must have required: true", where, p["name"])
					}
				}
				if in != "body" && !refShape {
					switch asStr(p["type"]) {
					case "string", "number", "integer", "boolean", "array", "file":
					default:
						j.fail("not-well-formed:param-type:"+asStr(p["type"]), "%s: parameter %v in %q has type %q (must be string, number, integer, boolean, array or file)", where, p["name"], in, asStr(p["type"]))
					}
				}
			}
		}
	}
}

// ---------------------------------------------------------------- completeness

// expandNested: a nested (in-place) type is the type "<Outer>.<field>" plus a reference to it
func expandNested(a aApp) aApp {
	a = cloneApp(a)
	n := len(a.Types)
	for i := 0; i < n; i++ {
		for fi, f := range a.Types[i].Fields {
			if f.T.Kind == "inline" {
				full := a.Types[i].Name + "." + f.Name
				a.Types = append(a.Types, aTypeDef{Name: full, Kind: "tuple", Fields: f.T.Fields})
				a.Types[i].Fields[fi].T = aType{Kind: "ref", Ref: full, Nested: true, Opt: f.T.Opt}
			}
		}
	}
	return a
}

func (j *judge) checkTypes(a aApp, schemas map[string]interface{}, refPrefix string) {
	a = expandNested(a)
	for _, td := range a.Types {
		sv, ok := schemas[td.Name]
		if !ok {
			j.fail("missing-type:"+td.Kind, "type %s (%s) has no schema", td.Name, td.Kind)
			continue
		}
		s := asMap(sv)
		switch td.Kind {
		case "union":
			// oneOf / anyOf with a reference to every alternative; the known shape is the empty schema
			alts := asList(s["oneOf"])
			if alts == nil {
				alts = asList(s["anyOf"])
			}
			if len(s) == 0 {
				j.fail("type-kind:union-as-empty-schema", "union %s of %v is exported as the empty schema {}", td.Name, td.Alts)
				continue
			}
			for _, alt := range td.Alts {
				found := false
				for _, av := range alts {
					found = found || asStr(asMap(av)["$ref"]) == refPrefix+alt
				}
				if !found {
					j.fail("type-kind:union", "union %s: alternative %s is not among oneOf / anyOf of %s", td.Name, alt, compact(s))
				}
			}
		case "tuple", "table", "map":
			if asStr(s["type"]) != "object" {
				j.fail("type-kind:"+td.Kind, "type %s (%s) must be an object schema, is %s", td.Name, td.Kind, compact(s))
				continue
			}
			props := asMap(s["properties"])
			want := map[string]bool{}
			for _, f := range td.Fields {
				want[f.Name] = true
				pv, ok := props[f.Name]
				if !ok {
					j.fail("missing-field:"+tyDesc(f.T), "%s.%s <: %s has no property", td.Name, f.Name, typeText(f.T))
					continue
				}
				j.checkType(f.T, pv, refPrefix, "field", td.Name+"."+f.Name)
			}
			for k := range props {
				if !want[k] {
					j.fail("extra-field", "schema %s has a property %s the type does not have", td.Name, k)
				}
			}
			req := map[string]bool{}
			for _, r := range asList(s["required"]) {
				if req[asStr(r)] {
					j.fail("required:duplicate", "schema %s lists %s twice in required", td.Name, asStr(r))
				}
				req[asStr(r)] = true
			}
			_, hasReq := s["required"]
			for _, f := range td.Fields {
				if td.Kind == "map" {
					break // a json_map_key type describes the entries of a map: nothing is demanded of `required`
				}
				switch {
				case !f.T.Opt && !req[f.Name] && !hasReq:
					j.fail("required:not-exported", "schema %s has no required list, but %s.%s <: %s is not optional", td.Name, td.Name, f.Name, typeText(f.T))
				case !f.T.Opt && !req[f.Name]:
					j.fail("required:missing:"+tyDesc(f.T), "%s.%s <: %s is not optional but not listed in required %v", td.Name, f.Name, typeText(f.T), s["required"])
				case f.T.Opt && req[f.Name] && td.Kind == "table" && f.T.Kind == "ref":
					// known: MapType does not copy the `?` of a reference attribute of a table
					j.fail("required:extra:table-ref", "%s.%s <: %s (a reference attribute of a !table) is optional but listed in required", td.Name, f.Name, typeText(f.T))
				case f.T.Opt && req[f.Name]:
					j.fail("required:extra:"+tyDesc(f.T), "%s.%s <: %s is optional but listed in required", td.Name, f.Name, typeText(f.T))
				}
			}
			for r := range req {
				if !want[r] {
					j.fail("required:unknown-name", "schema %s requires %s, which is not a field", td.Name, r)
				}
			}
		case "enum":
			got := map[string]bool{}
			for _, e := range asList(s["enum"]) {
				got[asStr(e)] = true
			}
			if _, has := s["properties"]; has {
				j.fail("extra-content:properties-on-enum", "enum %s is exported with properties: %s", td.Name, compact(s["properties"]))
			}
			if _, has := s["enum"]; !has {
				// the known shape of the Swagger exporter is exactly {type: number, format: integer}
				if j.fmtName == "swagger" && !(len(s) == 2 && asStr(s["type"]) == "number" && asStr(s["format"]) == "integer") {
					j.fail("enum-schema-unexpected", "enum %s is exported as %s", td.Name, compact(s))
				} else {
					j.fail("enum-values:dropped", "enum %s is exported without its values: %s", td.Name, compact(s))
				}
				continue
			}
			for _, e := range td.Enum {
				if !got[e.Name] {
					j.fail("enum-values:missing", "enum %s: value %s is missing from %v", td.Name, e.Name, s["enum"])
				}
			}
			if len(got) != len(td.Enum) || len(asList(s["enum"])) != len(td.Enum) {
				j.fail("enum-values:extra", "enum %s has %d values, schema lists %v", td.Name, len(td.Enum), s["enum"])
			}
		case "alias":
			j.checkType(*td.Alias, sv, refPrefix, "alias", td.Name)
			if _, has := s["properties"]; has && td.Alias.Kind == "ref" {
				j.fail("extra-content:properties-on-alias", "alias %s = %s is exported with properties: %s", td.Name, typeText(*td.Alias), compact(s["properties"]))
			}
		}
	}
	names := map[string]bool{}
	for _, td := range a.Types {
		names[td.Name] = true
	}
	for k, sv := range schemas {
		if names[k] {
			continue
		}
		// the known extra definitions of the Swagger exporter: one per set / sequence attribute, under the attribute's
		// name, holding that attribute's array schema and nothing else
		explained := false
		if j.fmtName == "swagger" {
			for _, td := range a.Types {
				for _, f := range td.Fields {
					if f.Name == k && (f.T.Kind == "seq" || f.T.Kind == "set") {
						sm := asMap(sv)
						_, hasItems := sm["items"]
						explained = explained || (asStr(sm["type"]) == "array" && hasItems && len(sm) == 2)
					}
				}
			}
		}
		if explained {
			j.fail("extra-schema", "the document defines a schema %s that is not a type of the application (copy of a set / sequence attribute)", k)
		} else {
			j.fail("extra-schema-unexpected", "the document defines a schema %s = %s that is neither a type of the application nor the copy of a set / sequence attribute", k, compact(sv))
		}
	}
}

// schema of a Swagger 2 non-body parameter is the parameter object itself
func (j *judge) checkEndpoints(a aApp, doc map[string]interface{}, refPrefix string) {
	paths := asMap(doc["paths"])
	for _, ep := range a.Endpoints {
		if ep.Plain {
			continue
		}
		where := ep.Method + " " + ep.Path
		op := asMap(asMap(paths[ep.Path])[strings.ToLower(ep.Method)])
		if op == nil {
			j.fail("missing-operation", "%s has no operation", where)
			continue
		}
		byKey := map[string]map[string]interface{}{}
		unnamedHeaders, bodyAsHeader, nAnon, missingHeaders, missingBodies := 0, 0, 0, 0, 0
		var bodyParams []map[string]interface{}
		for _, pv := range asList(op["parameters"]) {
			p := asMap(pv)
			if asStr(p["in"]) == "body" {
				bodyParams = append(bodyParams, p)
				continue
			}
			k := asStr(p["in"]) + "/" + asStr(p["name"])
			if j.fmtName == "swagger" && asStr(p["name"]) == "" && asStr(p["in"]) == "header" {
				// the known shapes: an unnamed header parameter (no name="..") and the body parameter written as header
				if _, hasSchema := p["schema"]; hasSchema {
					bodyAsHeader++
				} else {
					unnamedHeaders++
				}
				if byKey[k] != nil {
					j.fail("duplicate-param", "%s lists parameter %s twice", where, k)
				}
				byKey[k] = p
				nAnon++
				continue
			}
			if byKey[k] != nil {
				j.fail("duplicate-param-named", "%s lists parameter %s twice", where, k)
			}
			byKey[k] = p
		}
		// an unnamed header parameter that carries a schema is either the body parameter (known) or a header parameter of a
		// declared type written in the hand-written style (no name=".."): as many of the latter as the endpoint has
		if j.fmtName == "swagger" {
			nRefHdr := 0
			for _, p := range ep.Params {
				if p.In == "header" && p.T.Kind == "ref" && byKey["header/"+p.Name] == nil {
					nRefHdr++
				}
			}
			if nRefHdr > bodyAsHeader {
				nRefHdr = bodyAsHeader
			}
			bodyAsHeader -= nRefHdr
			unnamedHeaders += nRefHdr
		}
		nWant := 0
		for _, p := range ep.Params {
			if p.In == "body" {
				var sch interface{}
				var reqV interface{}
				found := false
				if j.fmtName == "oas3" {
					if rb, ok := op["requestBody"]; ok {
						found = true
						sch = asMap(asMap(asMap(rb)["content"])["application/json"])["schema"]
						reqV = asMap(rb)["required"]
					}
				} else if len(bodyParams) > 0 {
					found = true
					sch = bodyParams[0]["schema"]
					reqV = bodyParams[0]["required"]
				}
				if !found {
					missingBodies++
					if j.fmtName == "swagger" && missingBodies > bodyAsHeader {
						j.fail("missing-body-unexplained", "%s: body parameter %s <: %s is neither a request body nor the header parameter the exporter is known to write for it", where, p.Name, typeText(p.T))
					} else {
						j.fail("missing-body", "%s: body parameter %s <: %s is not exported as request body", where, p.Name, typeText(p.T))
					}
					continue
				}
				j.checkType(p.T, sch, refPrefix, "body", where+" body")
				if r, _ := reqV.(bool); r != !p.T.Opt {
					j.fail("body-required", "%s: body %s <: %s must have required=%v", where, p.Name, typeText(p.T), !p.T.Opt)
				}
				continue
			}
			nWant++
			got := byKey[p.In+"/"+p.Name]
			if got == nil {
				key := "missing-param:" + p.In
				if j.fmtName == "swagger" {
					// known only for header parameters, and only as many as there are unnamed header parameters
					if p.In == "header" {
						missingHeaders++
					}
					if p.In != "header" || missingHeaders > unnamedHeaders {
						key = "missing-param-unexplained:" + p.In
					}
				}
				j.fail(key, "%s: %s parameter %s <: %s is not among the parameters %s", where, p.In, p.Name, typeText(p.T), compact(op["parameters"]))
				continue
			}
			wantReq := !p.T.Opt || p.In == "path"
			if r, _ := got["required"].(bool); r != wantReq {
				if r { // the known direction is "never required"; a parameter marked required that is optional is something else
					j.fail("param-required-spurious:"+p.In, "%s: %s parameter %s <: %s is optional but marked required", where, p.In, p.Name, typeText(p.T))
				} else {
					j.fail("param-required:"+p.In, "%s: %s parameter %s <: %s must have required=%v", where, p.In, p.Name, typeText(p.T), wantReq)
				}
			}
			if p.T.Bare {
				// `?status=Status`: the parameter has to refer to Status.  The known shape: no schema at all
				// (OpenAPI 3: the empty schema {}; Swagger: neither type nor schema)
				var sch interface{} = got["schema"]
				_, hasType := got["type"]
				if sm, ok := sch.(map[string]interface{}); j.fmtName == "oas3" && ok && len(sm) == 0 || j.fmtName == "swagger" && sch == nil && !hasType {
					j.fail("param-schema-empty:query-bare-type-name", "%s: query parameter %s is written `%s=%s` (no braces); the exported parameter says nothing about its type: %s", where, p.Name, p.Name, p.T.Ref, compact(got))
					continue
				}
			}
			switch {
			case j.fmtName == "oas3":
				j.checkType(p.T, got["schema"], refPrefix, "param", where+" "+p.Name)
			case p.T.Kind == "ref" && got["schema"] != nil:
				// Swagger, declared type: what carries the reference is the schema the exporter attaches
				j.checkType(p.T, got["schema"], refPrefix, "param", where+" "+p.Name)
			default:
				j.checkType(p.T, got, refPrefix, "param", where+" "+p.Name)
			}
		}
		if len(byKey) > nWant {
			// known: the body parameter written as a header parameter is one non-body parameter too many
			if j.fmtName == "swagger" && len(byKey)-nWant <= bodyAsHeader {
				j.fail("extra-param", "%s has %d non-body parameters, the document lists %d: %s", where, nWant, len(byKey), compact(op["parameters"]))
			} else {
				j.fail("extra-param-unexplained", "%s has %d non-body parameters, the document lists %d: %s", where, nWant, len(byKey), compact(op["parameters"]))
			}
		}
		_ = nAnon
		resps := asMap(op["responses"])
		if j.fmtName == "swagger" && len(resps) == 0 {
			// known: every return the exporter keeps has a numeric status; an operation left without any is written
			// with `responses: {}`.  An operation that HAS a numeric return and still no response is something else.
			numeric := false
			for _, r := range ep.Rets {
				if _, err := strconv.Atoi(r.Name); err == nil {
					numeric = true
				}
			}
			if numeric {
				j.fail("not-well-formed:no-responses-unexpected", "%s has numeric return statements but the operation has no response", where)
			} else {
				j.fail("not-well-formed:no-responses", "%s: an operation must have at least one response", where)
			}
		}
		perCode := map[string][]aRet{}
		for _, r := range ep.Rets {
			perCode[retCode(r.Name)] = append(perCode[retCode(r.Name)], r)
		}
		for ri, r := range ep.Rets {
			code := retCode(r.Name)
			rv, ok := resps[code]
			if same := perCode[code]; ok && len(same) > 1 {
				// several return statements with one status: the document has one response under that status; it has
				// to carry the payload of one of them (judged once per status)
				if ri > 0 && func() bool {
					for _, o := range ep.Rets[:ri] {
						if retCode(o.Name) == code {
							return true
						}
					}
					return false
				}() {
					continue
				}
				var sch interface{}
				if j.fmtName == "oas3" {
					sch = asMap(asMap(asMap(rv)["content"])["application/json"])["schema"]
				} else {
					sch = asMap(rv)["schema"]
				}
				// it fits when it presents the payload of one of them; otherwise it is judged against the last one (the
				// exporters keep the last writer), under the keys a single return statement would get
				var last []finding
				fits, typed := false, 0
				for _, o := range same {
					if o.T == nil {
						continue
					}
					typed++
					t := &judge{fmtName: j.fmtName}
					t.checkType(*o.T, sch, refPrefix, "response", where+" -> "+code)
					fits = fits || len(t.out) == 0
					last = t.out
				}
				if typed > 0 && !fits {
					for _, f := range last {
						j.fail(strings.TrimPrefix(f.Key, j.fmtName+":"), "%s (%d return statements have status %s)", f.What, len(same), code)
					}
				}
				continue
			}
			if !ok {
				cls := "numeric"
				if r.Name == "ok" || r.Name == "error" || r.Name == "" {
					cls = "named"
				}
				j.fail("missing-response:"+cls, "%s: `return %s` has no response %s (responses: %v)", where, r.Name, code, sortedKeys(resps))
				continue
			}
			if r.T == nil {
				continue
			}
			var sch interface{}
			if j.fmtName == "oas3" {
				sch = asMap(asMap(asMap(rv)["content"])["application/json"])["schema"]
			} else {
				sch = asMap(rv)["schema"]
				// the Swagger exporter reads a bare `return error` as "200 <: error": it then owns the 200 response
				bare := false
				for _, o := range ep.Rets {
					if o.T == nil && (o.Name == "ok" || o.Name == "error") && asStr(asMap(sch)["$ref"]) == refPrefix+o.Name {
						bare = true
					}
				}
				if bare {
					j.fail("bare-status-as-type", "%s: response %s refers to %v: a `return ok|error` without payload was exported as a type reference", where, code, asMap(sch)["$ref"])
					continue
				}
			}
			j.checkType(*r.T, sch, refPrefix, "response", where+" -> "+code)
		}
	}
}

// ---------------------------------------------------------------- round trip

type rtField struct {
	Class string // int string bool float date datetime bytes | ref:<name> | other:<..>
	Seq   bool
	Opt   bool
}

func classOfSysl(t *sysl.Type) string {
	switch x := t.Type.(type) {
	case *sysl.Type_Primitive_:
		switch x.Primitive {
		case sysl.Type_INT:
			return "int"
		case sysl.Type_FLOAT, sysl.Type_DECIMAL:
			return "float"
		case sysl.Type_STRING, sysl.Type_STRING_8:
			return "string"
		case sysl.Type_BOOL:
			return "bool"
		case sysl.Type_DATE:
			return "date"
		case sysl.Type_DATETIME:
			return "datetime"
		case sysl.Type_BYTES:
			return "bytes"
		}
		return "other:" + x.Primitive.String()
	case *sysl.Type_TypeRef:
		p := x.TypeRef.GetRef().GetPath()
		if len(p) == 0 {
			return "ref:" + strings.Join(x.TypeRef.GetRef().GetAppname().GetPart(), "::")
		}
		return "ref:" + p[len(p)-1]
	}
	return fmt.Sprintf("other:%T", t.Type)
}

func rtOfSysl(t *sysl.Type) rtField {
	switch x := t.Type.(type) {
	case *sysl.Type_Sequence:
		return rtField{Class: classOfSysl(x.Sequence), Seq: true, Opt: t.GetOpt()}
	case *sysl.Type_Set:
		return rtField{Class: "set-of-" + classOfSysl(x.Set), Seq: true, Opt: t.GetOpt()}
	case *sysl.Type_List_:
		return rtField{Class: classOfSysl(x.List.GetType()), Seq: true, Opt: t.GetOpt()}
	}
	return rtField{Class: classOfSysl(t), Opt: t.GetOpt()}
}

func rtOfAbstract(t aType) rtField {
	cls := func(t aType) string {
		if t.Kind == "ref" {
			return "ref:" + t.Ref
		}
		return primClass(t.Prim)
	}
	switch t.Kind {
	case "seq", "set":
		return rtField{Class: cls(*t.Elem), Seq: true, Opt: t.Opt}
	}
	return rtField{Class: cls(t), Opt: t.Opt}
}

func (f rtField) String() string {
	s := f.Class
	if f.Seq {
		s = "sequence of " + s
	}
	if f.Opt {
		s += "?"
	}
	return s
}

// compare the re-imported, compiled application with the abstract one
func (j *judge) checkRoundTrip(a aApp, app *sysl.Application) {
	for _, td := range a.Types {
		t, ok := app.GetTypes()[td.Name]
		if !ok {
			kind := td.Kind
			if td.Kind == "alias" && td.Alias.Kind == "prim" {
				kind = "alias-of-primitive"
			} else if td.Kind == "alias" {
				kind = "alias:" + tyDesc(*td.Alias)
			}
			j.fail("roundtrip:missing-type:"+kind, "after re-import type %s (%s) is gone", td.Name, td.Kind)
			continue
		}
		switch td.Kind {
		case "union":
			// third pass: the union must come back as a union of the same alternatives.  Listed: the exporter writes `{}`
			// (type-kind:union-as-empty-schema), which the importer reads as `!alias T [~unmapped_openapi]: string`
			if oo := t.GetOneOf(); oo != nil {
				var got []string
				for _, alt := range oo.GetType() {
					got = append(got, strings.Join(alt.GetTypeRef().GetRef().GetPath(), "."))
				}
				want := append([]string{}, td.Alts...)
				sort.Strings(got)
				sort.Strings(want)
				if !reflect.DeepEqual(got, want) {
					j.fail("roundtrip:union-alternatives", "union %s of %v comes back as a union of %v", td.Name, want, got)
				}
			} else if hasPattern(t.GetAttrs(), "unmapped_openapi") && t.GetPrimitive() == sysl.Type_STRING {
				j.fail("roundtrip:union-becomes-unmapped-alias", "union %s of %v comes back as `!alias %s [~unmapped_openapi]: string`", td.Name, td.Alts, td.Name)
			} else {
				j.fail("roundtrip:type-kind:union", "after re-import union %s is %T", td.Name, t.Type)
			}
		case "map":
			// third pass: a json_map_key type must come back as a type with the same fields (same class and array-ness) that still
			// names its key field.  Listed: the attribute is not exported at all (json-map-key-lost), and - the document carries no
			// `required` for such a type - every field comes back optional (map-field-becomes-optional)
			tu := t.GetTuple()
			if tu == nil {
				j.fail("roundtrip:type-kind:map", "after re-import the json_map_key type %s is %T, not a tuple", td.Name, t.Type)
				continue
			}
			if got := t.GetAttrs()["json_map_key"].GetS(); got == "" {
				j.fail("roundtrip:json-map-key-lost", "%s [json_map_key=%q] comes back without the attribute", td.Name, td.MapKey)
			} else if got != td.MapKey {
				j.fail("roundtrip:json-map-key-changed", "%s [json_map_key=%q] comes back with json_map_key=%q", td.Name, td.MapKey, got)
			}
			for _, f := range td.Fields {
				ft, ok := tu.GetAttrDefs()[f.Name]
				if !ok {
					j.fail("roundtrip:missing-field:map:"+tyDesc(f.T), "after re-import %s.%s is gone", td.Name, f.Name)
					continue
				}
				if f.T.Kind == "inline" || f.T.Kind == "ref" && strings.Contains(f.T.Ref, ".") ||
					f.T.Elem != nil && f.T.Elem.Kind == "ref" && strings.Contains(f.T.Elem.Ref, ".") {
					continue
				}
				want, got := rtOfAbstract(f.T), rtOfSysl(ft)
				sameButOpt := got.Opt && !want.Opt
				if sameButOpt {
					got.Opt = false
				}
				switch {
				case f.T.Kind == "set" && got.Seq && got.Class == want.Class && got.Opt == want.Opt:
					j.fail("roundtrip:set-becomes-sequence", "%s.%s <: %s comes back as %s", td.Name, f.Name, typeText(f.T), got)
				case want != got:
					j.fail("roundtrip:field:map:"+tyDesc(f.T), "%s.%s <: %s comes back as %s", td.Name, f.Name, typeText(f.T), got)
				case sameButOpt:
					j.fail("roundtrip:map-field-becomes-optional", "%s.%s <: %s of the json_map_key type comes back optional", td.Name, f.Name, typeText(f.T))
				}
			}
			if len(tu.GetAttrDefs()) != len(td.Fields) {
				j.fail("roundtrip:extra-field", "after re-import type %s has %d fields instead of %d", td.Name, len(tu.GetAttrDefs()), len(td.Fields))
			}
		case "tuple", "table":
			tu := t.GetTuple()
			if tu == nil {
				if len(td.Fields) == 0 {
					j.fail("roundtrip:type-kind:empty-tuple", "after re-import the field-less type %s is %T", td.Name, t.Type)
				} else {
					j.fail("roundtrip:type-kind:tuple", "after re-import type %s is %T, not a tuple", td.Name, t.Type)
				}
				continue
			}
			for _, f := range td.Fields {
				ft, ok := tu.GetAttrDefs()[f.Name]
				if !ok {
					j.fail("roundtrip:missing-field:"+tyDesc(f.T), "after re-import %s.%s is gone", td.Name, f.Name)
					continue
				}
				if f.T.Kind == "inline" || f.T.Kind == "ref" && strings.Contains(f.T.Ref, ".") ||
					f.T.Elem != nil && f.T.Elem.Kind == "ref" && strings.Contains(f.T.Elem.Ref, ".") {
					continue // dangling in the exported document (reported there): nothing can come back
				}
				want, got := rtOfAbstract(f.T), rtOfSysl(ft)
				switch {
				case f.T.Kind == "set" && got.Seq && got.Class == want.Class && got.Opt == want.Opt:
					j.fail("roundtrip:set-becomes-sequence", "%s.%s <: %s comes back as %s", td.Name, f.Name, typeText(f.T), got)
				case td.Kind == "table" && f.T.Kind == "ref" && f.T.Opt && !got.Opt && got.Class == want.Class && got.Seq == want.Seq:
					// consequence of required:extra:table-ref: the document says the attribute is required
					j.fail("roundtrip:table-ref-becomes-required", "%s.%s <: %s comes back as %s", td.Name, f.Name, typeText(f.T), got)
				case want != got:
					j.fail("roundtrip:field:"+tyDesc(f.T), "%s.%s <: %s comes back as %s", td.Name, f.Name, typeText(f.T), got)
				}
			}
			if len(tu.GetAttrDefs()) != len(td.Fields) {
				j.fail("roundtrip:extra-field", "after re-import type %s has %d fields instead of %d", td.Name, len(tu.GetAttrDefs()), len(td.Fields))
			}
		case "enum":
			// the importers represent a string enum as `!alias T: string` carrying @openapi_enum = [values]
			if t.GetEnum() != nil {
				continue
			}
			var vals []string
			for _, e := range t.GetAttrs()["openapi_enum"].GetA().GetElt() {
				vals = append(vals, e.GetS())
			}
			sort.Strings(vals)
			var want []string
			for _, e := range td.Enum {
				want = append(want, e.Name)
			}
			sort.Strings(want)
			if !reflect.DeepEqual(vals, want) {
				j.fail("roundtrip:enum-values", "enum %s %v comes back with values %v", td.Name, want, vals)
			}
		case "alias":
			want, got := rtOfAbstract(*td.Alias), rtOfSysl(t)
			if td.Alias.Kind == "set" && got.Seq && got.Class == want.Class {
				j.fail("roundtrip:set-becomes-sequence", "alias %s = %s comes back as %s", td.Name, typeText(*td.Alias), got)
			} else if want != got {
				j.fail("roundtrip:alias:"+tyDesc(*td.Alias), "alias %s = %s comes back as %s", td.Name, typeText(*td.Alias), got)
			}
		}
	}
	for _, ep := range a.Endpoints {
		if ep.Plain {
			continue
		}
		key := ep.Method + " " + ep.Path
		e, ok := app.GetEndpoints()[key]
		if !ok {
			j.fail("roundtrip:missing-endpoint", "after re-import endpoint %q is gone (endpoints: %v)", key, endpointKeys(app))
			continue
		}
		for _, p := range ep.Params {
			var got *sysl.Type
			switch p.In {
			case "path":
				for _, q := range e.GetRestParams().GetUrlParam() {
					if q.GetName() == p.Name {
						got = q.GetType()
					}
				}
			case "query":
				for _, q := range e.GetRestParams().GetQueryParam() {
					if q.GetName() == p.Name {
						got = q.GetType()
					}
				}
			case "header":
				for _, q := range e.GetParam() {
					if hasPattern(q.GetType().GetAttrs(), "header") && (q.GetName() == p.Name || q.GetType().GetAttrs()["name"].GetS() == p.Name) {
						got = q.GetType()
					}
				}
			case "body":
				for _, q := range e.GetParam() {
					if hasPattern(q.GetType().GetAttrs(), "body") {
						got = q.GetType()
					}
				}
			}
			if got == nil {
				j.fail("roundtrip:missing-param:"+p.In, "after re-import %s has no %s parameter %s", key, p.In, p.Name)
				continue
			}
			if p.T.Bare {
				continue // the exported document does not say what its type is (reported by the completeness clause)
			}
			want, g := rtOfAbstract(p.T), rtOfSysl(got)
			if p.In == "path" {
				want.Opt, g.Opt = false, false
			}
			if p.T.Kind == "set" && g.Seq && g.Class == want.Class {
				j.fail("roundtrip:set-becomes-sequence", "%s: %s parameter %s <: %s comes back as %s", key, p.In, p.Name, typeText(p.T), g)
			} else if want != g {
				j.fail("roundtrip:param:"+p.In+":"+tyDesc(p.T), "%s: %s parameter %s <: %s comes back as %s", key, p.In, p.Name, typeText(p.T), g)
			}
		}
		// responses: code -> payload type text
		got := map[string]string{}
		for _, st := range e.GetStmt() {
			if r := st.GetRet(); r != nil {
				parts := strings.SplitN(r.GetPayload(), " <: ", 2)
				ty := ""
				if len(parts) == 2 {
					ty = strings.TrimSpace(strings.SplitN(parts[1], "[", 2)[0])
				}
				got[retCode(strings.TrimSpace(parts[0]))] = ty
			}
		}
		nPer := map[string]int{}
		for _, r := range ep.Rets {
			nPer[retCode(r.Name)]++
		}
		for _, r := range ep.Rets {
			ty, ok := got[retCode(r.Name)]
			if !ok {
				j.fail("roundtrip:missing-response", "after re-import %s has no `return %s` (returns: %v)", key, retCode(r.Name), got)
				continue
			}
			if r.T == nil || nPer[retCode(r.Name)] > 1 {
				continue // several returns with one status: which payload the one response carries is judged on the document
			}
			want := ""
			switch r.T.Kind {
			case "ref":
				want = r.T.Ref
			case "prim":
				want = primClass(r.T.Prim)
			case "seq", "set":
				want = "sequence of " + map[bool]string{true: r.T.Elem.Ref, false: primClass(r.T.Elem.Prim)}[r.T.Elem.Kind == "ref"]
			}
			if ty != want {
				j.fail("roundtrip:response-type:"+tyDesc(*r.T), "%s: `return %s <: %s` comes back as `%s`", key, r.Name, typeText(*r.T), ty)
			}
		}
	}
}

func endpointKeys(app *sysl.Application) []string {
	var ks []string
	for k := range app.GetEndpoints() {
		ks = append(ks, k)
	}
	sort.Strings(ks)
	return ks
}
