package main

import (
	"fmt"
	"io"
	"os"

	"github.com/anz-bank/sysl/pkg/exporter"
	"github.com/anz-bank/sysl/pkg/importer"
	"github.com/anz-bank/sysl/pkg/parse"
	"github.com/anz-bank/sysl/pkg/sysl"
	"github.com/anz-bank/sysl/pkg/syslutil"
	"github.com/anz-bank/sysl/pkg/syslwrapper"
	"github.com/sirupsen/logrus"
	"github.com/spf13/afero"
)

var quiet = func() *logrus.Logger { l := logrus.New(); l.SetOutput(io.Discard); return l }()

func parseModel(text string) (*sysl.Module, error) {
	fs := afero.NewMemMapFs()
	afero.WriteFile(fs, "m.sysl", []byte(text), 0o644)
	return parse.NewParser().ParseFromFs("m.sysl", fs)
}

func export3(app *sysl.Application, mode string) ([]byte, error) {
	mod := &sysl.Module{Apps: map[string]*sysl.Application{syslutil.GetAppName(app.Name): app}}
	mapper := syslwrapper.MakeAppMapper(mod)
	mapper.IndexTypes()
	simple, err := mapper.Map()
	if err != nil {
		return nil, err
	}
	ex := exporter.MakeOpenAPI3Exporter(simple, quiet)
	if err := ex.Export(); err != nil {
		return nil, err
	}
	return ex.SerializeOutput(syslutil.GetAppName(app.Name), mode)
}

func export2(app *sysl.Application, mode string) ([]byte, error) {
	ex := exporter.MakeSwaggerExporter(app, quiet)
	if err := ex.GenerateSwagger(); err != nil {
		return nil, err
	}
	return ex.SerializeOutput(mode)
}

func reimport(format string, text string) (string, error) {
	imp, err := importer.Factory("/gen/spec.yaml", false, format, []byte(text), quiet)
	if err != nil {
		return "", err
	}
	imp, err = imp.Configure(&importer.ImporterArg{AppName: "App", PackageName: ""})
	if err != nil {
		return "", err
	}
	return imp.Load(text)
}

func main() {
	b, _ := os.ReadFile(os.Args[1])
	m, err := parseModel(string(b))
	if err != nil {
		fmt.Println("PARSE", err)
		return
	}
	for name, app := range m.Apps {
		fmt.Println("=== app", name)
		o3, err := export3(app, "yaml")
		fmt.Println("--- openapi3 err=", err)
		fmt.Println(string(o3))
		if len(os.Args) > 2 {
			t, err := reimport("openapi3", string(o3))
			fmt.Println("--- reimport3 err=", err)
			fmt.Println(t)
		}
		o2, err := export2(app, "yaml")
		fmt.Println("--- swagger err=", err)
		fmt.Println(string(o2))
		if len(os.Args) > 2 {
			t, err := reimport("swagger", string(o2))
			fmt.Println("--- reimport2 err=", err)
			fmt.Println(t)
		}
	}
}
