// C12: OpenAPI export is a valid document that carries every type and endpoint.
//
//	gen.go     abstract REST applications (seeded), rendered to Sysl text
//	real.go    real parser -> real exporters (openapi3 + swagger, json + yaml) -> real importers; projections to Gallina
//	oracle.go  model-independent oracle: well-formed / complete / round trip
//	main.go    streams, shrinking, case files (Export/Run.v), replay
package main

import (
	"encoding/json"
	"fmt"
	"os"
	"regexp"
	"sort"
	"strings"
	"sync"
	"time"

	"verifharness/common"
)

type options struct {
	arrai bool // also re-import the OpenAPI 3 document through importer.Factory (arr.ai importer; seconds per call)
	coq   bool // produce a Gallina case
}

type verdict struct {
	Rt3Skipped bool
	Rt2Skipped bool
	GaveUp     bool
	App        aApp
	Findings   []finding
	SwTerm     string // Gallina case for the Swagger definitions
	InfoTerm   string // Gallina case for info / servers / host (Export/OasInfo.v)
	Term       string // Gallina case ("" if none)
	Skipped    string // why there is no Gallina case
	ParseErr   string
	Out3       string
	Out2       string
	Reimp3     string
	Reimp2     string
}

var noSwaggerTypeRE = regexp.MustCompile(`^none of the Swagger Types match for (sequence|set):`)

func exportClass(o exportOut) string {
	if m := noSwaggerTypeRE.FindStringSubmatch(o.Err); m != nil {
		return "error:collection-typed-parameter"
	}
	if strings.HasPrefix(o.Err, "none of the Swagger Types match for one_of:") {
		return "error:union-type"
	}
	if o.Panic != "" {
		return "panic:" + errClass(fmt.Errorf("%s", o.Panic))
	}
	return "error:" + errClass(fmt.Errorf("%s", o.Err))
}

func judgeApp(a aApp, opt options) (v verdict) {
	v.App = a
	text := render([]aApp{a})
	m, perr := compile(text)
	if perr != "" {
		v.ParseErr = perr
		v.Findings = append(v.Findings, finding{"harness:generated-text-does-not-compile", perr})
		return v
	}
	app := m.Apps[a.Name]
	if app == nil {
		v.ParseErr = "application not found in the compiled module"
		v.Findings = append(v.Findings, finding{"harness:generated-text-does-not-compile", v.ParseErr})
		return v
	}

	// ---- OpenAPI 3
	j3 := &judge{fmtName: "oas3"}
	oj, oy := runExport3(app, "json"), runExport3(app, "yaml")
	v.Out3 = string(oy.Bytes)
	if oj.Err != "" || oj.Panic != "" || oy.Err != "" || oy.Panic != "" {
		bad := oj
		if oj.Err == "" && oj.Panic == "" {
			bad = oy
		}
		j3.fail("export-fails:"+exportClass(bad), "export -f openapi3 fails: %s%s", bad.Err, bad.Panic)
	} else {
		if doc := decodeBoth(j3, oj.Bytes, oy.Bytes); doc != nil {
			wellFormed3(j3, oj.Bytes, a)
			ownRules3(j3, doc, a)
			j3.checkTypes(a, asMap(asMap(doc["components"])["schemas"]), "#/components/schemas/")
			j3.checkEndpoints(a, doc, "#/components/schemas/")
		}
		rpcInvalid := false // listed (oas3:not-well-formed:rpc-endpoint-as-path): the name of an RPC-style endpoint is a key of `paths`
		var d3 map[string]interface{}
		if json.Unmarshal(oj.Bytes, &d3) == nil {
			for _, ep := range a.Endpoints {
				if _, has := asMap(d3["paths"])[ep.Path]; ep.Plain && has {
					rpcInvalid = true
				}
			}
		}
		v.Rt3Skipped = opt.arrai && rpcInvalid
		if opt.arrai && !rpcInvalid { // a document the validator rejects (listed: RPC endpoint as path) is not read back
			// importer.Factory("openapi3") is the arr.ai importer
			r := runImport("openapi3", false, string(oy.Bytes))
			v.Reimp3 = r.Text
			switch {
			case r.Panic != "":
				j3.fail("roundtrip:import-panics", "re-import of the exported document panics: %s", r.Panic)
			case r.Err != "":
				j3.fail("roundtrip:import-fails:"+errClass(fmt.Errorf("%s", r.Err)), "re-import of the exported document fails: %s", firstLine(r.Err))
			default:
				m2, e2 := compile(r.Text)
				if e2 != "" {
					j3.fail("roundtrip:does-not-compile", "the re-imported text does not compile: %s", firstLine(e2))
				} else if ra := m2.Apps["Reimported"]; ra == nil {
					j3.fail("roundtrip:no-app", "the re-imported module has no application")
				} else {
					j3.checkRoundTrip(a, ra)
				}
			}
		}
	}
	v.Findings = append(v.Findings, j3.out...)
	v.GaveUp = j3.validatorGaveUp
	if opt.coq {
		v.Term, v.Skipped = caseTerm(app, oj)
	}

	// ---- Swagger 2
	j2 := &judge{fmtName: "swagger"}
	sj, sy := runExport2(app, "json"), runExport2(app, "yaml")
	if opt.coq {
		v.SwTerm, _ = swCaseTerm(app, typesOnlyExport2(app))
		v.InfoTerm = infoCaseTerm(app, oj, sj)
	}
	v.Out2 = string(sy.Bytes)
	if sj.Err != "" || sj.Panic != "" || sy.Err != "" || sy.Panic != "" {
		bad := sj
		if sj.Err == "" && sj.Panic == "" {
			bad = sy
		}
		cls := exportClass(bad)
		if cls == "error:collection-typed-parameter" {
			has := false
			for _, ep := range a.Endpoints {
				for _, p := range ep.Params {
					has = has || ((p.In == "body" || p.In == "header") && (p.T.Kind == "seq" || p.T.Kind == "set"))
				}
			}
			if !has {
				cls = "error:no-swagger-type-unexpected" // the application has no set / sequence typed parameter
			}
		}
		if cls == "error:union-type" {
			has := false
			for _, td := range a.Types {
				has = has || td.Kind == "union"
			}
			if !has {
				cls = "error:no-swagger-type-unexpected:one_of" // the application has no !union
			}
		}
		j2.fail("export-fails:"+cls, "export -f swagger fails: %s%s", bad.Err, bad.Panic)
	} else {
		if doc := decodeBoth(j2, sj.Bytes, sy.Bytes); doc != nil {
			wellFormed2(j2, sj.Bytes, doc, a)
			j2.checkTypes(a, asMap(doc["definitions"]), "#/definitions/")
			j2.checkEndpoints(a, doc, "#/definitions/")
		}
		// the round trip is judged only for documents that passed the clauses above: what an incomplete document
		// loses cannot come back
		if len(j2.out) == 0 {
			r := runImport("swagger", false, string(sy.Bytes))
			v.Reimp2 = r.Text
			switch {
			case r.Panic != "":
				j2.fail("roundtrip:import-panics", "re-import of the exported document panics: %s", r.Panic)
			case r.Err != "":
				j2.fail("roundtrip:import-fails:"+errClass(fmt.Errorf("%s", r.Err)), "re-import of the exported document fails: %s", firstLine(r.Err))
			default:
				m2, e2 := compile(r.Text)
				if e2 != "" {
					j2.fail("roundtrip:does-not-compile", "the re-imported text does not compile: %s", firstLine(e2))
				} else if ra := m2.Apps["Reimported"]; ra == nil {
					j2.fail("roundtrip:no-app", "the re-imported module has no application")
				} else {
					j2.checkRoundTrip(a, ra)
				}
			}
		} else {
			v.Rt2Skipped = true
		}
	}
	v.Findings = append(v.Findings, j2.out...)
	return v
}

// hostile shapes lie outside the exportable subset (colliding status codes, one name for a header and a query
// parameter, references into another application, RPC-style endpoints): the oracle has nothing to demand of them, but
// the model claims to know what the exporter does with them - correspondence only
func hostile(g *gen, a aApp) aApp {
	a = cloneApp(a)
	for i := range a.Endpoints {
		ep := &a.Endpoints[i]
		switch g.r.Intn(4) {
		case 0: // `ok` and `200` (and `error` and an unparsable name) in one endpoint
			ep.Rets = append(ep.Rets, aRet{Name: "ok", T: &aType{Kind: "ref", Ref: a.Types[0].Name}}, aRet{Name: "200", T: &aType{Kind: "prim", Prim: "string"}},
				aRet{Name: "error"}, aRet{Name: "1000", T: &aType{Kind: "prim", Prim: "bool"}})
		case 1: // the same name as header and query parameter (and as body)
			ep.Params = append(ep.Params, aParam{Name: "dup", In: "header", T: aType{Kind: "prim", Prim: "int"}},
				aParam{Name: "dup", In: "query", T: aType{Kind: "prim", Prim: "string", Opt: true}})
		case 2: // unnamed return of a type, of a sequence, of an unknown name
			ep.Rets = append(ep.Rets, aRet{Name: "", T: &aType{Kind: "ref", Ref: a.Types[0].Name}}, aRet{Name: "nonsense"})
		}
	}
	if len(a.Types) > 0 && a.Types[0].Kind == "tuple" {
		a.Types[0].Fields = append(a.Types[0].Fields, aField{Name: "far", T: aType{Kind: "ref", Ref: "Other.Thing"}},
			aField{Name: "fars", T: aType{Kind: "seq", Elem: &aType{Kind: "ref", Ref: "Other.Thing"}, Opt: true}})
	}
	a.Endpoints = append(a.Endpoints, aEndpoint{Plain: true, Path: "Login"})
	return a
}

func judgeHostile(a aApp) (v verdict) {
	v.App = a
	m, perr := compile(render([]aApp{a}))
	if perr != "" || m.Apps[a.Name] == nil {
		v.ParseErr = "hostile text does not compile"
		return v
	}
	v.Term, v.Skipped = caseTerm(m.Apps[a.Name], runExport3(m.Apps[a.Name], "json"))
	v.SwTerm, _ = swCaseTerm(m.Apps[a.Name], typesOnlyExport2(m.Apps[a.Name]))
	return v
}

func firstLine(s string) string {
	if i := strings.IndexByte(s, '\n'); i >= 0 {
		s = s[:i]
	}
	if len(s) > 200 {
		s = s[:200]
	}
	return s
}

func hasKey(v verdict, key string) bool {
	for _, f := range v.Findings {
		if f.Key == key {
			return true
		}
	}
	return false
}

// ---------------------------------------------------------------- shrinking (greedy, bounded)

func refsType(t aType, name string) bool {
	if t.Kind == "ref" && t.Ref == name {
		return true
	}
	return t.Elem != nil && refsType(*t.Elem, name)
}

func typeUsed(a aApp, name string, exceptType int) bool {
	for i, td := range a.Types {
		if i == exceptType {
			continue
		}
		for _, f := range td.Fields {
			if refsType(f.T, name) {
				return true
			}
		}
		if td.Alias != nil && refsType(*td.Alias, name) {
			return true
		}
		for _, alt := range td.Alts {
			if alt == name {
				return true
			}
		}
	}
	for _, ep := range a.Endpoints {
		for _, p := range ep.Params {
			if refsType(p.T, name) {
				return true
			}
		}
		for _, r := range ep.Rets {
			if r.T != nil && refsType(*r.T, name) {
				return true
			}
		}
	}
	return false
}

func cloneApp(a aApp) aApp {
	b, _ := json.Marshal(a)
	var c aApp
	json.Unmarshal(b, &c)
	return c
}

func shrink(a aApp, key string, budget int) aApp {
	still := func(c aApp) bool {
		if budget <= 0 {
			return false
		}
		budget--
		return hasKey(judgeApp(c, options{}), key)
	}
	for changed := true; changed && budget > 0; {
		changed = false
		for i := len(a.Endpoints) - 1; i >= 0; i-- {
			c := cloneApp(a)
			c.Endpoints = append(c.Endpoints[:i], c.Endpoints[i+1:]...)
			if still(c) {
				a, changed = c, true
			}
		}
		for i := len(a.Types) - 1; i >= 0; i-- {
			if typeUsed(a, a.Types[i].Name, i) {
				continue
			}
			c := cloneApp(a)
			c.Types = append(c.Types[:i], c.Types[i+1:]...)
			if still(c) {
				a, changed = c, true
			}
		}
		for e := range a.Endpoints {
			for i := len(a.Endpoints[e].Params) - 1; i >= 0; i-- {
				if a.Endpoints[e].Params[i].In == "path" {
					continue
				}
				c := cloneApp(a)
				c.Endpoints[e].Params = append(c.Endpoints[e].Params[:i], c.Endpoints[e].Params[i+1:]...)
				if still(c) {
					a, changed = c, true
				}
			}
			for i := len(a.Endpoints[e].Rets) - 1; i >= 0; i-- {
				c := cloneApp(a)
				c.Endpoints[e].Rets = append(c.Endpoints[e].Rets[:i], c.Endpoints[e].Rets[i+1:]...)
				if i < len(c.Endpoints[e].Wrap) {
					c.Endpoints[e].Wrap = append(c.Endpoints[e].Wrap[:i], c.Endpoints[e].Wrap[i+1:]...)
				}
				if still(c) {
					a, changed = c, true
				}
			}
		}
		for t := range a.Types {
			for i := len(a.Types[t].Fields) - 1; i >= 0; i-- {
				c := cloneApp(a)
				c.Types[t].Fields = append(c.Types[t].Fields[:i], c.Types[t].Fields[i+1:]...)
				if still(c) {
					a, changed = c, true
				}
			}
		}
	}
	return a
}

// keys of known-findings.json for this property (exact, or prefix ending in *)
func knownKeys() func(string) bool {
	var entries []struct{ Status, Property, Key string }
	if b, err := os.ReadFile(os.Getenv("VERIF_DIR") + "/known-findings.json"); err == nil {
		json.Unmarshal(b, &entries)
	}
	return func(k string) bool {
		for _, e := range entries {
			if e.Property == "C12" && e.Status == "known" && (e.Key == k || strings.HasSuffix(e.Key, "*") && strings.HasPrefix(k, strings.TrimSuffix(e.Key, "*"))) {
				return true
			}
		}
		return false
	}
}

// ---------------------------------------------------------------- main

type replayT struct {
	Kind string   `json:"kind"`
	App  aApp     `json:"app"`
	Sysl string   `json:"sysl"`
	Cli  *cliCase `json:"cli,omitempty"`
}

const caseHeader = `From Coq Require Import String List NArith ZArith Bool.
Import ListNotations.
Require Import Verif.Export.OasTypes Verif.Export.OasExport Verif.Export.SwExport Verif.Export.Run Verif.Base.Harness.
Local Open Scope string_scope. Local Open Scope N_scope.`

const caseFooter = `Definition M := Eval vm_compute in mismatches c12_ok cases.
Print M.`

const swFooter = `Definition M := Eval vm_compute in mismatches c12s_ok cases.
Print M.`

func main() {
	realOut := os.Stdout
	if dn, err := os.OpenFile(os.DevNull, os.O_WRONLY, 0); err == nil {
		os.Stdout = dn
		os.Stderr = dn
	}
	if f := os.Getenv("C12_PROBE"); f != "" { // development aid: export and re-import one Sysl file, print everything
		b, _ := os.ReadFile(f)
		m, perr := compile(string(b))
		fmt.Fprintln(realOut, "parse:", perr)
		if m != nil {
			for n, app := range m.Apps {
				o3 := runExport3(app, "yaml")
				fmt.Fprintf(realOut, "==== %s openapi3 err=%q panic=%q\n%s\n", n, o3.Err, o3.Panic, o3.Bytes)
				jj := &judge{fmtName: "oas3"}
				wellFormed3(jj, runExport3(app, "json").Bytes, aApp{})
				fmt.Fprintf(realOut, "---- well-formed? %v\n", jj.out)
				r := runImport("openapi3", false, string(o3.Bytes))
				fmt.Fprintf(realOut, "---- re-import err=%q panic=%q\n%s\n%s\n", r.Err, r.Panic, r.Text, r.Stack)
				o2 := runExport2(app, "yaml")
				fmt.Fprintf(realOut, "==== %s swagger err=%q panic=%q\n%s\n", n, o2.Err, o2.Panic, o2.Bytes)
				r = runImport("swagger", false, string(o2.Bytes))
				fmt.Fprintf(realOut, "---- re-import err=%q panic=%q\n%s\n", r.Err, r.Panic, r.Text)
			}
		}
		return
	}
	c := common.Setup("C12")
	defer c.Finish()
	c.Res.Rule = "one case = one generated REST-style application (1-7 types: tuples with 0-9 primitive / optional / sequence / set / reference fields incl. self and mutual references, enums, aliases; 1-5 endpoints with path / query / header / body parameters and 0-3 typed returns; `sysl` style as hand-written, `imported` style with name=\"..\" / ~required attributes and numeric return codes), rendered to Sysl text, compiled by the real parser and exported by the real exporters as openapi3 and swagger, each as json and yaml, then re-imported; every 6th application additionally in a hostile variant outside the exportable subset (colliding status codes, one name for a header and a query parameter, unnamed / unresolvable returns, references into another application, an RPC-style endpoint) that is compared with the model only; distinct = distinct abstract application; non-trivial = at least one tuple type with a field and one endpoint"

	if c.Replay != "" {
		var rp replayT
		if err := common.LoadReplay(c.Replay, &rp); err != nil {
			fmt.Fprintln(realOut, "cannot read replay:", err)
			os.Exit(3)
		}
		if rp.Kind == "cli" && rp.Cli != nil {
			c.Count("replay", true)
			bin := os.Getenv("VERIF_SYSL_BIN")
			docs, _, e := libraryDocs(rp.Cli.Module)
			if bin == "" || e != "" {
				fmt.Fprintln(realOut, "cannot replay a command-line case: no binary, or the module does not export:", e)
				os.Exit(3)
			}
			r := runCli(bin, *rp.Cli)
			fmt.Fprintf(realOut, "---- sysl export %v m.sysl\n---- status %d\n%s---- files %v\n", rp.Cli.Args, r.Status, r.Output, fileNames(r.Files))
			judgeCli(*rp.Cli, r, docs, func(key, format string, a ...interface{}) {
				fmt.Fprintln(realOut, "FAIL", key, fmt.Sprintf(format, a...))
				c.Fail(key, fmt.Sprintf(format, a...), rp)
			})
			return
		}
		v := judgeApp(rp.App, options{arrai: true, coq: true})
		c.Count("replay", true)
		fmt.Fprintf(realOut, "---- Sysl text\n%s\n---- export -f openapi3 (yaml)\n%s\n---- re-imported (arr.ai importer)\n%s\n---- export -f swagger (yaml)\n%s\n---- re-imported\n%s\n", render([]aApp{rp.App}), v.Out3, v.Reimp3, v.Out2, v.Reimp2)
		known := knownKeys()
		for _, f := range v.Findings {
			if known(f.Key) { // listed findings are shown, but only an unlisted failure makes the replay fail
				fmt.Fprintln(realOut, "KNOWN", f.Key, f.What)
				continue
			}
			fmt.Fprintln(realOut, "FAIL", f.Key, f.What)
			c.Fail(f.Key, f.What, rp)
		}
		return
	}

	type job struct {
		a       aApp
		opt     options
		src     string
		hostile bool
	}
	var jobs []job
	for i, a := range corpus() {
		jobs = append(jobs, job{a, options{arrai: c.Thorough() || i < 2, coq: true}, "corpus", false})
	}
	n, nArrai := 220, 1
	if c.Thorough() {
		n, nArrai = 3000, 28
	}
	if c.Search {
		n *= 3
	}
	g := &gen{r: c.Rng}
	appNames := []string{"Shop", "Zoo", "Api", "Ns :: Deep"}
	for i := 0; i < n; i++ {
		style := "sysl"
		if i%3 == 2 {
			style = "imported"
		}
		a := g.app(appNames[g.r.Intn(3)], style, i%4 == 0)
		jobs = append(jobs, job{a, options{arrai: i < nArrai, coq: true}, style, false})
		if i%6 == 0 {
			jobs = append(jobs, job{hostile(g, a), options{coq: true}, "hostile", true})
		}
	}
	// kinds stream (after the main stream, whose inputs therefore stay what they were): !table, !union, json_map_key maps,
	// nested types, references into another application
	nk, nkArrai := 90, 1
	if c.Thorough() {
		nk, nkArrai = 700, 10
	}
	if c.Search {
		nk *= 3
	}
	for i := 0; i < nk; i++ {
		style := "sysl"
		if i%3 == 2 {
			style = "imported"
		}
		jobs = append(jobs, job{g.appKinds(appNames[g.r.Intn(3)], style), options{arrai: i < nkArrai, coq: true}, "kinds", false})
	}

	// params stream (second pass; after the streams above, whose inputs stay what they were): path / query / header parameters of
	// declared types
	np, npArrai := 70, 1
	if c.Thorough() {
		np, npArrai = 600, 8
	}
	if c.Search {
		np *= 3
	}
	for i := 0; i < np; i++ {
		style := "sysl"
		if i%3 == 2 {
			style = "imported"
		}
		jobs = append(jobs, job{g.appParams(appNames[g.r.Intn(3)], style), options{arrai: i < npArrai, coq: true}, "params", false})
	}

	// stmts stream (second pass): return statements nested in blocks, colliding statuses, RPC-style endpoints, a description
	ns, nsArrai := 70, 1
	if c.Thorough() {
		ns, nsArrai = 600, 8
	}
	if c.Search {
		ns *= 3
	}
	for i := 0; i < ns; i++ {
		style := "sysl"
		if i%3 == 2 {
			style = "imported"
		}
		jobs = append(jobs, job{g.appStmts(appNames[g.r.Intn(3)], style), options{arrai: i < nsArrai, coq: true}, "stmts", false})
	}

	// info stream (third pass): applications with and without a version, long names, contact / env / host attributes,
	// extension attributes.  Its own generator state, so that the streams above and the command-line stream keep their inputs
	ni := 60
	if c.Thorough() {
		ni = 500
	}
	if c.Search {
		ni *= 3
	}
	gi := &gen{r: common.NewRng(c.Seed*7919 + 12)}
	for i := 0; i < ni; i++ {
		style := "sysl"
		if i%3 == 2 {
			style = "imported"
		}
		jobs = append(jobs, job{gi.appInfo(appNames[gi.r.Intn(4)], style), options{arrai: false, coq: true}, "info", false})
	}

	results := make([]verdict, len(jobs))
	var wg sync.WaitGroup
	sem := make(chan struct{}, 8)
	t0 := time.Now()
	for i := range jobs {
		wg.Add(1)
		sem <- struct{}{}
		go func(i int) {
			defer wg.Done()
			defer func() { <-sem }()
			if jobs[i].hostile {
				results[i] = judgeHostile(jobs[i].a)
			} else {
				results[i] = judgeApp(jobs[i].a, jobs[i].opt)
			}
		}(i)
	}
	wg.Wait()
	c.Res.Notes = append(c.Res.Notes, fmt.Sprintf("%d applications judged in %.1fs", len(jobs), time.Since(t0).Seconds()))

	cases := c.NewCases("C12", caseHeader, "c12_case", caseFooter, 40)
	shrunk := map[string]bool{}
	known := knownKeys()
	for i, v := range results {
		a := jobs[i].a
		b, _ := json.Marshal(a)
		nontrivial := false
		for _, td := range a.Types {
			nontrivial = nontrivial || (td.Kind == "tuple" && len(td.Fields) > 0)
		}
		c.Count(string(b), nontrivial && len(a.Endpoints) > 0)
		c.Hist("stream:" + jobs[i].src)
		c.HistN("types", len(a.Types))
		c.HistN("endpoints", len(a.Endpoints))
		for _, td := range a.Types {
			c.Hist("type:" + td.Kind)
			for _, f := range td.Fields {
				c.Hist("field:" + tyDesc(f.T))
			}
			if len(td.Fields) >= 3 {
				c.Hist("tuple-with>=3-fields")
			}
		}
		for _, ep := range a.Endpoints {
			c.Hist("method:" + ep.Method)
			for _, p := range ep.Params {
				c.Hist("param:" + p.In)
				if p.T.Kind == "ref" && p.In != "body" {
					c.Hist("param-of-declared-type:" + p.In)
					if p.T.Bare {
						c.Hist("param-of-declared-type:query-without-braces")
					}
				}
			}
			if len(ep.Params) >= 3 {
				c.Hist("endpoint-with>=3-params")
			}
			c.HistN("returns", len(ep.Rets))
			for _, w := range ep.Wrap {
				if w != "" {
					c.Hist("return-nested-in:" + w)
				}
			}
			if ep.Plain {
				c.Hist("rpc-endpoint")
			}
		}
		if jobs[i].src == "info" {
			if a.Version == "" {
				c.Hist("info:no-version")
			}
			if a.Long != "" {
				c.Hist("info:long-name")
			}
			for _, at := range a.Attrs {
				c.Hist("info-attr:" + at.K)
			}
		}
		if v.ParseErr != "" && jobs[i].hostile {
			c.Hist("hostile:does-not-compile")
		}
		if v.GaveUp {
			c.Hist("oas3:validator-gave-up-on-reference-cycle")
		}
		if v.Rt3Skipped {
			c.Hist("oas3:roundtrip-not-judged-invalid-document-rpc-endpoint")
		}
		if v.Rt2Skipped {
			c.Hist("swagger:roundtrip-not-judged-incomplete-document")
		}
		if i < 3 {
			c.Sample(map[string]interface{}{"sysl": render([]aApp{a})})
		}
		for _, f := range v.Findings {
			rp := replayT{Kind: "app", App: a, Sysl: render([]aApp{a})}
			if !shrunk[f.Key] {
				shrunk[f.Key] = true
				budget := 40
				if known(f.Key) || strings.Contains(f.Key, "roundtrip") && strings.HasPrefix(f.Key, "oas3:") {
					budget = 0 // listed findings keep the generated input; arr.ai re-imports are too slow to shrink with
				}
				sa := shrink(a, f.Key, budget)
				rp = replayT{Kind: "app", App: sa, Sysl: render([]aApp{sa})}
				for _, sf := range judgeApp(sa, options{}).Findings {
					if sf.Key == f.Key {
						f.What = sf.What
					}
				}
			}
			c.Fail(f.Key, f.What, rp)
		}
		switch {
		case v.Term != "":
			cases.Add(v.Term, replayT{Kind: "app", App: a})
			c.Hist("coq-case")
		case v.Skipped != "":
			c.Hist("coq-skipped:" + v.Skipped)
		}
	}
	cases.Close()
	swCases := c.NewCases("C12S", caseHeader, "c12s_case", swFooter, 60)
	for i, v := range results {
		if v.SwTerm != "" {
			swCases.Add(v.SwTerm, replayT{Kind: "app", App: jobs[i].a})
			c.Hist("coq-case-swagger-definitions")
		}
	}
	swCases.Close()
	infoCases := c.NewCases("C12I", infoHeader, "c12i_case", infoFooter, 120)
	for i, v := range results {
		if v.InfoTerm != "" {
			infoCases.Add(v.InfoTerm, replayT{Kind: "app", App: jobs[i].a})
			c.Hist("coq-case-info")
		}
	}
	infoCases.Close()
	cliStream(c, g)
	var keys []string
	for k := range shrunk {
		keys = append(keys, k)
	}
	sort.Strings(keys)
	c.Res.Extra["finding_keys"] = keys
}
