package main

// Stream `idents` (deepen round 3, second pass, goal 3): table and column names that PostgreSQL does not accept as
// bare identifiers - a hyphen (`order-item`, legal in Sysl), a reserved word (`user`, `order`, `group`, ...), a
// character written with a %XX escape (`a%20b` is the name "a b").  Go oracle only: such statements are outside the
// DDL subset of sql.go / Db/Text.v (names there are alphanumeric), so these cases are not sent to Coq.
//
// What the oracle demands is the lexical rule of PostgreSQL for the places where the scripts write names: outside
// comments and string literals the text consists of quoted identifiers "...", words [A-Za-z_][A-Za-z0-9_$]*, numbers,
// blanks and the punctuation ( ) , ; . - and a word that is a reserved key word of PostgreSQL must be one of the key
// words the DDL itself is made of.  A script that quotes (or renames) what needs it passes whatever style it uses.

import (
	"encoding/json"
	"fmt"
	"sort"
	"strings"

	"verifharness/common"
)

// reserved key words of PostgreSQL ("reserved" in appendix C of its manual) ...
var pgReserved = map[string]bool{}

// ... of which the emitted DDL legitimately uses these as key words
var pgEmitted = map[string]bool{"create": true, "table": true, "column": true, "constraint": true, "primary": true,
	"foreign": true, "references": true, "default": true, "select": true, "from": true}

func init() {
	for _, w := range strings.Fields(`all analyse analyze and any array as asc asymmetric both case cast check collate column
		constraint create current_catalog current_date current_role current_time current_timestamp current_user default
		deferrable desc distinct do else end except false fetch for foreign from grant group having in initially intersect
		into lateral leading limit localtime localtimestamp not null offset on only or order placing primary references
		returning select session_user some symmetric table then to trailing true union unique user using variadic when
		where window with`) {
		pgReserved[w] = true
	}
}

// identProblems: the classes of lexical problems of one script, each with the first offending piece of text
func identProblems(sql string) map[string]string {
	out := map[string]string{}
	note := func(k, what string) {
		if _, ok := out[k]; !ok {
			out[k] = what
		}
	}
	i := 0
	isWordStart := func(b byte) bool { return b == '_' || (b >= 'a' && b <= 'z') || (b >= 'A' && b <= 'Z') }
	isWord := func(b byte) bool { return isWordStart(b) || (b >= '0' && b <= '9') || b == '$' }
	lineOf := func(p int) string {
		a := strings.LastIndexByte(sql[:p], '\n') + 1
		b := strings.IndexByte(sql[p:], '\n')
		if b < 0 {
			return sql[a:]
		}
		return sql[a : p+b]
	}
	for i < len(sql) {
		b := sql[i]
		switch {
		case strings.HasPrefix(sql[i:], "/*"):
			j := strings.Index(sql[i+2:], "*/")
			if j < 0 {
				return out
			}
			i += j + 4
		case b == '\'':
			j := strings.IndexByte(sql[i+1:], '\'')
			if j < 0 {
				return out
			}
			i += j + 2
		case b == '"':
			j := strings.IndexByte(sql[i+1:], '"')
			if j < 0 {
				note("unquoted-other-character", "unterminated quoted identifier: "+lineOf(i))
				return out
			}
			i += j + 2
		case b == ' ' || b == '\n' || b == '\t' || b == '\r' || b == '(' || b == ')' || b == ',' || b == ';' || b == '.':
			i++
		case b >= '0' && b <= '9':
			for i < len(sql) && sql[i] >= '0' && sql[i] <= '9' {
				i++
			}
		case isWordStart(b):
			j := i
			for j < len(sql) && isWord(sql[j]) {
				j++
			}
			w := strings.ToLower(sql[i:j])
			if pgReserved[w] && !pgEmitted[w] {
				note("unquoted-reserved-word", fmt.Sprintf("reserved word %q used as a bare identifier: %s", sql[i:j], strings.TrimSpace(lineOf(i))))
			}
			i = j
		case b == '-':
			note("unquoted-hyphen", "a hyphen outside a quoted identifier: "+strings.TrimSpace(lineOf(i)))
			i++
		default:
			note("unquoted-other-character", fmt.Sprintf("character %q outside a quoted identifier: %s", string(b), strings.TrimSpace(lineOf(i))))
			i++
		}
	}
	return out
}

// a name that contains a blank (written a%20b in Sysl) must appear between double quotes wherever it appears
func spaceProblem(sql string, names []string) string {
	for _, n := range names {
		if !strings.Contains(n, " ") {
			continue
		}
		if strings.Count(sql, n) != strings.Count(sql, `"`+n+`"`) {
			return fmt.Sprintf("the name %q (written %s) appears outside double quotes", n, strings.ReplaceAll(n, " ", "%20"))
		}
	}
	return ""
}

func judgeIdents(c *common.Ctx, script, sql string, decoded []string, rp replay) {
	ps := identProblems(sql)
	if w := spaceProblem(sql, decoded); w != "" {
		ps["unquoted-space"] = w
	}
	var ks []string
	for k := range ps {
		ks = append(ks, k)
	}
	sort.Strings(ks)
	for _, k := range ks {
		c.Fail("idents:"+k, "the "+script+" script is not lexically valid PostgreSQL: "+ps[k], rp)
	}
}

var identPools = map[string][]string{
	"hyphen":   {"sales-item", "line-no", "my-col", "x-y-z", "unit-price"},
	"reserved": {"user", "order", "group", "limit", "offset", "desc", "check", "end"},
	"escaped":  {"a%20b", "first%20name", "top%20ten"},
	"plain":    {"Customer", "amount", "id", "note", "Stock", "code"},
}

func generateIdents(r *runner) {
	c := r.c
	n := 24
	if c.Thorough() {
		n = 160
	}
	classes := []string{"hyphen", "reserved", "escaped", "plain"}
	for i := 0; i < n; i++ {
		rng := c.Rng.Fork()
		class := classes[i%len(classes)]
		used := map[string]bool{}
		pick := func(cl string) string {
			p := identPools[cl]
			for k := 0; k < 20; k++ {
				s := p[rng.Intn(len(p))]
				if !used[strings.ToLower(s)] {
					used[strings.ToLower(s)] = true
					return s
				}
			}
			s := fmt.Sprintf("n%d", len(used))
			used[s] = true
			return s
		}
		// two tables; where the special name goes: table name, key column, plain column, referenced column
		where := (i / len(classes)) % 4
		t1, t2 := pick("plain"), pick("plain")
		k1, c1, c2 := pick("plain"), pick("plain"), pick("plain")
		switch where {
		case 0:
			t1 = pick(class)
		case 1:
			k1 = pick(class)
		case 2:
			c1 = pick(class)
		case 3:
			t1, k1 = pick(class), pick(class)
		}
		m := &Model{NFiles: 1, Pad: []int{0}, Gap: []int{0, 0}, Tables: []Table{
			{Name: t1, Rank: 0, Cols: []Col{{Name: k1, Prim: "int", PK: true}, {Name: c1, Prim: "string", Size: 20}}},
			{Name: t2, Rank: 1, Cols: []Col{{Name: "id", Prim: "int", PK: true, Auto: i%8 >= 4}, {Name: c2, Ref: &[2]string{t1, k1}}}},
		}}
		// second version: one more column of the same class in the first table, and a new reference to the key
		n2 := m.clone()
		n2.Tables[0].Cols = append(n2.Tables[0].Cols, Col{Name: pick(class), Prim: "date"})
		n2.Tables[1].Cols = append(n2.Tables[1].Cols, Col{Name: pick("plain"), Ref: &[2]string{t1, k1}})
		r.runIdents(m, n2, fmt.Sprintf("%s:%d", class, where), i < 4)
	}
}

// one case of the stream (also the replay entry): creation script of m, delta script m -> n2
func (r *runner) runIdents(m, n2 *Model, note string, sample bool) {
	c := r.c
	class := strings.SplitN(note, ":", 2)[0]
	rp := replay{Kind: "idents", Versions: []*Model{m, n2}, Note: note}
	f1, _, _ := m.render()
	f2, _, _ := n2.render()
	rp.Files = []map[string]string{f1, f2}
	mod1, err1 := compile(f1)
	mod2, err2 := compile(f2)
	if err1 != nil || err2 != nil {
		c.Hist("idents:set-aside:front-end-refuses:" + class)
		return
	}
	key, _ := json.Marshal([]*Model{m, n2})
	c.Count("idents"+string(key), class != "plain")
	c.Hist("idents:" + class)
	var decoded []string
	for _, ms := range []*Model{m, n2} {
		for _, t := range ms.Tables {
			decoded = append(decoded, strings.ReplaceAll(t.Name, "%20", " "))
			for _, col := range t.Cols {
				decoded = append(decoded, strings.ReplaceAll(col.Name, "%20", " "))
			}
		}
	}
	sql, pan := realCreate(mod1)
	if pan != "" {
		c.Fail("idents:panic", "creation script generation panics: "+pan, rp)
		return
	}
	judgeIdents(c, "creation", sql, decoded, rp)
	dsql, pan := realDelta(mod1, mod2)
	if pan != "" {
		c.Fail("idents:panic", "delta script generation panics: "+pan, rp)
		return
	}
	judgeIdents(c, "delta", dsql, decoded, rp)
	if sample {
		c.Sample(map[string]interface{}{"kind": "idents", "class": class, "files": f1, "create": sql, "delta": dsql})
	}
}
