package main

// Stream `outdir` (deepen round 3, second pass, extra item): the creation / delta commands run repeatedly into ONE
// output directory over a chain of versions, so that <dir>/DB.sql already exists - longer, shorter, or not at all -
// when a run writes it.  Judged: the FILE CONTENT left on disk after each run is exactly the script of that run alone
// (the same ScriptOutput written into an empty file system; for the real binary: the same command run into a fresh
// directory).  Key outdir:file-is-not-the-script:<what was there before>.

import (
	"encoding/json"
	"fmt"
	"os"
	"os/exec"
	"path/filepath"
	"strconv"
	"strings"

	"github.com/anz-bank/sysl/pkg/database"
	"github.com/sirupsen/logrus"
	"github.com/spf13/afero"
	"verifharness/common"
)

type odStep struct {
	Op string `json:"op"` // create | delta
	A  int    `json:"a"`  // version (create) / old version (delta)
	B  int    `json:"b"`  // new version (delta)
}

func (s odStep) String() string {
	if s.Op == "create" {
		return fmt.Sprintf("create(v%d)", s.A+1)
	}
	return fmt.Sprintf("delta(v%d,v%d)", s.A+1, s.B+1)
}

// the ScriptOutputs the command's function hands to GenerateFromSQLMap for one run into dir
func stepOutputs(vs []*version, s odStep, dir string) (outs []database.ScriptOutput, panicked string) {
	defer func() {
		if x := recover(); x != nil {
			panicked = fmt.Sprint(x)
		}
	}()
	v := database.MakeDatabaseScriptView("t", logrus.StandardLogger())
	if s.Op == "create" {
		// cmd/sysl processSysl
		app := vs[s.A].mod.GetApps()[appName]
		out := v.GenerateDatabaseScriptCreate(app.GetTypes(), "postgres", appName)
		return []database.ScriptOutput{*database.MakeScriptOutput(filepath.Join(dir, appName+database.SQLExtension), out)}, ""
	}
	// cmd/sysl GenerateModDatabaseScripts
	return v.ProcessModSysls(vs[s.A].mod.GetApps(), vs[s.B].mod.GetApps(), []string{appName}, dir, "postgres"), ""
}

func relLen(prev []byte, absent bool, n int) string {
	switch {
	case absent:
		return "no-file-before"
	case len(prev) > n:
		return "longer-file-before"
	case len(prev) < n:
		return "shorter-file-before"
	}
	return "file-of-equal-length-before"
}

func gContent(absent bool, id, n int) string {
	if absent {
		return "None"
	}
	return fmt.Sprintf("(Some [(%d%%N,0%%N,%d%%N)])", id, n)
}

func (r *runner) runOutdir(models []*Model, steps []odStep, pre int, bin string, sample bool) {
	c := r.c
	rp := replay{Kind: "outdir", Versions: models, Steps: steps, Pre: pre, Bin: bin != ""}
	var vs []*version
	for _, m := range models {
		v, why := r.buildNow(m)
		if v == nil {
			c.Hist("set-aside:" + strings.SplitN(why, ":", 2)[0])
			return
		}
		vs = append(vs, v)
		rp.Files = append(rp.Files, v.files)
	}
	key, _ := json.Marshal(rp)
	c.Count("outdir"+string(key), len(steps) > 1)
	mode := "functions"
	if bin != "" {
		mode = "binary"
	}
	c.Hist("outdir:" + mode)
	dir, err := os.MkdirTemp("", "c16od")
	if err != nil {
		c.Fail("harness:outdir-tempdir", err.Error(), rp)
		return
	}
	defer os.RemoveAll(dir)
	out := filepath.Join(dir, "out")
	os.MkdirAll(out, 0o755)
	file := filepath.Join(out, appName+database.SQLExtension)
	var prev []byte
	absent := true
	initG := "None"
	if pre > 0 {
		prev = []byte(strings.Repeat("-- left over from another tool\n", pre))
		os.WriteFile(file, prev, 0o644)
		absent = false
		initG = gContent(false, 99, len(prev))
	}
	if bin != "" {
		for i, v := range vs {
			// one-file versions only (see generateOutdir): v<i>.sysl in one root
			os.WriteFile(filepath.Join(dir, fmt.Sprintf("v%d.sysl", i+1)), []byte(v.files["root.sysl"]), 0o644)
		}
	}
	runBin := func(s odStep, into string) string {
		args := []string{"generate-db-scripts", "--root", dir, "-t", "t", "-o", into, "-a", appName, "-d", "postgres", fmt.Sprintf("v%d.sysl", s.A+1)}
		if s.Op == "delta" {
			args = []string{"generate-db-scripts-delta", "--root", dir, "-t", "t", "-o", into, "-a", appName, "-d", "postgres",
				fmt.Sprintf("v%d.sysl", s.A+1), fmt.Sprintf("v%d.sysl", s.B+1)}
		}
		cmd := exec.Command(bin, args...)
		cmd.Dir = dir
		if b, err := cmd.CombinedOutput(); err != nil {
			return fmt.Sprintf("%v: %s", err, b)
		}
		return ""
	}
	var stepsG, seenG []string
	for i, s := range steps {
		var want []byte
		if bin == "" {
			outs, pan := stepOutputs(vs, s, out)
			if pan != "" {
				c.Fail("outdir:panic", s.String()+" panics: "+pan, rp)
				return
			}
			// the script of this run alone: the same outputs written into an empty file system
			mfs := afero.NewMemMapFs()
			if err := database.GenerateFromSQLMap(outs, mfs, logrus.StandardLogger()); err != nil {
				c.Fail("outdir:write-error", s.String()+" into an empty file system: "+err.Error(), rp)
				return
			}
			want, _ = afero.ReadFile(mfs, file)
			if err := database.GenerateFromSQLMap(outs, afero.NewOsFs(), logrus.StandardLogger()); err != nil {
				c.Fail("outdir:write-error", s.String()+": "+err.Error(), rp)
				return
			}
		} else {
			fresh := filepath.Join(dir, fmt.Sprintf("fresh%d", i))
			os.MkdirAll(fresh, 0o755)
			if why := runBin(s, fresh); why != "" {
				c.Fail("outdir:command-fails", s.String()+" into an empty directory: "+why, rp)
				return
			}
			want, _ = os.ReadFile(filepath.Join(fresh, appName+database.SQLExtension))
			if why := runBin(s, out); why != "" {
				c.Fail("outdir:command-fails", s.String()+" into the directory of the earlier runs: "+why, rp)
				return
			}
		}
		got, rerr := os.ReadFile(file)
		if rerr != nil {
			c.Fail("outdir:no-file", "after "+s.String()+" there is no "+appName+database.SQLExtension+" in the output directory: "+rerr.Error(), rp)
			return
		}
		rel := relLen(prev, absent, len(want))
		c.Hist("outdir:" + rel)
		stepsG = append(stepsG, fmt.Sprintf("(%d%%N,%d%%N)", i+1, len(want)))
		if string(got) == string(want) {
			seenG = append(seenG, gContent(false, i+1, len(want)))
		} else {
			seenG = append(seenG, gContent(false, 0, len(got)))
			what := fmt.Sprintf("run %d of %d, %s, written into a directory with a %s (%d bytes): the file holds %d bytes, the script of this run has %d",
				i+1, len(steps), s.String(), strings.ReplaceAll(rel, "-", " "), len(prev), len(got), len(want))
			if strings.HasPrefix(string(got), string(want)) {
				what += "; it starts with the script and goes on with " + fmt.Sprintf("%q", firstLine(string(got[len(want):])))
			}
			c.Fail("outdir:file-is-not-the-script:"+rel, what, rp)
		}
		prev, absent = got, false
	}
	r.fcs.Add(fmt.Sprintf("FCase %s %s %s", initG, common.GList(stepsG), common.GList(seenG)), rp)
	if sample {
		c.Sample(map[string]interface{}{"kind": "outdir", "mode": mode, "steps": fmt.Sprint(steps), "pre_existing_bytes": len(prev)})
	}
}

// oneFile puts every declaration of the model into root.sysl
func oneFile(m *Model) {
	m.NFiles = 1
	for t := range m.Tables {
		m.Tables[t].File, m.Tables[t].Part2File, m.Tables[t].Part2From = 0, 0, 0
	}
	if len(m.Pad) > 1 {
		m.Pad = m.Pad[:1]
	}
}

func firstLine(s string) string {
	s = strings.TrimLeft(s, "\n")
	if i := strings.IndexByte(s, '\n'); i >= 0 {
		s = s[:i]
	}
	if len(s) > 80 {
		s = s[:80]
	}
	return s
}

func generateOutdir(r *runner) {
	c := r.c
	n, nBin := 30, 3
	if c.Thorough() {
		n, nBin = 240, 12
	}
	if x, err := strconv.Atoi(os.Getenv("VERIF_C16_OUTDIR_BIN")); err == nil {
		nBin = x // development knob: more runs through the binary
	}
	bin := os.Getenv("VERIF_SYSL_BIN")
	if bin == "" {
		c.Res.Notes = append(c.Res.Notes, "VERIF_SYSL_BIN not set: the runs of stream outdir through the real binary were skipped")
		nBin = 0
	}
	pool := []odStep{{"create", 0, 0}, {"delta", 0, 1}, {"delta", 1, 2}, {"delta", 2, 2}, {"create", 2, 0}, {"delta", 0, 0}, {"create", 1, 0}, {"delta", 0, 2}}
	for i := 0; i < n+nBin; i++ {
		g := &gen{r: c.Rng.Fork(), used: map[string]bool{}}
		m := g.model(4)
		n1, _ := g.evolve(m, 3, "")
		n2, _ := g.evolve(n1, 3, "")
		if i >= n {
			// through the binary: one-file versions (the command takes one module per version)
			for _, x := range []*Model{m, n1, n2} {
				oneFile(x)
			}
		}
		k := 3 + g.r.Intn(4)
		var steps []odStep
		for j := 0; j < k; j++ {
			steps = append(steps, pool[g.r.Intn(len(pool))])
		}
		if i%3 == 0 {
			// the usual history: creation script, then one delta per new version, all into the same directory
			steps = []odStep{{"create", 0, 0}, {"delta", 0, 1}, {"delta", 1, 2}, {"delta", 2, 2}}
		}
		pre := 0
		if i%5 == 4 {
			pre = 1 + g.r.Intn(200)
		}
		b := ""
		if i >= n {
			b = bin
		}
		r.runOutdir([]*Model{m, n1, n2}, steps, pre, b, i < 2 || i == n)
	}
}
