package main

import "strings"

// Reference interpreter for the emitted DDL subset (the oracle's notion of "what the script does").
// Mirrors Db/SqlInterp.v; Coq compares the two on every case.

type ccol struct {
	Name, Ty string
	Def      bool
}
type ctab struct {
	Name string
	Cols []ccol
	PK   []string // nil: no primary key constraint
	FKs  []fk
}
type catalog struct {
	Tabs []*ctab
	Seqs [][2]string
}

func newCatalog() *catalog { return &catalog{} }
func (c *catalog) clone() *catalog {
	n := &catalog{}
	for _, t := range c.Tabs {
		nt := &ctab{Name: t.Name, Cols: append([]ccol(nil), t.Cols...), FKs: append([]fk(nil), t.FKs...)}
		if t.PK != nil {
			nt.PK = append([]string{}, t.PK...)
		}
		n.Tabs = append(n.Tabs, nt)
	}
	n.Seqs = append(n.Seqs, c.Seqs...)
	return n
}
func (c *catalog) find(t string) *ctab {
	for _, x := range c.Tabs {
		if x.Name == t {
			return x
		}
	}
	return nil
}
func (t *ctab) col(c string) *ccol {
	for i := range t.Cols {
		if t.Cols[i].Name == c {
			return &t.Cols[i]
		}
	}
	return nil
}
func (t *ctab) fkOf(c string) int {
	for i, f := range t.FKs {
		if f.Col == c {
			return i
		}
	}
	return -1
}
func (c *catalog) hasCol(t, col string) bool {
	tb := c.find(t)
	return tb != nil && tb.col(col) != nil
}
func (c *catalog) hasSeq(t, col string) bool {
	for _, s := range c.Seqs {
		if s[0] == t && s[1] == col {
			return true
		}
	}
	return false
}
func validTy(ty string) bool {
	if ty == "integer" || ty == "date" || ty == "bigint" || ty == "bigserial" {
		return true
	}
	return strings.HasPrefix(gType(ty), "(TVarchar")
}
func stored(ty string) (string, bool) {
	if ty == "bigserial" {
		return "bigint", true
	}
	return ty, false
}
func distinct(l []string) bool {
	seen := map[string]bool{}
	for _, s := range l {
		if seen[s] {
			return false
		}
		seen[s] = true
	}
	return true
}
func contains(l []string, s string) bool {
	for _, x := range l {
		if x == s {
			return true
		}
	}
	return false
}

// exec1 returns "" or the reason the statement is rejected
func exec1(c *catalog, s stmt) string {
	switch s.Kind {
	case "create":
		if c.find(s.T) != nil {
			return "relation " + s.T + " already exists"
		}
		var names []string
		for _, d := range s.Cols {
			names = append(names, d[0])
		}
		if !distinct(names) {
			return "column specified more than once in " + s.T
		}
		for _, d := range s.Cols {
			if !validTy(d[1]) {
				return "column " + s.T + "." + d[0] + " has no valid type (" + d[1] + ")"
			}
		}
		for _, k := range s.PK {
			if !contains(names, k) {
				return "key column " + k + " does not exist in " + s.T
			}
		}
		var fcols []string
		for _, f := range s.FKs {
			if !contains(names, f.Col) {
				return "foreign key column " + f.Col + " does not exist in " + s.T
			}
			if !(f.RT == s.T && contains(names, f.RC)) && !c.hasCol(f.RT, f.RC) {
				return "foreign key of " + s.T + "." + f.Col + " references " + f.RT + "." + f.RC + " which is not defined yet"
			}
			fcols = append(fcols, f.Col)
		}
		if !distinct(fcols) {
			return "two foreign key constraints of the same name in " + s.T
		}
		t := &ctab{Name: s.T}
		var serials [][2]string
		for _, d := range s.Cols {
			ty, def := stored(d[1])
			if def {
				if c.hasSeq(s.T, d[0]) {
					return "sequence of " + s.T + "." + d[0] + " already exists"
				}
				serials = append(serials, [2]string{s.T, d[0]})
			}
			t.Cols = append(t.Cols, ccol{d[0], ty, def})
		}
		if len(s.PK) > 0 {
			t.PK = append([]string{}, s.PK...)
		}
		t.FKs = append(t.FKs, s.FKs...)
		c.Tabs = append(c.Tabs, t)
		c.Seqs = append(c.Seqs, serials...)
	case "addcol":
		t := c.find(s.T)
		if t == nil {
			return "relation " + s.T + " does not exist"
		}
		if t.col(s.C) != nil {
			return "column " + s.T + "." + s.C + " already exists"
		}
		if !validTy(s.Ty) {
			return "column " + s.T + "." + s.C + " has no valid type (" + s.Ty + ")"
		}
		ty, def := stored(s.Ty)
		if def {
			if c.hasSeq(s.T, s.C) {
				return "sequence of " + s.T + "." + s.C + " already exists"
			}
			c.Seqs = append(c.Seqs, [2]string{s.T, s.C})
		}
		t.Cols = append(t.Cols, ccol{s.C, ty, def})
	case "dropcol":
		t := c.find(s.T)
		if t == nil {
			return "relation " + s.T + " does not exist"
		}
		if t.col(s.C) == nil {
			return "column " + s.T + "." + s.C + " does not exist"
		}
		for _, o := range c.Tabs {
			for _, f := range o.FKs {
				if f.RT == s.T && f.RC == s.C {
					return "cannot drop column " + s.T + "." + s.C + ": foreign key of " + o.Name + "." + f.Col + " depends on it"
				}
			}
		}
		var cols []ccol
		for _, x := range t.Cols {
			if x.Name != s.C {
				cols = append(cols, x)
			}
		}
		t.Cols = cols
		if t.PK != nil && contains(t.PK, s.C) {
			t.PK = nil
		}
		var fks []fk
		for _, f := range t.FKs {
			if f.Col != s.C {
				fks = append(fks, f)
			}
		}
		t.FKs = fks
		var seqs [][2]string
		for _, q := range c.Seqs {
			if !(q[0] == s.T && q[1] == s.C) {
				seqs = append(seqs, q)
			}
		}
		c.Seqs = seqs
	case "altertype":
		t := c.find(s.T)
		if t == nil {
			return "relation " + s.T + " does not exist"
		}
		col := t.col(s.C)
		if col == nil {
			return "column " + s.T + "." + s.C + " does not exist"
		}
		if !validTy(s.Ty) || s.Ty == "bigserial" {
			return "ALTER COLUMN " + s.T + "." + s.C + " TYPE with no valid type (" + s.Ty + ")"
		}
		col.Ty = s.Ty
	case "addpk":
		t := c.find(s.T)
		if t == nil {
			return "relation " + s.T + " does not exist"
		}
		if t.PK != nil {
			return "multiple primary keys for table " + s.T
		}
		if len(s.PK) == 0 {
			return "PRIMARY KEY() with no column on " + s.T
		}
		for _, k := range s.PK {
			if t.col(k) == nil {
				return "key column " + k + " does not exist in " + s.T
			}
		}
		if !distinct(s.PK) {
			return "key column named twice in " + s.T
		}
		t.PK = append([]string{}, s.PK...)
	case "droppk":
		t := c.find(s.T)
		if t == nil {
			return "relation " + s.T + " does not exist"
		}
		if t.PK == nil {
			return "constraint " + pkName(s.T) + " does not exist"
		}
		t.PK = nil
	case "addfk":
		t := c.find(s.T)
		if t == nil {
			return "relation " + s.T + " does not exist"
		}
		f := s.FKs[0]
		if t.col(f.Col) == nil {
			return "foreign key column " + s.T + "." + f.Col + " does not exist"
		}
		if t.fkOf(f.Col) >= 0 {
			return "constraint " + f.Name + " already exists"
		}
		if !c.hasCol(f.RT, f.RC) {
			return "foreign key of " + s.T + "." + f.Col + " references " + f.RT + "." + f.RC + " which does not exist"
		}
		t.FKs = append(t.FKs, f)
	case "dropfk":
		t := c.find(s.T)
		if t == nil {
			return "relation " + s.T + " does not exist"
		}
		i := t.fkOf(s.C)
		if i < 0 {
			return "constraint " + fkName(s.T, s.C) + " does not exist"
		}
		t.FKs = append(append([]fk(nil), t.FKs[:i]...), t.FKs[i+1:]...)
	case "createseq":
		if c.hasSeq(s.T, s.C) {
			return "relation " + seqName(s.T, s.C) + " already exists"
		}
		c.Seqs = append(c.Seqs, [2]string{s.T, s.C})
	case "setdefault":
		t := c.find(s.T)
		if t == nil {
			return "relation " + s.T + " does not exist"
		}
		col := t.col(s.C)
		if col == nil {
			return "column " + s.T + "." + s.C + " does not exist"
		}
		if !c.hasSeq(s.T, s.C) {
			return "relation " + seqName(s.T, s.C) + " does not exist"
		}
		col.Def = true
	case "ownseq", "setval":
		if !c.hasCol(s.T, s.C) || !c.hasSeq(s.T, s.C) {
			return "sequence or column of " + s.T + "." + s.C + " does not exist"
		}
	default:
		return "unknown statement kind " + s.Kind
	}
	return ""
}

// execAll runs the statements; on a rejected statement returns (nil, "<kind>: reason")
func execAll(c *catalog, ss []stmt) (*catalog, string) {
	for _, s := range ss {
		if why := exec1(c, s); why != "" {
			return nil, s.Kind + ": " + why
		}
	}
	return c, ""
}
