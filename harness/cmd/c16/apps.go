package main

import (
	"encoding/json"
	"fmt"
	"os"
	"path/filepath"
	"sort"
	"strings"

	"github.com/anz-bank/sysl/pkg/database"
	"github.com/anz-bank/sysl/pkg/sysl"
	"github.com/sirupsen/logrus"
	"github.com/spf13/afero"

	"verifharness/common"
)

// Several applications in one run of ProcessModSysls (`--app-names a,b,c`).
//
// Every application has its own (single-file) model in the old and / or the new module.  The oracle states the
// property per application and nothing else: one script per name that the new module has, in the order of the
// names; each script is byte for byte what a run over that name alone returns (nothing is carried over from the
// application before: no statement, no recorded column type); a name that only the old module has, or neither, gets
// no script.  The single-application scripts themselves are judged by the pair streams.

type appVersions struct {
	Name string `json:"name"`
	Old  *Model `json:"old,omitempty"`
	New  *Model `json:"new,omitempty"`
}


func moduleText(apps []appVersions, old bool) string {
	var b strings.Builder
	for _, a := range apps {
		m := a.New
		if old {
			m = a.Old
		}
		if m == nil {
			continue
		}
		files, _, _ := m.renderApp(a.Name)
		b.WriteString(files["root.sysl"])
	}
	if b.Len() == 0 {
		b.WriteString("Nothing:\n    ...\n")
	}
	return b.String()
}

func scriptsOf(o, n *sysl.Module, names []string) (out [][2]string, panicked string) {
	defer func() {
		if x := recover(); x != nil {
			panicked = fmt.Sprint(x)
		}
	}()
	v := database.MakeDatabaseScriptView("t", logrus.StandardLogger())
	outs := v.ProcessModSysls(o.GetApps(), n.GetApps(), names, "out", "postgres")
	mfs := afero.NewMemMapFs()
	// the outputs are only reachable through the files they are written to; equal file names would overwrite each
	// other, so every output is written on its own
	for i := range outs {
		one := outs[i : i+1]
		mfs = afero.NewMemMapFs()
		if err := database.GenerateFromSQLMap(one, mfs, logrus.StandardLogger()); err != nil {
			return nil, err.Error()
		}
		var found [][2]string
		afero.Walk(mfs, "out", func(p string, info os.FileInfo, err error) error {
			if err == nil && !info.IsDir() {
				c, _ := afero.ReadFile(mfs, p)
				found = append(found, [2]string{strings.TrimSuffix(filepath.Base(p), database.SQLExtension), string(c)})
			}
			return nil
		})
		if len(found) != 1 {
			return nil, fmt.Sprintf("output %d was written to %d files", i, len(found))
		}
		out = append(out, found[0])
	}
	return out, ""
}

func (r *runner) runApps(apps []appVersions, names []string) {
	c := r.c
	rp := replay{Kind: "apps", Apps: apps, Names: names}
	oldText, newText := moduleText(apps, true), moduleText(apps, false)
	rp.Files = []map[string]string{{"root.sysl": oldText}, {"root.sysl": newText}}
	om, err1 := compile(map[string]string{"root.sysl": oldText})
	nm, err2 := compile(map[string]string{"root.sysl": newText})
	if err1 != nil || err2 != nil {
		c.Hist("set-aside:compile")
		if len(c.Res.Notes) < 5 {
			c.Res.Notes = append(c.Res.Notes, fmt.Sprintf("set aside (apps): %v %v", err1, err2))
		}
		return
	}
	key, _ := json.Marshal(rp.Apps)
	both := 0
	for _, a := range apps {
		if a.Old != nil && a.New != nil {
			both++
		}
	}
	c.Count("apps"+string(key)+strings.Join(names, ","), both > 0 && len(names) > 1)
	c.Hist("kind:apps")
	c.Hist(fmt.Sprintf("apps:%d-names", len(names)))
	outs, pan := scriptsOf(om, nm, names)
	if pan != "" {
		c.Fail("apps:panic", "ProcessModSysls over "+strings.Join(names, ",")+" panics: "+pan, rp)
		return
	}
	byName := map[string]appVersions{}
	for _, a := range apps {
		byName[a.Name] = a
	}
	var want []string
	for _, n := range names {
		if byName[n].New != nil {
			want = append(want, n)
		}
	}
	var got []string
	for _, o := range outs {
		got = append(got, o[0])
	}
	if strings.Join(got, ",") != strings.Join(want, ",") {
		c.Fail("apps:scripts", fmt.Sprintf("--app-names %s: scripts for [%s], the new module has [%s] of these names", strings.Join(names, ","), strings.Join(got, ","), strings.Join(want, ",")), rp)
		return
	}
	var scripts [][]stmt
	for i, o := range outs {
		single, pan := scriptsOf(om, nm, []string{o[0]})
		if pan != "" || len(single) != 1 {
			c.Fail("apps:panic", "ProcessModSysls over "+o[0]+" alone: "+pan, rp)
			return
		}
		if single[0][1] != o[1] {
			c.Fail("apps:script-depends-on-other-applications", fmt.Sprintf("the script of application %s (position %d of --app-names %s) differs from the script of a run over %s alone", o[0], i, strings.Join(names, ","), o[0]), rp)
			return
		}
		ss, perr := parseSQL(o[1])
		if perr != "" {
			c.Fail("apps:unparseable", "script of "+o[0]+" is outside the emitted DDL subset: "+perr, rp)
			return
		}
		if a := byName[o[0]]; a.Old != nil {
			resolveDropFK(ss, a.Old, a.New)
		}
		scripts = append(scripts, ss)
	}
	// Coq case: the projections of every application in both modules, the scripts
	var all []*Model
	for _, a := range apps {
		all = append(all, a.Old, a.New)
	}
	nmz := newNames(all...)
	var entries, outG []string
	for _, n := range names {
		a := byName[n]
		side := func(m *Model, mod *sysl.Module) string {
			if m == nil {
				return "None"
			}
			p, _, why := projectApp(mod, n)
			if why != "" {
				return "None (* " + why + " *)"
			}
			return "(Some " + gModel(p, nmz) + ")"
		}
		entries = append(entries, "("+side(a.Old, om)+", "+side(a.New, nm)+")")
	}
	for _, ss := range scripts {
		outG = append(outG, gStmts(ss, nmz))
	}
	r.acs.Add(fmt.Sprintf("ACase %s %s", common.GList(entries), common.GList(outG)), rp)
}

func generateApps(r *runner) {
	c := r.c
	n := 36
	if c.Thorough() {
		n = 300
	}
	if c.Search {
		n *= 3
	}
	appNames := []string{"DB", "Ledger", "Aux", "Zed"}
	for i := 0; i < n; i++ {
		g := &gen{r: c.Rng.Fork(), used: map[string]bool{}}
		k := 2 + g.r.Intn(3)
		var apps []appVersions
		for j := 0; j < k; j++ {
			a := appVersions{Name: appNames[j]}
			m := g.model(3)
			single(m)
			switch g.r.Intn(6) {
			case 0: // only in the new module
				a.New = m
			case 1: // only in the old module
				a.Old = m
			default:
				a.Old = m
				nn, _ := g.evolve(m, 3, "")
				single(nn)
				a.New = nn
			}
			apps = append(apps, a)
		}
		// --app-names: a permutation of a subset, sometimes with a name no module has
		var names []string
		for _, a := range apps {
			if g.r.Chance(5, 6) {
				names = append(names, a.Name)
			}
		}
		if len(names) == 0 {
			names = []string{apps[0].Name}
		}
		for x := len(names) - 1; x > 0; x-- {
			y := g.r.Intn(x + 1)
			names[x], names[y] = names[y], names[x]
		}
		if g.r.Chance(1, 5) {
			names = append(names, "Nowhere")
		}
		r.runApps(apps, names)
	}
	sort.Strings(appNames)
}

// single puts a model into one file (the applications of a multi-application module are written one after the other)
func single(m *Model) {
	m.NFiles = 1
	m.Pad = []int{m.Pad[0]}
	for i := range m.Tables {
		m.Tables[i].File = 0
		m.Tables[i].Part2File, m.Tables[i].Part2From = 0, 0
	}
	m.Other = false
	for ti := range m.Tables {
		for ci := range m.Tables[ti].Cols {
			c := &m.Tables[ti].Cols[ci]
			if c.Named == "Other.Addr" {
				c.Named = "Gone"
			}
			if c.Elem == "Other.Addr" {
				c.Elem = "Gone"
			}
		}
	}
}
