package main

import (
	"fmt"
	"regexp"
	"strings"
)

// The text pkg/database assembles from the string writeCreateSQLForAColumn returns, lexed into the pieces of
// Db/Text.v - strictly: every byte belongs to a piece, anything else is an error.
//
//	CREATE TABLE t(\n<body>\n);      body   -> pieces
//	ALTER TABLE t ADD COLUMN <def>;  def    -> pieces
//	ALTER TABLE t ADD <constraint>;  constraint -> pieces

type piece struct {
	K       string   // ind sp nl comma name ty pk fk
	A, B, C string   // name / type text / fk: column, table, column
	L       []string // pk columns
}

var (
	rePkPhrase = regexp.MustCompile(`^CONSTRAINT (\w+) PRIMARY KEY\(([^)\n]*)\)`)
	reFkPhrase = regexp.MustCompile(`^CONSTRAINT (\w+) FOREIGN KEY\((\w+)\) REFERENCES (\w+) ?\((\w+)\)`)
	reWord     = regexp.MustCompile(`^\w+`)
)

// lexPieces lexes s (a CREATE TABLE body, a column definition or a constraint) of table t.
func lexPieces(s, t string) ([]piece, string) {
	var out []piece
	pos := 0
	wantType := false // a name and a blank have just been read
	for pos < len(s) {
		rest := s[pos:]
		lineStart := pos == 0 || s[pos-1] == '\n'
		switch {
		case rest[0] == '\n':
			out = append(out, piece{K: "nl"})
			pos++
			wantType = false
		case rest[0] == ',':
			out = append(out, piece{K: "comma"})
			pos++
			wantType = false
		case wantType:
			// the type text runs to the next comma / newline / end; it does not end in a blank
			end := strings.IndexAny(rest, ",\n")
			if end < 0 {
				end = len(rest)
			}
			ty := rest[:end]
			if ty == "" || strings.HasSuffix(ty, " ") || strings.HasPrefix(ty, " ") {
				return nil, fmt.Sprintf("type text %q", ty)
			}
			out = append(out, piece{K: "ty", A: ty})
			pos += end
			wantType = false
		case lineStart && strings.HasPrefix(rest, "  "):
			out = append(out, piece{K: "ind"})
			pos += 2
		case rest[0] == ' ':
			out = append(out, piece{K: "sp"})
			pos++
			if n := len(out); n >= 2 && out[n-2].K == "name" {
				// "name " followed by a type unless the definition ends here
				if pos < len(s) && s[pos] != ',' && s[pos] != '\n' {
					wantType = true
				}
			}
		case strings.HasPrefix(rest, "CONSTRAINT "):
			if m := rePkPhrase.FindStringSubmatch(rest); m != nil {
				if m[1] != pkName(t) {
					return nil, "primary key constraint named " + m[1] + " on table " + t
				}
				var cols []string
				if m[2] != "" {
					cols = strings.Split(m[2], ",")
				}
				for _, c := range cols {
					if !reWord.MatchString(c) || reWord.FindString(c) != c {
						return nil, "key column list " + m[2]
					}
				}
				out = append(out, piece{K: "pk", L: cols})
				pos += len(m[0])
			} else if m := reFkPhrase.FindStringSubmatch(rest); m != nil {
				if m[1] != fkName(t, m[2]) {
					return nil, "foreign key constraint named " + m[1] + " on " + t + "." + m[2]
				}
				out = append(out, piece{K: "fk", A: m[2], B: m[3], C: m[4]})
				pos += len(m[0])
			} else {
				return nil, "constraint phrase " + strings.SplitN(rest, "\n", 2)[0]
			}
		default:
			w := reWord.FindString(rest)
			if w == "" {
				return nil, fmt.Sprintf("byte %q", rest[0])
			}
			out = append(out, piece{K: "name", A: w})
			pos += len(w)
		}
	}
	return out, ""
}

// syntaxOf applies the grammar of a CREATE TABLE body to the pieces: items (column definition, constraint) separated by
// single commas, none behind the last; blanks and newlines are free.  "" = well-formed.
func syntaxOf(ps []piece) string {
	expect := true
	items := 0
	for i := 0; i < len(ps); i++ {
		switch ps[i].K {
		case "ind", "sp", "nl":
		case "comma":
			if expect {
				if items == 0 {
					return "comma-before-first-item"
				}
				return "double-comma"
			}
			expect = true
		case "name", "pk", "fk":
			if !expect {
				return "missing-comma"
			}
			if ps[i].K == "name" {
				// an optional type follows (after blanks)
				j := i + 1
				for j < len(ps) && ps[j].K == "sp" {
					j++
				}
				if j < len(ps) && ps[j].K == "ty" {
					i = j
				}
			}
			expect = false
			items++
		default:
			return "stray-" + ps[i].K
		}
	}
	if expect && items > 0 {
		return "trailing-comma"
	}
	return ""
}

func gPieces(ps []piece, n *names) string {
	var out []string
	for _, p := range ps {
		switch p.K {
		case "ind":
			out = append(out, "KInd")
		case "sp":
			out = append(out, "KSp")
		case "nl":
			out = append(out, "KNl")
		case "comma":
			out = append(out, "KComma")
		case "name":
			out = append(out, "KName "+n.g(p.A))
		case "ty":
			out = append(out, "KTy "+gType(p.A))
		case "pk":
			out = append(out, "KPk "+gNames(p.L, n))
		case "fk":
			out = append(out, fmt.Sprintf("KFk %s %s %s", n.g(p.A), n.g(p.B), n.g(p.C)))
		}
	}
	return "[" + strings.Join(out, ";") + "]"
}

// stmtPieces: the modelled text of one statement, from its raw text (leading blanks removed, no final ";")
func stmtPieces(s *stmt) string {
	raw := strings.TrimLeft(s.RawFull, " \n")
	switch s.Kind {
	case "create":
		head := "CREATE TABLE " + s.T + "(\n"
		if !strings.HasPrefix(raw, head) || !strings.HasSuffix(raw, "\n)") {
			return "CREATE TABLE " + s.T + " does not have the form `CREATE TABLE t(\\n<body>\\n);`"
		}
		body := raw[len(head) : len(raw)-2]
		ps, err := lexPieces(body, s.T)
		if err != "" {
			return "body of CREATE TABLE " + s.T + ": " + err
		}
		s.Pieces = ps
	case "addcol":
		head := "ALTER TABLE " + s.T + " ADD COLUMN "
		if !strings.HasPrefix(raw, head) {
			return "ADD COLUMN statement " + raw
		}
		ps, err := lexPieces(raw[len(head):], s.T)
		if err != "" {
			return "definition in " + raw + ": " + err
		}
		s.Pieces = ps
	case "addfk":
		head := "ALTER TABLE " + s.T + " ADD "
		if !strings.HasPrefix(raw, head) {
			return "ADD CONSTRAINT statement " + raw
		}
		ps, err := lexPieces(raw[len(head):], s.T)
		if err != "" {
			return "constraint in " + raw + ": " + err
		}
		s.Pieces = ps
	}
	return ""
}
