package main

import (
	"fmt"
	"os"
	"os/exec"
	"strings"
	"time"

	"verifharness/common"
)

// ---------------------------------------------------------------- generator of abstract models and edit scripts

type gen struct {
	r     *common.Rng
	used  map[string]bool // lower-cased names handed out (tables and columns share the pool: all distinct, case-insensitively)
	hostile bool
	cur   *Model // the model being built / edited (named types and collection elements are drawn from it)
	force string // "", or the kind the next plain column must have: prim | named | coll
}

// words the Sysl lexer does not take as names (case-insensitively)
var reserved = map[string]bool{"as": true, "any": true, "alt": true, "if": true, "int": true, "set": true, "for": true, "one": true,
	"true": true, "else": true, "each": true, "loop": true, "date": true, "bool": true, "text": true, "until": true, "while": true}

var prims = []string{"int", "string", "date", "float", "bool", "decimal", "datetime", "int", "string", "string", "bytes", "any"}

var typeKinds = []string{"alias", "aliasseq", "type", "enum", "union"}

// namedType: a type text that compiles to a one-element type reference
func (g *gen) namedType() string {
	m := g.cur
	switch k := g.r.Intn(10); {
	case k < 5 && m != nil && len(m.Types) > 0:
		return m.Types[g.r.Intn(len(m.Types))].Name
	case k < 7 && m != nil:
		m.Other = true
		return "Other.Addr"
	case k == 7:
		return "uuid"
	}
	return g.name("GNM") // a name nothing defines
}

func (g *gen) elemType() string {
	m := g.cur
	switch k := g.r.Intn(10); {
	case k < 4:
		return []string{"int", "string", "string(4)", "date", "float", "bool"}[g.r.Intn(6)]
	case k < 7 && m != nil && len(m.Tables) > 0:
		t := m.Tables[g.r.Intn(len(m.Tables))]
		if len(t.Cols) > 0 {
			return t.Name + "." + t.Cols[g.r.Intn(len(t.Cols))].Name
		}
	}
	return g.namedType()
}

func (g *gen) name(prefixes string) string {
	const tail = "abcdefghijklmnopqrstuvwxyzABCDEFGHIJKLMNOPQRSTUVWXYZ0123456789"
	for {
		n := 1 + g.r.Intn(3)
		b := []byte{prefixes[g.r.Intn(len(prefixes))]}
		for i := 0; i < n; i++ {
			b = append(b, tail[g.r.Intn(len(tail))])
		}
		s := string(b)
		if reserved[strings.ToLower(s)] {
			continue
		}
		if !g.used[strings.ToLower(s)] {
			g.used[strings.ToLower(s)] = true
			return s
		}
	}
}

func (g *gen) primCol(name string) Col {
	kind := g.force
	if kind == "" {
		switch k := g.r.Intn(20); {
		case k < 2:
			kind = "named"
		case k < 4:
			kind = "coll"
		default:
			kind = "prim"
		}
	}
	switch kind {
	case "named":
		return Col{Name: name, Named: g.namedType(), Opt: g.r.Chance(1, 4)}
	case "coll":
		return Col{Name: name, Coll: []string{"set", "sequence"}[g.r.Intn(2)], Elem: g.elemType()}
	}
	c := Col{Name: name, Prim: prims[g.r.Intn(len(prims))]}
	if g.hostile && g.r.Chance(1, 12) {
		c.Prim = "seqint"
	}
	if c.Prim == "string" && g.r.Chance(2, 3) {
		c.Size = []int{1, 7, 22, 50, 51, 255, 4000}[g.r.Intn(7)]
		if g.r.Chance(1, 3) {
			c.Lo = 1 + g.r.Intn(c.Size)
		}
	}
	c.Opt = g.r.Chance(1, 4)
	return c
}

// a reference from a table of rank `rank` to a column of a lower-ranked table
func (g *gen) refTarget(m *Model, rank int, not *[2]string) *[2]string {
	var cands [][2]string
	for _, t := range m.Tables {
		if t.Rank >= rank {
			continue
		}
		for _, c := range t.Cols {
			k := [2]string{t.Name, c.Name}
			if not != nil && *not == k {
				continue
			}
			// prefer key columns, but any column can be referenced
			cands = append(cands, k)
			if c.PK {
				cands = append(cands, k, k, k)
			}
		}
	}
	if len(cands) == 0 {
		return nil
	}
	k := cands[g.r.Intn(len(cands))]
	return &k
}

func (g *gen) newTable(m *Model, rank, file int) Table {
	t := Table{Name: g.name("TtUQzW"), File: file, Rank: rank}
	n := 1 + g.r.Intn(5)
	npk := []int{0, 1, 1, 1, 1, 2, 3}[g.r.Intn(7)]
	for i := 0; i < n; i++ {
		c := g.primCol(g.name("ckxZ"))
		if g.r.Chance(2, 5) {
			if ref := g.refTarget(m, rank, nil); ref != nil {
				c = Col{Name: c.Name, Ref: ref, Opt: c.Opt}
			}
		}
		if i < npk {
			c.PK = true
			c.Opt = false
		}
		if c.kind() == "prim" && g.r.Chance(1, 5) && (c.Prim == "int" || g.r.Chance(1, 6)) {
			c.Auto = true
		}
		t.Cols = append(t.Cols, c)
	}
	// columns are declared in random order
	for i := len(t.Cols) - 1; i > 0; i-- {
		j := g.r.Intn(i + 1)
		t.Cols[i], t.Cols[j] = t.Cols[j], t.Cols[i]
	}
	return t
}

// layout: files, padding; `align` makes the first tables of all files start on the same line
func (g *gen) layout(m *Model, nfiles int, align bool) {
	m.NFiles = nfiles
	m.Pad = make([]int, nfiles)
	m.Gap = make([]int, len(m.Tables))
	for i := range m.Tables {
		m.Tables[i].File = g.r.Intn(nfiles)
		if g.r.Chance(1, 3) {
			m.Gap[i] = g.r.Intn(3)
		}
	}
	if align {
		// file 0 has nfiles-1 import lines; give the others that many blank lines, and no gaps
		for f := 1; f < nfiles; f++ {
			m.Pad[f] = nfiles - 1
		}
		for i := range m.Gap {
			m.Gap[i] = 0
		}
		if g.r.Chance(1, 3) { // equal-sized tables keep later tables aligned too: leave as is; else shift one file
			m.Pad[g.r.Intn(nfiles)] += g.r.Intn(2)
		}
	} else {
		for f := range m.Pad {
			m.Pad[f] = g.r.Intn(4)
		}
	}
}

func (g *gen) model(maxTables int) *Model {
	m := &Model{}
	g.cur = m
	for i := []int{0, 0, 1, 1, 2, 3}[g.r.Intn(6)]; i > 0; i-- {
		m.Types = append(m.Types, TypeDecl{Name: g.name("MAYV"), Kind: typeKinds[g.r.Intn(len(typeKinds))]})
	}
	n := 1 + g.r.Intn(maxTables)
	for i := 0; i < n; i++ {
		m.Tables = append(m.Tables, g.newTable(m, i, 0))
	}
	// declaration order is independent of rank
	for i := len(m.Tables) - 1; i > 0; i-- {
		j := g.r.Intn(i + 1)
		m.Tables[i], m.Tables[j] = m.Tables[j], m.Tables[i]
	}
	nf := []int{1, 1, 2, 2, 3}[g.r.Intn(5)]
	align := nf > 1 && g.r.Chance(1, 2)
	g.layout(m, nf, align)
	if align && g.r.Chance(1, 3) {
		// re-open one table in another file (its later columns are declared there)
		t := &m.Tables[g.r.Intn(len(m.Tables))]
		if len(t.Cols) > 1 {
			t.Part2File = (t.File + 1 + g.r.Intn(nf-1)) % nf
			t.Part2From = 1 + g.r.Intn(len(t.Cols)-1)
		}
	}
	return m
}

// makeUnorderable adds 1-2 references no order can satisfy
func (g *gen) makeUnorderable(m *Model) {
	for k := 0; k < 1+g.r.Intn(2); k++ {
		t := &m.Tables[g.r.Intn(len(m.Tables))]
		o := &m.Tables[g.r.Intn(len(m.Tables))]
		switch g.r.Intn(3) {
		case 0: // self reference (or a cycle through o when o != t and o already refers to t)
			t.Cols = append(t.Cols, Col{Name: g.name("ckxZ"), Ref: &[2]string{t.Name, t.Cols[0].Name}})
		case 1: // two tables referring to each other
			t.Cols = append(t.Cols, Col{Name: g.name("ckxZ"), Ref: &[2]string{o.Name, o.Cols[0].Name}})
			o.Cols = append(o.Cols, Col{Name: g.name("ckxZ"), Ref: &[2]string{t.Name, t.Cols[0].Name}})
		default: // a column that does not exist
			t.Cols = append(t.Cols, Col{Name: g.name("ckxZ"), Ref: &[2]string{o.Name, g.name("ckxZ")}})
		}
	}
}

// ---- edits (each keeps the model valid: references resolve, graph acyclic by rank)

// fixReferrers: column (tn, cn) is going away or stops being referable; every column referring to it is
// retargeted, turned into a plain column, or dropped (recursively)
func (g *gen) fixReferrers(m *Model, tn, cn string) {
	for ti := range m.Tables {
		t := &m.Tables[ti]
		for ci := 0; ci < len(t.Cols); ci++ {
			c := &t.Cols[ci]
			if c.Ref == nil || c.Ref[0] != tn || c.Ref[1] != cn {
				continue
			}
			switch g.r.Intn(3) {
			case 0:
				if ref := g.refTargetExcludingTable(m, t.Rank, tn); ref != nil {
					c.Ref = ref
					continue
				}
				fallthrough
			case 1:
				pc := g.primCol(c.Name)
				pc.PK = c.PK
				*c = pc
			default:
				if len(t.Cols) > 1 {
					name := c.Name
					t.Cols = append(t.Cols[:ci], t.Cols[ci+1:]...)
					ci--
					g.fixReferrers(m, t.Name, name)
				} else {
					pc := g.primCol(c.Name)
					pc.PK = c.PK
					*c = pc
				}
			}
		}
	}
}

func (g *gen) refTargetExcludingTable(m *Model, rank int, tn string) *[2]string {
	for i := 0; i < 8; i++ {
		if r := g.refTarget(m, rank, nil); r != nil && r[0] != tn {
			return r
		}
	}
	return nil
}

var editNames = []string{"add-column", "drop-column", "retype", "add-table", "drop-table", "toggle-pk", "toggle-autoinc",
	"add-ref", "drop-ref", "retarget-ref", "drop-ref-column", "layout",
	"rekind", "add-type", "drop-type", "type-to-table", "table-to-type"}

// the edits of the column-kind stream: every kind added / removed / turned into every other kind, in retained and in
// added tables
var kindEdits = []string{"rekind", "rekind", "add-named", "add-coll", "add-prim", "drop-named", "drop-coll", "add-table-kinds",
	"add-type", "drop-type", "type-to-table", "table-to-type", "rekind-to-ref", "rekind-from-ref"}

func (g *gen) edit(m *Model, kind string) bool {
	if len(m.Tables) == 0 {
		return false
	}
	g.cur = m
	g.force = ""
	defer func() { g.force = "" }()
	switch kind {
	case "add-named", "add-coll", "add-prim":
		g.force = strings.TrimPrefix(kind, "add-")
		kind = "add-column"
	case "add-table-kinds":
		// an added table whose columns are mostly named types / collections
		rank := 0
		for _, x := range m.Tables {
			if x.Rank >= rank {
				rank = x.Rank + 1
			}
		}
		nt := g.newTable(m, rank, g.r.Intn(m.NFiles))
		for i := range nt.Cols {
			if nt.Cols[i].Ref == nil && !nt.Cols[i].Auto && g.r.Chance(2, 3) {
				g.force = []string{"named", "coll"}[g.r.Intn(2)]
				c := g.primCol(nt.Cols[i].Name)
				c.PK = nt.Cols[i].PK
				nt.Cols[i] = c
			}
		}
		pos := g.r.Intn(len(m.Tables) + 1)
		m.Tables = append(m.Tables[:pos], append([]Table{nt}, m.Tables[pos:]...)...)
		m.Gap = append(m.Gap, 0)
		return true
	case "add-type":
		m.Types = append(m.Types, TypeDecl{Name: g.name("MAYV"), Kind: typeKinds[g.r.Intn(len(typeKinds))]})
		return true
	case "drop-type":
		// columns of that type keep their text: the name is undefined from now on
		if len(m.Types) == 0 {
			return false
		}
		i := g.r.Intn(len(m.Types))
		m.Types = append(m.Types[:i], m.Types[i+1:]...)
		return true
	case "type-to-table":
		// a name that denoted a non-table type becomes a table
		if len(m.Types) == 0 {
			return false
		}
		i := g.r.Intn(len(m.Types))
		name := m.Types[i].Name
		m.Types = append(m.Types[:i], m.Types[i+1:]...)
		rank := 0
		for _, x := range m.Tables {
			if x.Rank >= rank {
				rank = x.Rank + 1
			}
		}
		nt := g.newTable(m, rank, g.r.Intn(m.NFiles))
		nt.Name = name
		m.Tables = append(m.Tables, nt)
		m.Gap = append(m.Gap, 0)
		return true
	case "table-to-type":
		// a table becomes a non-table type of the same name (references to it are repaired as for a dropped table)
		if len(m.Tables) < 2 {
			return false
		}
		ti := g.r.Intn(len(m.Tables))
		dead := m.Tables[ti]
		m.Tables = append(m.Tables[:ti], m.Tables[ti+1:]...)
		m.Gap = m.Gap[:len(m.Tables)]
		for _, c := range dead.Cols {
			g.fixReferrers(m, dead.Name, c.Name)
		}
		m.Types = append(m.Types, TypeDecl{Name: dead.Name, Kind: typeKinds[g.r.Intn(len(typeKinds))]})
		return true
	}
	ti := g.r.Intn(len(m.Tables))
	t := &m.Tables[ti]
	pick := func(pred func(c *Col) bool) int {
		var idx []int
		for i := range t.Cols {
			if pred(&t.Cols[i]) {
				idx = append(idx, i)
			}
		}
		if len(idx) == 0 {
			return -1
		}
		return idx[g.r.Intn(len(idx))]
	}
	switch kind {
	case "add-column":
		c := g.primCol(g.name("ckxZ"))
		if g.r.Chance(1, 3) {
			if ref := g.refTarget(m, t.Rank, nil); ref != nil {
				c = Col{Name: c.Name, Ref: ref}
			}
		}
		if g.r.Chance(1, 5) {
			c.PK = true
		}
		if c.kind() == "prim" && g.r.Chance(1, 6) {
			c.Auto = true
		}
		pos := g.r.Intn(len(t.Cols) + 1)
		t.Cols = append(t.Cols[:pos], append([]Col{c}, t.Cols[pos:]...)...)
	case "rekind", "rekind-to-ref", "rekind-from-ref":
		i := pick(func(c *Col) bool { return !c.Auto && (kind != "rekind-from-ref" || c.Ref != nil) })
		if i < 0 {
			return false
		}
		old := t.Cols[i]
		var targets []string
		for _, k := range []string{"prim", "named", "coll", "ref"} {
			if k != old.kind() && (kind != "rekind-to-ref" || k == "ref") {
				targets = append(targets, k)
			}
		}
		if len(targets) == 0 {
			return false
		}
		var n Col
		switch k := targets[g.r.Intn(len(targets))]; k {
		case "ref":
			ref := g.refTarget(m, t.Rank, nil)
			if ref == nil {
				return false
			}
			n = Col{Name: old.Name, Ref: ref}
		default:
			g.force = k
			n = g.primCol(old.Name)
		}
		n.PK = old.PK
		t.Cols[i] = n
	case "drop-column", "drop-ref-column", "drop-named", "drop-coll":
		if len(t.Cols) < 2 {
			return false
		}
		i := pick(func(c *Col) bool {
			switch kind {
			case "drop-ref-column":
				return c.Ref != nil
			case "drop-named":
				return c.Named != ""
			case "drop-coll":
				return c.Coll != ""
			}
			return true
		})
		if i < 0 {
			return false
		}
		name := t.Cols[i].Name
		t.Cols = append(t.Cols[:i], t.Cols[i+1:]...)
		g.fixReferrers(m, t.Name, name)
	case "retype":
		i := pick(func(c *Col) bool { return c.kind() == "prim" })
		if i < 0 {
			return false
		}
		old := t.Cols[i]
		g.force = "prim"
		for k := 0; k < 10; k++ {
			n := g.primCol(old.Name)
			n.PK, n.Auto = old.PK, old.Auto
			if n.Prim != old.Prim || n.Size != old.Size {
				t.Cols[i] = n
				return true
			}
		}
		return false
	case "add-table":
		rank := 0
		for _, x := range m.Tables {
			if x.Rank >= rank {
				rank = x.Rank + 1
			}
		}
		nt := g.newTable(m, rank, g.r.Intn(m.NFiles))
		pos := g.r.Intn(len(m.Tables) + 1)
		m.Tables = append(m.Tables[:pos], append([]Table{nt}, m.Tables[pos:]...)...)
		m.Gap = append(m.Gap, 0)
	case "drop-table":
		if len(m.Tables) < 2 {
			return false
		}
		dead := *t
		m.Tables = append(m.Tables[:ti], m.Tables[ti+1:]...)
		m.Gap = m.Gap[:len(m.Tables)]
		for _, c := range dead.Cols {
			g.fixReferrers(m, dead.Name, c.Name)
		}
	case "toggle-pk":
		i := pick(func(c *Col) bool { return true })
		t.Cols[i].PK = !t.Cols[i].PK
	case "toggle-autoinc":
		i := pick(func(c *Col) bool { return c.kind() == "prim" })
		if i < 0 {
			return false
		}
		t.Cols[i].Auto = !t.Cols[i].Auto
	case "add-ref":
		i := pick(func(c *Col) bool { return c.Ref == nil })
		if i < 0 {
			return false
		}
		ref := g.refTarget(m, t.Rank, nil)
		if ref == nil {
			return false
		}
		t.Cols[i] = Col{Name: t.Cols[i].Name, Ref: ref, PK: t.Cols[i].PK, Opt: t.Cols[i].Opt}
	case "drop-ref":
		i := pick(func(c *Col) bool { return c.Ref != nil })
		if i < 0 {
			return false
		}
		n := g.primCol(t.Cols[i].Name)
		n.PK = t.Cols[i].PK
		t.Cols[i] = n
	case "retarget-ref":
		i := pick(func(c *Col) bool { return c.Ref != nil })
		if i < 0 {
			return false
		}
		ref := g.refTarget(m, t.Rank, t.Cols[i].Ref)
		if ref == nil {
			return false
		}
		t.Cols[i].Ref = ref
	case "layout":
		nf := 1 + g.r.Intn(3)
		g.layout(m, nf, g.r.Bool())
		// declaration order of columns inside a table changes too
		if len(t.Cols) > 1 {
			i, j := g.r.Intn(len(t.Cols)), g.r.Intn(len(t.Cols))
			t.Cols[i], t.Cols[j] = t.Cols[j], t.Cols[i]
		}
	}
	return true
}

// next version: 1..k edits
func (g *gen) evolve(m *Model, maxEdits int, only string) (*Model, []string) {
	n := m.clone()
	var done []string
	k := 1 + g.r.Intn(maxEdits)
	for i := 0; i < k; i++ {
		kind := only
		if kind == "" {
			kind = editNames[g.r.Intn(len(editNames))]
		}
		for try := 0; try < 6; try++ {
			if g.edit(n, kind) {
				done = append(done, kind)
				break
			}
		}
	}
	return n, done
}

// ---------------------------------------------------------------- streams

func generate(r *runner) {
	c := r.c
	nCreate, nPair, nChain, maxT := 250, 360, 80, 7
	if c.Thorough() {
		nCreate, nPair, nChain, maxT = 2000, 3000, 700, 9
	}
	if c.Search {
		nCreate, nPair, nChain = nCreate*3, nPair*3, nChain*3
	}
	fresh := func(hostile bool) *gen {
		return &gen{r: c.Rng.Fork(), used: map[string]bool{}, hostile: hostile}
	}
	// 0. the fixed shapes of DESIGN.md Appendix B, first
	fixedShapes(r)
	// 1. creation scripts
	for i := 0; i < nCreate; i++ {
		g := fresh(i%5 == 4)
		m := g.model(maxT)
		r.run("create", []*Model{m}, "")
	}
	// 1b. unorderable reference graphs (self reference, cycle, reference to a missing column): not judged, compared
	//     (only when a child process shows that the real fix-point ends on a self reference: otherwise this stream
	//     would kill the harness with a stack overflow, which is C20's finding, not a C16 one)
	unorderableOK := probeSelfReference()
	if !unorderableOK {
		c.Res.Notes = append(c.Res.Notes, "stream create-unorderable skipped: CreateTableDepthMap does not return on a self-referencing table (child process crashed or exceeded 20 s)")
	}
	for i := 0; i < nCreate/6; i++ {
		g := fresh(false) // drawn in any case, so that the later streams do not depend on the probe
		m := g.model(maxT)
		g.makeUnorderable(m)
		if unorderableOK {
			r.run("create-unorderable", []*Model{m}, "")
		}
	}
	// 2. pairs: one targeted edit kind (every kind equally often), or a mixed script of up to 4 edits
	for i := 0; i < nPair; i++ {
		g := fresh(i%7 == 6)
		m := g.model(maxT)
		var n *Model
		var did []string
		if i%2 == 0 {
			n, did = g.evolve(m, 1, editNames[(i/2)%len(editNames)])
		} else {
			n, did = g.evolve(m, 4, "")
		}
		r.run("delta", []*Model{m, n}, strings.Join(did, ","))
	}
	// 2b. column kinds: every kind of column type added / removed / turned into another, in retained and added tables;
	//     non-table types declared, removed, turned into tables and back
	nKinds := 98
	if c.Thorough() {
		nKinds = 812
	}
	if c.Search {
		nKinds *= 3
	}
	for i := 0; i < nKinds; i++ {
		g := fresh(false)
		m := g.model(5)
		k := kindEdits[i%len(kindEdits)]
		n, did := g.evolve(m, 1, k)
		if i%3 == 2 {
			var more []string
			n, more = g.evolve(n, 2, kindEdits[g.r.Intn(len(kindEdits))])
			did = append(did, more...)
		}
		r.run("delta", []*Model{m, n}, "kinds:"+strings.Join(did, ","))
	}
	// 2c. several applications in one run of ProcessModSysls
	generateApps(r)
	// 3. identity pairs (same text; and same schema under another layout)
	for i := 0; i < nPair/10; i++ {
		g := fresh(false)
		m := g.model(maxT)
		r.run("delta", []*Model{m, m.clone()}, "identity")
	}
	// 4. chains v1 -> v2 -> v3
	for i := 0; i < nChain; i++ {
		g := fresh(false)
		m := g.model(maxT)
		n1, d1 := g.evolve(m, 3, "")
		n2, d2 := g.evolve(n1, 3, "")
		r.run("chain", []*Model{m, n1, n2}, strings.Join(d1, ",")+" / "+strings.Join(d2, ","))
	}
	// 5. names that need quoting (Go oracle only)
	generateIdents(r)
	// 6. runs into one output directory
	generateOutdir(r)
	c.Res.Extra["streams"] = fmt.Sprintf("create=%d pairs=%d identity=%d chains=%d", nCreate, nPair, nPair/10, nChain)
}

// the shapes the property file names: tables of two files on equal lines, a table re-opened in a second file with
// columns on equal lines is NOT generated (one table, one declaration); removal of a reference column; reference
// retargeting; a reference to an autoincrement column
func fixedShapes(r *runner) {
	p := func(name, prim string) Col { return Col{Name: name, Prim: prim} }
	pk := func(c Col) Col { c.PK = true; return c }
	ref := func(name, t, c string) Col { return Col{Name: name, Ref: &[2]string{t, c}} }
	two := &Model{NFiles: 2, Pad: []int{0, 1}, Gap: []int{0, 0, 0}, Tables: []Table{
		{Name: "T1", File: 0, Rank: 0, Cols: []Col{pk(p("id", "int")), p("a", "string")}},
		{Name: "T2", File: 1, Rank: 1, Cols: []Col{pk(p("id", "int")), p("b", "date")}},
		{Name: "T3", File: 0, Rank: 2, Cols: []Col{pk(ref("x", "T2", "id")), ref("y", "T1", "id")}},
	}}
	r.run("create", []*Model{two}, "two files, T1 and T2 start on the same line")
	split := &Model{NFiles: 2, Pad: []int{0, 1}, Gap: []int{0, 0}, Tables: []Table{
		{Name: "S1", File: 0, Rank: 0, Part2File: 1, Part2From: 2, Cols: []Col{pk(p("a", "int")), p("b", "string"), p("c", "date"), pk(p("d", "int"))}},
		{Name: "S2", File: 0, Rank: 1, Cols: []Col{pk(ref("x", "S1", "a")), ref("y", "S1", "d")}},
	}}
	r.run("create", []*Model{split}, "table S1 re-opened in a second file, columns a/c and b/d on equal lines")
	base := &Model{NFiles: 1, Pad: []int{0}, Gap: []int{0, 0, 0}, Tables: []Table{
		{Name: "P", Rank: 0, Cols: []Col{pk(p("id", "int")), p("n", "string")}},
		{Name: "Q", Rank: 1, Cols: []Col{pk(p("id", "string")), p("m", "int")}},
		{Name: "C", Rank: 2, Cols: []Col{pk(p("k", "int")), ref("p", "P", "id"), p("v", "date")}},
	}}
	r.run("create", []*Model{base}, "")
	r.run("delta", []*Model{base, base.clone()}, "identity")
	dropFK := base.clone()
	dropFK.Tables[2].Cols = []Col{dropFK.Tables[2].Cols[0], dropFK.Tables[2].Cols[2]}
	r.run("delta", []*Model{base, dropFK}, "reference column removed")
	retarget := base.clone()
	retarget.Tables[2].Cols[1].Ref = &[2]string{"Q", "id"}
	r.run("delta", []*Model{base, retarget}, "reference retargeted")
	addFK := base.clone()
	addFK.Tables[2].Cols = append(addFK.Tables[2].Cols, ref("q", "Q", "id"))
	r.run("delta", []*Model{base, addFK}, "reference column added")
	r.run("chain", []*Model{base, addFK, dropFK}, "add then remove references")
}

// probeSelfReference runs the real creation-script generator on `T: id; parent <: T.id` in a child process.
func probeSelfReference() bool {
	exe, err := os.Executable()
	if err != nil {
		return false
	}
	cmd := exec.Command(exe)
	cmd.Env = append(os.Environ(), "VERIF_C16_PROBE=1")
	if err := cmd.Start(); err != nil {
		return false
	}
	done := make(chan error, 1)
	go func() { done <- cmd.Wait() }()
	select {
	case err := <-done:
		return err == nil
	case <-time.After(20 * time.Second):
		cmd.Process.Kill()
		<-done
		return false
	}
}

func runProbe() {
	m := &Model{NFiles: 1, Pad: []int{0}, Gap: []int{0}, Tables: []Table{{Name: "T", Cols: []Col{
		{Name: "id", Prim: "int", PK: true}, {Name: "parent", Ref: &[2]string{"T", "id"}}}}}}
	files, _, _ := m.render()
	mod, err := compile(files)
	if err != nil {
		os.Exit(0) // the front end refusing the text says nothing about the fix-point
	}
	realCreate(mod)
	os.Exit(0)
}
