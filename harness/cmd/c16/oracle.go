package main

import (
	"fmt"
	"sort"
	"strings"

	"verifharness/common"
)

// The oracle judges the PROPERTY on the abstract model the Sysl text was written from; it does not look at the
// Coq model.  What a model means as a schema:
//   column type: string(n) / string(a..n) -> varchar (n); string -> varchar (50); int -> integer; date -> date;
//                any other type -> varchar (50); ~autoinc (not a reference) -> bigserial, i.e. bigint;
//                a reference -> the type of the referenced column
//   primary key: the set of ~pk columns;  foreign keys: column -> (table, column) for every reference.

func expType(m *Model, t *Table, c *Col, depth int) string {
	if depth > 64 {
		return "?cycle?"
	}
	if c.Ref != nil {
		rt := m.table(c.Ref[0])
		if rt == nil {
			return "?dangling?"
		}
		rc := rt.col(c.Ref[1])
		if rc == nil {
			return "?dangling?"
		}
		return expType(m, rt, rc, depth+1)
	}
	if c.Auto {
		return "bigint"
	}
	if c.Named != "" || c.Coll != "" {
		// no SQL counterpart: the default type, as for every primitive the type table does not list
		return "varchar (50)"
	}
	switch c.Prim {
	case "string":
		if c.Size > 0 {
			return fmt.Sprintf("varchar (%d)", c.Size)
		}
		return "varchar (50)"
	case "int":
		return "integer"
	case "date":
		return "date"
	}
	return "varchar (50)"
}

func pkSet(t *Table) []string {
	var k []string
	for _, c := range t.Cols {
		if c.PK {
			k = append(k, c.Name)
		}
	}
	sort.Strings(k)
	return k
}

func sameSet(a, b []string) bool {
	a, b = append([]string(nil), a...), append([]string(nil), b...)
	sort.Strings(a)
	sort.Strings(b)
	return strings.Join(a, ",") == strings.Join(b, ",") && len(a) == len(b)
}

func sameLineTables(m *Model) bool {
	_, tl, _ := m.render()
	seen := map[int]bool{}
	for _, l := range tl {
		if seen[l] {
			return true
		}
		seen[l] = true
	}
	return false
}

// a table re-opened in a second file with two of its columns on the same line
func sameLineColumns(m *Model) bool {
	_, _, cl := m.render()
	for _, t := range m.Tables {
		seen := map[int]bool{}
		for _, c := range t.Cols {
			l := cl[t.Name+"."+c.Name]
			if seen[l] {
				return true
			}
			seen[l] = true
		}
	}
	return false
}

// compareTable: the catalog's table against the abstract table; returns (clause, column, detail) triples
type diff struct{ clause, col, detail string }

func compareTable(m *Model, t *Table, ct *ctab) []diff {
	var ds []diff
	for _, c := range t.Cols {
		cc := ct.col(c.Name)
		if cc == nil {
			ds = append(ds, diff{"column-missing", c.Name, "column " + t.Name + "." + c.Name + " is missing"})
			continue
		}
		if want := expType(m, t, &c, 0); cc.Ty != want {
			ds = append(ds, diff{"type", c.Name, fmt.Sprintf("column %s.%s has type %q, the model says %q", t.Name, c.Name, cc.Ty, want)})
		}
		i := ct.fkOf(c.Name)
		switch {
		case c.Ref != nil && i < 0:
			ds = append(ds, diff{"fk-missing", c.Name, fmt.Sprintf("no foreign key on %s.%s (model: -> %s.%s)", t.Name, c.Name, c.Ref[0], c.Ref[1])})
		case c.Ref == nil && i >= 0:
			ds = append(ds, diff{"fk-extra", c.Name, fmt.Sprintf("foreign key on %s.%s -> %s.%s which the model does not have", t.Name, c.Name, ct.FKs[i].RT, ct.FKs[i].RC)})
		case c.Ref != nil && (ct.FKs[i].RT != c.Ref[0] || ct.FKs[i].RC != c.Ref[1]):
			ds = append(ds, diff{"fk-target", c.Name, fmt.Sprintf("foreign key on %s.%s references %s.%s, the model says %s.%s", t.Name, c.Name, ct.FKs[i].RT, ct.FKs[i].RC, c.Ref[0], c.Ref[1])})
		}
	}
	for _, cc := range ct.Cols {
		if t.col(cc.Name) == nil {
			ds = append(ds, diff{"column-extra", cc.Name, "column " + t.Name + "." + cc.Name + " is not in the model"})
		}
	}
	if !sameSet(pkSet(t), ct.PK) {
		ds = append(ds, diff{"pk", "", fmt.Sprintf("primary key of %s is (%s), the model says (%s)", t.Name, strings.Join(ct.PK, ","), strings.Join(pkSet(t), ","))})
	}
	return ds
}

// ---- creation script: each table exactly once, all columns / types / keys / references, after what it references
func judgeCreate(c *common.Ctx, m *Model, ss []stmt, cat *catalog, xerr string, rp replay) {
	defined := map[string]int{}
	for _, s := range ss {
		if s.Kind != "create" {
			c.Fail("create:unexpected-statement", "creation script contains "+s.Raw, rp)
			return
		}
		defined[s.T]++
	}
	ctx := ""
	if sameLineTables(m) {
		ctx = " (tables of different files start on the same line)"
	}
	for _, t := range m.Tables {
		switch {
		case defined[t.Name] == 0:
			c.Fail("create:table-missing", "creation script does not define table "+t.Name+ctx, rp)
			return
		case defined[t.Name] > 1:
			c.Fail("create:table-duplicated", fmt.Sprintf("creation script defines table %s %d times%s", t.Name, defined[t.Name], ctx), rp)
			return
		}
	}
	for n := range defined {
		if m.table(n) == nil {
			c.Fail("create:table-extra", "creation script defines table "+n+" which the model does not have", rp)
			return
		}
	}
	// per table, straight from the statement (column repeated / lost inside one CREATE TABLE shows here)
	seen := map[string]bool{}
	for _, s := range ss {
		t := m.table(s.T)
		names := map[string]int{}
		for _, d := range s.Cols {
			names[d[0]]++
		}
		for _, col := range t.Cols {
			if names[col.Name] == 0 {
				c.Fail("create:column-missing", "CREATE TABLE "+t.Name+" has no column "+col.Name, rp)
				return
			}
			if names[col.Name] > 1 {
				c.Fail("create:column-duplicated", "CREATE TABLE "+t.Name+" defines column "+col.Name+" more than once", rp)
				return
			}
		}
		for _, f := range s.FKs {
			if !seen[f.RT] {
				c.Fail("create:reference-before-definition", fmt.Sprintf("table %s is defined before table %s which %s.%s references", s.T, f.RT, s.T, f.Col), rp)
				return
			}
		}
		seen[s.T] = true
	}
	if xerr != "" {
		c.Fail("create:rejected", "creation script is rejected: "+xerr, rp)
		return
	}
	for _, t := range m.Tables {
		for _, d := range compareTable(m, &t, cat.find(t.Name)) {
			c.Fail("create:"+d.clause, "after the creation script, "+d.detail, rp)
			return
		}
	}
}

// ---- what changed between two versions of a column / table
func colChange(o, n *Model, tn string, oc, nc *Col) string {
	var k []string
	switch {
	case oc.Ref == nil && nc.Ref != nil:
		k = append(k, "ref-added")
	case oc.Ref != nil && nc.Ref == nil:
		k = append(k, "ref-dropped")
	case oc.Ref != nil && nc.Ref != nil && *oc.Ref != *nc.Ref:
		k = append(k, "ref-retargeted")
	case oc.Ref == nil && nc.Ref == nil && (oc.kind() != nc.kind() || oc.Named != nc.Named || oc.Coll != nc.Coll || oc.Elem != nc.Elem):
		k = append(k, "rekind:"+oc.kind()+"->"+nc.kind())
	case oc.Ref == nil && nc.Ref == nil && (oc.Prim != nc.Prim || oc.Size != nc.Size):
		k = append(k, "retyped")
	}
	if !oc.Auto && nc.Auto {
		k = append(k, "autoinc-added")
	}
	if oc.Auto && !nc.Auto {
		k = append(k, "autoinc-dropped")
	}
	if !oc.PK && nc.PK {
		k = append(k, "pk-added")
	}
	if oc.PK && !nc.PK {
		k = append(k, "pk-dropped")
	}
	if len(k) == 0 {
		// the declaration is the same; did what it refers to change its type?
		if nc.Ref != nil {
			ot, nt := o.table(tn), n.table(tn)
			if expType(o, ot, oc, 0) != expType(n, nt, nc, 0) {
				return "unchanged-reference-to-retyped-column"
			}
		}
		if nc.Auto && nc.Ref == nil {
			return "unchanged-autoinc"
		}
		return "unchanged"
	}
	return strings.Join(k, "+")
}

func editKinds(o, n *Model) []string {
	set := map[string]bool{}
	for _, nt := range n.Tables {
		ot := o.table(nt.Name)
		if ot == nil {
			set["table-added"] = true
			continue
		}
		for i := range nt.Cols {
			oc := ot.col(nt.Cols[i].Name)
			if oc == nil {
				k := "column-added"
				if nt.Cols[i].Ref != nil {
					k += "+ref"
				}
				if nt.Cols[i].PK {
					k += "+pk"
				}
				set[k] = true
				continue
			}
			if k := colChange(o, n, nt.Name, oc, &nt.Cols[i]); !strings.HasPrefix(k, "unchanged") || k == "unchanged-reference-to-retyped-column" {
				set[k] = true
			}
		}
		for i := range ot.Cols {
			if nt.col(ot.Cols[i].Name) == nil {
				k := "column-dropped"
				if ot.Cols[i].Ref != nil {
					k += "+ref"
				}
				if ot.Cols[i].PK {
					k += "+pk"
				}
				set[k] = true
			}
		}
	}
	for _, ot := range o.Tables {
		if n.table(ot.Name) == nil {
			set["table-dropped"] = true
		}
	}
	var out []string
	for k := range set {
		out = append(out, k)
	}
	sort.Strings(out)
	return out
}

// how column tn.cn of the new version came about
func colOrigin(o, n *Model, tn, cn string) string {
	nt, ot := n.table(tn), o.table(tn)
	if ot == nil {
		k := "in-added-table"
		if nc := nt.col(cn); nc != nil && nc.Ref != nil {
			if rt := n.table(nc.Ref[0]); rt != nil && o.table(nc.Ref[0]) != nil {
				if rc := rt.col(nc.Ref[1]); rc != nil && rc.Auto && rc.Ref == nil {
					k += "+references-retained-autoinc"
				}
			}
		}
		return k
	}
	nc, oc := nt.col(cn), ot.col(cn)
	switch {
	case nc == nil && oc == nil:
		return "unknown-column"
	case nc == nil:
		return "column-dropped"
	case oc == nil:
		k := "column-added"
		if nc.Ref != nil {
			k += "+ref"
			if rt := n.table(nc.Ref[0]); rt != nil && o.table(nc.Ref[0]) != nil {
				if rc := rt.col(nc.Ref[1]); rc != nil && rc.Auto && rc.Ref == nil {
					k += "+references-retained-autoinc"
				}
			}
		}
		return k
	}
	return colChange(o, n, tn, oc, nc)
}

// the key-relevant changes of one table
func pkChange(o, n *Model, tn string) string {
	nt, ot := n.table(tn), o.table(tn)
	if ot == nil {
		return "in-added-table"
	}
	var k []string
	add := func(s string) {
		for _, x := range k {
			if x == s {
				return
			}
		}
		k = append(k, s)
	}
	for i := range nt.Cols {
		oc := ot.col(nt.Cols[i].Name)
		switch {
		case oc == nil && nt.Cols[i].PK:
			add("pk-column-added")
		case oc != nil && !oc.PK && nt.Cols[i].PK:
			add("pk-added")
		case oc != nil && oc.PK && !nt.Cols[i].PK:
			add("pk-dropped")
		}
	}
	for i := range ot.Cols {
		if ot.Cols[i].PK && nt.col(ot.Cols[i].Name) == nil {
			add("pk-column-dropped")
		}
	}
	if len(pkSet(nt)) == 0 && len(pkSet(ot)) > 0 {
		add("no-key-left")
	}
	sort.Strings(k)
	if len(k) == 0 {
		return "key-unchanged"
	}
	return strings.Join(k, "+")
}

// which column-level change explains a rejected statement
func rejectedOrigin(o, n *Model, xerr string, ss []stmt, cat0 *catalog) string {
	// re-run to find the statement
	c := cat0.clone()
	for _, s := range ss {
		if why := exec1(c, s); why != "" {
			switch s.Kind {
			case "create":
				return "create-table:" + classify(why)
			case "addpk", "droppk":
				return s.Kind + ":" + pkChange(o, n, s.T) + ":" + classify(why)
			default:
				col := s.C
				if nt := n.table(s.T); nt != nil {
					var cols []string
					for _, x := range nt.Cols {
						cols = append(cols, x.Name)
					}
					if ot := o.table(s.T); ot != nil {
						for _, x := range ot.Cols {
							cols = append(cols, x.Name)
						}
					}
					col, _ = resolveCol(strings.ToUpper(col), cols)
				}
				return s.Kind + ":" + colOrigin(o, n, s.T, col) + ":" + classify(why)
			}
		}
	}
	return "unknown"
}

func classify(why string) string {
	switch {
	case strings.Contains(why, "no valid type"):
		return "empty-type"
	case strings.Contains(why, "depends on it"):
		return "column-still-referenced"
	case strings.Contains(why, "already exists"):
		return "already-exists"
	case strings.Contains(why, "does not exist"), strings.Contains(why, "not defined yet"):
		return "missing-object"
	case strings.Contains(why, "no column"):
		return "empty-key"
	case strings.Contains(why, "multiple primary keys"):
		return "second-key"
	}
	return "other"
}

// ---- delta: create(old) ++ delta leaves every table of `new` with exactly new's columns, types and keys;
//      identical versions: no statement at all.  Returns true when nothing was reported.
func judgeDelta(c *common.Ctx, o, n *Model, ss []stmt, base, cat *catalog, xerr string, rp replay, mode string) bool {
	if mode == "delta" && len(editKinds(o, n)) == 0 && sameSchema(o, n) && len(ss) > 0 {
		c.Fail("delta:identity-not-empty", "the delta between identical versions contains "+ss[0].Raw, rp)
		return false
	}
	if xerr != "" {
		// the base catalog is create(old) in delta mode; in chain mode what the earlier steps left
		origin := rejectedOrigin(o, n, xerr, ss, base)
		c.Fail(mode+":rejected:"+origin, "the delta script is rejected when run after the creation script of the old version: "+xerr, rp)
		return false
	}
	ok := true
	for _, t := range n.Tables {
		ct := cat.find(t.Name)
		if ct == nil {
			c.Fail(mode+":table-missing", "after creation script + delta, table "+t.Name+" of the new version does not exist", rp)
			return false
		}
		for _, d := range compareTable(n, &t, ct) {
			origin := pkChange(o, n, t.Name)
			if d.col != "" {
				origin = colOrigin(o, n, t.Name, d.col)
			}
			if d.clause == "type" {
				origin = typeCause(o, n, t.Name, d.col)
			}
			c.Fail(mode+":"+d.clause+":"+origin, "after creation script + delta, "+d.detail, rp)
			ok = false
		}
	}
	return ok
}

func sameSchema(o, n *Model) bool {
	if len(o.Tables) != len(n.Tables) {
		return false
	}
	for _, nt := range n.Tables {
		ot := o.table(nt.Name)
		if ot == nil || len(ot.Cols) != len(nt.Cols) {
			return false
		}
	}
	return true
}


// terminal: follow references in m from (tn, cn) to the plain column that gives the type
func terminal(m *Model, tn, cn string) (*Table, *Col) {
	for i := 0; i < 64; i++ {
		t := m.table(tn)
		if t == nil {
			return nil, nil
		}
		c := t.col(cn)
		if c == nil {
			return nil, nil
		}
		if c.Ref == nil {
			return t, c
		}
		tn, cn = c.Ref[0], c.Ref[1]
	}
	return nil, nil
}

// typeCause: the one change that explains why column tn.cn of the new version has a type other than the model's
func typeCause(o, n *Model, tn, cn string) string {
	nt, ot := n.table(tn), o.table(tn)
	nc := nt.col(cn)
	var oc *Col
	if ot != nil {
		oc = ot.col(cn)
	}
	if nc.Ref == nil {
		switch {
		case nc.Auto && oc != nil && oc.Ref == nil && oc.Auto && (oc.Prim != nc.Prim || oc.Size != nc.Size):
			return "autoinc-column-retyped"
		case nc.Auto && oc != nil && (oc.Ref != nil || !oc.Auto):
			return "autoinc-added"
		}
		return "other:" + colOrigin(o, n, tn, cn)
	}
	if oc != nil && oc.Ref != nil && *oc.Ref != *nc.Ref {
		return "ref-retargeted"
	}
	if oc != nil && oc.Ref != nil {
		if expType(o, ot, oc, 0) != expType(n, nt, nc, 0) {
			return "reference-to-retyped-column"
		}
		return "other:" + colOrigin(o, n, tn, cn)
	}
	// a reference that is new (column added, table added, plain column turned into a reference)
	if tt, tc := terminal(n, nc.Ref[0], nc.Ref[1]); tc != nil && tc.Auto {
		if ott := o.table(tt.Name); ott != nil {
			if otc := ott.col(tc.Name); otc != nil && otc.Ref == nil {
				if otc.Auto {
					return "new-reference-to-retained-autoinc"
				}
				return "new-reference-to-autoinc-added"
			}
		}
	}
	return "other:" + colOrigin(o, n, tn, cn)
}

// judgePaths: the delta path and the creation path define a column of the new version the same way.  Judged for the
// columns whose type does not depend on other columns (primitives, named types, sets and sequences); the type of a
// Table.column reference is the referenced column's and is judged through the catalog (judgeDelta).
func judgePaths(c *common.Ctx, n *Model, dstmts, nstmts []stmt, rp replay) {
	created := map[string]*stmt{}
	for i := range nstmts {
		if nstmts[i].Kind == "create" {
			created[nstmts[i].T] = &nstmts[i]
		}
	}
	typeIn := func(s *stmt, col string) (string, bool) {
		for _, d := range s.Cols {
			if d[0] == col {
				return d[1], true
			}
		}
		return "", false
	}
	for i := range dstmts {
		d := &dstmts[i]
		t := n.table(d.T)
		ref := created[d.T]
		if t == nil || ref == nil {
			continue
		}
		var cols [][2]string
		switch d.Kind {
		case "create":
			cols = d.Cols
		case "addcol":
			cols = [][2]string{{d.C, d.Ty}}
		default:
			continue
		}
		for _, def := range cols {
			mc := t.col(def[0])
			if mc == nil || mc.Ref != nil {
				continue
			}
			want, ok := typeIn(ref, def[0])
			if ok && want != def[1] {
				where := "ADD COLUMN"
				if d.Kind == "create" {
					where = "the CREATE TABLE of the added table"
				}
				c.Fail("delta:definition-differs:"+mc.kind(), fmt.Sprintf("column %s.%s (%s) is defined as %q by %s in the delta script and as %q by the creation script of the same version",
					d.T, def[0], mc.typeText(), def[1], where, want), rp)
				return
			}
		}
	}
}

// scopeOf: which of the edit kinds that C16_delta_sound_columns_partial excludes a pair of versions contains ("in" =
// none: the theorem covers the pair).  Only recorded in the histogram; what binds is clause 4 of c16_ok, where Coq
// computes the scope itself and demands that the oracle found nothing on every pair inside it.
func scopeOf(o, n *Model) string {
	plain := func(c *Col) string { // the mapped primitive, ~autoinc ignored
		p := *c
		p.Auto = false
		return expType(n, nil, &p, 0)
	}
	for i := range n.Tables {
		nt := &n.Tables[i]
		ot := o.table(nt.Name)
		if ot == nil {
			continue
		}
		for j := range nt.Cols {
			nc := &nt.Cols[j]
			oc := ot.col(nc.Name)
			if oc == nil {
				continue
			}
			nAuto, oAuto := nc.Ref == nil && nc.Auto, oc.Ref == nil && oc.Auto
			switch {
			case nAuto && !oAuto:
				return "out:autoinc-added"
			case nAuto && plain(oc) != plain(nc):
				return "out:autoinc-column-retyped"
			case nc.Ref != nil && oc.Ref != nil && *nc.Ref == *oc.Ref && expType(o, ot, oc, 0) != expType(n, nt, nc, 0):
				return "out:reference-to-retyped-column"
			}
		}
		for j := range ot.Cols {
			if nt.col(ot.Cols[j].Name) != nil {
				continue
			}
			for _, t := range o.Tables {
				for _, c := range t.Cols {
					if c.Ref != nil && c.Ref[0] == ot.Name && c.Ref[1] == ot.Cols[j].Name {
						return "out:referenced-column-dropped"
					}
				}
			}
		}
	}
	return "in"
}
