// C16 correspondence + oracle: database creation and delta scripts of pkg/database.
//
// Generated relational models (abstract: tables, columns, keys, references, file layout) are rendered to Sysl
// text, compiled with the real parser, and handed to the real ScriptView.GenerateDatabaseScriptCreate /
// ProcessModSysls.  The emitted SQL is parsed into an abstract DDL and
//   - INTERPRETED by a small catalog interpreter (interp.go): the model-independent oracle compares the catalog
//     reached with what the abstract model says (oracle.go);
//   - printed, together with the projection of the compiled module that pkg/database reads, as Gallina cases
//     that Coq compares with the model (Db/Script.v) and with its own interpreter (Db/SqlInterp.v).
package main

import (
	"encoding/json"
	"fmt"
	"os"
	"sort"
	"strings"
	"sync"
	"sync/atomic"
	"time"

	"github.com/anz-bank/sysl/pkg/database"
	"github.com/anz-bank/sysl/pkg/parse"
	"github.com/anz-bank/sysl/pkg/sysl"
	"github.com/sirupsen/logrus"
	"github.com/spf13/afero"

	"verifharness/common"
)

const appName = "DB"

// ---------------------------------------------------------------- abstract model

type Col struct {
	Name string     `json:"name"`
	Prim string     `json:"prim,omitempty"` // Sysl type text without size: int, string, date, float, bool, decimal, datetime, seqint
	Size int        `json:"size,omitempty"` // string(Size) / string(Lo..Size)
	Lo   int        `json:"lo,omitempty"`   // >0: written as string(Lo..Size)
	Ref  *[2]string `json:"ref,omitempty"`
	PK   bool       `json:"pk,omitempty"`
	Auto bool       `json:"auto,omitempty"`
	Opt  bool       `json:"opt,omitempty"`
	// the other kinds of column type the compiler produces
	Named string `json:"named,omitempty"` // a type reference that is not Table.column: an alias / !type / enum / union of the application, a type of another application ("Other.Addr"), a name nothing defines
	Coll  string `json:"coll,omitempty"`  // "set" / "sequence": a collection of Elem
	Elem  string `json:"elem,omitempty"`  // element type text (a primitive, Table.column, a named type)
}

// kind of the column type: ref (Table.column), named, coll, prim
func (c *Col) kind() string {
	switch {
	case c.Ref != nil:
		return "ref"
	case c.Named != "":
		return "named"
	case c.Coll != "":
		return "coll"
	}
	return "prim"
}

// a non-table type declared in the application
type TypeDecl struct {
	Name string `json:"name"`
	Kind string `json:"kind"` // alias | aliasseq | type | enum | union
}

type Table struct {
	Name string `json:"name"`
	File int    `json:"file"`
	Rank int    `json:"rank"` // references only go to tables of lower rank (keeps the graph acyclic)
	Cols []Col  `json:"cols"`
	// a table re-opened in a second file: columns [Part2From:] are declared in file Part2File (0 = not split)
	Part2File int `json:"part2file,omitempty"`
	Part2From int `json:"part2from,omitempty"`
}

type Model struct {
	Tables []Table `json:"tables"` // declaration order inside each file
	Types  []TypeDecl `json:"types,omitempty"` // declared in file 0, before the tables
	Other  bool       `json:"other,omitempty"` // a second application `Other` with a !type Addr follows (file 0)
	NFiles int     `json:"nfiles"`
	Pad    []int   `json:"pad"` // blank lines before `DB:` per file
	Gap    []int   `json:"gap"` // blank lines before table i
}

func (m *Model) table(n string) *Table {
	for i := range m.Tables {
		if m.Tables[i].Name == n {
			return &m.Tables[i]
		}
	}
	return nil
}
func (t *Table) col(n string) *Col {
	for i := range t.Cols {
		if t.Cols[i].Name == n {
			return &t.Cols[i]
		}
	}
	return nil
}
func (m *Model) clone() *Model {
	b, _ := json.Marshal(m)
	var c Model
	json.Unmarshal(b, &c)
	return &c
}

func fileName(i int) string {
	if i == 0 {
		return "root.sysl"
	}
	return fmt.Sprintf("part%d.sysl", i)
}

func (c *Col) typeText() string {
	var s string
	switch {
	case c.Ref != nil:
		s = c.Ref[0] + "." + c.Ref[1]
	case c.Named != "":
		s = c.Named
	case c.Coll != "":
		s = c.Coll + " of " + c.Elem
	case c.Prim == "seqint":
		s = "sequence of int"
	case c.Prim == "string" && c.Size > 0 && c.Lo > 0:
		s = fmt.Sprintf("string(%d..%d)", c.Lo, c.Size)
	case c.Prim == "string" && c.Size > 0:
		s = fmt.Sprintf("string(%d)", c.Size)
	case c.Prim == "decimal":
		s = "decimal(8.2)"
	default:
		s = c.Prim
	}
	if c.Opt {
		s += "?"
	}
	var at []string
	// the code reads these two tags case-insensitively (strings.EqualFold in isAutoIncrementAndPrimaryKey): a quarter of
	// the columns spell them in upper or mixed case, chosen by the column's name so that a version chain stays stable
	h := 0
	for i := 0; i < len(c.Name); i++ {
		h += int(c.Name[i])
	}
	if c.PK {
		at = append(at, "~"+[]string{"pk", "pk", "PK", "Pk"}[h%4])
	}
	if c.Auto {
		at = append(at, "~"+[]string{"autoinc", "AutoInc", "autoinc", "AUTOINC"}[h%4])
	}
	if len(at) > 0 {
		s += " [" + strings.Join(at, ", ") + "]"
	}
	return s
}

// render returns the files and, per table / column, the 1-based line it was written on.
func (m *Model) render() (map[string]string, map[string]int, map[string]int) {
	return m.renderApp(appName)
}

func (m *Model) renderApp(appName string) (map[string]string, map[string]int, map[string]int) {
	files := map[string]string{}
	tl, cl := map[string]int{}, map[string]int{}
	for f := 0; f < m.NFiles; f++ {
		var b strings.Builder
		line := 1
		w := func(s string) { b.WriteString(s + "\n"); line++ }
		if f == 0 {
			for g := 1; g < m.NFiles; g++ {
				w("import " + strings.TrimSuffix(fileName(g), ".sysl"))
			}
		}
		for i := 0; i < m.Pad[f]; i++ {
			w("")
		}
		w(appName + ":")
		n := 0
		if f == 0 {
			for _, td := range m.Types {
				switch td.Kind {
				case "alias":
					w("    !alias " + td.Name + ":")
					w("        decimal")
				case "aliasseq":
					w("    !alias " + td.Name + ":")
					w("        sequence of int")
				case "type":
					w("    !type " + td.Name + ":")
					w("        street <: string")
				case "enum":
					w("    !enum " + td.Name + ":")
					w("        red: 1")
				case "union":
					w("    !union " + td.Name + ":")
					w("        int")
					w("        string")
				}
				n++
			}
		}
		for ti, t := range m.Tables {
			split := t.Part2From > 0 && t.Part2From < len(t.Cols) && t.Part2File != t.File && t.Part2File < m.NFiles
			cols := t.Cols
			switch {
			case t.File == f && split:
				cols = t.Cols[:t.Part2From]
			case t.File == f:
			case split && t.Part2File == f:
				cols = t.Cols[t.Part2From:]
			default:
				continue
			}
			for i := 0; i < m.Gap[ti]; i++ {
				w("")
			}
			if t.File == f {
				tl[t.Name] = line
			}
			w("    !table " + t.Name + ":")
			for _, c := range cols {
				cl[t.Name+"."+c.Name] = line
				w("        " + c.Name + " <: " + c.typeText())
			}
			n++
		}
		if n == 0 {
			w("    ...")
		}
		if f == 0 && m.Other {
			w("Other:")
			w("    !type Addr:")
			w("        z <: int")
		}
		files[fileName(f)] = b.String()
	}
	return files, tl, cl
}

// ---------------------------------------------------------------- running the real code

func compile(files map[string]string) (*sysl.Module, error) {
	fs := afero.NewMemMapFs()
	for n, c := range files {
		afero.WriteFile(fs, n, []byte(c), 0o644)
	}
	return parse.NewParser().ParseFromFs("root.sysl", fs)
}

func realCreate(m *sysl.Module) (out string, panicked string) {
	defer func() {
		if x := recover(); x != nil {
			panicked = fmt.Sprint(x)
		}
	}()
	app := m.GetApps()[appName]
	v := database.MakeDatabaseScriptView("t", logrus.StandardLogger())
	return v.GenerateDatabaseScriptCreate(app.GetTypes(), "postgres", appName), ""
}

func realDelta(o, n *sysl.Module) (out string, panicked string) {
	defer func() {
		if x := recover(); x != nil {
			panicked = fmt.Sprint(x)
		}
	}()
	v := database.MakeDatabaseScriptView("t", logrus.StandardLogger())
	outs := v.ProcessModSysls(o.GetApps(), n.GetApps(), []string{appName}, "", "postgres")
	if len(outs) != 1 {
		return "", fmt.Sprintf("ProcessModSysls returned %d outputs", len(outs))
	}
	mfs := afero.NewMemMapFs()
	if err := database.GenerateFromSQLMap(outs, mfs, logrus.StandardLogger()); err != nil {
		return "", err.Error()
	}
	c, err := afero.ReadFile(mfs, appName+database.SQLExtension)
	if err != nil {
		return "", err.Error()
	}
	return string(c), ""
}

// ---------------------------------------------------------------- projection of what pkg/database reads

type pcol struct {
	name  string
	line  int
	prim  string // lower-cased Primitive.String()
	size  int64
	ref   []string
	pk    bool
	auto  bool
}
type ptable struct {
	name string
	line int
	cols []pcol
}

func project(m *sysl.Module) ([]ptable, string) {
	p, _, why := projectApp(m, appName)
	return p, why
}

// projectApp: the tables of one application as pkg/database reads them, and the number of its non-table types (which
// the model does not carry: the claim that they have no influence is part of what the correspondence checks)
func projectApp(m *sysl.Module, appName string) ([]ptable, int, string) {
	app := m.GetApps()[appName]
	if app == nil {
		return nil, 0, "no app"
	}
	var out []ptable
	others := 0
	for tn, ty := range app.GetTypes() {
		rel := ty.GetRelation()
		if rel == nil {
			others++
			continue
		}
		pt := ptable{name: tn, line: int(ty.GetSourceContext().GetStart().GetLine())} //nolint:staticcheck
		for cn, c := range rel.GetAttrDefs() {
			pc := pcol{name: cn, line: int(c.GetSourceContext().GetStart().GetLine()), prim: strings.ToLower(c.GetPrimitive().String())} //nolint:staticcheck
			if tr := c.GetTypeRef(); tr != nil {
				switch path := tr.GetRef().GetPath(); {
				case len(path) < 2:
					pc.prim = "ref1" // a named type, not a foreign key
				case len(path) == 2:
					pc.ref = path
				default:
					return nil, 0, "reference path of length " + fmt.Sprint(len(path))
				}
			}
			if k := c.GetConstraint(); len(k) > 0 && k[0].GetLength() != nil {
				pc.size = k[0].GetLength().GetMax()
			}
			if a := c.GetAttrs()["patterns"].GetA(); a != nil {
				for _, e := range a.GetElt() {
					if strings.EqualFold(e.GetS(), "pk") {
						pc.pk = true
					}
					if strings.EqualFold(e.GetS(), "autoinc") {
						pc.auto = true
					}
				}
			}
			pt.cols = append(pt.cols, pc)
		}
		sort.Slice(pt.cols, func(i, j int) bool { return pt.cols[i].name < pt.cols[j].name })
		out = append(out, pt)
	}
	sort.Slice(out, func(i, j int) bool { return out[i].name < out[j].name })
	return out, others, ""
}

// the projection must be what the abstract model says (otherwise the front end did something this harness does
// not understand and the case is set aside, counted, never judged)
func projectionMatches(m *Model, p []ptable, tl, cl map[string]int) string {
	if len(p) != len(m.Tables) {
		return fmt.Sprintf("%d tables compiled, %d written", len(p), len(m.Tables))
	}
	for _, pt := range p {
		t := m.table(pt.name)
		if t == nil || len(t.Cols) != len(pt.cols) {
			return "table " + pt.name
		}
		if pt.line != tl[pt.name]-1 && t.Part2From == 0 {
			return fmt.Sprintf("line of %s: %d, written on %d", pt.name, pt.line, tl[pt.name])
		}
		for _, pc := range pt.cols {
			c := t.col(pc.name)
			if c == nil {
				return "column " + pt.name + "." + pc.name
			}
			if pc.line != cl[pt.name+"."+pc.name]-1 {
				return "line of column " + pt.name + "." + pc.name
			}
			if (c.Ref != nil) != (pc.ref != nil) || (c.Ref != nil && (c.Ref[0] != pc.ref[0] || c.Ref[1] != pc.ref[1])) {
				return "reference of " + pt.name + "." + pc.name
			}
			if c.PK != pc.pk || c.Auto != pc.auto {
				return "patterns of " + pt.name + "." + pc.name
			}
			if c.Ref == nil {
				want := c.Prim
				if want == "seqint" || c.Coll != "" {
					want = "no_primitive"
				}
				if c.Named != "" {
					want = "ref1"
				}
				if want != pc.prim {
					return "primitive of " + pt.name + "." + pc.name + ": " + pc.prim
				}
				if c.Prim == "string" && int64(c.Size) != pc.size {
					return "size of " + pt.name + "." + pc.name
				}
			}
		}
	}
	return ""
}

// ---------------------------------------------------------------- name table (order preserving)

type names struct{ id map[string]int }

func newNames(models ...*Model) *names {
	set := map[string]bool{}
	for _, m := range models {
		if m == nil {
			continue
		}
		for _, t := range m.Tables {
			set[t.Name] = true
			for _, c := range t.Cols {
				set[c.Name] = true
				if c.Ref != nil {
					set[c.Ref[0]] = true
					set[c.Ref[1]] = true
				}
			}
		}
	}
	var all []string
	for s := range set {
		all = append(all, s)
	}
	sort.Strings(all)
	n := &names{id: map[string]int{}}
	for i, s := range all {
		n.id[s] = i + 1
	}
	return n
}
func (n *names) g(s string) string {
	id, ok := n.id[s]
	if !ok {
		return "999999" // an identifier the models do not have: forces a mismatch
	}
	return fmt.Sprint(id)
}

func gPrim(p string) string {
	switch p {
	case "string":
		return "PString"
	case "int":
		return "PInt"
	case "date":
		return "PDate"
	case "ref1":
		return "PRef1"
	}
	return "POther"
}

func gModel(p []ptable, n *names) string {
	var ts []string
	for _, t := range p {
		var cs []string
		for _, c := range t.cols {
			ref := "None"
			if c.ref != nil {
				ref = fmt.Sprintf("(Some (%s,%s))", n.g(c.ref[0]), n.g(c.ref[1]))
			}
			sz := c.size
			if sz < 0 {
				sz = 0
			}
			cs = append(cs, fmt.Sprintf("C %s %d%%N %s %d%%N %s %s %s", n.g(c.name), c.line, gPrim(c.prim), sz, ref, common.GBool(c.pk), common.GBool(c.auto)))
		}
		ts = append(ts, fmt.Sprintf("T %s %d%%N %s", n.g(t.name), t.line, common.GList(cs)))
	}
	return common.GList(ts)
}

func gType(ty string) string {
	switch ty {
	case "integer":
		return "TInteger"
	case "date":
		return "TDate"
	case "bigint":
		return "TBigint"
	case "bigserial":
		return "TBigserial"
	case "":
		return "TEmpty"
	}
	var k int
	if _, err := fmt.Sscanf(ty, "varchar (%d)", &k); err == nil && fmt.Sprintf("varchar (%d)", k) == ty && k >= 0 {
		return fmt.Sprintf("(TVarchar %d%%N)", k)
	}
	return "(TOther 7%N)"
}

func gNames(l []string, n *names) string {
	it := make([]string, len(l))
	for i, s := range l {
		it[i] = n.g(s)
	}
	return "[" + strings.Join(it, ";") + "]%positive"
}

func gStmts(ss []stmt, n *names) string {
	var out []string
	for _, s := range ss {
		switch s.Kind {
		case "create":
			var cs, fs []string
			for _, c := range s.Cols {
				cs = append(cs, fmt.Sprintf("(%s,%s)", n.g(c[0]), gType(c[1])))
			}
			for _, f := range s.FKs {
				fs = append(fs, fmt.Sprintf("(%s,(%s,%s))", n.g(f.Col), n.g(f.RT), n.g(f.RC)))
			}
			out = append(out, fmt.Sprintf("CreateTable %s %s %s %s", n.g(s.T), common.GList(cs), gNames(s.PK, n), common.GList(fs)))
		case "addcol":
			out = append(out, fmt.Sprintf("AddColumn %s %s %s", n.g(s.T), n.g(s.C), gType(s.Ty)))
		case "dropcol":
			out = append(out, fmt.Sprintf("DropColumn %s %s", n.g(s.T), n.g(s.C)))
		case "altertype":
			out = append(out, fmt.Sprintf("AlterType %s %s %s", n.g(s.T), n.g(s.C), gType(s.Ty)))
		case "addpk":
			out = append(out, fmt.Sprintf("AddPK %s %s", n.g(s.T), gNames(s.PK, n)))
		case "droppk":
			out = append(out, fmt.Sprintf("DropPK %s", n.g(s.T)))
		case "addfk":
			out = append(out, fmt.Sprintf("AddFK %s %s %s %s", n.g(s.T), n.g(s.C), n.g(s.FKs[0].RT), n.g(s.FKs[0].RC)))
		case "dropfk":
			out = append(out, fmt.Sprintf("DropFK %s %s", n.g(s.T), n.g(s.C)))
		case "createseq":
			out = append(out, fmt.Sprintf("CreateSeq %s %s", n.g(s.T), n.g(s.C)))
		case "setdefault":
			out = append(out, fmt.Sprintf("SetDefaultSeq %s %s", n.g(s.T), n.g(s.C)))
		case "ownseq":
			out = append(out, fmt.Sprintf("OwnSeq %s %s", n.g(s.T), n.g(s.C)))
		case "setval":
			out = append(out, fmt.Sprintf("SetValSeq %s %s", n.g(s.T), n.g(s.C)))
		}
	}
	return common.GList(out)
}

func gCatalog(c *catalog, n *names) string {
	if c == nil {
		return "None"
	}
	var ts, sq []string
	for _, t := range c.Tabs {
		var cs, fs []string
		for _, col := range t.Cols {
			cs = append(cs, fmt.Sprintf("CC %s %s %s", n.g(col.Name), gType(col.Ty), common.GBool(col.Def)))
		}
		for _, f := range t.FKs {
			fs = append(fs, fmt.Sprintf("(%s,(%s,%s))", n.g(f.Col), n.g(f.RT), n.g(f.RC)))
		}
		pk := "None"
		if t.PK != nil {
			pk = "(Some " + gNames(t.PK, n) + ")"
		}
		ts = append(ts, fmt.Sprintf("CT %s %s %s %s", n.g(t.Name), common.GList(cs), pk, common.GList(fs)))
	}
	for _, s := range c.Seqs {
		sq = append(sq, fmt.Sprintf("(%s,%s)", n.g(s[0]), n.g(s[1])))
	}
	return fmt.Sprintf("(Some (Cat %s %s))", common.GList(ts), common.GList(sq))
}

// ---------------------------------------------------------------- one case

type replay struct {
	Kind     string              `json:"kind"` // create | delta | chain
	Versions []*Model            `json:"versions"`
	Files    []map[string]string `json:"files,omitempty"` // the rendered text, for the reader
	Note     string              `json:"note,omitempty"`
	// kind apps: several applications in one run
	Apps  []appVersions `json:"apps,omitempty"`
	Names []string      `json:"names,omitempty"` // --app-names, in order
	// kind outdir: runs into one output directory
	Steps []odStep `json:"steps,omitempty"`
	Pre   int      `json:"pre,omitempty"` // lines of a file left in the directory before the first run
	Bin   bool     `json:"bin,omitempty"` // through the real binary
}

type runner struct {
	c   *common.Ctx
	cs  *common.Cases
	acs *common.Cases // cases of the several-applications stream
	fcs *common.Cases // cases of the output-directory stream
	// generation only queues the cases; flush compiles all versions with the real parser on several goroutines
	// (the results do not depend on the schedule) and then judges / prints the cases in generation order
	collect bool
	queue   []job
	cache   map[*Model]built
}
type job struct {
	kind   string
	models []*Model
	note   string
}
type built struct {
	v   *version
	why string
}

func (r *runner) run(kind string, models []*Model, note string) {
	if r.collect {
		r.queue = append(r.queue, job{kind, models, note})
		return
	}
	r.runNow(kind, models, note)
}

func (r *runner) flush() {
	var all []*Model
	for _, j := range r.queue {
		all = append(all, j.models...)
	}
	res := make([]built, len(all))
	t0 := time.Now()
	var wg sync.WaitGroup
	next := int64(-1)
	for w := 0; w < 8; w++ {
		wg.Add(1)
		go func() {
			defer wg.Done()
			for {
				i := int(atomic.AddInt64(&next, 1))
				if i >= len(all) {
					return
				}
				v, why := r.buildNow(all[i])
				res[i] = built{v, why}
			}
		}()
	}
	wg.Wait()
	if os.Getenv("VERIF_C16_TIMING") != "" {
		fmt.Fprintf(os.Stderr, "compiled %d versions in %v\n", len(all), time.Since(t0))
	}
	r.cache = map[*Model]built{}
	for i, m := range all {
		r.cache[m] = res[i]
	}
	r.collect = false
	for _, j := range r.queue {
		r.runNow(j.kind, j.models, j.note)
	}
	r.queue, r.cache = nil, nil
}

func (r *runner) build(m *Model) (*version, string) {
	if b, ok := r.cache[m]; ok {
		return b.v, b.why
	}
	return r.buildNow(m)
}

// compiled version
type version struct {
	m     *Model
	files map[string]string
	mod   *sysl.Module
	proj  []ptable
}

func (r *runner) buildNow(m *Model) (*version, string) {
	files, tl, cl := m.render()
	mod, err := compile(files)
	if err != nil {
		return nil, "compile: " + err.Error()
	}
	p, others, why := projectApp(mod, appName)
	if why != "" {
		return nil, "project: " + why
	}
	if others != len(m.Types) {
		return nil, fmt.Sprintf("project: %d non-table types compiled, %d written", others, len(m.Types))
	}
	if why := projectionMatches(m, p, tl, cl); why != "" {
		return nil, "projection differs: " + why
	}
	return &version{m, files, mod, p}, ""
}

// runVersions: versions[0] gets its creation script judged; every consecutive pair gets its delta judged;
// with three versions the chain is judged as well.
func (r *runner) runNow(kind string, models []*Model, note string) {
	c := r.c
	rp := replay{Kind: kind, Versions: models, Note: note}
	var vs []*version
	for _, m := range models {
		v, why := r.build(m)
		if v == nil {
			c.Hist("set-aside:" + strings.SplitN(why, ":", 2)[0])
			if len(c.Res.Notes) < 5 {
				c.Res.Notes = append(c.Res.Notes, "set aside: "+why)
			}
			return
		}
		vs = append(vs, v)
		rp.Files = append(rp.Files, v.files)
	}
	key, _ := json.Marshal(models)
	c.Count(kind+string(key), nontrivial(kind, models))
	c.Hist("kind:" + kind)
	var chain *catalog // catalog after create(v0) + delta(v0,v1) + ...
	chainOK := true
	for i, v := range vs {
		sql, pan := realCreate(v.mod)
		if pan != "" {
			c.Fail("create:panic", "creation script generation panics: "+pan, rp)
			return
		}
		cstmts, perr := parseSQL(sql)
		if perr != "" {
			c.Fail("create:unparseable", "creation script is outside the emitted DDL subset: "+perr, rp)
			return
		}
		if i == 0 && kind != "create-unorderable" {
			for k := range cstmts {
				if why := syntaxOf(cstmts[k].Pieces); why != "" {
					c.Fail("create:syntax:"+why, fmt.Sprintf("CREATE TABLE %s of the creation script is not well-formed (%s): %q", cstmts[k].T, why, cstmts[k].RawFull), rp)
					return
				}
			}
		}
		cat0, xerr := execAll(newCatalog(), cstmts)
		if i == 0 {
			// the creation script of the first version is judged; the later ones are only the base of their delta
			if kind != "create-unorderable" {
				// reference cycles / dangling references are outside the property (and C20's business): such cases
				// only tie the model's placement rule and the two interpreters to the code
				judgeCreate(c, v.m, cstmts, cat0, xerr, rp)
			}
			c.Hist(fmt.Sprintf("tables:%d", len(v.m.Tables)))
			c.Hist(fmt.Sprintf("files:%d", v.m.NFiles))
			if sameLineTables(v.m) {
				c.Hist("shape:tables-on-equal-lines")
			}
			if sameLineColumns(v.m) {
				c.Hist("shape:columns-of-a-split-table-on-equal-lines")
			}
			chain = cat0
			if xerr != "" {
				chainOK = false
			}
		}
		var dstmts []stmt
		var next *version
		var cat1 *catalog
		sound := true // the oracle's verdict on (v, next), handed to Coq: see c16_ok clause 4
		if i+1 < len(vs) {
			next = vs[i+1]
			dsql, pan := realDelta(v.mod, next.mod)
			if pan != "" {
				c.Fail("delta:panic", "delta script generation panics: "+pan, rp)
				return
			}
			var perr string
			dstmts, perr = parseSQL(dsql)
			if perr != "" {
				c.Fail("delta:unparseable", "delta script is outside the emitted DDL subset: "+perr, rp)
				return
			}
			resolveDropFK(dstmts, v.m, next.m)
			for k := range dstmts {
				if why := syntaxOf(dstmts[k].Pieces); why != "" && dstmts[k].Kind == "create" {
					c.Fail("delta:syntax:"+why, fmt.Sprintf("CREATE TABLE %s of the delta script is not well-formed (%s): %q", dstmts[k].T, why, dstmts[k].RawFull), rp)
					return
				}
			}
			// both paths define a column the same way: what the delta script writes for a column of the new version
			// (in the CREATE TABLE of an added table, in ADD COLUMN) against the creation script of the new version
			if nsql, npan := realCreate(next.mod); npan == "" {
				if nstmts, nerr := parseSQL(nsql); nerr == "" {
					judgePaths(c, next.m, dstmts, nstmts, rp)
				}
			}
			var derr string
			if xerr == "" {
				cat1, derr = execAll(cat0.clone(), dstmts)
				if !judgeDelta(c, v.m, next.m, dstmts, cat0, cat1, derr, rp, "delta") {
					chainOK = false
					sound = false
				}
			} else {
				chainOK = false
				sound = false
			}
			c.Hist("scope:" + scopeOf(v.m, next.m))
			for _, k := range editKinds(v.m, next.m) {
				c.Hist("edit:" + k)
			}
			kindHist(c, v.m, next.m)
			if chainOK && chain != nil {
				var cerr string
				base := chain.clone()
				chain, cerr = execAll(chain.clone(), dstmts)
				if i > 0 {
					// the second step of a chain, run on what the first step left behind (only when both steps are
					// fine on their own: what is reported here is a defect of the composition)
					if !judgeDelta(c, v.m, next.m, dstmts, base, chain, cerr, rp, "chain") {
						chainOK = false
					}
				}
				if cerr != "" {
					chainOK = false
				}
			}
		}
		// Coq case: model vs real statements, Coq interpreter vs Go interpreter
		var all []*Model
		all = append(all, v.m)
		newG, scriptG := "None", "None"
		final := cat0
		if xerr != "" {
			final = nil
		}
		if next != nil {
			all = append(all, next.m)
		}
		nm := newNames(all...)
		if next != nil {
			newG = "(Some " + gModel(next.proj, nm) + ")"
			scriptG = "(Some " + gStmts(dstmts, nm) + ")"
			final = cat1
		}
		var texts []string
		for k := range cstmts {
			texts = append(texts, gPieces(cstmts[k].Pieces, nm))
		}
		for k := range dstmts {
			texts = append(texts, gPieces(dstmts[k].Pieces, nm))
		}
		term := fmt.Sprintf("Case %s %s %s %s %s %s %v", gModel(v.proj, nm), newG, gStmts(cstmts, nm), scriptG, gCatalog(final, nm), common.GList(texts), sound)
		sub := replay{Kind: "create", Versions: []*Model{v.m}}
		if next != nil {
			sub = replay{Kind: "delta", Versions: []*Model{v.m, next.m}}
		}
		r.cs.Add(term, sub)
		if i == 0 {
			c.Sample(map[string]interface{}{"kind": kind, "files": v.files, "create_statements": len(cstmts), "delta_statements": len(dstmts)})
		}
		if next == nil {
			break
		}
	}
}

// DROP CONSTRAINT carries the upper-cased column; spell it as the models do (column names of one table are
// distinct case-insensitively by construction)
func resolveDropFK(ss []stmt, ms ...*Model) {
	for i := range ss {
		if ss[i].Kind != "dropfk" {
			continue
		}
		var cols []string
		for _, m := range ms {
			if t := m.table(ss[i].T); t != nil {
				for _, c := range t.Cols {
					cols = append(cols, c.Name)
				}
			}
		}
		ss[i].C, _ = resolveCol(ss[i].C, cols)
	}
}

func nontrivial(kind string, ms []*Model) bool {
	m := ms[0]
	refs := 0
	for _, t := range m.Tables {
		for _, c := range t.Cols {
			if c.Ref != nil {
				refs++
			}
		}
	}
	if kind == "create" || kind == "create-unorderable" {
		return refs > 0 || m.NFiles > 1
	}
	for i := 0; i+1 < len(ms); i++ {
		if len(editKinds(ms[i], ms[i+1])) > 0 {
			return true
		}
	}
	return false
}

func main() {
	logrus.SetLevel(logrus.PanicLevel)
	if os.Getenv("VERIF_C16_PROBE") == "1" {
		runProbe()
		return
	}
	c := common.Setup("C16")
	defer c.Finish()
	c.Res.Rule = "each case = one relational model (tables with ~pk/~autoinc/sized strings/references, spread over 1-3 files with chosen blank-line layout) compiled from generated Sysl text, or a pair / chain of versions obtained by a random edit script (add/drop/retype column, add/drop table, key and autoincrement changes, add/drop/retarget reference, layout-only change, change of the kind of a column type - primitive / Table.column / named type (alias, !type, enum, union, type of another application, undefined name) / set or sequence of any of these -, non-table types declared / removed / turned into tables and back), or 2-4 applications each in the old and/or the new module handed to one ProcessModSysls run with a list of application names; distinct = distinct abstract version list; non-trivial = creation: at least one reference or more than one file; delta: at least one column-level change between consecutive versions"
	header := `From Coq Require Import List NArith PArith Bool. Import ListNotations.
Require Import Verif.Db.Depth Verif.Db.Script Verif.Db.SqlInterp Verif.Db.Text Verif.Db.Run Verif.Base.Harness.
Local Open Scope positive_scope.`
	footer := `Definition M := Eval vm_compute in mismatches c16_ok cases. Print M.`
	r := &runner{c: c, cs: c.NewCases("C16", header, "c16_case", footer, 120)}
	defer r.cs.Close()
	r.acs = c.NewCases("C16apps", header, "c16_apps_case", `Definition M := Eval vm_compute in mismatches c16_apps_ok cases. Print M.`, 120)
	defer r.acs.Close()
	r.fcs = c.NewCases("C16files", header, "c16_files_case", `Definition M := Eval vm_compute in mismatches c16_files_ok cases. Print M.`, 120)
	defer r.fcs.Close()

	if c.Replay != "" {
		var rp replay
		if err := common.LoadReplay(c.Replay, &rp); err != nil {
			fmt.Fprintln(os.Stderr, err)
			os.Exit(3)
		}
		if rp.Kind == "apps" {
			r.runApps(rp.Apps, rp.Names)
			fmt.Printf("replay apps: failures=%d\n", len(c.Res.Failures))
			for _, f := range c.Res.Failures {
				fmt.Println("  ", f.Key, "-", f.What)
			}
			return
		}
		if rp.Kind == "outdir" {
			bin := ""
			if rp.Bin {
				bin = os.Getenv("VERIF_SYSL_BIN")
			}
			r.runOutdir(rp.Versions, rp.Steps, rp.Pre, bin, false)
			fmt.Printf("replay outdir: failures=%d\n", len(c.Res.Failures))
			for _, f := range c.Res.Failures {
				fmt.Println("  ", f.Key, "-", f.What)
			}
			return
		}
		if rp.Kind == "idents" && len(rp.Versions) == 2 {
			r.runIdents(rp.Versions[0], rp.Versions[1], rp.Note, false)
			fmt.Printf("replay idents: failures=%d\n", len(c.Res.Failures))
			for _, f := range c.Res.Failures {
				fmt.Println("  ", f.Key, "-", f.What)
			}
			return
		}
		r.run(rp.Kind, rp.Versions, rp.Note)
		for _, v := range rp.Versions {
			if ver, why := r.build(v); ver != nil {
				sql, _ := realCreate(ver.mod)
				fmt.Println(sql)
			} else {
				fmt.Println(why)
			}
		}
		if len(rp.Versions) > 1 {
			a, _ := r.build(rp.Versions[0])
			b, _ := r.build(rp.Versions[1])
			if a != nil && b != nil {
				d, _ := realDelta(a.mod, b.mod)
				fmt.Println(d)
			}
		}
		fmt.Printf("replay %s: failures=%d\n", rp.Kind, len(c.Res.Failures))
		for _, f := range c.Res.Failures {
			fmt.Println("  ", f.Key, "-", f.What)
		}
		return
	}
	r.collect = true
	generate(r)
	r.flush()
}

// kindHist records which kinds of column type the pair adds, removes and turns into which (once per pair and label)
func kindHist(c *common.Ctx, o, n *Model) {
	set := map[string]bool{}
	for _, nt := range n.Tables {
		ot := o.table(nt.Name)
		for i := range nt.Cols {
			nc := &nt.Cols[i]
			switch {
			case ot == nil:
				set["kinds:in-added-table:"+nc.kind()] = true
			case ot.col(nc.Name) == nil:
				set["kinds:column-added:"+nc.kind()] = true
			default:
				if oc := ot.col(nc.Name); oc.kind() != nc.kind() {
					set["kinds:"+oc.kind()+"->"+nc.kind()] = true
				}
			}
		}
		if ot != nil {
			for i := range ot.Cols {
				if nt.col(ot.Cols[i].Name) == nil {
					set["kinds:column-dropped:"+ot.Cols[i].kind()] = true
				}
			}
		}
	}
	if len(o.Types) != len(n.Types) {
		set["kinds:non-table-types-changed"] = true
	}
	for _, td := range o.Types {
		if n.table(td.Name) != nil {
			set["kinds:type-became-table"] = true
		}
	}
	for _, td := range n.Types {
		if o.table(td.Name) != nil {
			set["kinds:table-became-type"] = true
		}
	}
	for k := range set {
		c.Hist(k)
	}
}
