package main

import (
	"regexp"
	"strings"
)

// The DDL subset pkg/database emits, parsed strictly: anything else is reported, never skipped.

type fk struct {
	Name, Col, RT, RC string
}
type stmt struct {
	Kind string // create addcol dropcol altertype addpk droppk addfk dropfk createseq setdefault ownseq setval
	T, C string
	Ty   string
	Cols [][2]string
	PK   []string
	FKs  []fk
	Raw  string
	// the statement as written (up to its ";"), and its modelled text lexed into pieces (text.go)
	RawFull string
	Pieces  []piece
}

var (
	reComment   = regexp.MustCompile(`(?s)/\*.*?\*/`)
	reCreate    = regexp.MustCompile(`(?s)^CREATE TABLE (\w+)\((.*)\)$`)
	rePKLine    = regexp.MustCompile(`^CONSTRAINT (\w+) PRIMARY KEY\(([^)]*)\)$`)
	reFKLine    = regexp.MustCompile(`^CONSTRAINT (\w+) FOREIGN KEY\((\w+)\) REFERENCES (\w+) ?\((\w+)\)$`)
	reColLine   = regexp.MustCompile(`^(\w+)(?: (.*))?$`)
	reAddCol    = regexp.MustCompile(`^ALTER TABLE (\w+) ADD COLUMN (\w+) ?(.*)$`)
	reDropCol   = regexp.MustCompile(`^ALTER TABLE (\w+) DROP COLUMN (\w+)$`)
	reAlterType = regexp.MustCompile(`^ALTER TABLE (\w+) ALTER COLUMN (\w+) TYPE ?(.*)$`)
	reSetDef    = regexp.MustCompile(`^ALTER TABLE (\w+) ALTER COLUMN (\w+) SET DEFAULT nextval\('(\w+)'\)$`)
	reAddPK     = regexp.MustCompile(`^ALTER TABLE (\w+) ADD CONSTRAINT (\w+) PRIMARY KEY\(([^)]*)\)$`)
	reAddFK     = regexp.MustCompile(`^ALTER TABLE (\w+) ADD CONSTRAINT (\w+) FOREIGN KEY\((\w+)\) REFERENCES (\w+) ?\((\w+)\)$`)
	reDropCon   = regexp.MustCompile(`^ALTER TABLE (\w+) DROP CONSTRAINT (\w+)$`)
	reCreateSeq = regexp.MustCompile(`^CREATE SEQUENCE (\w+)$`)
	reOwnSeq    = regexp.MustCompile(`^ALTER SEQUENCE (\w+) OWNED BY (\w+)\.(\w+)$`)
	reSetVal    = regexp.MustCompile(`^select setval\('(\w+)', coalesce\(max\((\w+)\), 1\)\) from (\w+)$`)
)

func splitList(s string) []string {
	if strings.TrimSpace(s) == "" {
		return []string{}
	}
	parts := strings.Split(s, ",")
	for i := range parts {
		parts[i] = strings.TrimSpace(parts[i])
	}
	return parts
}

func pkName(t string) string    { return strings.ToUpper(t + "_PK") }
func fkName(t, c string) string { return strings.ToUpper(t + "_" + c + "_FK") }
func seqName(t, c string) string { return t + "_" + c + "_seq" }

func parseSQL(sql string) ([]stmt, string) {
	sql = reComment.ReplaceAllString(sql, "")
	var out []stmt
	for _, raw := range strings.Split(sql, ";") {
		s := strings.TrimSpace(raw)
		if s == "" {
			continue
		}
		if m := reCreate.FindStringSubmatch(s); m != nil {
			st := stmt{Kind: "create", T: m[1], Raw: s, PK: []string{}}
			for _, ln := range strings.Split(m[2], "\n") {
				ln = strings.TrimSpace(strings.TrimSuffix(strings.TrimSpace(ln), ","))
				if ln == "" {
					continue
				}
				if p := rePKLine.FindStringSubmatch(ln); p != nil {
					if p[1] != pkName(st.T) {
						return nil, "primary key constraint named " + p[1] + " on table " + st.T
					}
					st.PK = splitList(p[2])
					continue
				}
				if f := reFKLine.FindStringSubmatch(ln); f != nil {
					if f[1] != fkName(st.T, f[2]) {
						return nil, "foreign key constraint named " + f[1] + " on " + st.T + "." + f[2]
					}
					st.FKs = append(st.FKs, fk{f[1], f[2], f[3], f[4]})
					continue
				}
				if c := reColLine.FindStringSubmatch(ln); c != nil && !strings.HasPrefix(ln, "CONSTRAINT") {
					st.Cols = append(st.Cols, [2]string{c[1], strings.TrimSpace(c[2])})
					continue
				}
				return nil, "line in CREATE TABLE " + st.T + ": " + ln
			}
			st.RawFull = raw
			out = append(out, st)
			continue
		}
		if strings.Contains(s, "\n") {
			return nil, "statement over several lines: " + s
		}
		switch {
		case reAddCol.MatchString(s):
			m := reAddCol.FindStringSubmatch(s)
			out = append(out, stmt{Kind: "addcol", T: m[1], C: m[2], Ty: strings.TrimSpace(m[3]), Raw: s})
		case reDropCol.MatchString(s):
			m := reDropCol.FindStringSubmatch(s)
			out = append(out, stmt{Kind: "dropcol", T: m[1], C: m[2], Raw: s})
		case reSetDef.MatchString(s):
			m := reSetDef.FindStringSubmatch(s)
			if m[3] != seqName(m[1], m[2]) {
				return nil, "sequence name in " + s
			}
			out = append(out, stmt{Kind: "setdefault", T: m[1], C: m[2], Raw: s})
		case reAlterType.MatchString(s):
			m := reAlterType.FindStringSubmatch(s)
			out = append(out, stmt{Kind: "altertype", T: m[1], C: m[2], Ty: strings.TrimSpace(m[3]), Raw: s})
		case reAddPK.MatchString(s):
			m := reAddPK.FindStringSubmatch(s)
			if m[2] != pkName(m[1]) {
				return nil, "primary key constraint named " + m[2] + " on table " + m[1]
			}
			out = append(out, stmt{Kind: "addpk", T: m[1], PK: splitList(m[3]), Raw: s})
		case reAddFK.MatchString(s):
			m := reAddFK.FindStringSubmatch(s)
			if m[2] != fkName(m[1], m[3]) {
				return nil, "foreign key constraint named " + m[2] + " on " + m[1] + "." + m[3]
			}
			out = append(out, stmt{Kind: "addfk", T: m[1], C: m[3], FKs: []fk{{m[2], m[3], m[4], m[5]}}, Raw: s})
		case reDropCon.MatchString(s):
			m := reDropCon.FindStringSubmatch(s)
			t, n := m[1], m[2]
			up := strings.ToUpper(t) + "_"
			switch {
			case n == pkName(t):
				out = append(out, stmt{Kind: "droppk", T: t, Raw: s})
			case strings.HasPrefix(n, up) && strings.HasSuffix(n, "_FK") && len(n) > len(up)+3:
				// the column is recovered by the interpreter / printer from the constraint name (upper case)
				out = append(out, stmt{Kind: "dropfk", T: t, C: n[len(up) : len(n)-3], Raw: s})
			default:
				return nil, "constraint name in " + s
			}
		case reCreateSeq.MatchString(s):
			m := reCreateSeq.FindStringSubmatch(s)
			out = append(out, stmt{Kind: "createseq", Ty: m[1], Raw: s})
		case reOwnSeq.MatchString(s):
			m := reOwnSeq.FindStringSubmatch(s)
			if m[1] != seqName(m[2], m[3]) {
				return nil, "sequence name in " + s
			}
			out = append(out, stmt{Kind: "ownseq", T: m[2], C: m[3], Raw: s})
		case reSetVal.MatchString(s):
			m := reSetVal.FindStringSubmatch(s)
			if m[1] != seqName(m[3], m[2]) {
				return nil, "sequence name in " + s
			}
			out = append(out, stmt{Kind: "setval", T: m[3], C: m[2], Raw: s})
		default:
			return nil, "statement: " + s
		}
		out[len(out)-1].RawFull = raw
	}
	// CREATE SEQUENCE T_c_seq is always followed by the ALTER ... SET DEFAULT that names table and column; resolve
	// the pair from there, and the upper-cased column of DROP CONSTRAINT from the known spellings
	for i := range out {
		if out[i].Kind == "createseq" {
			found := false
			for j := i + 1; j < len(out); j++ {
				if out[j].Kind == "setdefault" && seqName(out[j].T, out[j].C) == out[i].Ty {
					out[i].T, out[i].C, out[i].Ty = out[j].T, out[j].C, ""
					found = true
					break
				}
			}
			if !found {
				return nil, "CREATE SEQUENCE " + out[i].Ty + " is not used by a later SET DEFAULT"
			}
		}
	}
	for i := range out {
		if why := stmtPieces(&out[i]); why != "" {
			return nil, why
		}
	}
	return out, ""
}

// resolveDropFK: DROP CONSTRAINT carries the upper-cased column name; spell it as the catalog's column.
func resolveCol(upper string, cols []string) (string, bool) {
	for _, c := range cols {
		if strings.ToUpper(c) == upper {
			return c, true
		}
	}
	return upper, false
}
