// C04: splitting an application's declaration over blocks and imported files merges losslessly.
//
// An abstract specification (apps with attributes, types/tables with ~pk fields, enums, simple endpoints,
// events, REST trees) is written twice: JOINED (one block per app, one file) and SPLIT (members partitioned
// into k>=1 blocks, fields of one type and children of one REST tree partitioned too, blocks assigned to the
// files of an import graph, non-header blocks and import statements permuted).  Both are compiled by the real
// parser.  ORACLE (model-independent): the two *sysl.Module are equal after clearing source contexts and the
// import list (primary-key names compared as a set).  CORRESPONDENCE: every layout together with the
// projection of what it compiled to is printed as a Gallina case for Merge/Run.v (c04_ok).
package main

import (
	"encoding/json"
	"fmt"
	"os"
	"sort"
	"strings"
	"sync"
	"time"

	"github.com/anz-bank/sysl/pkg/parse"
	"github.com/anz-bank/sysl/pkg/sysl"
	"github.com/sirupsen/logrus"
	"github.com/spf13/afero"
	"google.golang.org/protobuf/encoding/protojson"
	"google.golang.org/protobuf/encoding/prototext"
	"google.golang.org/protobuf/proto"
	"google.golang.org/protobuf/reflect/protoreflect"

	"verifharness/common"
)

// ---------------------------------------------------------------- abstract specification / layout

type NV struct {
	K string `json:"k"`
	V string `json:"v"`
}
type NA struct {
	K string   `json:"k"`
	V []string `json:"v"`
}
type Attrs struct {
	Tags []string `json:"tags,omitempty"`
	NV   []NV     `json:"nv,omitempty"`
	Arr  []NA     `json:"arr,omitempty"` // name=["a","b"]
}

func (a Attrs) empty() bool { return len(a.Tags) == 0 && len(a.NV) == 0 && len(a.Arr) == 0 }

// Anno: `@k = "v"` or `@k = ["a", "b"]`
type Anno struct {
	K     string   `json:"k"`
	V     string   `json:"v,omitempty"`
	Arr   []string `json:"arr,omitempty"`
	IsArr bool     `json:"isarr,omitempty"`
}
type Field struct {
	Name string `json:"name"`
	Ty   string `json:"ty"`
	Opt  bool   `json:"opt,omitempty"`
	A    Attrs  `json:"a,omitempty"`
	Sp   int    `json:"sp,omitempty"` // spelling variant of the name (see spellV)
}
type Choice struct {
	Label string `json:"label"`
	Body  []Stmt `json:"body"`
}
type Stmt struct {
	Kind    int      `json:"kind"` // 0 action, 1 call, 2 return, 3 nested block (Kw Pred: Body), 4 one of (Choices)
	Text    string   `json:"text,omitempty"`
	App     []string `json:"app,omitempty"`
	Kw      string   `json:"kw,omitempty"` // if | else | for | loop | alt | while | until | for each | group
	Body    []Stmt   `json:"body,omitempty"`
	Choices []Choice `json:"choices,omitempty"`
}
type Param struct {
	Name string `json:"name"`
	Ty   string `json:"ty"`
	Opt  bool   `json:"opt,omitempty"`
}
type Method struct {
	Verb   string  `json:"verb"`
	A      Attrs   `json:"a,omitempty"`
	Annos  []Anno  `json:"annos,omitempty"`
	Params []Param `json:"params,omitempty"`
	Query  []Param `json:"query,omitempty"`
	Body   []Stmt  `json:"body"`
}
type Seg struct {
	Name string `json:"name"`
	Ty   string `json:"ty,omitempty"` // non-empty: a typed path variable {Name <: Ty}
}
type RNode struct {
	Segs    []string `json:"segs,omitempty"` // static segments (round 1/2 replays)
	PSegs   []Seg    `json:"psegs,omitempty"`
	Methods []Method `json:"methods,omitempty"`
	Subs    []*RNode `json:"subs,omitempty"`
	Sp      int      `json:"sp,omitempty"`
	// `/path [attrs]:` and `@k = v` lines of the path (written before its methods): inherited by every method below
	A     Attrs  `json:"a,omitempty"`
	Annos []Anno `json:"annos,omitempty"`
}

func (r *RNode) segs() []Seg {
	if len(r.PSegs) > 0 {
		return r.PSegs
	}
	o := make([]Seg, len(r.Segs))
	for i, s := range r.Segs {
		o[i] = Seg{Name: s}
	}
	return o
}

type Item struct {
	Name string `json:"name"`
	Val  int64  `json:"val"`
}
type Member struct {
	// type | table | enum | alias | union | ep | event | rest | mixin | sub | anno | view (abstract: Params, Ty = return type)
	Kind   string   `json:"kind"`
	Name   string   `json:"name,omitempty"`
	A      Attrs    `json:"a,omitempty"`
	Annos  []Anno   `json:"annos,omitempty"`
	Fields []Field  `json:"fields,omitempty"`
	Items  []Item   `json:"items,omitempty"`
	Ty     string   `json:"ty,omitempty"`   // alias target
	Alts   []string `json:"alts,omitempty"` // union members
	Params []Param  `json:"params,omitempty"`
	Body   []Stmt   `json:"body,omitempty"`
	Dots   bool     `json:"dots,omitempty"` // event / subscription written `...`
	Rest   *RNode   `json:"rest,omitempty"`
	Target []string `json:"target,omitempty"` // mixin target / publisher
	Anno   *Anno    `json:"anno,omitempty"`
	Sp     int      `json:"sp,omitempty"`
}
type Block struct {
	Parts   []string `json:"app"`
	Long    string   `json:"long,omitempty"`
	A       Attrs    `json:"a,omitempty"`
	Members []Member `json:"members,omitempty"`
	Sp      int      `json:"sp,omitempty"`
}
type File struct {
	Name    string   `json:"name"`
	Imports []string `json:"imports,omitempty"`
	// Noise[i] = lines without meaning (blank, whitespace-only, column-0 and indented comments) written before
	// import i; Noise[len(Imports)] = after the last import (before the first block)
	Noise  [][]string `json:"noise,omitempty"`
	Blocks []Block    `json:"blocks"`
	// PB != "": the file is handed to the parser as the compiled module of its blocks ("pb" | "pb.json" | "textpb")
	PB string `json:"pb,omitempty"`
}
type Layout struct {
	Root  string `json:"root"`
	Files []File `json:"files"`
}
type App struct {
	Parts   []string
	Long    string
	A       Attrs
	Members []Member
}
type Spec struct{ Apps []App }

// ---------------------------------------------------------------- rendering to Sysl text

func plain(c byte) bool {
	return c >= 'a' && c <= 'z' || c >= 'A' && c <= 'Z' || c >= '0' && c <= '9' || c == '_' || c == '-'
}

// spell writes a name the way Sysl source spells it: every byte outside [A-Za-z0-9_-] as %XX (the lexer's Name rule;
// the listener un-escapes it again), so abstract names may contain '.', ':', ' ' and the like.
func spell(n string) string { return spellV(n, 0) }

// spellV: variant v > 0 additionally writes ONE plain byte (not the first: a Name needs a literal letter after its
// leading escapes) as %XX - `a%2Db` for `a-b`, `T%31` for `T1`: another spelling of the same name.
func spellV(n string, v int) string {
	esc := -1
	if v > 0 && len(n) >= 2 {
		esc = 1 + (v-1)%(len(n)-1)
	}
	var sb strings.Builder
	for i := 0; i < len(n); i++ {
		c := n[i]
		if plain(c) && i != esc {
			sb.WriteByte(c)
		} else {
			fmt.Fprintf(&sb, "%%%02X", c)
		}
	}
	return sb.String()
}

func spellAll(ns []string) []string { return spellAllV(ns, 0) }
func spellAllV(ns []string, v int) []string {
	o := make([]string, len(ns))
	for i, n := range ns {
		o[i] = spellV(n, v)
	}
	return o
}

func qlist(vs []string) string {
	q := make([]string, len(vs))
	for i, v := range vs {
		q[i] = "\"" + v + "\""
	}
	return "[" + strings.Join(q, ", ") + "]"
}

func rAttrs(a Attrs) string {
	if a.empty() {
		return ""
	}
	var it []string
	// name=value pairs first, then arrays, then tags
	for _, nv := range a.NV {
		it = append(it, fmt.Sprintf("%s=\"%s\"", nv.K, nv.V))
	}
	for _, na := range a.Arr {
		it = append(it, fmt.Sprintf("%s=%s", na.K, qlist(na.V)))
	}
	for _, t := range a.Tags {
		it = append(it, "~"+t)
	}
	return " [" + strings.Join(it, ", ") + "]"
}

func rAnno(sb *strings.Builder, ind string, a Anno) {
	if a.IsArr {
		fmt.Fprintf(sb, "%s@%s = %s\n", ind, a.K, qlist(a.Arr))
	} else {
		fmt.Fprintf(sb, "%s@%s = \"%s\"\n", ind, a.K, a.V)
	}
}

func rStmts(sb *strings.Builder, ind string, body []Stmt) {
	for _, s := range body {
		switch s.Kind {
		case 0:
			fmt.Fprintf(sb, "%s%s\n", ind, s.Text)
		case 1:
			fmt.Fprintf(sb, "%s%s <- %s\n", ind, strings.Join(spellAll(s.App), " :: "), s.Text)
		case 2:
			fmt.Fprintf(sb, "%sreturn %s\n", ind, s.Text)
		case 3:
			switch {
			case s.Kw == "group":
				fmt.Fprintf(sb, "%s%s:\n", ind, s.Text)
			case s.Text == "":
				fmt.Fprintf(sb, "%s%s:\n", ind, s.Kw)
			default:
				fmt.Fprintf(sb, "%s%s %s:\n", ind, s.Kw, s.Text)
			}
			rStmts(sb, ind+"    ", s.Body)
		case 4:
			fmt.Fprintf(sb, "%sone of:\n", ind)
			for _, c := range s.Choices {
				fmt.Fprintf(sb, "%s    %s:\n", ind, c.Label)
				rStmts(sb, ind+"        ", c.Body)
			}
		}
	}
}

// rBody: the annotations of an endpoint go before its first statement and (the second half) after its last one
func rBody(sb *strings.Builder, ind string, annos []Anno, body []Stmt) {
	h := (len(annos) + 1) / 2
	for _, a := range annos[:h] {
		rAnno(sb, ind, a)
	}
	rStmts(sb, ind, body)
	for _, a := range annos[h:] {
		rAnno(sb, ind, a)
	}
}

func rParams(ps []Param) string {
	if len(ps) == 0 {
		return ""
	}
	it := make([]string, len(ps))
	for i, p := range ps {
		it[i] = p.Name + " <: " + p.Ty
	}
	return " (" + strings.Join(it, ", ") + ")"
}

func rQuery(ps []Param) string {
	if len(ps) == 0 {
		return ""
	}
	it := make([]string, len(ps))
	for i, p := range ps {
		it[i] = p.Name + "=" + p.Ty
		if p.Opt {
			it[i] += "?"
		}
	}
	return " ?" + strings.Join(it, "&")
}

func rRest(sb *strings.Builder, depth int, r *RNode) {
	ind := strings.Repeat("    ", depth)
	var segs []string
	for _, s := range r.segs() {
		if s.Ty != "" {
			segs = append(segs, fmt.Sprintf("{%s <: %s}", s.Name, s.Ty))
		} else {
			segs = append(segs, spellV(s.Name, r.Sp))
		}
	}
	fmt.Fprintf(sb, "%s/%s%s:\n", ind, strings.Join(segs, "/"), rAttrs(r.A))
	for _, a := range r.Annos {
		rAnno(sb, ind+"    ", a)
	}
	for _, m := range r.Methods {
		fmt.Fprintf(sb, "%s    %s%s%s%s:\n", ind, m.Verb, rParams(m.Params), rQuery(m.Query), rAttrs(m.A))
		rBody(sb, ind+"        ", m.Annos, m.Body)
	}
	for _, s := range r.Subs {
		rRest(sb, depth+1, s)
	}
}

func rBlock(sb *strings.Builder, b Block) {
	sb.WriteString(strings.Join(spellAllV(b.Parts, b.Sp), " :: "))
	if b.Long != "" {
		fmt.Fprintf(sb, " \"%s\"", b.Long)
	}
	sb.WriteString(rAttrs(b.A))
	sb.WriteString(":\n")
	if len(b.Members) == 0 {
		sb.WriteString("    ...\n")
	}
	for _, m := range b.Members {
		switch m.Kind {
		case "type", "table":
			fmt.Fprintf(sb, "    !%s %s%s:\n", m.Kind, spellV(m.Name, m.Sp), rAttrs(m.A))
			// annotations and fields interleaved: the first half of the annotations, the fields, the rest
			h := (len(m.Annos) + 1) / 2
			for _, a := range m.Annos[:h] {
				rAnno(sb, "        ", a)
			}
			for _, f := range m.Fields {
				opt := ""
				if f.Opt {
					opt = "?"
				}
				fmt.Fprintf(sb, "        %s <: %s%s%s\n", spellV(f.Name, f.Sp), f.Ty, opt, rAttrs(f.A))
			}
			for _, a := range m.Annos[h:] {
				rAnno(sb, "        ", a)
			}
		case "enum":
			fmt.Fprintf(sb, "    !enum %s%s:\n", spellV(m.Name, m.Sp), rAttrs(m.A))
			for _, a := range m.Annos {
				rAnno(sb, "        ", a)
			}
			for _, it := range m.Items {
				fmt.Fprintf(sb, "        %s: %d\n", it.Name, it.Val)
			}
		case "alias":
			fmt.Fprintf(sb, "    !alias %s%s:\n", spellV(m.Name, m.Sp), rAttrs(m.A))
			for _, a := range m.Annos {
				rAnno(sb, "        ", a)
			}
			fmt.Fprintf(sb, "        %s\n", m.Ty)
		case "union":
			if len(m.Alts) == 0 {
				fmt.Fprintf(sb, "    !union %s%s: ...\n", spellV(m.Name, m.Sp), rAttrs(m.A))
			} else {
				fmt.Fprintf(sb, "    !union %s%s:\n", spellV(m.Name, m.Sp), rAttrs(m.A))
			}
			for _, al := range m.Alts {
				fmt.Fprintf(sb, "        %s\n", al)
			}
		case "ep":
			fmt.Fprintf(sb, "    %s%s%s:\n", m.Name, rParams(m.Params), rAttrs(m.A))
			rBody(sb, "        ", m.Annos, m.Body)
		case "event":
			if m.Dots {
				fmt.Fprintf(sb, "    <-> %s%s%s: ...\n", m.Name, rParams(m.Params), rAttrs(m.A))
			} else {
				fmt.Fprintf(sb, "    <-> %s%s%s:\n", m.Name, rParams(m.Params), rAttrs(m.A))
				rStmts(sb, "        ", m.Body)
			}
		case "rest":
			rRest(sb, 1, m.Rest)
		case "view":
			// the listener keeps a view under its source spelling (no un-escaping): never re-spelled
			colon := ""
			if len(m.Annos) > 0 {
				colon = ":"
			}
			fmt.Fprintf(sb, "    !view %s%s -> %s [~abstract]%s\n", m.Name, strings.TrimPrefix(rParams(m.Params), " "), m.Ty, colon)
			for _, a := range m.Annos {
				rAnno(sb, "        ", a)
			}
		case "mixin":
			fmt.Fprintf(sb, "    -|> %s\n", strings.Join(spellAll(m.Target), " :: "))
		case "sub":
			if m.Dots {
				fmt.Fprintf(sb, "    %s -> %s%s: ...\n", strings.Join(spellAll(m.Target), " :: "), m.Name, rAttrs(m.A))
			} else {
				fmt.Fprintf(sb, "    %s -> %s%s:\n", strings.Join(spellAll(m.Target), " :: "), m.Name, rAttrs(m.A))
				rBody(sb, "        ", m.Annos, m.Body)
			}
		case "anno":
			rAnno(sb, "    ", *m.Anno)
		}
	}
}

func renderFile(f File) string {
	var sb strings.Builder
	noise := func(i int) {
		if i < len(f.Noise) {
			for _, l := range f.Noise[i] {
				sb.WriteString(l + "\n")
			}
		}
	}
	for k, i := range f.Imports {
		noise(k)
		fmt.Fprintf(&sb, "import %s\n", strings.TrimSuffix(i, ".sysl"))
	}
	noise(len(f.Imports))
	if len(f.Imports) > 0 && len(f.Noise) == 0 {
		sb.WriteString("\n")
	}
	for _, b := range f.Blocks {
		rBlock(&sb, b)
		sb.WriteString("\n")
	}
	return sb.String()
}

// render: file name -> text.  A file with PB set is written as Sysl text under its name + ".src" together with the
// format: the worker compiles that text on its own and stores the module under the file's name (see compileInWorker).
func render(l Layout) map[string]string {
	out := map[string]string{}
	for _, f := range l.Files {
		if f.PB != "" {
			out[f.Name+".src:"+f.PB] = renderFile(f)
			continue
		}
		out[f.Name] = renderFile(f)
	}
	return out
}

// ---------------------------------------------------------------- the real compiler

type creq struct {
	Files map[string]string `json:"files"`
	Root  string            `json:"root"`
}
type crep struct {
	Err string `json:"err,omitempty"`
	PB  []byte `json:"pb,omitempty"`
}

// worker side: one compile per request, the module travels back as protobuf bytes
func compileInWorker(line []byte) interface{} {
	var r creq
	if err := json.Unmarshal(line, &r); err != nil {
		return crep{Err: "badreq"}
	}
	out := crep{}
	func() {
		defer func() {
			if x := recover(); x != nil {
				out = crep{Err: fmt.Sprintf("panic: %v", x)}
			}
		}()
		fs := afero.NewMemMapFs()
		for n, c := range r.Files {
			if name, format, ok := strings.Cut(n, ".src:"); ok {
				// a compiled module in the import closure: the text is compiled on its own, the result stored as .pb & co
				one := afero.NewMemMapFs()
				afero.WriteFile(one, "one.sysl", []byte(c), 0o644)
				m1, err := parse.NewParser().ParseFromFs("one.sysl", one)
				if err != nil {
					out = crep{Err: "pb-source: " + err.Error()}
					return
				}
				var b []byte
				switch format {
				case "pb":
					b, err = proto.Marshal(m1)
				case "pb.json":
					b, err = protojson.Marshal(m1)
				default:
					b, err = prototext.Marshal(m1)
				}
				if err != nil {
					out = crep{Err: "pb-marshal: " + err.Error()}
					return
				}
				afero.WriteFile(fs, name, b, 0o644)
				continue
			}
			afero.WriteFile(fs, n, []byte(c), 0o644)
		}
		mod, err := parse.NewParser().ParseFromFs(r.Root, fs)
		if err != nil {
			out = crep{Err: "error: " + err.Error()}
			return
		}
		b, err := proto.Marshal(mod)
		if err != nil {
			out = crep{Err: "marshal: " + err.Error()}
			return
		}
		out = crep{PB: b}
	}()
	return out
}

type compiled struct {
	m   *sysl.Module
	err string
}

// compileAll compiles the layouts on a pool of worker subprocesses (the real parser, one compile at a time
// per process); results come back in input order
var compileRetries int

func compileAll(ls []Layout) []compiled {
	out := make([]compiled, len(ls))
	retries := 0
	nw := 8
	if len(ls) < nw {
		nw = len(ls)
	}
	var wg sync.WaitGroup
	var mu sync.Mutex
	next := make(chan int, len(ls))
	for i := range ls {
		next <- i
	}
	close(next)
	for k := 0; k < nw; k++ {
		wg.Add(1)
		go func() {
			defer wg.Done()
			w := common.NewWorker("-worker")
			defer w.Close()
			for i := range next {
				var r crep
				var died, timedOut bool
				var stderr string
				// a compile takes ~50 ms; on an overloaded machine a worker can stall, so a timeout is retried
				// on a fresh worker with a longer deadline before it counts
				for attempt, dl := range []time.Duration{60 * time.Second, 180 * time.Second, 600 * time.Second} {
					r = crep{}
					died, timedOut, stderr = w.Call(creq{render(ls[i]), ls[i].Root}, &r, dl)
					if !timedOut && !died {
						break
					}
					mu.Lock()
					retries++
					mu.Unlock()
					_ = attempt
				}
				switch {
				case timedOut:
					out[i] = compiled{nil, "hang"}
				case died:
					if len(stderr) > 300 {
						stderr = stderr[:300]
					}
					out[i] = compiled{nil, "died: " + stderr}
				case r.Err != "":
					out[i] = compiled{nil, r.Err}
				default:
					m := &sysl.Module{}
					if err := proto.Unmarshal(r.PB, m); err != nil {
						out[i] = compiled{nil, "unmarshal: " + err.Error()}
					} else {
						out[i] = compiled{m, ""}
					}
				}
			}
		}()
	}
	wg.Wait()
	compileRetries += retries
	return out
}

// clear source contexts everywhere, the import list, and sort primary keys (compared as sets)
func scrub(m protoreflect.Message) {
	m.Range(func(fd protoreflect.FieldDescriptor, v protoreflect.Value) bool {
		n := string(fd.Name())
		if n == "source_context" || n == "source_contexts" {
			m.Clear(fd)
			return true
		}
		switch {
		case fd.IsMap():
			if fd.MapValue().Kind() == protoreflect.MessageKind {
				v.Map().Range(func(_ protoreflect.MapKey, mv protoreflect.Value) bool {
					scrub(mv.Message())
					return true
				})
			}
		case fd.IsList():
			if fd.Kind() == protoreflect.MessageKind {
				for i := 0; i < v.List().Len(); i++ {
					scrub(v.List().Get(i).Message())
				}
			}
		case fd.Kind() == protoreflect.MessageKind:
			scrub(v.Message())
		}
		return true
	})
}

func normalise(m *sysl.Module) *sysl.Module {
	c := proto.Clone(m).(*sysl.Module)
	c.Imports = nil
	scrub(c.ProtoReflect())
	return c
}

// flattenOrder: the files in the order the parser processes them (a file before its imports, imports in textual
// order, every file once)
func flattenOrder(l Layout) []File {
	byName := map[string]File{}
	for _, f := range l.Files {
		byName[f.Name] = f
	}
	var out []File
	seen := map[string]bool{}
	var visit func(n string)
	visit = func(n string) {
		f, ok := byName[n]
		if seen[n] || !ok {
			return
		}
		seen[n] = true
		out = append(out, f)
		for _, i := range f.Imports {
			visit(i)
		}
	}
	visit(l.Root)
	return out
}

// keySeq: the ~pk fields of table (app, ty) in the order the layout declares them (processing order)
func keySeq(l Layout, app, ty string) []string {
	var ks []string
	for _, f := range flattenOrder(l) {
		for _, b := range f.Blocks {
			if strings.Join(b.Parts, " :: ") != app {
				continue
			}
			for _, m := range b.Members {
				if m.Kind != "table" || m.Name != ty {
					continue
				}
				for _, fd := range m.Fields {
					for _, t := range fd.A.Tags {
						if t == "pk" {
							ks = append(ks, fd.Name)
							break
						}
					}
				}
			}
		}
	}
	return ks
}

func sortedCopy(ss []string) []string {
	c := append([]string{}, ss...)
	sort.Strings(c)
	return c
}

// mixSeq: the mixins of an application in the order the layout declares them (processing order)
func mixSeq(l Layout, app string) []string {
	var ms []string
	for _, f := range flattenOrder(l) {
		for _, b := range f.Blocks {
			if strings.Join(b.Parts, " :: ") != app {
				continue
			}
			for _, m := range b.Members {
				if m.Kind == "mixin" {
					ms = append(ms, strings.Join(m.Target, " :: "))
				}
			}
		}
	}
	return ms
}

func mixNames(a *sysl.Application) []string {
	var ms []string
	for _, m := range a.Mixin2 {
		ms = append(ms, strings.Join(m.GetName().GetPart(), " :: "))
	}
	return ms
}

// ---------------------------------------------------------------- oracle

type replay struct {
	Split  Layout `json:"split"`
	Joined Layout `json:"joined"`
	Note   string `json:"note,omitempty"`
}

// keyFragments: how many blocks of the split layout declare a ~pk field of table (app, ty)
func keyFragments(l Layout, app, ty string) int {
	n := 0
	for _, f := range l.Files {
		for _, b := range f.Blocks {
			if strings.Join(b.Parts, " :: ") != app {
				continue
			}
			for _, m := range b.Members {
				if m.Kind != "table" || m.Name != ty {
					continue
				}
				has := false
				for _, fd := range m.Fields {
					for _, t := range fd.A.Tags {
						if t == "pk" {
							has = true
						}
					}
				}
				if has {
					n++
				}
			}
		}
	}
	return n
}

func keysOf[M ~map[string]V, V any](m M) []string {
	var k []string
	for x := range m {
		k = append(k, x)
	}
	sort.Strings(k)
	return k
}

// diff: the first difference between the (normalised) split and joined models, as (abstract key, description)
func diff(c *common.Ctx, split, joined *sysl.Module, l, jl Layout) (string, string) {
	if a, b := keysOf(split.Apps), keysOf(joined.Apps); fmt.Sprint(a) != fmt.Sprint(b) {
		return "app-set", fmt.Sprintf("applications %q (split) vs %q (joined)", a, b)
	}
	for _, an := range keysOf(joined.Apps) {
		s, j := split.Apps[an], joined.Apps[an]
		if !proto.Equal(s.Name, j.Name) || s.LongName != j.LongName {
			return "app-name", fmt.Sprintf("app %q: name/long name %v %q vs %v %q", an, s.Name, s.LongName, j.Name, j.LongName)
		}
		if !proto.Equal(&sysl.Application{Attrs: s.Attrs}, &sysl.Application{Attrs: j.Attrs}) {
			return "app-attrs", fmt.Sprintf("app %q: attributes %v vs %v", an, s.Attrs, j.Attrs)
		}
		if a, b := keysOf(s.Types), keysOf(j.Types); fmt.Sprint(a) != fmt.Sprint(b) {
			return "type-set", fmt.Sprintf("app %q: split form has types %q, joined form %q", an, a, b)
		}
		for _, tn := range keysOf(j.Types) {
			st, jt := s.Types[tn], j.Types[tn]
			if proto.Equal(st, jt) {
				continue
			}
			// same apart from the primary key?
			sc, jc := proto.Clone(st).(*sysl.Type), proto.Clone(jt).(*sysl.Type)
			if sc.GetRelation() != nil && jc.GetRelation() != nil {
				sc.GetRelation().PrimaryKey, jc.GetRelation().PrimaryKey = nil, nil
				spk, jpk := st.GetRelation().GetPrimaryKey().GetAttrName(), jt.GetRelation().GetPrimaryKey().GetAttrName()
				if proto.Equal(sc, jc) && fmt.Sprint(sortedCopy(spk)) == fmt.Sprint(sortedCopy(jpk)) {
					// the same key fields in another order: demanded to be the joined form's order exactly when the
					// split form declares the key fields in that order ("as if it was declared in one block")
					if fmt.Sprint(keySeq(l, an, tn)) == fmt.Sprint(keySeq(jl, an, tn)) {
						return "primary-key-order", fmt.Sprintf("app %q table %q: the blocks declare the key fields in the order %q, as the joined form does, but the compiled key is %q (joined: %q)", an, tn, keySeq(l, an, tn), spk, jpk)
					}
					c.Hist("pk-order-differs-with-block-order(accepted)")
					st.GetRelation().PrimaryKey = jt.GetRelation().PrimaryKey
					continue
				}
				if proto.Equal(sc, jc) {
					what := fmt.Sprintf("app %q table %q: primary key %q in the split form, %q joined", an, tn,
						st.GetRelation().GetPrimaryKey().GetAttrName(), jt.GetRelation().GetPrimaryKey().GetAttrName())
					if keyFragments(l, an, tn) >= 2 {
						return "pk-split-across-blocks", what + " (key fields declared in more than one block of the table)"
					}
					return "primary-key", what
				}
			}
			if a, b := keysOf(attrDefs(st)), keysOf(attrDefs(jt)); fmt.Sprint(a) != fmt.Sprint(b) {
				return "field-set", fmt.Sprintf("app %q type %q: split form has fields %q, joined form %q", an, tn, a, b)
			}
			if !proto.Equal(&sysl.Type{Attrs: st.Attrs}, &sysl.Type{Attrs: jt.Attrs}) {
				return "type-attrs", fmt.Sprintf("app %q type %q: attributes %v vs %v", an, tn, st.Attrs, jt.Attrs)
			}
			return "type", fmt.Sprintf("app %q type %q differs: %v vs %v", an, tn, st, jt)
		}
		if a, b := keysOf(s.Endpoints), keysOf(j.Endpoints); fmt.Sprint(a) != fmt.Sprint(b) {
			return "endpoint-set", fmt.Sprintf("app %q: split form has endpoints %q, joined form %q", an, a, b)
		}
		for _, en := range keysOf(j.Endpoints) {
			se, je := s.Endpoints[en], j.Endpoints[en]
			if proto.Equal(se, je) {
				continue
			}
			switch {
			case !proto.Equal(&sysl.Endpoint{Attrs: se.Attrs}, &sysl.Endpoint{Attrs: je.Attrs}):
				return "endpoint-attrs", fmt.Sprintf("app %q endpoint %q: attributes %v vs %v", an, en, se.Attrs, je.Attrs)
			case !proto.Equal(&sysl.Endpoint{Param: se.Param}, &sysl.Endpoint{Param: je.Param}):
				return "endpoint-params", fmt.Sprintf("app %q endpoint %q: parameters %v vs %v", an, en, se.Param, je.Param)
			case !proto.Equal(&sysl.Endpoint{RestParams: se.RestParams}, &sysl.Endpoint{RestParams: je.RestParams}):
				return "endpoint-rest-params", fmt.Sprintf("app %q endpoint %q: rest parameters %v vs %v", an, en, se.RestParams, je.RestParams)
			case !proto.Equal(&sysl.Endpoint{Stmt: se.Stmt}, &sysl.Endpoint{Stmt: je.Stmt}):
				return "endpoint-statements", fmt.Sprintf("app %q endpoint %q: statements %v vs %v", an, en, se.Stmt, je.Stmt)
			}
			return "endpoint", fmt.Sprintf("app %q endpoint %q differs: %v vs %v", an, en, se, je)
		}
		// Mixin2 grows in declaration order: demanded to be the joined form's order exactly when the split form
		// declares the mixins in that order, otherwise the same mixins in any order
		if sm, jm := mixNames(s), mixNames(j); fmt.Sprint(sm) != fmt.Sprint(jm) {
			switch {
			case fmt.Sprint(sortedCopy(sm)) != fmt.Sprint(sortedCopy(jm)):
				return "mixin-set", fmt.Sprintf("app %q: mixins %q in the split form, %q joined", an, sm, jm)
			case fmt.Sprint(mixSeq(l, an)) == fmt.Sprint(mixSeq(jl, an)):
				return "mixin-order", fmt.Sprintf("app %q: the blocks declare the mixins in the order %q, as the joined form does, but the compiled list is %q (joined: %q)", an, mixSeq(l, an), sm, jm)
			}
			c.Hist("mixin-order-differs-with-block-order(accepted)")
			s.Mixin2 = j.Mixin2
		}
		if a, b := keysOf(s.Views), keysOf(j.Views); fmt.Sprint(a) != fmt.Sprint(b) {
			return "view-set", fmt.Sprintf("app %q: split form has views %q, joined form %q", an, a, b)
		}
		for _, vn := range keysOf(j.Views) {
			if !proto.Equal(s.Views[vn], j.Views[vn]) {
				return "view", fmt.Sprintf("app %q view %q differs: %v vs %v", an, vn, s.Views[vn], j.Views[vn])
			}
		}
		if !proto.Equal(s, j) {
			return "app-other", fmt.Sprintf("app %q differs outside attributes, types and endpoints", an)
		}
	}
	if !proto.Equal(split, joined) {
		return "module-other", "modules differ outside the applications"
	}
	return "", ""
}

func attrDefs(t *sysl.Type) map[string]*sysl.Type {
	if r := t.GetRelation(); r != nil {
		return r.AttrDefs
	}
	return t.GetTuple().GetAttrDefs()
}

func judge(c *common.Ctx, rp replay, sm, jm *sysl.Module, serr, jerr string) {
	// layouts with a compiled module (.pb / .pb.json / .textpb) among the files: their own family of keys
	pre := ""
	for _, f := range rp.Split.Files {
		if f.PB != "" {
			pre = "pb-import:"
		}
	}
	if jerr != "" {
		c.Fail("harness:joined-form-rejected", "the joined form does not compile: "+jerr, rp)
		return
	}
	if serr != "" {
		c.Fail(pre+"split-form-rejected", "the joined form compiles but the split form does not: "+serr, rp)
		return
	}
	for _, f := range rp.Joined.Files {
		for _, b := range f.Blocks {
			for _, m := range b.Members {
				an := strings.Join(b.Parts, " :: ")
				if m.Kind == "table" && keyFragments(rp.Split, an, m.Name) >= 2 {
					if fmt.Sprint(keySeq(rp.Split, an, m.Name)) == fmt.Sprint(keySeq(rp.Joined, an, m.Name)) {
						c.Hist("split-key:compared-as-list")
					} else {
						c.Hist("split-key:compared-as-set")
					}
				}
			}
		}
	}
	k, what := diff(c, normalise(sm), normalise(jm), rp.Split, rp.Joined)
	if k != "" {
		c.Fail(pre+k, what, rp)
	}
}

// ---------------------------------------------------------------- projection -> Gallina

type interner struct{ ids map[string]int }

const mixinKey = "\x00mixins"

func newInterner() *interner {
	// the fixed ids of Merge/Model.v: patterns_key, rest_tag, pk_tag, dots_name, empty_str, mixin_key, abstract_tag
	return &interner{ids: map[string]int{"patterns": 1, "rest": 2, "pk": 3, "e:...": 4, "s:": 5, mixinKey: 6, "abstract": 7}}
}
func (t *interner) id(s string) string {
	i, ok := t.ids[s]
	if !ok {
		i = len(t.ids) + 1
		t.ids[s] = i
	}
	return fmt.Sprint(i)
}
func (t *interner) list(ss []string) string {
	it := make([]string, len(ss))
	for i, s := range ss {
		it[i] = t.id(s)
	}
	return "[" + strings.Join(it, ";") + "]"
}

func (t *interner) gEntries(a Attrs) string {
	var it []string
	for _, nv := range a.NV {
		it = append(it, fmt.Sprintf("EN %s %s", t.id(nv.K), t.id("s:"+nv.V)))
	}
	for _, na := range a.Arr {
		it = append(it, fmt.Sprintf("EA %s %s", t.id(na.K), t.list(na.V)))
	}
	for _, tg := range a.Tags {
		it = append(it, "ET "+t.id(tg))
	}
	return "[" + strings.Join(it, ";") + "]"
}
func (t *interner) gAnno(a Anno) string {
	if a.IsArr {
		return fmt.Sprintf("(%s, VA %s)", t.id(a.K), t.list(a.Arr))
	}
	return fmt.Sprintf("(%s, VS %s)", t.id(a.K), t.id("s:"+a.V))
}
func (t *interner) gAnnos(as []Anno) string {
	it := make([]string, len(as))
	for i, a := range as {
		it[i] = t.gAnno(a)
	}
	return "[" + strings.Join(it, ";") + "]"
}

// the proto form of a nested statement's head: (kind, label)
func blockHead(s Stmt) (string, string) {
	switch s.Kw {
	case "if", "else":
		return "cond", strings.TrimSpace(s.Kw + " " + s.Text)
	case "for", "loop", "alt":
		return "group", strings.TrimSpace(s.Kw + " " + s.Text)
	case "while":
		return "loop:WHILE", s.Text
	case "until":
		return "loop:UNTIL", s.Text
	case "for each":
		return "foreach", s.Text
	}
	return "group", s.Text
}

func (t *interner) stmtTokens(body []Stmt, it *[]string) {
	for _, s := range body {
		switch s.Kind {
		case 0:
			*it = append(*it, "SA "+t.id("a:"+s.Text))
		case 1:
			*it = append(*it, fmt.Sprintf("SC %s %s", t.list(s.App), t.id("e:"+s.Text)))
		case 2:
			*it = append(*it, "SR "+t.id("r:"+s.Text))
		case 3:
			k, l := blockHead(s)
			*it = append(*it, fmt.Sprintf("SOpen %s %s", t.id("k:"+k), t.id("l:"+l)))
			t.stmtTokens(s.Body, it)
			*it = append(*it, "SClose")
		case 4:
			*it = append(*it, fmt.Sprintf("SOpen %s %s", t.id("k:alt"), t.id("l:")))
			for _, c := range s.Choices {
				*it = append(*it, fmt.Sprintf("SOpen %s %s", t.id("k:choice"), t.id("l:"+c.Label)))
				t.stmtTokens(c.Body, it)
				*it = append(*it, "SClose")
			}
			*it = append(*it, "SClose")
		}
	}
}
func (t *interner) gStmts(body []Stmt) string {
	var it []string
	t.stmtTokens(body, &it)
	return "[" + strings.Join(it, ";") + "]"
}
func (t *interner) gParams(pre string, ps []Param) string {
	it := make([]string, len(ps))
	for i, p := range ps {
		s := pre + p.Name + ":" + tySpelling(p.Ty)
		if p.Opt {
			s += "?"
		}
		it[i] = t.id(s)
	}
	return "[" + strings.Join(it, ";") + "]"
}
func segText(s Seg) string {
	if s.Ty != "" {
		return "{" + s.Name + "}"
	}
	return s.Name
}
func (t *interner) gRest(r *RNode) string {
	var ms, ss, segs, vars []string
	for _, s := range r.segs() {
		segs = append(segs, segText(s))
		if s.Ty != "" {
			vars = append(vars, t.id("u:"+s.Name+":"+tySpelling(s.Ty)))
		}
	}
	for _, m := range r.Methods {
		ms = append(ms, fmt.Sprintf("MDh %s %s %s %s %s %s", t.id(m.Verb), t.gEntries(m.A), t.gAnnos(m.Annos), t.gParams("p:", m.Params), t.gParams("q:", m.Query), t.gStmts(m.Body)))
	}
	for _, s := range r.Subs {
		ss = append(ss, t.gRest(s))
	}
	return fmt.Sprintf("RN %s [%s] %s %s [%s] [%s]", t.list(segs), strings.Join(vars, ";"), t.gEntries(r.A), t.gAnnos(r.Annos), strings.Join(ms, ";"), strings.Join(ss, ";"))
}

// the spelling of a field type as the projection names it (see projType)
func tySpelling(ty string) string {
	if r, ok := strings.CutPrefix(ty, "sequence of "); ok {
		return "seq:" + tySpelling(r)
	}
	if r, ok := strings.CutPrefix(ty, "set of "); ok {
		return "set:" + tySpelling(r)
	}
	prim := map[string]string{"int": "INT", "string": "STRING", "bool": "BOOL", "date": "DATE", "float": "FLOAT", "decimal": "DECIMAL", "datetime": "DATETIME", "bytes": "BYTES", "any": "ANY"}
	if p, ok := prim[ty]; ok {
		return "prim:" + p
	}
	return "ref:" + ty
}

func appId(parts []string) string { return "app:" + strings.Join(parts, " :: ") }

func (t *interner) gMember(m Member) string {
	switch m.Kind {
	case "type", "table":
		var fs []string
		for _, f := range m.Fields {
			fs = append(fs, fmt.Sprintf("FD %s %s %s %s", t.id(f.Name), t.id(tySpelling(f.Ty)), common.GBool(f.Opt), t.gEntries(f.A)))
		}
		return fmt.Sprintf("MT %s %s %s %s [%s]", common.GBool(m.Kind == "table"), t.id(m.Name), t.gEntries(m.A), t.gAnnos(m.Annos), strings.Join(fs, ";"))
	case "enum":
		var it []string
		for _, i := range m.Items {
			it = append(it, fmt.Sprintf("(%s, %s)", t.id(i.Name), common.GZ(i.Val)))
		}
		return fmt.Sprintf("ME %s %s %s [%s]", t.id(m.Name), t.gEntries(m.A), t.gAnnos(m.Annos), strings.Join(it, ";"))
	case "alias":
		return fmt.Sprintf("MAl %s %s %s %s", t.id(m.Name), t.gEntries(m.A), t.gAnnos(m.Annos), t.id(tySpelling(m.Ty)))
	case "union":
		var al []string
		for _, a := range m.Alts {
			al = append(al, tySpelling(a))
		}
		return fmt.Sprintf("MU %s %s %s", t.id(m.Name), t.gEntries(m.A), t.list(al))
	case "ep":
		return fmt.Sprintf("MP %s %s %s %s %s", t.id("e:"+m.Name), t.gEntries(m.A), t.gAnnos(m.Annos), t.gParams("p:", m.Params), t.gStmts(m.Body))
	case "event":
		return fmt.Sprintf("MV %s %s %s %s", t.id("e:"+m.Name), t.gEntries(m.A), t.gParams("p:", m.Params), t.gStmts(m.Body))
	case "view":
		var ps []string
		for _, p := range m.Params {
			ps = append(ps, p.Name+":"+tySpelling(p.Ty))
		}
		return fmt.Sprintf("MVw %s %s %s", t.id("v:"+m.Name), t.gAnnos(m.Annos), t.id("sig:("+strings.Join(ps, ",")+")->"+tySpelling(m.Ty)))
	case "mixin":
		return "MX " + t.id(appId(m.Target))
	case "sub":
		return fmt.Sprintf("MS %s %s %s %s %s %s", t.id("e:"+subName(m)), t.list(m.Target), t.id("e:"+m.Name), t.gEntries(m.A), t.gAnnos(m.Annos), t.gStmts(m.Body))
	case "anno":
		return "MA " + t.gAnno(*m.Anno)
	default:
		return "MR (" + t.gRest(m.Rest) + ")"
	}
}

// subName: the name of the subscriber's endpoint, `Pub :: X -> Evt`
func subName(m Member) string { return strings.Join(m.Target, " :: ") + " -> " + m.Name }

func (t *interner) gLayout(l Layout) string {
	var fs []string
	for _, f := range l.Files {
		var bs []string
		for _, b := range f.Blocks {
			long := "None"
			if b.Long != "" {
				long = "(Some " + t.id("s:"+b.Long) + ")"
			}
			var ms []string
			for _, m := range b.Members {
				ms = append(ms, t.gMember(m))
			}
			if len(b.Members) == 0 {
				ms = append(ms, "MW") // written as `...`
			}
			bs = append(bs, fmt.Sprintf("B %s %s %s [%s]", t.list(b.Parts), long, t.gEntries(b.A), strings.Join(ms, ";\n    ")))
		}
		fs = append(fs, fmt.Sprintf("(%s, (%s, [%s]))", t.id("f:"+f.Name), t.list(prefixed("f:", f.Imports)), strings.Join(bs, ";\n   ")))
	}
	var pbs []string
	for _, f := range l.Files {
		if f.PB != "" {
			pbs = append(pbs, "f:"+f.Name)
		}
	}
	return fmt.Sprintf("%s, [%s], %s", t.id("f:"+l.Root), strings.Join(fs, ";\n  "), t.list(pbs))
}
func prefixed(p string, ss []string) []string {
	o := make([]string, len(ss))
	for i, s := range ss {
		o[i] = p + s
	}
	return o
}

func (t *interner) gOAttrs(m map[string]*sysl.Attribute) string {
	var it []string
	for _, k := range keysOf(m) {
		a := m[k]
		switch {
		case a.GetA() != nil:
			var el []string
			for _, e := range a.GetA().Elt {
				if _, ok := e.Attribute.(*sysl.Attribute_S); ok {
					el = append(el, t.id(e.GetS()))
				} else {
					el = append(el, t.id("?nested"))
				}
			}
			it = append(it, fmt.Sprintf("(%s, VA [%s])", t.id(k), strings.Join(el, ";")))
		default:
			it = append(it, fmt.Sprintf("(%s, VS %s)", t.id(k), t.id("s:"+a.GetS())))
		}
	}
	return "[" + strings.Join(it, ";") + "]"
}

func projType(ty *sysl.Type) string {
	s := ""
	switch x := ty.GetType().(type) {
	case *sysl.Type_Primitive_:
		s = "prim:" + x.Primitive.String()
	case *sysl.Type_TypeRef:
		s = "ref:" + strings.Join(append(append([]string{}, x.TypeRef.GetRef().GetAppname().GetPart()...), x.TypeRef.GetRef().GetPath()...), ".")
	case *sysl.Type_Sequence:
		s = "seq:" + projType(x.Sequence)
	case *sysl.Type_Set:
		s = "set:" + projType(x.Set)
	case nil:
		s = "nil"
	default:
		s = fmt.Sprintf("other:%T", ty.Type)
	}
	if len(ty.GetConstraint()) > 0 {
		s += "+constraint"
	}
	return s
}

func (t *interner) oStmtTokens(ss []*sysl.Statement, it *[]string) {
	open := func(k, l string) { *it = append(*it, fmt.Sprintf("SOpen %s %s", t.id("k:"+k), t.id("l:"+l))) }
	for _, s := range ss {
		switch x := s.Stmt.(type) {
		case *sysl.Statement_Action:
			*it = append(*it, "SA "+t.id("a:"+x.Action.Action))
		case *sysl.Statement_Call:
			*it = append(*it, fmt.Sprintf("SC %s %s", t.list(x.Call.GetTarget().GetPart()), t.id("e:"+x.Call.Endpoint)))
		case *sysl.Statement_Ret:
			*it = append(*it, "SR "+t.id("r:"+x.Ret.Payload))
		case *sysl.Statement_Cond:
			open("cond", x.Cond.Test)
			t.oStmtTokens(x.Cond.Stmt, it)
			*it = append(*it, "SClose")
		case *sysl.Statement_Group:
			open("group", x.Group.Title)
			t.oStmtTokens(x.Group.Stmt, it)
			*it = append(*it, "SClose")
		case *sysl.Statement_Loop:
			open("loop:"+x.Loop.Mode.String(), x.Loop.Criterion)
			t.oStmtTokens(x.Loop.Stmt, it)
			*it = append(*it, "SClose")
		case *sysl.Statement_Foreach:
			open("foreach", x.Foreach.Collection)
			t.oStmtTokens(x.Foreach.Stmt, it)
			*it = append(*it, "SClose")
		case *sysl.Statement_Alt:
			open("alt", "")
			for _, c := range x.Alt.Choice {
				open("choice", c.Cond)
				t.oStmtTokens(c.Stmt, it)
				*it = append(*it, "SClose")
			}
			*it = append(*it, "SClose")
		default:
			*it = append(*it, "SA "+t.id(fmt.Sprintf("?%T", s.Stmt)))
		}
		if len(s.Attrs) > 0 {
			*it = append(*it, "SA "+t.id("?statement-attrs"))
		}
	}
}
func (t *interner) gOStmts(ss []*sysl.Statement) string {
	var it []string
	t.oStmtTokens(ss, &it)
	return "[" + strings.Join(it, ";") + "]"
}

func (t *interner) gOParams(pre string, ps []*sysl.Endpoint_RestParams_QueryParam) string {
	it := make([]string, len(ps))
	for i, p := range ps {
		s := pre + p.Name + ":" + projType(p.Type)
		if p.GetType().GetOpt() {
			s += "?"
		}
		it[i] = t.id(s)
	}
	return "[" + strings.Join(it, ";") + "]"
}

func (t *interner) gObs(m *sysl.Module) string {
	if m == nil {
		return "None"
	}
	var apps []string
	for _, an := range keysOf(m.Apps) {
		a := m.Apps[an]
		long := "None"
		if a.LongName != "" {
			long = "(Some " + t.id("s:"+a.LongName) + ")"
		}
		var tys []string
		for _, tn := range keysOf(a.Types) {
			ty := a.Types[tn]
			switch x := ty.Type.(type) {
			case *sysl.Type_Relation_, *sysl.Type_Tuple_:
				var fs []string
				defs := attrDefs(ty)
				for _, fn := range keysOf(defs) {
					f := defs[fn]
					fs = append(fs, fmt.Sprintf("(%s, (%s, %s, %s))", t.id(fn), t.id(projType(f)), common.GBool(f.Opt), t.gOAttrs(f.Attrs)))
				}
				_, rel := x.(*sysl.Type_Relation_)
				tys = append(tys, fmt.Sprintf("(%s, OT %s %s [%s] %s)", t.id(tn), common.GBool(rel), t.gOAttrs(ty.Attrs), strings.Join(fs, ";"),
					t.list(ty.GetRelation().GetPrimaryKey().GetAttrName())))
			case *sysl.Type_Enum_:
				var its []string
				for _, in := range keysOf(x.Enum.Items) {
					its = append(its, fmt.Sprintf("(%s, %s)", t.id(in), common.GZ(x.Enum.Items[in])))
				}
				tys = append(tys, fmt.Sprintf("(%s, OE %s [%s])", t.id(tn), t.gOAttrs(ty.Attrs), strings.Join(its, ";")))
			case *sysl.Type_OneOf_:
				var al []string
				for _, o := range x.OneOf.Type {
					s := projType(o)
					if len(o.Attrs) > 0 {
						s += "+attrs"
					}
					al = append(al, s)
				}
				tys = append(tys, fmt.Sprintf("(%s, OU %s %s)", t.id(tn), t.gOAttrs(ty.Attrs), t.list(al)))
			case *sysl.Type_Primitive_, *sysl.Type_TypeRef, *sysl.Type_Sequence, *sysl.Type_Set:
				s := projType(ty)
				if ty.Opt {
					s += "?"
				}
				tys = append(tys, fmt.Sprintf("(%s, OAl %s %s)", t.id(tn), t.gOAttrs(ty.Attrs), t.id(s)))
			default:
				// a kind the model does not speak about: shows as a mismatch
				tys = append(tys, fmt.Sprintf("(%s, OE [(%s, VS %s)] [])", t.id(tn), t.id("?kind"), t.id(fmt.Sprintf("?%T", ty.Type))))
			}
		}
		// views live in the model's type map under "v:" names
		for _, vn := range keysOf(a.Views) {
			v := a.Views[vn]
			var ps []string
			for _, p := range v.Param {
				q := p.Name + ":" + projType(p.Type)
				if p.GetType().GetOpt() {
					q += "?"
				}
				ps = append(ps, q)
			}
			sig := "sig:(" + strings.Join(ps, ",") + ")->" + projType(v.RetType)
			if v.RetType.GetOpt() {
				sig += "?"
			}
			if v.Expr != nil || len(v.Views) > 0 {
				sig += "+?expr" // only abstract views are modelled
			}
			tys = append(tys, fmt.Sprintf("(%s, OV %s %s)", t.id("v:"+vn), t.gOAttrs(v.Attrs), t.id(sig)))
		}
		var eps []string
		for _, en := range keysOf(a.Endpoints) {
			e := a.Endpoints[en]
			key := fmt.Sprintf("(None, [%s])", t.id("e:"+en))
			rest := e.RestParams != nil
			query, url := "[]", "[]"
			if rest {
				verb, path, _ := strings.Cut(en, " ")
				key = fmt.Sprintf("(Some %s, %s)", t.id(verb), t.list(strings.Split(strings.TrimPrefix(path, "/"), "/")))
				if e.RestParams.Path != path || e.RestParams.Method.String() != verb || e.Name != en {
					key = fmt.Sprintf("(Some %s, [%s])", t.id("?inconsistent"), t.id(en))
				}
				query, url = t.gOParams("q:", e.RestParams.QueryParam), t.gOParams("u:", e.RestParams.UrlParam)
			} else if e.Name != en {
				key = fmt.Sprintf("(None, [%s])", t.id("?name:"+e.Name))
			}
			src := "None"
			if e.Source != nil {
				src = "(Some " + t.list(e.Source.Part) + ")"
			}
			var ps []string
			for _, p := range e.Param {
				ps = append(ps, t.id("p:"+p.Name+":"+projType(p.Type)))
			}
			extra := ""
			if e.LongName != "" || e.Docstring != "" || len(e.Flag) > 0 {
				extra = ";SA " + t.id("?endpoint-extra")
			}
			st := t.gOStmts(e.Stmt)
			if extra != "" {
				st = "[" + strings.TrimPrefix(strings.TrimSuffix(st, "]"), "[") + extra + "]"
				st = strings.Replace(st, "[;", "[", 1)
			}
			eps = append(eps, fmt.Sprintf("(%s, OEP %s %s %s %s [%s] %s %s %s)", key, common.GBool(e.IsPubsub), common.GBool(rest), src, t.gOAttrs(e.Attrs),
				strings.Join(ps, ";"), query, url, st))
		}
		var mix []string
		for _, mx := range a.Mixin2 {
			mix = append(mix, appId(mx.GetName().GetPart()))
		}
		apps = append(apps, fmt.Sprintf("OA %s %s %s %s\n    [%s]\n    [%s]", t.list(a.GetName().GetPart()), long, t.gOAttrs(a.Attrs), t.list(mix),
			strings.Join(tys, ";\n     "), strings.Join(eps, ";\n     ")))
	}
	return "(Some [" + strings.Join(apps, ";\n   ") + "])"
}

func caseTerm(l Layout, m *sysl.Module) string {
	t := newInterner()
	return "(" + t.gLayout(l) + ",\n  " + t.gObs(m) + ")"
}

// ---------------------------------------------------------------- generator

var appPool = [][]string{{"Alpha"}, {"Beta"}, {"Ns", "Gamma"}, {"Ns", "Delta"}, {"Omega"}, {"Ns", "Ep.silon"}, {"Ze:ta"}}

// name shapes that need %XX in the source (docs/docs/lang/identifiers.md); %d = running number
var oddTypeNames = []string{"Order.L%d", "St:k%d", "T %d x", "T/%d", "T%d+"}
var prims = []string{"int", "string", "bool", "date", "decimal", "datetime", "float"}
var verbs = []string{"GET", "POST", "PUT", "DELETE", "PATCH"}

type gen struct{ r *common.Rng }

func (g gen) attrs(tagPool []string, maxTags, nvChance int) Attrs {
	var a Attrs
	for i := 0; i < maxTags; i++ {
		if g.r.Chance(1, 3) {
			t := tagPool[g.r.Intn(len(tagPool))]
			dup := false
			for _, x := range a.Tags {
				if x == t {
					dup = true
				}
			}
			if !dup {
				a.Tags = append(a.Tags, t)
			}
		}
	}
	ks := []string{"owner", "desc", "json_tag"}
	for _, k := range ks {
		if g.r.Chance(1, nvChance) {
			a.NV = append(a.NV, NV{k, fmt.Sprintf("v%d", g.r.Intn(4))})
		}
	}
	if g.r.Chance(1, 2*nvChance) {
		a.Arr = append(a.Arr, NA{"labels", g.strs("l", g.r.Intn(3))})
	}
	return a
}

func (g gen) strs(pre string, n int) []string {
	o := make([]string, n)
	for i := range o {
		o[i] = fmt.Sprintf("%s%d", pre, g.r.Intn(5))
	}
	return o
}

// the names annotations use: disjoint from the names header attributes use (owner, desc, json_tag, labels)
var annoKeys = []string{"note", "version", "team", "contact", "langs", "since", "x-tags"}

// annos: n annotations with distinct names not in `used` (which is extended): strings (sometimes empty), arrays
// (sometimes empty)
func (g gen) annos(n int, used map[string]bool) []Anno {
	var out []Anno
	for i := 0; i < n; i++ {
		k := annoKeys[g.r.Intn(len(annoKeys))]
		if used[k] {
			continue
		}
		used[k] = true
		a := Anno{K: k}
		switch g.r.Intn(8) {
		case 0:
			a.V = "" // an empty value: overwritten by a later one, but there is none
		case 1, 2:
			a.IsArr, a.Arr = true, g.strs("e", g.r.Intn(3))
		default:
			a.V = fmt.Sprintf("text %d", g.r.Intn(6))
		}
		out = append(out, a)
	}
	return out
}

func (g gen) params(max int) []Param {
	var ps []Param
	for i, n := 0, g.r.Intn(max+1); i < n; i++ {
		ty := prims[g.r.Intn(len(prims))]
		if g.r.Chance(1, 4) {
			ty = fmt.Sprintf("T%d", 1+g.r.Intn(3))
		}
		ps = append(ps, Param{Name: fmt.Sprintf("a%d", i+1), Ty: ty})
	}
	return ps
}

func (g gen) body(apps [][]string, min int) []Stmt { return g.bodyD(apps, min, 2) }

func (g gen) bodyD(apps [][]string, min, depth int) []Stmt {
	n := min + g.r.Intn(3)
	var b []Stmt
	for i := 0; i < n; i++ {
		switch k := g.r.Intn(10); {
		case k < 2:
			a := apps[g.r.Intn(len(apps))]
			b = append(b, Stmt{Kind: 1, Text: fmt.Sprintf("Ep%d", 1+g.r.Intn(3)), App: a})
		case k < 4:
			b = append(b, Stmt{Kind: 2, Text: []string{"ok <: string", "error <: int", "ok <: T1"}[g.r.Intn(3)]})
		case k < 6 && depth > 0:
			kw := []string{"if", "for", "loop", "alt", "while", "until", "for each", "group"}[g.r.Intn(8)]
			s := Stmt{Kind: 3, Kw: kw, Text: fmt.Sprintf("c%d", g.r.Intn(9)), Body: g.bodyD(apps, 1, depth-1)}
			b = append(b, s)
			if kw == "if" && g.r.Bool() {
				e := Stmt{Kind: 3, Kw: "else", Body: g.bodyD(apps, 1, depth-1)}
				if g.r.Chance(1, 3) {
					e.Text = fmt.Sprintf("c%d", g.r.Intn(9))
				}
				b = append(b, e)
			}
		case k < 7 && depth > 0:
			s := Stmt{Kind: 4}
			for c, nc := 0, 1+g.r.Intn(2); c < nc; c++ {
				s.Choices = append(s.Choices, Choice{Label: fmt.Sprintf("case%d", c), Body: g.bodyD(apps, 1, depth-1)})
			}
			b = append(b, s)
		default:
			b = append(b, Stmt{Kind: 0, Text: fmt.Sprintf("step%d", g.r.Intn(9))})
		}
	}
	return b
}

func (g gen) rest(apps [][]string, depth int, id *int) *RNode {
	n := &RNode{}
	ns := 1 + g.r.Intn(2)
	for i := 0; i < ns; i++ {
		*id++
		s := Seg{Name: fmt.Sprintf("p%d", *id)}
		if g.r.Chance(1, 4) {
			s = Seg{Name: fmt.Sprintf("v%d", *id), Ty: []string{"int", "string", "T1", "T1.f1", "Alpha.T1"}[g.r.Intn(5)]} // dotted references go through the listener's field map
		}
		n.PSegs = append(n.PSegs, s)
	}
	if g.r.Chance(1, 3) { // `/path [attrs]:` - every method below inherits them
		n.A = g.attrs([]string{"x", "z", "w"}, 2, 3)
	}
	if g.r.Chance(1, 5) {
		n.Annos = g.annos(1+g.r.Intn(2), map[string]bool{})
	}
	perm := g.r.Intn(len(verbs))
	nm := g.r.Intn(3)
	if depth == 0 && nm == 0 {
		nm = 1
	}
	for i := 0; i < nm; i++ {
		m := Method{Verb: verbs[(perm+i)%len(verbs)], A: g.attrs([]string{"x", "y"}, 1, 6), Body: g.body(apps, 1)}
		if g.r.Chance(1, 3) {
			m.Params = g.params(2)
		}
		if g.r.Chance(1, 3) {
			for q, nq := 0, 1+g.r.Intn(2); q < nq; q++ {
				m.Query = append(m.Query, Param{Name: fmt.Sprintf("q%d", q), Ty: prims[g.r.Intn(len(prims))], Opt: g.r.Chance(1, 3)})
			}
		}
		if g.r.Chance(1, 3) {
			m.Annos = g.annos(1+g.r.Intn(2), map[string]bool{})
			if g.r.Chance(1, 3) {
				// a method always has "patterns" (["rest"]): `@patterns = [..]` appends
				m.Annos = append(m.Annos, Anno{K: "patterns", IsArr: true, Arr: g.strs("pt", 1+g.r.Intn(2))})
			}
		}
		n.Methods = append(n.Methods, m)
	}
	if depth > 0 {
		k := g.r.Intn(3)
		if nm == 0 && k == 0 {
			k = 1
		}
		for i := 0; i < k; i++ {
			n.Subs = append(n.Subs, g.rest(apps, depth-1, id))
		}
	}
	return n
}

var mixPool = [][]string{{"Mx1"}, {"Mx2"}, {"Ns", "Mx3"}}
var aliasTys = []string{"int", "string", "T1", "sequence of string", "set of int", "date"}

func (g gen) spec(maxApps, maxMembers int) Spec {
	na := 1 + g.r.Intn(maxApps)
	perm := g.r.Intn(len(appPool))
	var names [][]string
	for i := 0; i < na; i++ {
		names = append(names, appPool[(perm+i)%len(appPool)])
	}
	var s Spec
	extra := map[int][]Member{} // members other apps get: the `<-> Evt: ...` a subscription refers to
	mixUsed := map[string]bool{}
	published := 0
	for i := 0; i < na; i++ {
		a := App{Parts: names[i], A: g.attrs([]string{"x", "y", "abstract"}, 2, 3)}
		if g.r.Chance(1, 3) {
			a.Long = fmt.Sprintf("Long name %d", g.r.Intn(5))
		}
		nm := g.r.Intn(maxMembers + 1)
		if nm < 2 && g.r.Chance(4, 5) {
			nm = 2 + g.r.Intn(2)
		}
		nt, ne, np, nv, nal, nu, rid, nvw := 0, 0, 0, 0, 0, 0, 0, 0
		appAnno := map[string]bool{}
		for j := 0; j < nm; j++ {
			switch k := g.r.Intn(20); {
			case k < 6: // type / table
				nt++
				m := Member{Kind: "type", Name: fmt.Sprintf("T%d", nt), A: g.attrs([]string{"x", "y"}, 2, 5)}
				if g.r.Chance(1, 4) {
					m.Name = fmt.Sprintf(oddTypeNames[g.r.Intn(len(oddTypeNames))], nt)
				}
				if g.r.Chance(3, 5) {
					m.Kind = "table"
				}
				nf := 1 + g.r.Intn(5)
				for f := 0; f < nf; f++ {
					fd := Field{Name: fmt.Sprintf("f%d", f+1), Ty: prims[g.r.Intn(len(prims))], Opt: g.r.Chance(1, 5), A: g.attrs([]string{"x", "y"}, 1, 6)}
					if g.r.Chance(1, 10) {
						fd.Name = fmt.Sprintf("f.%d", f+1)
					}
					if g.r.Chance(1, 10) {
						fd.Name = fmt.Sprintf("f-%d", f+1)
					}
					if g.r.Chance(1, 6) {
						fd.Ty = fmt.Sprintf("T%d", 1+g.r.Intn(3))
					}
					if g.r.Chance(2, 5) {
						fd.A.Tags = append([]string{"pk"}, fd.A.Tags...)
					}
					m.Fields = append(m.Fields, fd)
				}
				if g.r.Chance(1, 3) {
					m.Annos = g.annos(1+g.r.Intn(3), map[string]bool{})
				}
				a.Members = append(a.Members, m)
			case k < 7:
				ne++
				m := Member{Kind: "enum", Name: fmt.Sprintf("E%d", ne), A: g.attrs([]string{"x"}, 1, 6)}
				if g.r.Chance(1, 5) {
					m.Name = fmt.Sprintf("E.%d", ne)
				}
				ni := 1 + g.r.Intn(3)
				for f := 0; f < ni; f++ {
					m.Items = append(m.Items, Item{fmt.Sprintf("I%d", f), int64(g.r.Intn(100000))})
				}
				if g.r.Chance(1, 3) {
					m.Annos = g.annos(1, map[string]bool{})
				}
				a.Members = append(a.Members, m)
			case k < 8:
				nal++
				m := Member{Kind: "alias", Name: fmt.Sprintf("Al%d", nal), A: g.attrs([]string{"x"}, 1, 6), Ty: aliasTys[g.r.Intn(len(aliasTys))]}
				if g.r.Chance(1, 5) {
					m.Name = fmt.Sprintf("Al.%d", nal)
				}
				if g.r.Chance(1, 3) {
					m.Annos = g.annos(1, map[string]bool{})
				}
				a.Members = append(a.Members, m)
			case k < 9:
				nu++
				m := Member{Kind: "union", Name: fmt.Sprintf("U%d", nu), A: g.attrs([]string{"x"}, 1, 6)}
				if g.r.Chance(1, 5) {
					m.Name = fmt.Sprintf("U:%d", nu)
				}
				p := g.r.Intn(4)
				for x, nx := 0, g.r.Intn(4); x < nx; x++ {
					m.Alts = append(m.Alts, []string{"int", "T1", "string", "T2"}[(p+x)%4])
				}
				a.Members = append(a.Members, m)
			case k < 12:
				np++
				m := Member{Kind: "ep", Name: fmt.Sprintf("Ep%d", np), A: g.attrs([]string{"x", "y"}, 1, 5), Body: g.body(names, 1)}
				if g.r.Chance(1, 3) {
					m.Params = g.params(2)
				}
				if g.r.Chance(1, 3) {
					m.Annos = g.annos(1+g.r.Intn(2), map[string]bool{})
				}
				a.Members = append(a.Members, m)
			case k < 13:
				nv++
				m := Member{Kind: "event", Name: fmt.Sprintf("Ev%d", nv), Body: g.body(names, 1)}
				if g.r.Chance(1, 4) {
					m.Params = g.params(1)
				}
				if g.r.Chance(1, 3) {
					m.A = g.attrs([]string{"x", "y"}, 2, 3)
				}
				a.Members = append(a.Members, m)
			case k < 16:
				a.Members = append(a.Members, Member{Kind: "rest", Rest: g.rest(names, g.r.Intn(3), &rid)})
			case k < 17:
				t := mixPool[g.r.Intn(len(mixPool))]
				a.Members = append(a.Members, Member{Kind: "mixin", Target: t})
				mixUsed[strings.Join(t, " :: ")] = true
			case k < 18:
				// a subscription; every event has at most one subscriber (the well-formed streams)
				published++
				pub := []string{"Ext", "Pub"}
				pi := -1
				if g.r.Chance(2, 3) {
					pi = g.r.Intn(na)
					pub = names[pi]
				}
				m := Member{Kind: "sub", Target: pub, Name: fmt.Sprintf("Pb%d", published), A: g.attrs([]string{"x"}, 1, 6)}
				if g.r.Chance(1, 3) {
					m.Dots = true
				} else {
					m.Body = g.bodyD(names, 1, 1)
					if g.r.Chance(1, 3) {
						m.Annos = g.annos(1, map[string]bool{})
					}
				}
				a.Members = append(a.Members, m)
				if pi >= 0 && g.r.Chance(2, 3) {
					ev := Member{Kind: "event", Name: m.Name, Dots: true}
					if g.r.Chance(1, 3) {
						ev.A = g.attrs([]string{"x", "y"}, 2, 3)
					}
					extra[pi] = append(extra[pi], ev)
				}
			case k == 19: // an abstract view
				nvw++
				m := Member{Kind: "view", Name: fmt.Sprintf("Vw%d", nvw), Params: g.params(2), Ty: prims[g.r.Intn(len(prims))]}
				if len(m.Params) == 0 {
					m.Params = []Param{{Name: "a1", Ty: "int"}}
				}
				if g.r.Chance(1, 3) {
					m.Annos = g.annos(1, map[string]bool{})
				}
				a.Members = append(a.Members, m)
			default:
				if as := g.annos(1, appAnno); len(as) == 1 {
					a.Members = append(a.Members, Member{Kind: "anno", Anno: &as[0]})
				}
			}
		}
		s.Apps = append(s.Apps, a)
	}
	for i, ms := range extra {
		s.Apps[i].Members = append(s.Apps[i].Members, ms...)
	}
	// the applications mixed in: declared half of the time (abstract, endpoints only - see the "mixtypes" stream
	// for mixed-in types, which postProcess copies)
	for _, t := range mixPool {
		if mixUsed[strings.Join(t, " :: ")] && g.r.Bool() {
			s.Apps = append(s.Apps, App{Parts: t, A: Attrs{Tags: []string{"abstract"}},
				Members: []Member{{Kind: "ep", Name: "Shared", Body: []Stmt{{Kind: 0, Text: "step1"}}}}})
		}
	}
	return s
}

// addDups: declarations met again (outside the headline theorem's hypotheses, inside those of the order-preserving
// one): an annotation name set twice or named like a header attribute, an alias / union / enum declared twice, a field
// declared twice (the second time without ~pk), an endpoint declared twice, a second subscriber of an event
func (g gen) addDups(s Spec) Spec { return g.addDupsK(s, false) }

func isPrim(ty string) bool {
	for _, p := range prims {
		if p == ty {
			return true
		}
	}
	return false
}

// addDupsK: sameKind = a name set again keeps its kind of value (string / array).  mergo.Merge fails ("src and dst
// must be of same type") or panics (reflect.Set) when a compiled module brings a string where the module built so far
// has an array or the other way round; the model has no such outcome, so layouts with a compiled file avoid it.
func (g gen) addDupsK(s Spec, sameKind bool) Spec {
	for ai := range s.Apps {
		a := &s.Apps[ai]
		ms := append([]Member{}, a.Members...)
		for _, m := range a.Members {
			if !g.r.Chance(1, 3) {
				continue
			}
			switch m.Kind {
			case "anno":
				c := Anno{K: m.Anno.K, V: fmt.Sprintf("again %d", g.r.Intn(3))}
				if arr := g.r.Chance(1, 3); (arr && !sameKind) || (sameKind && m.Anno.IsArr) {
					c = Anno{K: m.Anno.K, IsArr: true, Arr: g.strs("h", 1+g.r.Intn(2))}
				}
				ms = append(ms, Member{Kind: "anno", Anno: &c})
			case "alias":
				ty := "bool"
				if sameKind && !isPrim(m.Ty) {
					ty = m.Ty // a reference met again as a primitive is one more "src and dst must be of same type"
				}
				ms = append(ms, Member{Kind: "alias", Name: m.Name, Ty: ty})
			case "union":
				ms = append(ms, Member{Kind: "union", Name: m.Name, Alts: []string{"date"}})
			case "enum":
				ms = append(ms, Member{Kind: "enum", Name: m.Name, Items: []Item{{"Z", 1}}})
			case "ep":
				c := m
				c.A, c.Annos = Attrs{}, nil
				c.Body, c.Params = g.body([][]string{a.Parts}, 1), g.params(1)
				ms = append(ms, c)
			case "sub":
				c := m
				c.Dots, c.Annos, c.Body = false, nil, g.bodyD([][]string{a.Parts}, 1, 0)
				ms = append(ms, c)
			case "mixin":
				ms = append(ms, m)
			case "view": // declared again: the view is replaced
				c := m
				c.Annos, c.Ty = nil, "bool"
				ms = append(ms, c)
			}
		}
		for mi, m := range ms {
			if (m.Kind == "type" || m.Kind == "table") && len(m.Fields) > 0 && g.r.Chance(1, 3) {
				f := m.Fields[g.r.Intn(len(m.Fields))]
				old := f.Ty
				f.Ty, f.Opt, f.A = prims[g.r.Intn(len(prims))], g.r.Chance(1, 3), g.attrs([]string{"x", "z"}, 2, 2)
				if sameKind && !isPrim(old) {
					f.Ty = old
				}
				ms[mi].Fields = append(append([]Field{}, m.Fields...), f)
				ms[mi].Annos = append(append([]Anno{}, m.Annos...), Anno{K: "desc", V: "by annotation"}, Anno{K: "note", V: "n1"}, Anno{K: "note", V: "n2"})
			}
		}
		if len(a.A.NV) > 0 && g.r.Chance(1, 2) { // an application annotation named like a header attribute
			ms = append(ms, Member{Kind: "anno", Anno: &Anno{K: a.A.NV[0].K, V: "by annotation"}})
		}
		a.Members = ms
	}
	return s
}

// mixTypes: an application mixes in an abstract application that declares types (postProcess copies them into the
// mixing application unless it has a type of that name) - also types the mixing application declares itself
func (g gen) mixTypes(s Spec) Spec {
	src := App{Parts: []string{"Mx1"}, A: Attrs{Tags: []string{"abstract"}}}
	for i, n := 0, 1+g.r.Intn(3); i < n; i++ {
		m := Member{Kind: "type", Name: fmt.Sprintf("T%d", 1+g.r.Intn(4)), Fields: []Field{{Name: "m1", Ty: "int"}, {Name: "m2", Ty: "string", A: Attrs{Tags: []string{"pk"}}}}}
		if g.r.Bool() {
			m.Kind = "table"
		}
		dup := false
		for _, x := range src.Members {
			dup = dup || x.Name == m.Name
		}
		if !dup {
			src.Members = append(src.Members, m)
		}
	}
	var apps []App
	for _, a := range s.Apps {
		if len(a.Parts) == 1 && a.Parts[0] == "Mx1" {
			continue
		}
		apps = append(apps, a)
	}
	k := g.r.Intn(len(apps))
	apps[k].Members = append(append([]Member{}, apps[k].Members...), Member{Kind: "mixin", Target: []string{"Mx1"}})
	s.Apps = append(apps, src)
	return s
}

// withPB: one imported leaf file of the layout is handed to the parser as a compiled module
func (g gen) withPB(l Layout) (Layout, bool) {
	imported := map[string]bool{}
	for _, f := range l.Files {
		for _, i := range f.Imports {
			imported[i] = true
		}
	}
	var leaves []int
	for i, f := range l.Files {
		if f.Name != l.Root && len(f.Imports) == 0 && imported[f.Name] {
			leaves = append(leaves, i)
		}
	}
	if len(leaves) == 0 {
		return l, false
	}
	k := leaves[g.r.Intn(len(leaves))]
	format := []string{"pb", "pb.json", "textpb"}[g.r.Intn(3)]
	oldName := l.Files[k].Name
	newName := strings.TrimSuffix(oldName, ".sysl") + "." + format
	files := make([]File, len(l.Files))
	for i, f := range l.Files {
		imps := make([]string, len(f.Imports))
		for j, im := range f.Imports {
			if im == oldName {
				im = newName
			}
			imps[j] = im
		}
		f.Imports = imps
		if i == k {
			f.Name, f.PB, f.Noise = newName, format, nil
		}
		files[i] = f
	}
	return Layout{Root: l.Root, Files: files}, true
}

func joined(s Spec) Layout {
	f := File{Name: "root.sysl"}
	for _, a := range s.Apps {
		f.Blocks = append(f.Blocks, Block{Parts: a.Parts, Long: a.Long, A: a.A, Members: a.Members})
	}
	return Layout{Root: "root.sysl", Files: []File{f}}
}

func shuffle[T any](r *common.Rng, xs []T) {
	for i := len(xs) - 1; i > 0; i-- {
		j := r.Intn(i + 1)
		xs[i], xs[j] = xs[j], xs[i]
	}
}

type splitOpts struct {
	maxBlocks, maxFiles int
	splitFields         bool // fields of one type / children of one REST tree over several blocks
	shape               int  // 0 random, 1 star, 2 chain
	ordered             bool // shares, blocks and files keep the declaration order (the key ORDER is then demanded too)
}

// split: a random layout of the specification (the well-formed stream: every member in exactly one block,
// attributes and long name on one block per app, type attributes on one share of the type)
func (g gen) split(s Spec, o splitOpts) Layout {
	type tagged struct {
		b      Block
		header bool
	}
	var blocks []tagged
	for _, a := range s.Apps {
		k := 1 + g.r.Intn(o.maxBlocks)
		if o.maxBlocks >= 3 && g.r.Chance(1, 2) {
			k = 3 + g.r.Intn(o.maxBlocks-2)
		}
		var pieces []Member
		for _, m := range a.Members {
			switch {
			case (m.Kind == "type" || m.Kind == "table") && o.splitFields && len(m.Fields) >= 2 && g.r.Chance(1, 2):
				nfr := 2 + g.r.Intn(2)
				if nfr > len(m.Fields) {
					nfr = len(m.Fields)
				}
				frs := make([]Member, nfr)
				for i := range frs {
					frs[i] = Member{Kind: m.Kind, Name: m.Name}
				}
				// every share gets at least one field; field order within a share follows the declaration
				assign := make([]int, len(m.Fields))
				for i := range assign {
					if i < nfr {
						assign[i] = i
					} else {
						assign[i] = g.r.Intn(nfr)
					}
				}
				shuffle(g.r, assign)
				if o.ordered {
					sort.Ints(assign) // contiguous shares in declaration order
				}
				for i, f := range m.Fields {
					frs[assign[i]].Fields = append(frs[assign[i]].Fields, f)
				}
				frs[g.r.Intn(nfr)].A = m.A
				// the annotations of the type go to any share (in declaration order when the split is ordered)
				aassign := make([]int, len(m.Annos))
				for i := range aassign {
					aassign[i] = g.r.Intn(nfr)
				}
				if o.ordered {
					sort.Ints(aassign)
					for i := range frs {
						frs[i].A = Attrs{}
					}
					frs[0].A = m.A // the header attributes stay on the first share, as in the joined form
				}
				for i, an := range m.Annos {
					frs[aassign[i]].Annos = append(frs[aassign[i]].Annos, an)
				}
				pieces = append(pieces, frs...)
			case m.Kind == "rest" && o.splitFields && len(m.Rest.Methods)+len(m.Rest.Subs) >= 2 && g.r.Chance(1, 2):
				// the attributes and annotations of the root path are not members: both halves repeat them
				r1 := &RNode{Segs: m.Rest.Segs, PSegs: m.Rest.PSegs, A: m.Rest.A, Annos: m.Rest.Annos}
				r2 := &RNode{Segs: m.Rest.Segs, PSegs: m.Rest.PSegs, A: m.Rest.A, Annos: m.Rest.Annos}
				n := 0
				total := len(m.Rest.Methods) + len(m.Rest.Subs)
				first := g.r.Intn(total) // this child goes to r1, the next to r2, the others at random
				pick := func() *RNode {
					defer func() { n++ }()
					switch {
					case n == first:
						return r1
					case n == (first+1)%total:
						return r2
					case g.r.Bool():
						return r1
					}
					return r2
				}
				for _, me := range m.Rest.Methods {
					p := pick()
					p.Methods = append(p.Methods, me)
				}
				for _, su := range m.Rest.Subs {
					p := pick()
					p.Subs = append(p.Subs, su)
				}
				pieces = append(pieces, Member{Kind: "rest", Rest: r1}, Member{Kind: "rest", Rest: r2})
			default:
				pieces = append(pieces, m)
			}
		}
		// the first k pieces (in random order) open one block each, the others go anywhere
		if !o.ordered {
			shuffle(g.r, pieces)
		}
		if k > len(pieces) {
			k = len(pieces)
		}
		if k == 0 {
			k = 1
		}
		bs := make([]Block, k)
		for i := range bs {
			bs[i].Parts = a.Parts
		}
		for i, pc := range pieces {
			bi := g.r.Intn(k)
			if i < k {
				bi = i
			}
			if o.ordered {
				bi = i * k / len(pieces)
			}
			bs[bi].Members = append(bs[bi].Members, pc)
		}
		// a block without members could only be written with `...`, which itself declares an endpoint:
		// empty blocks are dropped and the header moves to the first block that has members
		var ne []Block
		for _, b := range bs {
			if len(b.Members) > 0 {
				ne = append(ne, b)
			}
		}
		if len(ne) == 0 {
			ne = bs[:1]
		}
		ne[0].Long, ne[0].A = a.Long, a.A
		for i, b := range ne {
			if !o.ordered {
				shuffle(g.r, b.Members)
			}
			blocks = append(blocks, tagged{b, i == 0})
		}
	}
	if o.ordered {
		// contiguous runs of the block list over the files of a chain or an in-order star
		nf := 1 + g.r.Intn(o.maxFiles)
		if nf > len(blocks) {
			nf = len(blocks)
		}
		files := make([]File, nf)
		for i := range files {
			files[i].Name = fmt.Sprintf("f%d.sysl", i)
		}
		files[0].Name = "root.sysl"
		for i, b := range blocks {
			fi := i * nf / len(blocks)
			files[fi].Blocks = append(files[fi].Blocks, b.b)
		}
		star := g.r.Bool()
		for i := 1; i < nf; i++ {
			if star {
				files[0].Imports = append(files[0].Imports, files[i].Name)
			} else {
				files[i-1].Imports = append(files[i-1].Imports, files[i].Name)
			}
		}
		for i := range files {
			g.noise(&files[i])
		}
		return g.respell(Layout{Root: "root.sysl", Files: files})
	}
	nf := 1 + g.r.Intn(o.maxFiles)
	if nf == 1 && o.maxFiles > 1 && g.r.Chance(2, 3) {
		nf = 2 + g.r.Intn(o.maxFiles-1)
	}
	if nf > len(blocks) {
		nf = len(blocks)
	}
	files := make([]File, nf)
	for i := range files {
		files[i].Name = fmt.Sprintf("f%d.sysl", i)
	}
	files[0].Name = "root.sysl"
	// headers first in the root most of the time, otherwise anywhere
	order := make([]int, len(blocks))
	for i := range order {
		order[i] = i
	}
	shuffle(g.r, order)
	headersFirst := g.r.Chance(3, 4)
	placed := 0
	for _, bi := range order {
		fi := g.r.Intn(nf)
		if placed < nf {
			fi = placed // every file gets at least one block
		}
		placed++
		if blocks[bi].header && headersFirst && g.r.Chance(2, 3) {
			files[0].Blocks = append([]Block{blocks[bi].b}, files[0].Blocks...)
			if fi != 0 && len(files[fi].Blocks) == 0 {
				placed-- // the slot is still empty
			}
			continue
		}
		files[fi].Blocks = append(files[fi].Blocks, blocks[bi].b)
	}
	// files left empty (their block was moved to the root) are dropped
	var kept []File
	for _, f := range files {
		if len(f.Blocks) > 0 || f.Name == "root.sysl" {
			kept = append(kept, f)
		}
	}
	files = kept
	if len(files[0].Blocks) == 0 {
		// the root must declare something: take a block from the last file
		last := &files[len(files)-1]
		files[0].Blocks = append(files[0].Blocks, last.Blocks[len(last.Blocks)-1])
		last.Blocks = last.Blocks[:len(last.Blocks)-1]
		if len(last.Blocks) == 0 {
			files = files[:len(files)-1]
		}
	}
	nf = len(files)
	// import graph: every file reachable from the root
	shape := o.shape
	if shape == 0 {
		shape = 1 + g.r.Intn(3)
	}
	switch shape {
	case 1: // star
		for i := 1; i < nf; i++ {
			files[0].Imports = append(files[0].Imports, files[i].Name)
		}
	case 2: // chain
		for i := 1; i < nf; i++ {
			files[i-1].Imports = append(files[i-1].Imports, files[i].Name)
		}
	default: // random tree plus extra edges (diamonds, back edges)
		for i := 1; i < nf; i++ {
			p := g.r.Intn(i)
			files[p].Imports = append(files[p].Imports, files[i].Name)
		}
		for e := g.r.Intn(3); e > 0 && nf > 1; e-- {
			a, b := g.r.Intn(nf), g.r.Intn(nf)
			dup := a == b
			for _, x := range files[a].Imports {
				if x == files[b].Name {
					dup = true
				}
			}
			if !dup {
				files[a].Imports = append(files[a].Imports, files[b].Name)
			}
		}
	}
	for i := range files {
		shuffle(g.r, files[i].Imports)
		g.noise(&files[i])
	}
	return g.respell(Layout{Root: "root.sysl", Files: files})
}

// respell: every occurrence of an application / type / table / enum / alias / union / field name and of the static
// segments of a REST path may be written with one more %XX escape than needed (`a%2Db` for `a-b`): the same name
func (g gen) respell(l Layout) Layout {
	v := func() int {
		if g.r.Chance(1, 4) {
			return 1 + g.r.Intn(6)
		}
		return 0
	}
	var rest func(r *RNode) *RNode
	rest = func(r *RNode) *RNode {
		c := *r
		c.Sp = v()
		c.Subs = nil
		for _, s := range r.Subs {
			c.Subs = append(c.Subs, rest(s))
		}
		return &c
	}
	for fi := range l.Files {
		for bi := range l.Files[fi].Blocks {
			b := &l.Files[fi].Blocks[bi]
			b.Sp = v()
			ms := make([]Member, len(b.Members))
			for mi, m := range b.Members {
				switch m.Kind {
				case "type", "table", "enum", "alias", "union":
					m.Sp = v()
					fs := make([]Field, len(m.Fields))
					for i, f := range m.Fields {
						f.Sp = v()
						fs[i] = f
					}
					m.Fields = fs
				case "rest":
					m.Rest = rest(m.Rest)
				}
				ms[mi] = m
			}
			b.Members = ms
		}
	}
	return l
}

var noiseLines = []string{"", "", "   ", "\t", "# a comment", "#", "    # an indented comment", "  #import nothing", "        "}

// noise: the layout of the import section of a file - nothing in it carries meaning
func (g gen) noise(f *File) {
	if g.r.Chance(1, 4) {
		return // the tidy layout
	}
	f.Noise = make([][]string, len(f.Imports)+1)
	for i := range f.Noise {
		for n := g.r.Intn(3); n > 0; n-- {
			f.Noise[i] = append(f.Noise[i], noiseLines[g.r.Intn(len(noiseLines))])
		}
	}
}

// hostile: layouts outside the theorem's hypotheses (only the correspondence speaks about them): attributes on
// several blocks of one app / one type, the same endpoint in two blocks, a type re-declared with the other kind
// or as an enum, repeated ~pk
func (g gen) hostile(s Spec) Layout {
	l := g.split(s, splitOpts{maxBlocks: 4, maxFiles: 3, splitFields: true})
	for fi := range l.Files {
		for bi := range l.Files[fi].Blocks {
			b := &l.Files[fi].Blocks[bi]
			if g.r.Chance(1, 2) {
				b.A = g.attrs([]string{"x", "y", "z"}, 2, 2)
			}
			if g.r.Chance(1, 4) {
				b.Long = fmt.Sprintf("Other long %d", g.r.Intn(3))
			}
			n := len(b.Members)
			for mi := 0; mi < n; mi++ {
				m := &b.Members[mi]
				switch m.Kind {
				case "type", "table":
					if g.r.Chance(1, 2) {
						m.A = g.attrs([]string{"x", "y", "z"}, 2, 2)
					}
					if g.r.Chance(1, 6) {
						if m.Kind == "type" {
							m.Kind = "table"
						} else {
							m.Kind = "type"
						}
					}
					if g.r.Chance(1, 8) && len(m.Fields) > 0 {
						m.Fields[0].A.Tags = append(m.Fields[0].A.Tags, "pk", "pk")
					}
					if g.r.Chance(1, 3) && len(m.Fields) > 0 { // a field declared again (here, or in another share of the type)
						f := m.Fields[g.r.Intn(len(m.Fields))]
						f.Ty, f.Opt, f.A = prims[g.r.Intn(len(prims))], g.r.Chance(1, 3), g.attrs([]string{"x", "z", "pk"}, 2, 2)
						m.Fields = append(append([]Field{}, m.Fields...), f)
					}
					if g.r.Chance(1, 4) { // annotations again, and one named like a header attribute
						m.Annos = append(append([]Anno{}, m.Annos...), g.annos(2, map[string]bool{})...)
						m.Annos = append(m.Annos, Anno{K: "desc", V: "by annotation"})
					}
					if g.r.Chance(1, 10) {
						b.Members = append(b.Members, Member{Kind: "enum", Name: m.Name, Items: []Item{{"Z", 1}}})
					}
				case "anno":
					if g.r.Chance(1, 2) { // the same name again, another value (also an empty one, also the other kind)
						c := Anno{K: m.Anno.K, V: fmt.Sprintf("again %d", g.r.Intn(3))}
						switch g.r.Intn(4) {
						case 0:
							c.V = ""
						case 1:
							c.IsArr, c.Arr = true, g.strs("h", g.r.Intn(3))
						}
						b.Members = append(b.Members, Member{Kind: "anno", Anno: &c})
					}
				case "alias", "union":
					switch g.r.Intn(6) {
					case 0: // declared again
						b.Members = append(b.Members, Member{Kind: "alias", Name: m.Name, Ty: "bool", A: g.attrs([]string{"z"}, 1, 3)})
					case 1:
						b.Members = append(b.Members, Member{Kind: "union", Name: m.Name, Alts: []string{"date"}})
					case 2: // a table of that name: only its attributes and annotations arrive
						b.Members = append(b.Members, Member{Kind: "table", Name: m.Name, A: g.attrs([]string{"z"}, 1, 2), Annos: g.annos(1, map[string]bool{}),
							Fields: []Field{{Name: "q", Ty: "int", A: Attrs{Tags: []string{"pk"}}}}})
					}
				case "mixin":
					if g.r.Chance(1, 3) {
						b.Members = append(b.Members, *m)
					}
				case "sub":
					if g.r.Chance(1, 3) { // subscribed again: the subscriber's endpoint is replaced, the publisher is called twice
						c := *m
						c.Dots, c.Annos, c.Body = false, nil, g.bodyD([][]string{b.Parts}, 1, 0)
						b.Members = append(b.Members, c)
					}
				case "ep", "event":
					if m.Kind == "ep" && g.r.Chance(1, 4) { // an annotation named like a header attribute, an annotation twice
						m.Annos = append(append([]Anno{}, m.Annos...), Anno{K: "owner", V: "by annotation"}, Anno{K: "note", V: "twice"})
					}
					if g.r.Chance(1, 3) {
						c := *m
						c.Dots = false
						c.Body = g.body([][]string{b.Parts}, 1)
						if g.r.Chance(1, 3) {
							if c.Kind == "ep" {
								c.Kind, c.A = "event", g.attrs([]string{"x", "z"}, 1, 2) // an event's attributes REPLACE the endpoint's
							} else {
								c.Kind = "ep"
							}
						}
						b.Members = append(b.Members, c)
					}
				case "enum":
					if g.r.Chance(1, 4) {
						b.Members = append(b.Members, Member{Kind: "table", Name: m.Name, A: g.attrs([]string{"x"}, 1, 3), Fields: []Field{{Name: "q", Ty: "int", A: Attrs{Tags: []string{"pk"}}}}})
					}
				case "rest":
					if g.r.Chance(1, 4) {
						b.Members = append(b.Members, *m)
					}
				}
			}
		}
	}
	return l
}

// ---------------------------------------------------------------- corpus of earlier findings (runs first)

func corpusCases() []replay {
	tbl := func(fields ...Field) Member { return Member{Kind: "table", Name: "T", Fields: fields} }
	pk := Attrs{Tags: []string{"pk"}}
	a, b, cc := Field{Name: "a", Ty: "int", A: pk}, Field{Name: "b", Ty: "int", A: pk}, Field{Name: "c", Ty: "string"}
	one := func(bl ...Block) Layout { return Layout{Root: "root.sysl", Files: []File{{Name: "root.sysl", Blocks: bl}}} }
	app := []string{"App"}
	ep := func(n string) Member { return Member{Kind: "ep", Name: n, Body: []Stmt{{Kind: 0, Text: "step1"}}} }
	ty := func(n string) Member { return Member{Kind: "type", Name: n, Fields: []Field{{Name: "x", Ty: "int"}}} }
	anno := func(k, v string) Member { return Member{Kind: "anno", Anno: &Anno{K: k, V: v}} }
	annoArr := func(k string, vs ...string) Member { return Member{Kind: "anno", Anno: &Anno{K: k, IsArr: true, Arr: vs}} }
	rest := func(seg string, sub string, verb string) Member {
		return Member{Kind: "rest", Rest: &RNode{Segs: []string{seg}, Subs: []*RNode{{Segs: []string{sub}, Methods: []Method{{Verb: verb, Body: []Stmt{{Kind: 0, Text: "step1"}}}}}}}}
	}
	return []replay{
		// the primary key of a table whose key fields are split over two blocks (design round finding)
		{Note: "pk split {a,c}|{b}", Joined: one(Block{Parts: app, Members: []Member{tbl(a, b, cc)}}),
			Split: one(Block{Parts: app, Members: []Member{tbl(a, cc)}}, Block{Parts: app, Members: []Member{tbl(b)}})},
		// three blocks, types introduced in the earlier ones (Appendix B)
		{Note: "three blocks", Joined: one(Block{Parts: app, Members: []Member{ty("T1"), ty("T2"), ep("Ep1"), ty("T3")}}),
			Split: one(Block{Parts: app, Members: []Member{ty("T1")}}, Block{Parts: app, Members: []Member{ty("T2"), ep("Ep1")}}, Block{Parts: app, Members: []Member{ty("T3")}})},
		// a type whose name needs %XX in the source, fields spread over two blocks (seeded change C04_b_1)
		{Note: "encoded type name split over two blocks",
			Joined: one(Block{Parts: app, Members: []Member{{Kind: "type", Name: "Order.Line", Fields: []Field{{Name: "x", Ty: "int"}, {Name: "y", Ty: "string"}}}}}),
			Split: one(Block{Parts: app, Members: []Member{{Kind: "type", Name: "Order.Line", Fields: []Field{{Name: "x", Ty: "int"}}}}},
				Block{Parts: app, Members: []Member{{Kind: "type", Name: "Order.Line", Fields: []Field{{Name: "y", Ty: "string"}}}}})},
		// REST sub-trees in re-opening blocks in imported files (Appendix B)
		{Note: "rest sub-trees in imported re-opening blocks",
			Joined: one(Block{Parts: app, Members: []Member{rest("u", "a", "GET"), rest("u", "b", "POST"), rest("v", "c", "GET")}}),
			Split: Layout{Root: "root.sysl", Files: []File{
				{Name: "root.sysl", Imports: []string{"f1.sysl"}, Blocks: []Block{{Parts: app, Members: []Member{rest("u", "a", "GET")}}}},
				{Name: "f1.sysl", Blocks: []Block{{Parts: app, Members: []Member{rest("u", "b", "POST")}}, {Parts: app, Members: []Member{rest("v", "c", "GET")}}}}}}},
		// round 3: annotations of the application and of a type over two blocks
		{Note: "annotations over two blocks",
			Joined: one(Block{Parts: app, A: Attrs{NV: []NV{{"owner", "me"}}, Tags: []string{"abstract"}}, Members: []Member{anno("note", "n1"), annoArr("langs", "go", "coq"),
				{Kind: "type", Name: "T", A: Attrs{Tags: []string{"x"}}, Annos: []Anno{{K: "team", V: "t"}, {K: "since", V: ""}}, Fields: []Field{{Name: "x", Ty: "int"}, {Name: "y", Ty: "string"}}}}}),
			Split: one(Block{Parts: app, Members: []Member{annoArr("langs", "go", "coq"), {Kind: "type", Name: "T", Annos: []Anno{{K: "since", V: ""}}, Fields: []Field{{Name: "y", Ty: "string"}}}}},
				Block{Parts: app, A: Attrs{NV: []NV{{"owner", "me"}}, Tags: []string{"abstract"}}, Members: []Member{{Kind: "type", Name: "T", A: Attrs{Tags: []string{"x"}}, Annos: []Anno{{K: "team", V: "t"}}, Fields: []Field{{Name: "x", Ty: "int"}}}, anno("note", "n1")}})},
		// alias, union, enum in re-opening blocks of an imported file; mixins in two blocks, the other way round
		{Note: "alias / union / enum / mixins in re-opening blocks",
			Joined: one(Block{Parts: app, Members: []Member{ty("T1"), {Kind: "alias", Name: "Al", Ty: "sequence of string"}, {Kind: "union", Name: "U", Alts: []string{"int", "T1"}},
				{Kind: "enum", Name: "E", Items: []Item{{"A", 1}}}, {Kind: "mixin", Target: []string{"Mx1"}}, {Kind: "mixin", Target: []string{"Ns", "Mx3"}}}}),
			Split: Layout{Root: "root.sysl", Files: []File{
				{Name: "root.sysl", Imports: []string{"f1.sysl"}, Blocks: []Block{{Parts: app, Members: []Member{{Kind: "mixin", Target: []string{"Ns", "Mx3"}}, {Kind: "union", Name: "U", Alts: []string{"int", "T1"}}}}}},
				{Name: "f1.sysl", Blocks: []Block{{Parts: app, Members: []Member{{Kind: "enum", Name: "E", Items: []Item{{"A", 1}}}, {Kind: "mixin", Target: []string{"Mx1"}}}},
					{Parts: app, Members: []Member{{Kind: "alias", Name: "Al", Ty: "sequence of string"}, ty("T1")}}}}}}},
		// a subscription in a re-opening block of an imported file; the publisher declares the event with `...`
		{Note: "subscription in an imported re-opening block",
			Joined: one(Block{Parts: app, Members: []Member{ep("Ep1"), {Kind: "sub", Target: []string{"Pub"}, Name: "Evt", Body: []Stmt{{Kind: 0, Text: "step1"}}}}},
				Block{Parts: []string{"Pub"}, Members: []Member{{Kind: "event", Name: "Evt", Dots: true}}}),
			Split: Layout{Root: "root.sysl", Files: []File{
				{Name: "root.sysl", Imports: []string{"f1.sysl"}, Blocks: []Block{{Parts: app, Members: []Member{ep("Ep1")}}}},
				{Name: "f1.sysl", Blocks: []Block{{Parts: app, Members: []Member{{Kind: "sub", Target: []string{"Pub"}, Name: "Evt", Body: []Stmt{{Kind: 0, Text: "step1"}}}}},
					{Parts: []string{"Pub"}, Members: []Member{{Kind: "event", Name: "Evt", Dots: true}}}}}}}},
		// an endpoint with parameters and nested statements re-opened in a later block: parameters and statements appended
		{Note: "endpoint with parameters and nested statements re-opened",
			Joined: one(Block{Parts: app, Members: []Member{
				{Kind: "ep", Name: "Ep1", Params: []Param{{Name: "a", Ty: "int"}}, Body: []Stmt{{Kind: 3, Kw: "if", Text: "c", Body: []Stmt{{Kind: 0, Text: "step1"}}}, {Kind: 3, Kw: "else", Body: []Stmt{{Kind: 2, Text: "ok <: string"}}}}},
				{Kind: "ep", Name: "Ep1", Params: []Param{{Name: "b", Ty: "T1"}}, Body: []Stmt{{Kind: 4, Choices: []Choice{{Label: "case1", Body: []Stmt{{Kind: 0, Text: "step2"}}}}}, {Kind: 3, Kw: "while", Text: "w", Body: []Stmt{{Kind: 0, Text: "step3"}}}}}}}),
			Split: one(Block{Parts: app, Members: []Member{
				{Kind: "ep", Name: "Ep1", Params: []Param{{Name: "a", Ty: "int"}}, Body: []Stmt{{Kind: 3, Kw: "if", Text: "c", Body: []Stmt{{Kind: 0, Text: "step1"}}}, {Kind: 3, Kw: "else", Body: []Stmt{{Kind: 2, Text: "ok <: string"}}}}}}},
				Block{Parts: app, Members: []Member{
					{Kind: "ep", Name: "Ep1", Params: []Param{{Name: "b", Ty: "T1"}}, Body: []Stmt{{Kind: 4, Choices: []Choice{{Label: "case1", Body: []Stmt{{Kind: 0, Text: "step2"}}}}}, {Kind: 3, Kw: "while", Text: "w", Body: []Stmt{{Kind: 0, Text: "step3"}}}}}}})},
		// REST path with a typed variable and query parameters re-opened in another block with another method
		{Note: "rest path with typed variable re-opened",
			Joined: one(Block{Parts: app, Members: []Member{{Kind: "rest", Rest: &RNode{PSegs: []Seg{{Name: "items"}, {Name: "id", Ty: "int"}}, Methods: []Method{
				{Verb: "GET", Query: []Param{{Name: "q", Ty: "string", Opt: true}}, Body: []Stmt{{Kind: 0, Text: "step1"}}},
				{Verb: "PUT", Params: []Param{{Name: "b", Ty: "T1"}}, Annos: []Anno{{K: "patterns", IsArr: true, Arr: []string{"extra"}}}, Body: []Stmt{{Kind: 0, Text: "step2"}}}}}}}}),
			Split: one(Block{Parts: app, Members: []Member{{Kind: "rest", Rest: &RNode{PSegs: []Seg{{Name: "items"}, {Name: "id", Ty: "int"}}, Methods: []Method{
				{Verb: "PUT", Params: []Param{{Name: "b", Ty: "T1"}}, Annos: []Anno{{K: "patterns", IsArr: true, Arr: []string{"extra"}}}, Body: []Stmt{{Kind: 0, Text: "step2"}}}}}}}},
				Block{Parts: app, Members: []Member{{Kind: "rest", Sp: 0, Rest: &RNode{PSegs: []Seg{{Name: "items"}, {Name: "id", Ty: "int"}}, Sp: 2, Methods: []Method{
					{Verb: "GET", Query: []Param{{Name: "q", Ty: "string", Opt: true}}, Body: []Stmt{{Kind: 0, Text: "step1"}}}}}}}})},
		// round 3, second pass: an event with attributes that a subscription in an EARLIER file has already created;
		// a REST path with attributes and an annotation split at the root over two files; views in two blocks
		{Note: "event attributes after a subscription, rest path attributes split at the root, views in two blocks",
			Joined: one(Block{Parts: app, Members: []Member{
				{Kind: "sub", Target: []string{"Pub"}, Name: "Evt", Body: []Stmt{{Kind: 0, Text: "step1"}}},
				{Kind: "rest", Rest: &RNode{PSegs: []Seg{{Name: "items"}}, A: Attrs{Tags: []string{"x"}, NV: []NV{{"owner", "me"}}}, Annos: []Anno{{K: "team", V: "t"}},
					Methods: []Method{{Verb: "GET", Body: []Stmt{{Kind: 0, Text: "step1"}}}},
					Subs:    []*RNode{{PSegs: []Seg{{Name: "id", Ty: "int"}}, A: Attrs{Tags: []string{"z"}}, Methods: []Method{{Verb: "PUT", A: Attrs{Tags: []string{"y"}}, Body: []Stmt{{Kind: 0, Text: "step2"}}}}}}}},
				{Kind: "view", Name: "V1", Params: []Param{{Name: "a", Ty: "int"}}, Ty: "string"},
				{Kind: "view", Name: "V2", Params: []Param{{Name: "a", Ty: "T1"}, {Name: "b", Ty: "bool"}}, Ty: "int", Annos: []Anno{{K: "note", V: "n1"}}}}},
				Block{Parts: []string{"Pub"}, Members: []Member{{Kind: "event", Name: "Evt", Dots: true, A: Attrs{Tags: []string{"y"}, NV: []NV{{"desc", "d"}}}}}}),
			Split: Layout{Root: "root.sysl", Files: []File{
				{Name: "root.sysl", Imports: []string{"f1.sysl"}, Blocks: []Block{
					{Parts: app, Members: []Member{
						{Kind: "sub", Target: []string{"Pub"}, Name: "Evt", Body: []Stmt{{Kind: 0, Text: "step1"}}},
						{Kind: "view", Name: "V2", Params: []Param{{Name: "a", Ty: "T1"}, {Name: "b", Ty: "bool"}}, Ty: "int", Annos: []Anno{{K: "note", V: "n1"}}},
						{Kind: "rest", Rest: &RNode{PSegs: []Seg{{Name: "items"}}, A: Attrs{Tags: []string{"x"}, NV: []NV{{"owner", "me"}}}, Annos: []Anno{{K: "team", V: "t"}},
							Subs: []*RNode{{PSegs: []Seg{{Name: "id", Ty: "int"}}, A: Attrs{Tags: []string{"z"}}, Methods: []Method{{Verb: "PUT", A: Attrs{Tags: []string{"y"}}, Body: []Stmt{{Kind: 0, Text: "step2"}}}}}}}}}}}},
				{Name: "f1.sysl", Blocks: []Block{
					{Parts: []string{"Pub"}, Members: []Member{{Kind: "event", Name: "Evt", Dots: true, A: Attrs{Tags: []string{"y"}, NV: []NV{{"desc", "d"}}}}}},
					{Parts: app, Members: []Member{
						{Kind: "rest", Rest: &RNode{PSegs: []Seg{{Name: "items"}}, A: Attrs{Tags: []string{"x"}, NV: []NV{{"owner", "me"}}}, Annos: []Anno{{K: "team", V: "t"}},
							Methods: []Method{{Verb: "GET", Body: []Stmt{{Kind: 0, Text: "step1"}}}}}},
						{Kind: "view", Name: "V1", Params: []Param{{Name: "a", Ty: "int"}}, Ty: "string"}}}}}}}},
		// a table whose fields are split between Sysl text and a compiled module, all key fields in the compiled one
		// (C04_pb_hypotheses_met_split_table); the other way round is the known finding pb-import:pk-split-across-blocks
		{Note: "table split between root.sysl and a compiled module, key fields in the module",
			Joined: one(Block{Parts: app, Members: []Member{tbl(cc, a, b)}}),
			Split: Layout{Root: "root.sysl", Files: []File{
				{Name: "root.sysl", Imports: []string{"f1.pb"}, Blocks: []Block{{Parts: app, Members: []Member{tbl(cc)}}}},
				{Name: "f1.pb", PB: "pb", Blocks: []Block{{Parts: app, Members: []Member{tbl(a, b)}}}}}}},
		// the same names spelled with and without %XX: a table with key fields over two blocks, an enum, the application
		{Note: "literal and escaped spellings of one name",
			Joined: one(Block{Parts: []string{"My-App"}, Members: []Member{{Kind: "table", Name: "Order-Line", Fields: []Field{{Name: "k-1", Ty: "int", A: pk}, {Name: "k-2", Ty: "int", A: pk}}},
				{Kind: "enum", Name: "Colour", Items: []Item{{"A", 1}}}}}),
			Split: one(Block{Parts: []string{"My-App"}, Sp: 2, Members: []Member{{Kind: "table", Name: "Order-Line", Sp: 5, Fields: []Field{{Name: "k-1", Ty: "int", A: pk, Sp: 1}}}}},
				Block{Parts: []string{"My-App"}, Members: []Member{{Kind: "enum", Name: "Colour", Sp: 3, Items: []Item{{"A", 1}}}, {Kind: "table", Name: "Order-Line", Fields: []Field{{Name: "k-2", Ty: "int", A: pk, Sp: 1}}}}})},
	}
}

// ---------------------------------------------------------------- main

func stats(c *common.Ctx, l Layout) (nontrivial bool) {
	nb, nfr := 0, map[string]int{}
	for _, f := range l.Files {
		nb += len(f.Blocks)
		for _, b := range f.Blocks {
			for _, m := range b.Members {
				if m.Kind == "type" || m.Kind == "table" {
					nfr[strings.Join(b.Parts, "::")+"."+m.Name]++
				}
			}
		}
	}
	c.Hist(fmt.Sprintf("files:%d", len(l.Files)))
	if nb >= 6 {
		c.Hist("blocks:6+")
	} else {
		c.Hist(fmt.Sprintf("blocks:%d", nb))
	}
	for _, n := range nfr {
		if n >= 2 {
			c.Hist("type-split-over-blocks")
			break
		}
	}
	return nb >= 2
}

func main() {
	logrus.SetLevel(logrus.PanicLevel)
	if common.IsWorker() {
		common.ServeWorker(compileInWorker)
		return
	}
	c := common.Setup("C04")
	defer c.Finish()
	c.Res.Rule = "each case = one abstract specification (1-3 apps + mixed-in / publishing apps; types/tables with ~pk fields and annotations, enums, aliases, unions, simple endpoints with parameters / annotations / nested statements, events, REST trees with typed path variables, query parameters and method annotations, mixins, subscriptions, application annotations; attributes (strings, arrays, tags) and long name on the header block) written JOINED and SPLIT (members, fields and annotations of one type and children of one REST tree partitioned into 1-5 blocks per app, blocks assigned to 1-4 files of a star / chain / random import graph, blocks and import statements permuted, names of applications / types / fields / path segments re-spelled with extra %XX escapes); both compiled by the real parser; distinct = distinct split text; non-trivial = the split form has at least two blocks"
	if c.Replay != "" {
		var rp replay
		if err := common.LoadReplay(c.Replay, &rp); err != nil {
			fmt.Fprintln(os.Stderr, err)
			os.Exit(3)
		}
		r := compileAll([]Layout{rp.Split, rp.Joined})
		judge(c, rp, r[0].m, r[1].m, r[0].err, r[1].err)
		c.Count("replay", true)
		for n, t := range render(rp.Split) {
			fmt.Printf("---- split %s\n%s", n, t)
		}
		for n, t := range render(rp.Joined) {
			fmt.Printf("---- joined %s\n%s", n, t)
		}
		fmt.Printf("replay: failures=%d\n", len(c.Res.Failures))
		for _, f := range c.Res.Failures {
			fmt.Printf("  %s: %s\n", f.Key, f.What)
		}
		return
	}
	header := `From Coq Require Import String List ZArith NArith PArith Bool. From stdpp Require Import gmap. Import ListNotations.
Require Import Verif.Merge.Model Verif.Merge.Run Verif.Gen.MergeRules Verif.Base.Harness.
Local Open Scope positive_scope.`
	footer := `Definition M := Eval vm_compute in mismatches (c04_ok pk_mode) cases. Print M.`
	per := 60
	if c.Thorough() {
		per = 900
	}
	cs := c.NewCases("C04", header, "c04_case", footer, per)
	g := gen{c.Rng}

	texts := func(l Layout) string {
		b, _ := json.Marshal(render(l))
		return string(b)
	}
	type job struct {
		stream      string
		rp          replay
		joinedToCoq bool
	}
	var jobs []job
	for _, rp := range corpusCases() {
		jobs = append(jobs, job{"corpus", rp, true})
	}
	n := 280
	nh := 100
	if c.Thorough() {
		n, nh = 5000, 1500
	}
	if c.Search {
		n, nh = n*4, 0
	}
	for i := 0; i < n; i++ {
		var s Spec
		var o splitOpts
		switch i % 4 {
		case 0: // small: one app, few members, many blocks - every partition shape turns up
			s = g.spec(1, 4)
			o = splitOpts{maxBlocks: 5, maxFiles: 3, splitFields: true}
		case 1:
			s = g.spec(3, 7)
			o = splitOpts{maxBlocks: 4, maxFiles: 4, splitFields: true}
		case 2: // order-preserving splits: shares, blocks and files in declaration order - key order is compared too
			s = g.spec(2, 6)
			o = splitOpts{maxBlocks: 4, maxFiles: 4, splitFields: true, ordered: true}
			if i%8 == 2 { // members only (no field-level split), chains
				o = splitOpts{maxBlocks: 4, maxFiles: 4, splitFields: false, shape: 2}
			} else if i%16 == 6 {
				// declarations met again: an order-preserving layout must still compile like the joined form
				s = g.addDups(s)
				c.Hist("ordered-with-redeclarations")
			}
		default:
			s = g.spec(2, 8)
			o = splitOpts{maxBlocks: 5, maxFiles: 4, splitFields: true, shape: 1 + g.r.Intn(3)}
		}
		jobs = append(jobs, job{"split", replay{Split: g.split(s, o), Joined: joined(s)}, i%5 == 0})
	}
	// oracle only (postProcess / mergo are outside the model): mixed-in applications WITH types, and layouts in which
	// an imported file is handed over as a compiled module
	nmix, npb, npbh := 30, 40, 70
	if c.Thorough() {
		nmix, npb, npbh = 400, 600, 500
	}
	if c.Search {
		nmix, npb, npbh = nmix*2, npb*2, 0
	}
	for i := 0; i < nmix; i++ {
		s := g.mixTypes(g.spec(2, 5))
		jobs = append(jobs, job{"mixtypes", replay{Split: g.split(s, splitOpts{maxBlocks: 4, maxFiles: 3, splitFields: true}), Joined: joined(s)}, false})
	}
	for i := 0; i < npb; i++ {
		s := g.spec(2, 6)
		l, ok := g.withPB(g.split(s, splitOpts{maxBlocks: 4, maxFiles: 4, splitFields: true, shape: 1 + g.r.Intn(2)}))
		if !ok {
			continue
		}
		jobs = append(jobs, job{"pbimport", replay{Split: l, Joined: joined(s)}, false})
	}
	// thorough: every set partition of the members of a small app into blocks (restricted growth strings),
	// each in two random block orders / file assignments
	if c.Thorough() {
		for a := 0; a < 40; a++ {
			sp := g.spec(1, 4)
			for len(sp.Apps[0].Members) != 4 {
				sp = g.spec(1, 4)
			}
			ap := sp.Apps[0]
			var rgs func(pre []int, max int)
			rgs = func(pre []int, max int) {
				if len(pre) == len(ap.Members) {
					for rep := 0; rep < 2; rep++ {
						bs := make([]Block, max+1)
						for i := range bs {
							bs[i].Parts = ap.Parts
						}
						bs[0].Long, bs[0].A = ap.Long, ap.A
						for mi, b := range pre {
							bs[b].Members = append(bs[b].Members, ap.Members[mi])
						}
						shuffle(g.r, bs)
						nf := 1 + g.r.Intn(2)
						files := []File{{Name: "root.sysl"}, {Name: "f1.sysl"}}[:nf]
						for i, b := range bs {
							fi := g.r.Intn(nf)
							if i < nf {
								fi = i
							}
							files[fi].Blocks = append(files[fi].Blocks, b)
						}
						if nf == 2 && len(files[1].Blocks) == 0 {
							files = files[:1]
						} else if nf == 2 {
							files[0].Imports = []string{"f1.sysl"}
						}
						jobs = append(jobs, job{"partitions", replay{Split: Layout{Root: "root.sysl", Files: files}, Joined: joined(Spec{Apps: []App{ap}})}, false})
					}
					return
				}
				for b := 0; b <= max+1; b++ {
					nm := max
					if b > max {
						nm = b
					}
					rgs(append(append([]int{}, pre...), b), nm)
				}
			}
			rgs([]int{0}, 0)
		}
		c.Res.Extra["exhaustive_partitions"] = "all 15 set partitions of 4 members x 2 orders for 40 apps"
	}
	for i := 0; i < nh; i++ {
		l := g.hostile(g.spec(2, 5))
		jobs = append(jobs, job{"hostile", replay{Split: l, Joined: l, Note: "hostile layout (correspondence only)"}, false})
	}
	// declarations met again on both sides of a compiled module (what mergo keeps / fills; correspondence only)
	for i := 0; i < npbh; i++ {
		l, ok := g.withPB(g.split(g.addDupsK(g.spec(2, 5), true), splitOpts{maxBlocks: 4, maxFiles: 4, splitFields: true, shape: 1 + g.r.Intn(2)}))
		if !ok {
			continue
		}
		jobs = append(jobs, job{"pbhostile", replay{Split: l, Joined: l, Note: "hostile layout with a compiled module (correspondence only)"}, false})
	}
	var ls []Layout
	for _, j := range jobs {
		ls = append(ls, j.rp.Split)
		if j.stream != "hostile" && j.stream != "pbhostile" {
			ls = append(ls, j.rp.Joined)
		}
	}
	res := compileAll(ls)
	k := 0
	for _, j := range jobs {
		sm := res[k]
		k++
		c.Count(texts(j.rp.Split), stats(c, j.rp.Split))
		c.Hist("stream:" + j.stream)
		if j.stream == "hostile" || j.stream == "pbhostile" {
			cs.Add(caseTerm(j.rp.Split, sm.m), j.rp)
			continue
		}
		jm := res[k]
		k++
		judge(c, j.rp, sm.m, jm.m, sm.err, jm.err)
		if j.stream == "mixtypes" {
			continue // judged by the oracle only
		}
		cs.Add(caseTerm(j.rp.Split, sm.m), j.rp)
		if j.joinedToCoq {
			cs.Add(caseTerm(j.rp.Joined, jm.m), replay{Split: j.rp.Joined, Joined: j.rp.Joined, Note: "joined form"})
		}
		if j.stream == "split" && len(j.rp.Split.Files) > 1 {
			c.Sample(map[string]interface{}{"split": render(j.rp.Split), "joined": render(j.rp.Joined)})
		}
	}
	cs.Close()
	c.Res.Extra["compile_retries_after_timeout"] = compileRetries
}
