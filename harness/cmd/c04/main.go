// C04: splitting an application's declaration over blocks and imported files merges losslessly.
//
// An abstract specification (apps with attributes, types/tables with ~pk fields, enums, simple endpoints,
// events, REST trees) is written twice: JOINED (one block per app, one file) and SPLIT (members partitioned
// into k>=1 blocks, fields of one type and children of one REST tree partitioned too, blocks assigned to the
// files of an import graph, non-header blocks and import statements permuted).  Both are compiled by the real
// parser.  ORACLE (model-independent): the two *sysl.Module are equal after clearing source contexts and the
// import list (primary-key names compared as a set).  CORRESPONDENCE: every layout together with the
// projection of what it compiled to is printed as a Gallina case for Merge/Run.v (c04_ok).
package main

import (
	"encoding/json"
	"fmt"
	"os"
	"sort"
	"strings"
	"sync"
	"time"

	"github.com/anz-bank/sysl/pkg/parse"
	"github.com/anz-bank/sysl/pkg/sysl"
	"github.com/sirupsen/logrus"
	"github.com/spf13/afero"
	"google.golang.org/protobuf/proto"
	"google.golang.org/protobuf/reflect/protoreflect"

	"verifharness/common"
)

// ---------------------------------------------------------------- abstract specification / layout

type NV struct {
	K string `json:"k"`
	V string `json:"v"`
}
type Attrs struct {
	Tags []string `json:"tags,omitempty"`
	NV   []NV     `json:"nv,omitempty"`
}

func (a Attrs) empty() bool { return len(a.Tags) == 0 && len(a.NV) == 0 }

type Field struct {
	Name string `json:"name"`
	Ty   string `json:"ty"`
	Opt  bool   `json:"opt,omitempty"`
	A    Attrs  `json:"a,omitempty"`
}
type Stmt struct {
	Kind int      `json:"kind"` // 0 action, 1 call, 2 return
	Text string   `json:"text"`
	App  []string `json:"app,omitempty"`
}
type Method struct {
	Verb string `json:"verb"`
	A    Attrs  `json:"a,omitempty"`
	Body []Stmt `json:"body"`
}
type RNode struct {
	Segs    []string `json:"segs"`
	Methods []Method `json:"methods,omitempty"`
	Subs    []*RNode `json:"subs,omitempty"`
}
type Item struct {
	Name string `json:"name"`
	Val  int64  `json:"val"`
}
type Member struct {
	Kind   string  `json:"kind"` // type | table | enum | ep | event | rest
	Name   string  `json:"name,omitempty"`
	A      Attrs   `json:"a,omitempty"`
	Fields []Field `json:"fields,omitempty"`
	Items  []Item  `json:"items,omitempty"`
	Body   []Stmt  `json:"body,omitempty"`
	Rest   *RNode  `json:"rest,omitempty"`
}
type Block struct {
	Parts   []string `json:"app"`
	Long    string   `json:"long,omitempty"`
	A       Attrs    `json:"a,omitempty"`
	Members []Member `json:"members,omitempty"`
}
type File struct {
	Name    string   `json:"name"`
	Imports []string `json:"imports,omitempty"`
	// Noise[i] = lines without meaning (blank, whitespace-only, column-0 and indented comments) written before
	// import i; Noise[len(Imports)] = after the last import (before the first block)
	Noise  [][]string `json:"noise,omitempty"`
	Blocks []Block    `json:"blocks"`
}
type Layout struct {
	Root  string `json:"root"`
	Files []File `json:"files"`
}
type App struct {
	Parts   []string
	Long    string
	A       Attrs
	Members []Member
}
type Spec struct{ Apps []App }

// ---------------------------------------------------------------- rendering to Sysl text

// spell writes a name the way Sysl source spells it: every byte outside [A-Za-z0-9_-] as %XX (the lexer's Name rule;
// the listener un-escapes it again), so abstract names may contain '.', ':', ' ' and the like.
func spell(n string) string {
	var sb strings.Builder
	for i := 0; i < len(n); i++ {
		c := n[i]
		if c >= 'a' && c <= 'z' || c >= 'A' && c <= 'Z' || c >= '0' && c <= '9' || c == '_' || c == '-' {
			sb.WriteByte(c)
		} else {
			fmt.Fprintf(&sb, "%%%02X", c)
		}
	}
	return sb.String()
}

func spellAll(ns []string) []string {
	o := make([]string, len(ns))
	for i, n := range ns {
		o[i] = spell(n)
	}
	return o
}

func rAttrs(a Attrs) string {
	if a.empty() {
		return ""
	}
	var it []string
	// tags and name=value pairs interleaved deterministically: pairs first, then tags
	for _, nv := range a.NV {
		it = append(it, fmt.Sprintf("%s=\"%s\"", nv.K, nv.V))
	}
	for _, t := range a.Tags {
		it = append(it, "~"+t)
	}
	return " [" + strings.Join(it, ", ") + "]"
}

func rStmts(sb *strings.Builder, ind string, body []Stmt) {
	for _, s := range body {
		switch s.Kind {
		case 0:
			fmt.Fprintf(sb, "%s%s\n", ind, s.Text)
		case 1:
			fmt.Fprintf(sb, "%s%s <- %s\n", ind, strings.Join(spellAll(s.App), " :: "), s.Text)
		default:
			fmt.Fprintf(sb, "%sreturn %s\n", ind, s.Text)
		}
	}
}

func rRest(sb *strings.Builder, depth int, r *RNode) {
	ind := strings.Repeat("    ", depth)
	fmt.Fprintf(sb, "%s/%s:\n", ind, strings.Join(r.Segs, "/"))
	for _, m := range r.Methods {
		fmt.Fprintf(sb, "%s    %s%s:\n", ind, m.Verb, rAttrs(m.A))
		rStmts(sb, ind+"        ", m.Body)
	}
	for _, s := range r.Subs {
		rRest(sb, depth+1, s)
	}
}

func rBlock(sb *strings.Builder, b Block) {
	sb.WriteString(strings.Join(spellAll(b.Parts), " :: "))
	if b.Long != "" {
		fmt.Fprintf(sb, " \"%s\"", b.Long)
	}
	sb.WriteString(rAttrs(b.A))
	sb.WriteString(":\n")
	if len(b.Members) == 0 {
		sb.WriteString("    ...\n")
	}
	for _, m := range b.Members {
		switch m.Kind {
		case "type", "table":
			fmt.Fprintf(sb, "    !%s %s%s:\n", m.Kind, spell(m.Name), rAttrs(m.A))
			for _, f := range m.Fields {
				opt := ""
				if f.Opt {
					opt = "?"
				}
				fmt.Fprintf(sb, "        %s <: %s%s%s\n", spell(f.Name), f.Ty, opt, rAttrs(f.A))
			}
		case "enum":
			fmt.Fprintf(sb, "    !enum %s%s:\n", spell(m.Name), rAttrs(m.A))
			for _, it := range m.Items {
				fmt.Fprintf(sb, "        %s: %d\n", it.Name, it.Val)
			}
		case "ep":
			fmt.Fprintf(sb, "    %s%s:\n", m.Name, rAttrs(m.A))
			rStmts(sb, "        ", m.Body)
		case "event":
			fmt.Fprintf(sb, "    <-> %s:\n", m.Name)
			rStmts(sb, "        ", m.Body)
		case "rest":
			rRest(sb, 1, m.Rest)
		}
	}
}

func render(l Layout) map[string]string {
	out := map[string]string{}
	for _, f := range l.Files {
		var sb strings.Builder
		noise := func(i int) {
			if i < len(f.Noise) {
				for _, l := range f.Noise[i] {
					sb.WriteString(l + "\n")
				}
			}
		}
		for k, i := range f.Imports {
			noise(k)
			fmt.Fprintf(&sb, "import %s\n", strings.TrimSuffix(i, ".sysl"))
		}
		noise(len(f.Imports))
		if len(f.Imports) > 0 && len(f.Noise) == 0 {
			sb.WriteString("\n")
		}
		for _, b := range f.Blocks {
			rBlock(&sb, b)
			sb.WriteString("\n")
		}
		out[f.Name] = sb.String()
	}
	return out
}

// ---------------------------------------------------------------- the real compiler

type creq struct {
	Files map[string]string `json:"files"`
	Root  string            `json:"root"`
}
type crep struct {
	Err string `json:"err,omitempty"`
	PB  []byte `json:"pb,omitempty"`
}

// worker side: one compile per request, the module travels back as protobuf bytes
func compileInWorker(line []byte) interface{} {
	var r creq
	if err := json.Unmarshal(line, &r); err != nil {
		return crep{Err: "badreq"}
	}
	out := crep{}
	func() {
		defer func() {
			if x := recover(); x != nil {
				out = crep{Err: fmt.Sprintf("panic: %v", x)}
			}
		}()
		fs := afero.NewMemMapFs()
		for n, c := range r.Files {
			afero.WriteFile(fs, n, []byte(c), 0o644)
		}
		mod, err := parse.NewParser().ParseFromFs(r.Root, fs)
		if err != nil {
			out = crep{Err: "error: " + err.Error()}
			return
		}
		b, err := proto.Marshal(mod)
		if err != nil {
			out = crep{Err: "marshal: " + err.Error()}
			return
		}
		out = crep{PB: b}
	}()
	return out
}

type compiled struct {
	m   *sysl.Module
	err string
}

// compileAll compiles the layouts on a pool of worker subprocesses (the real parser, one compile at a time
// per process); results come back in input order
var compileRetries int

func compileAll(ls []Layout) []compiled {
	out := make([]compiled, len(ls))
	retries := 0
	nw := 8
	if len(ls) < nw {
		nw = len(ls)
	}
	var wg sync.WaitGroup
	var mu sync.Mutex
	next := make(chan int, len(ls))
	for i := range ls {
		next <- i
	}
	close(next)
	for k := 0; k < nw; k++ {
		wg.Add(1)
		go func() {
			defer wg.Done()
			w := common.NewWorker("-worker")
			defer w.Close()
			for i := range next {
				var r crep
				var died, timedOut bool
				var stderr string
				// a compile takes ~50 ms; on an overloaded machine a worker can stall, so a timeout is retried
				// on a fresh worker with a longer deadline before it counts
				for attempt, dl := range []time.Duration{60 * time.Second, 180 * time.Second, 600 * time.Second} {
					r = crep{}
					died, timedOut, stderr = w.Call(creq{render(ls[i]), ls[i].Root}, &r, dl)
					if !timedOut && !died {
						break
					}
					mu.Lock()
					retries++
					mu.Unlock()
					_ = attempt
				}
				switch {
				case timedOut:
					out[i] = compiled{nil, "hang"}
				case died:
					if len(stderr) > 300 {
						stderr = stderr[:300]
					}
					out[i] = compiled{nil, "died: " + stderr}
				case r.Err != "":
					out[i] = compiled{nil, r.Err}
				default:
					m := &sysl.Module{}
					if err := proto.Unmarshal(r.PB, m); err != nil {
						out[i] = compiled{nil, "unmarshal: " + err.Error()}
					} else {
						out[i] = compiled{m, ""}
					}
				}
			}
		}()
	}
	wg.Wait()
	compileRetries += retries
	return out
}

// clear source contexts everywhere, the import list, and sort primary keys (compared as sets)
func scrub(m protoreflect.Message) {
	m.Range(func(fd protoreflect.FieldDescriptor, v protoreflect.Value) bool {
		n := string(fd.Name())
		if n == "source_context" || n == "source_contexts" {
			m.Clear(fd)
			return true
		}
		switch {
		case fd.IsMap():
			if fd.MapValue().Kind() == protoreflect.MessageKind {
				v.Map().Range(func(_ protoreflect.MapKey, mv protoreflect.Value) bool {
					scrub(mv.Message())
					return true
				})
			}
		case fd.IsList():
			if fd.Kind() == protoreflect.MessageKind {
				for i := 0; i < v.List().Len(); i++ {
					scrub(v.List().Get(i).Message())
				}
			}
		case fd.Kind() == protoreflect.MessageKind:
			scrub(v.Message())
		}
		return true
	})
}

func normalise(m *sysl.Module) *sysl.Module {
	c := proto.Clone(m).(*sysl.Module)
	c.Imports = nil
	scrub(c.ProtoReflect())
	return c
}

// flattenOrder: the files in the order the parser processes them (a file before its imports, imports in textual
// order, every file once)
func flattenOrder(l Layout) []File {
	byName := map[string]File{}
	for _, f := range l.Files {
		byName[f.Name] = f
	}
	var out []File
	seen := map[string]bool{}
	var visit func(n string)
	visit = func(n string) {
		f, ok := byName[n]
		if seen[n] || !ok {
			return
		}
		seen[n] = true
		out = append(out, f)
		for _, i := range f.Imports {
			visit(i)
		}
	}
	visit(l.Root)
	return out
}

// keySeq: the ~pk fields of table (app, ty) in the order the layout declares them (processing order)
func keySeq(l Layout, app, ty string) []string {
	var ks []string
	for _, f := range flattenOrder(l) {
		for _, b := range f.Blocks {
			if strings.Join(b.Parts, " :: ") != app {
				continue
			}
			for _, m := range b.Members {
				if m.Kind != "table" || m.Name != ty {
					continue
				}
				for _, fd := range m.Fields {
					for _, t := range fd.A.Tags {
						if t == "pk" {
							ks = append(ks, fd.Name)
							break
						}
					}
				}
			}
		}
	}
	return ks
}

func sortedCopy(ss []string) []string {
	c := append([]string{}, ss...)
	sort.Strings(c)
	return c
}

// ---------------------------------------------------------------- oracle

type replay struct {
	Split  Layout `json:"split"`
	Joined Layout `json:"joined"`
	Note   string `json:"note,omitempty"`
}

// keyFragments: how many blocks of the split layout declare a ~pk field of table (app, ty)
func keyFragments(l Layout, app, ty string) int {
	n := 0
	for _, f := range l.Files {
		for _, b := range f.Blocks {
			if strings.Join(b.Parts, " :: ") != app {
				continue
			}
			for _, m := range b.Members {
				if m.Kind != "table" || m.Name != ty {
					continue
				}
				has := false
				for _, fd := range m.Fields {
					for _, t := range fd.A.Tags {
						if t == "pk" {
							has = true
						}
					}
				}
				if has {
					n++
				}
			}
		}
	}
	return n
}

func keysOf[M ~map[string]V, V any](m M) []string {
	var k []string
	for x := range m {
		k = append(k, x)
	}
	sort.Strings(k)
	return k
}

// diff: the first difference between the (normalised) split and joined models, as (abstract key, description)
func diff(c *common.Ctx, split, joined *sysl.Module, l, jl Layout) (string, string) {
	if a, b := keysOf(split.Apps), keysOf(joined.Apps); fmt.Sprint(a) != fmt.Sprint(b) {
		return "app-set", fmt.Sprintf("applications %q (split) vs %q (joined)", a, b)
	}
	for _, an := range keysOf(joined.Apps) {
		s, j := split.Apps[an], joined.Apps[an]
		if !proto.Equal(s.Name, j.Name) || s.LongName != j.LongName {
			return "app-name", fmt.Sprintf("app %q: name/long name %v %q vs %v %q", an, s.Name, s.LongName, j.Name, j.LongName)
		}
		if !proto.Equal(&sysl.Application{Attrs: s.Attrs}, &sysl.Application{Attrs: j.Attrs}) {
			return "app-attrs", fmt.Sprintf("app %q: attributes %v vs %v", an, s.Attrs, j.Attrs)
		}
		if a, b := keysOf(s.Types), keysOf(j.Types); fmt.Sprint(a) != fmt.Sprint(b) {
			return "type-set", fmt.Sprintf("app %q: split form has types %q, joined form %q", an, a, b)
		}
		for _, tn := range keysOf(j.Types) {
			st, jt := s.Types[tn], j.Types[tn]
			if proto.Equal(st, jt) {
				continue
			}
			// same apart from the primary key?
			sc, jc := proto.Clone(st).(*sysl.Type), proto.Clone(jt).(*sysl.Type)
			if sc.GetRelation() != nil && jc.GetRelation() != nil {
				sc.GetRelation().PrimaryKey, jc.GetRelation().PrimaryKey = nil, nil
				spk, jpk := st.GetRelation().GetPrimaryKey().GetAttrName(), jt.GetRelation().GetPrimaryKey().GetAttrName()
				if proto.Equal(sc, jc) && fmt.Sprint(sortedCopy(spk)) == fmt.Sprint(sortedCopy(jpk)) {
					// the same key fields in another order: demanded to be the joined form's order exactly when the
					// split form declares the key fields in that order ("as if it was declared in one block")
					if fmt.Sprint(keySeq(l, an, tn)) == fmt.Sprint(keySeq(jl, an, tn)) {
						return "primary-key-order", fmt.Sprintf("app %q table %q: the blocks declare the key fields in the order %q, as the joined form does, but the compiled key is %q (joined: %q)", an, tn, keySeq(l, an, tn), spk, jpk)
					}
					c.Hist("pk-order-differs-with-block-order(accepted)")
					st.GetRelation().PrimaryKey = jt.GetRelation().PrimaryKey
					continue
				}
				if proto.Equal(sc, jc) {
					what := fmt.Sprintf("app %q table %q: primary key %q in the split form, %q joined", an, tn,
						st.GetRelation().GetPrimaryKey().GetAttrName(), jt.GetRelation().GetPrimaryKey().GetAttrName())
					if keyFragments(l, an, tn) >= 2 {
						return "pk-split-across-blocks", what + " (key fields declared in more than one block of the table)"
					}
					return "primary-key", what
				}
			}
			if a, b := keysOf(attrDefs(st)), keysOf(attrDefs(jt)); fmt.Sprint(a) != fmt.Sprint(b) {
				return "field-set", fmt.Sprintf("app %q type %q: split form has fields %q, joined form %q", an, tn, a, b)
			}
			return "type", fmt.Sprintf("app %q type %q differs: %v vs %v", an, tn, st, jt)
		}
		if a, b := keysOf(s.Endpoints), keysOf(j.Endpoints); fmt.Sprint(a) != fmt.Sprint(b) {
			return "endpoint-set", fmt.Sprintf("app %q: split form has endpoints %q, joined form %q", an, a, b)
		}
		for _, en := range keysOf(j.Endpoints) {
			if !proto.Equal(s.Endpoints[en], j.Endpoints[en]) {
				return "endpoint", fmt.Sprintf("app %q endpoint %q differs: %v vs %v", an, en, s.Endpoints[en], j.Endpoints[en])
			}
		}
		if !proto.Equal(s, j) {
			return "app-other", fmt.Sprintf("app %q differs outside attributes, types and endpoints", an)
		}
	}
	if !proto.Equal(split, joined) {
		return "module-other", "modules differ outside the applications"
	}
	return "", ""
}

func attrDefs(t *sysl.Type) map[string]*sysl.Type {
	if r := t.GetRelation(); r != nil {
		return r.AttrDefs
	}
	return t.GetTuple().GetAttrDefs()
}

func judge(c *common.Ctx, rp replay, sm, jm *sysl.Module, serr, jerr string) {
	if jerr != "" {
		c.Fail("harness:joined-form-rejected", "the joined form does not compile: "+jerr, rp)
		return
	}
	if serr != "" {
		c.Fail("split-form-rejected", "the joined form compiles but the split form does not: "+serr, rp)
		return
	}
	for _, f := range rp.Joined.Files {
		for _, b := range f.Blocks {
			for _, m := range b.Members {
				an := strings.Join(b.Parts, " :: ")
				if m.Kind == "table" && keyFragments(rp.Split, an, m.Name) >= 2 {
					if fmt.Sprint(keySeq(rp.Split, an, m.Name)) == fmt.Sprint(keySeq(rp.Joined, an, m.Name)) {
						c.Hist("split-key:compared-as-list")
					} else {
						c.Hist("split-key:compared-as-set")
					}
				}
			}
		}
	}
	k, what := diff(c, normalise(sm), normalise(jm), rp.Split, rp.Joined)
	if k != "" {
		c.Fail(k, what, rp)
	}
}

// ---------------------------------------------------------------- projection -> Gallina

type interner struct{ ids map[string]int }

func newInterner() *interner {
	return &interner{ids: map[string]int{"patterns": 1, "rest": 2, "pk": 3, "...": 4}}
}
func (t *interner) id(s string) string {
	i, ok := t.ids[s]
	if !ok {
		i = len(t.ids) + 1
		t.ids[s] = i
	}
	return fmt.Sprint(i)
}
func (t *interner) list(ss []string) string {
	it := make([]string, len(ss))
	for i, s := range ss {
		it[i] = t.id(s)
	}
	return "[" + strings.Join(it, ";") + "]"
}

func (t *interner) gEntries(a Attrs) string {
	var it []string
	for _, nv := range a.NV {
		it = append(it, fmt.Sprintf("EN %s %s", t.id(nv.K), t.id("s:"+nv.V)))
	}
	for _, tg := range a.Tags {
		it = append(it, "ET "+t.id(tg))
	}
	return "[" + strings.Join(it, ";") + "]"
}
func (t *interner) gStmts(body []Stmt) string {
	var it []string
	for _, s := range body {
		switch s.Kind {
		case 0:
			it = append(it, "SA "+t.id("a:"+s.Text))
		case 1:
			it = append(it, fmt.Sprintf("SC %s %s", t.list(s.App), t.id("e:"+s.Text)))
		default:
			it = append(it, "SR "+t.id("r:"+s.Text))
		}
	}
	return "[" + strings.Join(it, ";") + "]"
}
func (t *interner) gRest(r *RNode) string {
	var ms, ss []string
	for _, m := range r.Methods {
		ms = append(ms, fmt.Sprintf("(%s, %s, %s)", t.id(m.Verb), t.gEntries(m.A), t.gStmts(m.Body)))
	}
	for _, s := range r.Subs {
		ss = append(ss, t.gRest(s))
	}
	return fmt.Sprintf("RN %s [%s] [%s]", t.list(r.Segs), strings.Join(ms, ";"), strings.Join(ss, ";"))
}

// the spelling of a field type as the projection names it (see projType)
func tySpelling(ty string) string {
	prim := map[string]string{"int": "INT", "string": "STRING", "bool": "BOOL", "date": "DATE", "float": "FLOAT", "decimal": "DECIMAL", "datetime": "DATETIME", "bytes": "BYTES", "any": "ANY"}
	if p, ok := prim[ty]; ok {
		return "prim:" + p
	}
	return "ref:" + ty
}

func (t *interner) gMember(m Member) string {
	switch m.Kind {
	case "type", "table":
		var fs []string
		for _, f := range m.Fields {
			fs = append(fs, fmt.Sprintf("FD %s %s %s %s", t.id(f.Name), t.id(tySpelling(f.Ty)), common.GBool(f.Opt), t.gEntries(f.A)))
		}
		return fmt.Sprintf("MT %s %s %s [%s]", common.GBool(m.Kind == "table"), t.id(m.Name), t.gEntries(m.A), strings.Join(fs, ";"))
	case "enum":
		var it []string
		for _, i := range m.Items {
			it = append(it, fmt.Sprintf("(%s, %s)", t.id(i.Name), common.GZ(i.Val)))
		}
		return fmt.Sprintf("ME %s %s [%s]", t.id(m.Name), t.gEntries(m.A), strings.Join(it, ";"))
	case "ep":
		return fmt.Sprintf("MP %s %s %s", t.id(m.Name), t.gEntries(m.A), t.gStmts(m.Body))
	case "event":
		return fmt.Sprintf("MV %s %s", t.id(m.Name), t.gStmts(m.Body))
	default:
		return "MR (" + t.gRest(m.Rest) + ")"
	}
}
func (t *interner) gLayout(l Layout) string {
	var fs []string
	for _, f := range l.Files {
		var bs []string
		for _, b := range f.Blocks {
			long := "None"
			if b.Long != "" {
				long = "(Some " + t.id("s:"+b.Long) + ")"
			}
			var ms []string
			for _, m := range b.Members {
				ms = append(ms, t.gMember(m))
			}
			if len(b.Members) == 0 {
				ms = append(ms, "MW") // written as `...`
			}
			bs = append(bs, fmt.Sprintf("B %s %s %s [%s]", t.list(b.Parts), long, t.gEntries(b.A), strings.Join(ms, ";\n    ")))
		}
		fs = append(fs, fmt.Sprintf("(%s, (%s, [%s]))", t.id("f:"+f.Name), t.list(prefixed("f:", f.Imports)), strings.Join(bs, ";\n   ")))
	}
	return fmt.Sprintf("%s, [%s]", t.id("f:"+l.Root), strings.Join(fs, ";\n  "))
}
func prefixed(p string, ss []string) []string {
	o := make([]string, len(ss))
	for i, s := range ss {
		o[i] = p + s
	}
	return o
}

func (t *interner) gOAttrs(m map[string]*sysl.Attribute) string {
	var it []string
	for _, k := range keysOf(m) {
		a := m[k]
		switch {
		case a.GetA() != nil:
			var el []string
			for _, e := range a.GetA().Elt {
				if _, ok := e.Attribute.(*sysl.Attribute_S); ok {
					el = append(el, t.id(e.GetS()))
				} else {
					el = append(el, t.id("?nested"))
				}
			}
			it = append(it, fmt.Sprintf("(%s, VA [%s])", t.id(k), strings.Join(el, ";")))
		default:
			it = append(it, fmt.Sprintf("(%s, VS %s)", t.id(k), t.id("s:"+a.GetS())))
		}
	}
	return "[" + strings.Join(it, ";") + "]"
}

func projType(ty *sysl.Type) string {
	switch x := ty.Type.(type) {
	case *sysl.Type_Primitive_:
		s := "prim:" + x.Primitive.String()
		if len(ty.Constraint) > 0 {
			s += "+constraint"
		}
		return s
	case *sysl.Type_TypeRef:
		return "ref:" + strings.Join(append(append([]string{}, x.TypeRef.GetRef().GetAppname().GetPart()...), x.TypeRef.GetRef().GetPath()...), ".")
	case nil:
		return "nil"
	}
	return fmt.Sprintf("other:%T", ty.Type)
}

func (t *interner) gOStmts(ss []*sysl.Statement) string {
	var it []string
	for _, s := range ss {
		switch x := s.Stmt.(type) {
		case *sysl.Statement_Action:
			it = append(it, "SA "+t.id("a:"+x.Action.Action))
		case *sysl.Statement_Call:
			it = append(it, fmt.Sprintf("SC %s %s", t.list(x.Call.GetTarget().GetPart()), t.id("e:"+x.Call.Endpoint)))
		case *sysl.Statement_Ret:
			it = append(it, "SR "+t.id("r:"+x.Ret.Payload))
		default:
			it = append(it, "SA "+t.id(fmt.Sprintf("?%T", s.Stmt)))
		}
	}
	return "[" + strings.Join(it, ";") + "]"
}

func (t *interner) gObs(m *sysl.Module) string {
	if m == nil {
		return "None"
	}
	var apps []string
	for _, an := range keysOf(m.Apps) {
		a := m.Apps[an]
		long := "None"
		if a.LongName != "" {
			long = "(Some " + t.id("s:"+a.LongName) + ")"
		}
		var tys []string
		for _, tn := range keysOf(a.Types) {
			ty := a.Types[tn]
			switch x := ty.Type.(type) {
			case *sysl.Type_Relation_, *sysl.Type_Tuple_:
				var fs []string
				defs := attrDefs(ty)
				for _, fn := range keysOf(defs) {
					f := defs[fn]
					fs = append(fs, fmt.Sprintf("(%s, (%s, %s, %s))", t.id(fn), t.id(projType(f)), common.GBool(f.Opt), t.gOAttrs(f.Attrs)))
				}
				_, rel := x.(*sysl.Type_Relation_)
				tys = append(tys, fmt.Sprintf("(%s, OT %s %s [%s] %s)", t.id(tn), common.GBool(rel), t.gOAttrs(ty.Attrs), strings.Join(fs, ";"),
					t.list(ty.GetRelation().GetPrimaryKey().GetAttrName())))
			case *sysl.Type_Enum_:
				var its []string
				for _, in := range keysOf(x.Enum.Items) {
					its = append(its, fmt.Sprintf("(%s, %s)", t.id(in), common.GZ(x.Enum.Items[in])))
				}
				tys = append(tys, fmt.Sprintf("(%s, OE %s [%s])", t.id(tn), t.gOAttrs(ty.Attrs), strings.Join(its, ";")))
			default:
				// a kind the model does not speak about: shows as a mismatch
				tys = append(tys, fmt.Sprintf("(%s, OE [(%s, VS %s)] [])", t.id(tn), t.id("?kind"), t.id(fmt.Sprintf("?%T", ty.Type))))
			}
		}
		var eps []string
		for _, en := range keysOf(a.Endpoints) {
			e := a.Endpoints[en]
			key := fmt.Sprintf("(None, [%s])", t.id(en))
			rest := e.RestParams != nil
			if rest {
				verb, path, _ := strings.Cut(en, " ")
				key = fmt.Sprintf("(Some %s, %s)", t.id(verb), t.list(strings.Split(strings.TrimPrefix(path, "/"), "/")))
				if e.RestParams.Path != path || e.RestParams.Method.String() != verb || e.Name != en {
					key = fmt.Sprintf("(Some %s, [%s])", t.id("?inconsistent"), t.id(en))
				}
			}
			eps = append(eps, fmt.Sprintf("(%s, (%s, %s, %s, %s))", key, common.GBool(e.IsPubsub), common.GBool(rest), t.gOAttrs(e.Attrs), t.gOStmts(e.Stmt)))
		}
		apps = append(apps, fmt.Sprintf("OA %s %s %s\n    [%s]\n    [%s]", t.list(a.GetName().GetPart()), long, t.gOAttrs(a.Attrs),
			strings.Join(tys, ";\n     "), strings.Join(eps, ";\n     ")))
	}
	return "(Some [" + strings.Join(apps, ";\n   ") + "])"
}

func caseTerm(l Layout, m *sysl.Module) string {
	t := newInterner()
	return "(" + t.gLayout(l) + ",\n  " + t.gObs(m) + ")"
}

// ---------------------------------------------------------------- generator

var appPool = [][]string{{"Alpha"}, {"Beta"}, {"Ns", "Gamma"}, {"Ns", "Delta"}, {"Omega"}, {"Ns", "Ep.silon"}, {"Ze:ta"}}

// name shapes that need %XX in the source (docs/docs/lang/identifiers.md); %d = running number
var oddTypeNames = []string{"Order.L%d", "St:k%d", "T %d x", "T/%d", "T%d+"}
var prims = []string{"int", "string", "bool", "date", "decimal", "datetime", "float"}
var verbs = []string{"GET", "POST", "PUT", "DELETE", "PATCH"}

type gen struct{ r *common.Rng }

func (g gen) attrs(tagPool []string, maxTags, nvChance int) Attrs {
	var a Attrs
	for i := 0; i < maxTags; i++ {
		if g.r.Chance(1, 3) {
			t := tagPool[g.r.Intn(len(tagPool))]
			dup := false
			for _, x := range a.Tags {
				if x == t {
					dup = true
				}
			}
			if !dup {
				a.Tags = append(a.Tags, t)
			}
		}
	}
	ks := []string{"owner", "desc", "json_tag"}
	for _, k := range ks {
		if g.r.Chance(1, nvChance) {
			a.NV = append(a.NV, NV{k, fmt.Sprintf("v%d", g.r.Intn(4))})
		}
	}
	return a
}

func (g gen) body(apps [][]string, min int) []Stmt {
	n := min + g.r.Intn(3)
	var b []Stmt
	for i := 0; i < n; i++ {
		switch g.r.Intn(4) {
		case 0:
			a := apps[g.r.Intn(len(apps))]
			b = append(b, Stmt{Kind: 1, Text: fmt.Sprintf("Ep%d", 1+g.r.Intn(3)), App: a})
		case 1:
			b = append(b, Stmt{Kind: 2, Text: []string{"ok <: string", "error <: int", "ok <: T1"}[g.r.Intn(3)]})
		default:
			b = append(b, Stmt{Kind: 0, Text: fmt.Sprintf("step%d", g.r.Intn(9))})
		}
	}
	return b
}

func (g gen) rest(apps [][]string, depth int, id *int) *RNode {
	n := &RNode{}
	ns := 1 + g.r.Intn(2)
	for i := 0; i < ns; i++ {
		*id++
		n.Segs = append(n.Segs, fmt.Sprintf("p%d", *id))
	}
	perm := g.r.Intn(len(verbs))
	nm := g.r.Intn(3)
	if depth == 0 && nm == 0 {
		nm = 1
	}
	for i := 0; i < nm; i++ {
		n.Methods = append(n.Methods, Method{Verb: verbs[(perm+i)%len(verbs)], A: g.attrs([]string{"x", "y"}, 1, 6), Body: g.body(apps, 1)})
	}
	if depth > 0 {
		k := g.r.Intn(3)
		if nm == 0 && k == 0 {
			k = 1
		}
		for i := 0; i < k; i++ {
			n.Subs = append(n.Subs, g.rest(apps, depth-1, id))
		}
	}
	return n
}

func (g gen) spec(maxApps, maxMembers int) Spec {
	na := 1 + g.r.Intn(maxApps)
	perm := g.r.Intn(len(appPool))
	var names [][]string
	for i := 0; i < na; i++ {
		names = append(names, appPool[(perm+i)%len(appPool)])
	}
	var s Spec
	for i := 0; i < na; i++ {
		a := App{Parts: names[i], A: g.attrs([]string{"x", "y", "abstract"}, 2, 3)}
		if g.r.Chance(1, 3) {
			a.Long = fmt.Sprintf("Long name %d", g.r.Intn(5))
		}
		nm := g.r.Intn(maxMembers + 1)
		if nm < 2 && g.r.Chance(4, 5) {
			nm = 2 + g.r.Intn(2)
		}
		nt, ne, np, nv, rid := 0, 0, 0, 0, 0
		for j := 0; j < nm; j++ {
			switch k := g.r.Intn(12); {
			case k < 5: // type / table
				nt++
				m := Member{Kind: "type", Name: fmt.Sprintf("T%d", nt), A: g.attrs([]string{"x", "y"}, 2, 5)}
				if g.r.Chance(1, 4) {
					m.Name = fmt.Sprintf(oddTypeNames[g.r.Intn(len(oddTypeNames))], nt)
				}
				if g.r.Chance(3, 5) {
					m.Kind = "table"
				}
				nf := 1 + g.r.Intn(5)
				for f := 0; f < nf; f++ {
					fd := Field{Name: fmt.Sprintf("f%d", f+1), Ty: prims[g.r.Intn(len(prims))], Opt: g.r.Chance(1, 5), A: g.attrs([]string{"x", "y"}, 1, 6)}
					if g.r.Chance(1, 10) {
						fd.Name = fmt.Sprintf("f.%d", f+1)
					}
					if g.r.Chance(1, 6) {
						fd.Ty = fmt.Sprintf("T%d", 1+g.r.Intn(3))
					}
					if g.r.Chance(2, 5) {
						fd.A.Tags = append([]string{"pk"}, fd.A.Tags...)
					}
					m.Fields = append(m.Fields, fd)
				}
				a.Members = append(a.Members, m)
			case k < 6:
				ne++
				m := Member{Kind: "enum", Name: fmt.Sprintf("E%d", ne), A: g.attrs([]string{"x"}, 1, 6)}
				if g.r.Chance(1, 5) {
					m.Name = fmt.Sprintf("E.%d", ne)
				}
				ni := 1 + g.r.Intn(3)
				for f := 0; f < ni; f++ {
					m.Items = append(m.Items, Item{fmt.Sprintf("I%d", f), int64(g.r.Intn(100000))})
				}
				a.Members = append(a.Members, m)
			case k < 8:
				np++
				a.Members = append(a.Members, Member{Kind: "ep", Name: fmt.Sprintf("Ep%d", np), A: g.attrs([]string{"x", "y"}, 1, 5), Body: g.body(names, 1)})
			case k < 9:
				nv++
				a.Members = append(a.Members, Member{Kind: "event", Name: fmt.Sprintf("Ev%d", nv), Body: g.body(names, 1)})
			default:
				a.Members = append(a.Members, Member{Kind: "rest", Rest: g.rest(names, g.r.Intn(3), &rid)})
			}
		}
		s.Apps = append(s.Apps, a)
	}
	return s
}

func joined(s Spec) Layout {
	f := File{Name: "root.sysl"}
	for _, a := range s.Apps {
		f.Blocks = append(f.Blocks, Block{Parts: a.Parts, Long: a.Long, A: a.A, Members: a.Members})
	}
	return Layout{Root: "root.sysl", Files: []File{f}}
}

func shuffle[T any](r *common.Rng, xs []T) {
	for i := len(xs) - 1; i > 0; i-- {
		j := r.Intn(i + 1)
		xs[i], xs[j] = xs[j], xs[i]
	}
}

type splitOpts struct {
	maxBlocks, maxFiles int
	splitFields         bool // fields of one type / children of one REST tree over several blocks
	shape               int  // 0 random, 1 star, 2 chain
	ordered             bool // shares, blocks and files keep the declaration order (the key ORDER is then demanded too)
}

// split: a random layout of the specification (the well-formed stream: every member in exactly one block,
// attributes and long name on one block per app, type attributes on one share of the type)
func (g gen) split(s Spec, o splitOpts) Layout {
	type tagged struct {
		b      Block
		header bool
	}
	var blocks []tagged
	for _, a := range s.Apps {
		k := 1 + g.r.Intn(o.maxBlocks)
		if o.maxBlocks >= 3 && g.r.Chance(1, 2) {
			k = 3 + g.r.Intn(o.maxBlocks-2)
		}
		var pieces []Member
		for _, m := range a.Members {
			switch {
			case (m.Kind == "type" || m.Kind == "table") && o.splitFields && len(m.Fields) >= 2 && g.r.Chance(1, 2):
				nfr := 2 + g.r.Intn(2)
				if nfr > len(m.Fields) {
					nfr = len(m.Fields)
				}
				frs := make([]Member, nfr)
				for i := range frs {
					frs[i] = Member{Kind: m.Kind, Name: m.Name}
				}
				// every share gets at least one field; field order within a share follows the declaration
				assign := make([]int, len(m.Fields))
				for i := range assign {
					if i < nfr {
						assign[i] = i
					} else {
						assign[i] = g.r.Intn(nfr)
					}
				}
				shuffle(g.r, assign)
				if o.ordered {
					sort.Ints(assign) // contiguous shares in declaration order
				}
				for i, f := range m.Fields {
					frs[assign[i]].Fields = append(frs[assign[i]].Fields, f)
				}
				frs[g.r.Intn(nfr)].A = m.A
				pieces = append(pieces, frs...)
			case m.Kind == "rest" && o.splitFields && len(m.Rest.Methods)+len(m.Rest.Subs) >= 2 && g.r.Chance(1, 2):
				r1, r2 := &RNode{Segs: m.Rest.Segs}, &RNode{Segs: m.Rest.Segs}
				n := 0
				total := len(m.Rest.Methods) + len(m.Rest.Subs)
				first := g.r.Intn(total) // this child goes to r1, the next to r2, the others at random
				pick := func() *RNode {
					defer func() { n++ }()
					switch {
					case n == first:
						return r1
					case n == (first+1)%total:
						return r2
					case g.r.Bool():
						return r1
					}
					return r2
				}
				for _, me := range m.Rest.Methods {
					p := pick()
					p.Methods = append(p.Methods, me)
				}
				for _, su := range m.Rest.Subs {
					p := pick()
					p.Subs = append(p.Subs, su)
				}
				pieces = append(pieces, Member{Kind: "rest", Rest: r1}, Member{Kind: "rest", Rest: r2})
			default:
				pieces = append(pieces, m)
			}
		}
		// the first k pieces (in random order) open one block each, the others go anywhere
		if !o.ordered {
			shuffle(g.r, pieces)
		}
		if k > len(pieces) {
			k = len(pieces)
		}
		if k == 0 {
			k = 1
		}
		bs := make([]Block, k)
		for i := range bs {
			bs[i].Parts = a.Parts
		}
		for i, pc := range pieces {
			bi := g.r.Intn(k)
			if i < k {
				bi = i
			}
			if o.ordered {
				bi = i * k / len(pieces)
			}
			bs[bi].Members = append(bs[bi].Members, pc)
		}
		// a block without members could only be written with `...`, which itself declares an endpoint:
		// empty blocks are dropped and the header moves to the first block that has members
		var ne []Block
		for _, b := range bs {
			if len(b.Members) > 0 {
				ne = append(ne, b)
			}
		}
		if len(ne) == 0 {
			ne = bs[:1]
		}
		ne[0].Long, ne[0].A = a.Long, a.A
		for i, b := range ne {
			if !o.ordered {
				shuffle(g.r, b.Members)
			}
			blocks = append(blocks, tagged{b, i == 0})
		}
	}
	if o.ordered {
		// contiguous runs of the block list over the files of a chain or an in-order star
		nf := 1 + g.r.Intn(o.maxFiles)
		if nf > len(blocks) {
			nf = len(blocks)
		}
		files := make([]File, nf)
		for i := range files {
			files[i].Name = fmt.Sprintf("f%d.sysl", i)
		}
		files[0].Name = "root.sysl"
		for i, b := range blocks {
			fi := i * nf / len(blocks)
			files[fi].Blocks = append(files[fi].Blocks, b.b)
		}
		star := g.r.Bool()
		for i := 1; i < nf; i++ {
			if star {
				files[0].Imports = append(files[0].Imports, files[i].Name)
			} else {
				files[i-1].Imports = append(files[i-1].Imports, files[i].Name)
			}
		}
		for i := range files {
			g.noise(&files[i])
		}
		return Layout{Root: "root.sysl", Files: files}
	}
	nf := 1 + g.r.Intn(o.maxFiles)
	if nf == 1 && o.maxFiles > 1 && g.r.Chance(2, 3) {
		nf = 2 + g.r.Intn(o.maxFiles-1)
	}
	if nf > len(blocks) {
		nf = len(blocks)
	}
	files := make([]File, nf)
	for i := range files {
		files[i].Name = fmt.Sprintf("f%d.sysl", i)
	}
	files[0].Name = "root.sysl"
	// headers first in the root most of the time, otherwise anywhere
	order := make([]int, len(blocks))
	for i := range order {
		order[i] = i
	}
	shuffle(g.r, order)
	headersFirst := g.r.Chance(3, 4)
	placed := 0
	for _, bi := range order {
		fi := g.r.Intn(nf)
		if placed < nf {
			fi = placed // every file gets at least one block
		}
		placed++
		if blocks[bi].header && headersFirst && g.r.Chance(2, 3) {
			files[0].Blocks = append([]Block{blocks[bi].b}, files[0].Blocks...)
			if fi != 0 && len(files[fi].Blocks) == 0 {
				placed-- // the slot is still empty
			}
			continue
		}
		files[fi].Blocks = append(files[fi].Blocks, blocks[bi].b)
	}
	// files left empty (their block was moved to the root) are dropped
	var kept []File
	for _, f := range files {
		if len(f.Blocks) > 0 || f.Name == "root.sysl" {
			kept = append(kept, f)
		}
	}
	files = kept
	if len(files[0].Blocks) == 0 {
		// the root must declare something: take a block from the last file
		last := &files[len(files)-1]
		files[0].Blocks = append(files[0].Blocks, last.Blocks[len(last.Blocks)-1])
		last.Blocks = last.Blocks[:len(last.Blocks)-1]
		if len(last.Blocks) == 0 {
			files = files[:len(files)-1]
		}
	}
	nf = len(files)
	// import graph: every file reachable from the root
	shape := o.shape
	if shape == 0 {
		shape = 1 + g.r.Intn(3)
	}
	switch shape {
	case 1: // star
		for i := 1; i < nf; i++ {
			files[0].Imports = append(files[0].Imports, files[i].Name)
		}
	case 2: // chain
		for i := 1; i < nf; i++ {
			files[i-1].Imports = append(files[i-1].Imports, files[i].Name)
		}
	default: // random tree plus extra edges (diamonds, back edges)
		for i := 1; i < nf; i++ {
			p := g.r.Intn(i)
			files[p].Imports = append(files[p].Imports, files[i].Name)
		}
		for e := g.r.Intn(3); e > 0 && nf > 1; e-- {
			a, b := g.r.Intn(nf), g.r.Intn(nf)
			dup := a == b
			for _, x := range files[a].Imports {
				if x == files[b].Name {
					dup = true
				}
			}
			if !dup {
				files[a].Imports = append(files[a].Imports, files[b].Name)
			}
		}
	}
	for i := range files {
		shuffle(g.r, files[i].Imports)
		g.noise(&files[i])
	}
	return Layout{Root: "root.sysl", Files: files}
}

var noiseLines = []string{"", "", "   ", "\t", "# a comment", "#", "    # an indented comment", "  #import nothing", "        "}

// noise: the layout of the import section of a file - nothing in it carries meaning
func (g gen) noise(f *File) {
	if g.r.Chance(1, 4) {
		return // the tidy layout
	}
	f.Noise = make([][]string, len(f.Imports)+1)
	for i := range f.Noise {
		for n := g.r.Intn(3); n > 0; n-- {
			f.Noise[i] = append(f.Noise[i], noiseLines[g.r.Intn(len(noiseLines))])
		}
	}
}

// hostile: layouts outside the theorem's hypotheses (only the correspondence speaks about them): attributes on
// several blocks of one app / one type, the same endpoint in two blocks, a type re-declared with the other kind
// or as an enum, repeated ~pk
func (g gen) hostile(s Spec) Layout {
	l := g.split(s, splitOpts{maxBlocks: 4, maxFiles: 3, splitFields: true})
	for fi := range l.Files {
		for bi := range l.Files[fi].Blocks {
			b := &l.Files[fi].Blocks[bi]
			if g.r.Chance(1, 2) {
				b.A = g.attrs([]string{"x", "y", "z"}, 2, 2)
			}
			if g.r.Chance(1, 4) {
				b.Long = fmt.Sprintf("Other long %d", g.r.Intn(3))
			}
			n := len(b.Members)
			for mi := 0; mi < n; mi++ {
				m := &b.Members[mi]
				switch m.Kind {
				case "type", "table":
					if g.r.Chance(1, 2) {
						m.A = g.attrs([]string{"x", "y", "z"}, 2, 2)
					}
					if g.r.Chance(1, 6) {
						if m.Kind == "type" {
							m.Kind = "table"
						} else {
							m.Kind = "type"
						}
					}
					if g.r.Chance(1, 8) && len(m.Fields) > 0 {
						m.Fields[0].A.Tags = append(m.Fields[0].A.Tags, "pk", "pk")
					}
					if g.r.Chance(1, 10) {
						b.Members = append(b.Members, Member{Kind: "enum", Name: m.Name, Items: []Item{{"Z", 1}}})
					}
				case "ep", "event":
					if g.r.Chance(1, 3) {
						c := *m
						c.Body = g.body([][]string{b.Parts}, 1)
						if g.r.Chance(1, 3) {
							if c.Kind == "ep" {
								c.Kind, c.A = "event", Attrs{}
							} else {
								c.Kind = "ep"
							}
						}
						b.Members = append(b.Members, c)
					}
				case "enum":
					if g.r.Chance(1, 4) {
						b.Members = append(b.Members, Member{Kind: "table", Name: m.Name, A: g.attrs([]string{"x"}, 1, 3), Fields: []Field{{Name: "q", Ty: "int", A: Attrs{Tags: []string{"pk"}}}}})
					}
				case "rest":
					if g.r.Chance(1, 4) {
						b.Members = append(b.Members, *m)
					}
				}
			}
		}
	}
	return l
}

// ---------------------------------------------------------------- corpus of earlier findings (runs first)

func corpusCases() []replay {
	tbl := func(fields ...Field) Member { return Member{Kind: "table", Name: "T", Fields: fields} }
	pk := Attrs{Tags: []string{"pk"}}
	a, b, cc := Field{Name: "a", Ty: "int", A: pk}, Field{Name: "b", Ty: "int", A: pk}, Field{Name: "c", Ty: "string"}
	one := func(bl ...Block) Layout { return Layout{Root: "root.sysl", Files: []File{{Name: "root.sysl", Blocks: bl}}} }
	app := []string{"App"}
	ep := func(n string) Member { return Member{Kind: "ep", Name: n, Body: []Stmt{{Kind: 0, Text: "step1"}}} }
	ty := func(n string) Member { return Member{Kind: "type", Name: n, Fields: []Field{{Name: "x", Ty: "int"}}} }
	rest := func(seg string, sub string, verb string) Member {
		return Member{Kind: "rest", Rest: &RNode{Segs: []string{seg}, Subs: []*RNode{{Segs: []string{sub}, Methods: []Method{{Verb: verb, Body: []Stmt{{Kind: 0, Text: "step1"}}}}}}}}
	}
	return []replay{
		// the primary key of a table whose key fields are split over two blocks (design round finding)
		{Note: "pk split {a,c}|{b}", Joined: one(Block{Parts: app, Members: []Member{tbl(a, b, cc)}}),
			Split: one(Block{Parts: app, Members: []Member{tbl(a, cc)}}, Block{Parts: app, Members: []Member{tbl(b)}})},
		// three blocks, types introduced in the earlier ones (Appendix B)
		{Note: "three blocks", Joined: one(Block{Parts: app, Members: []Member{ty("T1"), ty("T2"), ep("Ep1"), ty("T3")}}),
			Split: one(Block{Parts: app, Members: []Member{ty("T1")}}, Block{Parts: app, Members: []Member{ty("T2"), ep("Ep1")}}, Block{Parts: app, Members: []Member{ty("T3")}})},
		// a type whose name needs %XX in the source, fields spread over two blocks (seeded change C04_b_1)
		{Note: "encoded type name split over two blocks",
			Joined: one(Block{Parts: app, Members: []Member{{Kind: "type", Name: "Order.Line", Fields: []Field{{Name: "x", Ty: "int"}, {Name: "y", Ty: "string"}}}}}),
			Split: one(Block{Parts: app, Members: []Member{{Kind: "type", Name: "Order.Line", Fields: []Field{{Name: "x", Ty: "int"}}}}},
				Block{Parts: app, Members: []Member{{Kind: "type", Name: "Order.Line", Fields: []Field{{Name: "y", Ty: "string"}}}}})},
		// REST sub-trees in re-opening blocks in imported files (Appendix B)
		{Note: "rest sub-trees in imported re-opening blocks",
			Joined: one(Block{Parts: app, Members: []Member{rest("u", "a", "GET"), rest("u", "b", "POST"), rest("v", "c", "GET")}}),
			Split: Layout{Root: "root.sysl", Files: []File{
				{Name: "root.sysl", Imports: []string{"f1.sysl"}, Blocks: []Block{{Parts: app, Members: []Member{rest("u", "a", "GET")}}}},
				{Name: "f1.sysl", Blocks: []Block{{Parts: app, Members: []Member{rest("u", "b", "POST")}}, {Parts: app, Members: []Member{rest("v", "c", "GET")}}}}}}},
	}
}

// ---------------------------------------------------------------- main

func stats(c *common.Ctx, l Layout) (nontrivial bool) {
	nb, nfr := 0, map[string]int{}
	for _, f := range l.Files {
		nb += len(f.Blocks)
		for _, b := range f.Blocks {
			for _, m := range b.Members {
				if m.Kind == "type" || m.Kind == "table" {
					nfr[strings.Join(b.Parts, "::")+"."+m.Name]++
				}
			}
		}
	}
	c.Hist(fmt.Sprintf("files:%d", len(l.Files)))
	if nb >= 6 {
		c.Hist("blocks:6+")
	} else {
		c.Hist(fmt.Sprintf("blocks:%d", nb))
	}
	for _, n := range nfr {
		if n >= 2 {
			c.Hist("type-split-over-blocks")
			break
		}
	}
	return nb >= 2
}

func main() {
	logrus.SetLevel(logrus.PanicLevel)
	if common.IsWorker() {
		common.ServeWorker(compileInWorker)
		return
	}
	c := common.Setup("C04")
	defer c.Finish()
	c.Res.Rule = "each case = one abstract specification (1-3 apps; types/tables with ~pk fields, enums, simple endpoints, events, REST trees; attributes, tags and long name on the header block) written JOINED and SPLIT (members, fields of one type and children of one REST tree partitioned into 1-5 blocks per app, blocks assigned to 1-4 files of a star / chain / random import graph, blocks and import statements permuted); both compiled by the real parser; distinct = distinct split text; non-trivial = the split form has at least two blocks"
	if c.Replay != "" {
		var rp replay
		if err := common.LoadReplay(c.Replay, &rp); err != nil {
			fmt.Fprintln(os.Stderr, err)
			os.Exit(3)
		}
		r := compileAll([]Layout{rp.Split, rp.Joined})
		judge(c, rp, r[0].m, r[1].m, r[0].err, r[1].err)
		c.Count("replay", true)
		for n, t := range render(rp.Split) {
			fmt.Printf("---- split %s\n%s", n, t)
		}
		for n, t := range render(rp.Joined) {
			fmt.Printf("---- joined %s\n%s", n, t)
		}
		fmt.Printf("replay: failures=%d\n", len(c.Res.Failures))
		for _, f := range c.Res.Failures {
			fmt.Printf("  %s: %s\n", f.Key, f.What)
		}
		return
	}
	header := `From Coq Require Import String List ZArith NArith PArith Bool. From stdpp Require Import gmap. Import ListNotations.
Require Import Verif.Merge.Model Verif.Merge.Run Verif.Gen.MergeRules Verif.Base.Harness.
Local Open Scope positive_scope.`
	footer := `Definition M := Eval vm_compute in mismatches (c04_ok pk_mode) cases. Print M.`
	per := 60
	if c.Thorough() {
		per = 900
	}
	cs := c.NewCases("C04", header, "c04_case", footer, per)
	g := gen{c.Rng}

	texts := func(l Layout) string {
		b, _ := json.Marshal(render(l))
		return string(b)
	}
	type job struct {
		stream      string
		rp          replay
		joinedToCoq bool
	}
	var jobs []job
	for _, rp := range corpusCases() {
		jobs = append(jobs, job{"corpus", rp, true})
	}
	n := 280
	nh := 100
	if c.Thorough() {
		n, nh = 5000, 1500
	}
	if c.Search {
		n, nh = n*4, 0
	}
	for i := 0; i < n; i++ {
		var s Spec
		var o splitOpts
		switch i % 4 {
		case 0: // small: one app, few members, many blocks - every partition shape turns up
			s = g.spec(1, 4)
			o = splitOpts{maxBlocks: 5, maxFiles: 3, splitFields: true}
		case 1:
			s = g.spec(3, 7)
			o = splitOpts{maxBlocks: 4, maxFiles: 4, splitFields: true}
		case 2: // order-preserving splits: shares, blocks and files in declaration order - key order is compared too
			s = g.spec(2, 6)
			o = splitOpts{maxBlocks: 4, maxFiles: 4, splitFields: true, ordered: true}
			if i%8 == 2 { // members only (no field-level split), chains
				o = splitOpts{maxBlocks: 4, maxFiles: 4, splitFields: false, shape: 2}
			}
		default:
			s = g.spec(2, 8)
			o = splitOpts{maxBlocks: 5, maxFiles: 4, splitFields: true, shape: 1 + g.r.Intn(3)}
		}
		jobs = append(jobs, job{"split", replay{Split: g.split(s, o), Joined: joined(s)}, i%5 == 0})
	}
	// thorough: every set partition of the members of a small app into blocks (restricted growth strings),
	// each in two random block orders / file assignments
	if c.Thorough() {
		for a := 0; a < 40; a++ {
			sp := g.spec(1, 4)
			for len(sp.Apps[0].Members) != 4 {
				sp = g.spec(1, 4)
			}
			ap := sp.Apps[0]
			var rgs func(pre []int, max int)
			rgs = func(pre []int, max int) {
				if len(pre) == len(ap.Members) {
					for rep := 0; rep < 2; rep++ {
						bs := make([]Block, max+1)
						for i := range bs {
							bs[i].Parts = ap.Parts
						}
						bs[0].Long, bs[0].A = ap.Long, ap.A
						for mi, b := range pre {
							bs[b].Members = append(bs[b].Members, ap.Members[mi])
						}
						shuffle(g.r, bs)
						nf := 1 + g.r.Intn(2)
						files := []File{{Name: "root.sysl"}, {Name: "f1.sysl"}}[:nf]
						for i, b := range bs {
							fi := g.r.Intn(nf)
							if i < nf {
								fi = i
							}
							files[fi].Blocks = append(files[fi].Blocks, b)
						}
						if nf == 2 && len(files[1].Blocks) == 0 {
							files = files[:1]
						} else if nf == 2 {
							files[0].Imports = []string{"f1.sysl"}
						}
						jobs = append(jobs, job{"partitions", replay{Split: Layout{Root: "root.sysl", Files: files}, Joined: joined(sp)}, false})
					}
					return
				}
				for b := 0; b <= max+1; b++ {
					nm := max
					if b > max {
						nm = b
					}
					rgs(append(append([]int{}, pre...), b), nm)
				}
			}
			rgs([]int{0}, 0)
		}
		c.Res.Extra["exhaustive_partitions"] = "all 15 set partitions of 4 members x 2 orders for 40 apps"
	}
	for i := 0; i < nh; i++ {
		l := g.hostile(g.spec(2, 5))
		jobs = append(jobs, job{"hostile", replay{Split: l, Joined: l, Note: "hostile layout (correspondence only)"}, false})
	}
	var ls []Layout
	for _, j := range jobs {
		ls = append(ls, j.rp.Split)
		if j.stream != "hostile" {
			ls = append(ls, j.rp.Joined)
		}
	}
	res := compileAll(ls)
	k := 0
	for _, j := range jobs {
		sm := res[k]
		k++
		c.Count(texts(j.rp.Split), stats(c, j.rp.Split))
		c.Hist("stream:" + j.stream)
		if j.stream == "hostile" {
			cs.Add(caseTerm(j.rp.Split, sm.m), j.rp)
			continue
		}
		jm := res[k]
		k++
		judge(c, j.rp, sm.m, jm.m, sm.err, jm.err)
		cs.Add(caseTerm(j.rp.Split, sm.m), j.rp)
		if j.joinedToCoq {
			cs.Add(caseTerm(j.rp.Joined, jm.m), replay{Split: j.rp.Joined, Joined: j.rp.Joined, Note: "joined form"})
		}
		if j.stream == "split" && len(j.rp.Split.Files) > 1 {
			c.Sample(map[string]interface{}{"split": render(j.rp.Split), "joined": render(j.rp.Joined)})
		}
	}
	cs.Close()
	c.Res.Extra["compile_retries_after_timeout"] = compileRetries
}
