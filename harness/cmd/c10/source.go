// Second route into the evaluator: a program rendered as Sysl view source and compiled by the real parser
// (pkg/parse listener glue), then evaluated like the protobuf route. Only programs inside the renderable subset
// qualify: transforms occur only as the whole right-hand side of a statement (the grammar allows nothing else),
// no empty collection literals, no map literals, no minimum int64 literal, no str (it has no spelling outside templates).
package main

import (
	"fmt"
	"strings"
)

type unrenderable struct{ why string }

func bail(why string) { panic(unrenderable{why}) }

func srcVal(v *Val) string {
	switch v.K {
	case "i":
		if v.I == -9223372036854775808 {
			bail("min int64 literal")
		}
		if v.I < 0 {
			return fmt.Sprintf("(-%d)", -v.I)
		}
		return fmt.Sprint(v.I)
	case "s":
		if strings.ContainsAny(v.S, "\"\\\n") {
			bail("string literal needing escapes")
		}
		return "\"" + v.S + "\""
	case "b":
		return fmt.Sprint(v.B)
	case "null":
		return "null"
	case "l", "set":
		if len(v.E) == 0 {
			bail("empty collection literal")
		}
		p := make([]string, len(v.E))
		for i, e := range v.E {
			p[i] = srcVal(e)
		}
		if v.K == "l" {
			return "[" + strings.Join(p, ", ") + "]"
		}
		return "{" + strings.Join(p, ", ") + "}"
	}
	bail("literal " + v.K)
	return ""
}

var srcOps = map[string]string{"ADD": "+", "SUB": "-", "MUL": "*", "DIV": "/", "MOD": "%", "EQ": "==", "NE": "!=", "LT": "<", "LE": "<=",
	"GT": ">", "GE": ">=", "AND": "&&", "BITOR": "|", "IN": "in", "NOT_IN": "!in"}

func srcIdent(n string) string {
	if n == "." {
		return "."
	}
	for _, c := range n {
		if !(c == '_' || c >= 'a' && c <= 'z' || c >= 'A' && c <= 'Z' || c >= '0' && c <= '9') {
			bail("name " + n)
		}
	}
	switch n {
	case "key", "value", "if", "then", "else", "let", "in", "where", "count", "flatten", "true", "false", "null", "any", "single", "first", "by", "as", "via", "set", "sequence", "of", "rank", "sum", "min", "max", "average", "snapshot", "str", "substr", "autoinc", "contains", "table":
		bail("name is a keyword: " + n)
	}
	return n
}

func srcExpr(e *Expr) string {
	switch e.K {
	case "name":
		return srcIdent(e.Name)
	case "lit":
		return srcVal(e.Lit)
	case "attr":
		if e.Name == "key" || e.Name == "value" {
			bail("attribute named like a keyword")
		}
		return "(" + srcExpr(e.A[0]) + ")." + srcIdent(e.Name)
	case "if":
		return "(if " + srcExpr(e.A[0]) + " then " + srcExpr(e.A[1]) + " else " + srcExpr(e.A[2]) + ")"
	case "call":
		if e.Name == ".count" && len(e.A) == 1 {
			return "((" + srcExpr(e.A[0]) + ") count)"
		}
		if strings.HasPrefix(e.Name, ".") {
			bail("dot function")
		}
		p := make([]string, len(e.A))
		for i, a := range e.A {
			p[i] = srcExpr(a)
		}
		return srcIdent(e.Name) + "(" + strings.Join(p, ", ") + ")"
	case "un":
		// unaryTerm: '-' power (ints and, for the evaluator, bools alike: NEG); relop `single`. `str` has no spelling
		// outside templates (the name `str(...)` is an ordinary call), `!` is Expr_UnExpr_NOT, another operator.
		switch e.Op {
		case "NEG":
			return "(-(" + srcExpr(e.A[0]) + "))"
		case "SINGLE":
			return "((" + srcExpr(e.A[0]) + ") single)"
		}
		bail("unary " + e.Op)
	case "bin":
		if e.Op == "WHERE" || e.Op == "FLATTEN" {
			sv := ""
			if e.Sv != "." {
				sv = srcIdent(e.Sv) + ": "
			}
			return "((" + srcExpr(e.A[0]) + ") " + strings.ToLower(e.Op) + "(" + sv + srcExpr(e.A[1]) + "))"
		}
		op, ok := srcOps[e.Op]
		if !ok {
			bail("operator " + e.Op)
		}
		return "(" + srcExpr(e.A[0]) + " " + op + " " + srcExpr(e.A[1]) + ")"
	case "list", "set":
		if len(e.A) == 0 {
			bail("empty collection literal")
		}
		p := make([]string, len(e.A))
		for i, a := range e.A {
			p[i] = srcExpr(a)
		}
		if e.K == "list" {
			return "[" + strings.Join(p, ", ") + "]"
		}
		return "{" + strings.Join(p, ", ") + "}"
	}
	bail("expression " + e.K + " " + e.Op)
	return ""
}

// a transform, as the right-hand side of a statement or as a view body (typed=false: no <type>)
func srcTransform(sb *strings.Builder, e *Expr, indent string, typed bool) {
	arg := e.A[0]
	if arg.K == "name" && arg.Name == "." {
		bail("transform without argument")
	}
	sb.WriteString(srcExpr(arg) + " -> ")
	if typed {
		switch e.Ty {
		case "set":
			sb.WriteString("<set of Out> ")
		case "other":
			sb.WriteString("<sequence of Out> ")
		default:
			bail("untyped transform")
		}
	}
	sv := ""
	if e.Sv != "." {
		sv = srcIdent(e.Sv)
	}
	sb.WriteString("(" + sv + ":\n")
	if len(e.Stmts) == 0 {
		bail("empty transform body")
	}
	for _, s := range e.Stmts {
		sb.WriteString(indent + "  ")
		if s.Let {
			sb.WriteString("let ")
		}
		sb.WriteString(srcIdent(s.Name) + " = ")
		if s.E.K == "tr" {
			srcTransform(sb, s.E, indent+"  ", true)
		} else {
			sb.WriteString(srcExpr(s.E) + "\n")
		}
	}
	sb.WriteString(indent + ")\n")
}

// renderSource: the program as a Sysl file with one application "T"; ok=false when it is outside the subset
func renderSource(p *Prog) (src string, why string) {
	defer func() {
		if x := recover(); x != nil {
			if u, ok := x.(unrenderable); ok {
				src, why = "", u.why
				return
			}
			panic(x)
		}
	}()
	var sb strings.Builder
	sb.WriteString("T:\n")
	for _, v := range p.Views {
		ps := make([]string, len(v.Params))
		for i, n := range v.Params {
			ps[i] = srcIdent(n) + " <: int"
		}
		sb.WriteString("  !view " + srcIdent(v.Name) + "(" + strings.Join(ps, ", ") + ") -> Out:\n")
		if v.Body.K != "tr" {
			bail("view body is not a transform")
		}
		if len(v.Params) == 0 {
			bail("view without parameters")
		}
		sb.WriteString("    ")
		srcTransform(&sb, v.Body, "    ", false)
		sb.WriteString("\n")
	}
	return sb.String(), ""
}
