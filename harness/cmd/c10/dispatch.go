// Dispatch per EVALUATION, not per NODE (deepen round 3, second pass).
//
// The evaluator chooses the Go function of a binary expression from the operator and the KINDS of the two evaluated
// operands (valueFunctions / exprFunctions keyed by makeKey(op, kind, kind)), a unary function from the operator and
// then by a type switch on the operand, a transform / .count / attribute access by the kind of the evaluated argument.
// That choice has to be made at every evaluation: one expression NODE can be evaluated many times within one
// evaluation, with operands of different kinds each time. The programs below do exactly that, for every operator of
// the dispatch tables, through four carriers:
//
//	transform   recs -> <sequence of Out>(x: y = x.l OP x.r)   over records whose l / r change kind from element to element
//	where       recs where(x: <boolean made of x.l OP x.r>)     the predicate node, same records
//	view        F(a, b, z) = z -> (: y = a OP b), called several times in one body with arguments of different kinds
//	recursion   R(n) = if n <= 0 then [] else [L(n) OP R'(n)] | R(n - 1): the node in the body of a recursive view,
//	            the operand kinds chosen by the level
//
// and the kinds come in the orders A B A and B A B (a stale choice that is refreshed only once is seen too). The
// operators with ONE table row (- * / % < <= > >= &&) cannot meet a second kind inside the language: for them the
// second evaluation is a table hole and must end the process (compared with the Coq model only, family dispatch-hole).
//
// Oracle: the reference interpreter (ref.go) gives the value of every element; nothing here depends on the Coq model.
package main

import (
	"fmt"

	"verifharness/common"
)

// one operand pair of a binary operator, taken from a row of valueFunctions the reference defines
type opPair struct {
	row  string // lhs kind, rhs kind
	l, r *Val
}

var null = &Val{K: "null"}

func strs(xs ...string) []*Val {
	out := []*Val{}
	for _, x := range xs {
		out = append(out, vStr(x))
	}
	return out
}
func ints(xs ...int64) []*Val {
	out := []*Val{}
	for _, x := range xs {
		out = append(out, vInt(x))
	}
	return out
}

// rows of the value-function table per operator: several pairs per row so that equal and unequal operands both occur
func dispatchRows(r *common.Rng, op string) [][]opPair {
	i := func() *Val { return vInt([]int64{0, 1, 2, 3, -4, 7}[r.Intn(6)]) }
	s := func() *Val { return vStr([]string{"a", "b", "", "ab"}[r.Intn(4)]) }
	m := vMap([]KV{{"a", vInt(1)}, {"f", vStr("x")}})
	switch op {
	case "EQ", "NE":
		a, b, c := i(), s(), vBool(r.Bool())
		return [][]opPair{
			{{"int,int", a, a}, {"int,int", a, vInt(a.I + 1)}},
			{{"string,string", b, b}, {"string,string", b, vStr(b.S + "x")}},
			{{"bool,bool", c, c}, {"bool,bool", c, vBool(!c.B)}},
			{{"int,null", i(), null}},
			{{"null,int", null, i()}},
			{{"null,null", null, null}},
			{{"null,string", null, s()}},
			{{"string,null", s(), null}},
			{{"list,null", vList(ints(1)), null}, {"list,null", vList([]*Val{}), null}},
		}
	case "ADD":
		return [][]opPair{
			{{"int,int", i(), i()}, {"int,int", vInt(5), vInt(9)}},
			{{"string,string", s(), s()}, {"string,string", vStr("p"), vStr("q")}},
		}
	case "BITOR":
		return [][]opPair{
			{{"list,list", vList(ints(1, 2)), vList(ints(2, 3))}, {"list,list", vList(strs("a")), vList(strs("a", "b"))}},
			{{"set,set", vSet(ints(3, 1)), vSet(ints(2, 1))}, {"set,set", vSet(strs("b", "a")), vSet(strs("c", "a"))}},
			{{"list,set", vList(ints(4, 4)), vSet(ints(9, 4))}, {"list,set", vList(strs("z")), vSet(strs("y", "z"))}},
		}
	case "IN", "NOT_IN":
		return [][]opPair{
			{{"string,list", vStr("a"), vList(strs("b", "a"))}, {"string,list", vStr("c"), vList(strs("b", "a"))}},
			{{"string,set", vStr("a"), vSet(strs("a"))}, {"string,set", vStr("b"), vSet(strs("a", "c"))}},
			{{"string,map", vStr("a"), m}, {"string,map", vStr("g"), m}},
			{{"string,null", s(), null}},
		}
	}
	panic("dispatchRows " + op)
}

var dispatchBinOps = []string{"EQ", "NE", "ADD", "BITOR", "IN", "NOT_IN"}

// a sequence of operand pairs in which the kind row changes from one evaluation to the next and comes back: A B A, or
// B A B C ...; never two neighbours of one row
func kindSequence(r *common.Rng, rows [][]opPair, n int) []opPair {
	var out []opPair
	a, b := r.Intn(len(rows)), r.Intn(len(rows)-1)
	if b >= a {
		b++
	}
	pick := func(k int) opPair { return rows[k][r.Intn(len(rows[k]))] }
	out = append(out, pick(a), pick(b), pick(a))
	last := a
	for len(out) < n {
		k := r.Intn(len(rows) - 1)
		if k >= last {
			k++
		}
		out = append(out, pick(k))
		last = k
	}
	return out
}

// sel(i) = if i == 1 then v1 else if i == 2 then v2 ... else vn: the operand of level / element i, written with
// literals so that the program can also be rendered as view source
func selByIndex(ix *Expr, vs []*Val) *Expr {
	e := eLit(vs[len(vs)-1])
	for k := len(vs) - 2; k >= 0; k-- {
		e = eIf(eBin("EQ", ix, iLit(int64(k+1))), eLit(vs[k]), e)
	}
	return e
}

func pairVals(ps []opPair) (ls, rs []*Val) {
	for _, p := range ps {
		ls = append(ls, p.l)
		rs = append(rs, p.r)
	}
	return
}

// the records {l, r} the transform / where carriers iterate over: as map literals, or built by a transform over
// 1..n whose fields are chosen by `if` (renderable as source)
func recordsExpr(r *common.Rng, ps []opPair, literal bool) *Expr {
	if literal {
		var es []*Val
		for _, p := range ps {
			es = append(es, vMap([]KV{{"l", p.l}, {"r", p.r}}))
		}
		return eLit(vList(es))
	}
	var idx []*Expr
	for k := range ps {
		idx = append(idx, iLit(int64(k+1)))
	}
	ls, rs := pairVals(ps)
	return eTr(eList(idx...), "i", "other", sAssign("l", selByIndex(eName("i"), ls)), sAssign("r", selByIndex(eName("i"), rs)))
}

// a boolean made of the node's value, true for some elements and false for others where the values allow it
func predicateOf(op string, node *Expr, first *Val) *Expr {
	switch op {
	case "EQ", "NE", "IN", "NOT_IN":
		return node
	}
	s, err := refStr(first)
	if err != nil {
		s = ""
	}
	return eBin("NE", eUn("STRING", node), eLit(vStr(s)))
}

func dispatchMain(fam string, views []View, st ...Stmt) *Prog {
	views = append(views, View{Name: "main", Params: []string{"p0"}, Body: eTr(eName("p0"), ".", "other", st...)})
	return &Prog{Typed: true, Family: fam, Main: "main", Scope: []KV{{"p0", vInt(0)}}, Views: views}
}

func binNode(op string, l, r *Expr) *Expr { return eBin(op, l, r) }

// value of `l op r` by the reference (nil when outside it)
func refBin(op string, l, r *Val) *Val {
	v, _, err := refRun(dispatchMain("x", nil, sAssign("y", eBin(op, eLit(l), eLit(r)))))
	if err != nil {
		return nil
	}
	y, _ := mapGet(v, "y")
	return y
}

func dispatchBinary(r *common.Rng, op string, carrier int) *Prog {
	ps := kindSequence(r, dispatchRows(r, op), 3+r.Intn(3))
	fam := fmt.Sprintf("dispatch:%s:", op)
	switch carrier {
	case 0, 1: // transform + where over heterogeneous records
		recs := recordsExpr(r, ps, carrier == 1)
		node := func() *Expr { return binNode(op, eAttr(eName("x"), "l"), eAttr(eName("x"), "r")) }
		first := refBin(op, ps[0].l, ps[0].r)
		st := []Stmt{
			sLet("recs", recs),
			sAssign("out", eTr(eName("recs"), "x", "other", sAssign("y", node()))),
			sAssign("kept", eBinSv("WHERE", eName("recs"), predicateOf(op, node(), first), "x")),
			sAssign("n", eCall(".count", eName("recs"))),
		}
		if carrier == 1 {
			// set-typed: equal results of different elements are one result
			st = append(st, sAssign("distinct", eTr(eName("recs"), "x", "set", sAssign("y", node()))))
		}
		return dispatchMain(fam+[]string{"transform", "transform-literal"}[carrier], nil, st...)
	case 2: // one view called several times in one body
		f := View{Name: "F", Params: []string{"a", "b", "z"}, Body: eTr(eName("z"), ".", "other", sAssign("y", binNode(op, eName("a"), eName("b"))))}
		var st []Stmt
		for k, p := range ps {
			st = append(st, sAssign(fmt.Sprintf("r%d", k), eAttr(eCall("F", eLit(p.l), eLit(p.r), eName("p0")), "y")))
		}
		// and once more with the first pair: the node has seen every other kind in between
		st = append(st, sAssign("again", eAttr(eCall("F", eLit(ps[0].l), eLit(ps[0].r), eName("p0")), "y")))
		return dispatchMain(fam+"view", []View{f}, st...)
	default: // the node in the body of a recursive view, operand kinds chosen by the level
		ls, rs := pairVals(ps)
		n := func() *Expr { return eName("n") }
		body := eIf(eBin("LE", n(), iLit(0)), eList(),
			eBin("BITOR", eList(binNode(op, selByIndex(n(), ls), selByIndex(n(), rs))), eCall("R", eBin("SUB", n(), iLit(1)))))
		rv := View{Name: "R", Params: []string{"n"}, Body: body}
		return dispatchMain(fam+"recursion", []View{rv},
			sAssign("levels", eCall("R", iLit(int64(len(ps))))), sAssign("again", eCall("R", iLit(int64(len(ps))))))
	}
}

// unary operators, .count, where / flatten (exprFunctions rows), transforms and attribute access: the node's argument
// changes kind between evaluations
func dispatchOther(r *common.Rng, which int) *Prog {
	m := vMap([]KV{{"a", vInt(1)}, {"f", vStr("x")}})
	type one struct {
		fam  string
		body func(a *Expr) *Expr // the node under test applied to the view's parameter
		args [][]*Val            // rows of argument values, one kind per row
	}
	cases := []one{
		{"dispatch:NEG", func(a *Expr) *Expr { return eUn("NEG", a) },
			[][]*Val{{vInt(3), vInt(-4), vInt(0)}, {vBool(true), vBool(false)}}},
		{"dispatch:STRING", func(a *Expr) *Expr { return eUn("STRING", a) },
			[][]*Val{{vInt(12)}, {vStr("s")}, {vBool(true)}, {vList(ints(1, 2))}, {vSet(strs("a"))}, {m}}},
		{"dispatch:SINGLE", func(a *Expr) *Expr { return eUn("SINGLE", a) },
			[][]*Val{{vList(ints(7))}, {vSet(strs("q"))}, {vList([]*Val{vList(ints(1))})}}},
		{"dispatch:count", func(a *Expr) *Expr { return eCall(".count", a) },
			[][]*Val{{vList(ints(1, 1, 2))}, {vSet(strs("a", "b"))}, {m}, {vList([]*Val{})}}},
		{"dispatch:WHERE", func(a *Expr) *Expr { return eBinSv("WHERE", a, eBin("EQ", iLit(1), iLit(1)), "x") },
			[][]*Val{{vList(ints(1, 2))}, {vSet(ints(2, 1))}, {m}, {vList(strs("a"))}, {vSet([]*Val{vList(ints(1))})}, {vList([]*Val{null, vInt(1)})}}},
		{"dispatch:WHERE-null", func(a *Expr) *Expr { return eBinSv("WHERE", a, eBin("NE", eName("x"), eLit(null)), "x") },
			[][]*Val{{vList([]*Val{vInt(1), null, vInt(2)})}, {vSet([]*Val{null, vStr("a")})}, {vList([]*Val{null, null})}, {vList([]*Val{vStr("s"), null, vStr("t")})}}},
		{"dispatch:FLATTEN", func(a *Expr) *Expr { return eBinSv("FLATTEN", a, eName("x"), "x") },
			[][]*Val{{vList([]*Val{vList(ints(1, 2)), vList(ints(3))})}, {vList([]*Val{vSet(ints(4)), vSet(ints(5, 6))})},
				{vSet([]*Val{vList(ints(7)), vList(ints(8))})}, {vSet([]*Val{vSet(strs("a")), vSet(strs("b"))})},
				{vList([]*Val{m})}, {vSet([]*Val{m})}, {vList([]*Val{})}, {vSet([]*Val{})}}},
		{"dispatch:transform-argument", func(a *Expr) *Expr {
			return eTr(a, "x", "other", sAssign("y", eUn("STRING", eName("x"))))
		}, [][]*Val{{vList(ints(1, 2))}, {vSet(strs("b", "a"))}, {m}, {vInt(5)}, {vStr("s")}}},
		{"dispatch:transform-argument-set", func(a *Expr) *Expr {
			return eTr(a, "x", "set", sAssign("y", eBin("EQ", iLit(1), iLit(1))))
		}, [][]*Val{{vList(ints(1, 2))}, {vSet(strs("b", "a"))}, {m}}},
	}
	c := cases[which%len(cases)]
	// argument sequence A B A C ...
	a, b := r.Intn(len(c.args)), r.Intn(len(c.args)-1)
	if b >= a {
		b++
	}
	pick := func(k int) *Val { return c.args[k][r.Intn(len(c.args[k]))] }
	seq := []*Val{pick(a), pick(b), pick(a)}
	last := a
	for len(seq) < 3+r.Intn(3) {
		k := r.Intn(len(c.args) - 1)
		if k >= last {
			k++
		}
		seq = append(seq, pick(k))
		last = k
	}
	f := View{Name: "F", Params: []string{"a", "z"}, Body: eTr(eName("z"), ".", "other", sAssign("y", c.body(eName("a"))))}
	var st []Stmt
	for k, v := range seq {
		st = append(st, sAssign(fmt.Sprintf("r%d", k), eAttr(eCall("F", eLit(v), eName("p0")), "y")))
	}
	// the same node inside a transform over the list of the arguments (one node, one evaluation per element)
	st = append(st, sAssign("each", eTr(eLit(vList(seq)), "e", "other", sAssign("y", c.body(eName("e"))))))
	return dispatchMain(c.fam, []View{f}, st...)
}

const nDispatchOther = 9

// attribute access: one node `x.f`, x a (key, value) pair made by a transform over map entries at one evaluation and a
// plain record at the next
func dispatchAttr(r *common.Rng) *Prog {
	rec := vMap([]KV{{"f", vInt(int64(r.Intn(5)))}, {"g", vStr("s")}})
	outer := vMap([]KV{{"k1", rec}, {"k2", vMap([]KV{{"f", vInt(9)}})}})
	g := View{Name: "G", Params: []string{"x", "z"}, Body: eTr(eName("z"), ".", "other", sAssign("y", eAttr(eName("x"), "f")), sAssign("miss", eAttr(eName("x"), "nosuch")))}
	st := []Stmt{
		sLet("m", eLit(outer)),
		sAssign("plain", eCall("G", eLit(rec), eName("p0"))),
		sAssign("entries", eTr(eName("m"), "e", "other", sAssign("v", eCall("G", eName("e"), eName("p0"))), sAssign("k", eAttr(eName("e"), "key")))),
		sAssign("plain_again", eCall("G", eLit(rec), eName("p0"))),
	}
	return dispatchMain("dispatch:attribute", []View{g}, st...)
}

// operators with ONE row in valueFunctions: the second evaluation of the node meets other kinds = a table hole; the
// process must end there (the Coq model says so; a function remembered from the first evaluation would answer)
var singleRowOps = []string{"SUB", "MUL", "DIV", "MOD", "LT", "LE", "GT", "GE", "AND"}

func dispatchHole(r *common.Rng, op string) *Prog {
	good := opPair{"", vInt(int64(6 + r.Intn(3))), vInt(int64(1 + r.Intn(3)))}
	bad := []opPair{{"", vStr("a"), vInt(1)}, {"", vInt(1), vStr("a")}, {"", vStr("a"), vStr("b")}, {"", null, vInt(2)}, {"", vInt(2), vBool(true)}}[r.Intn(5)]
	if op == "AND" {
		good = opPair{"", vBool(true), vBool(r.Bool())}
		bad = []opPair{{"", vInt(1), vBool(true)}, {"", vBool(true), vInt(0)}, {"", vStr("a"), vStr("a")}}[r.Intn(3)]
	}
	ps := []opPair{good, good, bad, good}
	var p *Prog
	if r.Bool() {
		node := binNode(op, eAttr(eName("x"), "l"), eAttr(eName("x"), "r"))
		p = dispatchMain("dispatch-hole:"+op, nil, sLet("recs", recordsExpr(r, ps, true)), sAssign("out", eTr(eName("recs"), "x", "other", sAssign("y", node))))
	} else {
		f := View{Name: "F", Params: []string{"a", "b", "z"}, Body: eTr(eName("z"), ".", "other", sAssign("y", binNode(op, eName("a"), eName("b"))))}
		var st []Stmt
		for k, q := range ps {
			st = append(st, sAssign(fmt.Sprintf("r%d", k), eCall("F", eLit(q.l), eLit(q.r), eName("p0"))))
		}
		p = dispatchMain("dispatch-hole:"+op, []View{f}, st...)
	}
	p.Typed = false // outside the reference: compared with the model only (both must end with status 1)
	return p
}

// the stream: every operator x every carrier once per run, then seeded repeats
func dispatchPrograms(r *common.Rng, scale int) []*Prog {
	var out []*Prog
	for rep := 0; rep < scale; rep++ {
		for _, op := range dispatchBinOps {
			for carrier := 0; carrier < 4; carrier++ {
				out = append(out, dispatchBinary(r.Fork(), op, carrier))
			}
		}
		for k := 0; k < nDispatchOther; k++ {
			out = append(out, dispatchOther(r.Fork(), k))
		}
		out = append(out, dispatchAttr(r.Fork()))
		for _, op := range singleRowOps {
			out = append(out, dispatchHole(r.Fork(), op))
		}
	}
	return out
}

// the fixed input of the seeded regression this family was written for: `x.note == null` over notes string, null, string
func fixedNoteNull() *Prog {
	recs := eTr(eList(iLit(1), iLit(2), iLit(3)), "i", "other",
		sAssign("id", eName("i")), sAssign("note", eIf(eBin("EQ", eName("i"), iLit(2)), eLit(null), eLit(vStr("n")))))
	st := []Stmt{
		sLet("recs", recs),
		sAssign("out", eTr(eName("recs"), "x", "other", sAssign("id", eAttr(eName("x"), "id")), sAssign("blank", eBin("EQ", eAttr(eName("x"), "note"), eLit(null))))),
		sAssign("with_note", eBinSv("WHERE", eName("recs"), eBin("NE", eAttr(eName("x"), "note"), eLit(null)), "x")),
	}
	return dispatchMain("dispatch:EQ:note-null", nil, st...)
}
