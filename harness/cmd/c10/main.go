// C10 correspondence + oracle: view evaluation (pkg/eval) follows the expression semantics and is pure.
//
// Every generated program (views + caller's scope) is evaluated by the REAL eval.EvaluateView in a worker
// subprocess (eval failures end in os.Exit(1)); the observation (value, caller's scope afterwards / exit 1) is
//   - judged by a model-independent oracle (ref.go: a reference interpreter of the expression language on pure
//     values with lexical scoping) on the programs of the typed streams, and
//   - printed with the program as a Gallina case and compared with the Coq model (Eval/Interp.v) on all streams.
package main

import (
	"encoding/json"
	"fmt"
	"os"
	"sort"
	"strings"

	"verifharness/common"
)

type judged struct {
	emptyHelperList bool // the reference saw a native helper return an empty list
	lets            []KV // reference values of the top-level lets of the main body
	p               *Prog
	o               obs
	o2              *obs // second run (determinism), typed streams only
	ref             *Val
	err             error
}

func obsString(o obs) string {
	switch {
	case o.Exit1:
		return "exit status 1"
	case o.Other != "":
		return "abnormal: " + o.Other
	}
	return o.V.String()
}

func kvGet(m []KV, k string) (*Val, bool) {
	for _, kv := range m {
		if kv.Key == k {
			return kv.V, true
		}
	}
	return nil, false
}

func progText(p *Prog) string {
	b, _ := json.Marshal(p.Views)
	s := string(b)
	if len(s) > 400 {
		s = s[:400] + "..."
	}
	return s
}

// usesOp: some expression of the program applies the operator
func usesOp(p *Prog, kind, op string) bool {
	found := false
	var walk func(e *Expr)
	walk = func(e *Expr) {
		if e.K == kind && e.Op == op {
			found = true
		}
		for _, a := range e.A {
			walk(a)
		}
		for _, s := range e.Stmts {
			walk(s.E)
		}
	}
	for _, v := range p.Views {
		walk(v.Body)
	}
	return found
}

// names bound by a `let` anywhere in the program
func letNames(p *Prog) map[string]bool {
	out := map[string]bool{}
	var walk func(e *Expr)
	walk = func(e *Expr) {
		for _, a := range e.A {
			walk(a)
		}
		for _, s := range e.Stmts {
			if s.Let {
				out[s.Name] = true
			}
			walk(s.E)
		}
	}
	for _, v := range p.Views {
		walk(v.Body)
	}
	return out
}

// judge the PROPERTY on one observation, independently of the Coq model. Only programs of the typed streams
// (inside the reference semantics) are judged: the property quantifies over well-typed view bodies.
var shrunk = map[string]int{}

func judge(c *common.Ctx, j *judged) {
	key, what := verdict(j)
	if key == "" {
		return
	}
	rp := j.p
	// recursive programs are not shrunk: a reduction can remove the base case and the real evaluator has no step limit
	if shrunk[key] < 2 && progSize(j.p) > 25 && !strings.HasPrefix(j.p.Family, "recursive") && !strings.HasSuffix(j.p.Family, ":recursion") {
		shrunk[key]++
		rp = shrink(j.p, key, 300)
		what += " | shrunk: " + progText(rp)
	}
	c.Fail(key, what, rp)
}

// verdict: "" when the property holds on this observation, else the abstract key and a description
func verdict(j *judged) (string, string) {
	p := j.p
	if !p.Typed {
		return "", ""
	}
	if j.err != nil {
		return "", ""
	}
	fam := p.Family
	if p.Src != "" {
		if strings.HasPrefix(j.o.Other, "source ") {
			return "", "" // the renderer left the grammar: not an observation of the evaluator
		}
		fam = "via-parser:" + fam
	}
	if j.o.Other != "" {
		return "abnormal-end:" + fam, fmt.Sprintf("[%s] evaluation ended abnormally (%s): %s", fam, j.o.Other, progText(p))
	}
	// (1) the value defined by the expression language
	if j.o.Exit1 && j.emptyHelperList {
		return "evaluation-fails:helper-returns-empty-list", fmt.Sprintf("[%s] a native helper whose result is the empty list (Fields of a blank string, Split(\"\", \"\"), FindAllString without a match) ends the process with status 1; the view's value is %s: %s", fam, j.ref.String(), progText(p))
	}
	if j.o.Exit1 && usesOp(p, "bin", "OR") {
		return "evaluation-fails:boolean-or-unsupported", fmt.Sprintf("[%s] `a || b` on two booleans (Expr_BinExpr_OR, which the parser produces for `||`) has no entry in functionEvalStrategy / valueFunctions: the process ends with status 1, the value is %s: %s", fam, j.ref.String(), progText(p))
	}
	if j.o.Exit1 && usesOp(p, "un", "NOT") {
		return "evaluation-fails:boolean-not-unsupported", fmt.Sprintf("[%s] `!a` on a boolean (Expr_UnExpr_NOT, which the parser produces for `!`) has no entry in unaryFunctions: the process ends with status 1, the value is %s: %s", fam, j.ref.String(), progText(p))
	}
	if j.o.Exit1 {
		return "evaluation-fails:" + fam, fmt.Sprintf("[%s] a well-typed view whose value is %s ends the process with status 1: %s", fam, j.ref.String(), progText(p))
	}
	if fam == "nested-let-rebinds-outer-let" && j.o.V.K == "m" && !valEq(j.o.V, j.ref) {
		// what "the nested let overwrote the outer one" predicts: out = the inner transform's x
		if inner, ok := mapGet(j.ref, "inner"); ok && inner.K == "m" {
			if f, ok := mapGet(inner, "f"); ok {
				exp := cloneVal(j.ref)
				for i := range exp.M {
					if exp.M[i].Key == "out" {
						exp.M[i].V = f
					}
				}
				if valEq(j.o.V, exp) {
					return "outer-let-rebound-by-nested-let", fmt.Sprintf("[%s] a `let x` inside a nested transform replaced the outer `let x`: the outer body reads %s afterwards, lexical scoping gives %s: %s", fam, j.o.V.String(), j.ref.String(), progText(p))
				}
			}
		}
	}
	if !valEq(j.o.V, j.ref) {
		// a `set of` transform over the entries of a MAP does not drop equal results (over a list or a set it does): when the
		// observed value is exactly what that predicts, the narrow key
		if alt, _, err := refRunOpt(p, true); err == nil && !valEq(alt, j.ref) && valEq(j.o.V, alt) {
			return "set-transform-over-map-keeps-duplicates", fmt.Sprintf("[%s] a transform typed `set of ...` over the entries of a map returned a set with equal members: EvaluateView returned %s, without duplicates it is %s (evalTransform appends every entry's result with AppendItemToValueList and only labels the list a set; over a list or a set setAppender drops equal results): %s", fam, j.o.V.String(), j.ref.String(), progText(p))
		}
		return "wrong-value:" + fam, fmt.Sprintf("[%s] EvaluateView returned %s, the expression semantics give %s: %s", fam, j.o.V.String(), j.ref.String(), progText(p))
	}
	// (2) no variable bound before the evaluation is bound to another value afterwards
	lets := letNames(p)
	var changed, changedByLet []string
	for _, kv := range p.Scope {
		after, has := kvGet(j.o.Scope, kv.Key)
		if has && valEq(after, kv.V) {
			continue
		}
		// attributed to the known let-rebinding only when the variable now holds exactly what the reference says the
		// (last) top-level `let` of that name computes
		var want *Val
		for _, l := range j.lets {
			if l.Key == kv.Key {
				want = l.V
			}
		}
		if lets[kv.Key] && has && want != nil && valEq(after, want) {
			changedByLet = append(changedByLet, kv.Key)
		} else {
			changed = append(changed, kv.Key)
		}
	}
	if len(changed) > 0 {
		after, has := kvGet(j.o.Scope, changed[0])
		as := "unbound"
		if has {
			as = after.String()
		}
		before, _ := kvGet(p.Scope, changed[0])
		return "caller-binding-changed:" + fam, fmt.Sprintf("[%s] variable %s of the caller's scope was %s before the evaluation and is %s afterwards: %s", fam, changed[0], before.String(), as, progText(p))
	}
	if len(changedByLet) > 0 {
		return "caller-binding-rebound-by-let", fmt.Sprintf("[%s] the view has a `let %s` and variable %s of the caller's scope holds another value after the evaluation: %s", fam, changedByLet[0], changedByLet[0], progText(p))
	}
	// (2b) the module is not written to (deep comparison with a copy taken before the evaluation)
	if j.o.Mod != "" {
		if strings.HasPrefix(j.o.Mod, "view-body-type-defaulted:") {
			return "module-changed:view-body-type-defaulted", fmt.Sprintf("[%s] eval.EvaluateView wrote into the module: the Type of the body expression of view %s was nil before the evaluation and is the view's return type afterwards (EvaluateView / evalCall: `view.Expr.Type = view.RetType`): %s", fam, strings.TrimPrefix(j.o.Mod, "view-body-type-defaulted:"), progText(p))
		}
		return "module-changed:" + fam, fmt.Sprintf("[%s] the module differs after eval.EvaluateView (%s): %s", fam, j.o.Mod, progText(p))
	}
	// (3) equal inputs give equal results
	if j.o2 != nil {
		a, _ := json.Marshal(j.o)
		b, _ := json.Marshal(*j.o2)
		if string(a) != string(b) {
			return "nondeterministic:" + fam, fmt.Sprintf("[%s] two evaluations of the same view on the same scope differ: %s vs %s: %s", fam, obsString(j.o), obsString(*j.o2), progText(p))
		}
	}
	return "", ""
}

func gObs(o obs) string {
	switch {
	case o.Exit1:
		return "OExit1"
	case o.Other != "":
		return "OOther"
	}
	return "(OValue " + gVal(o.V) + " " + gKVs(o.Scope) + ")"
}

func gCase(p *Prog, o obs) string {
	return fmt.Sprintf("(%s, %s, %s, %s, %s)", gViews(p), gStr(p.Main), gKVs(p.Scope), gObs(o), common.GBool(p.Typed && !p.Lax && p.Family != "matrix" && p.Family != "depth2"))
}

// let-rebinding family (reported under its own key): a let of the main body takes the name of a parameter
func shapeLetRebind(r *common.Rng) *Prog {
	g := newGen(r, map[string]int{})
	v := g.randVal(tInt, 0)
	st := []Stmt{
		sLet("q", eBin("ADD", eName("p1"), eLit(vInt(1)))),
		sLet("p1", eBin("MUL", eName("q"), eLit(vInt(int64(2+r.Intn(3)))))),
		sAssign("a", eName("p1")),
		sAssign("b", eName("q")),
	}
	return &Prog{Typed: true, Family: "let-rebinds-parameter", Main: "main", Scope: []KV{{"p0", vInt(0)}, {"p1", v}},
		Views: []View{{Name: "main", Params: []string{"p0", "p1"}, Body: eTr(eName("p0"), ".", "other", st...)}}}
}

func cloneVal(v *Val) *Val {
	b, _ := json.Marshal(v)
	var w Val
	json.Unmarshal(b, &w)
	return &w
}

// a let inside a nested transform takes the name of a let of the enclosing body, which is read afterwards
func shapeNestedLetRebind(r *common.Rng) *Prog {
	a, b := int64(r.Intn(5)), int64(10+r.Intn(5))
	inner := eTr(eName("p0"), ".", "other", sLet("x", eLit(vInt(b))), sAssign("f", eName("x")))
	st := []Stmt{
		sLet("x", eLit(vInt(a))),
		sLet("r", inner),
		sAssign("out", eName("x")),
		sAssign("inner", eName("r")),
	}
	return &Prog{Typed: true, Family: "nested-let-rebinds-outer-let", Main: "main", Scope: []KV{{"p0", vInt(0)}},
		Views: []View{{Name: "main", Params: []string{"p0"}, Body: eTr(eName("p0"), ".", "other", st...)}}}
}

// unions of int / string sets written unsorted and with repeats, visible in the result
func shapeSetUnion(r *common.Rng) *Prog {
	mk := func(str bool) *Expr {
		n := 1 + r.Intn(4)
		var es []*Expr
		for i := 0; i < n; i++ {
			if str {
				es = append(es, eLit(vStr(strPool[r.Intn(len(strPool))])))
			} else {
				es = append(es, eLit(vInt(intPool[r.Intn(len(intPool))])))
			}
		}
		return eSet(es...)
	}
	st := []Stmt{
		sLet("a", mk(false)), sLet("b", mk(false)), sLet("s", mk(true)), sLet("t", mk(true)),
		sLet("u", eBin("BITOR", eName("a"), eName("b"))),
		sAssign("ints", eName("u")),
		sAssign("again", eBin("BITOR", eName("u"), eName("a"))),
		sAssign("strs", eBin("BITOR", eName("s"), eName("t"))),
		sAssign("self", eBin("BITOR", eName("s"), eName("s"))),
		sAssign("n", eCall(".count", eName("u"))),
		sAssign("a_after", eName("a")),
		sAssign("has", eBin("IN", eLit(vStr("a")), eBin("BITOR", eName("s"), eName("t")))),
	}
	return &Prog{Typed: true, Family: "set-union", Main: "main", Scope: []KV{{"p0", vInt(0)}},
		Views: []View{{Name: "main", Params: []string{"p0"}, Body: eTr(eName("p0"), ".", "other", st...)}}}
}

// transforms over the entries of a map (scope variable bound to (key, value) pairs), nested inside a transform over a
// list and reading both the pair's attributes and the outer scope variable
func shapeMapTransform(r *common.Rng) *Prog {
	n := 1 + r.Intn(3)
	var fields []Stmt
	for i := 0; i < n; i++ {
		fields = append(fields, sAssign(fieldPool[(i+r.Intn(2)*3)%len(fieldPool)], eLit(vInt(int64(r.Intn(9))))))
	}
	rec := eTr(eName("p0"), ".", "other", fields...)
	ty := []string{"other", "set"}[r.Intn(2)]
	entries := eTr(eName("m"), "e", ty, sAssign("k", eAttr(eName("e"), "key")), sAssign("v", eAttr(eName("e"), "value")))
	inner := eTr(eName("m"), "e", "other",
		sAssign("kk", eBin("ADD", eAttr(eName("e"), "key"), eLit(vStr("!")))),
		sAssign("s", eBin("ADD", eAttr(eName("e"), "value"), eName("x"))))
	var xs []*Expr
	for i := 0; i < 1+r.Intn(3); i++ {
		xs = append(xs, eLit(vInt(int64(r.Intn(5)))))
	}
	outer := eTr(eList(xs...), "x", "other", sAssign("x0", eName("x")), sAssign("rows", inner))
	st := []Stmt{
		sLet("m", rec), sAssign("entries", entries), sAssign("nested", outer),
		sAssign("n", eCall(".count", eName("m"))), sAssign("has", eBin("IN", eLit(vStr("f")), eName("m"))),
		sAssign("m_after", eName("m")),
	}
	return &Prog{Typed: true, Family: "map-transform", Main: "main", Scope: []KV{{"p0", vInt(0)}},
		Views: []View{{Name: "main", Params: []string{"p0"}, Body: eTr(eName("p0"), ".", "other", st...)}}}
}

// where over a MAP (whereMap): predicates on the pair's value and key, the scope variable shadowing an outer binding
// that is read afterwards, the result used by count / membership / a transform over its entries
func shapeWhereMap(r *common.Rng) *Prog {
	n := 1 + r.Intn(4)
	var fields []Stmt
	used := map[string]bool{}
	for i := 0; i < n; i++ {
		f := fieldPool[r.Intn(len(fieldPool))]
		if used[f] {
			continue
		}
		used[f] = true
		fields = append(fields, sAssign(f, eLit(vInt(int64(r.Intn(9))))))
	}
	if len(used) == 2 && used["key"] && used["value"] {
		fields = fields[:1] // exactly {key, value} is what the evaluator takes for an entry pair
	}
	rec := eTr(eName("p0"), ".", "other", fields...)
	c := int64(r.Intn(9))
	byValue := eBinSv("WHERE", eName("m"), eBin([]string{"GT", "LE", "NE"}[r.Intn(3)], eAttr(eName("e"), "value"), eLit(vInt(c))), "e")
	byKey := eBinSv("WHERE", eName("m"), eBin("NE", eAttr(eName("e"), "key"), eLit(vStr(fieldPool[r.Intn(len(fieldPool))]))), "e")
	both := eBinSv("WHERE", eBinSv("WHERE", eName("m"), eBin("GE", eAttr(eName("."), "value"), eLit(vInt(c/2))), "."),
		eBin("IN", eAttr(eName("x"), "key"), eList(eLit(vStr("f")), eLit(vStr("g")), eLit(vStr("key")))), "x")
	keys := eTr(eName("kept"), "y", "other", sAssign("k", eAttr(eName("y"), "key")), sAssign("v", eAttr(eName("y"), "value")))
	st := []Stmt{
		sLet("m", rec), sLet("kept", byValue), sAssign("kept", eName("kept")), sAssign("by_key", byKey), sAssign("both", both),
		sAssign("n", eCall(".count", eName("kept"))), sAssign("has", eBin("IN", eLit(vStr("f")), eName("kept"))),
		sAssign("entries", keys), sAssign("m_after", eName("m")), sAssign("e_after", eBin("ADD", eName("e"), eLit(vStr("#")))),
		sAssign("none", eBinSv("WHERE", eName("m"), eLit(vBool(false)), "e")),
	}
	return &Prog{Typed: true, Family: "where-map", Main: "main", Scope: []KV{{"e", vStr(strPool[r.Intn(len(strPool))])}, {"p0", vInt(0)}},
		Views: []View{{Name: "main", Params: []string{"e", "p0"}, Body: eTr(eName("p0"), ".", "other", st...)}}}
}

// boolean OR and NOT: operators of the grammar (`||`, `!`) the evaluator's tables have no entry for (fixed inputs of two
// findings, every run)
func fixedBoolOr() *Prog {
	st := []Stmt{sAssign("out", eBin("OR", eBin("EQ", eName("p0"), eLit(vInt(1))), eLit(vBool(true))))}
	return &Prog{Typed: true, Family: "boolean-or", Main: "main", Scope: []KV{{"p0", vInt(0)}},
		Views: []View{{Name: "main", Params: []string{"p0"}, Body: eTr(eName("p0"), ".", "other", st...)}}}
}
func fixedBoolNot() *Prog {
	st := []Stmt{sAssign("out", eUn("NOT", eBin("EQ", eName("p0"), eLit(vInt(1)))))}
	return &Prog{Typed: true, Family: "boolean-not", Main: "main", Scope: []KV{{"p0", vInt(0)}},
		Views: []View{{Name: "main", Params: []string{"p0"}, Body: eTr(eName("p0"), ".", "other", st...)}}}
}

// a `set of` transform over the entries of a map whose results are equal (fixed input of a known finding, every run)
func fixedMapSetDup() *Prog {
	rec := eTr(eName("p0"), ".", "other", sAssign("a", eLit(vInt(1))), sAssign("b", eLit(vInt(2))), sAssign("c", eLit(vInt(30))))
	st := []Stmt{
		sLet("m", rec),
		sAssign("sizes", eTr(eName("m"), "e", "set", sAssign("big", eBin("GT", eAttr(eName("e"), "value"), eLit(vInt(9)))))),
		sAssign("as_list", eTr(eName("m"), "e", "other", sAssign("big", eBin("GT", eAttr(eName("e"), "value"), eLit(vInt(9)))))),
	}
	return &Prog{Typed: true, Family: "map-set-transform-duplicates", Main: "main", Scope: []KV{{"p0", vInt(0)}},
		Views: []View{{Name: "main", Params: []string{"p0"}, Body: eTr(eName("p0"), ".", "other", st...)}}}
}

// ---- fixed regression inputs of the two known findings, and a self-check of the oracle's attribution ----
func fixedLetRebind() *Prog {
	st := []Stmt{sLet("p1", eBin("ADD", eName("p1"), eLit(vInt(41)))), sAssign("a", eName("p1"))}
	return &Prog{Typed: true, Family: "let-rebinds-parameter", Main: "main", Scope: []KV{{"p0", vInt(0)}, {"p1", vInt(1)}},
		Views: []View{{Name: "main", Params: []string{"p0", "p1"}, Body: eTr(eName("p0"), ".", "other", st...)}}}
}
func fixedNestedLet() *Prog {
	inner := eTr(eName("p0"), ".", "other", sLet("x", eLit(vInt(2))), sAssign("f", eName("x")))
	st := []Stmt{sLet("x", eLit(vInt(1))), sLet("r", inner), sAssign("out", eName("x")), sAssign("inner", eName("r"))}
	return &Prog{Typed: true, Family: "nested-let-rebinds-outer-let", Main: "main", Scope: []KV{{"p0", vInt(0)}},
		Views: []View{{Name: "main", Params: []string{"p0"}, Body: eTr(eName("p0"), ".", "other", st...)}}}
}

// oracleSelfCheck feeds the verdict function synthetic observations of the two fixed inputs: the known keys must be
// produced for exactly the behaviour they describe and for nothing else (a widened attribution fails here).
func oracleSelfCheck(c *common.Ctx) {
	expect := func(name string, j *judged, want string) {
		got, _ := verdict(j)
		c.Hist("oracle-self-check")
		if got != want {
			c.Fail("oracle-self-check:"+name, fmt.Sprintf("oracle self-check %q: verdict key %q, expected %q", name, got, want), j.p)
		}
	}
	p := fixedLetRebind()
	ref, lets, err := refRun(p)
	if err != nil {
		c.Fail("oracle-self-check:reference", "the reference does not define the fixed let-rebinding input", p)
		return
	}
	mk := func(scope []KV) *judged { return &judged{p: p, ref: ref, lets: lets, o: obs{V: ref, Scope: scope}} }
	expect("let-rebind: caller variable holds the let's value", mk([]KV{{"p0", vInt(0)}, {"p1", vInt(42)}}), "caller-binding-rebound-by-let")
	expect("let-rebind: caller variable holds something else", mk([]KV{{"p0", vInt(0)}, {"p1", vInt(999)}}), "caller-binding-changed:let-rebinds-parameter")
	expect("let-rebind: caller variable lost", mk([]KV{{"p0", vInt(0)}}), "caller-binding-changed:let-rebinds-parameter")
	expect("let-rebind: another caller variable changed", mk([]KV{{"p0", vInt(7)}, {"p1", vInt(42)}}), "caller-binding-changed:let-rebinds-parameter")
	expect("let-rebind: nothing changed", mk([]KV{{"p0", vInt(0)}, {"p1", vInt(1)}}), "")
	q := fixedNestedLet()
	qref, qlets, err := refRun(q)
	if err != nil {
		c.Fail("oracle-self-check:reference", "the reference does not define the fixed nested-let input", q)
		return
	}
	with := func(out int64) *judged {
		v := cloneVal(qref)
		for i := range v.M {
			if v.M[i].Key == "out" {
				v.M[i].V = vInt(out)
			}
		}
		return &judged{p: q, ref: qref, lets: qlets, o: obs{V: v, Scope: []KV{{"p0", vInt(0)}}}}
	}
	expect("nested-let: outer reads the inner let's value", with(2), "outer-let-rebound-by-nested-let")
	expect("nested-let: outer reads some other value", with(3), "wrong-value:nested-let-rebinds-outer-let")
	expect("nested-let: lexical value", with(1), "")
	// the `set of` transform over map entries: the key is given to "every entry's result kept" and to nothing else
	d := fixedMapSetDup()
	dref, _, err := refRun(d)
	dalt, _, err2 := refRunOpt(d, true)
	if err != nil || err2 != nil || valEq(dref, dalt) {
		c.Fail("oracle-self-check:reference", "the reference does not separate the fixed map-set-transform input from its variant", d)
		return
	}
	dj := func(v *Val) *judged { return &judged{p: d, ref: dref, o: obs{V: v, Scope: []KV{{"p0", vInt(0)}}}} }
	expect("map-set: every entry's result kept", dj(dalt), "set-transform-over-map-keeps-duplicates")
	expect("map-set: no duplicates", dj(dref), "")
	other := cloneVal(dalt)
	for i := range other.M {
		if other.M[i].Key == "as_list" {
			other.M[i].V = vList([]*Val{})
		}
	}
	expect("map-set: another wrong value", dj(other), "wrong-value:map-set-transform-duplicates")
}

// ---- the operator x kind x kind matrix (bounded-exhaustive, depth 1) ----
var binops = []string{"NO_Op", "EQ", "NE", "LT", "LE", "GT", "GE", "IN", "CONTAINS", "NOT_IN", "NOT_CONTAINS", "ADD", "SUB", "MUL",
	"DIV", "MOD", "POW", "AND", "OR", "BUTNOT", "BITAND", "BITOR", "BITXOR", "COALESCE", "WHERE", "TO_MATCHING", "TO_NOT_MATCHING", "FLATTEN"}
var unops = []string{"NO_Op", "NEG", "POS", "NOT", "INV", "SINGLE", "SINGLE_OR_NULL", "STRING"}

func matrixLeaves() []*Expr {
	m1 := vMap([]KV{{"f", vInt(1)}, {"g", vStr("a")}})
	return []*Expr{
		eLit(vInt(0)), eLit(vInt(3)), eLit(vInt(-4)), eLit(vInt(9223372036854775807)), eLit(vInt(-9223372036854775808)),
		eLit(vStr("a")), eLit(vStr("")), eLit(vStr("f")),
		eLit(vBool(true)), eLit(vBool(false)),
		eLit(&Val{K: "null"}), eName("nosuch"), eName("."),
		eLit(vList([]*Val{})), eLit(vList([]*Val{vInt(1), vInt(1)})), eLit(vList([]*Val{vStr("a"), vStr("b")})),
		eLit(vList([]*Val{vList([]*Val{vInt(1)}), vList([]*Val{vInt(2), vInt(1)})})), eLit(vList([]*Val{m1})),
		eLit(vList([]*Val{vSet([]*Val{vStr("a")})})), eLit(vList([]*Val{{K: "null"}, {K: "null"}})), eLit(vSet([]*Val{{K: "null"}})),
		eLit(vSet([]*Val{})), eLit(vSet([]*Val{vInt(2), vInt(1), vInt(2)})), eLit(vSet([]*Val{vStr("b"), vStr("a")})),
		eLit(vSet([]*Val{vSet([]*Val{vInt(1)}), vSet([]*Val{vInt(1)})})), eLit(vSet([]*Val{m1})), eLit(vSet([]*Val{vList([]*Val{vInt(5)})})),
		eLit(m1),
		eBin("EQ", eName("."), eLit(vStr("a"))), eBin("GT", eName("."), eLit(vInt(1))),
	}
}

func matrixProg(body *Expr) *Prog {
	return &Prog{Typed: true, Family: "matrix", Main: "main", Scope: []KV{{"p0", vInt(7)}},
		Views: []View{{Name: "main", Params: []string{"p0"}, Body: body}}}
}

func matrix(each func(p *Prog)) int {
	leaves := matrixLeaves()
	n := 0
	for _, op := range binops {
		for _, l := range leaves {
			for _, r := range leaves {
				sv := ""
				if op == "WHERE" || op == "FLATTEN" {
					sv = "."
				}
				each(matrixProg(eBinSv(op, l, r, sv)))
				n++
			}
		}
	}
	for _, op := range unops {
		for _, l := range leaves {
			each(matrixProg(eUn(op, l)))
			n++
		}
	}
	return n
}

// ---- depth 2: every well-typed composition of two operators over the literal pool ----
// inner = a depth-1 matrix expression whose value the reference defines (one representative per distinct value and
// operator); outer = every operator of the dispatch tables with the inner expression on either side and a leaf of
// the small pool on the other. `each` gets the program and whether the reference defines its value.
func depth2(each func(p *Prog, defined bool)) int {
	leaves := matrixLeaves()
	type inner struct{ e *Expr }
	var inners []inner
	seen := map[string]bool{}
	note := func(e *Expr) {
		v, _, err := refRun(matrixProg(e))
		if err != nil {
			return
		}
		k := rootLabel(e) + "=" + v.String()
		if !seen[k] {
			seen[k] = true
			inners = append(inners, inner{e})
		}
	}
	for _, op := range binops {
		for _, l := range leaves {
			for _, r := range leaves {
				sv := ""
				if op == "WHERE" || op == "FLATTEN" {
					sv = "."
				}
				note(eBinSv(op, l, r, sv))
			}
		}
	}
	for _, op := range unops {
		for _, l := range leaves {
			note(eUn(op, l))
		}
	}
	small := []*Expr{eLit(vInt(3)), eLit(vInt(-4)), eLit(vStr("a")), eLit(vBool(true)), eLit(vList([]*Val{vInt(1), vInt(1)})),
		eLit(vList([]*Val{vStr("a"), vStr("b")})), eLit(vSet([]*Val{vInt(2), vInt(1), vInt(2)})), eLit(vSet([]*Val{vStr("b"), vStr("a")})),
		eBin("EQ", eName("."), eLit(vStr("a"))), eBin("GT", eName("."), eLit(vInt(1)))}
	tableOps := []string{"EQ", "NE", "LT", "LE", "GT", "GE", "IN", "NOT_IN", "ADD", "SUB", "MUL", "DIV", "MOD", "AND", "BITOR", "WHERE", "FLATTEN"}
	n := 0
	emit := func(e *Expr) {
		p := matrixProg(e)
		p.Family = "depth2"
		_, _, err := refRun(p)
		each(p, err == nil)
		n++
	}
	for _, in := range inners {
		for _, op := range tableOps {
			sv := ""
			if op == "WHERE" || op == "FLATTEN" {
				sv = "."
			}
			for _, c := range small {
				emit(eBinSv(op, in.e, c, sv))
				emit(eBinSv(op, c, in.e, sv))
			}
		}
		for _, op := range []string{"NEG", "SINGLE", "STRING"} {
			emit(eUn(op, in.e))
		}
		emit(eCall(".count", in.e))
		emit(eIf(in.e, eLit(vInt(1)), eLit(vInt(2))))
	}
	return n
}

func main() {
	if len(os.Args) > 1 && os.Args[1] == "worker" {
		workerMain()
		return
	}
	c := common.Setup("C10")
	defer c.Finish()
	c.Res.Rule = "each case = (views of one transform application, caller's scope) evaluated by the real eval.EvaluateView in a worker subprocess; streams: typed programs over the modelled operators (lets reused by later statements, helper views, iterations whose scope variable shadows a binding), the Appendix-B shapes (a list bound once and concatenated twice; where/flatten/transform whose scope variable equals an outer binding; set-typed transforms producing duplicates; plus unions of unsorted int / string sets with repeats, transforms over map entries nested in a list transform, and where over a map by value / by key / nested with the variable shadowing a binding), the two fixed inputs of boolean `||` / `!`, the two fixed regression inputs of the known findings, terminating self- and mutually recursive views with the recursive call as an operand of each operator in turn (re-entrant evaluation of one AST node), call resolution (a view named like a native helper of eval.GoFuncMap or like .count, called from another view with its own / the helper's number of arguments and with arguments that would or would not fit the helper; helpers called directly with fitting arguments, a wrong number, wrong kinds, kinds the gate lets through, empty-list results; unknown names; each helper name at least once per run, and the callee also evaluated directly by EvaluateView on the same argument values), dispatch per evaluation (one expression node - a binary operator of valueFunctions with several rows, a unary operator, .count, where, flatten, a transform, an attribute access - evaluated several times within one evaluation with operands whose kinds change A B A ..: inside a transform and a where over heterogeneous records, in the body of a view called several times in one body, in the body of a recursive view with the kinds chosen by the level; for the operators with one table row the second kind is a table hole), a let that takes a parameter's name / an outer let's name from inside a nested transform, the operator x kind x kind matrix at depth 1, all compositions of two operators over the literal pool whose value the reference defines (depth 2), blind mutants of typed programs (model comparison only); distinct = distinct program JSON; non-trivial = the main body applies at least one operator, transform or call"
	par := 8

	if c.Replay != "" {
		var p Prog
		if err := common.LoadReplay(c.Replay, &p); err != nil {
			fmt.Fprintln(os.Stderr, err)
			os.Exit(3)
		}
		j := &judged{p: &p, o: runOne(&p)}
		o2 := runOne(&p)
		j.o2 = &o2
		j.ref, j.lets, j.err = refRun(&p)
		j.emptyHelperList = lastRefEmptyHelperList
		judge(c, j)
		c.Count("replay", true)
		rs := "outside the reference semantics"
		if j.err == nil {
			rs = j.ref.String()
		}
		fmt.Printf("replay [%s]: real=%s scope-after=%s reference=%s failures=%d\n", p.Family, obsString(j.o), vMap(j.o.Scope).String(), rs, len(c.Res.Failures))
		for _, f := range c.Res.Failures {
			fmt.Println("  " + f.What)
		}
		return
	}

	scale := 1
	if c.Thorough() {
		scale = 12
	}
	if c.Search {
		scale *= 3
	}
	var progs []*Prog
	feat := map[string]int{}

	// 0. the fixed regression inputs of the two known findings (first, every run) and the oracle's self-check
	oracleSelfCheck(c)
	progs = append(progs, fixedLetRebind(), fixedNestedLet(), fixedBoolOr(), fixedBoolNot(), fixedMapSetDup())
	// A. Appendix-B shapes + the let-rebinding family
	nshape := 40 * scale
	for i := 0; i < nshape; i++ {
		progs = append(progs, shapeConcatTwice(c.Rng.Fork()), shapeScopeVarShadow(c.Rng.Fork()), shapeSetTransformDup(c.Rng.Fork()), shapeSetUnion(c.Rng.Fork()), shapeMapTransform(c.Rng.Fork()), shapeWhereMap(c.Rng.Fork()))
		if i%8 == 0 {
			progs = append(progs, shapeLetRebind(c.Rng.Fork()), shapeNestedLetRebind(c.Rng.Fork()))
		}
	}
	// A2. terminating recursive views: the recursive call as an operand of each operator in turn (re-entrant evaluation
	// of one AST node), self-recursive for every template, seeded mutually recursive pairs
	nmut := 30
	if c.Thorough() || c.Search {
		nmut = 30 * scale
	}
	progs = append(progs, recursivePrograms(c.Rng.Fork(), nmut)...)
	// A3. call resolution: views named like native helpers / builtins called from another view, helpers called directly
	// (fitting and not), unknown names (calls.go)
	progs = append(progs, callPrograms(c.Rng.Fork(), 30*scale)...)
	// A4. dispatch per evaluation, not per node: one expression node evaluated several times within one evaluation with
	// operands of different kinds, for every operator of the dispatch tables (dispatch.go); the fixed `x.note == null` input
	progs = append(progs, fixedNoteNull())
	progs = append(progs, dispatchPrograms(c.Rng.Fork(), 2*scale)...)
	// B. typed programs
	ntyped := 450 * scale
	for i := 0; i < ntyped; i++ {
		g := newGen(c.Rng.Fork(), feat)
		depth := 2 + g.r.Intn(3)
		if c.Search {
			depth++
		}
		progs = append(progs, g.program(depth))
	}
	// B2. the same programs through the real parser, where they can be written as view source
	nsrc := 0
	why := map[string]int{}
	for _, p := range append([]*Prog(nil), progs...) {
		if p.Family == "let-rebinds-parameter" || p.Family == "nested-let-rebinds-outer-let" || p.Family == "boolean-or" || p.Family == "boolean-not" || p.Family == "map-set-transform-duplicates" {
			continue
		}
		src, w := renderSource(p)
		if src == "" {
			why[w]++
			continue
		}
		q := cloneProg(p)
		q.Src = src
		progs = append(progs, q)
		nsrc++
	}
	c.Res.Extra["via_parser_programs"] = nsrc
	c.Res.Extra["not_renderable"] = why
	// C. hostile: blind mutants of typed programs
	nhost := 250 * scale
	for i := 0; i < nhost; i++ {
		g := newGen(c.Rng.Fork(), map[string]int{})
		g.noString = true
		p := g.program(2 + g.r.Intn(2))
		mutate(c.Rng.Fork(), p, feat)
		progs = append(progs, p)
	}
	// D. operator x kind x kind matrix: the well-typed entries always, the others all in thorough / search and a seeded 1/60 in quick
	k := 0
	nmdef := 0
	total := matrix(func(p *Prog) {
		k++
		_, _, err := refRun(p)
		if err == nil {
			nmdef++ // the reference defines its value: a well-typed depth-1 body, always run
		}
		if err == nil || c.Thorough() || c.Search || (uint64(k)*2654435761+c.Seed*7919)%60 == 0 {
			progs = append(progs, p)
		}
	})
	c.Res.Extra["matrix_total"] = total
	c.Res.Extra["matrix_well_typed"] = nmdef
	if c.Thorough() || c.Search {
		c.Res.Extra["matrix_exhaustive"] = true
	}

	// E. depth 2 over the literal pool: every composition the reference defines (thorough / search; a seeded 1/50 in
	// quick), and a seeded 1/12 (quick: 1/1500) of the others (they fail to evaluate: compared with the model)
	k = 0
	nd2, nd2def := 0, 0
	total2 := depth2(func(p *Prog, defined bool) {
		k++
		h := (uint64(k)*2654435761 + c.Seed*104729) % 3000
		big := c.Thorough() || c.Search
		switch {
		case defined && (big || h < 60):
			nd2def++
		case !defined && ((big && h < 250) || h < 2):
		default:
			return
		}
		nd2++
		progs = append(progs, p)
	})
	c.Res.Extra["depth2_total"] = total2
	c.Res.Extra["depth2_run"] = nd2
	c.Res.Extra["depth2_well_typed_run"] = nd2def
	if c.Thorough() || c.Search {
		c.Res.Extra["depth2_well_typed_exhaustive"] = true
	}

	// run the real evaluator
	obsv := runAll(progs, par)
	// second run of the judged programs (determinism)
	var again []*Prog
	var againIdx []int
	for i, p := range progs {
		if p.Typed && p.Family != "matrix" && p.Family != "depth2" {
			again = append(again, p)
			againIdx = append(againIdx, i)
		}
	}
	obs2 := runAll(again, par)
	second := map[int]*obs{}
	for k, i := range againIdx {
		o := obs2[k]
		second[i] = &o
	}

	judgeCallPairs(c, progs, obsv)

	nbad := 0
	srcSampled := map[string]bool{}
	cs := c.NewCases("C10", caseHeader, "c10_case", caseFooter, 150)
	for i, p := range progs {
		j := &judged{p: p, o: obsv[i], o2: second[i]}
		if p.Typed {
			j.ref, j.lets, j.err = refRun(p)
			j.emptyHelperList = lastRefEmptyHelperList
		}
		judge(c, j)
		b, _ := json.Marshal(p)
		var main *Expr
		for _, v := range p.Views {
			if v.Name == p.Main {
				main = v.Body
			}
		}
		c.Count(string(b), exprSize(main) >= 2)
		c.Hist("family:" + p.Family)
		c.Hist("root:" + rootLabel(main))
		switch {
		case obsv[i].Exit1:
			c.Hist("outcome:exit1")
		case obsv[i].Other != "":
			c.Hist("outcome:abnormal")
		default:
			c.Hist("outcome:value")
		}
		if p.Typed && j.err == nil {
			c.Hist("oracle:judged")
		}
		if p.Typed && j.err != nil && strings.HasPrefix(p.Family, "recursive") {
			c.Hist("oracle:recursive-program-outside-reference")
			c.Res.Notes = append(c.Res.Notes, "recursive program outside the reference ("+j.err.Error()+"): "+p.Family)
		}
		if hasLetShadow(p) {
			c.Hist("has-let-shadow")
		}
		if p.Src != "" {
			c.Hist("route:parser")
			c.Hist("route:parser:" + p.Family)
			if !srcSampled[p.Family] && obsv[i].Other == "" {
				srcSampled[p.Family] = true
				c.Res.Extra["via_parser_sample:"+p.Family] = map[string]string{"source": p.Src, "observed": obsString(obsv[i])}
			}
			if strings.HasPrefix(obsv[i].Other, "source ") {
				c.Hist("route:parser:" + obsv[i].Other[:24])
				if nbad < 3 {
					nbad++
					c.Res.Notes = append(c.Res.Notes, "rendered source the parser rejected: "+obsv[i].Other+" :: "+p.Src)
				}
			}
			continue // the parser's AST is not the generated one: judged by the oracle, not compared with the model
		}
		cs.Add(gCase(p, obsv[i]), p)
		if i%(len(progs)/5+1) == 0 {
			c.Sample(map[string]interface{}{"family": p.Family, "program": p.Views, "scope": p.Scope, "observed": obsString(obsv[i])})
		}
	}
	cs.Close()
	var fk []string
	for f := range feat {
		fk = append(fk, f)
	}
	sort.Strings(fk)
	for _, f := range fk {
		c.HistN("feature:"+f, feat[f])
	}
	c.Res.Extra["programs"] = len(progs)
}
