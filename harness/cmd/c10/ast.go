// Abstract programs (views over the modelled operator set), their protobuf form for the real evaluator,
// and their Gallina form for the model.
package main

import (
	"fmt"
	"sort"
	"strings"

	"github.com/anz-bank/sysl/pkg/eval"
	"github.com/anz-bank/sysl/pkg/sysl"
)

// ---- values ----
type Val struct {
	K string `json:"k"` // nil b i s null l set m other
	B bool   `json:"b,omitempty"`
	I int64  `json:"i,omitempty"`
	S string `json:"s,omitempty"`
	E []*Val `json:"e,omitempty"`
	M []KV   `json:"m,omitempty"` // sorted by key
}
type KV struct {
	Key string `json:"k"`
	V   *Val   `json:"v"`
}

func vInt(i int64) *Val   { return &Val{K: "i", I: i} }
func vStr(s string) *Val  { return &Val{K: "s", S: s} }
func vBool(b bool) *Val   { return &Val{K: "b", B: b} }
func vList(e []*Val) *Val { return &Val{K: "l", E: e} }
func vSet(e []*Val) *Val  { return &Val{K: "set", E: e} }
func vMap(m []KV) *Val {
	sort.SliceStable(m, func(i, j int) bool { return m[i].Key < m[j].Key })
	return &Val{K: "m", M: m}
}

func valEq(a, b *Val) bool {
	if a == nil || b == nil {
		return a == b
	}
	if a.K != b.K {
		return false
	}
	switch a.K {
	case "b":
		return a.B == b.B
	case "i":
		return a.I == b.I
	case "s":
		return a.S == b.S
	case "l", "set":
		if len(a.E) != len(b.E) {
			return false
		}
		for i := range a.E {
			if !valEq(a.E[i], b.E[i]) {
				return false
			}
		}
		return true
	case "m":
		if len(a.M) != len(b.M) {
			return false
		}
		for i := range a.M {
			if a.M[i].Key != b.M[i].Key || !valEq(a.M[i].V, b.M[i].V) {
				return false
			}
		}
		return true
	}
	return true
}

func (v *Val) String() string {
	if v == nil {
		return "<none>"
	}
	switch v.K {
	case "b":
		return fmt.Sprint(v.B)
	case "i":
		return fmt.Sprint(v.I)
	case "s":
		return fmt.Sprintf("%q", v.S)
	case "l", "set":
		p := make([]string, len(v.E))
		for i, e := range v.E {
			p[i] = e.String()
		}
		if v.K == "l" {
			return "[" + strings.Join(p, ",") + "]"
		}
		return "{" + strings.Join(p, ",") + "}"
	case "m":
		p := make([]string, len(v.M))
		for i, e := range v.M {
			p[i] = e.Key + ":" + e.V.String()
		}
		return "(" + strings.Join(p, ",") + ")"
	}
	return v.K
}

func toProtoVal(v *Val) *sysl.Value {
	switch v.K {
	case "nil":
		return nil
	case "b":
		return eval.MakeValueBool(v.B)
	case "i":
		return eval.MakeValueI64(v.I)
	case "s":
		return eval.MakeValueString(v.S)
	case "null":
		return &sysl.Value{Value: &sysl.Value_Null_{Null: &sysl.Value_Null{}}}
	case "l":
		l := eval.MakeValueList()
		for _, e := range v.E {
			eval.AppendItemToValueList(l.GetList(), toProtoVal(e))
		}
		return l
	case "set":
		l := eval.MakeValueSet()
		for _, e := range v.E {
			eval.AppendItemToValueList(l.GetSet(), toProtoVal(e))
		}
		return l
	case "m":
		m := eval.MakeValueMap()
		for _, kv := range v.M {
			eval.AddItemToValueMap(m, kv.Key, toProtoVal(kv.V))
		}
		return m
	}
	panic("toProtoVal: " + v.K)
}

func fromProtoVal(v *sysl.Value) *Val {
	if v == nil {
		return &Val{K: "nil"}
	}
	switch x := v.Value.(type) {
	case *sysl.Value_B:
		return vBool(x.B)
	case *sysl.Value_I:
		return vInt(x.I)
	case *sysl.Value_S:
		return vStr(x.S)
	case *sysl.Value_Null_:
		return &Val{K: "null"}
	case *sysl.Value_List_:
		out := []*Val{}
		for _, e := range x.List.GetValue() {
			out = append(out, fromProtoVal(e))
		}
		return vList(out)
	case *sysl.Value_Set:
		out := []*Val{}
		for _, e := range x.Set.GetValue() {
			out = append(out, fromProtoVal(e))
		}
		return vSet(out)
	case *sysl.Value_Map_:
		var m []KV
		for k, e := range x.Map.GetItems() {
			m = append(m, KV{k, fromProtoVal(e)})
		}
		return vMap(m)
	}
	return &Val{K: "other"}
}

// ---- expressions ----
type Expr struct {
	K     string  `json:"k"`            // name lit attr tr if call un bin list set
	Name  string  `json:"n,omitempty"`  // variable / attribute / function
	Lit   *Val    `json:"v,omitempty"`  // literal
	Op    string  `json:"op,omitempty"` // proto enumerator name of the operator
	A     []*Expr `json:"a,omitempty"`  // children (attr, un, tr: [arg]; if: [c,t,f]; bin: [l,r]; call/list/set: all)
	Sv    string  `json:"sv,omitempty"` // scope variable (tr, bin)
	Stmts []Stmt  `json:"st,omitempty"` // tr
	Ty    string  `json:"ty,omitempty"` // tr: none | set | other
}
type Stmt struct {
	Let  bool   `json:"let,omitempty"`
	Name string `json:"n"`
	E    *Expr  `json:"e"`
}
type View struct {
	Name   string   `json:"name"`
	Params []string `json:"params,omitempty"`
	Body   *Expr    `json:"body"`
}
type Prog struct {
	Views  []View `json:"views"`
	Main   string `json:"main"`
	Scope  []KV   `json:"scope,omitempty"` // caller's scope before evaluation
	Family string `json:"family,omitempty"`
	Src    string `json:"src,omitempty"`   // when set: the worker compiles this Sysl source with the real parser instead of building the protobuf
	Typed  bool   `json:"typed,omitempty"` // built by the typed generator inside the modelled fragment: judged by the oracle
	Lax    bool   `json:"lax,omitempty"`   // reaches something the Coq model has no body for (regexp helpers, Title, Replace): its "not covered" is accepted
	// call resolution: CallOut = field of the main view's result holding the value of a call whose callee, evaluated
	// directly by EvaluateView on the same argument values, is the program Direct
	CallOut string `json:"callout,omitempty"`
	Direct  *Prog  `json:"direct,omitempty"`
}

func eName(n string) *Expr             { return &Expr{K: "name", Name: n} }
func eLit(v *Val) *Expr                { return &Expr{K: "lit", Lit: v} }
func eAttr(a *Expr, n string) *Expr    { return &Expr{K: "attr", Name: n, A: []*Expr{a}} }
func eIf(c, t, f *Expr) *Expr          { return &Expr{K: "if", A: []*Expr{c, t, f}} }
func eCall(f string, a ...*Expr) *Expr { return &Expr{K: "call", Name: f, A: a} }
func eUn(op string, a *Expr) *Expr     { return &Expr{K: "un", Op: op, A: []*Expr{a}} }
func eBin(op string, l, r *Expr) *Expr { return &Expr{K: "bin", Op: op, A: []*Expr{l, r}} }
func eBinSv(op string, l, r *Expr, sv string) *Expr {
	return &Expr{K: "bin", Op: op, A: []*Expr{l, r}, Sv: sv}
}
func eList(a ...*Expr) *Expr { return &Expr{K: "list", A: a} }
func eSet(a ...*Expr) *Expr  { return &Expr{K: "set", A: a} }
func eTr(arg *Expr, sv string, ty string, st ...Stmt) *Expr {
	return &Expr{K: "tr", A: []*Expr{arg}, Sv: sv, Ty: ty, Stmts: st}
}
func sLet(n string, e *Expr) Stmt    { return Stmt{Let: true, Name: n, E: e} }
func sAssign(n string, e *Expr) Stmt { return Stmt{Name: n, E: e} }

func setType() *sysl.Type {
	return &sysl.Type{Type: &sysl.Type_Set{Set: &sysl.Type{Type: &sysl.Type_Primitive_{Primitive: sysl.Type_ANY}}}}
}
func otherType() *sysl.Type {
	return &sysl.Type{Type: &sysl.Type_Sequence{Sequence: &sysl.Type{Type: &sysl.Type_Primitive_{Primitive: sysl.Type_ANY}}}}
}

func toProtoExpr(e *Expr) *sysl.Expr {
	switch e.K {
	case "name":
		return &sysl.Expr{Expr: &sysl.Expr_Name{Name: e.Name}}
	case "lit":
		return &sysl.Expr{Expr: &sysl.Expr_Literal{Literal: toProtoVal(e.Lit)}}
	case "attr":
		return &sysl.Expr{Expr: &sysl.Expr_GetAttr_{GetAttr: &sysl.Expr_GetAttr{Arg: toProtoExpr(e.A[0]), Attr: e.Name}}}
	case "if":
		return &sysl.Expr{Expr: &sysl.Expr_Ifelse{Ifelse: &sysl.Expr_IfElse{Cond: toProtoExpr(e.A[0]), IfTrue: toProtoExpr(e.A[1]), IfFalse: toProtoExpr(e.A[2])}}}
	case "call":
		c := &sysl.Expr_Call{Func: e.Name}
		for _, a := range e.A {
			c.Arg = append(c.Arg, toProtoExpr(a))
		}
		return &sysl.Expr{Expr: &sysl.Expr_Call_{Call: c}}
	case "un":
		op, ok := sysl.Expr_UnExpr_Op_value[e.Op]
		if !ok {
			panic("unop " + e.Op)
		}
		return &sysl.Expr{Expr: &sysl.Expr_Unexpr{Unexpr: &sysl.Expr_UnExpr{Op: sysl.Expr_UnExpr_Op(op), Arg: toProtoExpr(e.A[0])}}}
	case "bin":
		op, ok := sysl.Expr_BinExpr_Op_value[e.Op]
		if !ok {
			panic("binop " + e.Op)
		}
		return &sysl.Expr{Expr: &sysl.Expr_Binexpr{Binexpr: &sysl.Expr_BinExpr{Op: sysl.Expr_BinExpr_Op(op), Lhs: toProtoExpr(e.A[0]), Rhs: toProtoExpr(e.A[1]), Scopevar: e.Sv}}}
	case "list", "set":
		l := &sysl.Expr_List{}
		for _, a := range e.A {
			l.Expr = append(l.Expr, toProtoExpr(a))
		}
		if e.K == "list" {
			return &sysl.Expr{Expr: &sysl.Expr_List_{List: l}}
		}
		return &sysl.Expr{Expr: &sysl.Expr_Set{Set: l}}
	case "tr":
		t := &sysl.Expr_Transform{Arg: toProtoExpr(e.A[0]), Scopevar: e.Sv}
		for _, s := range e.Stmts {
			a := &sysl.Expr_Transform_Stmt_Assign{Name: s.Name, Expr: toProtoExpr(s.E)}
			if s.Let {
				t.Stmt = append(t.Stmt, &sysl.Expr_Transform_Stmt{Stmt: &sysl.Expr_Transform_Stmt_Let{Let: a}})
			} else {
				t.Stmt = append(t.Stmt, &sysl.Expr_Transform_Stmt{Stmt: &sysl.Expr_Transform_Stmt_Assign_{Assign: a}})
			}
		}
		out := &sysl.Expr{Expr: &sysl.Expr_Transform_{Transform: t}}
		switch e.Ty {
		case "set":
			out.Type = setType()
		case "other":
			out.Type = otherType()
		}
		return out
	}
	panic("toProtoExpr: " + e.K)
}

func toProtoModule(p *Prog) *sysl.Module {
	app := &sysl.Application{Name: &sysl.AppName{Part: []string{"T"}}, Views: map[string]*sysl.View{}}
	for _, v := range p.Views {
		pv := &sysl.View{Expr: toProtoExpr(v.Body)}
		for _, n := range v.Params {
			pv.Param = append(pv.Param, &sysl.Param{Name: n})
		}
		app.Views[v.Name] = pv
	}
	return &sysl.Module{Apps: map[string]*sysl.Application{"T": app}}
}

// ---- Gallina ----
func gStr(s string) string { return "\"" + strings.ReplaceAll(s, "\"", "\"\"") + "\"" }

func gVal(v *Val) string {
	switch v.K {
	case "nil":
		return "VNil"
	case "null":
		return "VNull"
	case "b":
		if v.B {
			return "bt"
		}
		return "bf"
	case "i":
		if v.I < 0 {
			return fmt.Sprintf("(i (%d))", v.I)
		}
		return fmt.Sprintf("(i %d)", v.I)
	case "s":
		return "(s " + gStr(v.S) + ")"
	case "l", "set":
		p := make([]string, len(v.E))
		for i, e := range v.E {
			p[i] = gVal(e)
		}
		c := "VList"
		if v.K == "set" {
			c = "VSet"
		}
		return "(" + c + " [" + strings.Join(p, ";") + "])"
	case "m":
		return "(VMap " + gKVs(v.M) + ")"
	}
	return "VOtherUnrepresentable" // not a constructor: the case file fails to check
}

func gKVs(m []KV) string {
	p := make([]string, len(m))
	for i, kv := range m {
		p[i] = "(" + gStr(kv.Key) + "," + gVal(kv.V) + ")"
	}
	return "[" + strings.Join(p, ";") + "]"
}

func gExprs(es []*Expr) string {
	p := make([]string, len(es))
	for i, e := range es {
		p[i] = gExpr(e)
	}
	return "[" + strings.Join(p, ";") + "]"
}

func gExpr(e *Expr) string {
	switch e.K {
	case "name":
		return "(en " + gStr(e.Name) + ")"
	case "lit":
		return "(el " + gVal(e.Lit) + ")"
	case "attr":
		return "(ea " + gExpr(e.A[0]) + " " + gStr(e.Name) + ")"
	case "if":
		return "(ei " + gExpr(e.A[0]) + " " + gExpr(e.A[1]) + " " + gExpr(e.A[2]) + ")"
	case "call":
		return "(ec " + gStr(e.Name) + " " + gExprs(e.A) + ")"
	case "un":
		return "(eu Uo" + e.Op + " " + gExpr(e.A[0]) + ")"
	case "bin":
		return "(eb Op" + e.Op + " " + gExpr(e.A[0]) + " " + gExpr(e.A[1]) + " " + gStr(e.Sv) + ")"
	case "list":
		return "(ls " + gExprs(e.A) + ")"
	case "set":
		return "(st " + gExprs(e.A) + ")"
	case "tr":
		st := make([]string, len(e.Stmts))
		for i, s := range e.Stmts {
			c := "sa"
			if s.Let {
				c = "sl"
			}
			st[i] = "(" + c + " " + gStr(s.Name) + " " + gExpr(s.E) + ")"
		}
		ty := map[string]string{"none": "TyNone", "set": "TySet", "other": "TyOther"}[e.Ty]
		return "(et " + gExpr(e.A[0]) + " " + gStr(e.Sv) + " [" + strings.Join(st, ";") + "] " + ty + ")"
	}
	panic("gExpr " + e.K)
}

func gViews(p *Prog) string {
	vs := make([]string, len(p.Views))
	for i, v := range p.Views {
		ps := make([]string, len(v.Params))
		for j, n := range v.Params {
			ps[j] = gStr(n)
		}
		vs[i] = "(" + gStr(v.Name) + ", Vw [" + strings.Join(ps, ";") + "] " + gExpr(v.Body) + ")"
	}
	return "[" + strings.Join(vs, ";") + "]"
}

const caseHeader = `From Coq Require Import String List ZArith Bool. Import ListNotations.
Require Import Verif.Eval.Value Verif.Eval.Interp Verif.Eval.Run Verif.Base.Harness.
Local Open Scope string_scope. Local Open Scope Z_scope. Local Open Scope list_scope.
Notation en := EName. Notation el := ELit. Notation ea := EGetAttr. Notation et := ETransform. Notation ei := EIf.
Notation ec := ECall. Notation eu := EUn. Notation eb := EBin. Notation ls := EList. Notation st := ESet.
Notation sl := SLet. Notation sa := SAssign. Notation i := VInt. Notation s := VStr.
Notation bt := (VBool true). Notation bf := (VBool false).`

const caseFooter = `Definition M := Eval vm_compute in mismatches c10_ok cases. Print M.
Definition NU := Eval vm_compute in N.of_nat (List.length (filter (fun c => c10_unmodelled (snd c)) cases)). Print NU.`
