// Greedy shrinking of a failing program: a candidate reduction is kept when the oracle still reports the same key.
package main

import "encoding/json"

func cloneProg(p *Prog) *Prog {
	b, _ := json.Marshal(p)
	var q Prog
	json.Unmarshal(b, &q)
	return &q
}

func progSize(p *Prog) int {
	n := len(p.Scope)
	for _, v := range p.Views {
		n += 1 + exprSize(v.Body)
	}
	return n
}

func slotsOf(p *Prog) []**Expr {
	var slots []**Expr
	for i := range p.Views {
		slots = append(slots, &p.Views[i].Body)
		allExprs(p.Views[i].Body, func(s **Expr) { slots = append(slots, s) })
	}
	return slots
}

// verdictOf runs the real evaluator (twice) and the reference on p and returns the oracle's key ("" = passes)
func verdictOf(p *Prog) string {
	j := &judged{p: p, o: runOne(p)}
	j.ref, j.lets, j.err = refRun(p)
	j.emptyHelperList = lastRefEmptyHelperList
	k, _ := verdict(j)
	return k
}

func shrink(p *Prog, key string, budget int) *Prog {
	cur := cloneProg(p)
	try := func(q *Prog) bool {
		if budget <= 0 || progSize(q) >= progSize(cur) {
			return false
		}
		budget--
		if verdictOf(q) == key {
			cur = q
			return true
		}
		return false
	}
	lits := []*Val{vInt(0), vStr("a"), vBool(true), vList([]*Val{}), vSet([]*Val{})}
	for progress := true; progress && budget > 0; {
		progress = false
		// drop helper views
		for i := 0; i < len(cur.Views); i++ {
			if cur.Views[i].Name == cur.Main {
				continue
			}
			q := cloneProg(cur)
			q.Views = append(q.Views[:i], q.Views[i+1:]...)
			if try(q) {
				progress = true
				i--
			}
		}
		// expression slots: a child in place of the parent, a literal in place of the expression
		for si := 0; si < len(slotsOf(cur)); si++ {
			e := *slotsOf(cur)[si]
			nch := len(e.A) + len(e.Stmts)
			done := false
			for ci := 0; ci < nch && !done; ci++ {
				q := cloneProg(cur)
				s := slotsOf(q)[si]
				if ci < len(e.A) {
					*s = (*s).A[ci]
				} else {
					*s = (*s).Stmts[ci-len(e.A)].E
				}
				if try(q) {
					progress, done = true, true
				}
			}
			if done || e.K == "lit" || e.K == "name" {
				continue
			}
			for _, l := range lits {
				q := cloneProg(cur)
				*slotsOf(q)[si] = eLit(l)
				if try(q) {
					progress = true
					break
				}
			}
		}
		// statements of transforms
		for si := 0; si < len(slotsOf(cur)); si++ {
			e := *slotsOf(cur)[si]
			if e.K != "tr" {
				continue
			}
			for k := 0; k < len((*slotsOf(cur)[si]).Stmts); k++ {
				q := cloneProg(cur)
				t := *slotsOf(q)[si]
				t.Stmts = append(t.Stmts[:k], t.Stmts[k+1:]...)
				if try(q) {
					progress = true
					k--
				}
			}
		}
		// caller's scope entries (and the parameter of the same name)
		for i := 0; i < len(cur.Scope); i++ {
			q := cloneProg(cur)
			name := q.Scope[i].Key
			q.Scope = append(q.Scope[:i], q.Scope[i+1:]...)
			for vi := range q.Views {
				if q.Views[vi].Name == q.Main {
					var ps []string
					for _, n := range q.Views[vi].Params {
						if n != name {
							ps = append(ps, n)
						}
					}
					q.Views[vi].Params = ps
				}
			}
			if try(q) {
				progress = true
				i--
			}
		}
	}
	return cur
}
