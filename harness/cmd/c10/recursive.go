// Terminating recursive view programs: self- and mutually recursive views with an integer argument counting down,
// the recursive call placed as an OPERAND of each operator in turn, so that the evaluation of an operand re-enters
// the very AST node that is being evaluated. The model is pure (a program is a value, never written to), so any
// evaluator state that leaks across the re-entrant evaluation of one node - a flag on the node, an operator flipped
// in place and restored later, a cached operand - shows as a mismatch and as a wrong value for the oracle.
package main

import (
	"fmt"

	"verifharness/common"
)

type recTemplate struct {
	name string
	// body of the recursive case: rec() builds a fresh call of the next view on n-1, n is the parameter
	mk func(rec func() *Expr, n *Expr, c int64) *Expr
}

func iLit(i int64) *Expr { return eLit(vInt(i)) }
func ifE(c, a, b *Expr) *Expr {
	return eIf(c, a, b)
}

// sm keeps a recursive value in 0..4 (or -4..0) so that comparisons with small constants go both ways
func sm(e *Expr) *Expr { return eBin("MOD", e, iLit(5)) }
func intList(xs ...int64) *Expr {
	var es []*Expr
	for _, x := range xs {
		es = append(es, iLit(x))
	}
	return eList(es...)
}
func strList(xs ...string) *Expr {
	var es []*Expr
	for _, x := range xs {
		es = append(es, eLit(vStr(x)))
	}
	return eList(es...)
}

var recTemplates = []recTemplate{
	{"ne-lhs", func(rec func() *Expr, n *Expr, c int64) *Expr {
		return eBin("ADD", ifE(eBin("NE", sm(rec()), iLit(c%5)), iLit(1), iLit(2)), n)
	}},
	{"ne-rhs", func(rec func() *Expr, n *Expr, c int64) *Expr {
		return eBin("ADD", ifE(eBin("NE", iLit(c%5), sm(rec())), iLit(1), iLit(2)), n)
	}},
	{"ne-both", func(rec func() *Expr, n *Expr, c int64) *Expr {
		return eBin("ADD", ifE(eBin("NE", sm(rec()), eBin("ADD", sm(rec()), iLit(c%2))), iLit(3), iLit(5)), n)
	}},
	{"ne-bool", func(rec func() *Expr, n *Expr, c int64) *Expr {
		return ifE(eBin("NE", eBin("GT", sm(rec()), iLit(c%4)), eBin("EQ", eBin("MOD", n, iLit(2)), iLit(0))), eBin("ADD", n, iLit(1)), n)
	}},
	{"eq-lhs", func(rec func() *Expr, n *Expr, c int64) *Expr {
		return eBin("ADD", ifE(eBin("EQ", sm(rec()), iLit(c%5)), iLit(1), iLit(2)), n)
	}},
	{"eq-rhs", func(rec func() *Expr, n *Expr, c int64) *Expr {
		return eBin("ADD", ifE(eBin("EQ", iLit(c%5), sm(rec())), iLit(1), iLit(2)), n)
	}},
	{"and-lhs", func(rec func() *Expr, n *Expr, c int64) *Expr {
		return ifE(eBin("AND", eBin("GT", sm(rec()), iLit(c%4)), eBin("GT", n, iLit(1))), n, eBin("ADD", n, iLit(1)))
	}},
	{"and-rhs", func(rec func() *Expr, n *Expr, c int64) *Expr {
		return ifE(eBin("AND", eBin("GT", n, iLit(1)), eBin("LE", sm(rec()), iLit(c%4))), n, eBin("ADD", n, iLit(2)))
	}},
	{"add", func(rec func() *Expr, n *Expr, c int64) *Expr { return eBin("ADD", rec(), n) }},
	{"add-both", func(rec func() *Expr, n *Expr, c int64) *Expr { return eBin("ADD", rec(), eBin("ADD", n, rec())) }},
	{"sub-mul", func(rec func() *Expr, n *Expr, c int64) *Expr {
		return eBin("SUB", eBin("MUL", rec(), iLit(2)), n)
	}},
	{"div-mod", func(rec func() *Expr, n *Expr, c int64) *Expr {
		return eBin("ADD", eBin("DIV", rec(), iLit(2)), eBin("MOD", eBin("ADD", rec(), n), iLit(3)))
	}},
	{"compare", func(rec func() *Expr, n *Expr, c int64) *Expr {
		return ifE(eBin("LT", sm(rec()), eBin("SUB", n, iLit(c%3))), eBin("ADD", n, iLit(2)), ifE(eBin("GE", iLit(c%5), sm(rec())), n, iLit(0)))
	}},
	{"neg", func(rec func() *Expr, n *Expr, c int64) *Expr {
		return eBin("ADD", eUn("NEG", rec()), eBin("MUL", n, iLit(3)))
	}},
	{"in", func(rec func() *Expr, n *Expr, c int64) *Expr {
		return ifE(eBin("IN", eUn("STRING", sm(rec())), strList("1", "3", "4", "-2")), n, eBin("ADD", n, iLit(2)))
	}},
	{"not-in", func(rec func() *Expr, n *Expr, c int64) *Expr {
		return ifE(eBin("NOT_IN", eUn("STRING", sm(rec())), strList("0", "2", "-1")), eBin("ADD", n, iLit(1)), n)
	}},
	{"in-collection", func(rec func() *Expr, n *Expr, c int64) *Expr {
		return ifE(eBin("IN", eLit(vStr("2")), eList(eUn("STRING", sm(rec())), eUn("STRING", n))), iLit(1), eBin("ADD", n, iLit(3)))
	}},
	{"where-predicate", func(rec func() *Expr, n *Expr, c int64) *Expr {
		return eBin("ADD", eCall(".count", eBinSv("WHERE", intList(0, 1, 2, 7, 8, 9), eBin("NE", eName("x"), sm(rec())), "x")), n)
	}},
	{"where-predicate-lt", func(rec func() *Expr, n *Expr, c int64) *Expr {
		return eCall(".count", eBinSv("WHERE", eSet(iLit(0), iLit(1), iLit(2), iLit(3), iLit(4)), eBin("LT", eName("."), sm(rec())), "."))
	}},
	{"where-source", func(rec func() *Expr, n *Expr, c int64) *Expr {
		return eCall(".count", eBinSv("WHERE", eList(sm(rec()), n, iLit(c%5)), eBin("NE", eName("x"), iLit(c%5)), "x"))
	}},
	{"flatten-body", func(rec func() *Expr, n *Expr, c int64) *Expr {
		return eUn("SINGLE", eBinSv("FLATTEN", eList(eList(n)), eBin("ADD", eName("x"), rec()), "x"))
	}},
	{"transform-body", func(rec func() *Expr, n *Expr, c int64) *Expr {
		return eBin("ADD", eCall(".count", eTr(intList(1, 2, 3), "x", "set", sAssign("y", eBin("NE", eName("x"), sm(rec()))))), n)
	}},
	{"transform-let", func(rec func() *Expr, n *Expr, c int64) *Expr {
		return eAttr(eTr(n, "m", "other", sLet("t", rec()), sAssign("f", eBin("ADD", eName("t"), eName("m")))), "f")
	}},
	{"transform-arg", func(rec func() *Expr, n *Expr, c int64) *Expr {
		return eAttr(eTr(rec(), "m", "other", sAssign("f", eBin("ADD", eName("m"), iLit(1)))), "f")
	}},
	{"if-condition", func(rec func() *Expr, n *Expr, c int64) *Expr {
		return ifE(eBin("GT", sm(rec()), iLit(c%4)), n, iLit(0))
	}},
	{"if-branches", func(rec func() *Expr, n *Expr, c int64) *Expr {
		return ifE(eBin("EQ", eBin("MOD", n, iLit(2)), iLit(0)), rec(), eBin("ADD", rec(), iLit(1)))
	}},
	{"list-literal", func(rec func() *Expr, n *Expr, c int64) *Expr {
		return eBin("ADD", eCall(".count", eBin("BITOR", eList(rec(), n), eList(rec()))), eUn("SINGLE", eList(rec())))
	}},
	{"set-union", func(rec func() *Expr, n *Expr, c int64) *Expr {
		return eCall(".count", eBin("BITOR", eSet(sm(rec()), n), eSet(iLit(c%5), sm(rec()))))
	}},
	{"string", func(rec func() *Expr, n *Expr, c int64) *Expr {
		return eCall(".count", eBinSv("WHERE", strList("0", "1", "2", "3"), eBin("NE", eBin("ADD", eName("."), eLit(vStr(""))), eUn("STRING", sm(rec()))), "."))
	}},
}

// one recursive program: views R0 (.. R1) built from the chosen templates, called from main on a small depth
func recursiveProg(ti, tj int, mutual bool, depth int64, c int64, base int64) *Prog {
	n := func() *Expr { return eName("n") }
	view := func(self, next string, t recTemplate) View {
		rec := func() *Expr { return eCall(next, eBin("SUB", n(), iLit(1))) }
		// the value of every level is kept in the result (7 * previous + this level), so that a wrong value at an inner
		// level cannot be absorbed by the level above it
		body := ifE(eBin("LE", n(), iLit(0)), iLit(base), eBin("ADD", t.mk(rec, n(), c), eBin("MUL", rec(), iLit(7))))
		return View{Name: self, Params: []string{"n"}, Body: body}
	}
	fam := "recursive:" + recTemplates[ti].name
	var views []View
	if mutual {
		views = []View{view("R0", "R1", recTemplates[ti]), view("R1", "R0", recTemplates[tj])}
		fam = "recursive-mutual:" + recTemplates[ti].name + "+" + recTemplates[tj].name
	} else {
		views = []View{view("R0", "R0", recTemplates[ti])}
	}
	st := []Stmt{
		sLet("a", eCall("R0", eName("p0"))),
		sAssign("r", eName("a")),
		sAssign("again", eCall("R0", eName("p0"))),
		sAssign("shallow", eCall("R0", iLit(1))),
		sAssign("same", eBin("NE", eName("a"), eCall("R0", eName("p0")))),
	}
	views = append(views, View{Name: "main", Params: []string{"p0"}, Body: eTr(eName("p0"), ".", "other", st...)})
	return &Prog{Typed: true, Family: fam, Main: "main", Scope: []KV{{"p0", vInt(depth)}}, Views: views}
}

// the stream: every template self-recursive at two depths (all runs), plus seeded mutual pairs
func recursivePrograms(r *common.Rng, nMutual int) []*Prog {
	var out []*Prog
	for i := range recTemplates {
		out = append(out, recursiveProg(i, i, false, 3, int64(1+r.Intn(4)), int64(r.Intn(3))))
		out = append(out, recursiveProg(i, i, false, 4, int64(r.Intn(6)), int64(r.Intn(3))))
	}
	for k := 0; k < nMutual; k++ {
		i, j := r.Intn(len(recTemplates)), r.Intn(len(recTemplates))
		out = append(out, recursiveProg(i, j, true, int64(3+r.Intn(2)), int64(r.Intn(6)), int64(r.Intn(3))))
	}
	_ = fmt.Sprint
	return out
}
