// Seeded generators: typed programs inside the modelled fragment (judged by the oracle and compared with the
// model), the specific shapes of DESIGN.md Appendix B, and a hostile stream of blind mutations of typed programs
// (compared with the model only).
package main

import (
	"fmt"

	"verifharness/common"
)

// ---- static types of the typed stream ----
type Ty struct {
	K string // int str bool list set rec
	E *Ty    // element type (list, set)
	F []Field
}
type Field struct {
	Name string
	T    *Ty
}

var tInt, tStr, tBool = &Ty{K: "int"}, &Ty{K: "str"}, &Ty{K: "bool"}

func tList(e *Ty) *Ty { return &Ty{K: "list", E: e} }
func tSet(e *Ty) *Ty  { return &Ty{K: "set", E: e} }

func tyEq(a, b *Ty) bool {
	if a.K != b.K {
		return false
	}
	switch a.K {
	case "list", "set":
		return tyEq(a.E, b.E)
	case "rec":
		if len(a.F) != len(b.F) {
			return false
		}
		for i := range a.F {
			if a.F[i].Name != b.F[i].Name || !tyEq(a.F[i].T, b.F[i].T) {
				return false
			}
		}
	}
	return true
}

func (t *Ty) String() string {
	switch t.K {
	case "list", "set":
		return t.K + "(" + t.E.String() + ")"
	case "rec":
		s := "rec("
		for _, f := range t.F {
			s += f.Name + ":" + f.T.String() + ","
		}
		return s + ")"
	}
	return t.K
}

type bind struct {
	name string
	t    *Ty
}
type viewSig struct {
	name   string
	params []*Ty
	ret    *Ty
}

type gen struct {
	r         *common.Rng
	env       []bind
	views     []viewSig
	fresh     int
	noString  bool // do not emit str(): the hostile stream would take it outside the model
	letShadow bool // a nested let may take the name of a binding in scope (known finding family)
	feat      map[string]int
}

var intPool = []int64{0, 1, 2, 3, 5, 7, -1, -4, 10, 9223372036854775807, -9223372036854775808, 4294967296}
var strPool = []string{"a", "b", "ab", "", "c", "key", "x y", "B"}
var fieldPool = []string{"f", "g", "h", "key", "value", "n"}

func (g *gen) note(f string) { g.feat[f]++ }

func (g *gen) freshName(p string) string {
	g.fresh++
	return fmt.Sprintf("%s%d", p, g.fresh)
}

func (g *gen) randScalar() *Ty { return []*Ty{tInt, tStr, tBool}[g.r.Intn(3)] }

func (g *gen) randRec(d int) *Ty {
	n := 1 + g.r.Intn(3)
	used := map[string]bool{}
	t := &Ty{K: "rec"}
	for i := 0; i < n; i++ {
		f := fieldPool[g.r.Intn(len(fieldPool))]
		if used[f] {
			continue
		}
		used[f] = true
		var ft *Ty
		if d > 0 && g.r.Chance(1, 4) {
			ft = g.randType(d - 1)
		} else {
			ft = g.randScalar()
		}
		t.F = append(t.F, Field{f, ft})
	}
	// sorted by name, like the maps they denote
	for i := range t.F {
		for j := i + 1; j < len(t.F); j++ {
			if t.F[j].Name < t.F[i].Name {
				t.F[i], t.F[j] = t.F[j], t.F[i]
			}
		}
	}
	// a record with exactly the fields key and value would be taken for an internal (key, value) pair
	if len(t.F) == 2 && t.F[0].Name == "key" && t.F[1].Name == "value" {
		t.F = t.F[:1]
	}
	return t
}

func (g *gen) randType(d int) *Ty {
	if d <= 0 {
		return g.randScalar()
	}
	switch g.r.Intn(8) {
	case 0, 1:
		return tList(g.randType(d - 1))
	case 2, 3:
		return tSet(g.randType(d - 1))
	case 4:
		return g.randRec(d - 1)
	}
	return g.randScalar()
}

func (g *gen) randVal(t *Ty, d int) *Val {
	switch t.K {
	case "int":
		return vInt(intPool[g.r.Intn(len(intPool))])
	case "str":
		return vStr(strPool[g.r.Intn(len(strPool))])
	case "bool":
		return vBool(g.r.Bool())
	case "list", "set":
		n := g.r.Intn(4)
		out := []*Val{}
		for i := 0; i < n; i++ {
			out = append(out, g.randVal(t.E, d-1))
		}
		if t.K == "list" {
			return vList(out)
		}
		return vSet(out)
	case "rec":
		var m []KV
		for _, f := range t.F {
			m = append(m, KV{f.Name, g.randVal(f.T, d-1)})
		}
		return vMap(m)
	}
	panic("randVal")
}

func (g *gen) varsOf(t *Ty) []string {
	var out []string
	seen := map[string]bool{}
	for i := len(g.env) - 1; i >= 0; i-- { // innermost binding of a name wins
		b := g.env[i]
		if seen[b.name] {
			continue
		}
		seen[b.name] = true
		if tyEq(b.t, t) {
			out = append(out, b.name)
		}
	}
	return out
}

// record variables (innermost bindings) having a field of type t
func (g *gen) recFieldsOf(t *Ty) [][2]string {
	var out [][2]string
	seen := map[string]bool{}
	for i := len(g.env) - 1; i >= 0; i-- {
		b := g.env[i]
		if seen[b.name] {
			continue
		}
		seen[b.name] = true
		if b.t.K == "rec" {
			for _, f := range b.t.F {
				if tyEq(f.T, t) {
					out = append(out, [2]string{b.name, f.Name})
				}
			}
		}
	}
	return out
}

func (g *gen) push(n string, t *Ty) func() {
	g.env = append(g.env, bind{n, t})
	k := len(g.env)
	return func() { g.env = g.env[:k-1] }
}

// scope variable for an iteration: ".", a fresh name, or - deliberately - the name of a binding in scope
func (g *gen) scopeVar() string {
	switch {
	case g.r.Chance(1, 3):
		return "."
	case len(g.env) > 0 && g.r.Chance(1, 3):
		g.note("scopevar-shadows-binding")
		return g.env[g.r.Intn(len(g.env))].name
	}
	return g.freshName("s")
}

func (g *gen) leaf(t *Ty) *Expr {
	if vs := g.varsOf(t); len(vs) > 0 && g.r.Chance(3, 4) {
		g.note("var")
		return eName(vs[g.r.Intn(len(vs))])
	}
	if fs := g.recFieldsOf(t); len(fs) > 0 && g.r.Chance(1, 2) {
		f := fs[g.r.Intn(len(fs))]
		g.note("getattr")
		return eAttr(eName(f[0]), f[1])
	}
	switch t.K {
	case "int", "str", "bool":
		return eLit(g.randVal(t, 0))
	case "list", "set":
		n := g.r.Intn(3)
		var es []*Expr
		for i := 0; i < n; i++ {
			es = append(es, g.leaf(t.E))
		}
		if t.K == "set" && n > 0 && g.r.Chance(1, 4) {
			es = append(es, es[0]) // a set literal with a repeated element
			g.note("set-literal-repeat")
		}
		if t.K == "list" {
			return eList(es...)
		}
		return eSet(es...)
	case "rec":
		return g.recTransform(t, 0, eLit(vInt(0)), tInt)
	}
	panic("leaf")
}

// statements of a transform body producing record type t: some lets, then one assign per field
func (g *gen) body(t *Ty, d int) []Stmt {
	var st []Stmt
	var pops []func()
	nlet := g.r.Intn(3)
	for i := 0; i < nlet; i++ {
		lt := g.randType(1)
		e := g.expr(lt, d)
		name := g.freshName("l")
		if g.letShadow && len(g.env) > 0 && g.r.Chance(1, 2) {
			name = g.env[g.r.Intn(len(g.env))].name
			g.note("let-shadows-binding")
		}
		st = append(st, sLet(name, e))
		pops = append(pops, g.push(name, lt))
	}
	for _, f := range t.F {
		st = append(st, sAssign(f.Name, g.expr(f.T, d)))
	}
	for i := len(pops) - 1; i >= 0; i-- {
		pops[i]()
	}
	return st
}

// the name "." as the argument of a transform is the parser's spelling of "no argument": keep the value, not the spelling
func notDot(arg *Expr) *Expr {
	if arg.K == "name" && arg.Name == "." {
		return eIf(eLit(vBool(true)), arg, arg)
	}
	return arg
}

// transform evaluated once: arg of a non-collection type at, producing a record
func (g *gen) recTransform(t *Ty, d int, arg *Expr, at *Ty) *Expr {
	sv := g.scopeVar()
	if at.K == "rec" {
		sv = "." // a map argument with a named scope variable iterates over the entries instead
	}
	arg = notDot(arg)
	pop := g.push(sv, at)
	st := g.body(t, d)
	pop()
	g.note("transform-single")
	return eTr(arg, sv, "other", st...)
}

func (g *gen) expr(t *Ty, d int) *Expr {
	if d <= 0 || g.r.Chance(1, 5) {
		return g.leaf(t)
	}
	d--
	for try := 0; try < 8; try++ {
		if e := g.production(t, d); e != nil {
			return e
		}
	}
	return g.leaf(t)
}

func (g *gen) production(t *Ty, d int) *Expr {
	// productions common to all types
	switch g.r.Intn(10) {
	case 0:
		g.note("if")
		return eIf(g.expr(tBool, d), g.expr(t, d), g.expr(t, d))
	case 1:
		var cands []viewSig
		for _, v := range g.views {
			if tyEq(v.ret, t) {
				cands = append(cands, v)
			}
		}
		if len(cands) > 0 {
			v := cands[g.r.Intn(len(cands))]
			var args []*Expr
			for _, pt := range v.params {
				args = append(args, g.expr(pt, d))
			}
			g.note("view-call")
			return eCall(v.name, args...)
		}
	case 2:
		if t.K != "rec" { // single(<one-element list of t>)
			if g.r.Chance(1, 3) {
				g.note("single")
				if g.r.Bool() {
					return eUn("SINGLE", eList(g.expr(t, d)))
				}
				return eUn("SINGLE", eSet(g.expr(t, d)))
			}
		}
	}
	switch t.K {
	case "int":
		switch g.r.Intn(7) {
		case 0, 1:
			op := []string{"ADD", "SUB", "MUL"}[g.r.Intn(3)]
			g.note("int-arith")
			return eBin(op, g.expr(tInt, d), g.expr(tInt, d))
		case 2:
			div := intPool[1+g.r.Intn(len(intPool)-1)] // never 0
			g.note("int-divmod")
			return eBin([]string{"DIV", "MOD"}[g.r.Intn(2)], g.expr(tInt, d), eLit(vInt(div)))
		case 3:
			g.note("neg-int")
			return eUn("NEG", g.expr(tInt, d))
		case 4, 5:
			var ct *Ty
			switch g.r.Intn(3) {
			case 0:
				ct = tList(g.randType(1))
			case 1:
				ct = tSet(g.randType(1))
			default:
				ct = g.randRec(1)
			}
			g.note("count")
			return eCall(".count", g.expr(ct, d))
		}
	case "str":
		switch g.r.Intn(4) {
		case 0, 1:
			g.note("str-concat")
			return eBin("ADD", g.expr(tStr, d), g.expr(tStr, d))
		case 2:
			if !g.noString {
				g.note("to-string")
				return eUn("STRING", g.expr(g.randType(2), d))
			}
		}
	case "bool":
		switch g.r.Intn(8) {
		case 0:
			st := g.randScalar()
			g.note("eq")
			return eBin([]string{"EQ", "NE"}[g.r.Intn(2)], g.expr(st, d), g.expr(st, d))
		case 1, 2:
			g.note("int-compare")
			return eBin([]string{"LT", "LE", "GT", "GE", "EQ", "NE"}[g.r.Intn(6)], g.expr(tInt, d), g.expr(tInt, d))
		case 3:
			g.note("and")
			return eBin("AND", g.expr(tBool, d), g.expr(tBool, d))
		case 4:
			g.note("neg-bool")
			return eUn("NEG", g.expr(tBool, d))
		case 5, 6:
			var ct *Ty
			switch g.r.Intn(3) {
			case 0:
				ct = tList(tStr)
			case 1:
				ct = tSet(tStr)
			default:
				ct = g.randRec(0)
			}
			g.note("membership")
			return eBin([]string{"IN", "NOT_IN"}[g.r.Intn(2)], g.expr(tStr, d), g.expr(ct, d))
		}
	case "list":
		switch g.r.Intn(9) {
		case 0, 1:
			g.note("list-concat")
			return eBin("BITOR", g.expr(t, d), g.expr(t, d))
		case 2:
			g.note("list-concat-set")
			return eBin("BITOR", g.expr(t, d), g.expr(tSet(t.E), d))
		case 3:
			return g.where(t, d)
		case 4:
			return g.flattenColl(t, d)
		case 5:
			if t.E.K != "set" || true {
				return g.flattenMaps(t, d)
			}
		case 6, 7:
			if t.E.K == "rec" {
				return g.collTransform(t, d)
			}
		case 8:
			if t.E.K == "rec" {
				return g.mapTransform(t, d)
			}
		}
	case "set":
		switch g.r.Intn(8) {
		case 0, 1:
			if k := t.E.K; k == "int" || k == "str" {
				g.note("set-union")
				return eBin("BITOR", g.expr(t, d), g.expr(t, d))
			}
		case 2:
			return g.where(t, d)
		case 3:
			return g.flattenColl(t, d)
		case 4:
			if t.E.K != "set" {
				return g.flattenMaps(t, d)
			}
		case 5, 6, 7:
			if t.E.K == "rec" {
				return g.collTransform(t, d)
			}
		}
	case "rec":
		switch g.r.Intn(3) {
		case 0, 1:
			at := g.randScalar()
			if g.r.Chance(1, 3) {
				at = g.randRec(0)
			}
			return g.recTransform(t, d, g.expr(at, d), at)
		}
	}
	return nil
}

func (g *gen) where(t *Ty, d int) *Expr {
	src := g.expr(t, d)
	sv := g.scopeVar()
	pop := g.push(sv, t.E)
	pred := g.expr(tBool, d)
	pop()
	g.note("where-" + t.K)
	return eBinSv("WHERE", src, pred, sv)
}

// flatten over a collection of collections; result has t's kind (list for an outer list, set for an outer set)
func (g *gen) flattenColl(t *Ty, d int) *Expr {
	u := g.randType(1)
	var inner *Ty
	if g.r.Bool() {
		inner = tList(u)
	} else {
		inner = tSet(u)
	}
	outer := &Ty{K: t.K, E: inner}
	src := g.expr(outer, d)
	sv := g.scopeVar()
	pop := g.push(sv, u)
	rhs := g.expr(t.E, d)
	pop()
	g.note("flatten-" + t.K + "-of-" + inner.K)
	return eBinSv("FLATTEN", src, rhs, sv)
}

// flatten over a collection of maps
func (g *gen) flattenMaps(t *Ty, d int) *Expr {
	rt := g.randRec(0)
	outer := &Ty{K: t.K, E: rt}
	src := g.expr(outer, d)
	sv := g.scopeVar()
	pop := g.push(sv, rt)
	var rhs *Expr
	if t.K == "set" && g.r.Bool() {
		rhs = g.expr(tSet(t.E), d) // set-valued: spliced
		g.note("flatten-set-of-map-splice")
	} else {
		if t.K == "set" && t.E.K == "set" {
			pop()
			return nil
		}
		rhs = g.expr(t.E, d)
		g.note("flatten-" + t.K + "-of-map")
	}
	pop()
	return eBinSv("FLATTEN", src, rhs, sv)
}

// transform over a list / set: t = list(rec) or set(rec)
func (g *gen) collTransform(t *Ty, d int) *Expr {
	et := g.randType(1)
	var st *Ty
	if g.r.Bool() {
		st = tList(et)
	} else {
		st = tSet(et)
	}
	src := notDot(g.expr(st, d))
	sv := g.scopeVar()
	pop := g.push(sv, et)
	body := g.body(t.E, d)
	pop()
	ty := "other"
	if t.K == "set" {
		ty = "set"
	}
	g.note("transform-" + t.K + "-over-" + st.K)
	return eTr(src, sv, ty, body...)
}

// transform over the entries of a map with a named scope variable: t = list(rec)
func (g *gen) mapTransform(t *Ty, d int) *Expr {
	rt := g.randRec(0)
	src := notDot(g.expr(rt, d))
	sv := g.freshName("e")
	pt := &Ty{K: "rec", F: []Field{{"key", tStr}}}
	homog := true
	for _, f := range rt.F {
		if !tyEq(f.T, rt.F[0].T) {
			homog = false
		}
	}
	if homog {
		pt.F = append(pt.F, Field{"value", rt.F[0].T})
	}
	pop := g.push(sv, pt)
	body := g.body(t.E, d)
	pop()
	g.note("transform-over-map-entries")
	return eTr(src, sv, "other", body...)
}

// ---- whole programs ----
func (g *gen) program(depth int) *Prog {
	p := &Prog{Typed: true, Family: "typed"}
	// helper views, each may call the earlier ones
	nh := g.r.Intn(3)
	for i := 0; i < nh; i++ {
		sig := viewSig{name: fmt.Sprintf("H%d", i), ret: g.randType(2)}
		var ps []string
		saved := g.env
		g.env = nil
		np := g.r.Intn(3)
		for j := 0; j < np; j++ {
			pt := g.randType(1)
			pn := fmt.Sprintf("q%d", j)
			sig.params = append(sig.params, pt)
			ps = append(ps, pn)
			g.env = append(g.env, bind{pn, pt})
		}
		body := g.expr(sig.ret, depth-1)
		g.env = saved
		p.Views = append(p.Views, View{Name: sig.name, Params: ps, Body: body})
		g.views = append(g.views, sig)
	}
	// caller's scope = arguments of the main view
	na := 1 + g.r.Intn(3)
	for j := 0; j < na; j++ {
		at := g.randType(2)
		an := fmt.Sprintf("p%d", j)
		p.Scope = append(p.Scope, KV{an, g.randVal(at, 2)})
		g.env = append(g.env, bind{an, at})
	}
	var body *Expr
	if g.r.Chance(1, 6) {
		body = g.expr(g.randType(2), depth)
	} else {
		// the usual shape: one transform evaluated once; lets reused by the later statements
		rt := g.randRec(1)
		for len(rt.F) < 3 && g.r.Chance(2, 3) {
			extra := g.randRec(1)
			for _, f := range extra.F {
				dup := false
				for _, h := range rt.F {
					if h.Name == f.Name {
						dup = true
					}
				}
				if !dup {
					rt.F = append(rt.F, f)
				}
			}
		}
		at := g.randScalar()
		body = g.recTransform(rt, depth, g.leaf(at), at)
	}
	var params []string
	for _, kv := range p.Scope {
		params = append(params, kv.Key)
	}
	p.Views = append(p.Views, View{Name: "main", Params: params, Body: body})
	p.Main = "main"
	return p
}

func newGen(r *common.Rng, feat map[string]int) *gen { return &gen{r: r, feat: feat} }

// ---- Appendix B shapes ----

// a list bound once and concatenated twice (and once more, twice): x and y must stay what they were bound to
func shapeConcatTwice(r *common.Rng) *Prog {
	g := newGen(r, map[string]int{})
	et := g.randScalar()
	lit := func(n int) *Expr {
		var es []*Expr
		for i := 0; i < n; i++ {
			es = append(es, eLit(g.randVal(et, 0)))
		}
		return eList(es...)
	}
	n0 := 1 + r.Intn(5)
	st := []Stmt{
		sLet("a0", lit(n0)),
		sLet("a", eBin("BITOR", eName("a0"), lit(1+r.Intn(2)))),
		sLet("x", eBin("BITOR", eName("a"), lit(1+r.Intn(2)))),
		sLet("y", eBin("BITOR", eName("a"), lit(1+r.Intn(2)))),
		sLet("b", eBin("BITOR", eBin("BITOR", eName("a"), lit(1)), lit(1+r.Intn(3)))),
	}
	if r.Bool() {
		st = append(st, sLet("z", eBin("BITOR", eName("x"), eSet(eLit(g.randVal(et, 0))))))
		st = append(st, sLet("w", eBin("BITOR", eName("x"), lit(1))))
	}
	for _, n := range []string{"a0", "a", "x", "y", "b"} {
		st = append(st, sAssign("out_"+n, eName(n)))
	}
	st = append(st, sAssign("n", eCall(".count", eName("y"))))
	return &Prog{Typed: true, Family: "concat-twice", Main: "main", Scope: []KV{{"p0", vInt(1)}},
		Views: []View{{Name: "main", Params: []string{"p0"}, Body: eTr(eName("p0"), ".", "other", st...)}}}
}

// where / flatten / transform whose scope variable is the name of an outer binding that is read again afterwards
func shapeScopeVarShadow(r *common.Rng) *Prog {
	g := newGen(r, map[string]int{})
	outer := g.randVal(tStr, 0)
	strs := tList(tStr)
	src := eLit(g.randVal(strs, 1))
	var it *Expr
	fam := ""
	switch r.Intn(4) {
	case 0:
		it = eBinSv("WHERE", src, eBin("NE", eName("v"), eLit(vStr("a"))), "v")
		fam = "where"
	case 1:
		it = eBinSv("WHERE", eSet(eLit(vStr("a")), eLit(vStr("b")), eLit(vStr("c"))), eBin("IN", eName("v"), src), "v")
		fam = "where-set"
	case 2:
		it = eBinSv("FLATTEN", eList(src, src), eBin("ADD", eName("v"), eLit(vStr("!"))), "v")
		fam = "flatten"
	default:
		ty := "other"
		if r.Bool() {
			ty = "set"
		}
		it = eTr(src, "v", ty, sAssign("f", eBin("ADD", eName("v"), eLit(vStr("?")))))
		fam = "transform"
	}
	var st []Stmt
	useLet := r.Bool()
	if useLet {
		st = append(st, sLet("v", eLit(outer))) // the outer binding is a let of the same body
	}
	st = append(st, sLet("r", it), sAssign("res", eName("r")), sAssign("after", eBin("ADD", eName("v"), eLit(vStr("#")))))
	p := &Prog{Typed: true, Family: "scopevar-shadow-" + fam, Main: "main",
		Views: []View{{Name: "main", Params: []string{"p0", "v"}, Body: eTr(eName("p0"), ".", "other", st...)}}}
	p.Scope = []KV{{"p0", vInt(0)}, {"v", outer}}
	return p
}

// set-typed transform whose results repeat
func shapeSetTransformDup(r *common.Rng) *Prog {
	g := newGen(r, map[string]int{})
	n := 2 + r.Intn(5)
	var es []*Expr
	for i := 0; i < n; i++ {
		es = append(es, eLit(vInt(int64(r.Intn(6)))))
	}
	var src *Expr
	if r.Bool() {
		src = eList(es...)
	} else {
		src = eSet(es...)
	}
	m := int64(1 + r.Intn(3))
	sv := []string{".", "e"}[r.Intn(2)]
	tr := func(ty string) *Expr {
		return eTr(src, sv, ty, sAssign("k", eBin("MOD", eName(sv), eLit(vInt(m)))), sAssign("c", eLit(g.randVal(tStr, 0))))
	}
	st := []Stmt{
		sLet("asset", tr("set")), sLet("aslist", tr("other")),
		sAssign("s", eName("asset")), sAssign("l", eName("aslist")),
		sAssign("ns", eCall(".count", eName("asset"))), sAssign("nl", eCall(".count", eName("aslist"))),
	}
	return &Prog{Typed: true, Family: "set-transform-dup", Main: "main", Scope: []KV{{"p0", vInt(0)}},
		Views: []View{{Name: "main", Params: []string{"p0"}, Body: eTr(eName("p0"), ".", "other", st...)}}}
}

// ---- hostile stream: blind mutations of a typed program ----
func allExprs(e *Expr, f func(**Expr)) {
	for i := range e.A {
		f(&e.A[i])
		allExprs(e.A[i], f)
	}
	for i := range e.Stmts {
		f(&e.Stmts[i].E)
		allExprs(e.Stmts[i].E, f)
	}
}

func mutate(r *common.Rng, p *Prog, feat map[string]int) {
	p.Typed = false
	p.Family = "hostile"
	g := newGen(r, map[string]int{})
	g.noString = true
	nm := 1 + r.Intn(3)
	for k := 0; k < nm; k++ {
		var slots []**Expr
		for i := range p.Views {
			slots = append(slots, &p.Views[i].Body)
			allExprs(p.Views[i].Body, func(s **Expr) { slots = append(slots, s) })
		}
		s := slots[r.Intn(len(slots))]
		e := *s
		kind := r.Intn(12)
		switch kind {
		case 0: // an expression of an arbitrary other type
			*s = g.expr(g.randType(2), 1)
			feat["mut:retype"]++
		case 1:
			*s = eName("nosuch")
			feat["mut:unknown-name"]++
		case 2:
			if e.K == "bin" && e.Op != "WHERE" && e.Op != "FLATTEN" {
				e.Op = []string{"OR", "POW", "CONTAINS", "BITAND", "COALESCE", "ADD", "EQ", "NE", "BITOR", "IN", "LT", "AND"}[r.Intn(12)]
				feat["mut:binop"]++
			}
		case 3:
			if e.K == "tr" {
				e.Ty = []string{"none", "set", "other"}[r.Intn(3)]
				feat["mut:transform-type"]++
			}
		case 4:
			if e.K == "list" || e.K == "set" {
				e.A = append(e.A, g.expr(g.randType(1), 0))
				feat["mut:heterogeneous"]++
			}
		case 5:
			*s = eBin([]string{"DIV", "MOD"}[r.Intn(2)], eLit(vInt(7)), eLit(vInt(0)))
			feat["mut:div-zero"]++
		case 6:
			*s = eUn([]string{"SINGLE", "NEG", "NOT", "POS"}[r.Intn(4)], e)
			feat["mut:unary"]++
		case 7:
			if e.K == "call" && len(e.A) > 0 {
				e.A = e.A[1:]
				feat["mut:arity"]++
			} else {
				*s = eCall([]string{".count", ".nosuch", "H0", "H9"}[r.Intn(4)], e)
				feat["mut:call"]++
			}
		case 8:
			*s = eAttr(e, fieldPool[r.Intn(len(fieldPool))])
			feat["mut:getattr"]++
		case 9:
			*s = eBin("EQ", e, eLit(&Val{K: "null"}))
			feat["mut:null-compare"]++
		case 10:
			if e.K == "bin" && (e.Op == "WHERE" || e.Op == "FLATTEN") {
				e.Op = map[string]string{"WHERE": "FLATTEN", "FLATTEN": "WHERE"}[e.Op]
				feat["mut:where-flatten-swap"]++
			} else if e.K == "tr" {
				e.A[0] = eName(".")
				feat["mut:dot-arg"]++
			}
		case 11:
			if e.K == "tr" && len(e.Stmts) > 0 {
				i := r.Intn(len(e.Stmts))
				e.Stmts[i].Let = !e.Stmts[i].Let
				feat["mut:let-assign-swap"]++
			}
		}
	}
}

// ---- syntactic facts used by the oracle ----

// hasLetShadow: some let takes a name that is bound where the let stands (caller's scope / view parameter,
// an earlier let of an enclosing body, an enclosing scope variable), or the same body binds one name twice.
func hasLetShadow(p *Prog) bool {
	found := false
	var walk func(e *Expr, bound map[string]bool)
	walk = func(e *Expr, bound map[string]bool) {
		switch e.K {
		case "tr":
			walk(e.A[0], bound)
			inner := map[string]bool{}
			for k := range bound {
				inner[k] = true
			}
			inner[e.Sv] = true
			for _, s := range e.Stmts {
				walk(s.E, inner)
				if s.Let {
					if inner[s.Name] {
						found = true
					}
					inner[s.Name] = true
				}
			}
		case "bin":
			walk(e.A[0], bound)
			if e.Op == "WHERE" || e.Op == "FLATTEN" {
				inner := map[string]bool{}
				for k := range bound {
					inner[k] = true
				}
				inner[e.Sv] = true
				walk(e.A[1], inner)
			} else {
				walk(e.A[1], bound)
			}
		default:
			for _, a := range e.A {
				walk(a, bound)
			}
		}
	}
	for _, v := range p.Views {
		b := map[string]bool{}
		for _, n := range v.Params {
			b[n] = true
		}
		if v.Name == p.Main {
			for _, kv := range p.Scope {
				b[kv.Key] = true
			}
		}
		walk(v.Body, b)
	}
	return found
}

func rootLabel(e *Expr) string {
	switch e.K {
	case "bin":
		return e.Op
	case "un":
		return e.Op
	case "tr":
		return "transform-" + e.Ty
	case "call":
		if e.Name == ".count" {
			return "count"
		}
		return "view-call"
	}
	return e.K
}

func exprSize(e *Expr) int {
	n := 1
	for _, a := range e.A {
		n += exprSize(a)
	}
	for _, s := range e.Stmts {
		n += 1 + exprSize(s.E)
	}
	return n
}

func exprDepth(e *Expr) int {
	d := 0
	for _, a := range e.A {
		if x := exprDepth(a); x > d {
			d = x
		}
	}
	for _, s := range e.Stmts {
		if x := exprDepth(s.E); x > d {
			d = x
		}
	}
	return d + 1
}
