// Call resolution (deepen round 3, goal 0): evalCall looks a call name up among the transform application's own views,
// then the "."-builtins, then the native Go helper table (eval.GoFuncMap). The programs below define views whose NAME is
// a helper name (or ".count") and call them from another view - with the view's arity and with the helper's, with
// arguments that would fit the helper and arguments that would not -, call helpers directly (fitting / wrong arity /
// wrong argument kinds / results that are empty lists), and call names nobody knows.
//
// Oracle, independent of the Coq model:
//   - the reference interpreter (ref.go: a defined view is what a call means, whatever its name; a helper is the Go
//     standard-library function it is named after) judges the value of every program it defines;
//   - metamorphic: the same view on the same argument VALUES is also evaluated directly by eval.EvaluateView (a second
//     program whose main view is the callee and whose scope holds the argument values); the value the caller saw must be
//     that value, and so must the value of a second call with the same arguments.
package main

import (
	"fmt"
	"regexp"
	"sort"
	"strings"

	"verifharness/common"

	"github.com/anz-bank/sysl/pkg/eval"
)

// argument kinds of the helper table as documented in goFuncs.go: s string, i int, l list of strings
var helperSig = map[string]string{
	"Contains": "ss", "Count": "ss", "Fields": "s", "FindAllString": "ssi", "HasPrefix": "ss", "HasSuffix": "ss", "Join": "ls",
	"LastIndex": "ss", "MatchString": "ss", "Replace": "sssi", "Split": "ss", "Title": "s", "ToLower": "s", "ToTitle": "s", "ToUpper": "s",
	"Trim": "ss", "TrimLeft": "ss", "TrimPrefix": "ss", "TrimRight": "ss", "TrimSpace": "s", "TrimSuffix": "ss",
}

// helpers the Coq model has no body for (regular expressions, golang.org/x/text/cases, Replace): the correspondence
// accepts the model's "not covered" for programs that reach them
var helperUnmodelled = map[string]bool{"FindAllString": true, "MatchString": true, "Title": true, "Replace": true}

func helperNames() []string {
	var out []string
	for k := range eval.GoFuncMap {
		out = append(out, k)
	}
	sort.Strings(out)
	return out
}

var helperStrPool = []string{"a", "b", "ab", "", "abcabc", "x y", " pad ", "B", "bc", "aXbXc", "X", ",", "a,b,,c", "\tt\n", "Zz"}

func isASCII(s string) bool {
	for i := 0; i < len(s); i++ {
		if s[i] >= 128 {
			return false
		}
	}
	return true
}

// refGoFunc: the helper as the Go function it is named after, on arguments of exactly the documented kinds; anything
// else is outside the reference semantics.
func refGoFunc(name string, args []*Val) (*Val, error) {
	sig, ok := helperSig[name]
	if !ok {
		return nil, undefined("call %s", name)
	}
	if len(args) != len(sig) {
		return nil, undefined("%s: %d arguments", name, len(args))
	}
	var ss []string
	var ls []string
	var n int64
	for i, a := range args {
		switch sig[i] {
		case 's':
			if a.K != "s" {
				return nil, undefined("%s: argument %d is %s", name, i, a.K)
			}
			ss = append(ss, a.S)
		case 'i':
			if a.K != "i" {
				return nil, undefined("%s: argument %d is %s", name, i, a.K)
			}
			n = a.I
		case 'l':
			if a.K != "l" && a.K != "set" {
				return nil, undefined("%s: argument %d is %s", name, i, a.K)
			}
			for _, e := range a.E {
				if e.K != "s" {
					return nil, undefined("%s: element %s", name, e.K)
				}
				ls = append(ls, e.S)
			}
		}
	}
	strs := func(xs []string) *Val {
		out := []*Val{}
		for _, x := range xs {
			out = append(out, vStr(x))
		}
		return vList(out)
	}
	switch name {
	case "Contains":
		return vBool(strings.Contains(ss[0], ss[1])), nil
	case "Count":
		return vInt(int64(strings.Count(ss[0], ss[1]))), nil
	case "Fields":
		return strs(strings.Fields(ss[0])), nil
	case "HasPrefix":
		return vBool(strings.HasPrefix(ss[0], ss[1])), nil
	case "HasSuffix":
		return vBool(strings.HasSuffix(ss[0], ss[1])), nil
	case "Join":
		return vStr(strings.Join(ls, ss[0])), nil
	case "LastIndex":
		return vInt(int64(strings.LastIndex(ss[0], ss[1]))), nil
	case "Split":
		return strs(strings.Split(ss[0], ss[1])), nil
	case "ToLower":
		return vStr(strings.ToLower(ss[0])), nil
	case "ToTitle":
		return vStr(strings.ToTitle(ss[0])), nil
	case "ToUpper":
		return vStr(strings.ToUpper(ss[0])), nil
	case "Trim":
		return vStr(strings.Trim(ss[0], ss[1])), nil
	case "TrimLeft":
		return vStr(strings.TrimLeft(ss[0], ss[1])), nil
	case "TrimRight":
		return vStr(strings.TrimRight(ss[0], ss[1])), nil
	case "TrimPrefix":
		return vStr(strings.TrimPrefix(ss[0], ss[1])), nil
	case "TrimSuffix":
		return vStr(strings.TrimSuffix(ss[0], ss[1])), nil
	case "TrimSpace":
		return vStr(strings.TrimSpace(ss[0])), nil
	case "Replace":
		return vStr(strings.Replace(ss[0], ss[1], ss[2], int(n))), nil
	case "MatchString":
		re, err := regexp.Compile(ss[0])
		if err != nil {
			return nil, undefined("invalid pattern")
		}
		return vBool(re.MatchString(ss[1])), nil
	case "FindAllString":
		re, err := regexp.Compile(ss[0])
		if err != nil {
			return nil, undefined("invalid pattern")
		}
		return strs(re.FindAllString(ss[1], int(n))), nil
	}
	return nil, undefined("helper %s", name)
}

// ---- generator ----
type callGen struct {
	r *common.Rng
}

// the caller's variables: p0 int (the transform argument), s1 s2 strings, l1 list of strings, i1 int
func (g *callGen) callerScope() []KV {
	pick := func() string { return helperStrPool[g.r.Intn(len(helperStrPool))] }
	var l []*Val
	for i := 0; i < g.r.Intn(4); i++ {
		l = append(l, vStr(pick()))
	}
	if l == nil {
		l = []*Val{}
	}
	return []KV{{"i1", vInt([]int64{-1, 0, 1, 2}[g.r.Intn(4)])}, {"l1", vList(l)}, {"p0", vInt(0)}, {"s1", vStr(pick())}, {"s2", vStr(pick())}}
}

// an argument expression of kind k (s/i/l) whose VALUE is known statically: a caller variable or a literal
func (g *callGen) arg(k byte, scope []KV) (*Expr, *Val) {
	get := func(n string) *Val { v, _ := kvGet(scope, n); return v }
	switch k {
	case 's':
		switch g.r.Intn(3) {
		case 0:
			return eName("s1"), get("s1")
		case 1:
			return eName("s2"), get("s2")
		}
		v := vStr(helperStrPool[g.r.Intn(len(helperStrPool))])
		return eLit(v), v
	case 'i':
		if g.r.Bool() {
			return eName("i1"), get("i1")
		}
		v := vInt(int64(g.r.Intn(4) - 1))
		return eLit(v), v
	case 'l':
		if g.r.Chance(2, 3) {
			return eName("l1"), get("l1")
		}
		v := vList([]*Val{vStr("p"), vStr("q")})
		return eLit(v), v
	}
	panic("arg kind")
}

// a kind other than k
func (g *callGen) otherKind(k byte) byte {
	ks := []byte{'s', 'i', 'l'}
	for {
		o := ks[g.r.Intn(3)]
		if o != k {
			return o
		}
	}
}

// body of a view with parameters q0.. of the given kinds: a transform over the first string / int parameter giving a
// record {a: <all string parameters joined with a tag>, n: <int parameters + sizes of the list parameters + c>}: nothing
// a helper could return
func (g *callGen) viewBody(kinds string, tag string) *Expr {
	first := -1
	for i := 0; i < len(kinds); i++ {
		if kinds[i] != 'l' {
			first = i
			break
		}
	}
	var a *Expr = eLit(vStr(tag))
	var n *Expr = eLit(vInt(int64(1 + g.r.Intn(5))))
	for i := 0; i < len(kinds); i++ {
		q := eName(fmt.Sprintf("q%d", i))
		switch kinds[i] {
		case 's':
			a = eBin("ADD", a, q)
		case 'i':
			n = eBin("ADD", n, q)
		case 'l':
			n = eBin("ADD", n, eCall(".count", q))
		}
	}
	st := []Stmt{sLet("t", a), sAssign("a", eBin("ADD", eName("t"), eLit(vStr("|")))), sAssign("n", n)}
	if first < 0 {
		// only list parameters: not a shape the helper table has; keep a literal argument
		return eTr(eIf(eLit(vBool(true)), eLit(vInt(0)), eLit(vInt(0))), ".", "other", st...)
	}
	return eTr(eName(fmt.Sprintf("q%d", first)), ".", "other", st...)
}

func params(n int) []string {
	var ps []string
	for i := 0; i < n; i++ {
		ps = append(ps, fmt.Sprintf("q%d", i))
	}
	return ps
}

func mainView(st ...Stmt) View {
	return View{Name: "main", Params: []string{"i1", "l1", "p0", "s1", "s2"}, Body: eTr(eName("p0"), ".", "other", st...)}
}

// a view NAMED like a helper (or ".count"), called from main
func (g *callGen) shadow(names []string) *Prog {
	name := names[g.r.Intn(len(names))]
	hsig := helperSig[name]
	if hsig == "" {
		hsig = "s"
	}
	if g.r.Chance(1, 12) {
		name, hsig = ".count", "l"
	}
	scope := g.callerScope()
	// the view's own parameter kinds: the helper's, or something else entirely
	vk := hsig
	mode := g.r.Intn(6)
	switch mode {
	case 0: // another arity than the helper's
		vk = []string{"s", "ss", "sis", "si"}[g.r.Intn(4)]
		if len(vk) == len(hsig) {
			vk += "s"
		}
	case 1: // the helper's arity, other kinds
		b := []byte(hsig)
		i := g.r.Intn(len(b))
		b[i] = g.otherKind(b[i])
		vk = string(b)
	}
	if strings.Count(vk, "l") == len(vk) {
		vk += "s"
	}
	callee := View{Name: name, Params: params(len(vk)), Body: g.viewBody(vk, "#"+name+"#")}
	var args []*Expr
	var vals []*Val
	for i := 0; i < len(vk); i++ {
		e, v := g.arg(vk[i], scope)
		args = append(args, e)
		vals = append(vals, v)
	}
	fam := "call-resolution:view-named-like-helper"
	p := &Prog{Typed: true, Main: "main", Scope: scope}
	st := []Stmt{sLet("r", eCall(name, args...)), sAssign("out", eName("r")), sAssign("again", eCall(name, args...)),
		sAssign("s1_after", eName("s1")), sAssign("l1_after", eName("l1"))}
	if mode == 2 && len(hsig) != len(vk) || mode == 3 {
		// called with ANOTHER number of arguments than the view has (the helper's, when that differs): no value is defined;
		// the evaluator skips the call (nil) and must not fall through to the helper
		var hargs []*Expr
		k := hsig
		if len(k) == len(vk) {
			k += "s"
		}
		for i := 0; i < len(k); i++ {
			e, _ := g.arg(k[i], scope)
			hargs = append(hargs, e)
		}
		st = append(st, sAssign("skipped", eCall(name, hargs...)))
		fam = "call-resolution:view-called-with-wrong-arity"
	}
	if g.r.Chance(1, 3) {
		// another helper, not shadowed, called directly next to it
		other := names[g.r.Intn(len(names))]
		if other != name && !helperUnmodelled[other] && other != "Fields" && other != "Split" {
			var oargs []*Expr
			for i := 0; i < len(helperSig[other]); i++ {
				e, _ := g.arg(helperSig[other][i], scope)
				oargs = append(oargs, e)
			}
			st = append(st, sAssign("direct", eCall(other, oargs...)))
		}
	}
	p.Family = fam
	p.Views = []View{callee}
	if vk[0] != 'l' && g.r.Chance(1, 4) {
		// a second helper-named view that calls the first: resolution inside a callee
		if n2 := names[g.r.Intn(len(names))]; n2 != name {
			inner := eTr(eName("q0"), ".", "other", sAssign("via", eCall(name, args0(vk)...)), sAssign("tag", eLit(vStr(n2))))
			p.Views = append(p.Views, View{Name: n2, Params: params(len(vk)), Body: inner})
			st = append(st, sAssign("nested", eCall(n2, args...)))
		}
	}
	p.Views = append(p.Views, mainView(st...))
	// the callee evaluated directly on the same argument values
	var dsc []KV
	for i, v := range vals {
		dsc = append(dsc, KV{fmt.Sprintf("q%d", i), v})
	}
	p.CallOut = "out"
	p.Direct = &Prog{Typed: true, Family: "call-resolution:callee-evaluated-directly", Main: name, Scope: dsc, Views: cloneProg(p).Views}
	return p
}

func args0(kinds string) []*Expr {
	var out []*Expr
	for i := range kinds {
		out = append(out, eName(fmt.Sprintf("q%d", i)))
	}
	return out
}

// a helper called directly (no view of that name)
func (g *callGen) direct(names []string) *Prog {
	name := names[g.r.Intn(len(names))]
	sig := helperSig[name]
	if sig == "" {
		sig = "s"
	}
	scope := g.callerScope()
	fam := "call-resolution:helper-direct"
	k := sig
	switch g.r.Intn(8) {
	case 0:
		k = sig + string("sil"[g.r.Intn(3)]) // one argument too many
		fam = "call-resolution:helper-wrong-arity"
	case 1:
		k = sig[:len(sig)-1] // one too few
		fam = "call-resolution:helper-wrong-arity"
	case 2:
		b := []byte(sig)
		i := g.r.Intn(len(b))
		b[i] = g.otherKind(b[i])
		k = string(b)
		fam = "call-resolution:helper-wrong-kind"
	}
	var args []*Expr
	for i := 0; i < len(k); i++ {
		e, _ := g.arg(k[i], scope)
		args = append(args, e)
	}
	if fam == "call-resolution:helper-wrong-kind" && g.r.Chance(1, 4) {
		// the kinds the gate lets through although they are not the documented ones: an empty list / set for a string, a
		// set for the list, a list whose LATER elements are not strings
		i := g.r.Intn(len(args))
		switch sig[i%len(sig)] {
		case 's', 'i':
			args[i] = []*Expr{eLit(vList([]*Val{})), eLit(vSet([]*Val{}))}[g.r.Intn(2)]
		case 'l':
			args[i] = []*Expr{eLit(vSet([]*Val{vStr("u"), vStr("v")})), eLit(vList([]*Val{vStr("u"), vInt(3)}))}[g.r.Intn(2)]
		}
		fam = "call-resolution:helper-gate-edge"
	}
	st := []Stmt{sLet("r", eCall(name, args...)), sAssign("out", eName("r")), sAssign("again", eCall(name, args...)), sAssign("s1_after", eName("s1"))}
	p := &Prog{Typed: true, Family: fam, Main: "main", Scope: scope, Views: []View{mainView(st...)}}
	p.Lax = helperUnmodelled[name]
	return p
}

// helpers whose result is an EMPTY list: Fields of a blank string, Split("", ""), FindAllString without a match
func (g *callGen) emptyListResult() *Prog {
	var call *Expr
	lax := false
	switch g.r.Intn(4) {
	case 0:
		call = eCall("Fields", eLit(vStr([]string{"", " ", "\t \n"}[g.r.Intn(3)])))
	case 1:
		call = eCall("Split", eLit(vStr("")), eLit(vStr("")))
	case 2:
		call = eCall("FindAllString", eLit(vStr("z+")), eName("s1"), eLit(vInt(-1)))
		lax = true
	default:
		call = eCall("Fields", eBin("ADD", eLit(vStr(" ")), eLit(vStr(""))))
	}
	scope := g.callerScope()
	scope[3].V = vStr("abc")
	st := []Stmt{sLet("r", call), sAssign("out", eName("r")), sAssign("n", eCall(".count", eName("r")))}
	return &Prog{Typed: true, Lax: lax, Family: "call-resolution:helper-empty-list-result", Main: "main", Scope: scope, Views: []View{mainView(st...)}}
}

// names nobody knows, and "."-names other than .count
func (g *callGen) unknown() *Prog {
	scope := g.callerScope()
	name := []string{"NoSuchFn", "toupper", "Containss", "count", "H0", ".nosuch", ".Count", "strings.ToUpper"}[g.r.Intn(8)]
	e, _ := g.arg('s', scope)
	st := []Stmt{sAssign("out", eCall(name, e)), sAssign("s1_after", eName("s1"))}
	return &Prog{Typed: true, Family: "call-resolution:unknown-name", Main: "main", Scope: scope, Views: []View{mainView(st...)}}
}

func callPrograms(r *common.Rng, n int) []*Prog {
	g := &callGen{r: r}
	names := helperNames()
	var out []*Prog
	// every helper name once as a view called with the helper's own argument kinds, every run
	for _, nm := range names {
		h := &callGen{r: r.Fork()}
		for try := 0; try < 20; try++ {
			if p := h.shadow([]string{nm}); p.Direct.Main == nm {
				out = append(out, p)
				break
			}
		}
		out = append(out, (&callGen{r: r.Fork()}).direct([]string{nm}))
	}
	for i := 0; i < n; i++ {
		out = append(out, g.shadow(names), g.direct(names))
		if i%4 == 0 {
			out = append(out, g.unknown(), g.emptyListResult())
		}
	}
	return out
}

// judgeCallPairs: the callee evaluated directly by EvaluateView on the same argument values must give what the caller saw
func judgeCallPairs(c *common.Ctx, progs []*Prog, obsv []obs) {
	var ds []*Prog
	var idx []int
	for i, p := range progs {
		if p.Direct != nil && p.Src == "" {
			ds = append(ds, p.Direct)
			idx = append(idx, i)
		}
	}
	if len(ds) == 0 {
		return
	}
	dobs := runAll(ds, 8)
	for k, i := range idx {
		p, o, d := progs[i], obsv[i], dobs[k]
		c.Hist("oracle:call-vs-direct")
		if o.Exit1 || o.Other != "" || o.V == nil || o.V.K != "m" {
			continue // judged by the reference clause
		}
		seen, ok := mapGet(o.V, p.CallOut)
		if !ok {
			continue
		}
		if d.Exit1 || d.Other != "" {
			c.Fail("call-differs-from-evaluate-view:"+p.Family, fmt.Sprintf("[%s] view %s called from main gave %s, eval.EvaluateView of the same view on the same argument values %s: %s", p.Family, p.Direct.Main, seen.String(), obsString(d), progText(p)), p)
			continue
		}
		if !valEq(seen, d.V) {
			c.Fail("call-differs-from-evaluate-view:"+p.Family, fmt.Sprintf("[%s] view %s called from main gave %s, eval.EvaluateView of the same view on the same argument values gave %s: %s", p.Family, p.Direct.Main, seen.String(), d.V.String(), progText(p)), p)
			continue
		}
		if again, ok := mapGet(o.V, "again"); ok && !valEq(again, seen) {
			c.Fail("second-call-differs:"+p.Family, fmt.Sprintf("[%s] two calls of view %s with the same arguments gave %s and %s: %s", p.Family, p.Direct.Main, seen.String(), again.String(), progText(p)), p)
		}
	}
}
