// Reference interpreter: the expression language as the property states it, on pure values with lexical
// scoping (a let is visible in the statements after it, a scope variable inside its body, nothing leaks).
// Written independently of the Coq model and of pkg/eval; applied to programs of the typed stream only.
// Where the language has no specification beyond the implementation's evident intent, the choices are:
//
//	set literal            elements as written (no de-duplication, no reordering)
//	set | set              sorted union without duplicates (ints numerically, strings bytewise)
//	list | list, list|set  concatenation, a list
//	xs where(v: p)         the elements for which p holds, same collection kind, order kept; over a map: the entries
//	                       for which p holds with v bound to the (key, value) pair, a map
//	a || b, !a             boolean or / not (the grammar has both: E_LOGIC_OR, E_NOT)
//	xs flatten(v: e)       e for every element of every inner collection (list result for an outer list, set
//	                       result for an outer set); over a collection of maps: e for every map, a set-valued
//	                       e being spliced when the outer collection is a set
//	transform              list/set argument: one result per element, `set of` results keep the first
//	                       occurrence of equal results; map argument with a named scope variable: one result
//	                       per entry in key order with the variable bound to (key, value); otherwise one result
//	m.attr                 on a (key, value) pair: the key / the value / an attribute of the value
//	a == null, a != null   null equals null only; an int, a string or a list on the left, or an int or a string on the
//	                       right of null, is not null; s in null is false (other kinds against null have no value)
//	str(x)                 decimal ints, true/false, [a, b], {k: v} with sorted entries
//	f(args)                a view of the application named f, whatever the name (body on the argument values, own
//	                       scope); else .count; else the native helper named f = the Go function of that name on
//	                       arguments of the documented kinds (calls.go refGoFunc); anything else has no value
package main

import (
	"errors"
	"fmt"
	"sort"
	"strings"
)

type env struct {
	name string
	v    *Val
	next *env
}

func (e *env) get(n string) (*Val, bool) {
	for ; e != nil; e = e.next {
		if e.name == n {
			return e.v, true
		}
	}
	return nil, false
}
func (e *env) with(n string, v *Val) *env { return &env{n, v, e} }

var errUndefined = errors.New("outside the reference semantics")

type refCtx struct {
	views map[string]*View
	steps int
	// some native helper returned an empty list during this run (fixes/C10-4: that used to end the process)
	emptyHelperList bool
	// variant used only to ATTRIBUTE a wrong value to the known finding set-transform-over-map-keeps-duplicates: a
	// `set of` transform over the entries of a map keeps equal results
	mapSetKeepsDups bool
}

// set by refRun: the last reference run saw a native helper return an empty list
var lastRefEmptyHelperList bool

func undefined(f string, a ...interface{}) error {
	return fmt.Errorf("%w: %s", errUndefined, fmt.Sprintf(f, a...))
}

func refStr(v *Val) (string, error) {
	switch v.K {
	case "s":
		return v.S, nil
	case "i":
		return fmt.Sprintf("%d", v.I), nil
	case "b":
		if v.B {
			return "true", nil
		}
		return "false", nil
	case "l", "set":
		var parts []string
		for _, e := range v.E {
			s, err := refStr(e)
			if err != nil {
				return "", err
			}
			parts = append(parts, s)
		}
		return "[" + strings.Join(parts, ", ") + "]", nil
	case "m":
		var parts []string
		for _, kv := range v.M {
			s, err := refStr(kv.V)
			if err != nil {
				return "", err
			}
			parts = append(parts, kv.Key+": "+s)
		}
		sort.Strings(parts)
		return "{" + strings.Join(parts, ", ") + "}", nil
	}
	return "", undefined("str of %s", v.K)
}

func isPair(v *Val) bool {
	return v.K == "m" && len(v.M) == 2 && v.M[0].Key == "key" && v.M[1].Key == "value"
}

func mapGet(v *Val, k string) (*Val, bool) {
	for _, kv := range v.M {
		if kv.Key == k {
			return kv.V, true
		}
	}
	return nil, false
}

func (rc *refCtx) stmts(en *env, ss []Stmt) (*Val, []KV, error) {
	var out []KV
	var lets []KV
	for _, s := range ss {
		v, err := rc.eval(en, s.E)
		if err != nil {
			return nil, nil, err
		}
		if s.Let {
			en = en.with(s.Name, v)
			lets = append(lets, KV{s.Name, v})
		} else {
			replaced := false
			for i := range out {
				if out[i].Key == s.Name {
					out[i].V = v
					replaced = true
				}
			}
			if !replaced {
				out = append(out, KV{s.Name, v})
			}
		}
	}
	return vMap(out), lets, nil
}

func (rc *refCtx) eval(en *env, e *Expr) (*Val, error) {
	rc.steps++
	if rc.steps > 200000 {
		return nil, undefined("too many steps")
	}
	switch e.K {
	case "name":
		v, ok := en.get(e.Name)
		if !ok {
			return nil, undefined("unbound %s", e.Name)
		}
		return v, nil
	case "lit":
		return e.Lit, nil
	case "attr":
		a, err := rc.eval(en, e.A[0])
		if err != nil {
			return nil, err
		}
		if a.K != "m" {
			return nil, undefined("attribute of %s", a.K)
		}
		if isPair(a) {
			if e.Name == "key" || e.Name == "value" {
				v, _ := mapGet(a, e.Name)
				return v, nil
			}
			a, _ = mapGet(a, "value")
			if a.K != "m" {
				return nil, undefined("attribute of a pair whose value is %s", a.K)
			}
		}
		if v, ok := mapGet(a, e.Name); ok {
			return v, nil
		}
		return &Val{K: "null"}, nil
	case "if":
		c, err := rc.eval(en, e.A[0])
		if err != nil {
			return nil, err
		}
		if c.K != "b" {
			return nil, undefined("condition %s", c.K)
		}
		if c.B {
			return rc.eval(en, e.A[1])
		}
		return rc.eval(en, e.A[2])
	case "list", "set":
		out := []*Val{}
		for _, a := range e.A {
			v, err := rc.eval(en, a)
			if err != nil {
				return nil, err
			}
			out = append(out, v)
		}
		if e.K == "list" {
			return vList(out), nil
		}
		return vSet(out), nil
	case "call":
		if v, ok := rc.views[e.Name]; ok {
			if len(v.Params) != len(e.A) {
				return nil, undefined("arity")
			}
			var ce *env
			for i, a := range e.A {
				x, err := rc.eval(en, a)
				if err != nil {
					return nil, err
				}
				ce = ce.with(v.Params[i], x)
			}
			return rc.eval(ce, v.Body)
		}
		if e.Name == ".count" && len(e.A) == 1 {
			x, err := rc.eval(en, e.A[0])
			if err != nil {
				return nil, err
			}
			switch x.K {
			case "l", "set":
				return vInt(int64(len(x.E))), nil
			case "m":
				return vInt(int64(len(x.M))), nil
			}
			return nil, undefined("count of %s", x.K)
		}
		if strings.HasPrefix(e.Name, ".") {
			return nil, undefined("call %s", e.Name)
		}
		// not a view, not a builtin: a native helper, the Go function it is named after (calls.go)
		var args []*Val
		for _, a := range e.A {
			x, err := rc.eval(en, a)
			if err != nil {
				return nil, err
			}
			args = append(args, x)
		}
		v, err := refGoFunc(e.Name, args)
		if err == nil && v.K == "l" && len(v.E) == 0 {
			rc.emptyHelperList = true
		}
		return v, err
	case "un":
		x, err := rc.eval(en, e.A[0])
		if err != nil {
			return nil, err
		}
		switch e.Op {
		case "NEG":
			switch x.K {
			case "i":
				return vInt(-x.I), nil
			case "b":
				return vBool(!x.B), nil
			}
		case "NOT":
			if x.K == "b" {
				return vBool(!x.B), nil
			}
		case "SINGLE":
			if (x.K == "l" || x.K == "set") && len(x.E) == 1 {
				return x.E[0], nil
			}
		case "STRING":
			s, err := refStr(x)
			if err != nil {
				return nil, err
			}
			return vStr(s), nil
		}
		return nil, undefined("unary %s on %s", e.Op, x.K)
	case "bin":
		return rc.bin(en, e)
	case "tr":
		return rc.transform(en, e)
	}
	return nil, undefined("expression %s", e.K)
}

func (rc *refCtx) transform(en *env, e *Expr) (*Val, error) {
	if e.A[0].K == "name" && e.A[0].Name == "." {
		// the parser writes the name "." for a transform WITHOUT an argument; such a transform has no defined value
		return nil, undefined("transform without an argument")
	}
	arg, err := rc.eval(en, e.A[0])
	if err != nil {
		return nil, err
	}
	one := func(x *Val) (*Val, error) {
		v, _, err := rc.stmts(en.with(e.Sv, x), e.Stmts)
		return v, err
	}
	each := func(xs []*Val, dedup bool) ([]*Val, error) {
		out := []*Val{}
		for _, x := range xs {
			v, err := one(x)
			if err != nil {
				return nil, err
			}
			dup := false
			if dedup {
				for _, o := range out {
					if valEq(o, v) {
						dup = true
					}
				}
			}
			if !dup {
				out = append(out, v)
			}
		}
		return out, nil
	}
	switch {
	case arg.K == "l" || arg.K == "set":
		if e.Ty == "set" {
			out, err := each(arg.E, true)
			return vSet(out), err
		}
		if e.Ty != "other" {
			return nil, undefined("untyped transform")
		}
		out, err := each(arg.E, false)
		return vList(out), err
	case arg.K == "m" && e.Sv != ".":
		var xs []*Val
		for _, kv := range arg.M {
			xs = append(xs, vMap([]KV{{"key", vStr(kv.Key)}, {"value", kv.V}}))
		}
		if e.Ty == "set" {
			out, err := each(xs, !rc.mapSetKeepsDups)
			return vSet(out), err
		}
		out, err := each(xs, false)
		return vList(out), err
	case arg.K == "nil":
		return nil, undefined("transform of nothing")
	}
	return one(arg)
}

func (rc *refCtx) bin(en *env, e *Expr) (*Val, error) {
	l, err := rc.eval(en, e.A[0])
	if err != nil {
		return nil, err
	}
	if e.Op == "WHERE" || e.Op == "FLATTEN" {
		if l.K == "m" && e.Op == "WHERE" {
			// where over a map: the entries for which the predicate holds, the variable bound to the (key, value) pair
			var kept []KV
			for _, kv := range l.M {
				pair := vMap([]KV{{"key", vStr(kv.Key)}, {"value", kv.V}})
				p, err := rc.eval(en.with(e.Sv, pair), e.A[1])
				if err != nil {
					return nil, err
				}
				if p.K != "b" {
					return nil, undefined("predicate %s", p.K)
				}
				if p.B {
					kept = append(kept, kv)
				}
			}
			return vMap(kept), nil
		}
		if l.K != "l" && l.K != "set" {
			return nil, undefined("%s over %s", e.Op, l.K)
		}
		mk := vList
		if l.K == "set" {
			mk = vSet
		}
		out := []*Val{}
		if e.Op == "WHERE" {
			for _, x := range l.E {
				p, err := rc.eval(en.with(e.Sv, x), e.A[1])
				if err != nil {
					return nil, err
				}
				if p.K != "b" {
					return nil, undefined("predicate %s", p.K)
				}
				if p.B {
					out = append(out, x)
				}
			}
			return mk(out), nil
		}
		for _, x := range l.E {
			if x.K != l.E[0].K {
				return nil, undefined("flatten over a heterogeneous collection")
			}
			switch x.K {
			case "l", "set":
				for _, y := range x.E {
					v, err := rc.eval(en.with(e.Sv, y), e.A[1])
					if err != nil {
						return nil, err
					}
					out = append(out, v)
				}
			case "m":
				v, err := rc.eval(en.with(e.Sv, x), e.A[1])
				if err != nil {
					return nil, err
				}
				if l.K == "set" && v.K == "set" {
					out = append(out, v.E...)
				} else {
					out = append(out, v)
				}
			default:
				return nil, undefined("flatten over %s of %s", l.K, x.K)
			}
		}
		return mk(out), nil
	}
	r, err := rc.eval(en, e.A[1])
	if err != nil {
		return nil, err
	}
	ii := l.K == "i" && r.K == "i"
	ss := l.K == "s" && r.K == "s"
	bb := l.K == "b" && r.K == "b"
	switch e.Op {
	case "ADD":
		if ii {
			return vInt(l.I + r.I), nil
		}
		if ss {
			return vStr(l.S + r.S), nil
		}
	case "SUB":
		if ii {
			return vInt(l.I - r.I), nil
		}
	case "MUL":
		if ii {
			return vInt(l.I * r.I), nil
		}
	case "DIV":
		if ii && r.I != 0 {
			return vInt(l.I / r.I), nil
		}
	case "MOD":
		if ii && r.I != 0 {
			return vInt(l.I % r.I), nil
		}
	case "EQ", "NE":
		var eq bool
		switch {
		case ii:
			eq = l.I == r.I
		case ss:
			eq = l.S == r.S
		case bb:
			eq = l.B == r.B
		case l.K == "null" && r.K == "null":
			eq = true
		case (l.K == "null" && (r.K == "i" || r.K == "s")) || (r.K == "null" && (l.K == "i" || l.K == "s" || l.K == "l")):
			// a number, a string or a list is not null (an attribute that is missing or null compared with null, a value
			// compared with a missing attribute); null on the left of a list has no table row and no value here
			eq = false
		default:
			return nil, undefined("%s on %s,%s", e.Op, l.K, r.K)
		}
		return vBool(eq == (e.Op == "EQ")), nil
	case "LT":
		if ii {
			return vBool(l.I < r.I), nil
		}
	case "LE":
		if ii {
			return vBool(l.I <= r.I), nil
		}
	case "GT":
		if ii {
			return vBool(l.I > r.I), nil
		}
	case "GE":
		if ii {
			return vBool(l.I >= r.I), nil
		}
	case "AND":
		if bb {
			return vBool(l.B && r.B), nil
		}
	case "OR":
		if bb {
			return vBool(l.B || r.B), nil
		}
	case "IN", "NOT_IN":
		if l.K != "s" {
			break
		}
		found := false
		switch r.K {
		case "l", "set":
			for _, x := range r.E {
				if x.K != "s" {
					return nil, undefined("membership in a collection of %s", x.K)
				}
				if x.S == l.S {
					found = true
				}
			}
		case "m":
			_, found = mapGet(r, l.S)
		case "null":
			found = false // nothing is a member of null (`"a" in x.tags` for a record without tags)
		default:
			return nil, undefined("membership in %s", r.K)
		}
		return vBool(found == (e.Op == "IN")), nil
	case "BITOR":
		switch {
		case l.K == "l" && (r.K == "l" || r.K == "set"):
			out := append(append([]*Val{}, l.E...), r.E...)
			return vList(out), nil
		case l.K == "set" && r.K == "set":
			all := append(append([]*Val{}, l.E...), r.E...)
			if len(all) == 0 {
				return vSet([]*Val{}), nil
			}
			k := all[0].K
			for _, x := range all {
				if x.K != k {
					return nil, undefined("union of mixed kinds")
				}
			}
			switch k {
			case "i":
				seen := map[int64]bool{}
				var ks []int64
				for _, x := range all {
					if !seen[x.I] {
						seen[x.I] = true
						ks = append(ks, x.I)
					}
				}
				sort.Slice(ks, func(a, b int) bool { return ks[a] < ks[b] })
				out := []*Val{}
				for _, x := range ks {
					out = append(out, vInt(x))
				}
				return vSet(out), nil
			case "s":
				seen := map[string]bool{}
				var ks []string
				for _, x := range all {
					if !seen[x.S] {
						seen[x.S] = true
						ks = append(ks, x.S)
					}
				}
				sort.Strings(ks)
				out := []*Val{}
				for _, x := range ks {
					out = append(out, vStr(x))
				}
				return vSet(out), nil
			}
			return nil, undefined("union of sets of %s", k)
		}
	}
	return nil, undefined("%s on %s,%s", e.Op, l.K, r.K)
}

// refRun: value of the main view, and - when the main body is a transform evaluated once - the values of its
// top-level lets in order.
func refRun(p *Prog) (*Val, []KV, error) { return refRunOpt(p, false) }

// refRunOpt: mapSetKeepsDups selects the variant semantics described at refCtx (attribution of a known finding only)
func refRunOpt(p *Prog, mapSetKeepsDups bool) (*Val, []KV, error) {
	rc := &refCtx{views: map[string]*View{}, mapSetKeepsDups: mapSetKeepsDups}
	if !mapSetKeepsDups {
		defer func() { lastRefEmptyHelperList = rc.emptyHelperList }()
	}
	var main *View
	for i := range p.Views {
		rc.views[p.Views[i].Name] = &p.Views[i]
		if p.Views[i].Name == p.Main {
			main = &p.Views[i]
		}
	}
	if main == nil {
		return nil, nil, undefined("no main view")
	}
	var en *env
	for _, kv := range p.Scope {
		en = en.with(kv.Key, kv.V)
	}
	b := main.Body
	if b.K == "tr" && !(b.A[0].K == "name" && b.A[0].Name == ".") {
		arg, err := rc.eval(en, b.A[0])
		if err != nil {
			return nil, nil, err
		}
		single := !(arg.K == "l" || arg.K == "set" || (arg.K == "m" && b.Sv != ".") || arg.K == "nil")
		if single {
			v, lets, err := rc.stmts(en.with(b.Sv, arg), b.Stmts)
			return v, lets, err
		}
	}
	v, err := rc.eval(en, b)
	return v, nil, err
}
