// The real evaluator runs in worker subprocesses (this same binary, first argument "worker"):
// eval failures are recovered by exprEval.handlePanic, which calls os.Exit(1).
package main

import (
	"bufio"
	"encoding/json"
	"io"
	"os"
	"os/exec"
	"sort"
	"sync"

	"github.com/anz-bank/sysl/pkg/eval"
	"github.com/anz-bank/sysl/pkg/parse"
	"github.com/anz-bank/sysl/pkg/sysl"
	"github.com/sirupsen/logrus"
	"google.golang.org/protobuf/proto"
)

type reply struct {
	V     *Val   `json:"v"`
	Scope []KV   `json:"scope"`
	Err   string `json:"err,omitempty"`
	Mod   string `json:"mod,omitempty"` // what differs in the module after the evaluation ("" = nothing)
}

// observation of one evaluation
type obs struct {
	Exit1 bool   // the worker ended with exit status 1 (handlePanic)
	Other string // any other abnormal end
	V     *Val
	Scope []KV   // caller's scope afterwards, sorted by key
	Mod   string `json:",omitempty"` // the module differs after the evaluation: what
}

func workerMain() {
	logrus.SetOutput(io.Discard)
	logrus.SetLevel(logrus.PanicLevel)
	in := bufio.NewReaderSize(os.Stdin, 1<<20)
	out := bufio.NewWriter(os.Stdout)
	dec := json.NewDecoder(in)
	for {
		var p Prog
		if err := dec.Decode(&p); err != nil {
			return
		}
		r := runReal(&p)
		b, _ := json.Marshal(r)
		out.WriteString("@@")
		out.Write(b)
		out.WriteByte('\n')
		out.Flush()
	}
}

func runReal(p *Prog) (r reply) {
	defer func() {
		if x := recover(); x != nil {
			r = reply{Err: "go-panic-outside-eval"}
		}
	}()
	mod := toProtoModule(p)
	if p.Src != "" {
		m, err := parse.NewParser().ParseString(p.Src)
		if err != nil {
			return reply{Err: "source does not compile: " + err.Error()}
		}
		if m.Apps["T"] == nil || m.Apps["T"].Views[p.Main] == nil {
			return reply{Err: "source compiled without the view"}
		}
		mod = m
	}
	sc := eval.Scope{}
	for _, kv := range p.Scope {
		sc[kv.Key] = toProtoVal(kv.V)
	}
	before := proto.Clone(mod).(*sysl.Module)
	v := eval.EvaluateView(mod, "T", p.Main, sc)
	r.V = fromProtoVal(v)
	r.Mod = moduleDiff(before, mod)
	for k, x := range sc {
		r.Scope = append(r.Scope, KV{k, fromProtoVal(x)})
	}
	sort.Slice(r.Scope, func(i, j int) bool { return r.Scope[i].Key < r.Scope[j].Key })
	return r
}

type worker struct {
	cmd *exec.Cmd
	in  io.WriteCloser
	out *bufio.Reader
}

func startWorker() *worker {
	exe, err := os.Executable()
	if err != nil {
		panic(err)
	}
	cmd := exec.Command(exe, "worker")
	cmd.Stderr = io.Discard
	in, _ := cmd.StdinPipe()
	outp, _ := cmd.StdoutPipe()
	if err := cmd.Start(); err != nil {
		panic(err)
	}
	return &worker{cmd, in, bufio.NewReaderSize(outp, 1<<20)}
}

func (w *worker) stop() {
	w.in.Close()
	w.cmd.Wait()
}

// eval one program; ok=false means the worker died (status returned)
func (w *worker) eval(p *Prog) (obs, bool) {
	b, _ := json.Marshal(p)
	b = append(b, '\n')
	if _, err := w.in.Write(b); err != nil {
		return w.dead(), false
	}
	var line []byte
	for {
		l, err := w.out.ReadBytes('\n')
		if err != nil {
			return w.dead(), false
		}
		if len(l) > 2 && l[0] == '@' && l[1] == '@' { // anything else is a stray print of the code under test
			line = l[2:]
			break
		}
	}
	var r reply
	if err := json.Unmarshal(line, &r); err != nil {
		return obs{Other: "bad reply"}, true
	}
	if r.Err != "" {
		return obs{Other: r.Err}, true
	}
	return obs{V: r.V, Scope: r.Scope, Mod: r.Mod}, true
}

func (w *worker) dead() obs {
	w.in.Close()
	err := w.cmd.Wait()
	if ee, ok := err.(*exec.ExitError); ok && ee.ExitCode() == 1 {
		return obs{Exit1: true}
	}
	if err == nil {
		return obs{Other: "worker ended with status 0"}
	}
	return obs{Other: "worker: " + err.Error()}
}

// runAll evaluates every program on the real implementation, in parallel worker processes.
func runAll(progs []*Prog, par int) []obs {
	out := make([]obs, len(progs))
	idx := make(chan int, len(progs))
	for i := range progs {
		idx <- i
	}
	close(idx)
	var wg sync.WaitGroup
	for k := 0; k < par; k++ {
		wg.Add(1)
		go func() {
			defer wg.Done()
			var w *worker
			for i := range idx {
				if w == nil {
					w = startWorker()
				}
				o, alive := w.eval(progs[i])
				out[i] = o
				if !alive {
					w = nil
				}
			}
			if w != nil {
				w.stop()
			}
		}()
	}
	wg.Wait()
	return out
}

func runOne(p *Prog) obs { return runAll([]*Prog{p}, 1)[0] }

// moduleDiff: deep comparison of the module before and after an evaluation; names the first view that differs and
// whether the only difference is the body's Type having been filled in from the view's return type
func moduleDiff(before, after *sysl.Module) string {
	if proto.Equal(before, after) {
		return ""
	}
	for an, a := range after.Apps {
		b := before.Apps[an]
		if b == nil {
			return "application " + an + " appeared"
		}
		for vn, v := range a.Views {
			w := b.Views[vn]
			if w == nil {
				return "view " + vn + " appeared"
			}
			if proto.Equal(v, w) {
				continue
			}
			if w.Expr != nil && v.Expr != nil && w.Expr.Type == nil && v.Expr.Type != nil && proto.Equal(v.Expr.Type, v.RetType) {
				c := proto.Clone(v).(*sysl.View)
				c.Expr.Type = nil
				if proto.Equal(c, w) {
					return "view-body-type-defaulted:" + vn
				}
			}
			return "view " + vn + " differs"
		}
	}
	return "module differs outside the views"
}
