// C15, goal 3: the Mermaid data-model view (pkg/mermaid/datamodeldiagram GenerateFullDataDiagram) under the same oracle:
// the census of the compiled module judges the diagram (classes, fields, links), and the projected module + the parsed
// diagram go to the Coq model DmMermaid.mermaid_full.
package main

import (
	"fmt"
	"regexp"
	"sort"
	"strconv"
	"strings"

	"github.com/anz-bank/sysl/pkg/sysl"
	"github.com/anz-bank/sysl/pkg/syslutil"

	mmd "github.com/anz-bank/sysl/pkg/mermaid/datamodeldiagram"

	"verifharness/common"
)

type mObs struct {
	panicMsg string
	errMsg   string
	text     string
}

func runMermaid(m *sysl.Module) (o mObs) {
	defer func() {
		if r := recover(); r != nil {
			o.panicMsg = fmt.Sprint(r)
		}
	}()
	t, err := mmd.GenerateFullDataDiagram(m)
	if err != nil {
		o.errMsg = err.Error()
		return
	}
	o.text = t
	return
}

// the harness's own CleanString (pkg/mermaid/utils.go is the code under study): the compiled names hold no %XX
func mClean(s string) string {
	for _, r := range []struct{ a, b string }{{" ", ""}, {"{", "_"}, {"}", "_"}, {"[", "_"}, {"]", "_"}, {"\"", ""}, {"~", ""}, {":", "_"}, {"<", ""}} {
		s = strings.ReplaceAll(s, r.a, r.b)
	}
	return s
}

// ---------------------------------------------------------------- reader

type mProp struct {
	typ, name string
}
type mClass struct {
	name  string
	props []mProp
}
type mDiagram struct {
	classes []*mClass
	links   [][2]string // first <-- second
	bad     []string
}

var (
	reMClass = regexp.MustCompile(`^ class (.*) \{$`)
	reMProp  = regexp.MustCompile(`^  (\S+) (\S+)$`)
	reMLink  = regexp.MustCompile(`^ (\S+) <-- (\S+)$`)
)

func readMermaid(txt string) *mDiagram {
	d := &mDiagram{}
	var cur *mClass
	for _, ln := range strings.Split(txt, "\n") {
		switch {
		case ln == "" || strings.HasPrefix(ln, "%%") || ln == "classDiagram":
			continue
		case cur != nil && ln == " }":
			cur = nil
			continue
		}
		if cur != nil {
			if m := reMProp.FindStringSubmatch(ln); m != nil {
				cur.props = append(cur.props, mProp{m[1], m[2]})
			} else {
				d.bad = append(d.bad, ln)
			}
			continue
		}
		if m := reMClass.FindStringSubmatch(ln); m != nil {
			cur = &mClass{name: m[1]}
			d.classes = append(d.classes, cur)
			continue
		}
		if m := reMLink.FindStringSubmatch(ln); m != nil {
			d.links = append(d.links, [2]string{m[1], m[2]})
			continue
		}
		d.bad = append(d.bad, ln)
	}
	return d
}

// ---------------------------------------------------------------- oracle

// printable primitives have a line `<name> <field>`
func mLabelOK(owner *cType, ri refInfo, typ string) bool {
	in := typ
	if ri.wrap != "" {
		if !strings.HasPrefix(typ, "List<") || !strings.HasSuffix(typ, ">") {
			return false
		}
		in = typ[5 : len(typ)-1]
	} else if strings.HasPrefix(typ, "List<") {
		return false
	}
	if ri.prim != "" {
		return in == ri.prim
	}
	if !ri.isRef {
		return true
	}
	app := ri.app
	if app == "" {
		app = owner.app
	}
	tp := ri.path
	if owner.kind == "table" && ri.wrap == "" && len(tp) >= 2 {
		tp = tp[:len(tp)-1]
	}
	p := strings.Join(tp, ".")
	return in == mClean(p) || in == mClean(app+"."+p)
}

// why the Mermaid view (syslwrapper.AppMapper) reads a reference differently from the compiler - the root cause the
// consequences (label, missing / misdirected link) are reported under; "plain": no known cause
func mCause(existing map[string]*cType, ct *cType, ri refInfo) string {
	_, tp, rwhy := resolveRef(existing, ct, ri)
	switch {
	case rwhy == "inplace-tuple" || rwhy == "nested-path-in-collection":
		return rwhy // GetRefDetails: no context -> application ""; an unrescoped element of a collection
	case len(tp) > 1:
		return "nested-path" // GetRefDetails / convertTableRef: path[0] (and path[1]) instead of the whole path
	case ct.kind == "table" && ri.wrap == "" && ri.app != "" && ri.app != ct.app:
		return "cross-app-foreign-key" // convertTableRef: the application of the CONTEXT, not of the reference
	case ct.kind == "table" && ri.wrap == "" && strings.Contains(ct.app, " :: "):
		return "foreign-key-in-namespaced-app" // convertTableRef: Context.Appname.Part[0] only
	}
	return "plain"
}

// the key of a consequence of a wrongly read reference
func mRefKey(symptom, cause string) string {
	if cause == "plain" {
		return "mermaid-" + symptom + ":plain"
	}
	return "mermaid-reference:" + cause
}

func judgeMermaid(c *common.Ctx, m *sysl.Module, text string, replay interface{}) (nontrivial bool) {
	j := &judgeCtx{c, replay, map[string]bool{}}
	existing := map[string]*cType{}
	var all []*cType
	for _, a := range m.GetApps() {
		app := syslutil.JoinAppName(a.GetName())
		for tn, t := range a.GetTypes() {
			k, p := kindOf(t)
			ct := &cType{app: app, name: tn, kind: k, prim: p, t: t}
			if t.GetType() != nil {
				existing[app+"."+tn] = ct
			}
			all = append(all, ct)
		}
	}
	sort.Slice(all, func(a, b int) bool { return all[a].app+"."+all[a].name < all[b].app+"."+all[b].name })
	d := readMermaid(text)
	for _, b := range d.bad {
		j.fail("mermaid-unreadable-line", fmt.Sprintf("Mermaid line %q is neither a class, a property nor a link", b))
	}
	// ---- classes: one per type, named by the cleaned App.Type
	byName := map[string][]*mClass{}
	for _, cl := range d.classes {
		byName[cl.name] = append(byName[cl.name], cl)
	}
	cleaned := map[string][]*cType{}
	for _, ct := range all {
		cleaned[mClean(ct.app+"."+ct.name)] = append(cleaned[mClean(ct.app+"."+ct.name)], ct)
	}
	collision := false
	for n, cts := range cleaned {
		if len(cts) > 1 {
			collision = true
			j.fail("mermaid-class-collision:clean-string", fmt.Sprintf("types %s.%s and %s.%s are both drawn as class %s", cts[0].app, cts[0].name, cts[1].app, cts[1].name, n))
		}
	}
	classOf := map[*cType]*mClass{}
	for _, ct := range all {
		if ct.kind == "other" {
			continue // unions, reference / collection aliases, types without definition: a class is allowed, not demanded
		}
		n := mClean(ct.app + "." + ct.name)
		cls := byName[n]
		switch {
		case len(cls) == 0:
			j.fail("mermaid-class-missing:"+ct.kind, fmt.Sprintf("type %s.%s (%s) has no class %s in the Mermaid diagram", ct.app, ct.name, ct.kind, n))
			continue
		case len(cls) > 1 && len(cleaned[n]) == 1:
			j.fail("mermaid-class-duplicate:"+ct.kind, fmt.Sprintf("class %s is declared %d times", n, len(cls)))
		}
		classOf[ct] = cls[0]
	}
	for _, cl := range d.classes {
		if len(cleaned[cl.name]) == 0 {
			j.fail("mermaid-class-extra", fmt.Sprintf("class %s is no type of the model", cl.name))
		}
	}
	if collision {
		return true // two types share one class name: fields and links cannot be attributed
	}
	// ---- fields
	for _, ct := range all {
		cl := classOf[ct]
		if cl == nil {
			continue
		}
		if ct.kind == "enum" {
			items := ct.t.GetEnum().GetItems()
			byVal := map[int64]int{}
			for _, v := range items {
				byVal[v]++
			}
			seen := map[string]int{}
			for _, p := range cl.props { // `<name> <value>`
				v, ok := items[p.typ]
				if !ok || strconv.FormatInt(v, 10) != p.name {
					j.fail("mermaid-enum-item-extra", fmt.Sprintf("enum %s.%s lists %q %q, which is not one of its enumerators with its value", ct.app, ct.name, p.typ, p.name))
				}
				seen[p.typ]++
			}
			for n, v := range items {
				suf := ""
				if byVal[v] > 1 {
					suf = ":duplicate-value"
				}
				switch {
				case seen[n] == 0:
					j.fail("mermaid-enum-item-missing"+suf, fmt.Sprintf("enumerator %s of %s.%s is not listed in the Mermaid diagram", n, ct.app, ct.name))
				case seen[n] > 1:
					j.fail("mermaid-enum-item-duplicate"+suf, fmt.Sprintf("enumerator %s of %s.%s is listed %d times", n, ct.app, ct.name, seen[n]))
				}
			}
			continue
		}
		if ct.kind != "table" && ct.kind != "tuple" {
			if len(cl.props) > 0 {
				j.fail("mermaid-field-extra", fmt.Sprintf("%s %s.%s lists properties", ct.kind, ct.app, ct.name))
			}
			continue
		}
		seen := map[string]int{}
		for _, p := range cl.props {
			seen[p.name]++
		}
		attrs := attrsOf(ct.t)
		for fn, ft := range attrs {
			ri := fieldInfo(ft)
			if ri.untyp {
				continue
			}
			tk := ri.wrap
			if tk == "" {
				tk = "ref"
				if ri.prim != "" {
					tk = "prim"
				}
			}
			switch seen[mClean(fn)] {
			case 0:
				if ri.wrap == "" && (ri.prim == "any" || ri.prim == "empty") {
					j.fail("mermaid-field-missing:prim-"+ri.prim, fmt.Sprintf("field %s of %s.%s (primitive %s) is not listed in the Mermaid diagram", fn, ct.app, ct.name, ri.prim))
				} else {
					j.fail("mermaid-field-missing:"+ct.kind+":"+tk, fmt.Sprintf("field %s of %s.%s is not listed in the Mermaid diagram", fn, ct.app, ct.name))
				}
			case 1:
				for _, p := range cl.props {
					if p.name == mClean(fn) && !mLabelOK(ct, ri, p.typ) {
						cause := "plain"
						if ri.isRef && len(ri.path) > 0 {
							cause = mCause(existing, ct, ri)
						}
						if cause == "plain" {
							j.fail("mermaid-field-type:"+ct.kind+":"+tk, fmt.Sprintf("field %s of %s.%s is listed with type %q", fn, ct.app, ct.name, p.typ))
						} else {
							j.fail(mRefKey("field-type", cause), fmt.Sprintf("field %s of %s.%s is listed with type %q (%s)", fn, ct.app, ct.name, p.typ, cause))
						}
					}
				}
			default:
				j.fail("mermaid-field-duplicate", fmt.Sprintf("field %s of %s.%s is listed %d times", fn, ct.app, ct.name, seen[mClean(fn)]))
			}
		}
		names := map[string]bool{}
		for fn := range attrs {
			names[mClean(fn)] = true
		}
		for _, p := range cl.props {
			if !names[p.name] {
				j.fail("mermaid-field-extra", fmt.Sprintf("%s.%s lists %q, which is not one of its fields", ct.app, ct.name, p.name))
			}
		}
	}
	// ---- links: the Mermaid view draws ONE link per (owner, target) pair, however many fields refer to it
	classByName := map[string]*cType{}
	for _, ct := range all {
		classByName[mClean(ct.app+"."+ct.name)] = ct
	}
	for _, ct := range all {
		if classOf[ct] == nil || (ct.kind != "table" && ct.kind != "tuple") {
			continue
		}
		own := mClean(ct.app + "." + ct.name)
		exp := map[string]string{} // cleaned target -> cause class of the referring field
		causes := map[string]bool{} // of all reference fields of this type, dangling ones included
		danglingRefs := 0
		for _, ft := range attrsOf(ct.t) {
			ri := fieldInfo(ft)
			if !ri.isRef || len(ri.path) == 0 {
				continue
			}
			full, _, _ := resolveRef(existing, ct, ri)
			r := mCause(existing, ct, ri)
			causes[r] = true
			tgt := existing[full]
			if tgt == nil {
				danglingRefs++
				continue
			}
			nontrivial = true
			if old, ok := exp[mClean(full)]; !ok || old == "plain" {
				exp[mClean(full)] = r
			}
		}
		obs := map[string]bool{}
		dangling := 0
		for _, l := range d.links {
			if l[0] != own {
				continue
			}
			if classByName[l[1]] != nil && len(byName[l[1]]) > 0 {
				obs[l[1]] = true
			} else {
				dangling++
			}
		}
		worst := func() string { // the cause the misdirected links of this owner are charged to
			for _, cls := range []string{"inplace-tuple", "nested-path-in-collection", "nested-path", "cross-app-foreign-key", "foreign-key-in-namespaced-app"} {
				if causes[cls] {
					return cls
				}
			}
			return "plain"
		}
		for t, r := range exp {
			if !obs[t] {
				j.fail(mRefKey("edge-missing", r), fmt.Sprintf("%s.%s has a field referring to %s but no link to it (%s)", ct.app, ct.name, t, r))
			}
		}
		for t := range obs {
			if _, ok := exp[t]; !ok {
				j.fail(mRefKey("edge-extra", worst()), fmt.Sprintf("%s.%s has a link to %s but no field referring to it (%s)", ct.app, ct.name, t, worst()))
			}
		}
		if dangling > 0 {
			switch r := worst(); {
			case r != "plain":
				j.fail(mRefKey("edge-dangling", r), fmt.Sprintf("%s.%s has %d link(s) to names that are no class (%s)", ct.app, ct.name, dangling, r))
			case dangling <= danglingRefs:
				j.fail("mermaid-edge-dangling:ref-to-missing-type", fmt.Sprintf("%s.%s has %d link(s) to names that are no class, %d of its references name no type of the model", ct.app, ct.name, dangling, danglingRefs))
			default:
				j.fail("mermaid-edge-dangling:plain", fmt.Sprintf("%s.%s has %d link(s) to names that are no class, %d of its references name no type of the model", ct.app, ct.name, dangling, danglingRefs))
			}
		}
	}
	for _, l := range d.links {
		if len(byName[l[0]]) == 0 {
			j.fail("mermaid-edge-from-undeclared", fmt.Sprintf("link starts at %s, which is no class", l[0]))
		}
	}
	return nontrivial
}

// ---------------------------------------------------------------- projection for the Coq model DmMermaid

func (a *atoms) optStr(ok bool, s string) string {
	if !ok {
		return "None"
	}
	return "(Some " + a.str(s) + ")"
}

func (a *atoms) mRef(r *sysl.ScopedRef) string {
	ctx := r.GetContext()
	ps := ctx.GetAppname().GetPart()
	first := ""
	if len(ps) > 0 {
		first = ps[0]
	}
	var path []string
	for _, p := range r.GetRef().GetPath() {
		path = append(path, a.str(p))
	}
	return fmt.Sprintf("(MR %s %s %s [%s])",
		a.optStr(ctx != nil, syslutil.GetAppName(ctx.GetAppname())),
		a.optStr(len(ps) > 0, first),
		a.optStr(r.GetRef().GetAppname() != nil, syslutil.GetAppName(r.GetRef().GetAppname())),
		strings.Join(path, ";"))
}

func (a *atoms) mElem(t *sysl.Type) string {
	switch {
	case t == nil:
		return "MENil"
	case t.GetPrimitive() != sysl.Type_NO_Primitive:
		return fmt.Sprintf("(MEPrim %d)", int(t.GetPrimitive()))
	case t.GetTypeRef() != nil:
		return "(MERef " + a.mRef(t.GetTypeRef()) + ")"
	}
	return "MENil"
}

func (a *atoms) mField(t *sysl.Type) string {
	switch t.GetType().(type) {
	case *sysl.Type_Primitive_:
		return fmt.Sprintf("(MFPrim %d)", int(t.GetPrimitive()))
	case *sysl.Type_TypeRef:
		return "(MFRef " + a.mRef(t.GetTypeRef()) + ")"
	case *sysl.Type_Set:
		return "(MFSet " + a.mElem(t.GetSet()) + ")"
	case *sysl.Type_Sequence:
		return "(MFSeq " + a.mElem(t.GetSequence()) + ")"
	case *sysl.Type_List_:
		return "(MFList " + a.mElem(t.GetList().GetType()) + ")"
	}
	return "MFOther"
}

func (a *atoms) mModule(m *sysl.Module, fieldID func(string) int) string {
	type ent struct{ full, term string }
	var es []ent
	for appKey, ap := range m.GetApps() {
		for tn, t := range ap.GetTypes() {
			fields := func(attrs map[string]*sysl.Type) string {
				var ns []string
				for n := range attrs {
					ns = append(ns, n)
				}
				sort.Strings(ns)
				var it []string
				for _, n := range ns {
					it = append(it, fmt.Sprintf("(%d%%positive, %s)", fieldID(n), a.mField(attrs[n])))
				}
				return "[" + strings.Join(it, ";") + "]"
			}
			def := "MDOther"
			switch t.GetType().(type) {
			case *sysl.Type_Tuple_:
				def = "(MDTuple " + fields(t.GetTuple().GetAttrDefs()) + ")"
			case *sysl.Type_Relation_:
				def = "(MDRel " + fields(t.GetRelation().GetAttrDefs()) + ")"
			case *sysl.Type_Enum_:
				var it []string
				for _, n := range enumOrder(t.GetEnum().GetItems(), nil) {
					it = append(it, fmt.Sprintf("(%d%%positive, %d%%Z)", fieldID(n), t.GetEnum().GetItems()[n]))
				}
				def = "(MDEnum [" + strings.Join(it, ";") + "])"
			}
			es = append(es, ent{appKey + "." + tn, fmt.Sprintf("(ME %s %s %s)", a.str(appKey), a.str(tn), def)})
		}
	}
	sort.Slice(es, func(i, j int) bool { return es[i].full < es[j].full })
	it := make([]string, len(es))
	for i, e := range es {
		it[i] = e.term
	}
	return "[" + strings.Join(it, ";\n   ") + "]"
}

// the Mermaid text -> list mitem; enumClass: the (cleaned) names of the classes that are enums
func (a *atoms) mItems(txt string, fieldID func(string) int, enumClass map[string]bool) (string, bool) {
	var it []string
	ok := true
	in, inEnum := false, false
	lab := func(s string) string {
		if p, pok := primID(s); pok && p != 0 {
			return fmt.Sprintf("(MLP %d)", p)
		}
		return "(MLR " + a.str(s) + ")"
	}
	for _, ln := range strings.Split(txt, "\n") {
		switch {
		case ln == "" || strings.HasPrefix(ln, "%%") || ln == "classDiagram":
			continue
		case in && ln == " }":
			it = append(it, "MEnd")
			in, inEnum = false, false
			continue
		}
		if in {
			m := reMProp.FindStringSubmatch(ln)
			if m == nil {
				ok = false
				continue
			}
			if inEnum {
				v, err := strconv.ParseInt(m[2], 10, 64)
				if err != nil {
					ok = false
					continue
				}
				it = append(it, fmt.Sprintf("MItem %d%%positive %s", fieldID(m[1]), common.GZ(v)))
				continue
			}
			if strings.HasPrefix(m[1], "List<") && strings.HasSuffix(m[1], ">") {
				it = append(it, fmt.Sprintf("MProp true %s %d%%positive", lab(m[1][5:len(m[1])-1]), fieldID(m[2])))
			} else {
				it = append(it, fmt.Sprintf("MProp false %s %d%%positive", lab(m[1]), fieldID(m[2])))
			}
			continue
		}
		if m := reMClass.FindStringSubmatch(ln); m != nil {
			it = append(it, "MClass "+a.str(m[1]))
			in, inEnum = true, enumClass[m[1]]
			continue
		}
		if m := reMLink.FindStringSubmatch(ln); m != nil {
			it = append(it, fmt.Sprintf("MLink %s %s", a.str(m[1]), a.str(m[2])))
			continue
		}
		ok = false
	}
	return "[" + strings.Join(it, ";\n   ") + "]", ok
}

// the effect of CleanString on every chunk the case mentions (only the chunks it changes)
func (a *atoms) cleanTable() string {
	var ks []string
	for k := range a.ids {
		ks = append(ks, k)
	}
	sort.Strings(ks)
	var it []string
	for _, k := range ks {
		if c := mClean(k); c != k {
			from := a.ids[k]
			it = append(it, fmt.Sprintf("(%d%%positive, %d%%positive)", from, a.id(c)))
		}
	}
	return "[" + strings.Join(it, ";") + "]"
}

const mermaidHeader = `From Coq Require Import List NArith PArith ZArith Bool. Import ListNotations.
Require Import Verif.DataModel.DmModel Verif.DataModel.DmMermaid Verif.DataModel.RunMermaid Verif.Base.Harness.
Definition MR (c c0 a:option (list positive)) (p:list (list positive)) := {| mr_ctx := c; mr_ctx0 := c0; mr_app := a; mr_path := p |}.
Definition ME (a n:list positive) (d:mdef) := {| me_app := a; me_name := n; me_def := d |}.`

// one module through the Mermaid view: oracle + Coq case
func mermaidOne(c *common.Ctx, cs *common.Cases, m *sysl.Module, rp replayT) {
	o := runMermaid(m)
	switch {
	case o.panicMsg != "":
		key := "mermaid-panic:other"
		for _, a := range m.GetApps() {
			for _, t := range a.GetTypes() {
				for _, ft := range t.GetRelation().GetAttrDefs() {
					if ft.GetTypeRef() != nil && ft.GetTypeRef().GetContext() == nil {
						key = "mermaid-panic:table-ref-without-context"
					}
				}
			}
		}
		c.Fail(key, "no Mermaid diagram: GenerateFullDataDiagram panicked ("+o.panicMsg+")", rp)
		c.Hist("mermaid:panic")
	case o.errMsg != "":
		c.Fail("mermaid-error", "GenerateFullDataDiagram failed: "+o.errMsg, rp)
	default:
		judgeMermaid(c, m, o.text, rp)
		c.Hist("mermaid:diagram")
	}
	at := &atoms{ids: map[string]int{}}
	fids := map[string]int{}
	fieldID := func(s string) int {
		if v, ok := fids[s]; ok {
			return v
		}
		fids[s] = len(fids) + 1
		return fids[s]
	}
	mod := at.mModule(m, fieldID)
	obs := "None"
	if o.panicMsg == "" && o.errMsg == "" {
		enumClass := map[string]bool{}
		for appKey, a := range m.GetApps() {
			for tn, t := range a.GetTypes() {
				if t.GetEnum() != nil {
					enumClass[mClean(appKey+"."+tn)] = true
				}
			}
		}
		items, ok := at.mItems(o.text, fieldID, enumClass)
		if !ok {
			items = "[MEnd; MEnd; MEnd]" // a line the model cannot print: force a mismatch
		}
		obs = "(Some " + items + ")"
	}
	// (the clean table is printed last: it interns the cleaned chunks of everything mentioned before)
	tbl := at.cleanTable()
	cs.Add(fmt.Sprintf("(%s,\n  %s,\n  %s)", tbl, mod, obs), rp)
}
