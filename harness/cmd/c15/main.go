// C15 correspondence + oracle: data-model diagrams (pkg/datamodeldiagram) contain every type, field and
// relationship of the model and nothing else.
//
// generated Sysl text -> real parser -> real GenerateDataModels -> PlantUML parsed into items
//
//	(a) judged by an independent census of the compiled module's type graph (oracle, ctx.Fail)
//	(b) printed with the projected module as a Gallina case for the Coq model `draw`
package main

import (
	"bytes"
	"crypto/sha1"
	"fmt"
	"os"
	"regexp"
	"sort"
	"strconv"
	"strings"

	"github.com/anz-bank/sysl/pkg/cmdutils"
	"github.com/anz-bank/sysl/pkg/datamodeldiagram"
	"github.com/anz-bank/sysl/pkg/parse"
	"github.com/anz-bank/sysl/pkg/sysl"
	"github.com/anz-bank/sysl/pkg/syslutil"
	"github.com/sirupsen/logrus"

	"verifharness/common"
)

// ---------------------------------------------------------------- source-level generator

type sField struct {
	Name string
	Text string // right-hand side as written, e.g. "set of App2.X"
	Arr  bool   // name(1..3) <: ...
}
type sType struct {
	Kind   string // tuple table enum alias aliasref union empty
	Name   string
	Fields []sField
	Prim   string
	Nested []*sType
	path   []string
	app    string
}
type sApp struct {
	Name  string
	Types []*sType
}

var prims = []string{"int", "string", "bool", "date", "datetime", "float", "decimal", "bytes", "any", "int64", "string(10)"}

// names in prefix relation (Model / ModelExt, A / A :: B, App1 / App10) and applications named like types (Outer, T)
var appPool = []string{"App1", "App2", "Ns :: App3", "Outer", "T", "Ns :: Sub :: App4", "Model", "ModelExt", "A", "A :: B", "App10", "Ns"}
var typePool = []string{"T", "U", "Outer", "Inner", "Id", "Color", "X", "Y", "Account", "Cust"}

var prefixPairs = [][]string{{"Model", "ModelExt"}, {"A", "A :: B"}, {"App1", "App10"}, {"Ns", "Ns :: App3"}, {"Ns", "Ns :: Sub :: App4"}, {"ModelExt", "Model"}}

type gen struct {
	r    *common.Rng
	apps []*sApp
	all  []*sType // every declared type incl. nested
}

func (g *gen) pick(ss []string) string { return ss[g.r.Intn(len(ss))] }

func (g *gen) declare(app string, prefix []string, depth int, used map[string]bool, kindHint string) *sType {
	name := g.pick(typePool)
	for i := 0; used[name] && i < 8; i++ {
		name = g.pick(typePool)
	}
	if used[name] {
		name = fmt.Sprintf("%s%d", name, len(used))
	}
	used[name] = true
	t := &sType{Name: name, app: app, path: append(append([]string{}, prefix...), name)}
	k := g.r.Intn(100)
	switch {
	case kindHint != "":
		t.Kind = kindHint
	case k < 42:
		t.Kind = "tuple"
	case k < 72:
		t.Kind = "table"
	case k < 80 && depth == 0:
		t.Kind = "enum"
	case k < 90 && depth == 0:
		t.Kind = "alias"
		t.Prim = g.pick(prims[:9])
	case k < 93 && depth == 0:
		t.Kind = "aliasref"
	case k < 96 && depth == 0:
		t.Kind = "union"
	case k < 98:
		t.Kind = "empty"
	default:
		t.Kind = "tuple"
	}
	g.all = append(g.all, t)
	if (t.Kind == "tuple" || t.Kind == "table") && depth < 2 && g.r.Chance(1, 4) {
		nu := map[string]bool{}
		for i, n := 0, 1+g.r.Intn(2); i < n; i++ {
			hint := "tuple"
			if g.r.Chance(1, 3) {
				hint = "table"
			}
			t.Nested = append(t.Nested, g.declare(app, t.path, depth+1, nu, hint))
		}
	}
	return t
}

// how a reference to t is written from inside application `from`
func (g *gen) refText(from string, t *sType) string {
	p := strings.Join(t.path, ".")
	// (a type named like its own application is always written with the application: the parser reads
	// `Outer.c0` inside application Outer as application + type, and DrawRelation then indexes Path[1] of a
	// one-element path - the crash site belongs to property C20)
	if t.app != from || t.path[0] == from || g.r.Chance(1, 8) {
		return t.app + "." + p
	}
	return p
}

func (g *gen) targetFor(self *sType, prev *sType) (*sType, string) {
	k := g.r.Intn(100)
	switch {
	case k < 15 && prev != nil:
		return prev, ""
	case k < 25:
		return self, ""
	case k < 33:
		return nil, "Nope"
	case k < 37:
		return nil, g.pick(appPool[:3]) + ".Missing"
	}
	return g.all[g.r.Intn(len(g.all))], ""
}

func (g *gen) fill(t *sType) {
	switch t.Kind {
	case "tuple":
		var prev *sType
		n := g.r.Intn(7)
		for i := 0; i < n; i++ {
			f := sField{Name: fmt.Sprintf("f%d", i)}
			if g.r.Chance(1, 6) {
				f.Name = g.pick([]string{"id", "name", "owner", "items"}) + fmt.Sprint(i)
			}
			k := g.r.Intn(100)
			elem := func(allowPrim bool) string {
				if allowPrim && g.r.Chance(3, 10) {
					return g.pick(prims)
				}
				tg, dangling := g.targetFor(t, prev)
				if tg == nil {
					return dangling
				}
				prev = tg
				return g.refText(t.app, tg)
			}
			switch {
			case k < 30:
				f.Text = g.pick(prims)
			case k < 38:
				f.Text = g.pick(prims) + "?"
			case k < 65:
				f.Text = elem(false)
				if g.r.Chance(1, 5) {
					f.Text += "?"
				}
			case k < 77:
				f.Text = "set of " + elem(true)
			case k < 89:
				f.Text = "sequence of " + elem(true)
			default:
				f.Text = elem(true)
				f.Arr = true
			}
			t.Fields = append(t.Fields, f)
		}
	case "table":
		n := 1 + g.r.Intn(5)
		var prev *sType
		// tables and tuples that have at least one field declared so far can be FK targets (T.field)
		for i := 0; i < n; i++ {
			f := sField{Name: fmt.Sprintf("c%d", i)}
			k := g.r.Intn(100)
			switch {
			case i == 0 || k < 45:
				f.Text = g.pick(prims[:9])
				if i == 0 {
					f.Text += " [~pk]"
				} else if g.r.Chance(1, 5) {
					f.Text += "?"
				}
			case k < 90:
				var cands []*sType
				for _, c := range g.all {
					if c.Kind == "table" {
						cands = append(cands, c)
					}
				}
				tg := cands[g.r.Intn(len(cands))]
				if prev != nil && g.r.Chance(1, 4) {
					tg = prev
				}
				if g.r.Chance(1, 8) {
					tg = t
				}
				prev = tg
				f.Text = g.refText(t.app, tg) + ".c0"
			case k < 92:
				f.Text = g.pick(appPool[:2]) + ".Missing.c0"
			case k < 94:
				f.Text = "Nope.c0" // parsed as application Nope + one-element path
			default:
				tg := g.all[g.r.Intn(len(g.all))]
				f.Text = g.pick([]string{"set of ", "sequence of "}) + g.pick([]string{"int", g.refText(t.app, tg)})
			}
			t.Fields = append(t.Fields, f)
		}
	case "aliasref":
		t.Prim = g.pick([]string{"set of int", g.refText(t.app, g.all[g.r.Intn(len(g.all))]), "sequence of string"})
	case "union":
		t.Fields = []sField{{Text: "int"}, {Text: g.refText(t.app, g.all[g.r.Intn(len(g.all))])}}
	}
}

func generate(r *common.Rng, big bool) []*sApp {
	g := &gen{r: r}
	na := 1 + r.Intn(3)
	if big {
		na = 2 + r.Intn(3)
	}
	usedApp := map[string]bool{}
	var pre []string
	if r.Chance(1, 3) { // two applications whose names are in prefix relation
		pre = prefixPairs[r.Intn(len(prefixPairs))]
		if na < 2 {
			na = 2
		}
	}
	for i := 0; i < na; i++ {
		an := g.pick(appPool)
		for usedApp[an] {
			an = g.pick(appPool)
		}
		if i < len(pre) {
			an = pre[i]
		}
		usedApp[an] = true
		a := &sApp{Name: an}
		used := map[string]bool{}
		nt := 1 + r.Intn(4)
		if big {
			nt = 2 + r.Intn(5)
		}
		if r.Chance(1, 12) {
			nt = 0
		}
		for j := 0; j < nt; j++ {
			a.Types = append(a.Types, g.declare(an, nil, 0, used, ""))
		}
		g.apps = append(g.apps, a)
	}
	if len(g.all) == 0 {
		a := g.apps[0]
		a.Types = append(a.Types, g.declare(a.Name, nil, 0, map[string]bool{}, "tuple"))
	}
	for _, t := range g.all {
		g.fill(t)
	}
	return g.apps
}

func renderType(b *strings.Builder, t *sType, ind string) {
	switch t.Kind {
	case "tuple", "table", "empty":
		kw := "!type"
		if t.Kind == "table" {
			kw = "!table"
		}
		fmt.Fprintf(b, "%s%s %s:\n", ind, kw, t.Name)
		if len(t.Fields) == 0 && len(t.Nested) == 0 {
			fmt.Fprintf(b, "%s    ...\n", ind)
		}
		for _, f := range t.Fields {
			arr := ""
			if f.Arr {
				arr = "(1..3)"
			}
			fmt.Fprintf(b, "%s    %s%s <: %s\n", ind, f.Name, arr, f.Text)
		}
		for _, n := range t.Nested {
			renderType(b, n, ind+"    ")
		}
	case "enum":
		fmt.Fprintf(b, "%s!enum %s:\n%s    RED: 2\n%s    GREEN: 1\n%s    BLUE: 5\n", ind, t.Name, ind, ind, ind)
	case "alias", "aliasref":
		fmt.Fprintf(b, "%s!alias %s:\n%s    %s\n", ind, t.Name, ind, t.Prim)
	case "union":
		fmt.Fprintf(b, "%s!union %s:\n", ind, t.Name)
		for _, f := range t.Fields {
			fmt.Fprintf(b, "%s    %s\n", ind, f.Text)
		}
	}
}

func render(apps []*sApp) string {
	var b strings.Builder
	for _, a := range apps {
		fmt.Fprintf(&b, "%s:\n", a.Name)
		if len(a.Types) == 0 {
			b.WriteString("    ...\n")
		}
		for _, t := range a.Types {
			renderType(&b, t, "    ")
		}
	}
	return b.String()
}

// the shapes Appendix B of DESIGN.md and the property's quantifier name; run first in every tier
var corpus = []struct{ name, filter, text string }{
	{"same-table-name-in-two-apps", "", "App1:\n    !table T:\n        c0 <: int [~pk]\n        c1 <: App2.T.c0\n    !table U:\n        c0 <: int [~pk]\n        c1 <: T.c0\nApp2:\n    !table T:\n        c0 <: int [~pk]\n"},
	{"two-references-to-one-target", "", "App1:\n    !type A:\n        f0 <: B\n        f1 <: B\n        f2 <: set of B\n        f3 <: int\n    !type B:\n        f0 <: string\n    !table P:\n        c0 <: int [~pk]\n        c1 <: Q.c0\n        c2 <: Q.c0\n        c3 <: Q.c0\n    !table Q:\n        c0 <: int [~pk]\n"},
	{"nested-next-to-short", "", "App1:\n    !type A:\n        f0 <: B\n        f1 <: A.B\n        f2 <: sequence of B\n        !type B:\n            f0 <: int\n    !type B:\n        f0 <: A\n"},
	{"primitive-alias-referenced", "", "App1:\n    !type U:\n        f0 <: Id\n        f1 <: App2.Id\n    !alias Id:\n        int\nApp2:\n    !alias Id:\n        string\n    !type V:\n        f0 <: Id\n"},
	{"self-references", "", "App1:\n    !type N:\n        f0 <: N\n        f1 <: set of N\n        f2(1..3) <: N\n        f3 <: sequence of App1.N\n    !table T:\n        c0 <: int [~pk]\n        c1 <: T.c0\n"},
	{"cross-app-nested-vs-app-named-like-type", "", "App1:\n    !type Outer:\n        f0 <: int\n        !type Inner:\n            f0 <: int\nApp2:\n    !type R:\n        f0 <: App1.Outer.Inner\n        f1 <: App1.Outer\nOuter:\n    !type Inner:\n        f0 <: string\n"},
	{"nested-table-next-to-table", "", "App1:\n    !table T:\n        c0 <: int [~pk]\n    !table X:\n        c0 <: int [~pk]\n        c1 <: T.c0\n        !table T:\n            c0 <: int [~pk]\n"},
	{"enum-and-cross-app", "", "App1:\n    !type U:\n        f0 <: Color\n        f1 <: set of Ns :: App3.Y\n        f2 <: Ns :: App3.Y\n    !enum Color:\n        RED: 2\n        GREEN: 1\nNs :: App3:\n    !type Y:\n        f0 <: App1.U\n"},
	{"per-app-view", "App1", "App1:\n    !type U:\n        f0 <: V\n        f1 <: App2.W\n        f2 <: App2.W\n    !type V:\n        f0 <: int\nApp2:\n    !type W:\n        f0 <: App1.U\n"},
	{"per-app-view-prefix-name-short", "Model", "Model:\n    !type U:\n        f0 <: V\n        f1 <: ModelExt.W\n    !type V:\n        f0 <: int\nModelExt:\n    !type W:\n        f0 <: Model.U\n        f1 <: X\n    !type X:\n        f0 <: int\n    !table T:\n        c0 <: int [~pk]\n"},
	{"per-app-view-prefix-name-long", "ModelExt", "Model:\n    !type U:\n        f0 <: V\n    !type V:\n        f0 <: int\nModelExt:\n    !type W:\n        f0 <: Model.U\n        f1 <: X\n    !type X:\n        f0 <: int\n"},
	{"per-app-view-namespace-prefix", "A", "A:\n    !type U:\n        f0 <: A :: B.W\n    !enum Color:\n        RED: 1\nA :: B:\n    !type W:\n        f0 <: A.U\n    !alias Id:\n        int\n"},
	{"table-dangling-key-by-bare-name", "", "App1:\n    !table T:\n        c0 <: int [~pk]\n        c1 <: Nope.c0\n        c2 <: T.c0\n"},
	{"table-with-collections", "", "App1:\n    !table T:\n        c0 <: int [~pk]\n        c1 <: set of int\n        c2 <: sequence of U\n    !table U:\n        c0 <: int [~pk]\n"},
}

// ---------------------------------------------------------------- real run

var nullLogger = func() *logrus.Logger { l := logrus.New(); l.SetOutput(new(bytes.Buffer)); return l }()

type obsT struct {
	parseErr string
	panicMsg string
	missing  bool // no diagram for the requested key
	text     string
}

const projectApp = "VerifProject"

func compile(text, filter string) (*sysl.Module, error) {
	if filter != "" {
		text += projectApp + ":\n    View:\n        " + filter + "\n"
	}
	return parse.NewParser().ParseString(text)
}

func runReal(m *sysl.Module, filter string, direct bool) (o obsT) {
	defer func() {
		if r := recover(); r != nil {
			o.panicMsg = fmt.Sprint(r)
		}
	}()
	// whole-model view: --direct with an output name without %(epname) (every application yields the same text);
	// per-application view: project manner (the project's single endpoint naming that application), or --direct
	// with %(epname) in the output name, which draws one view per application
	p := &cmdutils.CmdContextParamDatagen{Output: "all.png", Direct: true, ClassFormat: "%(classname)"}
	key := "all.png"
	if filter != "" && direct {
		p = &cmdutils.CmdContextParamDatagen{Output: "%(epname).png", Direct: true, ClassFormat: "%(classname)"}
		key = filter + ".png"
	} else if filter != "" {
		p = &cmdutils.CmdContextParamDatagen{Output: "%(epname).png", Project: projectApp, ClassFormat: "%(classname)"}
		key = "View.png"
	}
	res, err := datamodeldiagram.GenerateDataModels(p, m, nullLogger)
	if err != nil {
		o.panicMsg = "error: " + err.Error()
		return
	}
	txt, ok := res[key]
	if !ok {
		o.missing = true
		return
	}
	o.text = txt
	return
}

// ---------------------------------------------------------------- diagram reader

type dField struct {
	name  string
	label string
}
type dClass struct {
	alias  int
	name   string
	head   string // "class" | "prim:<name>" | "enum"
	fields []dField
}
type dEdge struct {
	from, to int
	card     string
	arrow    string
}
type diagram struct {
	classes []*dClass
	edges   []dEdge
	order   []string // "C<i>" / "E<i>" in emission order, for the item list
	bad     []string
}

var (
	reClass = regexp.MustCompile(`^class "(.*)" as _(\d+) << \(D,orchid\)(.*) >> \{$`)
	reEnum  = regexp.MustCompile(`^enum "(.*)" as _(\d+) \{$`)
	reField = regexp.MustCompile(`^\+ (.*?) : (.*)$`)
	reEdge  = regexp.MustCompile(`^_(\d+) (\*--|\}--) "(.*)" _(\d+)$`)
)

func readDiagram(txt string) *diagram {
	d := &diagram{}
	var cur *dClass
	inEnum := false
	for _, ln := range strings.Split(txt, "\n") {
		switch {
		case ln == "" || strings.HasPrefix(ln, "''") || ln == "@startuml" || ln == "@enduml" || strings.HasPrefix(ln, "title "):
			continue
		case cur != nil && ln == "}":
			cur, inEnum = nil, false
			continue
		case cur != nil && inEnum:
			continue // enum items are not part of the property
		}
		if cur != nil {
			if m := reField.FindStringSubmatch(ln); m != nil {
				cur.fields = append(cur.fields, dField{m[1], m[2]})
			} else {
				d.bad = append(d.bad, ln)
			}
			continue
		}
		if m := reClass.FindStringSubmatch(ln); m != nil {
			a, _ := strconv.Atoi(m[2])
			h := "class"
			if s := strings.TrimSpace(m[3]); s != "" {
				h = "prim:" + s
			}
			cur = &dClass{alias: a, name: m[1], head: h}
			d.classes = append(d.classes, cur)
			continue
		}
		if m := reEnum.FindStringSubmatch(ln); m != nil {
			a, _ := strconv.Atoi(m[2])
			cur = &dClass{alias: a, name: m[1], head: "enum"}
			inEnum = true
			d.classes = append(d.classes, cur)
			continue
		}
		if m := reEdge.FindStringSubmatch(ln); m != nil {
			f, _ := strconv.Atoi(m[1])
			t, _ := strconv.Atoi(m[4])
			d.edges = append(d.edges, dEdge{f, t, m[3], m[2]})
			continue
		}
		d.bad = append(d.bad, ln)
	}
	return d
}

// ---------------------------------------------------------------- census of the compiled module (the oracle)

type cType struct {
	app, name string
	kind      string // table tuple prim enum other
	prim      string
	t         *sysl.Type
}

func kindOf(t *sysl.Type) (string, string) {
	switch {
	case t.GetRelation() != nil:
		return "table", ""
	case t.GetTuple() != nil:
		return "tuple", ""
	case t.GetPrimitive() != sysl.Type_NO_Primitive:
		return "prim", strings.ToLower(t.GetPrimitive().String())
	case t.GetEnum() != nil:
		return "enum", ""
	}
	return "other", ""
}

type refInfo struct {
	wrap   string // "" set sequence list
	prim   string // element is a primitive
	app    string // explicit application of the reference ("" = the owner's)
	path   []string
	isRef  bool
	untyp  bool
	nested bool
}

func fieldInfo(t *sysl.Type) refInfo {
	elem := func(e *sysl.Type, wrap string) refInfo {
		ri := refInfo{wrap: wrap}
		switch {
		case e.GetPrimitive() != sysl.Type_NO_Primitive:
			ri.prim = strings.ToLower(e.GetPrimitive().String())
		case e.GetTypeRef() != nil:
			ri.isRef = true
			ri.path = e.GetTypeRef().GetRef().GetPath()
			if ps := e.GetTypeRef().GetRef().GetAppname().GetPart(); len(ps) > 0 {
				ri.app = strings.Join(ps, " :: ")
			}
		default:
			ri.untyp = true
		}
		return ri
	}
	switch {
	case t.GetSet() != nil:
		return elem(t.GetSet(), "set")
	case t.GetSequence() != nil:
		return elem(t.GetSequence(), "sequence")
	case t.GetList() != nil:
		return elem(t.GetList().GetType(), "list")
	}
	ri := elem(t, "")
	return ri
}

func attrsOf(t *sysl.Type) map[string]*sysl.Type {
	if r := t.GetRelation(); r != nil {
		return r.GetAttrDefs()
	}
	return t.GetTuple().GetAttrDefs()
}

type judgeCtx struct {
	c      *common.Ctx
	replay interface{}
	keys   map[string]bool
}

func (j *judgeCtx) fail(key, what string) {
	if j.keys[key] {
		return // one report per class of failure and case
	}
	j.keys[key] = true
	j.c.Fail(key, what, j.replay)
}

var wrapWord = map[string]string{"set": "Set", "sequence": "Sequence", "list": "List"}

// does the printed label name the field's type?
func labelOK(owner *cType, ri refInfo, label string) bool {
	fk := strings.HasSuffix(label, " <<FK>>")
	l := strings.TrimSuffix(label, " <<FK>>")
	names := func(s string) bool { // s names the referenced type, with or without its application
		app := ri.app
		if app == "" {
			app = owner.app
		}
		p := strings.Join(ri.path, ".")
		if s == p || s == app+"."+p {
			return true
		}
		if owner.kind == "table" && len(ri.path) >= 2 { // Table.column: the column may be left out
			p = strings.Join(ri.path[:len(ri.path)-1], ".")
			return s == p || s == app+"."+p
		}
		return false
	}
	switch {
	case ri.wrap == "" && ri.prim != "":
		return l == ri.prim && !fk
	case ri.wrap == "" && ri.isRef:
		return strings.HasPrefix(l, "**") && strings.HasSuffix(l, "**") && len(l) >= 4 && names(l[2:len(l)-2])
	case ri.wrap != "":
		pre, suf := "**"+wrapWord[ri.wrap]+" <", ">**"
		if !strings.HasPrefix(l, pre) || !strings.HasSuffix(l, suf) || fk {
			return false
		}
		in := l[len(pre) : len(l)-len(suf)]
		if ri.prim != "" {
			return in == ri.prim
		}
		return ri.isRef && names(in)
	}
	return true
}

func judge(c *common.Ctx, m *sysl.Module, filter string, o obsT, replay interface{}) (nontrivial bool) {
	j := &judgeCtx{c, replay, map[string]bool{}}
	existing := map[string]*cType{}
	var covered []*cType
	hasTableShortRef := false
	for an, a := range m.GetApps() {
		app := syslutil.JoinAppName(a.GetName())
		_ = an
		for tn, t := range a.GetTypes() {
			if t.GetType() == nil {
				continue
			}
			k, p := kindOf(t)
			ct := &cType{app: app, name: tn, kind: k, prim: p, t: t}
			existing[app+"."+tn] = ct
			if k != "other" && (filter == "" || app == filter) {
				covered = append(covered, ct)
			}
			if k == "table" {
				for _, ft := range t.GetRelation().GetAttrDefs() {
					if ft.GetTypeRef() != nil && len(ft.GetTypeRef().GetRef().GetPath()) < 2 {
						hasTableShortRef = true
					}
				}
			}
		}
	}
	sort.Slice(covered, func(a, b int) bool { return covered[a].app+"."+covered[a].name < covered[b].app+"."+covered[b].name })
	if o.panicMsg != "" {
		key := "panic:other"
		if hasTableShortRef {
			key = "panic:table-ref-without-field"
		}
		j.fail(key, fmt.Sprintf("no diagram: GenerateDataModels panicked (%s)", o.panicMsg))
		return true
	}
	if o.missing {
		j.fail("diagram-missing", "GenerateDataModels returned no diagram for "+filter)
		return true
	}
	d := readDiagram(o.text)
	for _, b := range d.bad {
		j.fail("unreadable-line", fmt.Sprintf("diagram line %q is neither a class, a field nor a relationship", b))
	}
	// ---- classes
	byName := map[string][]*dClass{}
	for _, cl := range d.classes {
		byName[cl.name] = append(byName[cl.name], cl)
	}
	classOf := map[*cType]*dClass{}
	for _, ct := range covered {
		full := ct.app + "." + ct.name
		cls := byName[full]
		switch {
		case len(cls) == 0:
			j.fail("class-missing:"+ct.kind, fmt.Sprintf("type %s (%s) has no class in the diagram", full, ct.kind))
			continue
		case len(cls) > 1:
			j.fail("class-duplicate:"+ct.kind, fmt.Sprintf("type %s is declared %d times", full, len(cls)))
		}
		cl := cls[0]
		classOf[ct] = cl
		want := "class"
		if ct.kind == "prim" {
			want = "prim:" + ct.prim
		} else if ct.kind == "enum" {
			want = "enum"
		}
		if cl.head != want {
			j.fail("class-kind:"+ct.kind, fmt.Sprintf("type %s (%s) is declared as %s", full, want, cl.head))
		}
	}
	for _, cl := range d.classes {
		ct := existing[cl.name]
		if ct == nil || ct.kind == "other" || (filter != "" && ct.app != filter) {
			j.fail("class-extra", fmt.Sprintf("class %q is no table, tuple, primitive alias or enum of the covered model", cl.name))
		}
	}
	byAlias := map[int][]*dClass{}
	for _, cl := range d.classes {
		byAlias[cl.alias] = append(byAlias[cl.alias], cl)
	}
	collision := false
	for a, cls := range byAlias {
		if len(cls) > 1 {
			collision = true
			var ks []string
			for _, cl := range cls[:2] {
				k := "unknown"
				if ct := existing[cl.name]; ct != nil {
					k = ct.kind
				}
				ks = append(ks, k)
			}
			sort.Strings(ks)
			j.fail("alias-collision:"+strings.Join(ks, "+"), fmt.Sprintf("classes %q and %q share the alias _%d", cls[0].name, cls[1].name, a))
		}
	}
	// ---- fields
	for _, ct := range covered {
		cl := classOf[ct]
		if cl == nil {
			continue
		}
		if ct.kind != "table" && ct.kind != "tuple" {
			if len(cl.fields) > 0 {
				j.fail("field-extra", fmt.Sprintf("%s %s.%s lists fields", ct.kind, ct.app, ct.name))
			}
			continue
		}
		seen := map[string]int{}
		for _, f := range cl.fields {
			seen[f.name]++
		}
		attrs := attrsOf(ct.t)
		for fn, ft := range attrs {
			ri := fieldInfo(ft)
			if ri.untyp {
				continue // a field without a type (or with an inline structure): nothing is demanded
			}
			tk := ri.wrap
			if tk == "" {
				tk = "ref"
				if ri.prim != "" {
					tk = "prim"
				} else if (ct.kind == "table" && len(ri.path) > 2) || (ct.kind == "tuple" && len(ri.path) > 1) {
					tk = "nested-ref"
				}
			}
			switch seen[fn] {
			case 0:
				j.fail("field-missing:"+ct.kind+":"+tk, fmt.Sprintf("field %s of %s.%s is not listed", fn, ct.app, ct.name))
			case 1:
				for _, f := range cl.fields {
					if f.name == fn && !labelOK(ct, ri, f.label) {
						j.fail("field-type:"+ct.kind+":"+tk, fmt.Sprintf("field %s of %s.%s is listed with type %q", fn, ct.app, ct.name, f.label))
					}
				}
			default:
				j.fail("field-duplicate", fmt.Sprintf("field %s of %s.%s is listed %d times", fn, ct.app, ct.name, seen[fn]))
			}
		}
		for _, f := range cl.fields {
			if _, ok := attrs[f.name]; !ok {
				j.fail("field-extra", fmt.Sprintf("%s.%s lists %q, which is not one of its fields", ct.app, ct.name, f.name))
			}
		}
	}
	// ---- relationships
	if collision {
		return true // aliases are ambiguous: the collision is the finding
	}
	aliasClass := map[int]*dClass{}
	for _, cl := range d.classes {
		aliasClass[cl.alias] = cl
	}
	coveredByName := map[string]*cType{}
	for _, ct := range covered {
		coveredByName[ct.app+"."+ct.name] = ct
	}
	for _, e := range d.edges {
		if aliasClass[e.from] == nil {
			j.fail("edge-from-undeclared", fmt.Sprintf("relationship line starts at _%d, which is no class", e.from))
		}
	}
	for _, ct := range covered {
		cl := classOf[ct]
		if cl == nil || (ct.kind != "table" && ct.kind != "tuple") {
			continue
		}
		exp := map[string]int{}
		why := map[string]string{}
		tolerated, hasNested, danglingTableRef := 0, false, false
		for _, ft := range attrsOf(ct.t) {
			ri := fieldInfo(ft)
			if !ri.isRef || len(ri.path) == 0 {
				continue
			}
			tp := ri.path
			if ct.kind == "table" && len(tp) >= 2 {
				tp = tp[:len(tp)-1] // Table.column
			}
			app := ri.app
			if app == "" {
				app = ct.app
			}
			full := app + "." + strings.Join(tp, ".")
			if len(tp) > 1 {
				hasNested = true
			}
			tgt := existing[full]
			if tgt == nil {
				if ct.kind == "table" && len(tp) == 1 { // (a nested name falls under the nested-path resolution defect)
					danglingTableRef = true
				}
				continue
			}
			if coveredByName[full] == nil {
				tolerated++ // refers to a type of the model that this diagram does not draw: a line is allowed, not demanded
				continue
			}
			nontrivial = true
			exp[full]++
			r := "plain"
			switch {
			case tgt.kind == "prim":
				r = "to-primitive-alias"
			case ct.kind == "table" && ri.wrap != "":
				r = "table-collection"
			case len(tp) > 1:
				r = "nested-path"
			}
			if why[full] == "" || why[full] == "plain" {
				why[full] = r
			}
		}
		obs := map[string]int{}
		dangling := 0
		for _, e := range d.edges {
			if e.from != cl.alias {
				continue
			}
			if tc := aliasClass[e.to]; tc != nil {
				obs[tc.name]++
			} else {
				dangling++
			}
		}
		missingPrim := 0
		for full, n := range exp {
			if obs[full] < n {
				if why[full] == "to-primitive-alias" {
					missingPrim += n - obs[full]
				}
				j.fail("edge-missing:"+why[full], fmt.Sprintf("%s.%s has %d field(s) referring to %s but %d relationship line(s)", ct.app, ct.name, n, full, obs[full]))
			}
		}
		for full, n := range obs {
			if n > exp[full] {
				r := "plain"
				if hasNested {
					r = "nested-path"
				}
				j.fail("edge-extra:"+r, fmt.Sprintf("%s.%s has %d relationship line(s) to %s but %d field(s) referring to it", ct.app, ct.name, n, full, exp[full]))
			}
		}
		if dangling > tolerated {
			r := "plain"
			switch {
			case missingPrim > 0:
				r = "to-primitive-alias"
			case danglingTableRef:
				r = "table-ref-to-missing-type"
			case hasNested:
				r = "nested-path"
			}
			j.fail("edge-dangling:"+r, fmt.Sprintf("%s.%s has %d relationship line(s) to aliases that are no class, %d field(s) refer to model types outside the diagram", ct.app, ct.name, dangling, tolerated))
		}
	}
	return nontrivial
}

// ---------------------------------------------------------------- projection for the Coq model

type atoms struct {
	ids map[string]int
}

func (a *atoms) id(s string) int {
	if s == "" {
		return 1
	}
	if v, ok := a.ids[s]; ok {
		return v
	}
	v := len(a.ids) + 2
	a.ids[s] = v
	return v
}
func (a *atoms) str(s string) string {
	parts := strings.Split(s, ".")
	it := make([]string, len(parts))
	for i, p := range parts {
		it[i] = strconv.Itoa(a.id(p))
	}
	return "[" + strings.Join(it, ";") + "]%positive"
}

func primID(label string) (int, bool) {
	if label == "no_primitive" {
		return 0, true
	}
	v, ok := sysl.Type_Primitive_value[strings.ToUpper(label)]
	if !ok || v == 0 {
		return 0, false
	}
	return int(v), true
}

func (a *atoms) gRef(r *sysl.ScopedRef) string {
	ctx := syslutil.JoinAppName(r.GetContext().GetAppname())
	app := "None"
	if r.GetRef().GetAppname().GetPart() != nil {
		app = fmt.Sprintf("(Some %d%%positive)", a.id(syslutil.JoinAppName(r.GetRef().GetAppname())))
	}
	var ps []string
	for _, p := range r.GetRef().GetPath() {
		ps = append(ps, a.str(p))
	}
	var parts []string
	for _, p := range r.GetRef().GetAppname().GetPart() {
		parts = append(parts, a.str(p))
	}
	return fmt.Sprintf("(R %d %s [%s] [%s])", a.id(ctx), app, strings.Join(parts, ";"), strings.Join(ps, ";"))
}
func (a *atoms) gElem(t *sysl.Type) string {
	switch {
	case t.GetPrimitive() != sysl.Type_NO_Primitive:
		return fmt.Sprintf("(EPrim %d)", int(t.GetPrimitive()))
	case t.GetTypeRef() != nil:
		return "(ERef " + a.gRef(t.GetTypeRef()) + ")"
	}
	return "EOther"
}
func (a *atoms) gField(t *sysl.Type) string {
	switch {
	case t.GetTypeRef() != nil:
		return "(FRef " + a.gRef(t.GetTypeRef()) + ")"
	case t.GetPrimitive() != sysl.Type_NO_Primitive:
		return fmt.Sprintf("(FPrim %d)", int(t.GetPrimitive()))
	case t.GetList() != nil:
		return "(FList " + a.gElem(t.GetList().GetType()) + ")"
	case t.GetSet() != nil:
		return "(FSet " + a.gElem(t.GetSet()) + ")"
	case t.GetSequence() != nil:
		return "(FSeq " + a.gElem(t.GetSequence()) + ")"
	}
	return "FOther"
}

func (a *atoms) gModule(m *sysl.Module, fieldID func(string) int) string {
	type ent struct{ full, term string }
	var es []ent
	for _, ap := range m.GetApps() {
		app := syslutil.JoinAppName(ap.GetName())
		for tn, t := range ap.GetTypes() {
			def := "DOther"
			fields := func(attrs map[string]*sysl.Type) string {
				var ns []string
				for n := range attrs {
					ns = append(ns, n)
				}
				sort.Strings(ns)
				var it []string
				for _, n := range ns {
					it = append(it, fmt.Sprintf("(%d%%positive, %s)", fieldID(n), a.gField(attrs[n])))
				}
				return "[" + strings.Join(it, ";") + "]"
			}
			switch {
			case t.GetType() == nil:
				def = "DNil"
			case t.GetRelation() != nil:
				def = "(DRel " + fields(t.GetRelation().GetAttrDefs()) + ")"
			case t.GetTuple() != nil:
				def = "(DTuple " + fields(t.GetTuple().GetAttrDefs()) + ")"
			case t.GetPrimitive() != sysl.Type_NO_Primitive:
				def = fmt.Sprintf("(DPrim %d)", int(t.GetPrimitive()))
			case t.GetEnum() != nil:
				def = "DEnum"
			}
			es = append(es, ent{app + "." + tn, fmt.Sprintf("(En %d %s %s)", a.id(app), a.str(tn), def)})
		}
	}
	sort.Slice(es, func(i, j int) bool { return es[i].full < es[j].full })
	it := make([]string, len(es))
	for i, e := range es {
		it[i] = e.term
	}
	return "[" + strings.Join(it, ";\n   ") + "]"
}

var cardID = map[string]string{" ": "CBlank", "0..*": "CMany", "1..1 ": "COne"}

// the label as printed -> flabel term; ok=false when it has none of the shapes the code can print
func (a *atoms) gLabel(label string) (string, bool) {
	lname := func(s string) string {
		if p, ok := primID(s); ok && p != 0 {
			return fmt.Sprintf("(LP %d)", p)
		}
		return "(LN " + a.str(s) + ")"
	}
	switch {
	case strings.HasPrefix(label, "**") && strings.HasSuffix(label, "** <<FK>>"):
		return "(LFK " + a.str(label[2:len(label)-9]) + ")", true
	case strings.HasPrefix(label, "**Set <") && strings.HasSuffix(label, ">**"):
		return "(LColl KSet " + lname(label[7:len(label)-3]) + ")", true
	case strings.HasPrefix(label, "**Sequence <") && strings.HasSuffix(label, ">**"):
		return "(LColl KSeq " + lname(label[12:len(label)-3]) + ")", true
	case strings.HasPrefix(label, "**List <") && strings.HasSuffix(label, ">**"):
		return "(LColl KList " + lname(label[8:len(label)-3]) + ")", true
	case strings.HasPrefix(label, "**") && strings.HasSuffix(label, "**") && len(label) >= 4:
		return "(LRefd " + a.str(label[2:len(label)-2]) + ")", true
	}
	if p, ok := primID(label); ok {
		return fmt.Sprintf("(LPrim %d)", p), true
	}
	return "", false
}

// the diagram text -> list item in emission order
func (a *atoms) gItems(txt string, fieldID func(string) int) (string, bool) {
	var it []string
	ok := true
	inBlock, inEnum := false, false
	for _, ln := range strings.Split(txt, "\n") {
		switch {
		case ln == "" || strings.HasPrefix(ln, "''") || ln == "@startuml" || ln == "@enduml" || strings.HasPrefix(ln, "title "):
			continue
		case inBlock && ln == "}":
			it = append(it, "IEnd")
			inBlock, inEnum = false, false
			continue
		case inEnum:
			continue
		}
		if inBlock {
			m := reField.FindStringSubmatch(ln)
			if m == nil {
				ok = false
				continue
			}
			l, lok := a.gLabel(m[2])
			if !lok {
				ok = false
				continue
			}
			it = append(it, fmt.Sprintf("IField %d%%positive %s", fieldID(m[1]), l))
			continue
		}
		if m := reClass.FindStringSubmatch(ln); m != nil {
			h := "HClass"
			if s := strings.TrimSpace(m[3]); s != "" {
				p, pok := primID(s)
				if !pok {
					ok = false
				}
				h = fmt.Sprintf("(HPrim %d)", p)
			}
			it = append(it, fmt.Sprintf("IClass %s %s %s", m[2], a.str(m[1]), h))
			inBlock = true
			continue
		}
		if m := reEnum.FindStringSubmatch(ln); m != nil {
			it = append(it, fmt.Sprintf("IClass %s %s HEnum", m[2], a.str(m[1])))
			inBlock, inEnum = true, true
			continue
		}
		if m := reEdge.FindStringSubmatch(ln); m != nil {
			cd, cok := cardID[m[3]]
			if !cok {
				ok = false
				continue
			}
			it = append(it, fmt.Sprintf("IEdge %s %s %s %s", m[1], m[4], cd, common.GBool(m[2] == "}--")))
			continue
		}
		ok = false
	}
	return "[" + strings.Join(it, ";\n   ") + "]", ok
}

// ---------------------------------------------------------------- driver

type replayT struct {
	Name   string `json:"name"`
	Filter string `json:"per_app_view_of,omitempty"`
	Text   string `json:"sysl"`
}

func main() {
	c := common.Setup("C15")
	defer c.Finish()
	logrus.SetOutput(new(bytes.Buffer))
	c.Res.Rule = "each case = one generated Sysl module (1-4 applications; tuples, tables, enums, primitive and other aliases, unions, nested types; primitive, optional, set/sequence/list and reference fields: local, cross-application, self, repeated, nested-name, dangling) compiled by the real parser and drawn by GenerateDataModels (--direct), whole-model view or the per-application view of one application; distinct = distinct (text, view); non-trivial = at least one field refers to a type the diagram draws"
	header := `From Coq Require Import List NArith PArith Bool. Import ListNotations.
Require Import Verif.DataModel.DmShapeTypes Verif.DataModel.DmModel Verif.DataModel.Run Verif.Base.Harness.
Definition R (c:positive) (a:option positive) (ps p:list (list positive)) := {| r_ctx := c; r_app := a; r_parts := ps; r_path := p |}.
Definition En (a:positive) (n:list positive) (d:tdef) := {| e_app := a; e_name := n; e_def := d |}.`
	footer := `Definition M := Eval vm_compute in mismatches c15_ok cases. Print M.`
	cs := c.NewCases("C15", header, "c15_case", footer, 60)

	one := func(name, text, filter string, toCoq bool) {
		rp := replayT{name, filter, text}
		m, err := compile(text, filter)
		if err != nil {
			c.Hist("parse-error")
			c.Res.Notes = append(c.Res.Notes, "generated text did not compile ("+name+"): "+err.Error())
			return
		}
		if filter != "" {
			if _, ok := m.GetApps()[filter]; !ok {
				filter = ""
				rp.Filter = ""
			}
		}
		o := runReal(m, filter, false)
		nt := judge(c, m, filter, o, rp)
		if filter != "" { // the same view through the other entry point
			od := runReal(m, filter, true)
			judge(c, m, filter, od, rp)
			if od.text != o.text || od.panicMsg != o.panicMsg {
				c.Fail("view-entry-modes-differ", "the per-application view of "+filter+" differs between --direct and project manner", rp)
			}
			c.Hist("view:per-app-both-entry-modes")
		}
		h := sha1.Sum([]byte(text + "|" + filter))
		c.Count(fmt.Sprintf("%x", h[:8]), nt)
		if filter != "" {
			c.Hist("view:per-app")
		} else {
			c.Hist("view:whole-model")
		}
		if o.panicMsg != "" {
			c.Hist("outcome:panic")
		} else {
			c.Hist("outcome:diagram")
		}
		nTypes, nRef := 0, 0
		for _, a := range m.GetApps() {
			for _, t := range a.GetTypes() {
				nTypes++
				k, _ := kindOf(t)
				c.Hist("type:" + k)
				if k == "table" || k == "tuple" {
					for _, ft := range attrsOf(t) {
						ri := fieldInfo(ft)
						w := ri.wrap
						if w == "" {
							w = "plain"
						}
						switch {
						case ri.isRef && len(ri.path) > 1 && k == "tuple":
							c.Hist("field:" + w + "-ref-nested")
							nRef++
						case ri.isRef:
							c.Hist("field:" + w + "-ref")
							nRef++
						case ri.prim != "":
							c.Hist("field:" + w + "-prim")
						default:
							c.Hist("field:untyped")
						}
					}
				}
			}
		}
		if !toCoq {
			return
		}
		at := &atoms{ids: map[string]int{}}
		fids := map[string]int{}
		fieldID := func(s string) int {
			if v, ok := fids[s]; ok {
				return v
			}
			fids[s] = len(fids) + 1
			return fids[s]
		}
		mod := at.gModule(m, fieldID)
		obs := "None"
		if o.panicMsg == "" && !o.missing {
			items, ok := at.gItems(o.text, fieldID)
			if !ok {
				items = "[IEnd; IEnd; IEnd]" // a line the model cannot print: force a mismatch
			}
			obs = "(Some " + items + ")"
		}
		f := "None"
		if filter != "" {
			f = fmt.Sprintf("(Some %d%%positive)", at.id(filter))
		}
		cs.Add(fmt.Sprintf("(%s,\n  %s,\n  %s)", f, mod, obs), rp)
		c.Sample(map[string]interface{}{"name": name, "view": filter, "types": nTypes, "reference_fields": nRef, "sysl": text})
	}

	if c.Replay != "" {
		var rp replayT
		if err := common.LoadReplay(c.Replay, &rp); err != nil {
			fmt.Fprintln(os.Stderr, err)
			os.Exit(3)
		}
		one(rp.Name, rp.Text, rp.Filter, true)
		cs.Close()
		m, err := compile(rp.Text, rp.Filter)
		if err == nil {
			o := runReal(m, rp.Filter, false)
			fmt.Printf("replay %s (view %q): panic=%q failures=%d\n%s\n", rp.Name, rp.Filter, o.panicMsg, len(c.Res.Failures), o.text)
		}
		for _, f := range c.Res.Failures {
			fmt.Println("  ", f.Key, "-", f.What)
		}
		return
	}

	for _, k := range corpus {
		one("corpus:"+k.name, k.text, k.filter, true)
	}
	n := 420
	if c.Thorough() {
		n = 6000
	}
	if c.Search {
		n *= 3
	}
	for i := 0; i < n; i++ {
		r := c.Rng.Fork()
		apps := generate(r, i%5 == 4)
		text := render(apps)
		filter := ""
		if r.Chance(3, 10) {
			filter = apps[r.Intn(len(apps))].Name
		}
		one(fmt.Sprintf("gen:%d", i), text, filter, true)
	}
	cs.Close()
}
