// C15 correspondence + oracle: data-model diagrams (pkg/datamodeldiagram) contain every type, field and
// relationship of the model and nothing else.
//
// generated Sysl text -> real parser -> real GenerateDataModels -> PlantUML parsed into items
//
//	(a) judged by an independent census of the compiled module's type graph (oracle, ctx.Fail)
//	(b) printed with the projected module as a Gallina case for the Coq model `draw`
package main

import (
	"bytes"
	"crypto/sha1"
	"encoding/json"
	"fmt"
	"os"
	"os/exec"
	"path/filepath"
	"regexp"
	"sort"
	"strconv"
	"strings"

	"github.com/anz-bank/sysl/pkg/cmdutils"
	"github.com/anz-bank/sysl/pkg/datamodeldiagram"
	"github.com/anz-bank/sysl/pkg/parse"
	"github.com/anz-bank/sysl/pkg/sysl"
	"github.com/anz-bank/sysl/pkg/syslutil"
	"github.com/sirupsen/logrus"

	"verifharness/common"
)

// ---------------------------------------------------------------- source-level generator

type sField struct {
	Name   string
	Text   string   // right-hand side as written, e.g. "set of App2.X"
	Arr    bool     // name(1..3) <: ...
	Inline []sField // in-place tuple: `name <:` followed by an indented block of fields
}
type sItem struct {
	Name string
	Val  int
}
type sType struct {
	Kind   string // tuple table enum alias aliasref union empty
	Name   string
	Fields []sField
	Prim   string
	Items  []sItem
	Nested []*sType
	path   []string
	app    string
}
type sApp struct {
	Name  string
	Types []*sType
}

var prims = []string{"int", "string", "bool", "date", "datetime", "float", "decimal", "bytes", "any", "int64", "string(10)", "int(5)", "decimal(5.2)", "string(1..10)"}

// names in prefix relation (Model / ModelExt, A / A :: B, App1 / App10) and applications named like types (Outer, T)
// (round 3) App%2E2 is the application "App.2": its name has '.', and App is the first chunk of that name
var appPool = []string{"App1", "App2", "Ns :: App3", "Outer", "T", "Ns :: Sub :: App4", "Model", "ModelExt", "A", "A :: B", "App10", "Ns", "App", "App%2E2"}
var typePool = []string{"T", "U", "Outer", "Inner", "Id", "Color", "X", "Y", "Account", "Cust", "Dot%2EName", "V%2E1"}

var prefixPairs = [][]string{{"Model", "ModelExt"}, {"A", "A :: B"}, {"App1", "App10"}, {"Ns", "Ns :: App3"}, {"Ns", "Ns :: Sub :: App4"}, {"ModelExt", "Model"}, {"App", "App%2E2"}, {"App%2E2", "App"}}

// the name the compiler keeps for a written name
func unesc(s string) string { return strings.ReplaceAll(s, "%2E", ".") }

type gen struct {
	r    *common.Rng
	apps []*sApp
	all  []*sType // every declared type incl. nested
}

func (g *gen) pick(ss []string) string { return ss[g.r.Intn(len(ss))] }

func (g *gen) declare(app string, prefix []string, depth int, used map[string]bool, kindHint string) *sType {
	name := g.pick(typePool)
	for i := 0; used[name] && i < 8; i++ {
		name = g.pick(typePool)
	}
	if used[name] {
		name = fmt.Sprintf("%s%d", name, len(used))
	}
	used[name] = true
	t := &sType{Name: name, app: app, path: append(append([]string{}, prefix...), name)}
	k := g.r.Intn(100)
	switch {
	case kindHint != "":
		t.Kind = kindHint
	case k < 42:
		t.Kind = "tuple"
	case k < 72:
		t.Kind = "table"
	case k < 80 && depth == 0:
		t.Kind = "enum"
	case k < 90 && depth == 0:
		t.Kind = "alias"
		t.Prim = g.pick(prims[:9])
	case k < 93 && depth == 0:
		t.Kind = "aliasref"
	case k < 96 && depth == 0:
		t.Kind = "union"
	case k < 98:
		t.Kind = "empty"
	default:
		t.Kind = "tuple"
	}
	g.all = append(g.all, t)
	if (t.Kind == "tuple" || t.Kind == "table") && depth < 2 && g.r.Chance(1, 4) {
		nu := map[string]bool{}
		for i, n := 0, 1+g.r.Intn(2); i < n; i++ {
			hint := "tuple"
			if g.r.Chance(1, 3) {
				hint = "table"
			}
			t.Nested = append(t.Nested, g.declare(app, t.path, depth+1, nu, hint))
		}
	}
	return t
}

// how a reference to t is written from inside application `from`
func (g *gen) refText(from string, t *sType) string {
	p := strings.Join(t.path, ".")
	if len(t.path) > 1 && g.r.Chance(1, 3) {
		p = strings.Join(t.path, "%2E") // the nested type named by ONE path element "Outer.Inner"
	}
	if t.app != from && !strings.Contains(t.app, "::") && !strings.Contains(t.app, "%2E") && len(t.path) == 1 && g.r.Chance(1, 14) {
		return t.app + "%2E" + p // one path element "App2.Y" inside `from`: names no type of `from`
	}
	// (a type named like its own application is always written with the application: the parser reads
	// `Outer.c0` inside application Outer as application + type, and DrawRelation then indexes Path[1] of a
	// one-element path - the crash site belongs to property C20)
	if t.app != from || t.path[0] == from || g.r.Chance(1, 8) {
		return t.app + "." + p
	}
	return p
}

func (g *gen) targetFor(self *sType, prev *sType) (*sType, string) {
	k := g.r.Intn(100)
	switch {
	case k < 15 && prev != nil:
		return prev, ""
	case k < 25:
		return self, ""
	case k < 33:
		return nil, "Nope"
	case k < 37:
		return nil, g.pick(appPool[:3]) + ".Missing"
	}
	return g.all[g.r.Intn(len(g.all))], ""
}

func (g *gen) fill(t *sType) {
	switch t.Kind {
	case "tuple":
		var prev *sType
		n := g.r.Intn(7)
		for i := 0; i < n; i++ {
			f := sField{Name: fmt.Sprintf("f%d", i)}
			if g.r.Chance(1, 6) {
				f.Name = g.pick([]string{"id", "name", "owner", "items"}) + fmt.Sprint(i)
			}
			k := g.r.Intn(100)
			elem := func(allowPrim bool) string {
				if allowPrim && g.r.Chance(3, 10) {
					return g.pick(prims)
				}
				tg, dangling := g.targetFor(t, prev)
				if tg == nil {
					return dangling
				}
				prev = tg
				return g.refText(t.app, tg)
			}
			switch {
			case k < 5 && len(t.path) == 1:
				for j, m := 0, 1+g.r.Intn(3); j < m; j++ {
					sf := sField{Name: fmt.Sprintf("x%d", j), Text: g.pick(prims)}
					if g.r.Chance(1, 2) {
						sf.Text = elem(false)
					}
					f.Inline = append(f.Inline, sf)
				}
			case k < 30:
				f.Text = g.pick(prims)
			case k < 38:
				f.Text = g.pick(prims) + "?"
			case k < 65:
				f.Text = elem(false)
				if g.r.Chance(1, 5) {
					f.Text += "?"
				}
			case k < 77:
				f.Text = "set of " + elem(true)
			case k < 89:
				f.Text = "sequence of " + elem(true)
			default:
				f.Text = elem(true)
				f.Arr = true
			}
			t.Fields = append(t.Fields, f)
		}
	case "table":
		n := 1 + g.r.Intn(5)
		var prev *sType
		// tables and tuples that have at least one field declared so far can be FK targets (T.field)
		for i := 0; i < n; i++ {
			f := sField{Name: fmt.Sprintf("c%d", i)}
			k := g.r.Intn(100)
			switch {
			case i == 0 || k < 45:
				f.Text = g.pick(prims[:9])
				if i == 0 {
					f.Text += " [~pk]"
				} else if g.r.Chance(1, 5) {
					f.Text += "?"
				}
			case k < 86:
				var cands []*sType
				for _, c := range g.all {
					if c.Kind == "table" {
						cands = append(cands, c)
					}
				}
				tg := cands[g.r.Intn(len(cands))]
				if prev != nil && g.r.Chance(1, 4) {
					tg = prev
				}
				if g.r.Chance(1, 8) {
					tg = t
				}
				prev = tg
				f.Text = g.refText(t.app, tg) + ".c0"
			case k < 88:
				f.Text = g.pick(appPool[:2]) + ".Missing.c0"
			case k < 90:
				f.Text = "Nope.c0" // parsed as application Nope + one-element path
			default:
				// (second pass: 6 % -> 10 % of the columns, list columns, repeated element type)
				tg := g.all[g.r.Intn(len(g.all))]
				if prev != nil && g.r.Chance(1, 3) {
					tg = prev
				}
				el := g.pick([]string{"int", g.refText(t.app, tg), g.refText(t.app, tg)})
				if g.r.Chance(1, 4) {
					f.Text, f.Arr = el, true
				} else {
					f.Text = g.pick([]string{"set of ", "sequence of "}) + el
				}
			}
			t.Fields = append(t.Fields, f)
		}
	case "enum":
		names := []string{"RED", "GREEN", "BLUE", "CYAN"}
		n := 1 + g.r.Intn(4)
		for i := 0; i < n; i++ {
			t.Items = append(t.Items, sItem{names[i], g.r.Intn(7)})
		}
		if n > 1 && g.r.Chance(1, 4) {
			t.Items[n-1].Val = t.Items[0].Val // two enumerators with one value
		}
	case "aliasref":
		t.Prim = g.pick([]string{"set of int", g.refText(t.app, g.all[g.r.Intn(len(g.all))]), "sequence of string"})
	case "union":
		t.Fields = []sField{{Text: "int"}, {Text: g.refText(t.app, g.all[g.r.Intn(len(g.all))])}}
	}
}

func generate(r *common.Rng, big bool) []*sApp {
	g := &gen{r: r}
	na := 1 + r.Intn(3)
	if big {
		na = 2 + r.Intn(3)
	}
	usedApp := map[string]bool{}
	var pre []string
	if r.Chance(1, 3) { // two applications whose names are in prefix relation
		pre = prefixPairs[r.Intn(len(prefixPairs))]
		if na < 2 {
			na = 2
		}
	}
	for i := 0; i < na; i++ {
		an := g.pick(appPool)
		for usedApp[an] {
			an = g.pick(appPool)
		}
		if i < len(pre) {
			an = pre[i]
		}
		usedApp[an] = true
		a := &sApp{Name: an}
		used := map[string]bool{}
		nt := 1 + r.Intn(4)
		if big {
			nt = 2 + r.Intn(5)
		}
		if r.Chance(1, 12) {
			nt = 0
		}
		for j := 0; j < nt; j++ {
			a.Types = append(a.Types, g.declare(an, nil, 0, used, ""))
		}
		g.apps = append(g.apps, a)
	}
	if len(g.all) == 0 {
		a := g.apps[0]
		a.Types = append(a.Types, g.declare(a.Name, nil, 0, map[string]bool{}, "tuple"))
	}
	for _, t := range g.all {
		g.fill(t)
	}
	return g.apps
}

func renderType(b *strings.Builder, t *sType, ind string) {
	switch t.Kind {
	case "tuple", "table", "empty":
		kw := "!type"
		if t.Kind == "table" {
			kw = "!table"
		}
		fmt.Fprintf(b, "%s%s %s:\n", ind, kw, t.Name)
		if len(t.Fields) == 0 && len(t.Nested) == 0 {
			fmt.Fprintf(b, "%s    ...\n", ind)
		}
		for _, f := range t.Fields {
			arr := ""
			if f.Arr {
				arr = "(1..3)"
			}
			if f.Inline != nil {
				fmt.Fprintf(b, "%s    %s <:\n", ind, f.Name)
				for _, sf := range f.Inline {
					fmt.Fprintf(b, "%s        %s <: %s\n", ind, sf.Name, sf.Text)
				}
				continue
			}
			fmt.Fprintf(b, "%s    %s%s <: %s\n", ind, f.Name, arr, f.Text)
		}
		for _, n := range t.Nested {
			renderType(b, n, ind+"    ")
		}
	case "enum":
		fmt.Fprintf(b, "%s!enum %s:\n", ind, t.Name)
		for _, it := range t.Items {
			fmt.Fprintf(b, "%s    %s: %d\n", ind, it.Name, it.Val)
		}
	case "alias", "aliasref":
		fmt.Fprintf(b, "%s!alias %s:\n%s    %s\n", ind, t.Name, ind, t.Prim)
	case "union":
		fmt.Fprintf(b, "%s!union %s:\n", ind, t.Name)
		for _, f := range t.Fields {
			fmt.Fprintf(b, "%s    %s\n", ind, f.Text)
		}
	}
}

func render(apps []*sApp) string {
	var b strings.Builder
	for _, a := range apps {
		fmt.Fprintf(&b, "%s:\n", a.Name)
		if len(a.Types) == 0 {
			b.WriteString("    ...\n")
		}
		for _, t := range a.Types {
			renderType(&b, t, "    ")
		}
	}
	return b.String()
}

// the shapes Appendix B of DESIGN.md and the property's quantifier name; run first in every tier
var corpus = []struct {
	name, filter, text string
	spec               *wspec
}{
	{"same-table-name-in-two-apps", "", "App1:\n    !table T:\n        c0 <: int [~pk]\n        c1 <: App2.T.c0\n    !table U:\n        c0 <: int [~pk]\n        c1 <: T.c0\nApp2:\n    !table T:\n        c0 <: int [~pk]\n", nil},
	{"two-references-to-one-target", "", "App1:\n    !type A:\n        f0 <: B\n        f1 <: B\n        f2 <: set of B\n        f3 <: int\n    !type B:\n        f0 <: string\n    !table P:\n        c0 <: int [~pk]\n        c1 <: Q.c0\n        c2 <: Q.c0\n        c3 <: Q.c0\n    !table Q:\n        c0 <: int [~pk]\n", nil},
	{"nested-next-to-short", "", "App1:\n    !type A:\n        f0 <: B\n        f1 <: A.B\n        f2 <: sequence of B\n        !type B:\n            f0 <: int\n    !type B:\n        f0 <: A\n", nil},
	{"primitive-alias-referenced", "", "App1:\n    !type U:\n        f0 <: Id\n        f1 <: App2.Id\n    !alias Id:\n        int\nApp2:\n    !alias Id:\n        string\n    !type V:\n        f0 <: Id\n", nil},
	{"self-references", "", "App1:\n    !type N:\n        f0 <: N\n        f1 <: set of N\n        f2(1..3) <: N\n        f3 <: sequence of App1.N\n    !table T:\n        c0 <: int [~pk]\n        c1 <: T.c0\n", nil},
	{"cross-app-nested-vs-app-named-like-type", "", "App1:\n    !type Outer:\n        f0 <: int\n        !type Inner:\n            f0 <: int\nApp2:\n    !type R:\n        f0 <: App1.Outer.Inner\n        f1 <: App1.Outer\nOuter:\n    !type Inner:\n        f0 <: string\n", nil},
	{"nested-table-next-to-table", "", "App1:\n    !table T:\n        c0 <: int [~pk]\n    !table X:\n        c0 <: int [~pk]\n        c1 <: T.c0\n        !table T:\n            c0 <: int [~pk]\n", nil},
	{"enum-and-cross-app", "", "App1:\n    !type U:\n        f0 <: Color\n        f1 <: set of Ns :: App3.Y\n        f2 <: Ns :: App3.Y\n    !enum Color:\n        RED: 2\n        GREEN: 1\nNs :: App3:\n    !type Y:\n        f0 <: App1.U\n", nil},
	{"per-app-view", "App1", "App1:\n    !type U:\n        f0 <: V\n        f1 <: App2.W\n        f2 <: App2.W\n    !type V:\n        f0 <: int\nApp2:\n    !type W:\n        f0 <: App1.U\n", nil},
	{"per-app-view-prefix-name-short", "Model", "Model:\n    !type U:\n        f0 <: V\n        f1 <: ModelExt.W\n    !type V:\n        f0 <: int\nModelExt:\n    !type W:\n        f0 <: Model.U\n        f1 <: X\n    !type X:\n        f0 <: int\n    !table T:\n        c0 <: int [~pk]\n", nil},
	{"per-app-view-prefix-name-long", "ModelExt", "Model:\n    !type U:\n        f0 <: V\n    !type V:\n        f0 <: int\nModelExt:\n    !type W:\n        f0 <: Model.U\n        f1 <: X\n    !type X:\n        f0 <: int\n", nil},
	{"per-app-view-namespace-prefix", "A", "A:\n    !type U:\n        f0 <: A :: B.W\n    !enum Color:\n        RED: 1\nA :: B:\n    !type W:\n        f0 <: A.U\n    !alias Id:\n        int\n", nil},
	{"table-dangling-key-by-bare-name", "", "App1:\n    !table T:\n        c0 <: int [~pk]\n        c1 <: Nope.c0\n        c2 <: T.c0\n", nil},
	{"table-with-collections", "", "App1:\n    !table T:\n        c0 <: int [~pk]\n        c1 <: set of int\n        c2 <: sequence of U\n    !table U:\n        c0 <: int [~pk]\n", nil},
	// round 3
	{"inplace-tuple", "", "App1:\n    !type A:\n        f0 <: int\n        inl <:\n            x <: int\n            y <: B\n    !type B:\n        f0 <: string(10)\n", nil},
	{"enum-items-and-repeated-value", "", "App1:\n    !enum E:\n        RED: 2\n        GREEN: 1\n        BLUE: 5\n    !enum F:\n        A: 1\n        B: 1\n        C: 0\n", nil},
	{"names-with-dot", "", "App1:\n    !type Dot%2EName:\n        f0 <: Outer%2EInner\n        f1 <: App%2E2.T\n        f2 <: set of Outer%2EInner\n    !type Outer:\n        f0 <: int\n        !type Inner:\n            f0 <: int\nApp%2E2:\n    !type T:\n        f0 <: App1.Dot%2EName\n", nil},
	{"app-name-with-dot-view-of-it", "App.2", "App:\n    !type X:\n        f0 <: int\nApp%2E2:\n    !type T:\n        f0 <: int\n        f1 <: App.X\n", nil},
	{"app-name-with-dot-view-of-first-chunk", "App", "App:\n    !type X:\n        f0 <: int\nApp%2E2:\n    !type T:\n        f0 <: int\n        f1 <: App.X\n", nil},
	{"nested-name-in-collection", "", "App1:\n    !type A:\n        f0 <: set of Outer.Inner\n        f1 <: sequence of Outer%2EInner\n    !type Outer:\n        f0 <: int\n        !type Inner:\n            f0 <: int\n", nil},
	{"one-element-path-naming-app-and-type", "", "App1:\n    !type A:\n        f0 <: App2%2EY\nApp2:\n    !type Y:\n        f0 <: int\n", nil},
	{"all-type-kinds", "", "App1:\n    !type Tu:\n        f0 <: Al\n        f1 <: Ar\n        f2 <: Ac\n        f3 <: Un\n        f4 <: En\n        f5 <: Ta.c0\n    !table Ta:\n        c0 <: int [~pk]\n    !enum En:\n        A: 1\n    !alias Al:\n        int\n    !alias Ar:\n        Tu\n    !alias Ac:\n        sequence of Tu\n    !union Un:\n        int\n        Tu\n", nil},
	{"project-endpoint-two-apps", "", "App1:\n    !type A:\n        f0 <: int\nApp2:\n    !type B:\n        f0 <: App1.A\n", &wspec{Output: "%(epname).png", Project: projectApp, Endpoints: []wEndpoint{{"V1", []string{"App1", "App2"}}, {"V2", []string{"return ok", "Nope", "App1"}}, {"V3", []string{"Nope"}}}, Key: "V1.png"}},
	{"project-without-epname", "", "App1:\n    !type A:\n        f0 <: int\nApp2:\n    !type B:\n        f0 <: App1.A\n", &wspec{Output: "all.png", Project: projectApp, Endpoints: []wEndpoint{{"V1", []string{"App1"}}, {"V2", []string{"App2"}}}}},
	{"project-not-found", "", "App1:\n    !type A:\n        f0 <: int\n", &wspec{Output: "%(epname).png", Project: "NoSuchProject"}},
	{"project-filter", "", "App1:\n    !type A:\n        f0 <: int\nApp2:\n    !type B:\n        f0 <: App1.A\n", &wspec{Output: "%(epname).png", Project: projectApp, Filter: "V2", Endpoints: []wEndpoint{{"V1", []string{"App1"}}, {"V2", []string{"App2"}}}, Key: "V2.png"}},
	// round 3, second pass: the shapes of the repaired findings
	{"table-collection-columns-related", "", "App1:\n    !table T:\n        c0 <: int [~pk]\n        c1 <: set of U\n        c2 <: sequence of App2.V\n        c3 <: set of U\n        c4 <: set of Outer.Inner\n        c5 <: sequence of Outer%2EInner\n        c6(1..3) <: U\n        c7 <: set of string\n    !table U:\n        c0 <: int [~pk]\n    !type Outer:\n        f0 <: int\n        !type Inner:\n            f0 <: int\nApp2:\n    !table V:\n        c0 <: int [~pk]\n", nil},
	{"nested-table-key-three-levels", "", "App1:\n    !table X:\n        c0 <: int [~pk]\n        !table T:\n            c0 <: int [~pk]\n            !table V:\n                c0 <: int [~pk]\n    !table R:\n        c0 <: int [~pk]\n        c1 <: X.T.V.c0\n        c2 <: X.T.c0\n        c3 <: App1.X.T.V.c0\n        c4 <: X.c0\nApp2:\n    !table S:\n        c0 <: int [~pk]\n        c1 <: App1.X.T.c0\n", nil},
	{"nested-names-in-tuples-whole-path", "", "App1:\n    !type A:\n        f0 <: Outer.Inner\n        f1 <: App1.Outer.Inner\n        f2 <: Outer.Inner.Deep\n        f3 <: Outer.Nope\n        f4 <: Outer.Inner\n    !type Outer:\n        f0 <: int\n        !type Inner:\n            f0 <: Outer\n            !type Deep:\n                f0 <: Outer.Inner\nApp2:\n    !type B:\n        f0 <: App1.Outer.Inner.Deep\n        f1 <: App1.Outer.Missing\n", nil},
	{"dotted-app-table-local-key", "", "App:\n    !table T:\n        c0 <: int [~pk]\nApp%2E2:\n    !table T:\n        c0 <: int [~pk]\n        c1 <: T.c0\n    !table U:\n        c0 <: int [~pk]\n        c1 <: T.c0\n        c2 <: App.T.c0\n", nil},
	{"dotted-app-table-local-key-view", "App.2", "App:\n    !table T:\n        c0 <: int [~pk]\nApp%2E2:\n    !table T:\n        c0 <: int [~pk]\n        c1 <: T.c0\n    !table U:\n        c0 <: int [~pk]\n        c1 <: T.c0\n        c2 <: App.T.c0\n", nil},
	{"project-endpoint-three-apps", "", "App1:\n    !type A:\n        f0 <: App3.C\nApp2:\n    !type B:\n        f0 <: App1.A\nApp3:\n    !type C:\n        f0 <: App2.B\nApp4:\n    !type D:\n        f0 <: App1.A\n", &wspec{Output: "%(epname).png", Project: projectApp, Endpoints: []wEndpoint{{"V1", []string{"App3", "Nope", "App1", "return ok", "App2"}}, {"V2", []string{"App4", "App4"}}}, Key: "V1.png"}},
	{"bare-lookup-in-collection", "", "App1:\n    !type A:\n        f0 <: set of App2%2EY\n        f1 <: App2%2EY\n        f2 <: App2.Y\nApp2:\n    !type Y:\n        f0 <: int\n", nil},
	{"mermaid-foreign-keys-and-any", "", "App1:\n    !table T:\n        c0 <: int [~pk]\n        c1 <: App2.U.c0\n        c2 <: V.c0\n        c3 <: any\n        c4 <: V.c0\n    !table V:\n        c0 <: int [~pk]\n    !type W:\n        f0 <: any\n        f1 <: set of any\n        f2 <: V\n        f3 <: set of V\nApp2:\n    !table U:\n        c0 <: int [~pk]\nNs :: App3:\n    !table A:\n        c0 <: int [~pk]\n    !table B:\n        c0 <: int [~pk]\n        c1 <: A.c0\n        c2 <: App1.T.c0\n", nil},
	{"direct-epname-class-format-title", "", "App1:\n    !type A:\n        f0 <: int\nApp2:\n    !type B:\n        f0 <: App1.A\n", &wspec{Direct: true, Output: "%(epname).png", ClassFormat: "[%(classname)]", Title: "T", Key: "App2.png"}},
}

// ---------------------------------------------------------------- real run

var nullLogger = func() *logrus.Logger { l := logrus.New(); l.SetOutput(new(bytes.Buffer)); return l }()

const projectApp = "VerifProject"

// one invocation of `sysl datamodel`
type wEndpoint struct {
	Name  string   `json:"name"`
	Stmts []string `json:"statements"` // an application name (an action naming it), any other text, or "return ok"
}
type wspec struct {
	Direct      bool        `json:"direct"`
	Output      string      `json:"output"`
	Project     string      `json:"project,omitempty"`
	Endpoints   []wEndpoint `json:"endpoints,omitempty"` // of the generated project application
	Filter      string      `json:"filter,omitempty"`
	ClassFormat string      `json:"class_format,omitempty"`
	Title       string      `json:"title,omitempty"`
	Key         string      `json:"look_at,omitempty"` // the output name whose diagram goes to the Coq case
}

func (w *wspec) params() *cmdutils.CmdContextParamDatagen {
	cf := w.ClassFormat
	if cf == "" {
		cf = "%(classname)"
	}
	return &cmdutils.CmdContextParamDatagen{Output: w.Output, Direct: w.Direct, Project: w.Project, Filter: w.Filter, ClassFormat: cf, Title: w.Title}
}

func (w *wspec) hasEp() bool { return strings.Contains(w.Output, "%(epname)") }

func projectText(w *wspec) string {
	if w.Direct || len(w.Endpoints) == 0 {
		return ""
	}
	var b strings.Builder
	b.WriteString(projectApp + ":\n")
	for _, e := range w.Endpoints {
		fmt.Fprintf(&b, "    %s:\n", e.Name)
		for _, st := range e.Stmts {
			fmt.Fprintf(&b, "        %s\n", st)
		}
	}
	return b.String()
}

func compile(text string, w *wspec) (*sysl.Module, error) {
	return parse.NewParser().ParseString(text + projectText(w))
}

type obsT struct {
	panicMsg string
	errMsg   string
	res      map[string]string
}

func runReal(m *sysl.Module, w *wspec) (o obsT) {
	defer func() {
		if r := recover(); r != nil {
			o.panicMsg = fmt.Sprint(r)
			o.res = nil
		}
	}()
	res, err := datamodeldiagram.GenerateDataModels(w.params(), m, nullLogger)
	if err != nil {
		o.errMsg = err.Error()
		return
	}
	o.res = res
	return
}

// what an output name is expected to hold, worked out from the module and the invocation alone
type coverT struct {
	apps    map[string]bool // nil: the whole model
	several bool            // a project endpoint that names several applications
	last    string          // ... the one named last
	desc    string
}

func (cv *coverT) has(app string) bool { return cv.apps == nil || cv.apps[app] }

// expected output names -> cover; independent of datamodel.go (the format parser is replaced by the substitution of
// %(epname), which is all the generated output templates contain)
func expected(m *sysl.Module, w *wspec) (map[string]*coverT, bool) {
	out := map[string]*coverT{}
	name := func(ep string) string { return strings.ReplaceAll(w.Output, "%(epname)", ep) }
	if w.Direct {
		for an := range m.GetApps() {
			if w.hasEp() {
				out[name(an)] = &coverT{apps: map[string]bool{an: true}, last: an, desc: "the view of application " + an}
			} else {
				out[name("")] = &coverT{desc: "the whole model"}
			}
		}
		return out, true
	}
	pa := m.GetApps()[w.Project]
	if pa == nil {
		return nil, false
	}
	var re *regexp.Regexp
	if w.Filter != "" {
		re = regexp.MustCompile(w.Filter)
	}
	for en, ep := range pa.GetEndpoints() {
		k := name(en)
		if re != nil && !re.MatchString(k) {
			continue
		}
		cv := &coverT{apps: map[string]bool{}, desc: "endpoint " + en + " of the project"}
		for _, st := range ep.GetStmt() {
			if a := st.GetAction(); a != nil {
				if _, ok := m.GetApps()[a.GetAction()]; ok {
					cv.apps[a.GetAction()] = true
					cv.last = a.GetAction()
				}
			}
		}
		if len(cv.apps) == 0 {
			continue
		}
		cv.several = len(cv.apps) > 1
		if !w.hasEp() {
			cv.apps, cv.several = nil, false
		}
		if old := out[k]; old != nil && old.apps != nil { // several endpoints write one name (no %(epname)): the whole model each time
			continue
		}
		out[k] = cv
	}
	return out, true
}

// ---------------------------------------------------------------- diagram reader

type dField struct {
	name  string
	label string
}
type dClass struct {
	alias  int
	name   string
	head   string // "class" | "prim:<name>" | "enum"
	fields []dField
	items  []string // lines of an enum block
}
type dEdge struct {
	from, to int
	card     string
	arrow    string
}
type diagram struct {
	classes []*dClass
	edges   []dEdge
	order   []string // "C<i>" / "E<i>" in emission order, for the item list
	bad     []string
}

var (
	reClass = regexp.MustCompile(`^class "(.*)" as _(\d+) << \(D,orchid\)(.*) >> \{$`)
	reEnum  = regexp.MustCompile(`^enum "(.*)" as _(\d+) \{$`)
	reField = regexp.MustCompile(`^\+ (.*?) : (.*)$`)
	reEdge  = regexp.MustCompile(`^_(\d+) (\*--|\}--) "(.*)" _(\d+)$`)
)

func readDiagram(txt string) *diagram {
	d := &diagram{}
	var cur *dClass
	inEnum := false
	for _, ln := range strings.Split(txt, "\n") {
		switch {
		case ln == "" || strings.HasPrefix(ln, "''") || ln == "@startuml" || ln == "@enduml" || strings.HasPrefix(ln, "title "):
			continue
		case cur != nil && ln == "}":
			cur, inEnum = nil, false
			continue
		case cur != nil && inEnum:
			cur.items = append(cur.items, ln)
			continue
		}
		if cur != nil {
			if m := reField.FindStringSubmatch(ln); m != nil {
				cur.fields = append(cur.fields, dField{m[1], m[2]})
			} else {
				d.bad = append(d.bad, ln)
			}
			continue
		}
		if m := reClass.FindStringSubmatch(ln); m != nil {
			a, _ := strconv.Atoi(m[2])
			h := "class"
			if s := strings.TrimSpace(m[3]); s != "" {
				h = "prim:" + s
			}
			cur = &dClass{alias: a, name: m[1], head: h}
			d.classes = append(d.classes, cur)
			continue
		}
		if m := reEnum.FindStringSubmatch(ln); m != nil {
			a, _ := strconv.Atoi(m[2])
			cur = &dClass{alias: a, name: m[1], head: "enum"}
			inEnum = true
			d.classes = append(d.classes, cur)
			continue
		}
		if m := reEdge.FindStringSubmatch(ln); m != nil {
			f, _ := strconv.Atoi(m[1])
			t, _ := strconv.Atoi(m[4])
			d.edges = append(d.edges, dEdge{f, t, m[3], m[2]})
			continue
		}
		d.bad = append(d.bad, ln)
	}
	return d
}

// ---------------------------------------------------------------- census of the compiled module (the oracle)

type cType struct {
	app, name string
	kind      string // table tuple prim enum other
	prim      string
	t         *sysl.Type
}

func kindOf(t *sysl.Type) (string, string) {
	switch {
	case t.GetRelation() != nil:
		return "table", ""
	case t.GetTuple() != nil:
		return "tuple", ""
	case t.GetPrimitive() != sysl.Type_NO_Primitive:
		return "prim", strings.ToLower(t.GetPrimitive().String())
	case t.GetEnum() != nil:
		return "enum", ""
	}
	return "other", ""
}

type refInfo struct {
	wrap   string // "" set sequence list
	prim   string // element is a primitive
	app    string // explicit application of the reference ("" = the owner's)
	path   []string
	isRef  bool
	untyp  bool
	nested bool
	nparts int  // number of parts of the application name written in the reference
	noctx  bool // the reference carries no context (in-place tuple)
}

func fieldInfo(t *sysl.Type) refInfo {
	elem := func(e *sysl.Type, wrap string) refInfo {
		ri := refInfo{wrap: wrap}
		switch {
		case e.GetPrimitive() != sysl.Type_NO_Primitive:
			ri.prim = strings.ToLower(e.GetPrimitive().String())
		case e.GetTypeRef() != nil:
			ri.isRef = true
			ri.path = e.GetTypeRef().GetRef().GetPath()
			ri.noctx = e.GetTypeRef().GetContext() == nil
			if ps := e.GetTypeRef().GetRef().GetAppname().GetPart(); len(ps) > 0 {
				ri.app = strings.Join(ps, " :: ")
				ri.nparts = len(ps)
			}
		default:
			ri.untyp = true
		}
		return ri
	}
	switch {
	case t.GetSet() != nil:
		return elem(t.GetSet(), "set")
	case t.GetSequence() != nil:
		return elem(t.GetSequence(), "sequence")
	case t.GetList() != nil:
		return elem(t.GetList().GetType(), "list")
	}
	ri := elem(t, "")
	return ri
}

func attrsOf(t *sysl.Type) map[string]*sysl.Type {
	if r := t.GetRelation(); r != nil {
		return r.GetAttrDefs()
	}
	return t.GetTuple().GetAttrDefs()
}

type judgeCtx struct {
	c      *common.Ctx
	replay interface{}
	keys   map[string]bool
}

func (j *judgeCtx) fail(key, what string) {
	if j.keys[key] {
		return // one report per class of failure and case
	}
	j.keys[key] = true
	j.c.Fail(key, what, j.replay)
}

var wrapWord = map[string]string{"set": "Set", "sequence": "Sequence", "list": "List"}

// does the printed label name the field's type?
func labelOK(owner *cType, ri refInfo, label string) bool {
	fk := strings.HasSuffix(label, " <<FK>>")
	l := strings.TrimSuffix(label, " <<FK>>")
	names := func(s string) bool { // s names the referenced type, with or without its application
		app := ri.app
		if app == "" {
			app = owner.app
		}
		p := strings.Join(ri.path, ".")
		if s == p || s == app+"."+p {
			return true
		}
		if owner.kind == "table" && ri.wrap == "" && len(ri.path) >= 2 { // Table.column: the column may be left out
			p = strings.Join(ri.path[:len(ri.path)-1], ".")
			return s == p || s == app+"."+p
		}
		return false
	}
	switch {
	case ri.wrap == "" && ri.prim != "":
		return l == ri.prim && !fk
	case ri.wrap == "" && ri.isRef:
		return strings.HasPrefix(l, "**") && strings.HasSuffix(l, "**") && len(l) >= 4 && names(l[2:len(l)-2])
	case ri.wrap != "":
		pre, suf := "**"+wrapWord[ri.wrap]+" <", ">**"
		if !strings.HasPrefix(l, pre) || !strings.HasSuffix(l, suf) || fk {
			return false
		}
		in := l[len(pre) : len(l)-len(suf)]
		if ri.prim != "" {
			return in == ri.prim
		}
		return ri.isRef && names(in)
	}
	return true
}

// the type a reference of a field of ct means, by the compiler's own scoping rule (written here a second time, in
// Go and independently of the view code and of the Coq model): an in-place tuple is the nested type Owner.field; an
// application part of one element that names no application with such a type, but a type of the current application,
// is a deep local reference (pkg/parse fixTypeRefScope - which the parser applies to direct references only);
// otherwise the application of the reference or the current one, then the whole path (a table's foreign key
// Table.column: without the column; the element of a set / sequence / list column of a table is a type: whole path)
func resolveRef(existing map[string]*cType, ct *cType, ri refInfo) (full string, tp []string, why string) {
	tp = ri.path
	if ct.kind == "table" && ri.wrap == "" && len(tp) >= 2 { // (the element of a collection column is a type, not Table.column)
		tp = tp[:len(tp)-1]
	}
	why = "plain"
	if ri.noctx && len(tp) == 1 && existing[ct.app+"."+ct.name+"."+tp[0]] != nil {
		return ct.app + "." + ct.name + "." + tp[0], tp, "inplace-tuple"
	}
	app := ri.app
	if app == "" {
		app = ct.app
	}
	if ri.nparts == 1 && ri.app != ct.app && existing[ri.app+"."+tp[0]] == nil && existing[ct.app+"."+ri.app] != nil {
		w := "nested-path"
		if ri.wrap != "" {
			w = "nested-path-in-collection"
		}
		return ct.app + "." + ri.app + "." + strings.Join(tp, "."), append([]string{ri.app}, tp...), w
	}
	if len(tp) > 1 {
		why = "nested-path"
	}
	return app + "." + strings.Join(tp, "."), tp, why
}

func judge(c *common.Ctx, m *sysl.Module, cov *coverT, text string, replay interface{}) (nontrivial bool) {
	j := &judgeCtx{c, replay, map[string]bool{}}
	existing := map[string]*cType{}
	var covered []*cType
	hasTableShortRef := false
	for an, a := range m.GetApps() {
		app := syslutil.JoinAppName(a.GetName())
		_ = an
		for tn, t := range a.GetTypes() {
			if t.GetType() == nil {
				continue
			}
			k, p := kindOf(t)
			ct := &cType{app: app, name: tn, kind: k, prim: p, t: t}
			existing[app+"."+tn] = ct
			if k != "other" && cov.has(app) {
				covered = append(covered, ct)
			}
			if k == "table" {
				for _, ft := range t.GetRelation().GetAttrDefs() {
					if ft.GetTypeRef() != nil && len(ft.GetTypeRef().GetRef().GetPath()) < 2 {
						hasTableShortRef = true
					}
				}
			}
		}
	}
	sort.Slice(covered, func(a, b int) bool { return covered[a].app+"."+covered[a].name < covered[b].app+"."+covered[b].name })
	_ = hasTableShortRef
	d := readDiagram(text)
	for _, b := range d.bad {
		j.fail("unreadable-line", fmt.Sprintf("diagram line %q is neither a class, a field nor a relationship", b))
	}
	// ---- classes
	byName := map[string][]*dClass{}
	for _, cl := range d.classes {
		byName[cl.name] = append(byName[cl.name], cl)
	}
	classOf := map[*cType]*dClass{}
	severalMissing, dottedView := false, false
	for _, ct := range covered {
		full := ct.app + "." + ct.name
		cls := byName[full]
		switch {
		case len(cls) == 0:
			switch {
			case cov.several && ct.app != cov.last:
				severalMissing = true
				j.fail("class-missing:project-endpoint-several-apps", fmt.Sprintf("%s names several applications; type %s (%s) of an application not named last has no class in its diagram", cov.desc, full, ct.kind))
			case cov.apps != nil && strings.Contains(ct.app, "."):
				dottedView = true
				j.fail("class-missing:app-name-with-dot", fmt.Sprintf("%s: type %s (%s) has no class in the diagram (the application name contains '.')", cov.desc, full, ct.kind))
			default:
				j.fail("class-missing:"+ct.kind, fmt.Sprintf("%s: type %s (%s) has no class in the diagram", cov.desc, full, ct.kind))
			}
			continue
		case len(cls) > 1:
			j.fail("class-duplicate:"+ct.kind, fmt.Sprintf("type %s is declared %d times", full, len(cls)))
		}
		cl := cls[0]
		classOf[ct] = cl
		want := "class"
		if ct.kind == "prim" {
			want = "prim:" + ct.prim
		} else if ct.kind == "enum" {
			want = "enum"
		}
		if cl.head != want {
			j.fail("class-kind:"+ct.kind, fmt.Sprintf("type %s (%s) is declared as %s", full, want, cl.head))
		}
	}
	for _, cl := range d.classes {
		ct := existing[cl.name]
		if ct == nil || ct.kind == "other" || !cov.has(ct.app) {
			if ct != nil && ct.kind != "other" && strings.Contains(ct.app, ".") {
				dottedView = true
				j.fail("class-extra:app-name-with-dot", fmt.Sprintf("%s: class %q belongs to application %s, whose name merely starts with the same '.'-chunk", cov.desc, cl.name, ct.app))
			} else {
				j.fail("class-extra", fmt.Sprintf("%s: class %q is no table, tuple, primitive alias or enum of the covered model", cov.desc, cl.name))
			}
		}
	}
	byAlias := map[int][]*dClass{}
	for _, cl := range d.classes {
		byAlias[cl.alias] = append(byAlias[cl.alias], cl)
	}
	collision := false
	for a, cls := range byAlias {
		if len(cls) > 1 {
			collision = true
			var ks []string
			for _, cl := range cls[:2] {
				k := "unknown"
				if ct := existing[cl.name]; ct != nil {
					k = ct.kind
				}
				ks = append(ks, k)
			}
			sort.Strings(ks)
			j.fail("alias-collision:"+strings.Join(ks, "+"), fmt.Sprintf("classes %q and %q share the alias _%d", cls[0].name, cls[1].name, a))
		}
	}
	// ---- fields
	for _, ct := range covered {
		cl := classOf[ct]
		if cl == nil {
			continue
		}
		if ct.kind == "enum" {
			// enumerators: every line names an enumerator; each enumerator is listed once
			items := ct.t.GetEnum().GetItems()
			byVal := map[int64]int{}
			for _, v := range items {
				byVal[v]++
			}
			seenItem := map[string]int{}
			for _, ln := range cl.items {
				if _, ok := items[ln]; !ok {
					j.fail("enum-item-extra", fmt.Sprintf("enum %s.%s lists %q, which is not one of its enumerators", ct.app, ct.name, ln))
				}
				seenItem[ln]++
			}
			for n, v := range items {
				suf := ""
				if byVal[v] > 1 {
					suf = ":duplicate-value"
				}
				switch {
				case seenItem[n] == 0:
					j.fail("enum-item-missing"+suf, fmt.Sprintf("enumerator %s of %s.%s is not listed", n, ct.app, ct.name))
				case seenItem[n] > 1:
					j.fail("enum-item-duplicate"+suf, fmt.Sprintf("enumerator %s of %s.%s is listed %d times", n, ct.app, ct.name, seenItem[n]))
				}
			}
		}
		if ct.kind != "table" && ct.kind != "tuple" {
			if len(cl.fields) > 0 {
				j.fail("field-extra", fmt.Sprintf("%s %s.%s lists fields", ct.kind, ct.app, ct.name))
			}
			continue
		}
		seen := map[string]int{}
		for _, f := range cl.fields {
			seen[f.name]++
		}
		attrs := attrsOf(ct.t)
		for fn, ft := range attrs {
			ri := fieldInfo(ft)
			if ri.untyp {
				continue // a field without a type (or with an inline structure): nothing is demanded
			}
			tk := ri.wrap
			if tk == "" {
				tk = "ref"
				if ri.prim != "" {
					tk = "prim"
				} else if (ct.kind == "table" && len(ri.path) > 2) || (ct.kind == "tuple" && len(ri.path) > 1) {
					tk = "nested-ref"
				} else if ri.noctx {
					tk = "inplace"
				}
			}
			switch seen[fn] {
			case 0:
				j.fail("field-missing:"+ct.kind+":"+tk, fmt.Sprintf("field %s of %s.%s is not listed", fn, ct.app, ct.name))
			case 1:
				for _, f := range cl.fields {
					if f.name == fn && !labelOK(ct, ri, f.label) {
						j.fail("field-type:"+ct.kind+":"+tk, fmt.Sprintf("field %s of %s.%s is listed with type %q", fn, ct.app, ct.name, f.label))
					}
				}
			default:
				j.fail("field-duplicate", fmt.Sprintf("field %s of %s.%s is listed %d times", fn, ct.app, ct.name, seen[fn]))
			}
		}
		for _, f := range cl.fields {
			if _, ok := attrs[f.name]; !ok {
				j.fail("field-extra", fmt.Sprintf("%s.%s lists %q, which is not one of its fields", ct.app, ct.name, f.name))
			}
		}
	}
	// ---- relationships
	if collision || severalMissing || dottedView {
		return true // aliases are ambiguous / a whole application is missing: that is the finding
	}
	aliasClass := map[int]*dClass{}
	for _, cl := range d.classes {
		aliasClass[cl.alias] = cl
	}
	coveredByName := map[string]*cType{}
	for _, ct := range covered {
		coveredByName[ct.app+"."+ct.name] = ct
	}
	for _, e := range d.edges {
		if aliasClass[e.from] == nil {
			j.fail("edge-from-undeclared", fmt.Sprintf("relationship line starts at _%d, which is no class", e.from))
		}
	}
	for _, ct := range covered {
		cl := classOf[ct]
		if cl == nil || (ct.kind != "table" && ct.kind != "tuple") {
			continue
		}
		exp := map[string]int{}
		why := map[string]string{}
		expBy := map[string]map[string]int{} // target -> class of the referring field -> number of fields
		tolerated, hasNested, danglingTableRef, bareHit, dottedTable := 0, false, false, false, false
		for _, ft := range attrsOf(ct.t) {
			ri := fieldInfo(ft)
			if !ri.isRef || len(ri.path) == 0 {
				continue
			}
			full, tp, rwhy := resolveRef(existing, ct, ri)
			if len(tp) > 1 {
				hasNested = true
			}
			if len(ri.path) == 1 && strings.Contains(ri.path[0], ".") && existing[full] == nil && existing[ri.path[0]] != nil {
				bareHit = true // Types[typeName] finds an App.Type key for the one-element path "App.Type"
			}
			tgt := existing[full]
			if tgt == nil {
				if ct.kind == "table" && len(tp) == 1 { // (a nested name falls under the nested-path resolution defect)
					danglingTableRef = true
				}
				continue
			}
			if coveredByName[full] == nil {
				tolerated++ // refers to a type of the model that this diagram does not draw: a line is allowed, not demanded
				continue
			}
			nontrivial = true
			exp[full]++
			r := rwhy
			switch {
			case tgt.kind == "prim":
				r = "to-primitive-alias"
			case r == "inplace-tuple" || r == "nested-path-in-collection":
				// the class of the reference itself (how the compiler scopes it) comes before the class of its owner
			case ct.kind == "table" && strings.Contains(ct.app, ".") && ri.app == "":
				r = "table-in-app-name-with-dot" // DrawRelation took the first '.'-chunk of the name for the application
				dottedTable = true
			case ct.kind == "table" && ri.wrap != "":
				r = "table-collection"
			case r == "plain" && len(tp) > 1:
				r = "nested-path"
			}
			if why[full] == "" || why[full] == "plain" {
				why[full] = r
			}
			if expBy[full] == nil {
				expBy[full] = map[string]int{}
			}
			expBy[full][r]++
		}
		obs := map[string]int{}
		dangling := 0
		for _, e := range d.edges {
			if e.from != cl.alias {
				continue
			}
			if tc := aliasClass[e.to]; tc != nil {
				obs[tc.name]++
			} else {
				dangling++
			}
		}
		missingPrim := 0
		for full, n := range exp {
			if obs[full] < n {
				// which fields lost their line cannot be seen from the counts: the missing lines are charged to the
				// classes of the referring fields in a fixed order, each class up to the number of its fields - a
				// deficit larger than the fields of the listed classes reaches "nested-path" / "plain"
				deficit := n - obs[full]
				for _, cls := range []string{"to-primitive-alias", "inplace-tuple", "nested-path-in-collection", "table-in-app-name-with-dot", "table-collection", "nested-path", "plain"} {
					take := expBy[full][cls]
					if take > deficit {
						take = deficit
					}
					if take == 0 {
						continue
					}
					deficit -= take
					if cls == "to-primitive-alias" {
						missingPrim += take
					}
					j.fail("edge-missing:"+cls, fmt.Sprintf("%s.%s has %d field(s) referring to %s but %d relationship line(s) (%d of them of class %s)", ct.app, ct.name, n, full, obs[full], expBy[full][cls], cls))
				}
			}
		}
		for full, n := range obs {
			if n > exp[full] {
				r := "plain"
				if hasNested {
					r = "nested-path"
				} else if dottedTable {
					r = "table-in-app-name-with-dot"
				}
				j.fail("edge-extra:"+r, fmt.Sprintf("%s.%s has %d relationship line(s) to %s but %d field(s) referring to it", ct.app, ct.name, n, full, exp[full]))
			}
		}
		if dangling > tolerated {
			r := "plain"
			switch {
			case missingPrim > 0:
				r = "to-primitive-alias"
			case danglingTableRef:
				r = "table-ref-to-missing-type"
			case hasNested:
				r = "nested-path"
			case bareHit:
				r = "dotted-name-bare-lookup"
			case dottedTable:
				r = "table-in-app-name-with-dot"
			}
			j.fail("edge-dangling:"+r, fmt.Sprintf("%s.%s has %d relationship line(s) to aliases that are no class, %d field(s) refer to model types outside the diagram", ct.app, ct.name, dangling, tolerated))
		}
	}
	return nontrivial
}

// ---------------------------------------------------------------- projection for the Coq model

type atoms struct {
	ids map[string]int
}

func (a *atoms) id(s string) int {
	if s == "" {
		return 1
	}
	if v, ok := a.ids[s]; ok {
		return v
	}
	v := len(a.ids) + 2
	a.ids[s] = v
	return v
}
func (a *atoms) str(s string) string {
	parts := strings.Split(s, ".")
	it := make([]string, len(parts))
	for i, p := range parts {
		it[i] = strconv.Itoa(a.id(p))
	}
	return "[" + strings.Join(it, ";") + "]%positive"
}

func primID(label string) (int, bool) {
	if label == "no_primitive" {
		return 0, true
	}
	v, ok := sysl.Type_Primitive_value[strings.ToUpper(label)]
	if !ok || v == 0 {
		return 0, false
	}
	return int(v), true
}

func (a *atoms) gRef(r *sysl.ScopedRef) string {
	ctx := syslutil.JoinAppName(r.GetContext().GetAppname())
	app := "None"
	if r.GetRef().GetAppname().GetPart() != nil {
		app = "(Some " + a.str(syslutil.JoinAppName(r.GetRef().GetAppname())) + ")"
	}
	var ps []string
	for _, p := range r.GetRef().GetPath() {
		ps = append(ps, a.str(p))
	}
	var parts []string
	for _, p := range r.GetRef().GetAppname().GetPart() {
		parts = append(parts, a.str(p))
	}
	return fmt.Sprintf("(R %s %s [%s] [%s])", a.str(ctx), app, strings.Join(parts, ";"), strings.Join(ps, ";"))
}
func (a *atoms) gElem(t *sysl.Type) string {
	switch {
	case t.GetPrimitive() != sysl.Type_NO_Primitive:
		return fmt.Sprintf("(EPrim %d)", int(t.GetPrimitive()))
	case t.GetTypeRef() != nil:
		return "(ERef " + a.gRef(t.GetTypeRef()) + ")"
	}
	return "EOther"
}
func (a *atoms) gField(t *sysl.Type) string {
	switch {
	case t.GetTypeRef() != nil:
		return "(FRef " + a.gRef(t.GetTypeRef()) + ")"
	case t.GetPrimitive() != sysl.Type_NO_Primitive:
		return fmt.Sprintf("(FPrim %d)", int(t.GetPrimitive()))
	case t.GetList() != nil:
		return "(FList " + a.gElem(t.GetList().GetType()) + ")"
	case t.GetSet() != nil:
		return "(FSet " + a.gElem(t.GetSet()) + ")"
	case t.GetSequence() != nil:
		return "(FSeq " + a.gElem(t.GetSequence()) + ")"
	}
	return "FOther"
}

// enumerators in sort.Strings order of their names (DrawEnum sorts by (value, name); the model sorts stably by value)
func enumOrder(items map[string]int64, _ []string) []string {
	var ns []string
	for n := range items {
		ns = append(ns, n)
	}
	sort.Strings(ns)
	return ns
}

func (a *atoms) gModule(m *sysl.Module, fieldID func(string) int, printedItems map[string][]string) string {
	type ent struct{ full, term string }
	var es []ent
	for _, ap := range m.GetApps() {
		app := syslutil.JoinAppName(ap.GetName())
		for tn, t := range ap.GetTypes() {
			def := "DOther"
			fields := func(attrs map[string]*sysl.Type) string {
				var ns []string
				for n := range attrs {
					ns = append(ns, n)
				}
				sort.Strings(ns)
				var it []string
				for _, n := range ns {
					it = append(it, fmt.Sprintf("(%d%%positive, %s)", fieldID(n), a.gField(attrs[n])))
				}
				return "[" + strings.Join(it, ";") + "]"
			}
			switch {
			case t.GetType() == nil:
				def = "DNil"
			case t.GetRelation() != nil:
				def = "(DRel " + fields(t.GetRelation().GetAttrDefs()) + ")"
			case t.GetTuple() != nil:
				def = "(DTuple " + fields(t.GetTuple().GetAttrDefs()) + ")"
			case t.GetPrimitive() != sysl.Type_NO_Primitive:
				def = fmt.Sprintf("(DPrim %d)", int(t.GetPrimitive()))
			case t.GetEnum() != nil:
				var it []string
				for _, n := range enumOrder(t.GetEnum().GetItems(), printedItems[app+"."+tn]) {
					it = append(it, fmt.Sprintf("(%d%%positive, %d%%Z)", fieldID(n), t.GetEnum().GetItems()[n]))
				}
				def = "(DEnum [" + strings.Join(it, ";") + "])"
			}
			es = append(es, ent{app + "." + tn, fmt.Sprintf("(En %s %s %s)", a.str(app), a.str(tn), def)})
		}
	}
	sort.Slice(es, func(i, j int) bool { return es[i].full < es[j].full })
	it := make([]string, len(es))
	for i, e := range es {
		it[i] = e.term
	}
	return "[" + strings.Join(it, ";\n   ") + "]"
}

var cardID = map[string]string{" ": "CBlank", "0..*": "CMany", "1..1 ": "COne"}

// the label as printed -> flabel term; ok=false when it has none of the shapes the code can print
func (a *atoms) gLabel(label string) (string, bool) {
	lname := func(s string) string {
		if p, ok := primID(s); ok && p != 0 {
			return fmt.Sprintf("(LP %d)", p)
		}
		return "(LN " + a.str(s) + ")"
	}
	switch {
	case strings.HasPrefix(label, "**") && strings.HasSuffix(label, "** <<FK>>"):
		return "(LFK " + a.str(label[2:len(label)-9]) + ")", true
	case strings.HasPrefix(label, "**Set <") && strings.HasSuffix(label, ">**"):
		return "(LColl KSet " + lname(label[7:len(label)-3]) + ")", true
	case strings.HasPrefix(label, "**Sequence <") && strings.HasSuffix(label, ">**"):
		return "(LColl KSeq " + lname(label[12:len(label)-3]) + ")", true
	case strings.HasPrefix(label, "**List <") && strings.HasSuffix(label, ">**"):
		return "(LColl KList " + lname(label[8:len(label)-3]) + ")", true
	case strings.HasPrefix(label, "**") && strings.HasSuffix(label, "**") && len(label) >= 4:
		return "(LRefd " + a.str(label[2:len(label)-2]) + ")", true
	}
	if p, ok := primID(label); ok {
		return fmt.Sprintf("(LPrim %d)", p), true
	}
	return "", false
}

// the diagram text -> list item in emission order
func (a *atoms) gItems(txt string, fieldID func(string) int) (string, bool) {
	var it []string
	ok := true
	inBlock, inEnum := false, false
	for _, ln := range strings.Split(txt, "\n") {
		switch {
		case ln == "" || strings.HasPrefix(ln, "''") || ln == "@startuml" || ln == "@enduml" || strings.HasPrefix(ln, "title "):
			continue
		case inBlock && ln == "}":
			it = append(it, "IEnd")
			inBlock, inEnum = false, false
			continue
		case inEnum:
			it = append(it, fmt.Sprintf("IItem %d%%positive", fieldID(ln)))
			continue
		}
		if inBlock {
			m := reField.FindStringSubmatch(ln)
			if m == nil {
				ok = false
				continue
			}
			l, lok := a.gLabel(m[2])
			if !lok {
				ok = false
				continue
			}
			it = append(it, fmt.Sprintf("IField %d%%positive %s", fieldID(m[1]), l))
			continue
		}
		if m := reClass.FindStringSubmatch(ln); m != nil {
			h := "HClass"
			if s := strings.TrimSpace(m[3]); s != "" {
				p, pok := primID(s)
				if !pok {
					ok = false
				}
				h = fmt.Sprintf("(HPrim %d)", p)
			}
			it = append(it, fmt.Sprintf("IClass %s %s %s", m[2], a.str(m[1]), h))
			inBlock = true
			continue
		}
		if m := reEnum.FindStringSubmatch(ln); m != nil {
			it = append(it, fmt.Sprintf("IClass %s %s HEnum", m[2], a.str(m[1])))
			inBlock, inEnum = true, true
			continue
		}
		if m := reEdge.FindStringSubmatch(ln); m != nil {
			cd, cok := cardID[m[3]]
			if !cok {
				ok = false
				continue
			}
			it = append(it, fmt.Sprintf("IEdge %s %s %s %s", m[1], m[4], cd, common.GBool(m[2] == "}--")))
			continue
		}
		ok = false
	}
	return "[" + strings.Join(it, ";\n   ") + "]", ok
}

// ---------------------------------------------------------------- driver

type replayT struct {
	Name   string `json:"name"`
	Filter string `json:"per_app_view_of,omitempty"` // short form: the per-application view of this application
	Spec   *wspec `json:"datamodel_command,omitempty"`
	Text   string `json:"sysl"`
}

// the invocation a (text, per-application filter) pair of the earlier rounds stands for
func specOf(filter string) *wspec {
	switch {
	case filter == "":
		return &wspec{Direct: true, Output: "all.png"}
	case strings.Contains(filter, "."): // an action statement cannot name an application with '.'
		return &wspec{Direct: true, Output: "%(epname).png", Key: filter + ".png"}
	}
	return &wspec{Output: "%(epname).png", Project: projectApp, Endpoints: []wEndpoint{{"View", []string{filter}}}, Key: "View.png"}
}

func hasShortTableRef(m *sysl.Module) bool {
	for _, a := range m.GetApps() {
		for _, t := range a.GetTypes() {
			for _, ft := range t.GetRelation().GetAttrDefs() {
				if ft.GetTypeRef() != nil && len(ft.GetTypeRef().GetRef().GetPath()) < 2 {
					return true
				}
			}
		}
	}
	return false
}

var classFormats = []string{"%(classname)", "[%(classname)]", "%(classname) x"}

func genSpec(r *common.Rng, apps []*sApp) *wspec {
	real := func(a *sApp) string { return unesc(a.Name) }
	w := &wspec{ClassFormat: classFormats[r.Intn(len(classFormats))]}
	if r.Chance(1, 5) {
		w.Title = "T"
	}
	endpoints := func() {
		n := 1 + r.Intn(3)
		for i := 0; i < n; i++ {
			e := wEndpoint{Name: fmt.Sprintf("V%d", i+1)}
			k := r.Intn(100)
			pick := func() string {
				a := apps[r.Intn(len(apps))]
				if strings.Contains(a.Name, "%2E") { // cannot be named by an action: the statement keeps the text as written
					return a.Name
				}
				return real(a)
			}
			switch {
			case k < 55:
				e.Stmts = []string{pick()}
			case k < 68:
				e.Stmts = []string{pick(), pick()}
			case k < 75:
				e.Stmts = []string{pick(), "return ok", pick(), pick()}
			case k < 85:
				e.Stmts = []string{"return ok", "Nope", pick()}
			case k < 93:
				e.Stmts = []string{pick(), "Nope", "return ok"}
			default:
				e.Stmts = []string{"Nope"}
			}
			w.Endpoints = append(w.Endpoints, e)
		}
	}
	k := r.Intn(100)
	switch {
	case k < 38:
		w.Direct, w.Output = true, "all.png"
	case k < 60:
		w.Direct, w.Output = true, "%(epname).png"
		w.Key = real(apps[r.Intn(len(apps))]) + ".png"
	case k < 84:
		w.Output, w.Project = "%(epname).png", projectApp
		endpoints()
		w.Key = w.Endpoints[r.Intn(len(w.Endpoints))].Name + ".png"
	case k < 91:
		w.Output, w.Project = "all.png", projectApp
		endpoints()
	case k < 94:
		w.Output, w.Project = "%(epname).png", "NoSuchProject"
	default:
		w.Output, w.Project, w.Filter = "%(epname).png", projectApp, "V[13]"
		endpoints()
		w.Key = "V1.png"
	}
	return w
}

// the invocation as DmWrap.winput; output names are interned by outID
func gWinput(a *atoms, m *sysl.Module, w *wspec, outID func(string) int) string {
	hasEp := w.hasEp()
	if w.Direct {
		var ns []string
		for an := range m.GetApps() {
			ns = append(ns, an)
		}
		sort.Strings(ns)
		var it []string
		for _, an := range ns {
			app := m.GetApps()[an]
			out := w.Output
			if hasEp {
				out = cmdutils.MakeFormatParser(w.Output).FmtOutput(an, an, app.GetLongName(), app.GetAttrs())
			}
			it = append(it, fmt.Sprintf("WA %s %d%%positive", a.str(syslutil.JoinAppName(app.GetName())), outID(out)))
		}
		return fmt.Sprintf("(WDirect %s %d%%positive [%s])", common.GBool(hasEp), outID(w.Output), strings.Join(it, "; "))
	}
	pa, found := m.GetApps()[w.Project]
	if !found {
		return fmt.Sprintf("(WProject false %s [])", common.GBool(hasEp))
	}
	var ens []string
	for en := range pa.GetEndpoints() {
		ens = append(ens, en)
	}
	sort.Strings(ens)
	var it []string
	for _, en := range ens {
		ep := pa.GetEndpoints()[en]
		out := w.Output
		if hasEp {
			out = cmdutils.MakeFormatParser(w.Output).FmtOutput(w.Project, en, ep.GetLongName(), ep.GetAttrs())
		}
		match := w.Filter == "" || regexp.MustCompile(w.Filter).MatchString(out)
		var sts []string
		for _, st := range ep.GetStmt() {
			act, ok := st.GetStmt().(*sysl.Statement_Action)
			switch {
			case !ok:
				sts = append(sts, "WOther")
			case m.GetApps()[act.Action.GetAction()] != nil:
				sts = append(sts, "WAction (Some "+a.str(syslutil.JoinAppName(m.GetApps()[act.Action.GetAction()].GetName()))+")")
			default:
				sts = append(sts, "WAction None")
			}
		}
		it = append(it, fmt.Sprintf("WE %d%%positive %s [%s]", outID(out), common.GBool(match), strings.Join(sts, "; ")))
	}
	return fmt.Sprintf("(WProject true %s [%s])", common.GBool(hasEp), strings.Join(it, ";\n    "))
}

func main() {
	c := common.Setup("C15")
	defer c.Finish()
	logrus.SetOutput(new(bytes.Buffer))
	c.Res.Rule = "each case = one generated Sysl module (1-4 applications, names with ::, with '.' (%2E) and in prefix relation; tuples, tables, enums with 1-4 enumerators (a quarter with a repeated value), primitive / reference / collection aliases, unions, nested types, names with '.'; fields: primitive (with constraints), optional, set/sequence/list, in-place tuples, references local, cross-application, self, repeated, by nested name (A.B and A%2EB), dangling) compiled by the real parser, plus one invocation of `sysl datamodel` (GenerateDataModels: --direct or a generated project application with 1-3 endpoints naming 0-2 applications, output name with or without %(epname), filter, class format, title); every diagram of the returned map is judged; distinct = distinct (text, invocation); non-trivial = at least one field refers to a type a diagram draws"
	header := `From Coq Require Import List NArith PArith ZArith Bool. Import ListNotations.
Require Import Verif.DataModel.DmShapeTypes Verif.DataModel.DmModel Verif.DataModel.DmWrap Verif.DataModel.Run Verif.Base.Harness.
Definition R (c:list positive) (a:option (list positive)) (ps p:list (list positive)) := {| r_ctx := c; r_app := a; r_parts := ps; r_path := p |}.
Definition En (a:list positive) (n:list positive) (d:tdef) := {| e_app := a; e_name := n; e_def := d |}.
Definition WA (n:list positive) (o:positive) := {| w_name := n; w_out := o |}.
Definition WE (o:positive) (m:bool) (st:list wstmt) := {| ep_out := o; ep_match := m; ep_stmts := st |}.`
	footer := `Definition M := Eval vm_compute in mismatches c15_ok cases. Print M.`
	cs := c.NewCases("C15", header, "c15_case", footer, 60)
	// goal 3: the Mermaid data-model view of the same module (mermaid.go)
	mcs := c.NewCases("C15M", mermaidHeader, "mm_case", `Definition M := Eval vm_compute in mismatches mm_ok cases. Print M.`, 120)
	syslBin := os.Getenv("VERIF_SYSL_BIN")
	cliLeft := 10
	if c.Thorough() {
		cliLeft = 60
	}

	one := func(name, text string, w *wspec, filter string, toCoq bool) {
		rp := replayT{Name: name, Filter: filter, Spec: w, Text: text}
		if filter != "" {
			rp.Spec = nil
		}
		m, err := compile(text, w)
		if err != nil {
			c.Hist("parse-error")
			c.Res.Notes = append(c.Res.Notes, "generated text did not compile ("+name+"): "+err.Error())
			return
		}
		if toCoq {
			mermaidOne(c, mcs, m, replayT{Name: name + " (Mermaid view: GenerateFullDataDiagram)", Text: text + projectText(w)})
		}
		o := runReal(m, w)
		exp, found := expected(m, w)
		nt := false
		switch {
		case o.panicMsg != "":
			key := "panic:other"
			if hasShortTableRef(m) {
				key = "panic:table-ref-without-field"
			}
			c.Fail(key, fmt.Sprintf("no diagram: GenerateDataModels panicked (%s)", o.panicMsg), rp)
			nt = true
		case o.errMsg != "" && found:
			c.Fail("datamodel-error", "GenerateDataModels failed: "+o.errMsg, rp)
		case o.errMsg != "":
			c.Hist("outcome:project-not-found")
		default:
			var ks []string
			for k := range exp {
				ks = append(ks, k)
			}
			sort.Strings(ks)
			for _, k := range ks {
				txt, ok := o.res[k]
				if !ok {
					c.Fail("diagram-missing", fmt.Sprintf("GenerateDataModels returned no diagram %s (%s)", k, exp[k].desc), rp)
					continue
				}
				if judge(c, m, exp[k], txt, rp) {
					nt = true
				}
				switch {
				case exp[k].apps == nil:
					c.Hist("view:whole-model")
				case exp[k].several:
					c.Hist("view:endpoint-several-apps")
				default:
					c.Hist("view:per-app")
				}
			}
			for k := range o.res {
				if exp[k] == nil {
					c.Fail("diagram-extra", fmt.Sprintf("GenerateDataModels returned a diagram %s that no application / endpoint asks for", k), rp)
				}
			}
		}
		// the per-application view of one application through the other entry point
		if !w.Direct && w.hasEp() && o.res != nil {
			od := runReal(m, &wspec{Direct: true, Output: w.Output, ClassFormat: w.ClassFormat, Title: w.Title})
			for k, cv := range exp {
				if cv.several || len(cv.apps) != 1 {
					continue
				}
				dk := strings.ReplaceAll(w.Output, "%(epname)", cv.last)
				if od.res == nil || od.res[dk] != o.res[k] {
					c.Fail("view-entry-modes-differ", "the per-application view of "+cv.last+" differs between --direct and project manner", rp)
				}
				c.Hist("view:per-app-both-entry-modes")
			}
		}
		// the command itself: the files `sysl datamodel` writes are the entries of the map
		if syslBin != "" && cliLeft > 0 && o.panicMsg == "" && o.errMsg == "" {
			cliLeft--
			cliCompare(c, syslBin, text, w, o.res, rp)
		}
		sj, _ := json.Marshal(w)
		h := sha1.Sum([]byte(text + "|" + string(sj)))
		c.Count(fmt.Sprintf("%x", h[:8]), nt)
		switch {
		case w.Direct && w.hasEp():
			c.Hist("invocation:direct-epname")
		case w.Direct:
			c.Hist("invocation:direct")
		case w.hasEp():
			c.Hist("invocation:project-epname")
		default:
			c.Hist("invocation:project")
		}
		if o.panicMsg != "" {
			c.Hist("outcome:panic")
		} else if o.errMsg == "" {
			c.Hist("outcome:diagram")
		}
		nTypes, nRef := 0, 0
		for _, a := range m.GetApps() {
			if strings.Contains(syslutil.JoinAppName(a.GetName()), ".") {
				c.Hist("app:name-with-dot")
			}
			for tn, t := range a.GetTypes() {
				nTypes++
				k, _ := kindOf(t)
				if k == "other" {
					switch {
					case t.GetOneOf() != nil:
						k = "other-union"
					case t.GetTypeRef() != nil:
						k = "other-alias-of-reference"
					case t.GetSet() != nil || t.GetSequence() != nil || t.GetList() != nil:
						k = "other-alias-of-collection"
					}
				}
				c.Hist("type:" + k)
				if strings.Contains(tn, ".") {
					c.Hist("type:name-with-dot-or-nested")
				}
				if k == "enum" {
					vs := map[int64]bool{}
					for _, v := range t.GetEnum().GetItems() {
						vs[v] = true
					}
					if len(vs) < len(t.GetEnum().GetItems()) {
						c.Hist("enum:repeated-value")
					}
				}
				if k == "table" || k == "tuple" {
					for _, ft := range attrsOf(t) {
						ri := fieldInfo(ft)
						w := ri.wrap
						if w == "" {
							w = "plain"
						}
						switch {
						case ri.isRef && ri.noctx:
							c.Hist("field:inplace-tuple")
							nRef++
						case ri.isRef && len(ri.path) > 1 && k == "tuple":
							c.Hist("field:" + w + "-ref-nested")
							nRef++
						case ri.isRef && len(ri.path) == 1 && strings.Contains(ri.path[0], "."):
							c.Hist("field:" + w + "-ref-dotted-element")
							nRef++
						case ri.isRef:
							c.Hist("field:" + w + "-ref")
							nRef++
						case ri.prim != "" && ft.GetConstraint() != nil && len(ft.GetConstraint()) > 0:
							c.Hist("field:" + w + "-prim-constrained")
						case ri.prim != "":
							c.Hist("field:" + w + "-prim")
						default:
							c.Hist("field:untyped")
						}
					}
				}
			}
		}
		if !toCoq {
			return
		}
		at := &atoms{ids: map[string]int{}}
		fids := map[string]int{}
		fieldID := func(s string) int {
			if v, ok := fids[s]; ok {
				return v
			}
			fids[s] = len(fids) + 1
			return fids[s]
		}
		oids := map[string]int{}
		outID := func(s string) int {
			if v, ok := oids[s]; ok {
				return v
			}
			oids[s] = len(oids) + 1
			return oids[s]
		}
		win := gWinput(at, m, w, outID)
		key := w.Key
		if _, ok := o.res[key]; !ok || key == "" {
			var ks []string
			for k := range o.res {
				ks = append(ks, k)
			}
			sort.Strings(ks)
			if len(ks) > 0 && key == "" {
				key = ks[0]
			} else if key == "" {
				key = w.Output
			}
		}
		okeys, obs := "None", "None"
		printed := map[string][]string{}
		if o.res != nil {
			var ids []int
			for k := range o.res {
				ids = append(ids, outID(k))
			}
			sort.Ints(ids)
			var it []string
			for _, i := range ids {
				it = append(it, fmt.Sprintf("%d%%positive", i))
			}
			okeys = "(Some [" + strings.Join(it, ";") + "])"
			if txt, ok := o.res[key]; ok {
				for _, cl := range readDiagram(txt).classes {
					if cl.head == "enum" {
						printed[cl.name] = cl.items
					}
				}
				items, iok := at.gItems(txt, fieldID)
				if !iok {
					items = "[IEnd; IEnd; IEnd]" // a line the model cannot print: force a mismatch
				}
				obs = "(Some " + items + ")"
			}
		}
		mod := at.gModule(m, fieldID, printed)
		cs.Add(fmt.Sprintf("(%s,\n  %d%%positive,\n  %s,\n  %s,\n  %s)", win, outID(key), mod, okeys, obs), rp)
		c.Sample(map[string]interface{}{"name": name, "invocation": w, "types": nTypes, "reference_fields": nRef, "sysl": text})
	}

	if c.Replay != "" {
		var rp replayT
		if err := common.LoadReplay(c.Replay, &rp); err != nil {
			fmt.Fprintln(os.Stderr, err)
			os.Exit(3)
		}
		w := rp.Spec
		if w == nil {
			w = specOf(rp.Filter)
		}
		one(rp.Name, rp.Text, w, rp.Filter, true)
		cs.Close()
		mcs.Close()
		m, err := compile(rp.Text, w)
		if err != nil {
			fmt.Println("parse error:", err)
			return
		}
		o := runReal(m, w)
		fmt.Printf("replay %s: panic=%q error=%q failures=%d\n", rp.Name, o.panicMsg, o.errMsg, len(c.Res.Failures))
		var ks []string
		for k := range o.res {
			ks = append(ks, k)
		}
		sort.Strings(ks)
		for _, k := range ks {
			fmt.Printf("---- %s\n%s\n", k, o.res[k])
		}
		for _, f := range c.Res.Failures {
			fmt.Println("  ", f.Key, "-", f.What)
		}
		return
	}

	for _, k := range corpus {
		w := k.spec
		if w == nil {
			w = specOf(k.filter)
		}
		one("corpus:"+k.name, k.text, w, k.filter, true)
	}
	n := 420
	if c.Thorough() {
		n = 6000
	}
	if c.Search {
		n *= 3
	}
	for i := 0; i < n; i++ {
		r := c.Rng.Fork()
		apps := generate(r, i%5 == 4)
		text := render(apps)
		one(fmt.Sprintf("gen:%d", i), text, genSpec(r, apps), "", true)
	}
	cs.Close()
	mcs.Close()
}

// `sysl datamodel` itself: written files = entries of the map (each followed by a newline)
func cliCompare(c *common.Ctx, bin, text string, w *wspec, res map[string]string, rp replayT) {
	dir, err := os.MkdirTemp(c.Out, "cli")
	if err != nil {
		return
	}
	defer os.RemoveAll(dir)
	os.WriteFile(filepath.Join(dir, "m.sysl"), []byte(text+projectText(w)), 0o644)
	os.MkdirAll(filepath.Join(dir, "out"), 0o755)
	output := "out/" + strings.TrimSuffix(w.Output, ".png") + ".puml"
	args := []string{"datamodel", "--root", ".", "-o", output}
	if w.Direct {
		args = append(args, "-d")
	} else {
		args = append(args, "-j", w.Project)
	}
	if w.Filter != "" {
		args = append(args, "-f", w.Filter)
	}
	if w.ClassFormat != "" {
		args = append(args, "--class_format", w.ClassFormat)
	}
	if w.Title != "" {
		args = append(args, "-t", w.Title)
	}
	args = append(args, "m.sysl")
	cmd := exec.Command(bin, args...)
	cmd.Dir = dir
	outb, err := cmd.CombinedOutput()
	if err != nil {
		c.Fail("cli-fails", fmt.Sprintf("sysl %s: %v: %s", strings.Join(args, " "), err, strings.TrimSpace(string(outb))), rp)
		return
	}
	got := map[string]string{}
	filepath.Walk(filepath.Join(dir, "out"), func(p string, fi os.FileInfo, err error) error {
		if err == nil && !fi.IsDir() {
			b, _ := os.ReadFile(p)
			rel, _ := filepath.Rel(dir, p)
			got[rel] = string(b)
		}
		return nil
	})
	want := map[string]string{}
	for k, v := range res {
		want["out/"+strings.TrimSuffix(k, ".png")+".puml"] = v + "\n"
	}
	c.Hist("cli:compared")
	if len(got) != len(want) {
		c.Fail("cli-output-differs", fmt.Sprintf("sysl datamodel wrote %d file(s), GenerateDataModels returns %d diagram(s)", len(got), len(want)), rp)
		return
	}
	for k, v := range want {
		if got[k] != v {
			c.Fail("cli-output-differs", "sysl datamodel wrote a different text for "+k+" than GenerateDataModels returns", rp)
			return
		}
	}
}
