// C05, names: directories and base names that make the NAME of an imported file matter - the same import text
// in two directories (or in a local and a remote file), dot directories next to plain ones, local directories whose
// path looks like a host/org/repo, the root handed to Parse under another spelling.
package main

import (
	"fmt"
	"regexp"
	"strings"

	"verifharness/common"
)

var resourceRe = regexp.MustCompile(`^((\w+\.)+(\w)+(/[\w-]+){2})((/[\w.-]+)+)(@([\w./-]+))?$`)

// a local file whose path from the project root has the shape the reader takes for host/org/repo/path
func looksRemoteLocal(s *Spec, i int) bool {
	return !s.remote(i) && !(i == 0 && s.BsRoot) && resourceRe.MatchString(s.path(i))
}

// sameTextPairs: how many import texts occur in two files with different targets
func sameTextPairs(s *Spec) int {
	tg := map[string]map[int]bool{}
	for i, l := range s.Imps {
		for _, im := range l {
			t := s.spell(i, im.To, im.Kind, im.Ver)
			if tg[t] == nil {
				tg[t] = map[int]bool{}
			}
			tg[t][im.To] = true
		}
	}
	n := 0
	for _, m := range tg {
		if len(m) > 1 {
			n++
		}
	}
	return n
}

// sameTextMissing: an import text that is written in two processed files and means two different files there, one
// of which (nearer than the limit) is not in the result
func sameTextMissing(s *Spec, v verdict, final []int) string {
	in := map[int]bool{}
	for _, f := range final {
		in[f] = true
	}
	want := map[int]bool{}
	for _, f := range v.spec {
		want[f] = true
	}
	type use struct{ from, to int }
	uses := map[string][]use{}
	for i, l := range s.Imps {
		if !want[i] {
			continue
		}
		for _, im := range l {
			t := s.spell(i, im.To, im.Kind, im.Ver)
			uses[t] = append(uses[t], use{i, im.To})
		}
	}
	for t, us := range uses {
		for _, a := range us {
			for _, b := range us {
				if a.to != b.to && in[a.to] && want[b.to] && !in[b.to] {
					return fmt.Sprintf("`import %s` in %s means %s and in %s means %s; the first is in the result, the second is not: processed %s",
						t, s.path(a.from), s.path(a.to), s.path(b.from), s.path(b.to), names(s, final))
				}
			}
		}
	}
	return ""
}

var namePool = [][]string{{}, {}, {"d"}, {"d", "e"}, {"k"}, {".shared"}, {"shared"}, {"v1.2", "api", "defs"}, {"h.co", "o", "r"}, {"h.co", "o", "r", "d"}, {"d", ".e"}}

func dirsNamed(r *common.Rng, n int) [][]string {
	ds := make([][]string, n)
	for i := range ds {
		if i == 0 && r.Chance(2, 3) {
			ds[i] = []string{}
		} else {
			ds[i] = namePool[r.Intn(len(namePool))]
		}
	}
	return ds
}

// shareNames: give files that live in different directories the same base name
func shareNames(r *common.Rng, s *Spec) {
	n := s.n()
	s.Names = make([]string, n)
	pool := []string{"common", "common", ".common", "types"}
	used := map[string]bool{}
	for i := 0; i < n; i++ {
		used[s.path(i)] = true
	}
	for i := 1; i < n; i++ {
		if !r.Chance(1, 2) {
			continue
		}
		old := s.path(i)
		s.Names[i] = pool[r.Intn(len(pool))]
		if used[s.path(i)] {
			s.Names[i] = ""
			continue
		}
		delete(used, old)
		used[s.path(i)] = true
	}
}

func im0(to int) Imp        { return Imp{to, 0, "", nil, 0, ""} }
func imk(to, k int) Imp     { return Imp{to, k, "", nil, 0, ""} }
func imv(to int, v string) Imp { return Imp{to, 1, v, nil, 0, ""} }

// genSameText: the same relative import line in two files of one closure, meaning two different files
func genSameText(variant int) *Spec {
	switch variant {
	case 0, 1:
		// root -> a/x, b/y (both orders); a/x: import common ; b/y: import common ; the two commons import /z
		s := &Spec{Dirs: [][]string{{}, {"a"}, {"b"}, {"a"}, {"b"}, {}}, Imps: make([][]Imp, 6), Names: []string{"", "x", "y", "common", "common", "z"}}
		s.Imps[0] = []Imp{im0(1), im0(2)}
		if variant == 1 {
			s.Imps[0] = []Imp{im0(2), im0(1)}
		}
		s.Imps[1] = []Imp{im0(3)}
		s.Imps[2] = []Imp{im0(4)}
		s.Imps[3] = []Imp{imk(5, 2)}
		s.Imps[4] = []Imp{imk(5, 2), imk(3, 6)}
		return s
	case 2:
		// three files named common: next to the root, in a/ and in b/; all three written `import common`
		s := &Spec{Dirs: [][]string{{}, {"a"}, {"b"}, {}, {"a"}, {"b"}}, Imps: make([][]Imp, 6), Names: []string{"", "x", "y", "common", "common", "common"}}
		s.Imps[0] = []Imp{im0(3), im0(1), im0(2)}
		s.Imps[1] = []Imp{im0(4)}
		s.Imps[2] = []Imp{im0(5), imk(1, 6)}
		return s
	case 3:
		// one local, one remote at a version: d/g.sysl and //h.co/o/r/d/f.sysl@v1 both say `import common`
		s := &Spec{Dirs: [][]string{{}, {"d"}, {"d"}, {"d"}, {"d"}}, Imps: make([][]Imp, 5), Remote: []bool{false, false, true, false, true},
			Names: []string{"", "g", "f", "common", "common"}}
		s.Imps[0] = []Imp{im0(1), imv(2, "v1")}
		s.Imps[1] = []Imp{im0(3)}
		s.Imps[2] = []Imp{im0(4)}
		return s
	case 4:
		// the same, the remote file first, and both commons import `t` in their own world
		s := &Spec{Dirs: [][]string{{}, {"d"}, {"d"}, {"d"}, {"d"}, {"d"}, {"d"}}, Imps: make([][]Imp, 7), Remote: []bool{false, false, true, false, true, false, true},
			Names: []string{"", "g", "f", "common", "common", "t", "t"}}
		s.Imps[0] = []Imp{imv(2, "v1"), im0(1)}
		s.Imps[1] = []Imp{im0(3)}
		s.Imps[2] = []Imp{im0(4)}
		s.Imps[3] = []Imp{im0(5)}
		s.Imps[4] = []Imp{im0(6)}
		return s
	case 5:
		// a local directory h.co/o/r next to the remote repository //h.co/o/r: `import t` in both
		s := &Spec{Dirs: [][]string{{}, {"h.co", "o", "r"}, {}, {"h.co", "o", "r"}, {}}, Imps: make([][]Imp, 5), Remote: []bool{false, false, true, false, true},
			Names: []string{"", "u", "u", "t", "t"}}
		s.Imps[0] = []Imp{im0(1), imv(2, "")}
		s.Imps[1] = []Imp{im0(3)}
		s.Imps[2] = []Imp{im0(4)}
		return s
	case 6:
		// dot directory vs plain directory, dot file vs plain file, ../x vs x
		s := &Spec{Dirs: [][]string{{}, {".shared"}, {"shared"}, {}, {"d"}, {"d"}, {}, {}}, Imps: make([][]Imp, 8),
			Names: []string{"", "t", "t", "x", "x", "p", ".x", ".shared"}}
		s.Imps[0] = []Imp{im0(1), im0(2), im0(5), imk(6, 1), imk(7, 1)}
		s.Imps[5] = []Imp{im0(3), im0(4)} // d/p: `../x` and `x`
		s.Imps[1] = []Imp{im0(2)}         // .shared/t: `../shared/t`
		s.Imps[2] = []Imp{im0(1)}         // shared/t: `../.shared/t`
		return s
	default:
		// the defect of fixes/C05-2: a local file below h.co/o/r imported from the root directory (./h.co/o/r/t.sysl) and
		// from its own directory (h.co/o/r/t.sysl); the root handed over as ./root.sysl and imported back
		s := &Spec{Dirs: [][]string{{}, {"h.co", "o", "r"}, {"h.co", "o", "r"}}, Imps: make([][]Imp, 3), Names: []string{"", "t", "u"}, RootAs: 1}
		s.Imps[0] = []Imp{im0(1), im0(2)}
		s.Imps[2] = []Imp{im0(1), imk(0, 2)}
		return s
	}
}

const nSameText = 8

// genNamed: a random digraph over files in the name pool's directories, shared base names, any spelling
func genNamed(r *common.Rng, maxN int) *Spec {
	n := 2 + r.Intn(maxN-1)
	s := &Spec{Dirs: dirsNamed(r, n), Imps: make([][]Imp, n)}
	if r.Chance(2, 3) {
		shareNames(r, s)
	}
	for i := 0; i < n; i++ {
		k := 1 + r.Intn(3)
		if r.Chance(1, 6) {
			k = 0
		}
		for j := 0; j < k; j++ {
			to := r.Intn(n)
			if r.Chance(2, 3) && i+1 < n {
				to = i + 1 + r.Intn(n-i-1)
			}
			s.Imps[i] = append(s.Imps[i], Imp{to, r.Intn(nKinds), "", nil, 0, ""})
		}
	}
	// every file reachable: a spine
	for i := 1; i < n; i++ {
		if r.Chance(1, 2) {
			p := r.Intn(i)
			s.Imps[p] = append(s.Imps[p], Imp{i, r.Intn(nKinds), "", nil, 0, ""})
		}
	}
	if r.Chance(1, 3) {
		s.Max = 1 + r.Intn(n)
	}
	if r.Chance(1, 2) {
		s.RootAs = 1 + r.Intn(2)
	}
	return decorateNamed(r, s)
}

// decorateNamed: as decorate, without a backslash root (its directory is "." whatever its key says)
func decorateNamed(r *common.Rng, s *Spec) *Spec {
	save := s.Dirs[0]
	s.Dirs[0] = []string{}
	out := decorate(r, s) // BsRoot needs len(Dirs[0]) > 0
	out.Dirs[0] = save
	return out
}

var _ = strings.Join
