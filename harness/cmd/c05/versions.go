// C05, versions and app names: a file of the closure imported under two app names (`as X`) or two versions
// (@v1 / @v2; master, main, develop and no version are one) is an ImportError under EVERY completion order of the
// reads; imports that agree are never one.
package main

import (
	"fmt"
	"sort"
	"strings"

	"verifharness/common"
)

func normVer(v string) string {
	switch v {
	case "master", "main", "develop":
		return ""
	}
	return v
}

func normApp(a string) string { return strings.ReplaceAll(a, " :: ", "::") }

// conflictOf: (description of a conflict or "", some import carries a tag). Independent of the model: the version
// of an import line is the one written on a full remote spelling, else the version under which the importing
// remote file is imported itself (all its importers agree, or that is the conflict), else none.
func conflictOf(s *Spec) (string, bool) {
	n := s.n()
	g := s.graph()
	reach := make([]bool, n)
	var rec func(int)
	rec = func(f int) {
		if reach[f] {
			return
		}
		reach[f] = true
		for _, k := range g[f] {
			rec(k)
		}
	}
	rec(0)
	tagged := s.NoCheck
	for i := range s.Imps {
		for _, im := range s.Imps[i] {
			if im.As != "" || normVer(im.Ver) != "" {
				tagged = true
			}
		}
	}
	if !tagged {
		return "", false
	}
	// versions of files: iterate to a fixed point (a conflict is reported as soon as one file has two)
	ver := make([]map[string]bool, n)
	app := make([]map[string]bool, n)
	for i := range ver {
		ver[i], app[i] = map[string]bool{}, map[string]bool{}
	}
	ver[0][""] = true
	app[0][""] = true
	for round := 0; round < n+2; round++ {
		for i := 0; i < n; i++ {
			if !reach[i] {
				continue
			}
			for _, im := range s.Imps[i] {
				app[im.To][normApp(im.As)] = true
				full := s.remote(im.To) && (!s.remote(i) || im.Kind == 5)
				switch {
				case full:
					ver[im.To][normVer(im.Ver)] = true
				case s.remote(i):
					for v := range ver[i] {
						ver[im.To][v] = true
					}
				default:
					ver[im.To][""] = true
				}
			}
		}
	}
	keys := func(m map[string]bool) []string {
		var k []string
		for x := range m {
			k = append(k, fmt.Sprintf("%q", x))
		}
		sort.Strings(k)
		return k
	}
	for i := 0; i < n; i++ {
		if !reach[i] {
			continue
		}
		if len(app[i]) > 1 {
			return fmt.Sprintf("%s is imported under the app names %v", s.path(i), keys(app[i])), true
		}
		if len(ver[i]) > 1 {
			return fmt.Sprintf("%s is imported at the versions %v", s.path(i), keys(ver[i])), true
		}
	}
	return "", true
}

const nConflictCorpus = 8

func genConflictCorpus(v int) *Spec {
	iv := func(to int, ver, as string) Imp { return Imp{To: to, Kind: 1, Ver: ver, As: as} }
	switch v {
	case 0: // x@v1 from the root, x@v2 from a: conflict whichever is claimed first
		return &Spec{Dirs: [][]string{{}, {}, {}}, Remote: []bool{false, false, true}, Imps: [][]Imp{{iv(2, "v1", ""), im0(1)}, {iv(2, "v2", "")}, nil}}
	case 1: // the same without the check
		return &Spec{Dirs: [][]string{{}, {}, {}}, Remote: []bool{false, false, true}, NoCheck: true, Imps: [][]Imp{{iv(2, "v1", ""), im0(1)}, {iv(2, "v2", "")}, nil}}
	case 2: // master / main / develop / none are one version
		return &Spec{Dirs: [][]string{{}, {}, {}, {}}, Remote: []bool{false, false, false, true},
			Imps: [][]Imp{{iv(3, "master", ""), im0(1), im0(2)}, {iv(3, "main", ""), iv(3, "", "")}, {iv(3, "develop", "")}, nil}}
	case 3: // v1 everywhere: no conflict; the remote file's own relative import inherits @v1
		return &Spec{Dirs: [][]string{{}, {}, {"d"}, {"d"}}, Remote: []bool{false, false, true, true},
			Imps: [][]Imp{{iv(2, "v1", ""), im0(1)}, {iv(2, "v1", ""), iv(3, "v1", "")}, {im0(3)}, nil}}
	case 4: // ... and a direct import of that file at another version: conflict through inheritance
		return &Spec{Dirs: [][]string{{}, {}, {"d"}, {"d"}}, Remote: []bool{false, false, true, true},
			Imps: [][]Imp{{iv(2, "v1", ""), im0(1)}, {iv(3, "v2", "")}, {im0(3)}, nil}}
	case 5: // app names: `as X` twice agrees, `A :: B` and `A::B` agree
		return &Spec{Dirs: [][]string{{}, {}, {}, {}}, Imps: [][]Imp{{Imp{To: 2, As: "X"}, im0(1), Imp{To: 3, As: "A :: B"}}, {Imp{To: 2, Kind: 2, As: "X"}, Imp{To: 3, Kind: 1, As: "A::B"}}, nil, nil}}
	case 6: // `as X` and no app name: conflict
		return &Spec{Dirs: [][]string{{}, {}, {}}, Imps: [][]Imp{{Imp{To: 2, As: "X"}, im0(1)}, {im0(2)}, nil}}
	default: // the root imported back under an app name: the root itself was claimed without one
		return &Spec{Dirs: [][]string{{}, {}}, Imps: [][]Imp{{im0(1)}, {Imp{To: 0, As: "Root"}}}}
	}
}

// genTagged: a small closure with a remote part; import lines of some files carry versions / app names
func genTagged(r *common.Rng) *Spec {
	n := 3 + r.Intn(4)
	s := &Spec{Dirs: dirsFor(r, n, r.Chance(1, 2)), Imps: make([][]Imp, n), Remote: make([]bool, n)}
	firstRemote := 1 + r.Intn(n-1) // files firstRemote.. are remote (import-closed: they only import each other)
	for i := firstRemote; i < n; i++ {
		s.Remote[i] = true
	}
	vers := []string{"", "master", "main", "v1", "v1", "v1", "v2"}
	if r.Chance(1, 2) {
		vers = []string{"", "master", "develop", "v1"} // mostly consistent
	}
	apps := []string{"", "", "", "", "X", "X", "Y", "A :: B", "A::B"}
	if r.Chance(1, 2) {
		apps = []string{"", "", "", ""}
	}
	tagFor := map[int]string{} // one app name per target, sometimes broken
	for i := 0; i < n; i++ {
		k := 1 + r.Intn(3)
		for j := 0; j < k; j++ {
			lo, hi := 0, n
			if s.Remote[i] {
				lo = firstRemote
			}
			to := lo + r.Intn(hi-lo)
			if r.Chance(2, 3) && i+1 < n {
				to = i + 1 + r.Intn(n-i-1)
			}
			im := Imp{To: to, Kind: kind(r)}
			if s.Remote[to] {
				im.Ver = vers[r.Intn(len(vers))]
			}
			a, ok := tagFor[to]
			if !ok || r.Chance(1, 6) {
				a = apps[r.Intn(len(apps))]
				if !ok {
					tagFor[to] = a
				}
			}
			if to != 0 || r.Chance(1, 4) {
				im.As = a
			}
			s.Imps[i] = append(s.Imps[i], im)
		}
	}
	for i := 1; i < n; i++ { // every file reachable
		lo := 0
		if s.Remote[i] && r.Chance(1, 2) && i > firstRemote {
			lo = firstRemote
		}
		p := lo + r.Intn(i-lo)
		im := Imp{To: i, Kind: kind(r), As: tagFor[i]}
		if s.Remote[i] {
			im.Ver = vers[r.Intn(len(vers))]
		}
		s.Imps[p] = append(s.Imps[p], im)
	}
	s.NoCheck = r.Chance(1, 8)
	return s
}
