// C05, histories on ONE parse.Parser value: Set, Parse, Set, Parse, ... Every Parse must behave like a fresh parser
// that was given the settings of the latest Set (a Set that omits the depth limit removes it).
package main

import (
	"fmt"
	"sync/atomic"
	"time"

	"github.com/anz-bank/sysl/pkg/parse"

	"verifharness/common"
)

type SetJ struct {
	Max     int  `json:"max"`
	Summary bool `json:"summary"`
	NoCheck bool `json:"nocheck"`
	NoParse bool `json:"noparse"`
}

type HistStep struct {
	Set  *SetJ   `json:"set,omitempty"` // nil: no Set before this Parse
	Spec Spec    `json:"spec"`          // Spec.Max is ignored: the limit is what the parser was last Set to
	Ch   Chooser `json:"ch"`
}

type HistObs struct {
	Steps []Obs `json:"steps"`
}

func histrun(steps []HistStep) HistObs {
	p := parse.NewParser()
	cur := SetJ{} // a new parser has the zero Settings
	var out HistObs
	for i := range steps {
		st := &steps[i]
		if st.Set != nil {
			cur = *st.Set
			p.Set(parse.Settings{MaxImportDepth: cur.Max, OperationSummary: cur.Summary, NoDifferentVersionCheck: cur.NoCheck, NoParsing: cur.NoParse})
		}
		o := lockstepOn(p, &st.Spec, !cur.NoParse, st.Ch.fn())
		if !o.Summary && o.Full && o.Err == "" {
			// no operation summary: the processed order is the order in which the shared app was merged
			o.Final = append([]int{}, o.Merge...)
		}
		out.Steps = append(out.Steps, o)
		if o.Hang {
			break
		}
	}
	return out
}

func (r *runner) runHist(steps []HistStep) ([]Obs, bool) {
	if atomic.LoadInt32(&nBad) >= maxBad {
		return nil, false
	}
	var ho HistObs
	died, timedOut, stderr := r.w.Call(Job{Mode: "hist", Hist: steps}, &ho, 60*time.Second)
	if died || timedOut {
		atomic.AddInt32(&nBad, 1)
		r.w.Close()
		o := Obs{Hang: timedOut}
		if died {
			o.Crash = common.PanicSite(stderr)
		}
		return []Obs{o}, true
	}
	return ho.Steps, true
}

func gBool(b bool) string {
	if b {
		return "T"
	}
	return "F"
}

// history: run, judge every Parse against the settings of the latest Set, print the case
func (r *runner) history(steps []HistStep, label string) {
	c := r.c
	obs, ran := r.runHist(steps)
	if !ran {
		c.Hist("skipped-after-crashes")
		return
	}
	rp := Replay{Mode: "hist", Hist: steps, Full: true, Files: map[string]string{}}
	for k := range steps {
		for i := 0; i < steps[k].Spec.n(); i++ {
			rp.Files[fmt.Sprintf("parse %d: %s", k+1, steps[k].Spec.path(i))] = steps[k].Spec.content(i)
		}
	}
	var ops []string
	okAll := len(obs) == len(steps)
	cur := SetJ{}
	sigS := ""
	nontrivial := false
	for i, st := range steps {
		if st.Set != nil {
			if cur.Max != st.Set.Max {
				nontrivial = true
			}
			cur = *st.Set
			ops = append(ops, fmt.Sprintf("CSet %d%%nat %s %s %s", cur.Max, gBool(cur.Summary), gBool(cur.NoCheck), gBool(cur.NoParse)))
		}
		if i >= len(obs) {
			break
		}
		o := obs[i]
		eff := st.Spec
		eff.Max = cur.Max
		v := analyse(&eff)
		where := fmt.Sprintf("Parse number %d on one parser value, latest Set: %+v", i+1, cur)
		sigS += sig(&eff) + "|" + gInts(releasesOf(o)) + ";"
		c.Hist("history:parse")
		if o.Crash == "" && !o.Hang && o.Err == "" && o.Summary != cur.Summary {
			c.Fail("history:summary-setting", fmt.Sprintf("operation summary printed = %v (%s)", o.Summary, where), rp)
			okAll = false
			continue
		}
		if f := judgeK(&eff, v, o, "lock"); f != nil {
			okAll = false
			// the same input and completion order on a fresh parser
			o2 := r.runJob(Job{Spec: eff, Mode: "lock", Full: o.Full, Ch: Chooser{Kind: "list", List: releasesOf(o)}})
			if f2 := judgeK(&eff, v, o2, "lock"); f2 != nil && f2.key == f.key {
				c.Fail(f.key, f.what, mkReplay(&eff, "lock", releasesOf(o), nil, 0))
			} else {
				c.Fail("history:"+f.key, fmt.Sprintf("%s; a fresh parser with these settings gives %s. %s", where, names(&eff, o2.Final), f.what), rp)
			}
			continue
		}
		if !representable(o) {
			okAll = false
			continue
		}
		ops = append(ops, fmt.Sprintf("CParse %s 0 %s %s %s", gGraph(&eff), gInts(o.B0), gTrace(o), gInts(o.Final)))
	}
	c.Count("hist|"+sigS, nontrivial)
	c.Hist("history:" + label)
	if okAll {
		r.cs.Add("Hist ["+joinS(ops)+"]", rp)
	} else {
		c.Hist("not-sent-to-coq")
	}
}

func joinS(l []string) string {
	out := ""
	for i, x := range l {
		if i > 0 {
			out += "; "
		}
		out += x
	}
	return out
}

// genHistory: 2-4 compilations on one parser
func genHistory(r *common.Rng, k int) ([]HistStep, string) {
	small := func() Spec {
		var s *Spec
		switch r.Intn(3) {
		case 0:
			s = genUnequal(r)
		case 1:
			s = genLayered(r)
		default:
			s = genRandom(r, 6)
		}
		s.Max = 0
		return *s
	}
	ch := func() Chooser {
		switch r.Intn(3) {
		case 0:
			return Chooser{Kind: "oldest"}
		case 1:
			return Chooser{Kind: "newest"}
		}
		return Chooser{Kind: "random", Seed: r.Uint64()}
	}
	a := small()
	depth := 1 + r.Intn(3)
	quiet := &SetJ{Max: 0, Summary: true, NoParse: true} // a Set that omits the depth
	lim := &SetJ{Max: depth, Summary: true, NoParse: true}
	switch k % 5 {
	case 0: // limit, then a Set that omits it: same files
		return []HistStep{{Set: lim, Spec: a, Ch: ch()}, {Set: quiet, Spec: a, Ch: ch()}}, "limit-then-omitted"
	case 1: // limit, then the zero Settings (full compilation, no summary)
		return []HistStep{{Set: lim, Spec: a, Ch: ch()}, {Set: &SetJ{}, Spec: a, Ch: ch()}}, "limit-then-zero-settings"
	case 2: // no Set at all, then a limit, then another file set without a new Set
		return []HistStep{{Spec: a, Ch: ch()}, {Set: &SetJ{Max: depth}, Spec: a, Ch: ch()}, {Spec: small(), Ch: ch()}}, "unset-then-limit-then-reuse"
	case 3: // the same files three times under growing limits, then none
		return []HistStep{{Set: &SetJ{Max: 1, Summary: true, NoParse: true}, Spec: a, Ch: ch()}, {Set: &SetJ{Max: 2, Summary: true, NoParse: true}, Spec: a, Ch: ch()},
			{Set: &SetJ{Max: 3, Summary: true}, Spec: a, Ch: ch()}, {Set: quiet, Spec: a, Ch: ch()}}, "growing-limits"
	default: // unlimited first (everything retrieved), then a limit on the same files, then other files
		return []HistStep{{Set: quiet, Spec: a, Ch: ch()}, {Set: lim, Spec: a, Ch: ch()}, {Set: quiet, Spec: small(), Ch: ch()}}, "unlimited-then-limit"
	}
}
