// C05 correspondence + oracle: the REAL parse.Parser.Parse is driven through chosen completion
// orders of its concurrent file reads by a gate reader (every ReadHashBranch blocks until the
// harness releases it), on generated import graphs (cycles, diamonds, self-imports, repeated
// imports, relative / rooted / redundant spellings of the same file, depth limits).
//
//   - Go oracle (model independent): every file read once, processed-file order = depth-first
//     preorder of the import graph restricted to the files nearer than the depth limit, the compiled
//     module holds exactly those files' apps once each, merged in that order, identical under every
//     schedule tried.
//   - Gallina cases: (graph, limit, release order, blocked set after each release, final order) for
//     the lock-step replay through Imports/Collect.v.
package main

import (
	"context"
	"encoding/json"
	"fmt"
	"io"
	"os"
	"path"
	"runtime"
	"runtime/debug"
	"sort"
	"strings"
	"sync"
	"sync/atomic"
	"time"

	"github.com/anz-bank/golden-retriever/retriever"
	"github.com/anz-bank/sysl/pkg/parse"
	"github.com/sirupsen/logrus"
	"github.com/spf13/afero"

	"verifharness/common"
)

// ---------------------------------------------------------------- inputs

// Spec is one generated input: files 0..N-1 (0 is the root), their directories, and for every file
// its textual imports as (target file, spelling kind).
type Imp struct {
	To   int    `json:"to"`
	Kind int    `json:"kind"`          // see spell()
	Ver  string `json:"ver,omitempty"` // version suffix on a full remote spelling (master/main/develop are all "the default")
	Lay  []int  `json:"lay,omitempty"` // layout lines written before this import line, see layLine()
	Suf  int    `json:"suf,omitempty"` // 1 trailing spaces, 2 trailing comment, 3 `~sysl` mode, 4 two spaces after `import`, 5 TAB after `import`
	As   string `json:"as,omitempty"`  // `as <app name>` behind the path
}
type Spec struct {
	Dirs   [][]string `json:"dirs"` // directory segments of file i
	Imps   [][]Imp    `json:"imps"`
	Max    int        `json:"max"`              // --max-import-depth
	Remote []bool     `json:"remote,omitempty"` // file i lives in the remote repository //h.co/o/r (remote-style, versioned imports)
	BsRoot bool       `json:"bsroot,omitempty"` // the root is named with backslashes (d\root.sysl); others import it with slashes
	Tail   [][]int    `json:"tail,omitempty"`   // layout lines between the last import line and the first application, per file
	CRLF   []bool     `json:"crlf,omitempty"`   // file i has CRLF line ends
	Names  []string   `json:"names,omitempty"`  // base name of file i when it is not f<i> (several files may share one, in different directories)
	RootAs int        `json:"rootas,omitempty"` // how Parse is given the root: 0 its path, 1 "./" + path, 2 path without the extension
	NoCheck bool      `json:"nocheck,omitempty"` // Settings.NoDifferentVersionCheck
}

func (s *Spec) base(i int) string {
	if i < len(s.Names) && s.Names[i] != "" {
		return s.Names[i]
	}
	return baseName(i)
}

// resource: the spelling of the root handed to Parse
func (s *Spec) resource() string {
	p := s.path(0)
	switch s.RootAs {
	case 1:
		return "./" + p
	case 2:
		return strings.TrimSuffix(p, ".sysl")
	}
	return p
}

// layLine: the lines the grammar allows inside the import section besides import statements
func layLine(k int) string {
	switch k {
	case 0:
		return ""
	case 1:
		return "   "
	case 2:
		return "\t"
	case 3:
		return "# note"
	case 4:
		return "    # indented note"
	default:
		return " \t "
	}
}

const nLay = 6


const remoteRepo = "//h.co/o/r"

func (s *Spec) remote(i int) bool { return i < len(s.Remote) && s.Remote[i] }

func (s *Spec) n() int { return len(s.Imps) }

func baseName(i int) string {
	if i == 0 {
		return "root"
	}
	return fmt.Sprintf("f%d", i)
}
func (s *Spec) path(i int) string {
	if i == 0 && s.BsRoot {
		return strings.Join(append(append([]string{}, s.Dirs[i]...), s.base(i)+".sysl"), "\\")
	}
	p := strings.Join(append(append([]string{}, s.Dirs[i]...), s.base(i)+".sysl"), "/")
	if s.remote(i) {
		return remoteRepo + "/" + p
	}
	return p
}

const nKinds = 10

// spell: how file `from` writes its import of file `to`. Every kind resolves (filepath.Join in
// EnterImport_stmt) to the same cleaned path, hence to the same canonical index.
func (s *Spec) spell(from, to, kind int, ver string) string {
	fd, tdir := s.Dirs[from], s.Dirs[to]
	bn := s.base(to)
	if s.remote(to) && (!s.remote(from) || kind == 5) {
		// the full remote spelling, with or without extension and version
		full := remoteRepo + "/" + strings.Join(append(append([]string{}, tdir...), bn), "/")
		if kind%2 == 1 || strings.HasPrefix(bn, ".") {
			full += ".sysl"
		}
		if ver != "" {
			full += "@" + ver
		}
		return full
	}
	if from == 0 && s.BsRoot && kind != 5 {
		// filepath.Dir of a backslash name is ".": only rooted spellings reach the target
		kind = 2 + kind%2
	}
	// a base name that starts with a dot has an "extension" for filepath.Ext: it is always written in full
	plain := bn
	if strings.HasPrefix(bn, ".") {
		plain = bn + ".sysl"
	}
	rooted := "/" + strings.Join(append(append([]string{}, tdir...), plain), "/")
	// relative path from fd to tdir
	k := 0
	for k < len(fd) && k < len(tdir) && fd[k] == tdir[k] {
		k++
	}
	var rel []string
	for i := k; i < len(fd); i++ {
		rel = append(rel, "..")
	}
	rel = append(rel, tdir[k:]...)
	rel = append(rel, plain)
	relS := strings.Join(rel, "/")
	ext := func(p string) string {
		if strings.HasSuffix(p, ".sysl") {
			return p
		}
		return p + ".sysl"
	}
	switch kind {
	case 0:
		return relS
	case 1:
		return ext(relS)
	case 2:
		return rooted
	case 3:
		return ext(rooted)
	case 4:
		return "./" + relS
	case 5: // a redundant detour through the target's own directory
		if len(tdir) > 0 {
			return "/" + strings.Join(tdir, "/") + "/../" + strings.Join(tdir[len(tdir)-1:], "/") + "/./" + ext(bn)
		}
		return "/./" + plain
	case 6: // relative, through the project (or repository) root
		var up []string
		for range fd {
			up = append(up, "..")
		}
		return strings.Join(append(append(up, tdir...), plain), "/")
	case 7:
		return "././" + ext(relS)
	case 8: // through a directory that need not exist
		return "zz/../" + relS
	default: // a doubled slash inside a rooted path
		if len(tdir) > 0 {
			return "/" + strings.Join(tdir, "/") + "//" + plain
		}
		return "/./" + ext(bn)
	}
}

func (s *Spec) content(i int) string {
	var sb strings.Builder
	for _, im := range s.Imps[i] {
		for _, k := range im.Lay {
			sb.WriteString(layLine(k) + "\n")
		}
		kw, tail := "import ", ""
		switch im.Suf {
		case 1:
			tail = "  "
		case 2:
			tail = " # note"
		case 3:
			tail = " ~sysl"
		case 4:
			kw = "import  "
		case 5:
			kw = "import\t"
		}
		as := ""
		if im.As != "" {
			as = " as " + im.As
		}
		sb.WriteString(kw + s.spell(i, im.To, im.Kind, im.Ver) + as + tail + "\n")
	}
	if i < len(s.Tail) {
		for _, k := range s.Tail[i] {
			sb.WriteString(layLine(k) + "\n")
		}
	}
	// every file re-opens the shared app Common (its source contexts record the merge order)
	// and defines its own app
	fmt.Fprintf(&sb, "Common:\n    ...\nA%d:\n    E%d:\n        ...\n", i, i)
	if i < len(s.CRLF) && s.CRLF[i] {
		return strings.ReplaceAll(sb.String(), "\n", "\r\n")
	}
	return sb.String()
}

func (s *Spec) graph() [][]int {
	g := make([][]int, s.n())
	for i, l := range s.Imps {
		for _, im := range l {
			g[i] = append(g[i], im.To)
		}
	}
	return g
}

// the graph a scan for the literal prefix "import " sees: statements written `import<TAB>path` are missing
func (s *Spec) graphNoTab() ([][]int, bool) {
	g := make([][]int, s.n())
	any := false
	for i, l := range s.Imps {
		for _, im := range l {
			if im.Suf == 5 {
				any = true
				continue
			}
			g[i] = append(g[i], im.To)
		}
	}
	return g, any
}

// ---------------------------------------------------------------- gate reader

type gate struct {
	afero.Fs
	byPath  map[string]int
	content []string
	mu      sync.Mutex
	waiting map[int]chan struct{}
	order   []int // arrival order of the blocked reads
	reads   []int // every ReadHashBranch call, by file, in completion order
	asked   []string // ... the name each of them asked for
	vers    []string // ... and the branch it was given back
	unknown []string
	delay   []time.Duration // free-running mode: no gate, a delay per file
	free    bool
}

func (g *gate) Read(ctx context.Context, p string) ([]byte, error) {
	b, _, _, e := g.ReadHashBranch(ctx, p)
	return b, e
}
func (g *gate) ReadHash(ctx context.Context, p string) ([]byte, retriever.Hash, error) {
	b, h, _, e := g.ReadHashBranch(ctx, p)
	return b, h, e
}
func (g *gate) ReadHashBranch(ctx context.Context, p string) ([]byte, retriever.Hash, string, error) {
	g.mu.Lock()
	i, ok := g.find(p)
	branch := ""
	if at := strings.IndexByte(p, '@'); at >= 0 {
		branch = p[at+1:] // as the real retriever: the version that was asked for
	}
	if !ok {
		g.unknown = append(g.unknown, p)
		g.mu.Unlock()
		return nil, retriever.ZeroHash, "", fmt.Errorf("no file %s", p)
	}
	if g.free {
		g.mu.Unlock()
		time.Sleep(g.delay[i])
		g.mu.Lock()
		g.logRead(i, p, branch)
		g.mu.Unlock()
		return []byte(g.content[i]), retriever.ZeroHash, branch, nil
	}
	ch := make(chan struct{})
	if _, dup := g.waiting[i]; dup {
		// a second read of a file whose first read is still blocked: let it through, it is logged
		g.logRead(i, p, branch)
		g.mu.Unlock()
		return []byte(g.content[i]), retriever.ZeroHash, branch, nil
	}
	g.waiting[i] = ch
	g.order = append(g.order, i)
	g.mu.Unlock()
	<-ch
	g.mu.Lock()
	g.logRead(i, p, branch)
	g.mu.Unlock()
	return []byte(g.content[i]), retriever.ZeroHash, branch, nil
}

// fileOf: the file a NAME shown by the parser (operation summary, source context) stands for
func (g *gate) fileOf(p string) (int, bool) {
	if i, ok := g.byPath[p]; ok {
		return i, true
	}
	if i, ok := g.find(p); ok {
		return i, true
	}
	if strings.HasPrefix(p, "//") {
		return 0, false
	}
	i, ok := g.byPath[path.Clean(p)]
	return i, ok
}

func (g *gate) logRead(i int, p, branch string) {
	g.reads = append(g.reads, i)
	g.asked = append(g.asked, p)
	g.vers = append(g.vers, branch)
}

// find: the file a path names; a remote path may carry a version suffix (the retriever's business, one
// content per file here). Exact spelling otherwise: the parser must have resolved the import itself.
func (g *gate) find(p string) (int, bool) {
	if strings.HasPrefix(p, "//") {
		if i, ok := g.byPath[p]; ok {
			return i, true
		}
		if at := strings.IndexByte(p, '@'); at >= 0 {
			i, ok := g.byPath[p[:at]]
			return i, ok
		}
		return 0, false
	}
	// a bare host.tld/owner/repo/path is a remote resource for the real reader (remotefs.RemoteFs.IsRemote): it would
	// be fetched from the network, never read from the project
	if resourceRe.MatchString(p) {
		return 0, false
	}
	if i, ok := g.byPath[p]; ok {
		return i, true
	}
	// a local name is looked up as a file system would: "./x" and "x" are one file
	i, ok := g.byPath[path.Clean(p)]
	return i, ok
}

// settled: every goroutine of the collection is parked, either in our gate or in errgroup's Wait.
var stackBuf = make([]byte, 4<<20)

func settled() bool {
	n := runtime.Stack(stackBuf, true)
	for _, gr := range strings.Split(string(stackBuf[:n]), "\n\n") {
		if !strings.Contains(gr, "pkg/parse.") && !strings.Contains(gr, "errgroup") {
			continue
		}
		nl := strings.IndexByte(gr, '\n')
		if nl < 0 {
			return false
		}
		hdr := gr[:nl]
		a, b := strings.IndexByte(hdr, '['), strings.IndexByte(hdr, ']')
		if a < 0 || b < a {
			return false
		}
		st := hdr[a+1 : b]
		if c := strings.IndexByte(st, ','); c >= 0 {
			st = st[:c]
		}
		switch st {
		case "chan receive":
			if !strings.Contains(gr, "gate).ReadHashBranch") {
				return false
			}
		case "semacquire", "sync.WaitGroup.Wait":
			if !strings.Contains(gr, "WaitGroup).Wait") {
				return false
			}
		default:
			return false
		}
	}
	return true
}

// ---------------------------------------------------------------- one run of the real parser

type Step struct {
	Released int   `json:"released"`
	Blocked  []int `json:"blocked"`
}
type Obs struct {
	B0      []int    `json:"b0"`
	Trace   []Step   `json:"trace"`
	Final   []int    `json:"final"` // processed-file order (operation summary), as file ids; -1 = a name that is no file
	Reads   []int    `json:"reads"`
	Asked   []string `json:"asked,omitempty"` // the name each read asked the reader for
	Vers    []string `json:"vers,omitempty"`  // the branch each read was given back
	Summary bool     `json:"summary"`         // an operation summary was printed
	Apps    []string `json:"apps"`
	Merge   []int    `json:"merge"` // files in the order their `Common` block was merged (source contexts)
	Full    bool     `json:"full"` // the module was compiled (otherwise Parse stopped after flattening)
	Err     string   `json:"err"`
	Hang    bool     `json:"hang"`
	Early   bool     `json:"early"`   // Parse returned while a read was still blocked
	Unknown []string `json:"unknown"` // paths asked of the reader that are no file
	Widths  []int    `json:"widths"`  // number of blocked reads at each choice (for the enumeration of all schedules)
	Crash   string   `json:"crash"`   // the process running Parse died (panic site)
	Skipped bool     `json:"skipped"` // not run: too many crashes / hangs before
}

// Chooser: which blocked read is released next (serialisable: every case runs in a worker subprocess so
// that a crash or runaway recursion of the code under test is an observation, not the end of the check)
type Chooser struct {
	Kind string `json:"kind"` // oldest | newest | highest | random | list | prefix
	Seed uint64 `json:"seed,omitempty"`
	List []int  `json:"list,omitempty"`
}

func (ch Chooser) fn() func(blocked []int, step int) int {
	switch ch.Kind {
	case "newest":
		return func(b []int, _ int) int { return b[len(b)-1] }
	case "highest":
		return func(b []int, _ int) int {
			m := b[0]
			for _, x := range b {
				if x > m {
					m = x
				}
			}
			return m
		}
	case "random":
		rng := common.NewRng(ch.Seed)
		return func(b []int, _ int) int { return b[rng.Intn(len(b))] }
	case "list":
		return listChooser(ch.List)
	case "prefix":
		return func(b []int, step int) int {
			sorted := append([]int{}, b...)
			sort.Ints(sorted)
			if step < len(ch.List) {
				return sorted[ch.List[step]%len(sorted)]
			}
			return sorted[0]
		}
	}
	return func(b []int, _ int) int { return b[0] }
}

type Job struct {
	Spec   Spec    `json:"spec"`
	Mode   string  `json:"mode"` // lock | free
	Full   bool    `json:"full"`
	Ch     Chooser `json:"ch"`
	Delays []int   `json:"delays,omitempty"`
	Procs  int     `json:"procs,omitempty"`
	Dl     int     `json:"deadline_s,omitempty"`
	Hist   []HistStep `json:"hist,omitempty"`
}

func serve(line []byte) interface{} {
	var j Job
	if err := json.Unmarshal(line, &j); err != nil {
		return Obs{Err: "bad job: " + err.Error()}
	}
	if j.Mode == "free" {
		return freerun(&j.Spec, j.Full, j.Delays, j.Procs)
	}
	if j.Mode == "hist" {
		if j.Dl > 0 {
			lockDeadline = time.Duration(j.Dl) * time.Second
		}
		return histrun(j.Hist)
	}
	if j.Dl > 0 {
		lockDeadline = time.Duration(j.Dl) * time.Second
	}
	return lockstep(&j.Spec, j.Full, j.Ch.fn())
}

var lockDeadline = 10 * time.Second

// after a few crashes / hangs the remaining cases are skipped: the failures are recorded, and every
// further case would only wait for its deadline
var nBad int32

const maxBad = 4

func (r *runner) runJob(j Job) Obs {
	if atomic.LoadInt32(&nBad) >= maxBad {
		return Obs{Full: j.Full, Skipped: true}
	}
	o := callWorker(r.w, j, 40*time.Second)
	if o.Hang {
		// a hang is judged by a deadline: run the case once more in a fresh process with three times the
		// time, and report it only if it does not return then either
		r.w.Close()
		j.Dl = 30
		o2 := callWorker(r.w, j, 100*time.Second)
		if !o2.Hang {
			atomic.AddInt32(&hangsNotReproduced, 1)
			o = o2
		} else {
			r.w.Close()
		}
	}
	if o.Hang || o.Crash != "" {
		atomic.AddInt32(&nBad, 1)
	}
	return o
}

var hangsNotReproduced int32

func callWorker(worker *common.Worker, j Job, limit time.Duration) Obs {
	var o Obs
	died, timedOut, stderr := worker.Call(j, &o, limit)
	if died {
		return Obs{Full: j.Full, Crash: common.PanicSite(stderr)}
	}
	if timedOut {
		return Obs{Full: j.Full, Hang: true}
	}
	return o
}

var stdoutMu sync.Mutex

type parseOut struct {
	apps  []string
	merge   []string
	err     error
	summary bool
}

func runParse(s *Spec, rd *gate, full bool) (parseOut, []string) {
	p := parse.NewParser()
	// NoParsing stops after collection + flattening (the only schedule-dependent stages); the module is
	// compiled on the `full` runs
	p.Set(parse.Settings{MaxImportDepth: s.Max, OperationSummary: true, NoParsing: !full, NoDifferentVersionCheck: s.NoCheck})
	return runParseOn(p, s, rd)
}

// runParseOn: one Parse on a parser value that the caller has configured (or not)
func runParseOn(p *parse.Parser, s *Spec, rd *gate) (parseOut, []string) {
	// the operation summary goes to os.Stdout
	pr, pw, _ := os.Pipe()
	old := os.Stdout
	os.Stdout = pw
	m, err := p.Parse(s.resource(), rd)
	os.Stdout = old
	pw.Close()
	raw, _ := io.ReadAll(pr)
	pr.Close()
	var sum struct {
		FilesProcessed []string `json:"filesProcessed"`
	}
	_ = json.Unmarshal(raw, &sum)
	out := parseOut{err: err, summary: len(strings.TrimSpace(string(raw))) > 0}
	if err == nil && m != nil {
		for a := range m.Apps {
			out.apps = append(out.apps, a)
		}
		sort.Strings(out.apps)
		if c := m.Apps["Common"]; c != nil {
			for _, sc := range c.SourceContexts {
				out.merge = append(out.merge, sc.File)
			}
		}
	}
	return out, sum.FilesProcessed
}

func newGate(s *Spec) *gate {
	g := &gate{Fs: afero.NewMemMapFs(), byPath: map[string]int{}, waiting: map[int]chan struct{}{}}
	for i := 0; i < s.n(); i++ {
		g.byPath[s.path(i)] = i
		g.content = append(g.content, s.content(i))
	}
	return g
}

func sortedKeys(m map[int]chan struct{}) []int {
	var k []int
	for x := range m {
		k = append(k, x)
	}
	sort.Ints(k)
	return k
}

func (o *Obs) fill(s *Spec, rd *gate, po parseOut, files []string) {
	for _, f := range files {
		if i, ok := rd.fileOf(f); ok {
			o.Final = append(o.Final, i)
		} else {
			o.Final = append(o.Final, -1)
		}
	}
	for _, f := range po.merge {
		// source contexts carry the display form of the name (backslashes shown as slashes)
		if s.BsRoot && f == strings.ReplaceAll(s.path(0), "\\", "/") {
			o.Merge = append(o.Merge, 0)
			continue
		}
		if i, ok := rd.fileOf(f); ok {
			o.Merge = append(o.Merge, i)
		} else {
			o.Merge = append(o.Merge, -1)
		}
	}
	o.Apps = po.apps
	o.Summary = po.summary
	if po.err != nil {
		o.Err = po.err.Error()
	}
	rd.mu.Lock()
	o.Reads = append([]int{}, rd.reads...)
	o.Asked = append([]string{}, rd.asked...)
	o.Vers = append([]string{}, rd.vers...)
	o.Unknown = append([]string{}, rd.unknown...)
	rd.mu.Unlock()
}

// lockstep: choose(blocked in arrival order) picks the file to release next.
func lockstep(s *Spec, full bool, choose func(blocked []int, step int) int) Obs {
	return lockstepOn(nil, s, full, choose)
}

// lockstepOn: with p == nil a fresh parser configured from the spec, else one Parse on p as it stands
func lockstepOn(p *parse.Parser, s *Spec, full bool, choose func(blocked []int, step int) int) Obs {
	rd := newGate(s)
	done := make(chan struct{})
	var po parseOut
	var files []string
	go func() {
		if p == nil {
			po, files = runParse(s, rd, full)
		} else {
			po, files = runParseOn(p, s, rd)
		}
		close(done)
	}()
	o := Obs{Full: full}
	deadline := time.Now().Add(lockDeadline)
	wait := func() bool { // until settled with something blocked, or done; false = done
		// the stack inspection stops the world: poll with a growing pause
		pause := 40 * time.Microsecond
		runtime.Gosched()
		for {
			select {
			case <-done:
				return false
			default:
			}
			if settled() {
				rd.mu.Lock()
				nw := len(rd.waiting)
				rd.mu.Unlock()
				if nw > 0 {
					return true
				}
			}
			time.Sleep(pause)
			if pause < 2*time.Millisecond {
				pause = pause * 3 / 2
			} else if time.Now().After(deadline) {
				o.Hang = true
				return false
			}
		}
	}
	if wait() {
		rd.mu.Lock()
		o.B0 = sortedKeys(rd.waiting)
		rd.mu.Unlock()
		for step := 0; ; step++ {
			rd.mu.Lock()
			var arr []int
			for _, i := range rd.order {
				if _, ok := rd.waiting[i]; ok {
					arr = append(arr, i)
				}
			}
			o.Widths = append(o.Widths, len(arr))
			pick := choose(arr, step)
			ch := rd.waiting[pick]
			delete(rd.waiting, pick)
			rd.mu.Unlock()
			close(ch)
			more := wait()
			rd.mu.Lock()
			o.Trace = append(o.Trace, Step{pick, sortedKeys(rd.waiting)})
			rd.mu.Unlock()
			if !more {
				break
			}
		}
	}
	if o.Hang {
		// let everything go so that the goroutines end
		rd.mu.Lock()
		for i, ch := range rd.waiting {
			close(ch)
			delete(rd.waiting, i)
		}
		rd.mu.Unlock()
		select {
		case <-done:
		case <-time.After(5 * time.Second):
			return o
		}
	}
	<-done
	rd.mu.Lock()
	if len(rd.waiting) > 0 {
		o.Early = true
		for i, ch := range rd.waiting {
			close(ch)
			delete(rd.waiting, i)
		}
	}
	rd.mu.Unlock()
	o.fill(s, rd, po, files)
	return o
}

func freerun(s *Spec, full bool, delays []int, procs int) Obs {
	rd := newGate(s)
	rd.free = true
	for i := 0; i < s.n(); i++ {
		rd.delay = append(rd.delay, time.Duration(delays[i])*time.Microsecond)
	}
	old := runtime.GOMAXPROCS(procs)
	defer runtime.GOMAXPROCS(old)
	done := make(chan struct{})
	var po parseOut
	var files []string
	go func() {
		po, files = runParse(s, rd, full)
		close(done)
	}()
	o := Obs{Full: full}
	select {
	case <-done:
	case <-time.After(20 * time.Second):
		o.Hang = true
		return o
	}
	o.fill(s, rd, po, files)
	return o
}

// ---------------------------------------------------------------- the oracle (model independent)

// walk lengths of every file, up to bound
func walkLengths(g [][]int, bound int) []map[int]bool {
	n := len(g)
	ls := make([]map[int]bool, n)
	for i := range ls {
		ls[i] = map[int]bool{}
	}
	cur := map[int]bool{0: true}
	for d := 0; d <= bound && len(cur) > 0; d++ {
		nxt := map[int]bool{}
		for f := range cur {
			ls[f][d] = true
			for _, k := range g[f] {
				nxt[k] = true
			}
		}
		cur = nxt
	}
	return ls
}

func minLen(m map[int]bool) int {
	best := -1
	for d := range m {
		if best < 0 || d < best {
			best = d
		}
	}
	return best
}

// preorder: depth-first preorder from the root over g, visiting only files for which in() holds
func preorder(g [][]int, in func(int) bool) []int {
	var out []int
	seen := map[int]bool{}
	var rec func(f int)
	rec = func(f int) {
		if seen[f] || !in(f) {
			return
		}
		seen[f] = true
		out = append(out, f)
		for _, k := range g[f] {
			rec(k)
		}
	}
	rec(0)
	return out
}

func eqInts(a, b []int) bool {
	if len(a) != len(b) {
		return false
	}
	for i := range a {
		if a[i] != b[i] {
			return false
		}
	}
	return true
}

type verdict struct {
	spec       []int
	multiDepth bool // some file has two different walk lengths below the limit
	cuts       bool // the limit excludes at least one reachable file
	shared     bool // some file is reached by more than one import (diamond, cycle, self or repeated import)
	sure       bool // every file nearer than the limit is claimed under every schedule (see sureFiles)
	conflict   string // some file of the closure is imported under two app names or two versions (no limit only): which
	tagged     bool // some import line carries an app name or a version other than the default ones
}

// sureFiles: the files that are claimed whatever the completion order of the reads, under the limit max > 0.
// The root is; an import k of a sure file f is, when f cannot be claimed at a depth that puts k at or beyond the
// limit, i.e. when every walk to f that is shorter than max is shorter than max-1. (Theorem closure_depth_sure.)
func sureFiles(g [][]int, ls []map[int]bool, max int) []bool {
	n := len(g)
	sure := make([]bool, n)
	sure[0] = true
	for changed := true; changed; {
		changed = false
		for f := 0; f < n; f++ {
			if !sure[f] {
				continue
			}
			ok := true
			for d := range ls[f] {
				if d < max && d+1 >= max {
					ok = false
				}
			}
			if !ok {
				continue
			}
			for _, k := range g[f] {
				if !sure[k] {
					sure[k] = true
					changed = true
				}
			}
		}
	}
	return sure
}

func analyse(s *Spec) verdict {
	g := s.graph()
	n := len(g)
	bound := 2*n + 2
	if s.Max+1 > bound {
		bound = s.Max + 1
	}
	ls := walkLengths(g, bound)
	var v verdict
	v.conflict, v.tagged = conflictOf(s)
	v.sure = true
	if s.Max > 0 {
		sf := sureFiles(g, ls, s.Max)
		for f := 0; f < n; f++ {
			if d := minLen(ls[f]); d >= 0 && d < s.Max && !sf[f] {
				v.sure = false
			}
		}
	}
	v.spec = preorder(g, func(f int) bool {
		d := minLen(ls[f])
		return d >= 0 && (s.Max == 0 || d < s.Max)
	})
	indeg := make([]int, n)
	for f := range g {
		if minLen(ls[f]) < 0 {
			continue
		}
		for _, k := range g[f] {
			indeg[k]++
		}
	}
	for f := 0; f < n; f++ {
		d := minLen(ls[f])
		if d < 0 {
			continue
		}
		if indeg[f] > 1 || (f == 0 && indeg[f] > 0) {
			v.shared = true
		}
		if s.Max > 0 {
			if d >= s.Max {
				v.cuts = true
			}
			c := 0
			for l := range ls[f] {
				if l < s.Max {
					c++
				}
			}
			if c > 1 {
				v.multiDepth = true
			}
		}
	}
	return v
}

// partial: what still has to hold of a depth-limited result on a graph with files at several depths
// (the part of the property the code does satisfy): a prefix-closed subset of the files nearer
// than the limit, containing every file all of whose paths have one length, in depth-first
// preorder of the graph restricted to that subset.
func partialOK(s *Spec, res []int) string {
	g := s.graph()
	n := len(g)
	ls := walkLengths(g, 2*n+2)
	in := map[int]bool{}
	for _, f := range res {
		if f < 0 || f >= n {
			return "extra"
		}
		if in[f] {
			return "duplicate"
		}
		in[f] = true
		d := minLen(ls[f])
		if d < 0 || d >= s.Max {
			return "extra"
		}
	}
	for f := 0; f < n; f++ {
		if len(ls[f]) == 1 && minLen(ls[f]) < s.Max && !in[f] {
			return "missing"
		}
	}
	if !eqInts(preorder(g, func(f int) bool { return in[f] }), res) {
		return "order"
	}
	return ""
}

func classify(spec, res []int) string {
	seen := map[int]bool{}
	for _, f := range res {
		if seen[f] {
			return "duplicate"
		}
		seen[f] = true
	}
	inSpec := map[int]bool{}
	for _, f := range spec {
		inSpec[f] = true
	}
	for _, f := range res {
		if !inSpec[f] {
			return "extra"
		}
	}
	if len(res) < len(spec) {
		return "missing"
	}
	return "order"
}

type Replay struct {
	Spec     Spec   `json:"spec"`
	Mode     string `json:"mode"` // lock | free
	Releases []int  `json:"releases,omitempty"`
	Delays   []int  `json:"delays_us,omitempty"`
	Procs    int    `json:"gomaxprocs,omitempty"`
	Full     bool   `json:"full"`
	Files    map[string]string `json:"files"` // for the reader of the replay: the literal file contents
	Hist     []HistStep        `json:"hist,omitempty"` // mode hist: Set / Parse ... on one parser value
}

func mkReplay(s *Spec, mode string, rel []int, delays []int, procs int) Replay {
	r := Replay{Spec: *s, Mode: mode, Releases: rel, Delays: delays, Procs: procs, Full: true, Files: map[string]string{}}
	for i := 0; i < s.n(); i++ {
		r.Files[s.path(i)] = s.content(i)
	}
	return r
}

func names(s *Spec, l []int) string {
	var p []string
	for _, i := range l {
		if i < 0 {
			p = append(p, "?")
		} else {
			p = append(p, s.path(i))
		}
	}
	return "[" + strings.Join(p, " ") + "]"
}

// judge one observation; returns true when the result equals the specification
func judge(c *rec, s *Spec, v verdict, o Obs, rp Replay) bool {
	if o.Skipped {
		c.Hist("skipped-after-crashes")
		return true
	}
	if f := judgeK(s, v, o, rp.Mode); f != nil {
		c.Fail(f.key, f.what, rp)
		return false
	}
	return true
}

type failure struct{ key, what string }

// judgeK: the verdict on one observation as (key, what); nil = the result equals the specification
func judgeK(s *Spec, v verdict, o Obs, mode string) *failure {
	where := fmt.Sprintf("root %s, --max-import-depth %d, %s", s.resource(), s.Max, mode)
	if o.Skipped {
		return nil
	}
	if o.Crash != "" {
		return &failure{"crash:" + o.Crash, "the process died while Parse was running (" + where + "): " + o.Crash}
	}
	if o.Hang {
		return &failure{"hang", "Parse did not return within the deadline (" + where + ")"}
	}
	if o.Early {
		return &failure{"early-return", "Parse returned while a file read was still in flight (" + where + ")"}
	}
	if len(o.Unknown) > 0 {
		return &failure{"wrong-path", fmt.Sprintf("the reader was asked for %q, which is no file of the project (or, for a bare host.tld/owner/repo/path, would be fetched from the network) (%s)", o.Unknown, where)}
	}
	if v.conflict != "" && s.Max == 0 && !s.NoCheck {
		if o.Err == "" {
			return &failure{"version-conflict:accepted", fmt.Sprintf("%s, yet Parse succeeded and processed %s (%s)", v.conflict, names(s, o.Final), where)}
		}
		if !strings.Contains(o.Err, "imported as different") {
			return &failure{"unexpected-error", fmt.Sprintf("%s; Parse failed with another error (%s): %s", v.conflict, where, strings.ReplaceAll(o.Err, "\n", " "))}
		}
		// nothing is cancelled: every file of the closure was still fetched, once
		cnt := map[int]int{}
		for _, f := range o.Reads {
			cnt[f]++
			if cnt[f] == 2 {
				return &failure{"double-read", fmt.Sprintf("%s was fetched twice (%s)", s.path(f), where)}
			}
		}
		return nil
	}
	if o.Err != "" {
		return &failure{"unexpected-error", fmt.Sprintf("Parse failed on healthy files (%s): %s", where, strings.ReplaceAll(o.Err, "\n", " "))}
	}
	if len(o.Unknown) > 0 {
		return &failure{"wrong-path", fmt.Sprintf("the reader was asked for %q, which no import statement resolves to (%s)", o.Unknown, where)}
	}
	first := map[int]int{}
	for k, f := range o.Reads {
		if j, seen := first[f]; seen {
			if k < len(o.Asked) && o.Asked[j] != o.Asked[k] {
				// one file under two names: the claim is keyed by a spelling, not by the file
				return &failure{"double-read:two-spellings", fmt.Sprintf("%s was fetched twice, as %q and as %q: two spellings of one file were claimed separately (%s)", s.path(f), o.Asked[j], o.Asked[k], where)}
			}
			return &failure{"double-read", fmt.Sprintf("%s was fetched twice (%s)", s.path(f), where)}
		}
		first[f] = k
	}
	// what was read is what was processed
	rs := append([]int{}, o.Reads...)
	fs := append([]int{}, o.Final...)
	sort.Ints(rs)
	sort.Ints(fs)
	if !eqInts(rs, fs) {
		return &failure{"read-vs-processed", fmt.Sprintf("files fetched %s differ from files processed %s (%s)", names(s, rs), names(s, fs), where)}
	}
	if eqInts(o.Final, v.spec) && !o.Full {
		return nil
	}
	// the compiled module: one app per processed file + Common, merged in the processed order
	want := []string{}
	for _, f := range fs {
		if f >= 0 {
			want = append(want, fmt.Sprintf("A%d", f))
		}
	}
	want = append(want, "Common")
	sort.Strings(want)
	if o.Full && strings.Join(want, ",") != strings.Join(o.Apps, ",") {
		return &failure{"module-apps", fmt.Sprintf("compiled module has apps %v, the processed files define %v (%s)", o.Apps, want, where)}
	}
	if o.Full && !eqInts(o.Merge, o.Final) {
		return &failure{"module-merge-order", fmt.Sprintf("files were merged in the order %s but listed as %s (%s)", names(s, o.Merge), names(s, o.Final), where)}
	}
	if eqInts(o.Final, v.spec) {
		return nil
	}
	if why := sameTextMissing(s, v, o.Final); why != "" {
		return &failure{"same-text:target-missing", why + " (" + where + ")"}
	}
	if s.Max > 0 && v.multiDepth && !v.sure {
		if why := partialOK(s, o.Final); why != "" {
			return &failure{"depth-limit:" + why, fmt.Sprintf("processed %s; not even a depth-first prefix-closed part of the files nearer than the limit %s (%s)", names(s, o.Final), names(s, v.spec), where)}
		}
		return &failure{"depth-limit-schedule", fmt.Sprintf("processed %s where the files nearer than the limit are %s: a file first claimed through a longer path keeps that depth (%s)", names(s, o.Final), names(s, v.spec), where)}
	}
	if g2, any := s.graphNoTab(); any && s.Max == 0 && eqInts(o.Final, preorder(g2, func(int) bool { return true })) {
		return &failure{"import-tab-separator", fmt.Sprintf("processed %s, the closure is %s: an import statement written with a TAB after the keyword is accepted by the grammar but not followed (%s)", names(s, o.Final), names(s, v.spec), where)}
	}
	return &failure{"closure:" + classify(v.spec, o.Final), fmt.Sprintf("processed %s, the import closure in textual depth-first order is %s (%s)", names(s, o.Final), names(s, v.spec), where)}
}

// ---------------------------------------------------------------- generators

func dirsFor(r *common.Rng, n int, flat bool) [][]string {
	pool := [][]string{{}, {}, {"d"}, {"d", "e"}, {"k"}}
	ds := make([][]string, n)
	for i := range ds {
		if flat || i == 0 && r.Chance(2, 3) {
			ds[i] = []string{}
		} else {
			ds[i] = pool[r.Intn(len(pool))]
		}
	}
	return ds
}

func kind(r *common.Rng) int {
	if r.Chance(1, 2) {
		return 0
	}
	return r.Intn(nKinds)
}

func genRandom(r *common.Rng, maxN int) *Spec {
	n := 1 + r.Intn(maxN)
	s := &Spec{Dirs: dirsFor(r, n, r.Chance(1, 3)), Imps: make([][]Imp, n)}
	back := r.Intn(4) // how often an import may point backwards (cycles)
	for i := 0; i < n; i++ {
		k := r.Intn(4)
		if r.Chance(1, 8) {
			k = 0
		}
		for j := 0; j < k; j++ {
			var to int
			switch {
			case r.Intn(10) < back:
				to = r.Intn(i + 1) // back edge or self-import
			case i+1 < n:
				to = i + 1 + r.Intn(n-i-1)
			default:
				to = r.Intn(n)
			}
			s.Imps[i] = append(s.Imps[i], Imp{to, kind(r), "", nil, 0, ""})
		}
		if r.Chance(1, 10) && len(s.Imps[i]) > 0 { // the same file imported twice by one parent, spelled differently
			s.Imps[i] = append(s.Imps[i], Imp{s.Imps[i][0].To, kind(r), "", nil, 0, ""})
		}
	}
	if r.Chance(1, 2) {
		s.Max = r.Intn(n + 2)
	}
	return decorate(r, s)
}

// decorate: sometimes move an import-closed part of the graph into a remote repository (imports of those
// files are then spelled //host/org/repo/path[.sysl][@version], all versions naming "the default" so that
// the different-version check stays silent), sometimes name the root with backslashes.
func decorate(r *common.Rng, s *Spec) *Spec {
	n := s.n()
	if n > 1 && r.Chance(1, 4) {
		f := 1 + r.Intn(n-1)
		g := s.graph()
		in := map[int]bool{}
		var rec func(int)
		rec = func(x int) {
			if in[x] {
				return
			}
			in[x] = true
			for _, k := range g[x] {
				rec(k)
			}
		}
		rec(f)
		if !in[0] {
			s.Remote = make([]bool, n)
			for x := range in {
				s.Remote[x] = true
			}
			vers := []string{"", "", "master", "main", "develop"}
			for i := range s.Imps {
				for j := range s.Imps[i] {
					if s.Remote[s.Imps[i][j].To] {
						s.Imps[i][j].Ver = vers[r.Intn(len(vers))]
					}
				}
			}
		}
	}
	if len(s.Dirs[0]) > 0 && r.Chance(1, 3) {
		s.BsRoot = true
	}
	return layout(r, s)
}

// layout: the import section of half of the inputs is untidy - blank, white-space-only and comment lines
// (column 0 and indented) before / between / after the import lines, trailing spaces, trailing comments,
// a mode suffix, two spaces after the keyword, CRLF line ends
func layout(r *common.Rng, s *Spec) *Spec {
	if r.Chance(1, 2) {
		return s
	}
	n := s.n()
	s.Tail = make([][]int, n)
	s.CRLF = make([]bool, n)
	for i := 0; i < n; i++ {
		for j := range s.Imps[i] {
			if r.Chance(1, 2) {
				for k := 1 + r.Intn(2); k > 0; k-- {
					s.Imps[i][j].Lay = append(s.Imps[i][j].Lay, r.Intn(nLay))
				}
			}
			if r.Chance(1, 3) {
				s.Imps[i][j].Suf = 1 + r.Intn(5)
			}
		}
		if r.Chance(1, 3) {
			s.Tail[i] = []int{r.Intn(nLay)}
		}
		s.CRLF[i] = r.Chance(1, 6)
	}
	return s
}

// diamonds in which a node lists the shared file BEFORE a sibling nobody else imports (and after it), both
// textual orders of the two parents: with a stored import list that is filtered in place the merge order
// would depend on which parent's read completes first
func genDiamond(r *common.Rng, variant int) *Spec {
	// 0 root, 1 p, 2 q, 3 x (shared), 4 c (only under p), 5 e (only under q), 6 y (under x)
	s := &Spec{Dirs: make([][]string, 7), Imps: make([][]Imp, 7)}
	for i := range s.Dirs {
		s.Dirs[i] = []string{}
	}
	im := func(to int) Imp { return Imp{to, 0, "", nil, 0, ""} }
	if variant&1 == 0 {
		s.Imps[0] = []Imp{im(1), im(2)}
	} else {
		s.Imps[0] = []Imp{im(2), im(1)}
	}
	if variant&2 == 0 {
		s.Imps[1] = []Imp{im(3), im(4)}
	} else {
		s.Imps[1] = []Imp{im(4), im(3)}
	}
	if variant&4 == 0 {
		s.Imps[2] = []Imp{im(3), im(5)}
	} else {
		s.Imps[2] = []Imp{im(5), im(3)}
	}
	s.Imps[3] = []Imp{im(6), im(0)}
	if r.Chance(1, 2) {
		return layout(r, s)
	}
	return s
}

// two paths of unequal length to one file that has a tail, under a limit that the longer path exhausts
func genUnequal(r *common.Rng) *Spec {
	short := 1 + r.Intn(2) // intermediate files on the short path
	long := short + 1 + r.Intn(2)
	tail := 1 + r.Intn(3)
	n := 1 + short + long + 1 + tail
	s := &Spec{Dirs: dirsFor(r, n, r.Chance(1, 2)), Imps: make([][]Imp, n)}
	id := 1
	chain := func(k int) (first, last int) {
		first = id
		for j := 0; j < k; j++ {
			if j > 0 {
				s.Imps[id-1] = append(s.Imps[id-1], Imp{id, kind(r), "", nil, 0, ""})
			}
			id++
		}
		return first, id - 1
	}
	sf, sl := chain(short)
	lf, ll := chain(long)
	x := id
	id++
	tf, _ := chain(tail)
	if r.Bool() {
		s.Imps[0] = []Imp{{sf, kind(r), "", nil, 0, ""}, {lf, kind(r), "", nil, 0, ""}}
	} else {
		s.Imps[0] = []Imp{{lf, kind(r), "", nil, 0, ""}, {sf, kind(r), "", nil, 0, ""}}
	}
	s.Imps[sl] = append(s.Imps[sl], Imp{x, kind(r), "", nil, 0, ""})
	s.Imps[ll] = append(s.Imps[ll], Imp{x, kind(r), "", nil, 0, ""})
	s.Imps[x] = append(s.Imps[x], Imp{tf, kind(r), "", nil, 0, ""})
	// x is at depth short+1 / long+1; the tail's first file at short+2
	s.Max = long + 2 + r.Intn(tail)
	if r.Chance(1, 4) {
		s.Max = 0
	}
	return decorate(r, s)
}

// every file at one depth only: trees and layered DAGs, with a limit
func genLayered(r *common.Rng) *Spec {
	layers := 2 + r.Intn(3)
	var lay [][]int
	n := 1
	lay = append(lay, []int{0})
	for l := 1; l < layers; l++ {
		w := 1 + r.Intn(3)
		var ids []int
		for j := 0; j < w; j++ {
			ids = append(ids, n)
			n++
		}
		lay = append(lay, ids)
	}
	s := &Spec{Dirs: dirsFor(r, n, r.Chance(1, 2)), Imps: make([][]Imp, n)}
	for l := 0; l+1 < layers; l++ {
		for _, f := range lay[l] {
			for _, k := range lay[l+1] {
				if r.Chance(2, 3) {
					s.Imps[f] = append(s.Imps[f], Imp{k, kind(r), "", nil, 0, ""})
				}
			}
		}
		// every file of the next layer has at least one parent
		for _, k := range lay[l+1] {
			f := lay[l][r.Intn(len(lay[l]))]
			s.Imps[f] = append(s.Imps[f], Imp{k, kind(r), "", nil, 0, ""})
		}
	}
	s.Max = r.Intn(layers + 2)
	return decorate(r, s)
}

// all digraphs over n files (adjacency as a bit mask), imports in ascending or descending order
func genMask(n int, mask uint64, desc bool, max int) *Spec {
	s := &Spec{Dirs: make([][]string, n), Imps: make([][]Imp, n), Max: max}
	for i := 0; i < n; i++ {
		s.Dirs[i] = []string{}
		for j := 0; j < n; j++ {
			if mask&(1<<uint(i*n+j)) != 0 {
				s.Imps[i] = append(s.Imps[i], Imp{j, 0, "", nil, 0, ""})
			}
		}
		if desc {
			for a, b := 0, len(s.Imps[i])-1; a < b; a, b = a+1, b-1 {
				s.Imps[i][a], s.Imps[i][b] = s.Imps[i][b], s.Imps[i][a]
			}
		}
	}
	return s
}

// ---------------------------------------------------------------- Gallina

func gInts(l []int) string {
	it := make([]string, len(l))
	for i, x := range l {
		it[i] = fmt.Sprint(x)
	}
	return "[" + strings.Join(it, ";") + "]"
}
func gGraph(s *Spec) string {
	g := s.graph()
	it := make([]string, len(g))
	for i, l := range g {
		it[i] = fmt.Sprintf("(%d,%s)", i, gInts(l))
	}
	return "[" + strings.Join(it, ";") + "]"
}
func representable(o Obs) bool {
	if o.Hang || o.Early || o.Err != "" || o.Crash != "" || o.Skipped {
		return false
	}
	for _, f := range o.Final {
		if f < 0 {
			return false
		}
	}
	return true
}
func gLock(s *Spec, o Obs) string {
	tr := make([]string, len(o.Trace))
	for i, st := range o.Trace {
		tr[i] = fmt.Sprintf("(%d,%s)", st.Released, gInts(st.Blocked))
	}
	return fmt.Sprintf("Lock %s %d%%nat 0 %s [%s] %s", gGraph(s), s.Max, gInts(o.B0), strings.Join(tr, ";"), gInts(o.Final))
}
func gTrace(o Obs) string {
	tr := make([]string, len(o.Trace))
	for i, st := range o.Trace {
		tr[i] = fmt.Sprintf("(%d,%s)", st.Released, gInts(st.Blocked))
	}
	return "[" + strings.Join(tr, ";") + "]"
}

// the key of a file: its path from the project root (slashes), //host/org/repo/path for a remote file
func (s *Spec) key(i int) string { return strings.ReplaceAll(s.path(i), "\\", "/") }

func gNLock(s *Spec, o Obs) string {
	files := make([]string, s.n())
	for i := 0; i < s.n(); i++ {
		var raws []string
		for _, im := range s.Imps[i] {
			raws = append(raws, common.GString(s.spell(i, im.To, im.Kind, im.Ver)))
		}
		files[i] = fmt.Sprintf("(%s,[%s])", common.GString(s.key(i)), strings.Join(raws, ";"))
	}
	asked := make([]string, len(o.Reads))
	for i := range o.Reads {
		asked[i] = fmt.Sprintf("(%d,%s,%s)", o.Reads[i], common.GString(o.Asked[i]), common.GString(o.Vers[i]))
	}
	return fmt.Sprintf("NLock [%s] %s %d%%nat %s %s %s [%s]", strings.Join(files, ";"), common.GString(s.resource()), s.Max,
		gInts(o.B0), gTrace(o), gInts(o.Final), strings.Join(asked, ";"))
}

func gNErr(s *Spec, o Obs) string {
	files := make([]string, s.n())
	for i := 0; i < s.n(); i++ {
		var raws []string
		for _, im := range s.Imps[i] {
			raws = append(raws, fmt.Sprintf("(%s,%s)", common.GString(s.spell(i, im.To, im.Kind, im.Ver)), common.GString(im.As)))
		}
		files[i] = fmt.Sprintf("(%s,[%s])", common.GString(s.key(i)), strings.Join(raws, ";"))
	}
	asked := make([]string, len(o.Reads))
	for i := range o.Reads {
		asked[i] = fmt.Sprintf("(%d,%s,%s)", o.Reads[i], common.GString(o.Asked[i]), common.GString(o.Vers[i]))
	}
	return fmt.Sprintf("NErr [%s] %s %s %s %s [%s] %s", strings.Join(files, ";"), common.GString(s.resource()), gBool(s.NoCheck),
		gInts(o.B0), gTrace(o), strings.Join(asked, ";"), gBool(strings.Contains(o.Err, "imported as different")))
}

func gFree(s *Spec, o Obs) string {
	return fmt.Sprintf("Free %s %d%%nat 0 %s", gGraph(s), s.Max, gInts(o.Final))
}

// ---------------------------------------------------------------- main

// rec: what one input contributes to the result (failures, counts, histogram, Gallina cases), recorded while the
// inputs run in parallel on several worker processes and written to the result in the order of the inputs
type rec struct {
	Rng *common.Rng
	ops []func(c *common.Ctx, cs *common.Cases)
}

func (r *rec) Fail(key, what string, rp interface{}) {
	r.ops = append(r.ops, func(c *common.Ctx, _ *common.Cases) { c.Fail(key, what, rp) })
}
func (r *rec) Count(key string, nt bool) {
	r.ops = append(r.ops, func(c *common.Ctx, _ *common.Cases) { c.Count(key, nt) })
}
func (r *rec) Hist(k string) { r.ops = append(r.ops, func(c *common.Ctx, _ *common.Cases) { c.Hist(k) }) }
func (r *rec) HistN(k string, n int) {
	r.ops = append(r.ops, func(c *common.Ctx, _ *common.Cases) { c.HistN(k, n) })
}
func (r *rec) Sample(x interface{}) {
	r.ops = append(r.ops, func(c *common.Ctx, _ *common.Cases) { c.Sample(x) })
}
func (r *rec) Add(term string, input interface{}) {
	r.ops = append(r.ops, func(_ *common.Ctx, cs *common.Cases) { cs.Add(term, input) })
}

type runner struct {
	c     *rec
	cs    *rec
	w     *common.Worker
	plain bool // cases without names (the exhaustive digraph stream: flat directory, one spelling)
}

// runAll: the inputs (each with its own random stream, forked in order) on `par` worker processes
func runAll(c *common.Ctx, cs *common.Cases, tasks []func(r *runner), par int) {
	recs := make([]*rec, len(tasks))
	for i := range tasks {
		recs[i] = &rec{Rng: c.Rng.Fork()}
	}
	var next int32 = -1
	var wg sync.WaitGroup
	for k := 0; k < par; k++ {
		wg.Add(1)
		go func() {
			defer wg.Done()
			w := common.NewWorker()
			defer w.Close()
			for {
				i := int(atomic.AddInt32(&next, 1))
				if i >= len(tasks) {
					return
				}
				tasks[i](&runner{c: recs[i], cs: recs[i], w: w})
			}
		}()
	}
	wg.Wait()
	for _, rc := range recs {
		for _, op := range rc.ops {
			op(c, cs)
		}
	}
}

func releasesOf(o Obs) []int {
	var r []int
	for _, st := range o.Trace {
		r = append(r, st.Released)
	}
	return r
}

func sig(s *Spec) string {
	b, _ := json.Marshal(s)
	return string(b)
}

// chooser from an explicit release list (replay / enumeration): follow the list while it names a
// blocked file, then the oldest blocked read
func listChooser(rel []int) func([]int, int) int {
	return func(blocked []int, step int) int {
		if step < len(rel) {
			for _, b := range blocked {
				if b == rel[step] {
					return b
				}
			}
		}
		return blocked[0]
	}
}

func (r *runner) lock(s *Spec, v verdict, full bool, ch Chooser, label string) (Obs, bool) {
	o := r.runJob(Job{Spec: *s, Mode: "lock", Full: full, Ch: ch})
	if o.Skipped {
		r.c.Hist("skipped-after-crashes")
		return o, true
	}
	rel := releasesOf(o)
	rp := mkReplay(s, "lock", rel, nil, 0)
	ok := judge(r.c, s, v, o, rp)
	r.c.Count(sig(s)+"|"+gInts(rel), v.shared || v.cuts)
	r.c.Hist("lock:" + label)
	if v.tagged && s.Max == 0 {
		if !o.Hang && !o.Early && o.Crash == "" && !o.Skipped && len(o.Asked) == len(o.Reads) {
			r.cs.Add(gNErr(s, o), rp)
			r.c.Hist("coq:version-level-case")
		} else {
			r.c.Hist("not-sent-to-coq")
		}
	} else if representable(o) && r.plain {
		r.cs.Add(gLock(s, o), rp)
	} else if representable(o) && len(o.Asked) == len(o.Reads) {
		r.cs.Add(gNLock(s, o), rp)
		r.c.Hist("coq:name-level-case")
	} else {
		r.c.Hist("not-sent-to-coq")
	}
	return o, ok
}

func (r *runner) free(s *Spec, v verdict) (Obs, bool) {
	delays := make([]int, s.n())
	for i := range delays {
		delays[i] = r.c.Rng.Intn(4) * r.c.Rng.Intn(120)
	}
	procs := []int{1, 2, 4, 16}[r.c.Rng.Intn(4)]
	o := r.runJob(Job{Spec: *s, Mode: "free", Full: true, Delays: delays, Procs: procs})
	if o.Skipped {
		r.c.Hist("skipped-after-crashes")
		return o, true
	}
	rp := mkReplay(s, "free", nil, delays, procs)
	ok := judge(r.c, s, v, o, rp)
	r.c.Count(sig(s)+"|free|"+gInts(delays)+fmt.Sprint(procs), v.shared || v.cuts)
	r.c.Hist("free")
	// the final order is schedule independent (by the theorems) without a limit or with every file at one depth
	if representable(o) && !v.tagged && (s.Max == 0 || !v.multiDepth || v.sure) {
		r.cs.Add(gFree(s, o), rp)
	}
	return o, ok
}

func (r *runner) histSpec(s *Spec, v verdict) {
	c := r.c
	c.Hist(fmt.Sprintf("files:%d", s.n()))
	if s.Max == 0 {
		c.Hist("limit:none")
	} else {
		c.Hist("limit:set")
	}
	if v.shared {
		c.Hist("graph:shared-file(diamond/cycle/self/repeat)")
	}
	if v.cuts {
		c.Hist("graph:limit-cuts")
	}
	if v.multiDepth {
		c.Hist("graph:file-at-two-depths-under-limit")
		if v.sure {
			c.Hist("graph:file-at-two-depths-under-limit-but-every-file-sure")
		}
	}
	if len(s.Names) > 0 {
		c.Hist("names:shared-base-names")
	}
	if s.RootAs > 0 {
		c.Hist(fmt.Sprintf("names:root-given-as:%d", s.RootAs))
	}
	if v.tagged {
		c.Hist("versions:tagged-imports")
		if v.conflict != "" {
			c.Hist("versions:conflict")
		}
		if s.NoCheck {
			c.Hist("versions:check-off")
		}
	}
	if sameTextPairs(s) > 0 {
		c.Hist("names:same-import-text-different-targets")
	}
	for i := range s.Dirs {
		if looksRemoteLocal(s, i) {
			c.Hist("names:local-file-with-url-like-path")
		}
		for _, d := range s.Dirs[i] {
			if strings.HasPrefix(d, ".") {
				c.Hist("names:dot-directory")
			}
		}
	}
	if s.BsRoot {
		c.Hist("spelling:backslash-root")
	}
	for i := range s.CRLF {
		if s.CRLF[i] {
			c.Hist("layout:crlf-file")
		}
	}
	for i := range s.Tail {
		for _, k := range s.Tail[i] {
			c.Hist(fmt.Sprintf("layout:line-after-imports:%d", k))
		}
	}
	for _, l := range s.Imps {
		for j, im := range l {
			for _, k := range im.Lay {
				if j == 0 {
					c.Hist(fmt.Sprintf("layout:line-before-first-import:%d", k))
				} else {
					c.Hist(fmt.Sprintf("layout:line-between-imports:%d", k))
				}
			}
			if im.Suf > 0 {
				c.Hist(fmt.Sprintf("layout:suffix:%d", im.Suf))
			}
		}
	}
	for i, l := range s.Imps {
		for _, im := range l {
			if s.remote(im.To) && (!s.remote(i) || im.Kind == 5) {
				c.Hist("spelling:remote@" + im.Ver)
				continue
			}
			c.Hist(fmt.Sprintf("spelling:%d", im.Kind))
			if im.To == i {
				c.Hist("graph:self-import")
			}
		}
	}
}

// a handful of schedules per input
func (r *runner) schedules(s *Spec, nRandom int) {
	v := analyse(s)
	r.histSpec(s, v)
	var results [][]int
	note := func(o Obs) {
		if representable(o) {
			results = append(results, o.Final)
		}
	}
	o, _ := r.lock(s, v, true, Chooser{Kind: "oldest"}, "oldest-first")
	note(o)
	if len(o.Trace) > 1 {
		o, _ = r.lock(s, v, false, Chooser{Kind: "newest"}, "newest-first")
		note(o)
		o, _ = r.lock(s, v, false, Chooser{Kind: "highest"}, "highest-id-first")
		note(o)
		for k := 0; k < nRandom; k++ {
			o, _ = r.lock(s, v, k == 0, Chooser{Kind: "random", Seed: r.c.Rng.Uint64()}, "random")
			note(o)
		}
	}
	o, _ = r.free(s, v)
	note(o)
	// identical under every schedule tried
	for i, res := range results {
		if i == 0 {
			continue
		}
		if !eqInts(res, results[0]) && !(s.Max > 0 && v.multiDepth && !v.sure) {
			r.c.Fail("schedule-dependent", fmt.Sprintf("two completion orders of the reads give %s and %s", names(s, results[0]), names(s, res)), mkReplay(s, "lock", nil, nil, 0))
			break
		}
	}
}

// every completion order (stateless enumeration of the choice tree)
func (r *runner) allSchedules(s *Spec, limit int) int {
	v := analyse(s)
	r.histSpec(s, v)
	var prefix []int // index chosen at each step
	count := 0
	var first []int
	for {
		o, _ := r.lock(s, v, count%6 == 0, Chooser{Kind: "prefix", List: append([]int{}, prefix...)}, "enumerated")
		widths := o.Widths
		count++
		if representable(o) {
			if first == nil {
				first = o.Final
			} else if !eqInts(first, o.Final) && !(s.Max > 0 && v.multiDepth && !v.sure) {
				r.c.Fail("schedule-dependent", fmt.Sprintf("two completion orders of the reads give %s and %s", names(s, first), names(s, o.Final)), mkReplay(s, "lock", releasesOf(o), nil, 0))
			}
		}
		// next prefix in the odometer order
		for len(prefix) < len(widths) {
			prefix = append(prefix, 0)
		}
		i := len(widths) - 1
		for i >= 0 {
			if prefix[i]+1 < widths[i] {
				prefix[i]++
				prefix = prefix[:i+1]
				break
			}
			i--
		}
		if i < 0 || count >= limit {
			break
		}
	}
	r.c.HistN("enumerated-schedules", count)
	return count
}

func main() {
	logrus.SetOutput(io.Discard)
	if common.IsWorker() {
		debug.SetMaxStack(64 << 20) // a runaway recursion ends quickly
		common.ServeWorker(serve)
		return
	}
	c := common.Setup("C05")
	defer c.Finish()
	defer func() {
		c.Res.Extra["hangs_not_reproduced_on_retry"] = hangsNotReproduced
		if hangsNotReproduced > 0 {
			c.Res.Notes = append(c.Res.Notes, fmt.Sprintf("%d run(s) exceeded the 10 s deadline once and completed normally when repeated with 30 s (machine load); they are judged on the repeated run", hangsNotReproduced))
		}
	}()
	c.Res.Rule = "each case = (import graph with directories, base names and import spellings, --max-import-depth, one completion order of the file reads driven through the real parse.Parser.Parse by a gate reader, or one free run with per-file read delays), or a history Set / Parse / Set / Parse ... on one parser value (each Parse driven in lock-step); distinct = distinct (input, release order); non-trivial = some file is reached by more than one import (diamond, cycle, self-import, repeated import) or the depth limit excludes a reachable file, for a history: the depth limit changes between two of its Parse calls"
	header := `From Coq Require Import String List NArith Bool. Import ListNotations.
Require Import Verif.Base.Harness Verif.Imports.Rules Verif.Imports.Collect Verif.Imports.Run Verif.Gen.ImportRules Verif.Gen.NameRules.
Local Open Scope N_scope. Local Open Scope string_scope.
Definition T := true. Definition F := false.`
	footer := `Definition M := Eval vm_compute in mismatches (c05_ok_with current_rules current_name_rules) cases. Print M.`
	cases := c.NewCases("C05", header, "c05_case", footer, 160)
	defer cases.Close()
	var tasks []func(r *runner)
	add := func(f func(r *runner)) { tasks = append(tasks, f) }
	all := func(s *Spec, limit int) { add(func(r *runner) { r.allSchedules(s, limit) }) }

	if c.Replay != "" {
		var rp Replay
		if err := common.LoadReplay(c.Replay, &rp); err != nil {
			fmt.Fprintln(os.Stderr, err)
			os.Exit(3)
		}
		s := &rp.Spec
		v := analyse(s)
		var o Obs
		add(func(r *runner) {
			switch {
			case rp.Mode == "hist":
				r.history(rp.Hist, "replay")
			case rp.Mode == "free":
				o = r.runJob(Job{Spec: *s, Mode: "free", Full: true, Delays: rp.Delays, Procs: rp.Procs})
				judge(r.c, s, v, o, rp)
				r.c.Count(sig(s), true)
			case rp.Releases == nil:
				r.schedules(s, 6)
			default:
				o = r.runJob(Job{Spec: *s, Mode: "lock", Full: true, Ch: Chooser{Kind: "list", List: rp.Releases}})
				judge(r.c, s, v, o, rp)
				r.c.Count(sig(s), true)
			}
		})
		runAll(c, cases, tasks, 1)
		if rp.Mode == "hist" {
			fmt.Printf("replay: history of %d Parse calls on one parser\n  failures=%d\n", len(rp.Hist), len(c.Res.Failures))
		} else {
			fmt.Printf("replay: files=%d max=%d mode=%s releases=%v\n  processed=%s\n  closure  =%s\n  failures=%d\n", s.n(), s.Max, rp.Mode, rp.Releases, names(s, o.Final), names(s, v.spec), len(c.Res.Failures))
		}
		for _, f := range c.Res.Failures {
			fmt.Println("  " + f.Key + ": " + f.What)
		}
		return
	}

	// 0. the regression corpus: the depth-limit witness of the design round, and small hand shapes
	witness := &Spec{Dirs: [][]string{{}, {}, {}, {}, {}, {}}, Max: 4,
		Imps: [][]Imp{{{1, 0, "", nil, 0, ""}, {2, 0, "", nil, 0, ""}}, {{4, 0, "", nil, 0, ""}}, {{3, 0, "", nil, 0, ""}}, {{4, 0, "", nil, 0, ""}}, {{5, 0, "", nil, 0, ""}}, {}}}
	all(witness, 200)
	wu := *witness
	wu.Max = 0
	all(&wu, 200)
	// the same graph under the limit 5: the shared file lies at two depths, yet every file is sure (DepthProps.witness_sure_at_5)
	w5 := *witness
	w5.Max = 5
	all(&w5, 200)
	// remote-style versioned spellings of one file, and a backslash-named root that is imported back
	remoteDiamond := &Spec{Dirs: [][]string{{}, {}, {"d"}, {"k"}}, Remote: []bool{false, false, true, true},
		Imps: [][]Imp{{{1, 0, "", nil, 0, ""}, {2, 0, "master", nil, 0, ""}, {2, 1, "", nil, 0, ""}}, {{2, 1, "main", nil, 0, ""}, {3, 0, "develop", nil, 0, ""}}, {{3, 0, "", nil, 0, ""}, {2, 2, "", nil, 0, ""}}, {{2, 3, "", nil, 0, ""}, {3, 5, "master", nil, 0, ""}}}}
	all(remoteDiamond, 200)
	bsRoot := &Spec{Dirs: [][]string{{"d"}, {"d"}, {}}, BsRoot: true,
		Imps: [][]Imp{{{1, 2, "", nil, 0, ""}, {2, 3, "", nil, 0, ""}}, {{0, 0, "", nil, 0, ""}, {2, 0, "", nil, 0, ""}}, {{0, 2, "", nil, 0, ""}}}}
	all(bsRoot, 200)
	// untidy import sections: every kind of layout line before the first and between import lines, every suffix
	untidy := &Spec{Dirs: [][]string{{}, {}, {}, {}, {}}, CRLF: []bool{false, true, false, false, false}, Tail: [][]int{{4}, {1}, nil, nil, nil},
		Imps: [][]Imp{{{1, 0, "", []int{1}, 1, ""}, {2, 0, "", []int{4}, 2, ""}, {3, 1, "", []int{0, 2}, 3, ""}},
			{{4, 0, "", []int{3}, 4, ""}, {3, 0, "", []int{5, 1}, 0, ""}}, {{4, 2, "", []int{2}, 1, ""}, {0, 0, "", []int{4, 4}, 0, ""}}, {{4, 0, "", []int{0}, 0, ""}}, nil}}
	all(untidy, 40)
	// an import statement with a TAB after the keyword (fixes/C05-1; without it the oracle reports import-tab-separator)
	tabSep := &Spec{Dirs: [][]string{{}, {}, {}}, Imps: [][]Imp{{{1, 0, "", nil, 5, ""}, {2, 0, "", nil, 0, ""}}, nil, nil}}
	all(tabSep, 10)
	for v := 0; v < 8; v++ {
		v := v
		add(func(r *runner) {
			d := genDiamond(r.c.Rng, v)
			r.allSchedules(d, 8)
			r.schedules(d, 2)
		})
	}
	diamondCycle := &Spec{Dirs: [][]string{{}, {"d"}, {"d", "e"}, {"k"}}, Max: 0,
		Imps: [][]Imp{{{1, 0, "", nil, 0, ""}, {2, 2, "", nil, 0, ""}, {0, 0, "", nil, 0, ""}}, {{3, 1, "", nil, 0, ""}, {1, 4, "", nil, 0, ""}}, {{3, 3, "", nil, 0, ""}, {0, 2, "", nil, 0, ""}}, {{1, 5, "", nil, 0, ""}, {3, 0, "", nil, 0, ""}}}}
	all(diamondCycle, 200)

	// the same import text with two meanings (two directories; a local and a remote file; a local directory that
	// looks like a repository; dot names), the root under another spelling: every completion order
	for v := 0; v < nSameText; v++ {
		st := genSameText(v)
		all(st, 60)
		if v < 3 {
			lim := *st
			lim.Max = 2 + v%2
			all(&lim, 30)
		}
	}

	nRand, nUnequal, nLayered, nSched, maxN := 60, 20, 20, 3, 8
	nNamed, nHist, nTagged := 40, 40, 30
	if c.Thorough() {
		nRand, nUnequal, nLayered, nSched, maxN = 900, 300, 300, 5, 10
		nNamed, nHist, nTagged = 600, 500, 400
	}
	if c.Search {
		nRand, nUnequal, nLayered, nSched = nRand*4, nUnequal*3, nLayered*3, nSched+3
		nNamed, nHist, nTagged = nNamed*3, nHist*3, nTagged*3
	}
	// versions and app names: consistent and conflicting imports of one file, every completion order
	for v := 0; v < nConflictCorpus; v++ {
		all(genConflictCorpus(v), 40)
	}
	for i := 0; i < nTagged; i++ {
		add(func(r *runner) {
			s := genTagged(r.c.Rng)
			if s.n() <= 5 && r.c.Rng.Chance(1, 2) {
				r.allSchedules(s, 40)
			} else {
				r.schedules(s, 2)
			}
		})
	}
	// histories on one parser value
	for i := 0; i < nHist; i++ {
		i := i
		add(func(r *runner) {
			steps, label := genHistory(r.c.Rng, i)
			r.history(steps, label)
		})
	}
	// names: random digraphs over directories with dots, url-like local paths, shared base names, ten spellings
	for i := 0; i < nNamed; i++ {
		add(func(r *runner) {
			s := genNamed(r.c.Rng, 7)
			if s.n() <= 4 && r.c.Rng.Chance(1, 3) {
				r.allSchedules(s, 60)
			} else {
				r.schedules(s, 2)
			}
		})
	}
	// 1. bounded-exhaustive: every digraph over 2 (quick) / 3 (thorough) files, both textual orders,
	//    every schedule, limits 0..n
	exN := 2
	if c.Thorough() || c.Search {
		exN = 3
	}
	for mask := uint64(0); mask < 1<<uint(exN*exN); mask++ {
		mask := mask
		add(func(r *runner) {
			r.plain = true
			for _, desc := range []bool{false, true} {
				for max := 0; max <= exN; max++ {
					if desc && max > 0 && max < exN {
						continue
					}
					r.allSchedules(genMask(exN, mask, desc, max), 64)
				}
			}
		})
	}
	c.Res.Extra["exhaustive_digraphs_files"] = exN
	// 2. random digraphs with cycles, self-imports, repeated imports, directories, spellings
	for i := 0; i < nRand; i++ {
		i := i
		add(func(r *runner) {
			s := genRandom(r.c.Rng, maxN)
			if s.n() <= 4 && r.c.Rng.Chance(1, 3) {
				r.allSchedules(s, 120)
			} else {
				r.schedules(s, nSched)
			}
			if i < 3 {
				r.c.Sample(map[string]interface{}{"max_import_depth": s.Max, "files": mkReplay(s, "", nil, nil, 0).Files})
			}
		})
	}
	// 3. unequal-length paths under a limit (Appendix B), and the same graphs without limit
	for i := 0; i < nUnequal; i++ {
		add(func(r *runner) {
			s := genUnequal(r.c.Rng)
			if s.n() <= 7 && r.c.Rng.Chance(1, 4) {
				r.allSchedules(s, 150)
			} else {
				r.schedules(s, nSched)
			}
		})
	}
	// 4. trees / layered DAGs with a limit: exactly the files nearer than the limit
	for i := 0; i < nLayered; i++ {
		add(func(r *runner) { r.schedules(genLayered(r.c.Rng), nSched) })
	}
	par := 8
	if runtime.NumCPU() < par {
		par = runtime.NumCPU()
	}
	runAll(c, cases, tasks, par)
	c.Res.Extra["parallel_workers"] = par
}
