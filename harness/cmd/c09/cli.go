// C09, the command line's own encoding paths: `sysl pb` (cmd/sysl/cmd_protobuf.go) has code of its own between the
// compiled model and the encoders of pkg/pbutil:
//
//	--mode json|textpb|pb  x  --compact (removeSourceContext over m.Apps by reflection, JSON only)
//	x  destination: stdout | -o FILE | --split-apps DIR (one file per application)
//	x  input: MODULE.sysl | compiled model on stdin | compiled model named as MODULE (.pb / .pb.json / .textpb)
//
// Every combination is driven through the real binary ($VERIF_SYSL_BIN) AND through the functions cmd_protobuf.go
// calls (pbutil.OutputSplitApplications and the stream / file writers), the bytes are decoded and compared with the
// compiled model.
//
// Oracle (model-independent): what comes back is proto.Equal to the model; for compact JSON: equal once every field
// of type sysl.SourceContext (by descriptor, not by name) is cleared on both sides - nothing else may be lost.
// Correspondence: CCli - the Go value tree of the model as reflection shows it and the tree of what the binary
// emitted, against the model of the stripper in Coq (Codec/StripCtx.v), for all six mode x compact combinations.
package main

import (
	"bytes"
	"context"
	"encoding/json"
	"fmt"
	"math"
	"os"
	"os/exec"
	"path"
	"path/filepath"
	"reflect"
	"sort"
	"strings"
	"sync"
	"time"

	"github.com/anz-bank/sysl/pkg/loader"
	"github.com/anz-bank/sysl/pkg/pbutil"
	"github.com/anz-bank/sysl/pkg/sysl"
	"github.com/sirupsen/logrus"
	"github.com/spf13/afero"
	"google.golang.org/protobuf/encoding/protojson"
	"google.golang.org/protobuf/encoding/prototext"
	"google.golang.org/protobuf/proto"
	"google.golang.org/protobuf/reflect/protoreflect"

	"verifharness/common"
)

// ------------------------------------------------------------------ "apart from source locations" (own implementation)
// clears every field whose type is the message sysl.SourceContext, singular or repeated, at any depth
func dropLocations(m protoreflect.Message) {
	m.Range(func(fd protoreflect.FieldDescriptor, v protoreflect.Value) bool {
		if fd.Message() != nil && fd.Message().FullName() == "sysl.SourceContext" {
			m.Clear(fd)
			return true
		}
		switch {
		case fd.IsMap():
			if fd.MapValue().Message() != nil {
				v.Map().Range(func(_ protoreflect.MapKey, mv protoreflect.Value) bool { dropLocations(mv.Message()); return true })
			}
		case fd.IsList():
			if fd.Message() != nil {
				for i := 0; i < v.List().Len(); i++ {
					dropLocations(v.List().Get(i).Message())
				}
			}
		case fd.Message() != nil:
			dropLocations(v.Message())
		}
		return true
	})
}

func withoutLocations(m proto.Message) proto.Message {
	c := proto.Clone(m)
	dropLocations(c.ProtoReflect())
	return c
}

func firstDiff(a, b proto.Message) string {
	var ds []diffItem
	diffMsg(nil, a.ProtoReflect(), b.ProtoReflect(), &ds)
	if len(ds) == 0 {
		return "?"
	}
	return strings.Join(ds[0].path, ".") + " (" + ds[0].kind + ")"
}

// ------------------------------------------------------------------ the Go value tree as reflection shows it (gval)
type gproj struct {
	ids   map[string]int
	names map[string]bool // identifiers used: t_<Type>, f_<Field> (defined in the case file header)
	nodes int
}

func (g *gproj) id(k string) int {
	if v, ok := g.ids[k]; ok {
		return v
	}
	v := len(g.ids) + 2
	g.ids[k] = v
	return v
}

func isZeroish(v reflect.Value) bool {
	switch v.Kind() {
	case reflect.Slice, reflect.Map:
		return v.Len() == 0
	case reflect.Ptr, reflect.Interface:
		return v.IsNil()
	}
	return v.IsZero()
}

func (g *gproj) val(v reflect.Value, viaIface bool) string {
	g.nodes++
	switch v.Kind() {
	case reflect.Ptr:
		if v.IsNil() {
			return "GNil"
		}
		return g.val(v.Elem(), viaIface)
	case reflect.Interface:
		if v.IsNil() {
			return "GNil"
		}
		return g.val(v.Elem(), true)
	case reflect.Struct:
		t := v.Type()
		var fs []string
		for i := 0; i < v.NumField(); i++ {
			ft := t.Field(i)
			if !ft.IsExported() || isZeroish(v.Field(i)) {
				continue
			}
			g.names["f_"+ft.Name] = true
			fs = append(fs, "(f_"+ft.Name+", "+g.val(v.Field(i), false)+")")
		}
		g.names["t_"+t.Name()] = true
		return "GStruct " + common.GBool(viaIface) + " t_" + t.Name() + " [" + strings.Join(fs, "; ") + "]"
	case reflect.Slice, reflect.Array:
		it := make([]string, v.Len())
		for i := range it {
			it[i] = g.val(v.Index(i), false)
		}
		return "GList [" + strings.Join(it, "; ") + "]"
	case reflect.Map:
		type kv struct {
			k string
			v reflect.Value
		}
		var kvs []kv
		for it := v.MapRange(); it.Next(); {
			kvs = append(kvs, kv{fmt.Sprintf("%v", it.Key().Interface()), it.Value()})
		}
		sort.Slice(kvs, func(i, j int) bool { return kvs[i].k < kvs[j].k })
		it := make([]string, len(kvs))
		for i, e := range kvs {
			it[i] = fmt.Sprintf("(%d, %s)", g.id("key\x00"+e.k), g.val(e.v, false))
		}
		return "GMap [" + strings.Join(it, "; ") + "]"
	case reflect.Float32, reflect.Float64:
		return fmt.Sprintf("GScalar %d", g.id(fmt.Sprintf("%s\x00%x", v.Type(), math.Float64bits(v.Float()))))
	}
	return fmt.Sprintf("GScalar %d", g.id(fmt.Sprintf("%s\x00%v", v.Type(), v.Interface())))
}

// ------------------------------------------------------------------ running the binary
type cliCombo struct {
	mode    string // json | textpb | pb
	compact bool
	dest    string // stdout | file | split
}

func (c cliCombo) String() string {
	s := c.mode
	if c.compact {
		s += "-compact"
	}
	return s + ":" + c.dest
}

var cliModes = []string{"json", "textpb", "pb"}
var cliDests = []string{"stdout", "file", "split"}
var modeExt = map[string]string{"json": ".pb.json", "textpb": ".textpb", "pb": ".pb"}
var splitFile = map[string]string{"json": "data.json", "textpb": "data.textpb", "pb": "data.pb"}

type cliOut struct {
	combo  cliCombo
	code   int
	stdout []byte
	stderr string
	dir    string // where -o / --split-apps wrote
	err    error
}

type cliInput struct {
	kind  string // sysl | stdin-pb | file-pb | file-pb.json | file-textpb
	files map[string]string
	root  string
	stdin []byte
}

func runBinary(bin, dir string, stdin []byte, args []string) (stdout []byte, stderr string, code int, err error) {
	ctx, cancel := context.WithTimeout(context.Background(), 120*time.Second)
	defer cancel()
	cmd := exec.CommandContext(ctx, bin, args...)
	cmd.Dir = dir
	if stdin != nil {
		cmd.Stdin = bytes.NewReader(stdin)
	}
	var so, se bytes.Buffer
	cmd.Stdout, cmd.Stderr = &so, &se
	err = cmd.Run()
	code = 0
	if ee, ok := err.(*exec.ExitError); ok {
		code, err = ee.ExitCode(), nil
	}
	return so.Bytes(), se.String(), code, err
}

var cliSem = make(chan struct{}, 8)

// all 18 combinations for one input, in parallel; dir holds the input files
func (rn *runner) runCombos(dir string, in cliInput, combos []cliCombo) []cliOut {
	outs := make([]cliOut, len(combos))
	var wg sync.WaitGroup
	for i, cb := range combos {
		wg.Add(1)
		go func(i int, cb cliCombo) {
			defer wg.Done()
			cliSem <- struct{}{}
			defer func() { <-cliSem }()
			od := filepath.Join(dir, fmt.Sprintf("o%d", i))
			os.MkdirAll(od, 0o755)
			args := []string{"--root", dir, "pb", "--mode", cb.mode}
			if cb.compact {
				args = append(args, "--compact")
			}
			switch cb.dest {
			case "file":
				args = append(args, "-o", filepath.Join(od, "out"+modeExt[cb.mode]))
			case "split":
				args = append(args, "--split-apps", filepath.Join(od, "split"))
			}
			if in.root != "" {
				args = append(args, in.root)
			}
			so, se, code, err := runBinary(rn.syslBin, dir, in.stdin, args)
			outs[i] = cliOut{combo: cb, code: code, stdout: so, stderr: se, dir: od, err: err}
		}(i, cb)
	}
	wg.Wait()
	return outs
}

func decodeModule(mode string, b []byte) (*sysl.Module, error) {
	m := &sysl.Module{}
	var err error
	switch mode {
	case "json":
		err = protojson.Unmarshal(b, m)
	case "textpb":
		err = prototext.Unmarshal(b, m)
	default:
		err = proto.Unmarshal(b, m)
	}
	return m, err
}

func decodeApp(mode string, b []byte) (*sysl.Application, error) {
	a := &sysl.Application{}
	var err error
	switch mode {
	case "json":
		err = protojson.Unmarshal(b, a)
	case "textpb":
		err = prototext.Unmarshal(b, a)
	default:
		err = proto.Unmarshal(b, a)
	}
	return a, err
}

// where --split-apps puts an application whose name is made of plain words (the documented layout:
// <base>/<part>/<part>/.../<file>); names with other characters are only required to get a file of their own
func splitPath(base string, a *sysl.Application, mode string) string {
	return path.Join(append(append([]string{base}, a.GetName().GetPart()...), splitFile[mode])...)
}

func plainName(a *sysl.Application) bool {
	if len(a.GetName().GetPart()) == 0 {
		return false
	}
	for _, p := range a.GetName().GetPart() {
		if p == "" {
			return false
		}
		for _, c := range p {
			if !(c >= 'a' && c <= 'z' || c >= 'A' && c <= 'Z' || c >= '0' && c <= '9' || c == '_' || c == ' ' && p[0] != ' ' && p[len(p)-1] != ' ') {
				return false
			}
		}
	}
	return true
}

// applications whose literal paths coincide
func splitCollisions(m *sysl.Module, mode string) map[string]bool {
	by := map[string][]string{}
	for k, a := range m.Apps {
		p := splitPath("base", a, mode)
		by[p] = append(by[p], k)
	}
	bad := map[string]bool{}
	for _, ks := range by {
		if len(ks) > 1 {
			for _, k := range ks {
				bad[k] = true
			}
		}
	}
	return bad
}

// judge one split directory: the files below the base, decoded one by one, are exactly the applications of the model
func (rn *runner) judgeSplit(fs afero.Fs, base string, m *sysl.Module, mode string, compact bool, rp replay, label, where string) {
	enc := mode
	if compact {
		enc += "-compact"
	}
	dropLocs := mode == "json" && compact && where == "binary"
	want := map[string]proto.Message{}
	for k, a := range m.Apps {
		if dropLocs {
			want[k] = withoutLocations(a)
		} else {
			want[k] = a
		}
	}
	matched := map[string]string{}
	var files []string
	afero.Walk(fs, base, func(p string, info os.FileInfo, err error) error {
		if err == nil && !info.IsDir() {
			files = append(files, filepath.ToSlash(p))
		}
		return nil
	})
	sort.Strings(files)
	for _, f := range files {
		b, _ := afero.ReadFile(fs, f)
		if path.Base(f) != splitFile[mode] {
			rn.failf("split:stray-file", rp, "%s: --split-apps (%s, %s) wrote %s", label, where, enc, f)
			continue
		}
		got, err := decodeApp(mode, b)
		if err != nil {
			rn.failf("split:"+mode+":decode-error", rp, "%s: --split-apps (%s, %s): %s (%d bytes) does not decode as an application: %v", label, where, enc, f, len(b), err)
			continue
		}
		if mode != "pb" && compact && bytes.ContainsRune(b, '\n') {
			rn.failf("cli:"+mode+"-compact:has-newline", rp, "%s: --split-apps (%s, %s): compact output in %s has a line break", label, where, enc, f)
		}
		var g proto.Message = got
		if dropLocs {
			g = withoutLocations(got)
		}
		found, isFound := "", false
		for k, a := range want {
			if _, taken := matched[k]; !taken && proto.Equal(g, a) {
				found, isFound = k, true
				break
			}
		}
		if !isFound {
			// not an application of the model: say how it differs from the one of that name, if any
			what := "no application of that name"
			for k, a := range m.Apps {
				if proto.Equal(a.GetName(), got.GetName()) {
					what = fmt.Sprintf("differs from application %q: %s", k, firstDiff(want[k], g))
				}
			}
			key := "split:" + mode + ":differs"
			if dropLocs {
				key = "cli:json-compact:non-location-lost"
			}
			rn.failf(key, rp, "%s: --split-apps (%s, %s): what %s holds is not an application of the model (%s)", label, where, enc, f, what)
			continue
		}
		matched[found] = f
		rn.c.Hist("split:" + where + ":" + enc)
	}
	coll := splitCollisions(m, mode)
	for k, a := range m.Apps {
		f, ok := matched[k]
		if !ok {
			if coll[k] {
				rn.failf("split:path-collision", rp, "%s: --split-apps (%s, %s): application %q has no file of its own (its name parts %q make the same path as another application's)", label, where, enc, k, a.GetName().GetPart())
			} else {
				rn.failf("split:"+mode+":app-lost", rp, "%s: --split-apps (%s, %s): no file holds application %q", label, where, enc, k)
			}
			continue
		}
		if plainName(a) && path.Clean(f) != path.Clean(splitPath(base, a, mode)) {
			rn.failf("split:layout", rp, "%s: --split-apps (%s, %s): application %q is in %s, documented: %s", label, where, enc, k, f, splitPath(base, a, mode))
		}
	}
}

func encodable(m proto.Message) bool {
	_, err := proto.Marshal(m)
	return err == nil
}

// the functions cmd_protobuf.go calls for --split-apps, in process, on every module the harness judges
func (rn *runner) splitInProcess(m *sysl.Module, base replay, label string) {
	ok := encodable(m)
	for _, mode := range cliModes {
		for _, compact := range []bool{false, true} {
			if mode == "pb" && compact {
				continue
			}
			rp := base
			rp.Enc, rp.Compact, rp.Via = mode, compact, "split-apps"
			fs := afero.NewMemMapFs()
			err := pbutil.OutputSplitApplications(m, mode, pbutil.OutputOptions{Compact: compact}, "base", splitFile[mode], fs)
			if !ok {
				// an application that no encoder accepts (invalid UTF-8): the failure must reach the caller
				if err == nil {
					rn.failf("split:error-swallowed", rp, "%s: OutputSplitApplications(%s) reports success although an application cannot be encoded", label, mode)
				}
				rn.c.Hist("split:unencodable-module")
				continue
			}
			if err != nil {
				rn.failf("split:"+mode+":error", rp, "%s: OutputSplitApplications(%s) fails: %v", label, mode, err)
				continue
			}
			rn.judgeSplit(fs, "base", m, mode, compact, rp, label, "in-process")
		}
	}
}

// ------------------------------------------------------------------ one input through the binary
type cliCase struct {
	term string
	rp   replay
}

func (rn *runner) cliInputCase(in cliInput, want *sysl.Module, base replay, label string, reimported bool, toCoq bool) {
	if rn.syslBin == "" {
		return
	}
	dir, err := os.MkdirTemp(rn.c.Out, "cli")
	if err != nil {
		return
	}
	defer os.RemoveAll(dir)
	dir, _ = filepath.Abs(dir)
	for n, c := range in.files {
		os.MkdirAll(filepath.Dir(filepath.Join(dir, n)), 0o755)
		os.WriteFile(filepath.Join(dir, n), []byte(c), 0o644)
	}
	if want == nil { // compile as the command does
		lg := logrus.New()
		lg.SetLevel(logrus.PanicLevel)
		func() {
			defer func() {
				if x := recover(); x != nil {
					want = nil
				}
			}()
			want, _, err = loader.LoadSyslModule(dir, in.root, afero.NewOsFs(), lg)
		}()
		if err != nil || want == nil {
			rn.c.Hist("cli:input-does-not-compile")
			return
		}
	}
	var combos []cliCombo
	for _, mode := range cliModes {
		for _, compact := range []bool{false, true} {
			for _, dest := range cliDests {
				combos = append(combos, cliCombo{mode, compact, dest})
			}
		}
	}
	outs := rn.runCombos(dir, in, combos)
	unencodable := !encodable(want)
	stdoutBytes := map[string][]byte{}
	for _, o := range outs {
		cb := o.combo
		rp := base
		rp.Enc, rp.Compact, rp.Via, rp.Note = cb.mode, cb.compact, "cli:"+cb.dest, in.kind
		enc := cb.mode
		if cb.compact {
			enc += "-compact"
		}
		rn.c.Count("cli|"+in.kind+"|"+cb.String()+"|"+detBytes(want), true)
		rn.c.Hist("cli:" + in.kind + ":" + cb.String())
		if unencodable {
			if o.err == nil && o.code == 0 {
				key := "cli:error-swallowed"
				if cb.dest == "split" {
					key = "split:error-swallowed"
				}
				rn.failf(key, rp, "%s: `sysl pb` (%s) exits with 0 although the model cannot be encoded (invalid UTF-8 in a name)", label, cb)
			}
			continue
		}
		if o.err != nil || o.code != 0 {
			rn.failf("cli:"+enc+":"+cb.dest+":exit", rp, "%s: `sysl pb --mode %s` (%s, input %s) exits with %d: %v %s", label, cb.mode, cb, in.kind, o.code, o.err, tail(o.stderr, 300))
			continue
		}
		if cb.dest == "split" {
			if len(o.stdout) != 0 {
				rn.failf("cli:split:stdout-not-empty", rp, "%s: --split-apps also wrote %d bytes to stdout", label, len(o.stdout))
			}
			base := filepath.ToSlash(filepath.Join(o.dir, "split"))
			if reimported {
				continue // applications of a re-imported model: judged through the stdout/file outputs (known findings)
			}
			rn.judgeSplit(afero.NewOsFs(), base, want, cb.mode, cb.compact, rp, label, "binary")
			continue
		}
		b := o.stdout
		if cb.dest == "file" {
			if len(o.stdout) != 0 {
				rn.failf("cli:file:stdout-not-empty", rp, "%s: -o FILE also wrote %d bytes to stdout", label, len(o.stdout))
			}
			b, err = os.ReadFile(filepath.Join(o.dir, "out"+modeExt[cb.mode]))
			if err != nil {
				rn.failf("cli:"+enc+":file:missing", rp, "%s: -o FILE wrote no file: %v", label, err)
				continue
			}
			// the same binary, the same model: file and stdout carry the same bytes
			if sb, ok := stdoutBytes[enc]; ok && !bytes.Equal(sb, b) {
				rn.failf("cli:"+enc+":stdout-file-differ", rp, "%s: -o FILE (%d bytes) and stdout (%d bytes) differ", label, len(b), len(sb))
			}
		} else {
			stdoutBytes[enc] = b
		}
		if cb.mode != "pb" && cb.compact && bytes.ContainsRune(b, '\n') {
			rn.failf("cli:"+enc+":has-newline", rp, "%s: compact output has a line break", label)
		}
		if cb.mode == "json" && !jsonValid(b) {
			rn.failf("json:malformed", rp, "%s: `sysl pb --mode json` output is not well-formed JSON", label)
		}
		got, err := decodeModule(cb.mode, b)
		if err != nil {
			rn.failf("cli:"+enc+":"+cb.dest+":decode-error", rp, "%s: output of `sysl pb` (%s) does not decode: %v", label, cb, err)
			continue
		}
		if reimported {
			// a compiled model named as MODULE is post-processed again: the listed findings apply
			a, b2 := proto.Message(want), proto.Message(got)
			if cb.mode == "json" && cb.compact {
				a, b2 = withoutLocations(want), withoutLocations(got)
			}
			for k, what := range classifyReimport(a.(*sysl.Module), b2.(*sysl.Module)) {
				rn.failf(k, rp, "%s: `sysl pb` on the compiled model as MODULE (%s, %s) does not reproduce the applications: %s", label, in.kind, cb, what)
			}
			continue
		}
		if cb.mode == "json" && cb.compact {
			if !proto.Equal(withoutLocations(got), withoutLocations(want)) {
				rn.failf("cli:json-compact:non-location-lost", rp, "%s: compact JSON (%s) differs from the model in more than locations: %s", label, cb.dest, firstDiff(withoutLocations(want), withoutLocations(got)))
			}
		} else if !proto.Equal(got, want) {
			rn.failf("cli:"+enc+":"+cb.dest+":differs", rp, "%s: decoding the output of `sysl pb` (%s, input %s) gives a different model: %s", label, cb, in.kind, firstDiff(want, got))
		}
		rn.cliRot++
		if toCoq && cb.dest == "stdout" && (cb.mode == "json" && cb.compact || rn.cliRot%5 == 0) {
			g := &gproj{ids: map[string]int{}, names: rn.cliNames}
			v := g.val(reflect.ValueOf(want), false)
			o := g.val(reflect.ValueOf(got), false)
			if len(v)+len(o) < 300000 {
				rn.cliCases = append(rn.cliCases, cliCase{fmt.Sprintf("CCli %s %s\n (%s)\n (%s)", common.GBool(cb.mode == "json"), common.GBool(cb.compact), v, o), rp})
				rn.c.HistN("cli:tree-nodes-to-coq", g.nodes)
			} else {
				rn.c.Hist("cli:tree-too-large-for-coq")
			}
		}
	}
}

func tail(s string, n int) string {
	s = strings.TrimSpace(s)
	if len(s) > n {
		return "..." + s[len(s)-n:]
	}
	return s
}

// the CCli cases are written at the end: the header defines the type and field names that occur
func (rn *runner) flushCli(hdr, footer string) {
	if len(rn.cliCases) == 0 {
		return
	}
	var names []string
	for n := range rn.cliNames {
		names = append(names, n)
	}
	sort.Strings(names)
	var b strings.Builder
	b.WriteString(hdr)
	b.WriteString("\n")
	for _, n := range names {
		fmt.Fprintf(&b, "Definition %s := %s.\n", n, common.GString(n[2:]))
	}
	cs := rn.c.NewCases("C09cli", b.String(), "c09_case", footer, 2)
	for _, c := range rn.cliCases {
		cs.Add(c.term, c.rp)
	}
	cs.Close()
}

// ------------------------------------------------------------------ which fields of sysl.proto a module populates
func (rn *runner) noteFields(m protoreflect.Message) {
	m.Range(func(fd protoreflect.FieldDescriptor, v protoreflect.Value) bool {
		rn.fieldsSeen[string(fd.FullName())] = true
		switch {
		case fd.IsMap():
			if fd.MapValue().Message() != nil {
				v.Map().Range(func(_ protoreflect.MapKey, mv protoreflect.Value) bool { rn.noteFields(mv.Message()); return true })
			}
		case fd.IsList():
			if fd.Message() != nil {
				for i := 0; i < v.List().Len(); i++ {
					rn.noteFields(v.List().Get(i).Message())
				}
			}
		case fd.Message() != nil:
			rn.noteFields(v.Message())
		}
		return true
	})
}

func allFields(md protoreflect.MessageDescriptor, seen map[string]bool, out *[]string) {
	if seen[string(md.FullName())] {
		return
	}
	seen[string(md.FullName())] = true
	fds := md.Fields()
	for i := 0; i < fds.Len(); i++ {
		fd := fds.Get(i)
		*out = append(*out, string(fd.FullName()))
		if fd.IsMap() {
			if fd.MapValue().Message() != nil {
				allFields(fd.MapValue().Message(), seen, out)
			}
		} else if fd.Message() != nil {
			allFields(fd.Message(), seen, out)
		}
	}
}

// ------------------------------------------------------------------ generator: any message of sysl.proto
var genFloats = []float64{0.25, -1.5, 1e300, 5e-324, 3, -0.0}

func genScalar(r *common.Rng, fd protoreflect.FieldDescriptor) protoreflect.Value {
	switch fd.Kind() {
	case protoreflect.BoolKind:
		return protoreflect.ValueOfBool(true)
	case protoreflect.Int32Kind, protoreflect.Sint32Kind, protoreflect.Sfixed32Kind:
		return protoreflect.ValueOfInt32(int32(r.Intn(2000)) - 1000)
	case protoreflect.Int64Kind, protoreflect.Sint64Kind, protoreflect.Sfixed64Kind:
		return protoreflect.ValueOfInt64([]int64{1, -1, 1 << 53, -(1 << 62), 7}[r.Intn(5)])
	case protoreflect.Uint32Kind, protoreflect.Fixed32Kind:
		return protoreflect.ValueOfUint32(uint32(r.Intn(1000)) + 1)
	case protoreflect.Uint64Kind, protoreflect.Fixed64Kind:
		return protoreflect.ValueOfUint64(uint64(r.Intn(1000)) + 1)
	case protoreflect.FloatKind:
		return protoreflect.ValueOfFloat32(float32(r.Intn(100))/4 + 0.25)
	case protoreflect.DoubleKind:
		return protoreflect.ValueOfFloat64(genFloats[r.Intn(len(genFloats))])
	case protoreflect.StringKind:
		return protoreflect.ValueOfString(hostile(r, 4))
	case protoreflect.BytesKind:
		return protoreflect.ValueOfBytes([]byte(hostile(r, 3) + "\x00\xff"))
	case protoreflect.EnumKind:
		vs := fd.Enum().Values()
		return protoreflect.ValueOfEnum(vs.Get(r.Intn(vs.Len())).Number())
	}
	return protoreflect.Value{}
}

// sizes of maps and lists: 0 (left unset), 1, many
func genCount(r *common.Rng, depth int) int {
	if depth <= 0 {
		return r.Intn(2)
	}
	return []int{1, 1, 2, 3, 5}[r.Intn(5)]
}

func genAnyMessage(r *common.Rng, m protoreflect.Message, depth int, p int) {
	fds := m.Descriptor().Fields()
	oneofDone := map[string]bool{}
	for i := 0; i < fds.Len(); i++ {
		fd := fds.Get(i)
		isMsg := fd.Message() != nil && !fd.IsMap() || fd.IsMap() && fd.MapValue().Message() != nil
		if isMsg && depth <= 0 {
			continue
		}
		if oo := fd.ContainingOneof(); oo != nil {
			// one member per oneof, chosen uniformly
			if oneofDone[string(oo.Name())] {
				continue
			}
			oneofDone[string(oo.Name())] = true
			fd = oo.Fields().Get(r.Intn(oo.Fields().Len()))
			if fd.Message() != nil && depth <= 0 {
				continue
			}
		} else if !r.Chance(p, 100) {
			continue
		}
		switch {
		case fd.IsMap():
			mp := m.Mutable(fd).Map()
			n := genCount(r, depth)
			for j := 0; j < n; j++ {
				k := protoreflect.ValueOfString(hostile(r, 3) + fmt.Sprint(j)).MapKey()
				if fd.MapValue().Message() != nil {
					v := mp.NewValue()
					genAnyMessage(r, v.Message(), depth-1, p)
					mp.Set(k, v)
				} else {
					mp.Set(k, genScalar(r, fd.MapValue()))
				}
			}
		case fd.IsList():
			l := m.Mutable(fd).List()
			n := genCount(r, depth)
			for j := 0; j < n; j++ {
				if fd.Message() != nil {
					v := l.NewElement()
					genAnyMessage(r, v.Message(), depth-1, p)
					l.Append(v)
				} else {
					l.Append(genScalar(r, fd))
				}
			}
		case fd.Message() != nil:
			genAnyMessage(r, m.Mutable(fd).Message(), depth-1, p)
		default:
			m.Set(fd, genScalar(r, fd))
		}
	}
}

// paths from Module to every field of sysl.proto (breadth first over message-typed fields)
type fieldPath []protoreflect.FieldDescriptor

var allFieldPaths []fieldPath

func fieldPaths() []fieldPath {
	if allFieldPaths != nil {
		return allFieldPaths
	}
	type node struct {
		md   protoreflect.MessageDescriptor
		path fieldPath
	}
	seen := map[protoreflect.FullName]bool{}
	root := (&sysl.Module{}).ProtoReflect().Descriptor()
	queue := []node{{root, nil}}
	seen[root.FullName()] = true
	for len(queue) > 0 {
		n := queue[0]
		queue = queue[1:]
		fds := n.md.Fields()
		for i := 0; i < fds.Len(); i++ {
			fd := fds.Get(i)
			p := append(append(fieldPath{}, n.path...), fd)
			allFieldPaths = append(allFieldPaths, p)
			var child protoreflect.MessageDescriptor
			if fd.IsMap() {
				child = fd.MapValue().Message()
			} else {
				child = fd.Message()
			}
			if child != nil && !seen[child.FullName()] {
				seen[child.FullName()] = true
				queue = append(queue, node{child, p})
			}
		}
	}
	return allFieldPaths
}

// make sure the last field of the path is populated, creating fresh list elements / map entries on the way
func ensureField(r *common.Rng, m protoreflect.Message, p fieldPath, tag int) {
	fd := p[0]
	last := len(p) == 1
	switch {
	case fd.IsMap():
		mp := m.Mutable(fd).Map()
		k := protoreflect.ValueOfString(fmt.Sprintf("t%d%s", tag, hostile(r, 1))).MapKey()
		if fd.MapValue().Message() != nil {
			v := mp.NewValue()
			if last {
				genAnyMessage(r, v.Message(), 0, 50)
			} else {
				ensureField(r, v.Message(), p[1:], tag)
			}
			mp.Set(k, v)
		} else {
			mp.Set(k, genScalar(r, fd.MapValue()))
		}
	case fd.IsList():
		l := m.Mutable(fd).List()
		if fd.Message() != nil {
			v := l.NewElement()
			if last {
				genAnyMessage(r, v.Message(), 0, 50)
			} else {
				ensureField(r, v.Message(), p[1:], tag)
			}
			l.Append(v)
		} else {
			l.Append(genScalar(r, fd))
		}
	case fd.Message() != nil:
		c := m.Mutable(fd).Message()
		if last {
			if fd.ContainingOneof() == nil || !c.IsValid() {
				genAnyMessage(r, c, 0, 50)
			}
		} else {
			ensureField(r, c, p[1:], tag)
		}
	default:
		m.Set(fd, genScalar(r, fd))
	}
}

// i: which slice of the field list this module must populate (k fields per module)
func genAnyModule(r *common.Rng, depth, p int, i, k int) *sysl.Module {
	m := &sysl.Module{}
	genAnyMessage(r, m.ProtoReflect(), depth, p)
	if len(m.Apps) == 0 {
		a := &sysl.Application{}
		genAnyMessage(r, a.ProtoReflect(), depth-1, p)
		m.Apps = map[string]*sysl.Application{"A": a}
	}
	ps := fieldPaths()
	for j := 0; j < k; j++ {
		ensureField(r, m.ProtoReflect(), ps[(i*k+j)%len(ps)], j)
	}
	// every application gets a name of its own (the layout of --split-apps needs one), free of path syntax
	n := 0
	var keys []string
	for k := range m.Apps {
		keys = append(keys, k)
	}
	sort.Strings(keys)
	for _, k := range keys {
		a := m.Apps[k]
		a.Name = &sysl.AppName{Part: []string{fmt.Sprintf("App%d", n)}}
		if r.Chance(1, 3) {
			a.Name.Part = append(a.Name.Part, strings.NewReplacer("/", "_", "\\", "_", "\x00", "_", ".", "_").Replace("p"+strings.TrimSpace(k)))
		}
		n++
	}
	return m
}

// ------------------------------------------------------------------ generator: Sysl text that uses the whole language
func genRichSysl(r *common.Rng, n int) string {
	h := func(max int) string { return qstr(hostile(r, max)) }
	at := func() string { return genAttrs(r) }
	blocks := []func(i int) string{
		func(i int) string { // publisher / subscriber: Endpoint.source, is_pubsub
			return fmt.Sprintf("Pub%d [~pub]:\n    <-> Evt%s: ...\n    <-> Other [k=%s]:\n        Flow%d <- Ep\nSub%d%s:\n    Pub%d -> Evt:\n        @description = %s\n        do it\n    Pub%d -> Other: ...\n",
				i, at(), h(3), i, i, at(), i, h(5), i)
		},
		func(i int) string { // every type kind
			return fmt.Sprintf("Types%d [~db]:\n    !type Rec%s:\n        a <: int\n        b <: string(5)?\n        c <: decimal(5.2)\n        d <: sequence of string\n        e <: set of Rec\n        f <: Types%d.Tab\n        g <: date\n        h <: string [~pk, k=%s]:\n            @anno = %s\n        i <: int64\n        j <: string(1..10)\n        k <: Color\n        l <: bool\n        m <: float\n        n <: datetime\n        o <: any\n        p <: bytes\n    !table Tab%s:\n        id <: int [~pk]\n        r <: Tab.id\n    !enum Color:\n        RED: 1\n        GREEN: 2\n    !union U:\n        int\n        Rec\n    !alias Al:\n        sequence of Rec\n    !alias Al2%s:\n        int\n",
				i, at(), i, h(2), h(4), at(), at())
		},
		func(i int) string { // views with expressions
			return fmt.Sprintf("Views%d:\n    !view v1(a <: int, b <: Types%d.Rec) -> int [~partial]:\n        a -> (x:\n            out = a + 1 - x\n            let t = b.c * 2\n            s = if a > 1 then %s else \"y\"\n            u = -a\n            w = a ?? 3\n            q = b -> <Types%d.Rec> (:\n                a = 1\n            )\n        )\n    !view v2(n <: int) -> set of Types%d.Rec:\n        n -> <set of Types%d.Rec> (:\n            a = n\n        )\n",
				i, i, h(2), i, i, i)
		},
		func(i int) string { // REST
			return fmt.Sprintf("Rest%d%s:\n    /p/{id <: int}:\n        GET ?q=string&r=int?%s:\n            return ok <: string\n        POST (body <: Types%d.Rec [~body]):\n            return error <: Types%d.Rec\n", i, at(), at(), i, i)
		},
		func(i int) string { // every statement kind
			return fmt.Sprintf("Flow%d:\n    Ep (p <: int, q <: Types%d.Rec)%s:\n        | a docstring\n        if c:\n            Flow%d <- Other\n        else if d:\n            ...\n        else:\n            return ok <: string\n        for each x in xs:\n            step\n        loop:\n            step\n        while x < 3:\n            step\n        until done:\n            step\n        one of:\n            case a:\n                step a\n            case b:\n                step b\n        grp:\n            step g\n        Flow%d <- Other%s\n    Other: ...\n",
				i, i, at(), i, i, at())
		},
		func(i int) string { // mixin
			return fmt.Sprintf("Mix%d:\n    -|> Abs%d\n    E: ...\nAbs%d [~abstract]:\n    !type M:\n        x <: int\n    AbsEp: ...\n", i, i, i)
		},
		func(i int) string { // collector with scalar attributes
			return fmt.Sprintf("Coll%d:\n    E [~e]: ...\n    .. * <- *:\n        E [k=%s]\n", i, h(3))
		},
		func(i int) string { // annotations and long names
			return fmt.Sprintf("Ann%d %s [k=%s, arr=[%s, %s], nest=[[%s]]]:\n    @note = %s\n    E:\n        @e = %s\n        ...\n", i, qstr("long "+hostile(r, 2)), h(3), h(2), h(2), h(2), h(5), h(3))
		},
	}
	var b strings.Builder
	// the blocks refer to one another by index: the whole family for index 0 is always there
	for j, f := range blocks {
		if n == 0 || r.Chance(3, 4) || j == 1 || j == 4 {
			b.WriteString(f(0))
		}
	}
	return b.String()
}

func jsonValid(b []byte) bool { return json.Valid(b) }
