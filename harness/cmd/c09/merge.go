// C09, goal 1(a): a compiled model imported TOGETHER WITH further Sysl text that re-opens its applications.
//
// What must hold: `import x.pb` + text T compiles to the same applications as `import s1` + text T, where x.pb is the
// compiled s1.sysl - up to the two listed findings about post-processing running twice over the imported part.
// The text T re-opens applications of s1 (new types, new endpoints, more statements in an existing endpoint, a new field
// in an existing type, an annotation), and adds an application of its own that calls into s1.
package main

import (
	"fmt"
	"os"
	"sort"
	"strings"

	"github.com/anz-bank/sysl/pkg/sysl"
	"google.golang.org/protobuf/proto"

	"verifharness/common"
)

func nameToken(a *sysl.Application) (string, bool) {
	var ps []string
	for _, p := range a.GetName().GetPart() {
		if p == "" || strings.TrimSpace(p) != p {
			return "", false
		}
		ps = append(ps, syslName(p))
	}
	if len(ps) == 0 {
		return "", false
	}
	return strings.Join(ps, " :: "), true
}

// text that re-opens applications of m
func genReopen(r *common.Rng, m *sysl.Module, reopenEps bool) string {
	var keys []string
	for k := range m.Apps {
		keys = append(keys, k)
	}
	sort.Strings(keys)
	var b strings.Builder
	var callable []string
	for _, k := range keys {
		a := m.Apps[k]
		tok, ok := nameToken(a)
		if !ok {
			continue
		}
		var eps []string
		for n, e := range a.Endpoints {
			if n != collectorName && e.RestParams == nil && !e.IsPubsub && syslName(n) == n {
				eps = append(eps, n)
			}
		}
		sort.Strings(eps)
		for _, e := range eps {
			callable = append(callable, tok+" <- "+e)
		}
		if !r.Chance(2, 3) {
			continue
		}
		fmt.Fprintf(&b, "%s:\n", tok)
		n := 0
		if r.Chance(1, 2) {
			fmt.Fprintf(&b, "    @extra%d = %s\n", r.Intn(2), qstr(hostile(r, 3)))
			n++
		}
		if r.Chance(1, 2) {
			fmt.Fprintf(&b, "    !type Rr%d%s:\n        g <: int\n", r.Intn(3), genAttrs(r))
			n++
		}
		if reopenEps && len(eps) > 0 && r.Chance(2, 3) {
			fmt.Fprintf(&b, "    %s%s:\n        later step %d\n", eps[r.Intn(len(eps))], genAttrs(r), r.Intn(3))
			if len(callable) > 0 && r.Bool() {
				fmt.Fprintf(&b, "        %s%s\n", callable[r.Intn(len(callable))], genAttrs(r))
			}
			n++
		}
		if r.Chance(1, 2) || n == 0 {
			fmt.Fprintf(&b, "    New%d%s:\n", r.Intn(3), genAttrs(r))
			if len(callable) > 0 && r.Bool() {
				fmt.Fprintf(&b, "        %s%s\n", callable[r.Intn(len(callable))], genAttrs(r))
			} else {
				fmt.Fprintf(&b, "        ...\n")
			}
		}
	}
	fmt.Fprintf(&b, "Zz%s:\n", genAttrs(r))
	if len(keys) > 0 && r.Chance(1, 3) {
		if tok, ok := nameToken(m.Apps[keys[r.Intn(len(keys))]]); ok {
			fmt.Fprintf(&b, "    -|> %s\n", tok)
		}
	}
	fmt.Fprintf(&b, "    Go:\n")
	if len(callable) > 0 {
		fmt.Fprintf(&b, "        %s\n", callable[r.Intn(len(callable))])
	}
	fmt.Fprintf(&b, "        return ok <: string\n")
	return b.String()
}

func (rn *runner) mergeCase(s1, s2 string, e encoding, stream string) {
	c := rn.c
	m1, err, panicked := compile(map[string]string{"s1.sysl": s1}, "s1.sysl")
	if panicked || err != nil || m1 == nil {
		c.Hist("merge:s1-does-not-compile")
		return
	}
	if s2 == "" {
		s2 = genReopen(rn.mrng, m1, rn.mrng.Chance(1, 3))
	}
	together, err, panicked := compile(map[string]string{"root.sysl": "import s1\n" + s2, "s1.sysl": s1}, "root.sysl")
	if panicked || err != nil || together == nil {
		c.Hist("merge:together-does-not-compile")
		if len(c.Res.Notes) < 8 {
			c.Res.Notes = append(c.Res.Notes, fmt.Sprintf("re-opening text did not compile (%v): %q", err, s2))
		}
		return
	}
	b, err := encode(m1, e)
	if err != nil {
		return
	}
	name := "x" + e.suffix
	files := map[string]string{"root.sysl": "import " + name + "\n" + s2, name: string(b)}
	rp := replay{Kind: "merge", Files: map[string]string{"s1.sysl": s1, "s2.sysl": s2}, Enc: e.name, Compact: e.compact, Via: "import-with-sources"}
	c.Count("merge|"+s1+"|"+s2, true)
	c.Hist("merge:" + stream + ":" + e.String())
	re, err, panicked := compile(files, "root.sysl")
	switch {
	case panicked:
		rn.failf("merge:panic", rp, "%s: `import %s` + text that re-opens its applications panics: %v", stream, name, err)
		return
	case err != nil:
		rn.failf("merge:error", rp, "%s: `import %s` + text that re-opens its applications fails (the same text with `import s1` compiles): %v", stream, name, err)
		return
	}
	for k, what := range classifyMerge(together, re, m1) {
		rn.failf(k, rp, "%s: `import %s` + text that re-opens its applications differs from compiling all sources together: %s", stream, name, what)
	}
}

// differences between compiling everything together and importing the compiled first part
func classifyMerge(together, re, m1 *sysl.Module) map[string]string {
	keys := map[string]string{}
	names := map[string]bool{}
	for k := range together.Apps {
		names[k] = true
	}
	for k := range re.Apps {
		names[k] = true
	}
	for k := range names {
		a, b := together.Apps[k], re.Apps[k]
		if a == nil || b == nil {
			keys["merge:app-set-differs"] = fmt.Sprintf("application %q present on one side only", k)
			continue
		}
		if proto.Equal(a, b) {
			continue
		}
		var ds []diffItem
		diffMsg([]string{"apps[" + k + "]"}, a.ProtoReflect(), b.ProtoReflect(), &ds)
		reopened := m1.Apps[k] != nil && fromFile(a.SourceContexts, "root.sysl")
		for _, d := range ds {
			p := strings.Join(d.path, ".")
			n := len(d.path)
			if os.Getenv("C09_DEBUG") != "" {
				fmt.Println("DIFF", p, d.kind)
			}
			epReopened := false
			if n >= 3 && d.path[1] == "endpoints" && m1.Apps[k] != nil {
				en := strings.TrimSuffix(strings.TrimPrefix(d.path[2], "["), "]")
				if e := a.Endpoints[en]; e != nil && m1.Apps[k].Endpoints[en] != nil && fromFile(e.SourceContexts, "root.sysl") {
					epReopened = true
				}
			}
			switch {
			case reopened && n >= 2 && (d.path[1] == "source_context" || d.path[1] == "source_contexts") && keepsTextOnly(a.SourceContexts, b.SourceContexts):
				keys["merge:reopened-app-locations"] = fmt.Sprintf("%s (%s): the application is defined by the compiled model and re-opened by the text; only the text's locations are kept", p, d.kind)
			case epReopened && textStatementsOnly(a, b, d.path[2], m1.Apps[k]):
				keys["merge:reopened-endpoint"] = fmt.Sprintf("%s (%s): the endpoint is defined by the compiled model and re-opened by the text; what the model holds for it is not merged in", p, d.kind)
			// the two listed findings: post-processing runs a second time over the imported part
			case d.kind == "len" && n >= 4 && d.path[n-1] == "elt" && d.path[n-2] == "a" && d.path[n-4] == "attrs" &&
				d.path[1] == "endpoints" && d.path[2] != "["+collectorName+"]" && m1.Apps[k] != nil && collectorHasArrayAttr(m1.Apps[k]) && onlyRepeats(d.a.List(), d.b.List()):
				keys["reimport:collector-array-attr"] = fmt.Sprintf("%s: %d elements became %d (collector attributes appended again)", p, d.a.List().Len(), d.b.List().Len())
			case d.kind == "+" && n == 3 && (d.path[1] == "types" || d.path[1] == "views") && (reachesMixinChain(together, k) || reachesMixinChain(m1, k)):
				keys["reimport:mixin-chain"] = fmt.Sprintf("%s appears only with the imported model (mixin of a mixin)", p)
			default:
				keys["merge:differs"] = fmt.Sprintf("%s (%s)", p, d.kind)
			}
		}
	}
	return keys
}

func fromFile(cs []*sysl.SourceContext, file string) bool {
	for _, c := range cs {
		if c.GetFile() == file {
			return true
		}
	}
	return false
}

// the finding is exactly: of the locations compiling everything together records (the text's, then the model's) the
// import keeps the text's
func keepsTextOnly(together, re []*sysl.SourceContext) bool {
	var want []*sysl.SourceContext
	for _, c := range together {
		if c.GetFile() == "root.sysl" {
			want = append(want, c)
		}
	}
	if len(want) != len(re) {
		return false
	}
	for i := range want {
		if !proto.Equal(want[i], re[i]) {
			return false
		}
	}
	return true
}

// ... and of the statements of a re-opened endpoint the text's (judged strictly where no collector rewrites them)
func textStatementsOnly(together, re *sysl.Application, epKey string, model *sysl.Application) bool {
	en := strings.TrimSuffix(strings.TrimPrefix(epKey, "["), "]")
	a, b := together.Endpoints[en], re.Endpoints[en]
	if a == nil || b == nil {
		return false
	}
	if !keepsTextOnly(a.SourceContexts, b.SourceContexts) {
		return false
	}
	var want []*sysl.Statement
	for _, st := range a.Stmt {
		if st.GetSourceContext().GetFile() == "root.sysl" { //nolint:staticcheck
			want = append(want, st)
		}
	}
	if len(want) != len(b.Stmt) {
		return false
	}
	if model.GetEndpoints()[collectorName] != nil || together.Endpoints[collectorName] != nil {
		return true
	}
	for i := range want {
		if !proto.Equal(want[i], b.Stmt[i]) {
			return false
		}
	}
	return true
}
