// C09, encodes that overlap in one process.
//
// Every writer entry point of pkg/pbutil (the list is pinned by the obligation entry_points_as_expected on Gen/PbState.v)
// is driven through a writer whose Write BLOCKS - as a pipe or a slow file does - while the slice it was given is
// consumed piece by piece under the harness's control, and a second model is encoded in between.
//
// Oracle: whatever the schedule, what the reader behind each writer received decodes to the model that call was given
// (overlap:<mode>:<dest>); and without overlap: A's output is what it was, and still decodes to A, after B has been
// encoded (sequential:<mode>:<dest>).
// Correspondence (CEnc): random schedules of encoder calls and partial reads over small messages; the bytes each reader
// received are compared, in Coq, with the model of Codec/EncState.v under the provenance rule read from the source.
package main

import (
	"bytes"
	"fmt"
	"io"
	"os"
	"path"
	"path/filepath"
	"sort"
	"strings"
	"time"

	"github.com/anz-bank/sysl/pkg/pbutil"
	"github.com/anz-bank/sysl/pkg/sysl"
	"github.com/spf13/afero"
	"google.golang.org/protobuf/encoding/protojson"
	"google.golang.org/protobuf/encoding/prototext"
	"google.golang.org/protobuf/proto"

	"verifharness/common"
)

// ------------------------------------------------------------------ a Write that blocks
type pendingWrite struct {
	name string
	p    []byte // the slice Write was given: held, not copied, until Write returns (what io.Pipe does)
	off  int
	sink io.Writer
	done chan struct{}
}

type gate struct{ arrive chan *pendingWrite }

type gateWriter struct {
	g    *gate
	name string
	sink io.Writer
}

func (w gateWriter) Write(p []byte) (int, error) {
	pw := &pendingWrite{name: w.name, p: p, sink: w.sink, done: make(chan struct{})}
	w.g.arrive <- pw
	<-pw.done
	return len(p), nil
}

func (pw *pendingWrite) take(k int) {
	n := len(pw.p) - pw.off
	if k < n {
		n = k
	}
	if n > 0 {
		pw.sink.Write(pw.p[pw.off : pw.off+n])
		pw.off += n
	}
}
func (pw *pendingWrite) exhausted() bool { return pw.off >= len(pw.p) }

// an afero filesystem whose files block in Write
type slowFs struct {
	afero.Fs
	g *gate
}
type slowFile struct {
	afero.File
	g *gate
}

func (s slowFs) Create(name string) (afero.File, error) {
	f, err := s.Fs.Create(name)
	if err != nil {
		return nil, err
	}
	return &slowFile{f, s.g}, nil
}
func (s slowFs) OpenFile(name string, flag int, perm os.FileMode) (afero.File, error) {
	f, err := s.Fs.OpenFile(name, flag, perm)
	if err != nil {
		return nil, err
	}
	return &slowFile{f, s.g}, nil
}
func (f *slowFile) Write(p []byte) (int, error) {
	return gateWriter{f.g, f.File.Name(), f.File}.Write(p)
}
func (f *slowFile) WriteString(s string) (int, error) { return f.Write([]byte(s)) }

// one call of an entry point, running in its own goroutine, stepped by the harness
type call struct {
	g        *gate
	done     chan error
	cur      *pendingWrite
	finished bool
	hung     bool
	err      error
	writes   int
}

func startCall(f func(g *gate) error) *call {
	c := &call{g: &gate{arrive: make(chan *pendingWrite)}, done: make(chan error, 1)}
	go func() {
		defer func() {
			if x := recover(); x != nil {
				c.done <- fmt.Errorf("panic: %v", x)
			}
		}()
		c.done <- f(c.g)
	}()
	return c
}

// until the call is blocked in a Write or has returned
func (c *call) wait() {
	if c.finished || c.cur != nil {
		return
	}
	select {
	case pw := <-c.g.arrive:
		c.cur = pw
		c.writes++
	case err := <-c.done:
		c.finished, c.err = true, err
	case <-time.After(60 * time.Second):
		c.finished, c.hung = true, true
	}
}

func (c *call) read(k int) {
	c.wait()
	if c.cur == nil {
		return
	}
	c.cur.take(k)
	if c.cur.exhausted() {
		close(c.cur.done)
		c.cur = nil
	}
}

func (c *call) drain() {
	for {
		c.wait()
		if c.finished {
			return
		}
		c.read(len(c.cur.p) + 1)
	}
}

// ------------------------------------------------------------------ the writer entry points of pkg/pbutil
type entryPoint struct {
	name    string
	mode    string // json | textpb | pb
	compact bool
	dest    string // stream | file | split
	stream  func(w io.Writer, m proto.Message) error
	file    func(m proto.Message, name string, fs afero.Fs) error
}

func opt(c bool) pbutil.OutputOptions { return pbutil.OutputOptions{Compact: c} }

var entryPoints = []entryPoint{
	{name: "GeneratePBBinaryMessage", mode: "pb", dest: "stream", stream: func(w io.Writer, m proto.Message) error { return pbutil.GeneratePBBinaryMessage(w, m) }},
	{name: "GeneratePBBinaryMessageFile", mode: "pb", dest: "file", file: func(m proto.Message, n string, fs afero.Fs) error { return pbutil.GeneratePBBinaryMessageFile(m, n, fs) }},
	{name: "FJSONPB", mode: "json", dest: "stream", stream: func(w io.Writer, m proto.Message) error { return pbutil.FJSONPB(w, m) }},
	{name: "FJSONPBWithOpt", mode: "json", dest: "stream", stream: func(w io.Writer, m proto.Message) error { return pbutil.FJSONPBWithOpt(w, m, opt(false)) }},
	{name: "FJSONPBWithOpt", mode: "json", compact: true, dest: "stream", stream: func(w io.Writer, m proto.Message) error { return pbutil.FJSONPBWithOpt(w, m, opt(true)) }},
	{name: "JSONPB", mode: "json", dest: "file", file: func(m proto.Message, n string, fs afero.Fs) error { return pbutil.JSONPB(m, n, fs) }},
	{name: "JSONPBWithOpt", mode: "json", dest: "file", file: func(m proto.Message, n string, fs afero.Fs) error { return pbutil.JSONPBWithOpt(m, n, fs, opt(false)) }},
	{name: "JSONPBWithOpt", mode: "json", compact: true, dest: "file", file: func(m proto.Message, n string, fs afero.Fs) error { return pbutil.JSONPBWithOpt(m, n, fs, opt(true)) }},
	{name: "FTextPB", mode: "textpb", dest: "stream", stream: func(w io.Writer, m proto.Message) error { return pbutil.FTextPB(w, m) }},
	{name: "FTextPBWithOpt", mode: "textpb", dest: "stream", stream: func(w io.Writer, m proto.Message) error { return pbutil.FTextPBWithOpt(w, m, opt(false)) }},
	{name: "FTextPBWithOpt", mode: "textpb", compact: true, dest: "stream", stream: func(w io.Writer, m proto.Message) error { return pbutil.FTextPBWithOpt(w, m, opt(true)) }},
	{name: "TextPB", mode: "textpb", dest: "file", file: func(m proto.Message, n string, fs afero.Fs) error { return pbutil.TextPB(m, n, fs) }},
	{name: "TextPBWithOpt", mode: "textpb", dest: "file", file: func(m proto.Message, n string, fs afero.Fs) error { return pbutil.TextPBWithOpt(m, n, fs, opt(false)) }},
	{name: "TextPBWithOpt", mode: "textpb", compact: true, dest: "file", file: func(m proto.Message, n string, fs afero.Fs) error { return pbutil.TextPBWithOpt(m, n, fs, opt(true)) }},
	{name: "OutputSplitApplications", mode: "pb", dest: "split"},
	{name: "OutputSplitApplications", mode: "json", dest: "split"},
	{name: "OutputSplitApplications", mode: "json", compact: true, dest: "split"},
	{name: "OutputSplitApplications", mode: "textpb", dest: "split"},
	{name: "OutputSplitApplications", mode: "textpb", compact: true, dest: "split"},
}

func (ep *entryPoint) String() string {
	s := ep.name + "(" + ep.mode
	if ep.compact {
		s += ", compact"
	}
	return s + ")"
}
func (ep *entryPoint) key() string { return ep.mode + ":" + ep.dest }

func decodeInto(mode string, b []byte, like proto.Message) (proto.Message, error) {
	m := like.ProtoReflect().New().Interface()
	var err error
	switch mode {
	case "json":
		err = protojson.Unmarshal(b, m)
	case "textpb":
		err = prototext.Unmarshal(b, m)
	default:
		err = proto.Unmarshal(b, m)
	}
	return m, err
}

// one execution of an entry point on one model
type epRun struct {
	ep   *entryPoint
	m    proto.Message
	tag  string
	sink *bytes.Buffer
	mem  afero.Fs
}

func (ep *entryPoint) prepare(m proto.Message, tag string, mem afero.Fs) *epRun {
	if mem == nil {
		mem = afero.NewMemMapFs()
	}
	return &epRun{ep: ep, m: m, tag: tag, sink: &bytes.Buffer{}, mem: mem}
}

func (r *epRun) fileName() string { return "out" + r.tag + modeExt[r.ep.mode] }

// g == nil: plain destinations (a buffer, a memory file)
func (r *epRun) exec(g *gate) error {
	var fs afero.Fs = r.mem
	if g != nil {
		fs = slowFs{r.mem, g}
	}
	switch r.ep.dest {
	case "stream":
		var w io.Writer = r.sink
		if g != nil {
			w = gateWriter{g, "", r.sink}
		}
		return r.ep.stream(w, r.m)
	case "file":
		return r.ep.file(r.m, r.fileName(), fs)
	default:
		return pbutil.OutputSplitApplications(r.m.(*sysl.Module), r.ep.mode, opt(r.ep.compact), "base"+r.tag, splitFile[r.ep.mode], fs)
	}
}

// what was written, by destination name
func (r *epRun) outputs() map[string][]byte {
	out := map[string][]byte{}
	switch r.ep.dest {
	case "stream":
		out[""] = append([]byte{}, r.sink.Bytes()...)
	case "file":
		b, _ := afero.ReadFile(r.mem, r.fileName())
		out[r.fileName()] = b
	default:
		afero.Walk(r.mem, "base"+r.tag, func(p string, info os.FileInfo, err error) error {
			if err == nil && !info.IsDir() {
				b, _ := afero.ReadFile(r.mem, p)
				out[filepath.ToSlash(p)] = b
			}
			return nil
		})
	}
	return out
}

// does what was written decode to the model of this call? "" = yes
func (r *epRun) judge(out map[string][]byte) string {
	if r.ep.dest != "split" {
		for n, b := range out {
			got, err := decodeInto(r.ep.mode, b, r.m)
			if err != nil {
				return fmt.Sprintf("the %d bytes received %sdo not decode: %v", len(b), at(n), err)
			}
			if !proto.Equal(got, r.m) {
				return fmt.Sprintf("the %d bytes received %sdecode to another model: %s", len(b), at(n), firstDiff(r.m, got))
			}
		}
		return ""
	}
	mod := r.m.(*sysl.Module)
	var names []string
	for n := range out {
		names = append(names, n)
	}
	sort.Strings(names)
	taken := map[string]bool{}
	for _, n := range names {
		if path.Base(n) != splitFile[r.ep.mode] {
			continue
		}
		got, err := decodeApp(r.ep.mode, out[n])
		if err != nil {
			return fmt.Sprintf("%s (%d bytes) does not decode as an application: %v", n, len(out[n]), err)
		}
		found := false
		for k, a := range mod.Apps {
			if !taken[k] && proto.Equal(a, got) {
				taken[k], found = true, true
				break
			}
		}
		if !found {
			return fmt.Sprintf("%s holds no application of the model", n)
		}
	}
	if len(taken) != len(mod.Apps) {
		return fmt.Sprintf("%d of %d applications have a file", len(taken), len(mod.Apps))
	}
	return ""
}

func at(n string) string {
	if n == "" {
		return ""
	}
	return "in " + n + " "
}

func sameOutputs(a, b map[string][]byte) bool {
	if len(a) != len(b) {
		return false
	}
	for k, v := range a {
		if w, ok := b[k]; !ok || !bytes.Equal(v, w) {
			return false
		}
	}
	return true
}

// ------------------------------------------------------------------ stream (i): pairs of modules through every entry point
func (rn *runner) overlapFail(kind string, ep *entryPoint, base replay, partner *sysl.Module, note, format string, a ...interface{}) {
	rp := base
	rp.Enc, rp.Compact, rp.Via, rp.Note = ep.mode, ep.compact, kind, note
	rp.Partner = protojson.Format(partner)
	rn.failf(kind+":"+ep.key(), rp, format, a...)
}

// modules are paired with the one judged before them
func (rn *runner) overlapWithPrevious(m *sysl.Module, base replay, label string) {
	if !encodable(m) {
		return
	}
	prev := rn.partner
	rn.partner = m
	if prev == nil || proto.Equal(prev, m) {
		return
	}
	rn.overlapPair(m, prev, base, label, false)
}

func (rn *runner) overlapPair(a, b *sysl.Module, base replay, label string, all bool) {
	c := rn.c
	size := proto.Size(a) + proto.Size(b)
	c.Count("overlap|"+detBytes(a)+"|"+detBytes(b), true)
	for i := range entryPoints {
		ep := &entryPoints[i]
		// every 12th pair goes through all entry points, the others through three of them in rotation
		if !all && rn.overlapRot%12 != 0 && (i+len(entryPoints)-(3*rn.overlapRot)%len(entryPoints))%len(entryPoints) >= 3 {
			continue
		}
		for order := 0; order < 2; order++ {
			x, y := a, b
			if order == 1 {
				x, y = b, a
			}
			who := []string{"the module", "its partner (the module judged before)"}
			// X through a writer that blocks; after one byte of each Write has been read, Y is encoded from start to end
			rx := ep.prepare(x, "", nil)
			cx := startCall(func(g *gate) error { return rx.exec(g) })
			inner := 0
			for {
				cx.wait()
				if cx.finished {
					break
				}
				if inner < 3 {
					cx.cur.take(1)
					ry := ep.prepare(y, "", nil)
					err := ry.exec(nil)
					if err != nil {
						rn.overlapFail("overlap", ep, base, b, "inner encode fails", "%s: %s of %s fails while another call is blocked in Write: %v", label, ep, who[1-order], err)
					} else if w := ry.judge(ry.outputs()); w != "" {
						rn.overlapFail("overlap", ep, base, b, "inner encode differs", "%s: %s of %s while another call is blocked in Write: %s", label, ep, who[1-order], w)
					}
					inner++
				}
				cx.read(len(cx.cur.p) + 1)
			}
			switch {
			case cx.hung:
				rn.overlapFail("overlap", ep, base, b, "hang", "%s: %s does not return", label, ep)
			case cx.err != nil:
				rn.overlapFail("overlap", ep, base, b, "outer encode fails", "%s: %s of %s fails: %v", label, ep, who[order], cx.err)
			default:
				if w := rx.judge(rx.outputs()); w != "" {
					rn.overlapFail("overlap", ep, base, b, fmt.Sprintf("order %d: one byte of each Write is read, the other model is encoded, the rest is read", order),
						"%s: %s of %s through a writer that blocks (one byte read, then %s encoded with the same function, then the rest read): %s",
						label, ep, who[order], who[1-order], w)
				}
			}
			c.Hist("overlap:" + ep.key())
			// the same with a real io.Pipe
			if ep.dest == "stream" {
				pr, pw := io.Pipe()
				go func() { pw.CloseWithError(ep.stream(pw, x)) }()
				one := make([]byte, 1)
				n, _ := io.ReadFull(pr, one)
				ry := ep.prepare(y, "", nil)
				ry.exec(nil)
				rest, err := io.ReadAll(pr)
				got := map[string][]byte{"": append(one[:n], rest...)}
				if err != nil {
					rn.overlapFail("overlap", ep, base, b, "io.Pipe", "%s: %s of %s into an io.Pipe fails: %v", label, ep, who[order], err)
				} else if w := rx.judge(got); w != "" {
					rn.overlapFail("overlap", ep, base, b, fmt.Sprintf("order %d: io.Pipe, one byte read, the other model encoded, the rest read", order),
						"%s: %s of %s into an io.Pipe (one byte read, then %s encoded, then the rest read): %s", label, ep, who[order], who[1-order], w)
				}
				c.Hist("overlap:pipe:" + ep.key())
			}
			// no overlap: X's output is what it was after Y has been encoded next to it
			rs := ep.prepare(x, "1", nil)
			if err := rs.exec(nil); err == nil {
				kept := rs.outputs()
				ry := ep.prepare(y, "2", rs.mem)
				ry.exec(nil)
				now := rs.outputs()
				if !sameOutputs(kept, now) {
					rn.overlapFail("sequential", ep, base, b, "", "%s: the output of %s for %s changed when %s was encoded afterwards", label, ep, who[order], who[1-order])
				} else if w := rs.judge(now); w != "" {
					rn.overlapFail("sequential", ep, base, b, "", "%s: %s of %s, read after %s was encoded too: %s", label, ep, who[order], who[1-order], w)
				}
			}
		}
		// both calls blocked at the same time, their readers taking turns
		if all || (rn.overlapRot+i)%2 == 0 {
			ra, rb := ep.prepare(a, "", nil), ep.prepare(b, "", nil)
			first, second := ra, rb
			if rn.overlapRot%2 == 1 {
				first, second = rb, ra
			}
			c1 := startCall(func(g *gate) error { return first.exec(g) })
			c1.wait()
			c2 := startCall(func(g *gate) error { return second.exec(g) })
			c2.wait()
			chunk := 1 + size/40
			for !c1.finished || !c2.finished {
				c1.read(1 + rn.orng.Intn(chunk))
				c1.wait()
				c2.read(1 + rn.orng.Intn(chunk))
				c2.wait()
			}
			for _, p := range []struct {
				r *epRun
				c *call
			}{{first, c1}, {second, c2}} {
				if p.c.hung || p.c.err != nil {
					rn.overlapFail("overlap", ep, base, b, "both blocked", "%s: %s with two calls blocked in Write at once: %v (hung %v)", label, ep, p.c.err, p.c.hung)
				} else if w := p.r.judge(p.r.outputs()); w != "" {
					rn.overlapFail("overlap", ep, base, b, "both calls blocked in Write, the readers take turns",
						"%s: %s of two models at once, both writers blocking and read in turns: %s", label, ep, w)
				}
			}
			c.Hist("overlap:both-blocked:" + ep.key())
		}
	}
	rn.overlapRot++
}

// ------------------------------------------------------------------ stream (ii): schedules against the model (CEnc)
type schedReplay struct {
	Msgs []string `json:"msgs"`  // protojson
	Mods []bool   `json:"mods"`  // a Module (else an Application)
	Eps  []int    `json:"eps"`   // index into entryPoints
	Evs  [][3]int `json:"evs"`   // {0, w, _} = call of writer w; {1, w, k} = read k bytes
}

var encCtor = map[string]string{"json": "EJson", "textpb": "EText", "pb": "EBin"}

func (rn *runner) runSchedule(s schedReplay) (term string, ok bool) {
	n := len(s.Msgs)
	msgs := make([]proto.Message, n)
	for i, d := range s.Msgs {
		if s.Mods[i] {
			msgs[i] = &sysl.Module{}
		} else {
			msgs[i] = &sysl.Application{}
		}
		if err := protojson.Unmarshal([]byte(d), msgs[i]); err != nil {
			return "", false
		}
	}
	runs := make([]*epRun, n)
	var tbl []string
	for i := range msgs {
		ep := &entryPoints[s.Eps[i]]
		solo := ep.prepare(msgs[i], "", nil)
		if err := solo.exec(nil); err != nil {
			return "", false
		}
		var b []byte
		for _, v := range solo.outputs() {
			b = v
		}
		if len(b) > 300 {
			return "", false
		}
		tbl = append(tbl, fmt.Sprintf("(%d, %s, %s)", i, encCtor[ep.mode], common.GBytes(string(b))))
		runs[i] = ep.prepare(msgs[i], "", nil)
	}
	calls := make([]*call, n)
	var evs []string
	for _, e := range s.Evs {
		w := e[1]
		if e[0] == 0 {
			r := runs[w]
			calls[w] = startCall(func(g *gate) error { return r.exec(g) })
			calls[w].wait()
			evs = append(evs, fmt.Sprintf("EEnc %d %s %d", w, encCtor[runs[w].ep.mode], w))
		} else if calls[w] != nil {
			calls[w].read(e[2])
			evs = append(evs, fmt.Sprintf("ERead %d %d", w, e[2]))
		}
	}
	rp := replay{Kind: "schedule", Via: "schedule", Sched: &s}
	var obs []string
	for w, cl := range calls {
		if cl == nil {
			continue
		}
		cl.drain()
		ep := runs[w].ep
		rp.Enc, rp.Compact = ep.mode, ep.compact
		var got []byte
		for _, v := range runs[w].outputs() {
			got = v
		}
		switch {
		case cl.hung:
			rn.failf("overlap:"+ep.key(), rp, "schedule %v: %s (writer %d) does not return", s.Evs, ep, w)
		case cl.err != nil:
			rn.failf("overlap:"+ep.key(), rp, "schedule %v: %s (writer %d) fails: %v", s.Evs, ep, w, cl.err)
		default:
			if what := runs[w].judge(runs[w].outputs()); what != "" {
				rn.failf("overlap:"+ep.key(), rp, "schedule %v of calls and partial reads over %d writers that block: writer %d (%s): %s", s.Evs, n, w, ep, what)
			}
		}
		if cl.writes != 1 {
			rn.c.Hist("schedule:call-with-other-than-one-Write")
		}
		obs = append(obs, fmt.Sprintf("(%d, %s)", w, common.GBytes(string(got))))
	}
	return fmt.Sprintf("CEnc [%s]\n [%s]\n [%s]", strings.Join(tbl, "; "), strings.Join(evs, "; "), strings.Join(obs, "; ")), true
}

func (rn *runner) genSchedule() schedReplay {
	r := rn.orng
	n := 2 + r.Intn(2)
	var s schedReplay
	for i := 0; i < n; i++ {
		var m proto.Message
		for {
			m = genMessage(r)
			if proto.Size(m) < 60 {
				break
			}
		}
		_, isMod := m.(*sysl.Module)
		s.Msgs = append(s.Msgs, protojson.Format(m))
		s.Mods = append(s.Mods, isMod)
		// an entry point with one Write per call (the split writer has one per application)
		for {
			k := r.Intn(len(entryPoints))
			if entryPoints[k].dest != "split" {
				s.Eps = append(s.Eps, k)
				break
			}
		}
	}
	started := 0
	reads := 0
	for started < n || reads < 2*n {
		if started < n && (started == 0 || r.Chance(1, 2)) {
			s.Evs = append(s.Evs, [3]int{0, started, 0})
			started++
			continue
		}
		k := 1 + r.Intn(12)
		if r.Chance(1, 4) {
			k = 20 + r.Intn(100)
		}
		s.Evs = append(s.Evs, [3]int{1, r.Intn(started), k})
		reads++
	}
	for w := 0; w < n; w++ {
		s.Evs = append(s.Evs, [3]int{1, w, 300})
	}
	return s
}

func (rn *runner) scheduleCases(n int) {
	for i := 0; i < n; i++ {
		s := rn.genSchedule()
		term, ok := rn.runSchedule(s)
		if !ok {
			rn.c.Hist("schedule:skipped")
			continue
		}
		rn.c.Count("schedule|"+term, true)
		rn.c.Hist("schedule")
		if rn.encs != nil {
			rn.encs.Add(term, replay{Kind: "schedule", Via: "schedule", Sched: &s})
		}
	}
}
