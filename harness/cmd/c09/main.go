package main

import (
	"bytes"
	"fmt"

	"github.com/anz-bank/sysl/pkg/parse"
	"github.com/anz-bank/sysl/pkg/pbutil"
	"github.com/anz-bank/sysl/pkg/sysl"
	"github.com/spf13/afero"
	"google.golang.org/protobuf/proto"
)

func compile(files map[string]string, root string) (*sysl.Module, error) {
	fs := afero.NewMemMapFs()
	for n, c := range files {
		afero.WriteFile(fs, n, []byte(c), 0o644)
	}
	return parse.NewParser().ParseFromFs(root, fs)
}

func main() {
	src := "A%22%3A%20%20B:\n    !type T:\n        x <: string\n"
	m, err := compile(map[string]string{"a.sysl": src}, "a.sysl")
	fmt.Println(err)
	var b bytes.Buffer
	pbutil.FJSONPBWithOpt(&b, m, pbutil.OutputOptions{})
	fmt.Println(b.String()[:300])
	m2, err := pbutil.FromPBByteContents("x.pb.json", b.Bytes())
	fmt.Println(err, proto.Equal(m, m2))
	for k := range m2.Apps {
		fmt.Printf("%q\n", k)
	}
	src3 := `A:
    -|> B
    !type TA:
        x <: int
B [~abstract]:
    -|> C
    !type TB:
        x <: int
C [~abstract]:
    !type TC:
        x <: int
`
	m, err = compile(map[string]string{"a.sysl": src3}, "a.sysl")
	fmt.Println(err)
	var pb3 bytes.Buffer
	pbutil.GeneratePBBinaryMessage(&pb3, m)
	m4, err := compile(map[string]string{"b.sysl": "import x.pb\n", "x.pb": pb3.String()}, "b.sysl")
	fmt.Println(err, proto.Equal(m, m4))
	for an, a := range m.Apps {
		fmt.Println(an, proto.Equal(a, m4.Apps[an]), len(a.Types), len(m4.Apps[an].Types))
	}
	src2 := `A [~x]:
    E1 [~e]:
        B <- F
        ...
    E2:
        ...
    .. * <- *:
        E2 [~q, k="v"]
        B <- F [~t]
B:
    F:
        ...
`
	m, err = compile(map[string]string{"a.sysl": src2}, "a.sysl")
	fmt.Println(err)
	var pb bytes.Buffer
	pbutil.GeneratePBBinaryMessage(&pb, m)
	m3, err := compile(map[string]string{"b.sysl": "import x.pb\n", "x.pb": pb.String()}, "b.sysl")
	fmt.Println(err, proto.Equal(m, m3))
	for an, a := range m.Apps {
		fmt.Println(an, proto.Equal(a, m3.Apps[an]))
	}
	fmt.Println(m.Apps["A"].Endpoints["E2"].Attrs)
	fmt.Println(m3.Apps["A"].Endpoints["E2"].Attrs)
	fmt.Println(m.Apps["A"].Endpoints["E1"].Stmt[0].Attrs)
	fmt.Println(m3.Apps["A"].Endpoints["E1"].Stmt[0].Attrs)
}
