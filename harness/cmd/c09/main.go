// C09: serialised models round-trip; importing a compiled model reproduces it.
//
// Oracle (model-independent, judges the property itself on the real code):
//   - every module (repository corpus, generated Sysl text compiled by the real parser, modules built directly)
//     x {pb, json, textpb} x {indented, compact}: bytes written by the real pbutil writers, read back through
//     pbutil.FromPB under the mode's conventional suffix, must be proto.Equal to what was encoded; JSON must be
//     well-formed (encoding/json.Valid);
//   - a specification that only imports such a file (import x.pb / x.pb.json / x.textpb) must compile to the same
//     applications;
//   - a .json file that is not a compiled model (an OpenAPI document) must still be imported as OpenAPI.
//
// Correspondence (Gallina cases, evaluated against the Coq model):
//   - CClean: arbitrary byte documents through the expression literal of pkg/pbutil/output.go (read from the source
//     tree under test) with Go's regexp engine and the template of the source;
//   - CJson / CCompact: protojson output of real messages with hostile keys and strings: the harness reads the lines,
//     Coq re-prints them (model of the writer incl. escaping) and runs the clean-up model on the raw bytes;
//   - CDispatch: decoder chosen by FromPBStringContents / FromPB per file name;
//   - CPost: applications after compiling `import x.pb`, against the post-processing model.
package main

import (
	"bytes"
	"encoding/json"
	"errors"
	"fmt"
	"go/ast"
	"go/parser"
	"go/token"
	"net/url"
	"os"
	"path/filepath"
	"regexp"
	"runtime/debug"
	"runtime/pprof"
	"sort"
	"strconv"
	"strings"
	"time"

	"github.com/anz-bank/sysl/pkg/parse"
	"github.com/anz-bank/sysl/pkg/pbutil"
	"github.com/anz-bank/sysl/pkg/sysl"
	"github.com/anz-bank/sysl/pkg/syslutil"
	"github.com/sirupsen/logrus"
	"github.com/spf13/afero"
	"google.golang.org/protobuf/encoding/protojson"
	"google.golang.org/protobuf/proto"
	"google.golang.org/protobuf/reflect/protoreflect"

	"verifharness/common"
)

// ------------------------------------------------------------------ replay descriptor
type replay struct {
	Kind   string            `json:"kind"` // sysl | corpus | abstract | msg | regex | dispatch | foreign-json
	Files  map[string]string `json:"files,omitempty"`
	Root   string            `json:"root,omitempty"`
	Path   string            `json:"path,omitempty"`
	Doc    string            `json:"doc,omitempty"`    // regex: the document (Go-quoted in What); msg/abstract: base64-free JSON of the message
	Enc    string            `json:"enc,omitempty"`    // pb | json | textpb
	Compact bool             `json:"compact,omitempty"`
	Via    string            `json:"via,omitempty"`    // decode | import
	Note   string            `json:"note,omitempty"`
	Partner string           `json:"partner,omitempty"` // overlap: the second model (protojson)
	Sched  *schedReplay      `json:"sched,omitempty"`   // schedule: messages, entry points, events
}

// ------------------------------------------------------------------ hostile strings
var pieces = []string{
	`"`, `\`, `:`, ` `, `  `, `": `, `":  `, `\":  x`, "\n", "\t", "\r", "é", "日本", "\x01", "\x1f", "a", "b", "k", "{", "}", "[", "]", ",",
	`"a":  b`, `\\"`, `\"`, "\n \"k\":  v", `:  `, `'`, "\u2028", "/", "\x7f", "<", "&",
	// text that looks like JSON escapes, and runes outside the BMP
	"\U0001F600", `\u0041`, `\ud83d`, `\n`, `\\`, "\U00010000", `\u`,
}

func hostile(r *common.Rng, max int) string {
	n := r.Intn(max + 1)
	var b strings.Builder
	for i := 0; i < n; i++ {
		b.WriteString(pieces[r.Intn(len(pieces))])
	}
	return b.String()
}

var plainNames = []string{"A", "B", "C", "Dd", "E1", "Srv", "My", "Z9"}

// a Sysl Name token for an arbitrary string: letters stay, everything else is %HH (must start with a letter or an escape)
func syslName(s string) string {
	var b strings.Builder
	for i := 0; i < len(s); i++ {
		c := s[i]
		if (c >= 'a' && c <= 'z') || (c >= 'A' && c <= 'Z') || c == '_' || (i > 0 && c >= '0' && c <= '9') {
			b.WriteByte(c)
		} else {
			fmt.Fprintf(&b, "%%%02X", c)
		}
	}
	return b.String()
}

// what the parser will make of it (MustUnescape: PathUnescape + TrimSpace)
func syslNameMeaning(tok string) string {
	s, err := url.PathUnescape(tok)
	if err != nil {
		return tok
	}
	return strings.TrimSpace(s)
}

func qstr(s string) string {
	var b bytes.Buffer
	e := json.NewEncoder(&b)
	e.SetEscapeHTML(false)
	e.Encode(s)
	return strings.TrimSuffix(b.String(), "\n")
}

// ------------------------------------------------------------------ Sysl text generator
type genOpts struct{ hostileNames bool }

func genAttrs(r *common.Rng) string {
	if r.Chance(1, 2) {
		return ""
	}
	var it []string
	n := 1 + r.Intn(3)
	for i := 0; i < n; i++ {
		switch r.Intn(4) {
		case 0:
			it = append(it, "~"+[]string{"p", "q", "rest2", "abstract2", "t"}[r.Intn(5)])
		case 1:
			it = append(it, fmt.Sprintf("k%d=%s", r.Intn(3), qstr(hostile(r, 4))))
		case 2:
			it = append(it, fmt.Sprintf("arr%d=[%s, %s]", r.Intn(2), qstr(hostile(r, 3)), qstr(hostile(r, 2))))
		default:
			it = append(it, fmt.Sprintf("k%d=%s", r.Intn(3), qstr("v"+fmt.Sprint(r.Intn(3)))))
		}
	}
	// keys must be unique within one list
	seen := map[string]bool{}
	var out []string
	for _, a := range it {
		k := a
		if i := strings.Index(a, "="); i > 0 {
			k = a[:i]
		} else {
			k = "~"
		}
		if k != "~" && seen[k] {
			continue
		}
		seen[k] = true
		out = append(out, a)
	}
	return " [" + strings.Join(out, ", ") + "]"
}

type gApp struct {
	tok      string // name as written
	abstract bool
	eps      []string
}

func genStmts(r *common.Rng, apps []gApp, ind string, depth int, b *strings.Builder) {
	n := 1 + r.Intn(3)
	for i := 0; i < n; i++ {
		switch k := r.Intn(10); {
		case k < 4 && len(apps) > 0:
			a := apps[r.Intn(len(apps))]
			if len(a.eps) == 0 {
				fmt.Fprintf(b, "%sdo something\n", ind)
				continue
			}
			fmt.Fprintf(b, "%s%s <- %s%s\n", ind, a.tok, a.eps[r.Intn(len(a.eps))], genAttrs(r))
		case k < 6:
			fmt.Fprintf(b, "%sstep %d%s\n", ind, r.Intn(5), "")
		case k < 7:
			fmt.Fprintf(b, "%sreturn ok <: string\n", ind)
		case k < 8 && depth > 0:
			fmt.Fprintf(b, "%sif cond%d:\n", ind, r.Intn(3))
			genStmts(r, apps, ind+"    ", depth-1, b)
			if r.Bool() {
				fmt.Fprintf(b, "%selse:\n", ind)
				genStmts(r, apps, ind+"    ", depth-1, b)
			}
		case k < 9 && depth > 0:
			if r.Bool() {
				fmt.Fprintf(b, "%sloop:\n", ind)
			} else {
				fmt.Fprintf(b, "%sfor each x in xs:\n", ind)
			}
			genStmts(r, apps, ind+"    ", depth-1, b)
		case depth > 0:
			fmt.Fprintf(b, "%sone of:\n", ind)
			for j := 0; j < 2; j++ {
				fmt.Fprintf(b, "%s    case %d:\n", ind, j)
				genStmts(r, apps, ind+"        ", depth-1, b)
			}
		default:
			fmt.Fprintf(b, "%s...\n", ind)
		}
	}
}

func genSysl(r *common.Rng, o genOpts) string {
	na := 1 + r.Intn(4)
	var apps []gApp
	used := map[string]bool{}
	for i := 0; i < na; i++ {
		var tok string
		if o.hostileNames && r.Chance(1, 2) {
			tok = "N" + syslName(hostile(r, 3)) + fmt.Sprint(i)
		} else {
			tok = plainNames[r.Intn(len(plainNames))]
			if r.Chance(1, 5) {
				tok += " :: " + plainNames[r.Intn(len(plainNames))]
			}
		}
		if used[tok] {
			tok += fmt.Sprint(i)
		}
		used[tok] = true
		a := gApp{tok: tok, abstract: r.Chance(1, 3)}
		ne := r.Intn(4)
		for j := 0; j < ne; j++ {
			a.eps = append(a.eps, fmt.Sprintf("Ep%d", j))
		}
		apps = append(apps, a)
	}
	var b strings.Builder
	for ai, a := range apps {
		at := genAttrs(r)
		if a.abstract {
			at = " [~abstract]"
		}
		fmt.Fprintf(&b, "%s%s:\n", a.tok, at)
		empty := true
		if r.Chance(1, 3) {
			fmt.Fprintf(&b, "    @note = %s\n", qstr(hostile(r, 5)))
			empty = false
		}
		// mixins: chains are wanted (A -|> B -|> C)
		for bi, bapp := range apps {
			if bi != ai && bapp.abstract && r.Chance(1, 2) {
				fmt.Fprintf(&b, "    -|> %s\n", bapp.tok)
				empty = false
			}
		}
		nt := r.Intn(3)
		for j := 0; j < nt; j++ {
			fmt.Fprintf(&b, "    !type T%d%s:\n", r.Intn(4)*10+j, genAttrs(r))
			nf := 1 + r.Intn(3)
			for f := 0; f < nf; f++ {
				ty := []string{"int", "string", "string(5)", "decimal(5.2)", "sequence of string", "T1", "date", "bool?"}[r.Intn(8)]
				fmt.Fprintf(&b, "        f%d <: %s%s\n", f, ty, genAttrs(r))
			}
			empty = false
		}
		for _, ep := range a.eps {
			fmt.Fprintf(&b, "    %s%s:\n", ep, genAttrs(r))
			genStmts(r, apps, "        ", 2, &b)
			empty = false
		}
		if r.Chance(1, 4) {
			fmt.Fprintf(&b, "    /p%d/{id <: int}:\n        GET ?q=string%s:\n            return ok <: string\n", r.Intn(3), genAttrs(r))
			empty = false
		}
		if len(a.eps) > 0 && r.Chance(2, 3) {
			fmt.Fprintf(&b, "    .. * <- *:\n")
			n := 1 + r.Intn(3)
			scalarCollector := r.Bool() // scalar attributes only: re-import must then be exact
			for j := 0; j < n; j++ {
				at := genAttrs(r)
				if at == "" {
					at = " [~c]"
				}
				if scalarCollector {
					at = fmt.Sprintf(" [k%d=%s, s%d=%s]", r.Intn(3), qstr("v"+fmt.Sprint(r.Intn(3))), r.Intn(2), qstr(hostile(r, 2)))
				}
				if r.Bool() {
					fmt.Fprintf(&b, "        %s%s\n", a.eps[r.Intn(len(a.eps))], at)
				} else {
					t := apps[r.Intn(len(apps))]
					if len(t.eps) == 0 {
						fmt.Fprintf(&b, "        %s%s\n", a.eps[0], at)
					} else {
						fmt.Fprintf(&b, "        %s <- %s%s\n", t.tok, t.eps[r.Intn(len(t.eps))], at)
					}
				}
			}
			empty = false
		}
		if empty {
			fmt.Fprintf(&b, "    ...\n")
		}
	}
	return b.String()
}

// ------------------------------------------------------------------ compile
func compile(files map[string]string, root string) (m *sysl.Module, err error, panicked bool) {
	defer func() {
		if x := recover(); x != nil {
			m, err, panicked = nil, fmt.Errorf("panic: %v", x), true
		}
	}()
	fs := afero.NewMemMapFs()
	for n, c := range files {
		afero.WriteFile(fs, n, []byte(c), 0o644)
	}
	m, err = parse.NewParser().ParseFromFs(root, fs)
	return m, err, false
}

func corpusFiles(repo string) []string {
	var files []string
	filepath.Walk(repo, func(p string, info os.FileInfo, err error) error {
		if err == nil && !info.IsDir() && strings.HasSuffix(p, ".sysl") && info.Size() < 20000 && !strings.Contains(p, "/node_modules/") {
			files = append(files, strings.TrimPrefix(p, repo+"/"))
		}
		return nil
	})
	sort.Strings(files)
	return files
}

func compileCorpus(repo, rel string) (m *sysl.Module, err error) {
	defer func() {
		if x := recover(); x != nil {
			m, err = nil, fmt.Errorf("panic: %v", x)
		}
	}()
	fs := syslutil.NewChrootFs(afero.NewOsFs(), repo)
	return parse.NewParser().ParseFromFs(rel, fs)
}

// ------------------------------------------------------------------ encodings
type encoding struct {
	name    string // pb | json | textpb
	compact bool
	suffix  string
}

var encodings = []encoding{
	{"pb", false, ".pb"}, {"json", false, ".pb.json"}, {"json", true, ".pb.json"}, {"textpb", false, ".textpb"}, {"textpb", true, ".textpb"},
	{"pb", true, ".pb"},
}

func (e encoding) String() string {
	if e.compact {
		return e.name + "-compact"
	}
	return e.name + "-indented"
}

// bytes as the real writers produce them (file variant and writer variant must agree)
func encode(m proto.Message, e encoding) ([]byte, error) {
	fs := afero.NewMemMapFs()
	o := pbutil.OutputOptions{Compact: e.compact}
	var err error
	var w bytes.Buffer
	switch e.name {
	case "pb":
		err = pbutil.GeneratePBBinaryMessageFile(m, "out", fs)
		if err == nil {
			err = pbutil.GeneratePBBinaryMessage(&w, m)
		}
	case "json":
		err = pbutil.JSONPBWithOpt(m, "out", fs, o)
		if err == nil {
			err = pbutil.FJSONPBWithOpt(&w, m, o)
		}
	case "textpb":
		err = pbutil.TextPBWithOpt(m, "out", fs, o)
		if err == nil {
			err = pbutil.FTextPBWithOpt(&w, m, o)
		}
	}
	if err != nil {
		return nil, err
	}
	b, err := afero.ReadFile(fs, "out")
	if err != nil {
		return nil, err
	}
	if e.name != "pb" && !bytes.Equal(b, w.Bytes()) { // binary map order is not deterministic between two Marshal calls
		return nil, fmt.Errorf("file writer and stream writer disagree")
	}
	return b, nil
}

func decodeFile(name string, content []byte) (*sysl.Module, error) {
	fs := afero.NewMemMapFs()
	afero.WriteFile(fs, name, content, 0o644)
	return pbutil.FromPB(name, fs)
}

// ------------------------------------------------------------------ proto diff (paths of differences)
type diffItem struct {
	path []string
	kind string // "+" only in b, "-" only in a, "len" list length, "val" scalar
	a, b protoreflect.Value
}

func diffMsg(path []string, a, b protoreflect.Message, out *[]diffItem) {
	fds := a.Descriptor().Fields()
	for i := 0; i < fds.Len(); i++ {
		fd := fds.Get(i)
		p := append(append([]string{}, path...), string(fd.Name()))
		ha, hb := a.Has(fd), b.Has(fd)
		if !ha && !hb {
			continue
		}
		switch {
		case fd.IsMap():
			ma, mb := a.Get(fd).Map(), b.Get(fd).Map()
			keys := map[string]protoreflect.MapKey{}
			ma.Range(func(k protoreflect.MapKey, _ protoreflect.Value) bool { keys[k.String()] = k; return true })
			mb.Range(func(k protoreflect.MapKey, _ protoreflect.Value) bool { keys[k.String()] = k; return true })
			var ks []string
			for k := range keys {
				ks = append(ks, k)
			}
			sort.Strings(ks)
			for _, ks1 := range ks {
				k := keys[ks1]
				pk := append(append([]string{}, p...), "["+ks1+"]")
				switch {
				case !ma.Has(k):
					*out = append(*out, diffItem{path: pk, kind: "+"})
				case !mb.Has(k):
					*out = append(*out, diffItem{path: pk, kind: "-"})
				case fd.MapValue().Message() != nil:
					diffMsg(pk, ma.Get(k).Message(), mb.Get(k).Message(), out)
				default:
					if !ma.Get(k).Equal(mb.Get(k)) {
						*out = append(*out, diffItem{path: pk, kind: "val"})
					}
				}
			}
		case fd.IsList():
			la, lb := a.Get(fd).List(), b.Get(fd).List()
			if la.Len() != lb.Len() {
				*out = append(*out, diffItem{path: p, kind: "len", a: a.Get(fd), b: b.Get(fd)})
			}
			n := la.Len()
			if lb.Len() < n {
				n = lb.Len()
			}
			for j := 0; j < n; j++ {
				pj := append(append([]string{}, p...), fmt.Sprintf("#%d", j))
				if fd.Message() != nil {
					diffMsg(pj, la.Get(j).Message(), lb.Get(j).Message(), out)
				} else if !la.Get(j).Equal(lb.Get(j)) {
					*out = append(*out, diffItem{path: pj, kind: "val"})
				}
			}
		case fd.Message() != nil:
			if ha != hb {
				k := "+"
				if ha {
					k = "-"
				}
				*out = append(*out, diffItem{path: p, kind: k})
				continue
			}
			diffMsg(p, a.Get(fd).Message(), b.Get(fd).Message(), out)
		default:
			if !a.Get(fd).Equal(b.Get(fd)) {
				*out = append(*out, diffItem{path: p, kind: "val"})
			}
		}
	}
}

// list b = list a followed by repeats of elements of a ?
func onlyRepeats(a, b protoreflect.List) bool {
	if b.Len() <= a.Len() {
		return false
	}
	for i := 0; i < a.Len(); i++ {
		if !proto.Equal(a.Get(i).Message().Interface(), b.Get(i).Message().Interface()) {
			return false
		}
	}
	for i := a.Len(); i < b.Len(); i++ {
		found := false
		for j := 0; j < a.Len(); j++ {
			if proto.Equal(a.Get(j).Message().Interface(), b.Get(i).Message().Interface()) {
				found = true
			}
		}
		if !found {
			return false
		}
	}
	return true
}

func hasMixinChain(m *sysl.Module, appKey string) bool {
	a := m.Apps[appKey]
	if a == nil {
		return false
	}
	for _, s := range a.Mixin2 {
		src := syslutil.GetApp(s.Name, m)
		// a source that is processed AFTER this application (sorted later) and has mixins of its own
		if src != nil && len(src.Mixin2) > 0 && syslutil.GetAppName(s.Name) > appKey {
			return true
		}
	}
	return false
}

// the late arrival travels on: an application that mixes in (directly or through further mixins, in any sort order) an
// application with such a chain receives the late types one pass later still
func reachesMixinChain(m *sysl.Module, appKey string) bool {
	seen := map[string]bool{}
	var walk func(k string) bool
	walk = func(k string) bool {
		if seen[k] {
			return false
		}
		seen[k] = true
		if hasMixinChain(m, k) {
			return true
		}
		if a := m.Apps[k]; a != nil {
			for _, s := range a.Mixin2 {
				if walk(syslutil.GetAppName(s.Name)) {
					return true
				}
			}
		}
		return false
	}
	return walk(appKey)
}

// does the collector of this application carry an array-valued attribute?
func collectorHasArrayAttr(a *sysl.Application) bool {
	c := a.GetEndpoints()[collectorName]
	for _, s := range c.GetStmt() {
		for _, at := range s.Attrs {
			if _, ok := at.GetAttribute().(*sysl.Attribute_A); ok {
				return true
			}
		}
	}
	return false
}

// the side of the boundary of C09_post_idempotent: scalar collector attributes only, mixin sources settled
func insideBoundary(m *sysl.Module) bool {
	for k, a := range m.Apps {
		if collectorHasArrayAttr(a) || hasMixinChain(m, k) {
			return false
		}
	}
	return true
}

const collectorName = `.. * <- *`

// classify the differences between the applications of the original and of the re-imported module
func classifyReimport(orig, re *sysl.Module) map[string]string {
	keys := map[string]string{}
	names := map[string]bool{}
	for k := range orig.Apps {
		names[k] = true
	}
	for k := range re.Apps {
		names[k] = true
	}
	for k := range names {
		a, b := orig.Apps[k], re.Apps[k]
		if a == nil || b == nil {
			keys["reimport:app-set-differs"] = fmt.Sprintf("application %q present on one side only", k)
			continue
		}
		if proto.Equal(a, b) {
			continue
		}
		var ds []diffItem
		diffMsg([]string{"apps[" + k + "]"}, a.ProtoReflect(), b.ProtoReflect(), &ds)
		for _, d := range ds {
			p := strings.Join(d.path, ".")
			n := len(d.path)
			switch {
			case d.kind == "len" && n >= 4 && d.path[n-1] == "elt" && d.path[n-2] == "a" && strings.HasPrefix(d.path[n-3], "[") && d.path[n-4] == "attrs" &&
				len(d.path) > 2 && d.path[1] == "endpoints" && d.path[2] != "["+collectorName+"]" && collectorHasArrayAttr(a) && onlyRepeats(d.a.List(), d.b.List()):
				keys["reimport:collector-array-attr"] = fmt.Sprintf("%s: %d elements became %d (collector attributes appended again)", p, d.a.List().Len(), d.b.List().Len())
			case d.kind == "+" && n == 3 && (d.path[1] == "types" || d.path[1] == "views") && reachesMixinChain(orig, k):
				keys["reimport:mixin-chain"] = fmt.Sprintf("%s appears only after re-import (mixin of a mixin)", p)
			default:
				keys["reimport:differs"] = fmt.Sprintf("%s (%s)", p, d.kind)
			}
		}
	}
	return keys
}

// ------------------------------------------------------------------ source context stripping (own implementation)
func stripCtx(m protoreflect.Message) {
	m.Range(func(fd protoreflect.FieldDescriptor, v protoreflect.Value) bool {
		if fd.Name() == "source_context" || fd.Name() == "source_contexts" {
			m.Clear(fd)
			return true
		}
		switch {
		case fd.IsMap():
			if fd.MapValue().Message() != nil {
				v.Map().Range(func(_ protoreflect.MapKey, mv protoreflect.Value) bool { stripCtx(mv.Message()); return true })
			}
		case fd.IsList():
			if fd.Message() != nil {
				for i := 0; i < v.List().Len(); i++ {
					stripCtx(v.List().Get(i).Message())
				}
			}
		case fd.Message() != nil:
			stripCtx(v.Message())
		}
		return true
	})
}

// ------------------------------------------------------------------ the expression of the source tree under test
type srcRegex struct {
	lit, tmpl string
	re        *regexp.Regexp
}

func readSourceRegex(repo string) (*srcRegex, error) {
	fset := token.NewFileSet()
	f, err := parser.ParseFile(fset, filepath.Join(repo, "pkg/pbutil/output.go"), nil, 0)
	if err != nil {
		return nil, err
	}
	vars := map[string]string{}
	out := &srcRegex{}
	ast.Inspect(f, func(n ast.Node) bool {
		switch x := n.(type) {
		case *ast.ValueSpec:
			if len(x.Names) == 1 && len(x.Values) == 1 {
				if c, ok := x.Values[0].(*ast.CallExpr); ok && len(c.Args) == 1 {
					if s, ok := c.Fun.(*ast.SelectorExpr); ok && s.Sel.Name == "MustCompile" {
						if bl, ok := c.Args[0].(*ast.BasicLit); ok {
							if v, err := strconv.Unquote(bl.Value); err == nil {
								vars[x.Names[0].Name] = v
							}
						}
					}
				}
			}
		case *ast.CallExpr:
			if s, ok := x.Fun.(*ast.SelectorExpr); ok && s.Sel.Name == "ReplaceAll" && len(x.Args) == 2 {
				if id, ok := s.X.(*ast.Ident); ok {
					if lit, ok := vars[id.Name]; ok {
						out.lit = lit
						if c, ok := x.Args[1].(*ast.CallExpr); ok && len(c.Args) == 1 {
							if bl, ok := c.Args[0].(*ast.BasicLit); ok {
								out.tmpl, _ = strconv.Unquote(bl.Value)
							}
						}
					}
				}
			}
		}
		return true
	})
	if out.lit == "" {
		return nil, fmt.Errorf("no ReplaceAll of a package-level regexp in output.go")
	}
	out.re, err = regexp.Compile(out.lit)
	return out, err
}

// ------------------------------------------------------------------ reading protojson's lines
func gl(s string) string { return "(B " + common.GString(s) + ")" }

// one line of multi-line protojson output as a Gallina `line`
func classifyLine(l string) (string, bool) {
	i := 0
	for i < len(l) && l[i] == ' ' {
		i++
	}
	rest := l[i:]
	if rest == "" {
		return "", false
	}
	if rest[0] != '"' {
		return fmt.Sprintf("LOther %d (Ch %d) %s", i, rest[0], gl(rest[1:])), true
	}
	// closing quote
	j := 1
	for j < len(rest) && rest[j] != '"' {
		if rest[j] == '\\' {
			j++
		}
		j++
	}
	if j >= len(rest) {
		return "", false
	}
	var s string
	if err := json.Unmarshal([]byte(rest[:j+1]), &s); err != nil {
		return "", false
	}
	after := rest[j+1:]
	if strings.HasPrefix(after, ": ") {
		v := after[2:]
		salt := false
		if strings.HasPrefix(v, " ") {
			salt = true
			v = v[1:]
		}
		return fmt.Sprintf("LKey %d %s %s %s", i, gl(s), common.GBool(salt), gl(v)), true
	}
	return fmt.Sprintf("LStr %d %s %s", i, gl(s), gl(after)), true
}

// ------------------------------------------------------------------ small messages with hostile strings
func genAttribute(r *common.Rng, depth int) *sysl.Attribute {
	switch k := r.Intn(6); {
	case k < 3:
		return &sysl.Attribute{Attribute: &sysl.Attribute_S{S: hostile(r, 5)}}
	case k < 4:
		return &sysl.Attribute{Attribute: &sysl.Attribute_I{I: int64(r.Intn(1000)) - 500}}
	case k < 5 && depth > 0:
		a := &sysl.Attribute_Array{}
		n := r.Intn(4)
		for i := 0; i < n; i++ {
			a.Elt = append(a.Elt, genAttribute(r, depth-1))
		}
		return &sysl.Attribute{Attribute: &sysl.Attribute_A{A: a}}
	default:
		return &sysl.Attribute{Attribute: &sysl.Attribute_N{N: float64(r.Intn(100)) / 4}}
	}
}

func genMessage(r *common.Rng) proto.Message {
	app := &sysl.Application{Name: &sysl.AppName{}}
	n := 1 + r.Intn(3)
	for i := 0; i < n; i++ {
		app.Name.Part = append(app.Name.Part, hostile(r, 4))
	}
	na := r.Intn(4)
	if na > 0 {
		app.Attrs = map[string]*sysl.Attribute{}
	}
	for i := 0; i < na; i++ {
		app.Attrs[hostile(r, 4)] = genAttribute(r, 2)
	}
	if r.Chance(1, 3) {
		app.LongName = hostile(r, 6)
	}
	if r.Chance(1, 3) {
		app.Endpoints = map[string]*sysl.Endpoint{hostile(r, 4): {Name: hostile(r, 3), Docstring: hostile(r, 5), IsPubsub: r.Bool()}}
	}
	if r.Chance(1, 4) {
		return app
	}
	return &sysl.Module{Apps: map[string]*sysl.Application{hostile(r, 5): app}}
}

// ------------------------------------------------------------------ dispatch probes
type probes struct{ bin, js, txt []byte }

func mkProbes() probes {
	m := &sysl.Module{Apps: map[string]*sysl.Application{"P": {Name: &sysl.AppName{Part: []string{"P"}}, LongName: "probe"}}}
	var p probes
	p.bin, _ = encode(m, encodings[0])
	p.js, _ = encode(m, encodings[1])
	p.txt, _ = encode(m, encodings[3])
	return p
}

func decoderName(okBin, okJS, okTxt, unknown bool) string {
	switch {
	case unknown:
		return "DecUnknown"
	case okBin && !okJS && !okTxt:
		return "DecBinary"
	case okJS && !okBin && !okTxt:
		return "DecJson"
	case okTxt && !okBin && !okJS:
		return "DecText"
	}
	return "DecOther"
}

func isProbe(m *sysl.Module) bool {
	return m != nil && m.Apps["P"] != nil && m.Apps["P"].LongName == "probe"
}

func observeDispatch(p probes, path string) (string, string) {
	var ok [3]bool
	unknown := 0
	for i, c := range [][]byte{p.bin, p.js, p.txt} {
		m, err := pbutil.FromPBStringContents(path, string(c))
		if errors.Is(err, pbutil.ErrUnknownExtension) {
			unknown++
			continue
		}
		ok[i] = err == nil && isProbe(m)
	}
	d := decoderName(ok[0], ok[1], ok[2], unknown == 3)
	if unknown != 0 && unknown != 3 {
		d = "DecOther"
	}
	var okf [3]bool
	for i, c := range [][]byte{p.bin, p.js, p.txt} {
		m, err := decodeFile(path, c)
		okf[i] = err == nil && isProbe(m)
	}
	return d, decoderName(okf[0], okf[1], okf[2], false)
}

// ------------------------------------------------------------------ CPost projection
type interner struct {
	set map[string]bool
	id  map[string]int
}

func newInterner() *interner { return &interner{set: map[string]bool{}} }
func (in *interner) add(ns, s string) { in.set[ns+"\x00"+s] = true }
func (in *interner) freeze() {
	var ks []string
	for k := range in.set {
		ks = append(ks, k)
	}
	sort.Strings(ks)
	in.id = map[string]int{}
	for i, k := range ks {
		in.id[k] = i + 2
	}
}
func (in *interner) get(ns, s string) string { return strconv.Itoa(in.id[ns+"\x00"+s]) }

func detBytes(m proto.Message) string {
	b, _ := proto.MarshalOptions{Deterministic: true}.Marshal(m)
	return string(b)
}

type projector struct {
	in    *interner
	print bool
}

func (p *projector) name(ns, s string) string {
	if !p.print {
		p.in.add(ns, s)
		return ""
	}
	return p.in.get(ns, s)
}

func (p *projector) attrs(m map[string]*sysl.Attribute) string {
	var ks []string
	for k := range m {
		ks = append(ks, k)
	}
	sort.Strings(ks)
	var it []string
	for _, k := range ks {
		a := m[k]
		var v string
		if arr, ok := a.GetAttribute().(*sysl.Attribute_A); ok && arr.A != nil {
			meta := proto.Clone(a).(*sysl.Attribute)
			meta.Attribute = &sysl.Attribute_A{A: &sysl.Attribute_Array{}}
			var es []string
			for _, e := range arr.A.Elt {
				es = append(es, p.name("elt", detBytes(e)))
			}
			v = "AArr " + p.name("meta", detBytes(meta)) + " [" + strings.Join(es, ";") + "]"
		} else {
			v = "AVal " + p.name("val", detBytes(a))
		}
		it = append(it, "("+p.name("n", k)+", "+v+")")
	}
	return "[" + strings.Join(it, ";") + "]"
}

func (p *projector) stmts(ss []*sysl.Statement) string {
	var it []string
	for _, s := range ss {
		it = append(it, p.stmt(s))
	}
	return "[" + strings.Join(it, ";") + "]"
}

func (p *projector) stmt(s *sysl.Statement) string {
	switch x := s.GetStmt().(type) {
	case *sysl.Statement_Call:
		return "SCall " + p.name("t", strings.Join(x.Call.GetTarget().GetPart(), "\x01")) + " " + p.name("n", x.Call.GetEndpoint()) + " " + p.attrs(s.Attrs)
	case *sysl.Statement_Action:
		return "SAction " + p.name("n", x.Action.GetAction()) + " " + p.attrs(s.Attrs)
	case *sysl.Statement_Ret:
		return "SRet"
	case *sysl.Statement_Cond:
		return "SBlock " + p.stmts(x.Cond.GetStmt())
	case *sysl.Statement_Loop:
		return "SBlock " + p.stmts(x.Loop.GetStmt())
	case *sysl.Statement_LoopN:
		return "SBlock " + p.stmts(x.LoopN.GetStmt())
	case *sysl.Statement_Foreach:
		return "SBlock " + p.stmts(x.Foreach.GetStmt())
	case *sysl.Statement_Group:
		return "SBlock " + p.stmts(x.Group.GetStmt())
	case *sysl.Statement_Alt:
		var ch []string
		for _, c := range x.Alt.GetChoice() {
			ch = append(ch, "SBlock "+p.stmts(c.GetStmt()))
		}
		return "SAlt [" + strings.Join(ch, ";") + "]"
	}
	return "SBad"
}

func (p *projector) module(m *sysl.Module) string {
	var ks []string
	for k := range m.GetApps() {
		ks = append(ks, k)
	}
	sort.Strings(ks)
	var apps []string
	for _, k := range ks {
		a := m.Apps[k]
		var mix []string
		for _, s := range a.Mixin2 {
			mix = append(mix, p.name("n", syslutil.GetAppName(s.Name)))
		}
		kv := func(ns string, keys []string, val func(string) string) string {
			sort.Strings(keys)
			var it []string
			for _, n := range keys {
				it = append(it, "("+p.name("n", n)+", "+p.name(ns, val(n))+")")
			}
			return "[" + strings.Join(it, ";") + "]"
		}
		var tn, vn, en []string
		for n := range a.Types {
			tn = append(tn, n)
		}
		for n := range a.Views {
			vn = append(vn, n)
		}
		for n := range a.Endpoints {
			en = append(en, n)
		}
		sort.Strings(en)
		var eps []string
		for _, n := range en {
			e := a.Endpoints[n]
			eps = append(eps, "("+p.name("n", n)+", E "+p.attrs(e.Attrs)+" "+p.stmts(e.Stmt)+")")
		}
		apps = append(apps, "("+p.name("n", k)+", A ["+strings.Join(mix, ";")+"] "+
			kv("ty", tn, func(n string) string { return detBytes(a.Types[n]) })+" "+
			kv("vw", vn, func(n string) string { return detBytes(a.Views[n]) })+" ["+strings.Join(eps, ";")+"])")
	}
	return "[" + strings.Join(apps, ";") + "]"
}

// the Gallina case for: module `in` imported through x.pb gave `out` (nil: the compile panicked)
func postCase(in, out *sysl.Module) string {
	it := newInterner()
	p := &projector{in: it}
	it.add("n", collectorName)
	p.module(in)
	if out != nil {
		p.module(out)
	}
	it.freeze()
	p.print = true
	o := "None"
	if out != nil {
		o = "(Some " + p.module(out) + ")"
	}
	return "CPost " + it.get("n", collectorName) + " " + p.module(in) + " " + o
}

// ------------------------------------------------------------------ modules built directly (route 2)
// knobs: collAttr 0 = scalar collector attributes only, 1 = arrays only, 2 = mixed;
// mixin 0 = random edges, 1..3 = a chain of that depth plus noise, forward (A -|> B -|> C, sources sorted later:
// unsettled from depth 2) or backward (D -|> C -|> B, sources sorted earlier: settled)
func genAbstract(r *common.Rng, collAttr, mixin int, backward bool) *sysl.Module {
	m := &sysl.Module{Apps: map[string]*sysl.Application{}}
	names := []string{"A", "B", "C", "D"}
	na := 1 + r.Intn(4)
	if mixin > 0 && na < mixin+1 {
		na = mixin + 1
	}
	epn := []string{"E0", "E1", "E2"}
	keys := []string{"patterns", "k1", "k2"}
	scalarOnly, arrayOnly := false, false
	mkAttr := func() *sysl.Attribute {
		if !scalarOnly && (arrayOnly || r.Chance(2, 3)) {
			a := &sysl.Attribute_Array{}
			n := r.Intn(3)
			for i := 0; i < n; i++ {
				a.Elt = append(a.Elt, &sysl.Attribute{Attribute: &sysl.Attribute_S{S: []string{"p", "q", "r"}[r.Intn(3)]}})
			}
			return &sysl.Attribute{Attribute: &sysl.Attribute_A{A: a}}
		}
		return &sysl.Attribute{Attribute: &sysl.Attribute_S{S: []string{"x", "y"}[r.Intn(2)]}}
	}
	mkAttrs := func() map[string]*sysl.Attribute {
		n := r.Intn(3)
		if n == 0 {
			return nil
		}
		o := map[string]*sysl.Attribute{}
		for i := 0; i < n; i++ {
			o[keys[r.Intn(len(keys))]] = mkAttr()
		}
		return o
	}
	call := func() *sysl.Statement {
		return &sysl.Statement{Stmt: &sysl.Statement_Call{Call: &sysl.Call{Target: &sysl.AppName{Part: []string{names[r.Intn(na)]}}, Endpoint: epn[r.Intn(len(epn))]}}, Attrs: mkAttrs()}
	}
	var stmts func(d int) []*sysl.Statement
	stmts = func(d int) []*sysl.Statement {
		var o []*sysl.Statement
		n := r.Intn(4)
		for i := 0; i < n; i++ {
			switch k := r.Intn(8); {
			case k < 4:
				o = append(o, call())
			case k < 5:
				o = append(o, &sysl.Statement{Stmt: &sysl.Statement_Action{Action: &sysl.Action{Action: "act"}}, Attrs: mkAttrs()})
			case k < 6:
				if r.Chance(1, 25) {
					o = append(o, &sysl.Statement{}) // no kind: the collector code panics on it when it walks by
				} else {
					o = append(o, &sysl.Statement{Stmt: &sysl.Statement_Ret{Ret: &sysl.Return{Payload: "ok"}}})
				}
			case k < 7 && d > 0:
				o = append(o, &sysl.Statement{Stmt: &sysl.Statement_Loop{Loop: &sysl.Loop{Mode: sysl.Loop_WHILE, Criterion: "c", Stmt: stmts(d - 1)}}})
			case d > 0:
				o = append(o, &sysl.Statement{Stmt: &sysl.Statement_Alt{Alt: &sysl.Alt{Choice: []*sysl.Alt_Choice{{Cond: "a", Stmt: stmts(d - 1)}, {Cond: "b", Stmt: stmts(d - 1)}}}}})
			default:
				o = append(o, call())
			}
		}
		return o
	}
	for i := 0; i < na; i++ {
		a := &sysl.Application{Name: &sysl.AppName{Part: []string{names[i]}}}
		if r.Chance(1, 2) {
			a.Attrs = map[string]*sysl.Attribute{"patterns": {Attribute: &sysl.Attribute_A{A: &sysl.Attribute_Array{Elt: []*sysl.Attribute{{Attribute: &sysl.Attribute_S{S: "abstract"}}}}}}}
		}
		switch {
		case mixin == 0:
			for j := 0; j < 4; j++ {
				if j != i && r.Chance(1, 3) {
					a.Mixin2 = append(a.Mixin2, &sysl.Application{Name: &sysl.AppName{Part: []string{names[j]}}})
				}
			}
		case !backward && i < mixin:
			a.Mixin2 = append(a.Mixin2, &sysl.Application{Name: &sysl.AppName{Part: []string{names[i+1]}}})
		case backward && i >= 1 && i <= mixin:
			a.Mixin2 = append(a.Mixin2, &sysl.Application{Name: &sysl.AppName{Part: []string{names[i-1]}}})
		}
		nt := r.Intn(3)
		if mixin > 0 {
			nt = 1 + r.Intn(2)
		}
		for j := 0; j < nt; j++ {
			if a.Types == nil {
				a.Types = map[string]*sysl.Type{}
			}
			a.Types[fmt.Sprintf("T%d", r.Intn(4))] = &sysl.Type{Type: &sysl.Type_Primitive_{Primitive: sysl.Type_Primitive(1 + i)}, Docstring: names[i]}
		}
		ne := r.Intn(4)
		for j := 0; j < ne; j++ {
			if a.Endpoints == nil {
				a.Endpoints = map[string]*sysl.Endpoint{}
			}
			n := epn[r.Intn(len(epn))]
			a.Endpoints[n] = &sysl.Endpoint{Name: n, Attrs: mkAttrs(), Stmt: stmts(2)}
		}
		if r.Chance(2, 3) {
			if a.Endpoints == nil {
				a.Endpoints = map[string]*sysl.Endpoint{}
			}
			c := &sysl.Endpoint{Name: collectorName}
			n := 1 + r.Intn(4)
			for j := 0; j < n; j++ {
				scalarOnly, arrayOnly = collAttr == 0, collAttr == 1
				at := mkAttrs()
				if at == nil {
					at = map[string]*sysl.Attribute{"patterns": mkAttr()}
				}
				scalarOnly, arrayOnly = false, false
				if r.Chance(1, 40) {
					c.Stmt = append(c.Stmt, &sysl.Statement{Stmt: &sysl.Statement_Ret{Ret: &sysl.Return{Payload: "ok"}}, Attrs: at})
				} else if r.Bool() {
					c.Stmt = append(c.Stmt, &sysl.Statement{Stmt: &sysl.Statement_Action{Action: &sysl.Action{Action: epn[r.Intn(len(epn))]}}, Attrs: at})
				} else {
					s := call()
					s.Attrs = at
					c.Stmt = append(c.Stmt, s)
				}
			}
			a.Endpoints[collectorName] = c
		}
		// a kind-less statement outside an application whose collector has a call statement would not be met by the
		// collector but by checkEndpointCalls at the end of postProcess, which panics on it or not depending on map
		// order (it stops at the first invalid call): keep them where the outcome is determined
		hasCollCall := false
		for _, s := range a.Endpoints[collectorName].GetStmt() {
			if s.GetCall() != nil {
				hasCollCall = true
			}
		}
		if !hasCollCall {
			for _, e := range a.Endpoints {
				giveKinds(e.Stmt)
			}
		}
		m.Apps[names[i]] = a
	}
	return m
}

func giveKinds(ss []*sysl.Statement) {
	for _, s := range ss {
		switch x := s.Stmt.(type) {
		case nil:
			s.Stmt = &sysl.Statement_Ret{Ret: &sysl.Return{Payload: "ok"}}
		case *sysl.Statement_Loop:
			giveKinds(x.Loop.Stmt)
		case *sysl.Statement_Alt:
			for _, c := range x.Alt.Choice {
				giveKinds(c.Stmt)
			}
		}
	}
}

// ------------------------------------------------------------------ main
const openapiJSON = `{"openapi": "3.0.0", "info": {"title": "Pet", "version": "1"}, "paths": {"/pets": {"get": {"responses": {"200": {"description": "ok"}}}}}}`

type runner struct {
	c      *common.Ctx
	clean  *common.Cases
	disp   *common.Cases
	post   *common.Cases
	re     *srcRegex
	nJSONCoq int
	files    *common.Cases
	fileBudget int
	prev     map[string][]byte // the longest earlier output per encoding: what a re-used output path may hold
	cleanBytes int
	rot      int
	allImports bool // re-import through every encoding (thorough, regression, replay); otherwise .pb and one other in rotation
	syslBin    string
	cliNames   map[string]bool
	cliCases   []cliCase
	fieldsSeen map[string]bool
	noSplit    bool
	cliRot     int
	partner    *sysl.Module // the module judged before: the second model of the overlapping encodes
	overlapRot int
	noOverlap  bool
	encs       *common.Cases
	mrng       *common.Rng
	orng       *common.Rng // the overlap streams draw from their own generator: the other streams stay as they were
}

func (rn *runner) failf(key string, rp replay, format string, a ...interface{}) {
	rn.c.Fail(key, fmt.Sprintf(format, a...), rp)
}

// all oracle clauses on one module; base describes how to rebuild it
func (rn *runner) judgeModule(m *sysl.Module, base replay, label string, jsonToCoq bool, reimport bool) {
	c := rn.c
	rn.noteFields(m.ProtoReflect())
	if !rn.noSplit {
		rn.splitInProcess(m, base, label)
	}
	if !rn.noOverlap {
		rn.overlapWithPrevious(m, base, label)
	}
	for ei, e := range encodings {
		rp := base
		rp.Enc, rp.Compact, rp.Via = e.name, e.compact, "decode"
		b, err := encode(m, e)
		if err != nil {
			rn.failf("encode-error:"+e.name, rp, "%s: %s encoder failed: %v", label, e, err)
			continue
		}
		rn.fileOverwrite(m, e, b, rp, label)
		if e.name == "json" && !json.Valid(b) {
			rn.failf("json:malformed", rp, "%s: %s output is not well-formed JSON", label, e)
		}
		m2, err := decodeFile("x"+e.suffix, b)
		if err != nil {
			rn.failf("roundtrip:"+e.name+":decode-error", rp, "%s: %s output does not decode: %v", label, e, err)
			continue
		}
		if !proto.Equal(m, m2) {
			var ds []diffItem
			diffMsg(nil, m.ProtoReflect(), m2.ProtoReflect(), &ds)
			what := "?"
			if len(ds) > 0 {
				what = strings.Join(ds[0].path, ".") + " (" + ds[0].kind + ")"
			}
			rn.failf("roundtrip:"+e.name+":differs", rp, "%s: decoding the %s output gives a different model: %s", label, e, what)
		}
		// byte-stable: encoding what was decoded gives the same bytes again
		if b2, err := encode(m2, e); err != nil || !bytes.Equal(b, b2) {
			rn.failf("roundtrip:"+e.name+":unstable-bytes", rp, "%s: encoding the decoded %s output again gives other bytes (%d, then %d; %v)", label, e, len(b), len(b2), err)
		}
		c.Hist("roundtrip:" + e.String())
		rn.rot++
		if reimport && !(e.name == "pb" && e.compact) && (e.name == "pb" || rn.allImports || (rn.rot/6)%4 == ei-1) {
			rp.Via = "import"
			re, err, panicked := compile(map[string]string{"root.sysl": "import x" + e.suffix + "\n", "x" + e.suffix: string(b)}, "root.sysl")
			switch {
			case panicked:
				rn.failf("reimport:panic", rp, "%s: compiling `import x%s` panics: %v", label, e.suffix, err)
			case err != nil:
				rn.failf("reimport:error", rp, "%s: compiling `import x%s` fails: %v", label, e.suffix, err)
			default:
				for k, what := range classifyReimport(m, re) {
					rn.failf(k, rp, "%s: `import x%s` (%s) does not reproduce the applications: %s", label, e.suffix, e, what)
				}
				c.Hist("reimport:" + e.String())
			}
			if e.name == "pb" && rn.post != nil {
				if panicked {
					re = nil
				}
				if err == nil || panicked {
					rn.post.Add(postCase(m, re), rp)
				}
			}
		}
	}
	if jsonToCoq {
		rn.jsonCase(m, base)
	}
}

// the file writers (the functions `sysl pb -o` uses) onto a path that already holds (a) a longer earlier output,
// (b) a shorter one, (c) unrelated bytes: the file must afterwards decode to the model that was written
func (rn *runner) fileOverwrite(m proto.Message, e encoding, fresh []byte, base replay, label string) {
	if rn.prev == nil {
		rn.prev = map[string][]byte{}
	}
	longer := rn.prev[e.String()]
	if len(longer) <= len(fresh) {
		longer = append(append([]byte{}, fresh...), fresh...)
	}
	if len(fresh) > len(rn.prev[e.String()]) && len(fresh) < 20000 {
		rn.prev[e.String()] = fresh
	}
	olds := []struct {
		kind string
		b    []byte
	}{{"longer", longer}, {"shorter", fresh[:len(fresh)/2]}, {"unrelated", []byte("unrelated bytes, not a model: \x00\x01 {]\n and some more of them ........................................")}}
	writer := map[string]string{"pb": "GeneratePBBinaryMessageFile", "json": "JSONPBWithOpt", "textpb": "TextPBWithOpt"}[e.name]
	for _, o := range olds {
		rp := base
		rp.Via, rp.Note = "file-overwrite", "path held "+o.kind+" content before"
		fs := afero.NewMemMapFs()
		name := "out" + e.suffix
		afero.WriteFile(fs, name, o.b, 0o644)
		var err error
		opt := pbutil.OutputOptions{Compact: e.compact}
		switch e.name {
		case "pb":
			err = pbutil.GeneratePBBinaryMessageFile(m, name, fs)
		case "json":
			err = pbutil.JSONPBWithOpt(m, name, fs, opt)
		case "textpb":
			err = pbutil.TextPBWithOpt(m, name, fs, opt)
		}
		if err != nil {
			rn.failf("encode-error:"+e.name, rp, "%s: %s file writer failed on an existing path: %v", label, e, err)
			continue
		}
		content, _ := afero.ReadFile(fs, name)
		want := len(fresh)
		if e.name == "pb" {
			want = proto.Size(m)
		}
		key := ""
		if mm, ok := m.(*sysl.Module); ok {
			m2, derr := pbutil.FromPB(name, fs)
			if derr != nil || !proto.Equal(mm, m2) {
				key = "roundtrip:" + e.name + ":file-overwrite"
			}
		}
		if e.name == "json" && !json.Valid(content) {
			key = "json:malformed:file-overwrite"
		}
		if key != "" || len(content) != want {
			if len(content) > want {
				key = "roundtrip:" + e.name + ":stale-tail"
			} else if key == "" {
				key = "roundtrip:" + e.name + ":file-overwrite"
			}
			rn.failf(key, rp, "%s: %s written with %s onto a path that held %s content (%d bytes): the file now has %d bytes instead of %d and does not decode to the model", label, e, writer, o.kind, len(o.b), len(content), want)
		}
		rn.c.Hist("file-overwrite:" + o.kind)
		if rn.files != nil && e.name != "pb" && len(fresh) <= 2500 && len(o.b) <= 6000 && rn.files.N() < rn.fileBudget {
			rn.files.Add(fmt.Sprintf("CFile %s (Some %s) %s %s", common.GString(writer), common.GString(string(o.b)), common.GString(string(fresh)), common.GString(string(content))), rp)
		}
	}
}

// CJson / CCompact for one message
func (rn *runner) jsonCase(m proto.Message, base replay) {
	opts := protojson.MarshalOptions{Multiline: true, Indent: " "}
	raw, err := opts.Marshal(m)
	if err != nil {
		return
	}
	if len(raw) > 12000 { // a Coq string literal of this length is a term that deep: keep clear of coqc's stack limit
		rn.c.Hist("json-to-coq:skipped-too-large")
		return
	}
	var w bytes.Buffer
	if err := pbutil.FJSONPBWithOpt(&w, m, pbutil.OutputOptions{}); err != nil {
		return
	}
	rn.cleanBytes += 3 * len(raw)
	if rn.cleanBytes > 300000 {
		rn.clean.Close() // next Add opens a new shard
		rn.cleanBytes = 0
	}
	rp := base
	rp.Enc = "json"
	var ls []string
	ok := true
	for _, l := range strings.Split(string(raw), "\n") {
		g, k := classifyLine(l)
		if !k {
			ok = false
			break
		}
		ls = append(ls, g)
	}
	if !ok {
		ls = []string{"LOther 0 (Ch 63) (B \"unreadable line\")"} // forces a mismatch: the harness could not read the output
	}
	rn.clean.Add(fmt.Sprintf("CJson [%s]\n %s\n %s", strings.Join(ls, ";\n "), common.GString(string(raw)), common.GString(w.String())), rp)
	rn.nJSONCoq++
	rawc, err := protojson.MarshalOptions{}.Marshal(m)
	if err == nil {
		var wc bytes.Buffer
		if pbutil.FJSONPBWithOpt(&wc, m, pbutil.OutputOptions{Compact: true}) == nil {
			rp.Compact = true
			rn.clean.Add(fmt.Sprintf("CCompact %s %s", common.GString(string(rawc)), common.GString(wc.String())), rp)
		}
	}
}

func (rn *runner) regexCase(doc string) {
	out := rn.re.re.ReplaceAll([]byte(doc), []byte(rn.re.tmpl))
	rn.clean.Add(fmt.Sprintf("CClean %s %s", common.GString(doc), common.GString(string(out))), replay{Kind: "regex", Doc: doc})
	rn.c.Count("regex|"+doc, strings.Contains(doc, "\"") && strings.Contains(doc, ":"))
	if string(out) != doc {
		rn.c.Hist("regex:changed")
	} else {
		rn.c.Hist("regex:unchanged")
	}
}

func genDoc(r *common.Rng) string {
	var b strings.Builder
	n := 1 + r.Intn(5)
	for i := 0; i < n; i++ {
		if i > 0 {
			b.WriteString("\n")
		}
		switch r.Intn(4) {
		case 0: // protojson-like key line
			b.WriteString(strings.Repeat(" ", r.Intn(4)))
			k, _ := json.Marshal(hostile(r, 3))
			b.Write(k)
			b.WriteString(":" + strings.Repeat(" ", r.Intn(4)))
			b.WriteString(hostile(r, 3))
		case 1: // key-like with raw pieces (unterminated, odd escapes)
			b.WriteString([]string{"", " ", "\t", " \r", "\f "}[r.Intn(5)])
			b.WriteString(`"` + hostile(r, 4) + `": ` + []string{"", " ", "  "}[r.Intn(3)] + hostile(r, 2))
		case 2:
			b.WriteString(hostile(r, 6))
		default:
			b.WriteString(strings.Repeat(" ", r.Intn(3)))
		}
	}
	return b.String()
}

func (rn *runner) dispatchCase(p probes, path string) {
	d, fd := observeDispatch(p, path)
	rn.disp.Add(fmt.Sprintf("CDispatch %s %s %s", common.GString(path), d, fd), replay{Kind: "dispatch", Path: path})
	rn.c.Count("dispatch|"+path, true)
	rn.c.Hist("dispatch:" + d)
}

// a .json file that is not a compiled model must stay with the OpenAPI importer
func (rn *runner) foreignJSON(name string) {
	rp := replay{Kind: "foreign-json", Path: name}
	m, err, panicked := compile(map[string]string{"root.sysl": "import " + name + " as Foreign :: Api ~openapi3\n", name: openapiJSON}, "root.sysl")
	rn.c.Count("foreign|"+name, true)
	if panicked || err != nil {
		rn.failf("dispatch:foreign-json-not-imported", rp, "`import %s` of an OpenAPI 3 document fails: %v", name, err)
		return
	}
	if m.Apps["Foreign :: Api"] == nil || len(m.Apps["Foreign :: Api"].Endpoints) == 0 {
		rn.failf("dispatch:foreign-json-not-imported", rp, "`import %s` of an OpenAPI 3 document does not yield the application with its endpoint", name)
	}
	rn.c.Hist("foreign-json:ok")
}

func main() {
	logrus.SetLevel(logrus.PanicLevel)
	debug.SetGCPercent(400)
	if pf := os.Getenv("C09_PROF"); pf != "" {
		f, _ := os.Create(pf)
		pprof.StartCPUProfile(f)
		defer pprof.StopCPUProfile()
	}
	c := common.Setup("C09")
	defer c.Finish()
	repo := os.Getenv("VERIF_REPO")
	if repo == "" {
		repo = "/repo"
	}
	c.Res.Rule = "cases: (a) modules - repository corpus files, generated Sysl text (apps/types/endpoints/collectors/mixins, attribute strings and URL-escaped names over an alphabet of quotes, backslashes, colons, spaces, newlines, control and non-ASCII bytes, key-like text) compiled by the real parser, and modules built directly - each x 6 encodings decoded back x 5 re-imports; (b) messages with hostile keys/strings through the real JSON writer, lines read back and compared in Coq; (c) byte documents through the source's expression with Go's regexp; (d) file names through the decoder dispatch; (e) an OpenAPI .json import. distinct = distinct module bytes / document / name; non-trivial = module has a string with a quote or backslash, or a collector, or a mixin; document has a quote and a colon"
	re, err := readSourceRegex(repo)
	if err != nil {
		fmt.Fprintln(os.Stderr, "cannot read the clean-up expression from the source:", err)
		os.Exit(3)
	}
	c.Res.Extra["regex_literal"] = re.lit
	rn := &runner{orng: common.NewRng(c.Seed ^ 0x09e9), mrng: common.NewRng(c.Seed ^ 0x3e79e), c: c, re: re, syslBin: os.Getenv("VERIF_SYSL_BIN"), cliNames: map[string]bool{}, fieldsSeen: map[string]bool{}}

	if c.Replay != "" {
		var rp replay
		if err := common.LoadReplay(c.Replay, &rp); err != nil {
			fmt.Fprintln(os.Stderr, err)
			os.Exit(3)
		}
		rn.replay(rp, repo)
		fmt.Printf("replay %s: failures=%d\n", rp.Kind, len(c.Res.Failures))
		for _, f := range c.Res.Failures {
			fmt.Println("  ", f.Key, f.What)
		}
		return
	}

	hdrClean := `From Coq Require Import String Ascii List Bool NArith. Import ListNotations.
Require Import Verif.Base.Harness Verif.Codec.JsonClean Verif.Codec.Dispatch Verif.Codec.PostProcess Verif.Codec.Run Verif.Codec.RunSrc.
Local Open Scope string_scope.`
	hdrPost := `From Coq Require Import String Ascii List Bool NArith PArith. Import ListNotations.
Require Import Verif.Base.Harness Verif.Codec.JsonClean Verif.Codec.Dispatch Verif.Codec.PostProcess Verif.Codec.Run Verif.Codec.RunSrc.
Local Open Scope positive_scope.
Definition A := @Build_app attr. Definition E := @Build_endpoint attr.`
	hdrCli := `From Coq Require Import String Ascii List Bool NArith PArith. Import ListNotations.
Require Import Verif.Base.Harness Verif.Codec.StripCtx Verif.Codec.Run Verif.Codec.RunSrc.
Local Open Scope string_scope.
Local Open Scope positive_scope.`
	footer := `Definition M := Eval vm_compute in mismatches (c09_ok src) cases. Print M.`
	rn.clean = c.NewCases("C09clean", hdrClean, "c09_case", footer, 120)
	rn.disp = c.NewCases("C09disp", hdrClean, "c09_case", footer, 2000)
	rn.post = c.NewCases("C09post", hdrPost, "c09_case", footer, 150)
	rn.files = c.NewCases("C09file", hdrClean, "c09_case", footer, 250)
	hdrEnc := `From Coq Require Import String List Bool NArith. Import ListNotations.
Require Import Verif.Base.Harness Verif.Codec.EncState Verif.Codec.Run Verif.Codec.RunSrc.`
	rn.encs = c.NewCases("C09enc", hdrEnc, "c09_case", footer, 50)
	rn.fileBudget = 600
	if c.Thorough() {
		rn.fileBudget = 4000
	}

	scale := 1
	if c.Thorough() {
		scale = 6
	}
	if c.Search {
		scale *= 3
	}

	t0 := time.Now()
	lap := func(what string) {
		c.Res.Extra["seconds:"+what] = float64(int(time.Since(t0).Seconds()*10)) / 10
		t0 = time.Now()
	}
	// 0. regression corpus: the two probed defects and the shapes of Appendix B
	rn.allImports = true
	for _, src := range regressionSysl {
		rn.syslCase(src, "regression")
	}
	rn.allImports = c.Thorough()
	for _, d := range regressionDocs {
		rn.regexCase(d)
	}
	for i, n := range []string{"api.json", "dir/pet.json", "x.pb.yaml.json"} {
		if i == 0 || c.Thorough() || c.Search {
			rn.foreignJSON(n)
		}
	}
	lap("regression")

	// 1. dispatch: bounded-exhaustive stems x suffixes
	pr := mkProbes()
	stems := []string{"", "a", "x.pb", ".pb", "m.textpb", "dir/x", "x.json", "a.b", "x.pb.json", "pb", "x.", "é", "x.PB"}
	sufs := []string{".pb", ".pb.json", ".textpb", ".json", ".yaml", ".yml", ".sysl", ".proto", ".PB", ".pb.jsonx", ".pbjson", "pb", ".pb.", ".textpb.json", ".pb.txt", "", ".textp", "textpb", ".Pb.json", ".jso"}
	for _, s := range stems {
		for _, x := range sufs {
			rn.dispatchCase(pr, s+x)
		}
	}

	lap("dispatch")
	// 2. generated Sysl text
	nGen := 40 * scale
	for i := 0; i < nGen; i++ {
		rn.syslCase(genSysl(c.Rng, genOpts{hostileNames: i%2 == 0}), "generated")
	}
	lap("generated")
	// 3. modules built directly
	nAbs := 60 * scale
	for i := 0; i < nAbs; i++ {
		m := genAbstract(c.Rng, i%3, (i/3)%4, (i/12)%2 == 1)
		b := detBytes(m)
		c.Count("abstract|"+b, true)
		c.Hist("module:abstract")
		rn.abstractCase(m)
	}
	lap("abstract")
	// 4. repository corpus
	files := corpusFiles(repo)
	c.Res.Extra["corpus_files"] = len(files)
	nCorpus := 15
	if c.Thorough() {
		nCorpus = len(files)
	}
	perm := make([]int, len(files))
	for i := range perm {
		perm[i] = i
	}
	for i := len(perm) - 1; i > 0; i-- {
		j := c.Rng.Intn(i + 1)
		perm[i], perm[j] = perm[j], perm[i]
	}
	done := 0
	for _, pi := range perm {
		if done >= nCorpus {
			break
		}
		m, err := compileCorpus(repo, files[pi])
		if err != nil || m == nil {
			c.Hist("corpus:does-not-compile-alone")
			continue
		}
		done++
		c.Count("corpus|"+files[pi], nontrivialModule(m))
		c.Hist("module:corpus")
		rn.judgeModule(m, replay{Kind: "corpus", Path: files[pi]}, "corpus file "+files[pi], false, true)
		if done%6 == 0 {
			s := proto.Clone(m).(*sysl.Module)
			stripCtx(s.ProtoReflect())
			if proto.Size(s) < 4000 {
				rn.jsonCase(s, replay{Kind: "corpus", Path: files[pi], Note: "source contexts dropped"})
			}
		}
	}
	lap("corpus")
	// 5. small messages through the JSON writer
	nMsg := 300 * scale
	for i := 0; i < nMsg; i++ {
		m := genMessage(c.Rng)
		c.Count("msg|"+detBytes(m), true)
		c.Hist("message")
		rp := replay{Kind: "msg", Doc: protojson.Format(m)}
		rn.jsonCase(m, rp)
		if mod, ok := m.(*sysl.Module); ok {
			rn.judgeModule(mod, rp, "message with hostile strings", false, false)
		}
	}
	lap("messages")
	// 6. documents through the expression
	nDoc := 1000 * scale
	for i := 0; i < nDoc; i++ {
		rn.regexCase(genDoc(c.Rng))
	}
	lap("documents")
	// 7. any message of sysl.proto (every field, maps with 0 / 1 / many entries, deep trees) through all encoders,
	//    file writers and the split writer
	nAny := 30 * scale
	for i := 0; i < nAny; i++ {
		m := genAnyModule(c.Rng, 1+i%4, 30+(i%3)*25, i, 8)
		c.Count("any|"+detBytes(m), true)
		c.Hist("module:any-message")
		rn.judgeModule(m, replay{Kind: "any", Doc: protojson.Format(m)}, "module with arbitrary fields", false, false)
	}
	lap("any-message")
	// 8. the command line itself
	if rn.syslBin == "" {
		c.Res.Notes = append(c.Res.Notes, "VERIF_SYSL_BIN not set: the `sysl pb` binary was not run")
	} else {
		rn.cliStreams(scale)
	}
	lap("cli")
	// 9. schedules of encoder calls and partial reads through writers that block, against the model
	rn.scheduleCases(150 * scale)
	lap("schedules")
	// 10. a compiled model imported together with text that re-opens its applications
	for _, p := range regressionMerge {
		rn.mergeCase(p[0], p[1], encodings[0], "regression")
	}
	for i := 0; i < 30*scale; i++ {
		rn.mergeCase(genSysl(rn.mrng, genOpts{hostileNames: i%3 == 0}), "", []encoding{encodings[0], encodings[1], encodings[3], encodings[2], encodings[4]}[i%5], "generated")
	}
	lap("merge")
	rn.flushCli(hdrCli, footer)
	var all, never []string
	allFields((&sysl.Module{}).ProtoReflect().Descriptor(), map[string]bool{}, &all)
	for _, f := range all {
		if !rn.fieldsSeen[f] {
			never = append(never, f)
		}
	}
	sort.Strings(never)
	c.Res.Extra["sysl_proto_fields"] = len(all)
	c.Res.Extra["sysl_proto_fields_never_populated"] = never
	rn.clean.Close()
	rn.disp.Close()
	rn.post.Close()
	rn.files.Close()
	rn.encs.Close()
	c.Res.Extra["json_documents_compared_in_coq"] = rn.nJSONCoq
}

// a module built directly is first compiled (import of its .pb: post-processing runs for the first time, compared
// with the model), and the compiled model is then judged like any other
func (rn *runner) abstractCase(m0 *sysl.Module) {
	rp := replay{Kind: "abstract", Doc: protojson.Format(m0)}
	b, err := encode(m0, encodings[0])
	if err != nil {
		return
	}
	m1, err, panicked := compile(map[string]string{"root.sysl": "import x.pb\n", "x.pb": string(b)}, "root.sysl")
	if panicked {
		rn.c.Hist("abstract:first-compile-panics")
		if rn.post != nil {
			rn.post.Add(postCase(m0, nil), rp)
		}
		return
	}
	if err != nil && strings.Contains(err.Error(), "cannot be processed") {
		// the panic of the post-processing, recovered by finishModule and reported as an error
		rn.c.Hist("abstract:first-compile-panics")
		if rn.post != nil {
			rn.post.Add(postCase(m0, nil), rp)
		}
		return
	}
	if err != nil || m1 == nil {
		rn.c.Hist("abstract:first-compile-error")
		return
	}
	if rn.post != nil {
		rn.post.Add(postCase(m0, m1), rp)
	}
	if insideBoundary(m0) {
		rn.c.Hist("abstract:inside-idempotence-condition")
	} else {
		rn.c.Hist("abstract:outside-idempotence-condition")
	}
	rn.judgeModule(m1, rp, "module built directly, compiled", false, true)
}

// the streams of the command line: Sysl text using the whole language, generated specifications, arbitrary
// messages on stdin, a compiled model named as MODULE
var regressionCli = []string{
	// an application name that is no UTF-8: every encoder refuses it, and so must every destination of the command
	"A%FF:\n    E: ...\nB:\n    E: ...\n",
	// names that are one path to --split-apps
	"A :: B:\n    E: ...\nA%2FB:\n    F: ...\n",
	// a pubsub subscriber: Endpoint.source must survive --compact (its Go name merely starts with "Source")
	"Pub:\n    <-> Evt [~e]: ...\nSub [k=\"v\"]:\n    Pub -> Evt:\n        do it\n    !type T:\n        x <: int\n    !view v(a <: int) -> int:\n        a -> (:\n            y = a + 1\n        )\n",
}

func (rn *runner) cliSysl(src, stream string, toCoq bool) {
	files := map[string]string{"m.sysl": src}
	rn.c.Hist("cli-input:" + stream)
	rn.cliInputCase(cliInput{kind: "sysl", files: files, root: "m.sysl"}, nil, replay{Kind: "sysl", Files: files, Root: "m.sysl"}, stream+" specification", false, toCoq)
}

func (rn *runner) cliStreams(scale int) {
	c := rn.c
	for _, s := range regressionCli {
		rn.cliSysl(s, "regression", true)
		if m, err, panicked := compile(map[string]string{"m.sysl": s}, "m.sysl"); !panicked && err == nil && m != nil {
			rn.splitInProcess(m, replay{Kind: "sysl", Files: map[string]string{"m.sysl": s}, Root: "m.sysl"}, "regression specification")
		}
	}
	rn.cliSysl(genRichSysl(c.Rng, 0), "whole-language", true)
	for i := 0; i < 2*scale; i++ {
		rn.cliSysl(genRichSysl(c.Rng, 1+i), "whole-language", i < 4)
	}
	for i := 0; i < 2*scale; i++ {
		rn.cliSysl(genSysl(c.Rng, genOpts{hostileNames: i%2 == 0}), "generated", true)
	}
	for i := 0; i < 3*scale; i++ {
		m := genAnyModule(c.Rng, 1+i%3, 40+(i%3)*20, 1000+i, 12)
		b, err := proto.MarshalOptions{Deterministic: true}.Marshal(m)
		if err != nil {
			continue
		}
		rn.noteFields(m.ProtoReflect())
		c.Hist("cli-input:stdin-pb")
		rn.cliInputCase(cliInput{kind: "stdin-pb", stdin: b}, m, replay{Kind: "any", Doc: protojson.Format(m)}, "arbitrary module on stdin", false, true)
	}
	// a compiled model named as MODULE, under each suffix: it is decoded, merged and post-processed again
	for i := 0; i < 1*scale; i++ {
		src := genSysl(c.Rng, genOpts{})
		m, err, panicked := compile(map[string]string{"m.sysl": src}, "m.sysl")
		if panicked || err != nil || m == nil {
			continue
		}
		e := []encoding{encodings[0], encodings[1], encodings[3], encodings[2], encodings[4]}[(i+int(c.Seed))%5]
		b, err := encode(m, e)
		if err != nil {
			continue
		}
		name := "x" + e.suffix
		c.Hist("cli-input:compiled-as-module" + e.suffix)
		rn.cliInputCase(cliInput{kind: "file" + e.suffix, files: map[string]string{name: string(b)}, root: name}, m,
			replay{Kind: "sysl", Files: map[string]string{"m.sysl": src}, Root: "m.sysl", Note: "compiled to " + name + " and given to `sysl pb` as MODULE"}, "compiled model as MODULE", true, false)
	}
}

func nontrivialModule(m *sysl.Module) bool {
	b := detBytes(m)
	if strings.ContainsAny(b, "\"\\") {
		return true
	}
	for _, a := range m.Apps {
		if len(a.Mixin2) > 0 || a.Endpoints[collectorName] != nil {
			return true
		}
	}
	return false
}

func (rn *runner) syslCase(src, stream string) {
	c := rn.c
	files := map[string]string{"m.sysl": src}
	m, err, panicked := compile(files, "m.sysl")
	if panicked || err != nil || m == nil {
		c.Hist("sysl:" + stream + ":does-not-compile")
		if len(c.Res.Notes) < 5 {
			c.Res.Notes = append(c.Res.Notes, fmt.Sprintf("generated text did not compile (%v): %q", err, src))
		}
		return
	}
	c.Count("sysl|"+src, nontrivialModule(m))
	c.Hist("module:" + stream)
	for _, a := range m.Apps {
		if a.Endpoints[collectorName] != nil {
			c.Hist("module-with-collector")
			break
		}
	}
	for k := range m.Apps {
		if hasMixinChain(m, k) {
			c.Hist("module-with-mixin-chain")
			break
		}
	}
	if insideBoundary(m) {
		c.Hist("sysl:inside-idempotence-condition")
	} else {
		c.Hist("sysl:outside-idempotence-condition")
	}
	c.Sample(map[string]interface{}{"stream": stream, "sysl": src})
	small := len(src) < 400
	rn.judgeModule(m, replay{Kind: "sysl", Files: files, Root: "m.sysl"}, stream+" specification", false, true)
	if small || stream == "regression" {
		s := proto.Clone(m).(*sysl.Module)
		stripCtx(s.ProtoReflect())
		rn.jsonCase(s, replay{Kind: "sysl", Files: files, Root: "m.sysl", Note: "source contexts dropped"})
	}
}

var regressionSysl = []string{
	// the probed JSON defect: application name  A":  B
	"A%22%3A%20%20B:\n    !type T:\n        x <: string\n",
	// the same text in an attribute value, an array element and a type name part
	"App [k=\"v\\\":  w\", arr=[\"a\\\":  b\", \"c\"]]:\n    @note = \"x\\\\\\\":  y\"\n    E:\n        ...\n",
	// collector with array attributes (re-import appends them again)
	"A [~x]:\n    E1 [~e]:\n        B <- F\n        ...\n    E2:\n        ...\n    .. * <- *:\n        E2 [~q, k=\"v\"]\n        B <- F [~t]\nB:\n    F:\n        ...\n",
	// mixin chain
	"A:\n    -|> B\n    !type TA:\n        x <: int\nB [~abstract]:\n    -|> C\n    !type TB:\n        x <: int\nC [~abstract]:\n    !type TC:\n        x <: int\n",
	// a collector statement whose own array attribute is shared with its target and grows again on re-import
	"A:\n    E2:\n        ...\n    .. * <- *:\n        E2 [arr=[\"a\"]]\n        E2 [arr=[\"a\", \"b\"]]\n        E2 [arr=\"s\"]\n",
	// the late arrival travels on: B mixes in A (sorted before it), and A -|> C -|> D is a chain whose links are sorted after A
	"A [~abstract]:\n    -|> C\n    !type TA:\n        x <: int\nB:\n    -|> A\n    !type TB:\n        x <: int\nC [~abstract]:\n    -|> D\n    !type TC:\n        x <: int\nD [~abstract]:\n    !type TD:\n        x <: int\n",
	// newline, non-ASCII, control bytes in names and values
	"N%0A%C3%A9%01x [k=\"line\\nbreak \\u00e9 \\t\"]:\n    E:\n        ...\n",
}

// {first part (compiled and imported), text that re-opens it}
var regressionMerge = [][2]string{
	// the documented use: annotations, a type, an endpoint and a caller added to an application of the compiled model
	{"A:\n    !type T:\n        x <: int\n    E:\n        ...\n", "A:\n    @extra = \"v\"\n    !type U:\n        y <: string\n    F:\n        A <- E\nB:\n    G:\n        A <- E\n"},
	// an endpoint of the compiled model re-opened with more statements
	{"A:\n    E [~p]:\n        first\n", "A:\n    E [~q]:\n        second\n"},
}

var regressionDocs = []string{
	"{\n \"A\\\":  B\":  {}\n}", "{\n \"A\\\":  B\": {}\n}", " \"k\":  1", "\"k\":  \"v\":  2", "x \"k\":  1", "\n\n \"k\":  1\n", " \"a\\\\\":  1", " \"a\\\n\":  1",
	"[\n \"a\\\":  b\"\n]", " \"k\": \":  x\"", "\t\"k\":  1\r\n \"j\":  2", " \"unterminated:  1\n \"k\":  2", " \"k\":   3", "\"\":  0",
}

func (rn *runner) replay(rp replay, repo string) {
	if rp.Via == "overlap" || rp.Via == "sequential" {
		rn.replayOverlap(rp, repo)
		return
	}
	switch rp.Kind {
	case "merge":
		rn.mergeCase(rp.Files["s1.sysl"], rp.Files["s2.sysl"], encoding{rp.Enc, rp.Compact, modeExt[rp.Enc]}, "replayed")
	case "schedule":
		if rp.Sched != nil {
			rn.runSchedule(*rp.Sched)
		}
	case "sysl":
		m, err, _ := compile(rp.Files, rp.Root)
		if err != nil {
			fmt.Println("does not compile:", err)
			return
		}
		rn.post = nil
		rn.clean = nil
		rn.files = nil
		rn.judgeModuleOnly(m, rp)
		rn.cliInputCase(cliInput{kind: "sysl", files: rp.Files, root: rp.Root}, nil, rp, "replayed specification", false, false)
	case "any":
		m := &sysl.Module{}
		if err := protojson.Unmarshal([]byte(rp.Doc), m); err != nil {
			fmt.Println("replay message is not a module:", err)
			return
		}
		rn.post, rn.clean, rn.files = nil, nil, nil
		rn.judgeModule(m, rp, "replayed module", false, false)
		if b, err := (proto.MarshalOptions{Deterministic: true}).Marshal(m); err == nil {
			rn.cliInputCase(cliInput{kind: "stdin-pb", stdin: b}, m, rp, "replayed module on stdin", false, false)
		}
	case "corpus":
		m, err := compileCorpus(repo, rp.Path)
		if err != nil {
			fmt.Println("does not compile:", err)
			return
		}
		rn.judgeModuleOnly(m, rp)
	case "abstract":
		m := &sysl.Module{}
		if err := protojson.Unmarshal([]byte(rp.Doc), m); err != nil {
			fmt.Println("replay message is not a module:", err)
			return
		}
		rn.post, rn.clean, rn.files, rn.allImports = nil, nil, nil, true
		rn.abstractCase(m)
	case "msg":
		m := &sysl.Module{}
		if err := protojson.Unmarshal([]byte(rp.Doc), m); err != nil {
			fmt.Println("replay message is not a module:", err)
			return
		}
		rn.post, rn.clean, rn.files = nil, nil, nil
		rn.judgeModule(m, rp, "replayed message", false, false)
	case "regex":
		out := rn.re.re.ReplaceAll([]byte(rp.Doc), []byte(rn.re.tmpl))
		fmt.Printf("document %q\n cleaned %q\n", rp.Doc, out)
	case "dispatch":
		d, fd := observeDispatch(mkProbes(), rp.Path)
		fmt.Printf("%q: FromPBStringContents -> %s, FromPB -> %s\n", rp.Path, d, fd)
	case "foreign-json":
		rn.foreignJSON(rp.Path)
	}
	rn.c.Count("replay", true)
}

func (rn *runner) judgeModuleOnly(m *sysl.Module, rp replay) {
	rn.post, rn.clean, rn.files, rn.allImports = nil, nil, nil, true
	base := rp
	base.Enc, base.Via = "", ""
	rn.judgeModule(m, base, "replayed module", false, true)
}

// the module a replay descriptor stands for
func moduleOfReplay(rp replay, repo string) *sysl.Module {
	switch rp.Kind {
	case "sysl":
		m, err, _ := compile(rp.Files, rp.Root)
		if err != nil {
			return nil
		}
		return m
	case "corpus":
		m, err := compileCorpus(repo, rp.Path)
		if err != nil {
			return nil
		}
		return m
	case "any", "msg", "abstract":
		m := &sysl.Module{}
		if err := protojson.Unmarshal([]byte(rp.Doc), m); err != nil {
			return nil
		}
		if rp.Kind == "abstract" {
			b, err := encode(m, encodings[0])
			if err != nil {
				return nil
			}
			m1, err, panicked := compile(map[string]string{"root.sysl": "import x.pb\n", "x.pb": string(b)}, "root.sysl")
			if panicked || err != nil {
				return nil
			}
			return m1
		}
		return m
	}
	return nil
}

func (rn *runner) replayOverlap(rp replay, repo string) {
	m := moduleOfReplay(rp, repo)
	p := &sysl.Module{}
	if m == nil || protojson.Unmarshal([]byte(rp.Partner), p) != nil {
		fmt.Println("cannot rebuild the two modules of the replay")
		return
	}
	base := rp
	base.Enc, base.Via, base.Partner, base.Note = "", "", "", ""
	rn.overlapPair(m, p, base, "replayed module", true)
	rn.c.Count("replay", true)
}
