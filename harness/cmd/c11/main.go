// C11: importers emit valid Sysl containing everything the foreign specification defines.
//
//	names.go   byte-level streams through the real getSyslSafeName / MustUnescape / lexer (tie of Foreign/NameEscape.v)
//	docs.go    generated OpenAPI 2 / XSD / OpenAPI 3 / SQL documents through importer.Factory(...).Load, the real
//	           parser on the result, and a model-independent completeness oracle
package main

import (
	"encoding/json"
	"fmt"
	"os"
	"runtime/debug"
	"time"

	"verifharness/common"
)

func main() {
	// the code under test prints syntax errors and warnings; keep our own channel apart
	realOut := os.Stdout
	if dn, err := os.OpenFile(os.DevNull, os.O_WRONLY, 0); err == nil {
		if !common.IsWorker() {
			os.Stdout = dn
		}
		os.Stderr = dn
	}
	if common.IsWorker() {
		// unbounded recursion in the code under test should end quickly, not after filling 1 GB of stack
		debug.SetMaxStack(96 << 20)
		common.ServeWorker(docWorker)
		return
	}
	c := common.Setup("C11")
	defer c.Finish()
	worker = common.NewWorker()
	defer worker.Close()
	c.Res.Rule = "name cases: byte strings (all 256 single bytes, each byte between two letters, all pairs and (thorough: all, quick: sampled) triples of a 30-symbol hostile alphabet, keywords, random strings); distinct = distinct byte string; non-trivial = escaping changes the string (names), contains % or outer white space (unescape), lexes as one Name (lexer). Document cases: seeded abstract documents (2-5 schemas: objects with 1-9 primitive / $ref / array / inline-object properties and a required list of any length, array / enum / primitive definitions, acyclic references; 1-4 path+method endpoints with path / query / header / body parameters and 1-3 responses) rendered as OpenAPI 2 JSON, OpenAPI 3 JSON, XSD, or CREATE TABLE DDL (postgres / mysql / spanner), with plain, hostile (\" = @ ~ . : + $ & blanks non-ASCII ...) or keyword / builtin names; one case = one document imported twice and compiled; non-trivial = the document has at least one property"
	if c.Replay != "" {
		b, err := os.ReadFile(c.Replay)
		if err != nil {
			fmt.Fprintln(os.Stderr, err)
			os.Exit(3)
		}
		var w struct {
			Replay json.RawMessage `json:"replay"`
		}
		if err := json.Unmarshal(b, &w); err != nil {
			fmt.Fprintln(os.Stderr, err)
			os.Exit(3)
		}
		var probe struct {
			Kind string `json:"kind"`
		}
		json.Unmarshal(w.Replay, &probe)
		switch probe.Kind {
		case "name", "unescape", "lex":
			var rp nameReplay
			json.Unmarshal(w.Replay, &rp)
			os.Stdout = realOut
			replayName(c, rp)
		case "doc":
			var d doc
			if err := json.Unmarshal(w.Replay, &d); err != nil {
				fmt.Fprintln(os.Stderr, err)
				os.Exit(3)
			}
			text, _ := render(d)
			o := judgeDoc(c, d)
			c.Count("replay", true)
			fmt.Fprintf(realOut, "---- document (%s)\n%s\n---- imported text (err=%q)\n%s\n---- compile err=%q second-import-identical=%v failures=%d\n", d.Format, text, o.ImpErr, o.ImpText, o.CompErr, o.Same, len(c.Res.Failures))
			for _, f := range c.Res.Failures {
				fmt.Fprintln(realOut, "FAIL", f.Key, f.What)
			}
		default:
			fmt.Fprintln(os.Stderr, "unknown replay kind", probe.Kind)
			os.Exit(3)
		}
		return
	}
	tn := time.Now()
	namesStream(c)
	c.Res.Notes = append(c.Res.Notes, fmt.Sprintf("name streams: %.1fs", time.Since(tn).Seconds()))
	docsStream(c)
}
