// C11: importers emit valid Sysl containing everything the foreign specification defines.
//
//	names.go   byte-level streams through the real getSyslSafeName / MustUnescape / lexer (tie of Foreign/NameEscape.v)
//	docs.go    generated OpenAPI 2 / XSD / OpenAPI 3 / SQL documents through importer.Factory(...).Load, the real
//	           parser on the result, and a model-independent completeness oracle
package main

import (
	"encoding/json"
	"fmt"
	"os"
	"runtime/debug"
	"time"

	"verifharness/common"
)

func main() {
	// the code under test prints syntax errors and warnings; keep our own channel apart
	realOut := os.Stdout
	if dn, err := os.OpenFile(os.DevNull, os.O_WRONLY, 0); err == nil {
		if !common.IsWorker() {
			os.Stdout = dn
		}
		os.Stderr = dn
	}
	if common.IsWorker() {
		// unbounded recursion in the code under test should end quickly, not after filling 1 GB of stack
		debug.SetMaxStack(96 << 20)
		common.ServeWorker(docWorker)
		return
	}
	c := common.Setup("C11")
	defer c.Finish()
	worker = common.NewWorker()
	defer worker.Close()
	c.Res.Rule = "name cases: byte strings (all 256 single bytes, each byte between two letters, all pairs and (thorough: all, quick: sampled) triples of a 30-symbol hostile alphabet, keywords, random strings); distinct = distinct byte string; non-trivial = escaping changes the string (names), contains % or outer white space (unescape), lexes as one Name (lexer). Document cases: seeded abstract documents (2-5 schemas: objects with 1-9 primitive / $ref / array / inline-object properties and a required list of any length, array / enum / primitive definitions, acyclic references; 1-4 path+method endpoints with path / query / header / body parameters and 1-3 responses) rendered as OpenAPI 2 JSON, OpenAPI 3 JSON, XSD, or CREATE TABLE DDL (postgres / mysql / spanner), with plain, hostile (\" = @ ~ . : + $ & blanks non-ASCII ...) or keyword / builtin names; one case = one document imported and compiled, then imported again (Go-writer path: 16 imports in one process; the first media-type documents also once in each of 16 fresh processes; arr.ai path: 2-4 imports), every text byte-identical; non-trivial = the document has at least one property. Type x format stream: every OpenAPI type (string, integer, number, boolean) with no format, with each of the 10 formats the importer's table lists for any type and with 12 unlisted formats (uint32, uint64, int16, int8, decimal, email, password, hostname, ipv4, time, currency, x-custom), each pair as a property, an array-item property, a top-level definition, a top-level array definition, a path / query / header parameter and a (plain / array) response (OpenAPI 2: all 92 pairs every run; OpenAPI 3: 8 pairs per quick run rotating with the seed, all in thorough). Media-type stream: 1-3 paths x 1-3 methods, body in 2-4 request media types (operation- or document-level consumes / several requestBody.content entries), 1-3 response media types, 1-4 responses per operation incl. default with $ref / array / primitive / no schema. XSD builtins stream: elements and attributes over 18 builtin types. Nested stream (OpenAPI 2): 3-6 definitions over inline objects to depth 3 (also empty), inline enums, arrays and arrays of arrays of any of these, array definitions of inline objects / arrays / $ref to array definitions, allOf with $ref and inline parts and own properties (diamonds included), definitions that are a $ref, builtin-prefixed names; plus three literal documents (allOf diamond, a definition named like a generated inline type, an allOf that redeclares a property). Hostile-parameter stream: one operation with ONE hostile name - a path / query / header parameter name out of 26 or a static path segment out of 24 (characters that need escaping, keywords, native type words, leading digit, non-ASCII) - every (role, name) pair once in thorough, 36 per quick run rotating with the seed. Parameter-name stream: documents with an operation of 12 required string query parameters and one of 12 required string header parameters over names built from a 40-symbol alphabet (one symbol between / before / behind letters, hostile names, random strings, everyday names); the two method lines of the imported text are compared with the model (no compile)"
	if c.Replay != "" {
		b, err := os.ReadFile(c.Replay)
		if err != nil {
			fmt.Fprintln(os.Stderr, err)
			os.Exit(3)
		}
		var w struct {
			Replay json.RawMessage `json:"replay"`
		}
		if err := json.Unmarshal(b, &w); err != nil {
			fmt.Fprintln(os.Stderr, err)
			os.Exit(3)
		}
		var probe struct {
			Kind string `json:"kind"`
		}
		json.Unmarshal(w.Replay, &probe)
		switch probe.Kind {
		case "name", "unescape", "lex":
			var rp nameReplay
			json.Unmarshal(w.Replay, &rp)
			os.Stdout = realOut
			replayName(c, rp)
		case "doc":
			var d doc
			if err := json.Unmarshal(w.Replay, &d); err != nil {
				fmt.Fprintln(os.Stderr, err)
				os.Exit(3)
			}
			text, _ := render(d)
			o := judgeDoc(c, d)
			c.Count("replay", true)
			fmt.Fprintf(realOut, "---- document (%s)\n%s\n---- imported text (err=%q)\n%s\n---- compile err=%q second-import-identical=%v failures=%d\n", d.Format, text, o.ImpErr, o.ImpText, o.CompErr, o.Same, len(c.Res.Failures))
			for _, f := range c.Res.Failures {
				fmt.Fprintln(realOut, "FAIL", f.Key, f.What)
			}
		default:
			fmt.Fprintln(os.Stderr, "unknown replay kind", probe.Kind)
			os.Exit(3)
		}
		return
	}
	tn := time.Now()
	if os.Getenv("C11_ONLY") == "" {
		namesStream(c)
	}
	c.Res.Notes = append(c.Res.Notes, fmt.Sprintf("name streams: %.1fs", time.Since(tn).Seconds()))
	docsStream(c)
}
