// Nested OpenAPI 2 schemas (C11, deepen round 3 second pass): inline objects to any depth, arrays of arrays, arrays of
// inline objects, inline enums, allOf (with $ref and inline parts and own properties), definitions that are a
// $ref to another definition (oneOf is not OpenAPI 2: kin-openapi's conversion does not rewrite the references inside
// it, such a document loads only from a file on disk). Generator, the oracle's helpers for these shapes, and the Gallina printer for
// Foreign/NestedSpec.v.
package main

import (
	"fmt"
	"strings"

	"github.com/anz-bank/sysl/pkg/sysl"

	"verifharness/common"
)

// ---------------------------------------------------------------- oracle helpers

func (j *judgeCtx) schemaByName(n string) (schema, bool) {
	for _, s := range j.d.Schemas {
		if s.Name == n {
			return s, true
		}
	}
	return schema{}, false
}

// resolveAlias: the definition a chain of `$ref` definitions ends in
func (j *judgeCtx) resolveAlias(s schema) schema {
	for i := 0; i < 8 && s.Kind == "alias"; i++ {
		t, ok := j.schemaByName(s.Elem.Ref)
		if !ok {
			break
		}
		s = t
	}
	return s
}

// effProps: the properties an object-like definition has: those of its allOf parts (a $ref part: the target's), then
// its own. The generator keeps the names of different parts apart.
func (j *judgeCtx) effProps(s schema, depth int) []prop {
	if depth > 8 {
		return nil
	}
	s = j.resolveAlias(s)
	var out []prop
	for _, pt := range s.Parts {
		switch pt.Kind {
		case "ref":
			if t, ok := j.schemaByName(pt.Ref); ok {
				out = append(out, j.effProps(t, depth+1)...)
			}
		case "obj":
			out = append(out, pt.Obj.Props...)
		}
	}
	out = append(out, s.Props...)
	// the same definition may arrive through two parts (a diamond): its properties count once
	var uniq []prop
	seen := map[string]bool{}
	for _, p := range out {
		if !seen[p.Name] {
			seen[p.Name] = true
			uniq = append(uniq, p)
		}
	}
	return uniq
}

// inlineTypeNames: the names the importer gives the types it generates for inline objects (definition name and
// property names joined by "_"), as far as they can be read off the document
func inlineTypeNames(d doc) map[string]bool {
	out := map[string]bool{}
	var walk func(prefix string, s schema)
	walk = func(prefix string, s schema) {
		for _, p := range s.Props {
			if p.T.Kind == "obj" {
				n := prefix + "_" + p.Name
				out[n] = true
				walk(n, *p.T.Obj)
			}
		}
	}
	for _, s := range d.Schemas {
		walk(s.Name, s)
	}
	return out
}

// shadowedDoc: a definition whose name is the name the importer generates for an inline object of another one
// (known finding; proved: C11_definition_shadowed_by_inline_type_refuted)
func shadowedDoc() doc {
	str := ptype{Kind: "prim", Prim: "string"}
	return doc{Kind: "doc", Format: "swagger", Stream: "oas2-nested-shadowed", Schemas: []schema{
		{Name: "A", Kind: "object", Props: []prop{{Name: "b", T: ptype{Kind: "obj", Obj: &schema{Kind: "object", Props: []prop{{Name: "q", T: ptype{Kind: "prim", Prim: "integer"}}}}}}}},
		{Name: "A_b", Kind: "object", Props: []prop{{Name: "other", T: str}, {Name: "more", T: ptype{Kind: "prim", Prim: "boolean"}}}},
		{Name: "H", Kind: "object", Props: []prop{{Name: "x", T: ptype{Kind: "ref", Ref: "A_b"}}}},
	}}
}

// redeclaredDoc: an allOf whose own properties declare a property of a part again, differently (here: the part
// requires it, the redeclaration does not) - legal OpenAPI, the importer fails (known finding; proved:
// C11_allof_redeclared_property_refuted)
func redeclaredDoc() doc {
	str := ptype{Kind: "prim", Prim: "string"}
	return doc{Kind: "doc", Format: "swagger", Stream: "oas2-nested-redeclared", Schemas: []schema{
		{Name: "Base", Kind: "object", Props: []prop{{Name: "id", T: str, Required: true}}, ReqOrder: []string{"id"}},
		{Name: "Own", Kind: "allof", Parts: []ptype{{Kind: "ref", Ref: "Base"}}, Props: []prop{{Name: "id", T: str}, {Name: "extra", T: str}}},
	}}
}

// diamondDoc: allOf: [B, C] where C is allOf: [B, ...] (fix C11-9: was rejected as a circular reference)
func diamondDoc() doc {
	str := ptype{Kind: "prim", Prim: "string"}
	return doc{Kind: "doc", Format: "swagger", Stream: "oas2-nested", Schemas: []schema{
		{Name: "B", Kind: "object", Props: []prop{{Name: "id", T: str, Required: true}}, ReqOrder: []string{"id"}},
		{Name: "C", Kind: "allof", Parts: []ptype{{Kind: "ref", Ref: "B"}}, Props: []prop{{Name: "c", T: str}}},
		{Name: "D", Kind: "allof", Parts: []ptype{{Kind: "ref", Ref: "B"}, {Kind: "ref", Ref: "C"}}, Props: []prop{{Name: "d", T: str}}},
		{Name: "E", Kind: "allof", Parts: []ptype{{Kind: "ref", Ref: "B"}, {Kind: "ref", Ref: "B"}}},
	}}
}

// expDepth: how many array levels the document gives a property / an array definition's items: its own, plus those
// of the array definition a $ref names
func (j *judgeCtx) expDepth(t ptype, guard int) int {
	d := 0
	if t.Array {
		d++
	}
	if t.Array2 {
		d++
	}
	if t.Kind == "ref" && guard < 8 {
		if s, ok := j.schemaByName(t.Ref); ok {
			s = j.resolveAlias(s)
			if s.Kind == "array" {
				d += 1 + j.expDepth(*s.Elem, guard+1)
			}
		}
	}
	return d
}

// seqDepth: the array levels of a compiled type, following references to alias types
func seqDepth(app *sysl.Application, t *sysl.Type, guard int) int {
	if t == nil || guard > 8 {
		return 0
	}
	d := 0
	cur := t
	for {
		switch x := cur.Type.(type) {
		case *sysl.Type_Sequence:
			d++
			cur = x.Sequence
			continue
		case *sysl.Type_List_:
			d++
			cur = x.List.GetType()
			continue
		case *sysl.Type_Set:
			d++
			cur = x.Set
			continue
		}
		break
	}
	if r, ok := cur.Type.(*sysl.Type_TypeRef); ok {
		name := strings.Join(r.TypeRef.GetRef().GetPath(), ".")
		if nt, ok := app.Types[name]; ok {
			if defs, _ := attrDefs(nt); defs == nil && nt.GetOneOf() == nil {
				return d + seqDepth(app, nt, guard+1)
			}
		}
	}
	return d
}

// checkDepth: an array of arrays must still be one after the import (Sysl has no `sequence of sequence of`: the inner
// array needs a type of its own)
func (j *judgeCtx) checkDepth(app *sysl.Application, where, position string, t ptype, got *sysl.Type) {
	want := j.expDepth(t, 0)
	if want < 2 {
		return
	}
	if have := seqDepth(app, got, 0); have != want {
		j.fail("array-depth:"+j.d.Format+":"+position, fmt.Sprintf("%s: %d array levels in the document, %d in the compiled model", where, want, have))
	}
}

// ---------------------------------------------------------------- generator

type nestedGen struct {
	g *gen
	// definitions so far, by what may refer to them
	all     []string // any kind
	objLike []string // object / allof / alias of those: may be an allOf part or a oneOf alternative
	kinds   map[string]string
}

func (n *nestedGen) leaf() ptype {
	r := n.g.r
	switch k := r.Intn(10); {
	case k < 5 || len(n.all) == 0 && k < 8:
		return ptype{Kind: "prim", Prim: oasPrimNames[r.Intn(len(oasPrimNames))]}
	case k < 8:
		return ptype{Kind: "ref", Ref: n.all[r.Intn(len(n.all))]}
	case k < 9:
		return ptype{Kind: "enum"}
	}
	return ptype{Kind: "prim", Prim: "string"}
}

func (n *nestedGen) ptype(depth int) ptype {
	r := n.g.r
	var t ptype
	if depth < 3 && r.Intn(3) == 0 {
		o := n.object("", depth+1)
		if r.Intn(8) == 0 {
			o.Props = nil // an inline object without properties
			o.ReqOrder = nil
		}
		t = ptype{Kind: "obj", Obj: &o}
	} else {
		t = n.leaf()
	}
	switch r.Intn(8) {
	case 0, 1:
		t.Array = true
	case 2:
		t.Array, t.Array2 = true, true
	}
	return t
}

func (n *nestedGen) props(np, depth int) ([]prop, []string) {
	var ps []prop
	var req []string
	for i := 0; i < np; i++ {
		p := prop{Name: n.g.fresh("p"), T: n.ptype(depth)}
		if n.g.r.Intn(2) == 0 {
			p.Required = true
		}
		ps = append(ps, p)
	}
	// the required list in an order of its own
	idx := n.g.r.Intn(len(ps) + 1)
	for k := range ps {
		p := ps[(k+idx)%len(ps)]
		if p.Required {
			req = append(req, p.Name)
		}
	}
	return ps, req
}

func (n *nestedGen) object(name string, depth int) schema {
	s := schema{Name: name, Kind: "object"}
	s.Props, s.ReqOrder = n.props(1+n.g.r.Intn(4), depth)
	return s
}

// genNested: 3-6 definitions over all the nested shapes; references go to EARLIER definitions only (acyclic)
func genNested(r *common.Rng, stream string) doc {
	g := &gen{r: r, cfg: genCfg{format: "swagger", stream: stream}}
	n := &nestedGen{g: g, kinds: map[string]string{}}
	d := doc{Kind: "doc", Format: "swagger", Stream: stream}
	pool := []string{"Pet", "Order", "User", "Item", "Address", "Account", "Thing", "Node", "Event", "Price", "Integer", "dateRange", "StringList"}
	used := map[string]bool{}
	nd := 3 + r.Intn(4)
	for i := 0; i < nd; i++ {
		name := pool[r.Intn(len(pool))]
		if used[name] {
			name = g.fresh("T")
		}
		used[name] = true
		var s schema
		k := r.Intn(12)
		switch {
		case i == 0 || k < 4:
			s = n.object(name, 0)
		case k < 6:
			e := n.ptype(1)
			e.Array2 = false
			s = schema{Name: name, Kind: "array", Elem: &e}
		case k < 7:
			s = schema{Name: name, Kind: "enum"}
		case k < 8:
			s = schema{Name: name, Kind: "prim", Elem: &ptype{Kind: "prim", Prim: oasPrimNames[r.Intn(len(oasPrimNames))]}}
		case k < 10 && len(n.objLike) > 0:
			s = schema{Name: name, Kind: "allof"}
			np := 1 + r.Intn(2)
			seen := map[string]bool{}
			for x := 0; x < np; x++ {
				if r.Intn(3) > 0 {
					ref := n.objLike[r.Intn(len(n.objLike))]
					if seen[ref] {
						continue
					}
					seen[ref] = true
					s.Parts = append(s.Parts, ptype{Kind: "ref", Ref: ref})
				} else {
					o := n.object("", 1)
					s.Parts = append(s.Parts, ptype{Kind: "obj", Obj: &o})
				}
			}
			if len(s.Parts) == 0 {
				s.Parts = append(s.Parts, ptype{Kind: "ref", Ref: n.objLike[0]})
			}
			if r.Intn(2) == 0 {
				s.Props, s.ReqOrder = n.props(1+r.Intn(2), 1)
			}
		case len(n.all) > 0:
			s = schema{Name: name, Kind: "alias", Elem: &ptype{Kind: "ref", Ref: n.all[r.Intn(len(n.all))]}}
		default:
			s = n.object(name, 0)
		}
		d.Schemas = append(d.Schemas, s)
		n.kinds[name] = s.Kind
		n.all = append(n.all, name)
		kind := s.Kind
		if kind == "alias" {
			kind = n.kinds[s.Elem.Ref]
			n.kinds[name] = kind
		}
		if kind == "object" || kind == "allof" {
			n.objLike = append(n.objLike, name)
		}
	}
	return d
}

// nestedFeatures: which of the nested shapes a document has (for the histogram)
func nestedFeatures(d doc) []string {
	set := map[string]bool{}
	var walkT func(t ptype, depth int)
	var walkS func(s schema, depth int)
	walkT = func(t ptype, depth int) {
		if t.Array2 {
			set["array-of-array"] = true
		}
		if t.Kind == "enum" {
			set["inline-enum"] = true
		}
		if t.Kind == "obj" {
			set[fmt.Sprintf("inline-object-depth-%d", depth+1)] = true
			if t.Array {
				set["array-of-inline-object"] = true
			}
			walkS(*t.Obj, depth+1)
		}
	}
	walkS = func(s schema, depth int) {
		for _, p := range s.Props {
			walkT(p.T, depth)
		}
		for _, p := range s.Parts {
			set["allof-part-"+p.Kind] = true
			walkT(p, depth)
		}
		if s.Elem != nil && s.Kind == "array" {
			if s.Elem.Array {
				set["array-of-array"] = true
			}
			walkT(*s.Elem, depth)
		}
		if s.Kind == "oneof" || s.Kind == "alias" || s.Kind == "allof" {
			set[s.Kind] = true
		}
	}
	for _, s := range d.Schemas {
		walkS(s, 0)
	}
	var out []string
	for k := range set {
		out = append(out, k)
	}
	return out
}

// ---------------------------------------------------------------- Gallina terms for Foreign/NestedSpec.v

func gNType(d doc, t ptype) string {
	var base string
	switch t.Kind {
	case "prim":
		m := oasPrimJSON(t.Prim)
		f, _ := m["format"].(string)
		base = fmt.Sprintf("(NPrim %s %s)", common.GString(m["type"].(string)), common.GString(f))
	case "enum":
		base = "NEnumS"
	case "ref":
		base = "(NRef " + gb(t.Ref) + ")"
	case "obj":
		base = gNSchema(d, *t.Obj, 0)
	}
	if t.Array2 {
		base = "(NArr " + base + ")"
	}
	if t.Array {
		base = "(NArr " + base + ")"
	}
	return base
}

func docSchema(d doc, n string) (schema, bool) {
	for _, s := range d.Schemas {
		if s.Name == n {
			return s, true
		}
	}
	return schema{}, false
}

// gNSchema: a schema VALUE as kin-openapi hands it to the importer: a `$ref` at the top of a definition or of an
// allOf part is replaced by what it refers to
func gNSchema(d doc, s schema, guard int) string {
	if guard > 8 {
		return "(NObj [] [] [])"
	}
	switch s.Kind {
	case "object", "allof":
		var parts, ps, rq []string
		for _, pt := range s.Parts {
			if pt.Kind == "ref" {
				t, _ := docSchema(d, pt.Ref)
				parts = append(parts, gNSchema(d, t, guard+1))
			} else {
				parts = append(parts, gNSchema(d, *pt.Obj, guard+1))
			}
		}
		for _, p := range s.Props {
			ps = append(ps, fmt.Sprintf("(%s, %s)", gb(p.Name), gNType(d, p.T)))
		}
		for _, r := range s.ReqOrder {
			rq = append(rq, gb(r))
		}
		return fmt.Sprintf("(NObj %s %s %s)", common.GList(parts), common.GList(ps), common.GList(rq))
	case "array":
		return "(NArr " + gNType(d, *s.Elem) + ")"
	case "enum":
		return "NEnumS"
	case "prim":
		m := oasPrimJSON(s.Elem.Prim)
		f, _ := m["format"].(string)
		return fmt.Sprintf("(NPrim %s %s)", common.GString(m["type"].(string)), common.GString(f))
	case "alias":
		t, _ := docSchema(d, s.Elem.Ref)
		return gNSchema(d, t, guard+1)
	}
	panic("schema kind " + s.Kind)
}

// gNestedDoc: the definitions as Foreign/NestedSpec.v wants them
func gNestedDoc(d doc) string {
	var defs []string
	for _, s := range d.Schemas {
		defs = append(defs, fmt.Sprintf("(%s, %s)", gb(s.Name), gNSchema(d, s, 0)))
	}
	return common.GList(defs)
}

// nestedComparable: the types of the compiled module are exactly what the definitions give (no operation generates
// a type of its own: no response in several media types, no array-typed parameter - the generator has none)
func nestedComparable(d doc) bool {
	return d.Format == "swagger" && !hasWrapperTypes(d)
}

// ---------------------------------------------------------------- hostile parameter names and path segments

var hostileParamNames = []string{"a.b", "k-l", "first name", "c~d", "1st", "x=y", "user@host", "né", "q\"r", "a+b", "semi;colon", "if", "int",
	"return", "GET", "_lead", "UPPER_case", "p50%", "a:b", "$top", "a&b", "[idx]", "it's", "a,b", "a*b", "x/y"}
var hostileSegments = []string{"a b", "c+d", "v1.2", "x~y", "k-l", "né", "a=b", "a@b", "a:b", "a&b", "p50%", "it's", "(x)", "a,b", "a;b", "$x", "1st",
	"if", "int", "GET", "_u", "a*b", "a!b", "a\"b"}

// genHostileParams: one operation with ONE name that needs care: a path / query / header parameter name, or a
// static path segment (so that a failure is about that name)
func genHostileParams(r *common.Rng, stream string, k int) doc {
	d := doc{Kind: "doc", Format: "swagger", Stream: stream}
	d.Schemas = []schema{{Name: "Item", Kind: "object", Props: []prop{{Name: "id", T: ptype{Kind: "prim", Prim: "string"}}}}}
	e := endpoint{Method: []string{"GET", "POST", "PUT"}[r.Intn(3)]}
	path := "/base"
	pathParam, queryName, headerName := "id", "limit", "X-Trace"
	roles := []string{"path", "query", "header", "segment"}
	role := roles[k%len(roles)]
	switch role {
	case "path":
		pathParam = hostileParamNames[(k/4)%len(hostileParamNames)]
		if strings.ContainsAny(pathParam, "/{}?#") {
			pathParam = "a.b"
		}
	case "query":
		queryName = hostileParamNames[(k/4)%len(hostileParamNames)]
	case "header":
		headerName = hostileParamNames[(k/4)%len(hostileParamNames)]
	case "segment":
		path += "/" + hostileSegments[(k/4)%len(hostileSegments)]
	}
	path += "/{" + pathParam + "}"
	if r.Bool() {
		path += "/tail"
	}
	e.Path = path
	e.Params = []param{{Name: pathParam, In: "path", Required: true, Prim: []string{"string", "int64"}[r.Intn(2)]},
		{Name: queryName, In: "query", Required: r.Bool(), Prim: []string{"string", "integer", "boolean"}[r.Intn(3)]}}
	if r.Bool() || role == "header" {
		e.Params = append(e.Params, param{Name: headerName, In: "header", Required: r.Bool(), Prim: "string"})
	}
	if r.Bool() {
		e.Params = append(e.Params, param{Name: "offset", In: "query", Prim: "int32"})
	}
	e.Resps = []resp{{Code: "200", Ref: "Item"}}
	d.Eps = []endpoint{e}
	return d
}

// ---------------------------------------------------------------- written parameter names (Foreign/ParamNameSpec.v)

// genParamNameDoc: an operation /q with only required string query parameters and an operation /h with only
// required string header parameters, both over the same names: the two method lines of the imported text are what
// the model's query_line / header_line must reproduce
func genParamNameDoc(r *common.Rng, k int) (doc, []string) {
	alphabet := []string{"a", "Z", "0", "9", "_", "-", " ", ".", "~", "+", "%", "=", "&", "?", "/", ":", ";", ",", "'", "\"", "\\", "(", "]", "{", "}", "<", "|",
		"@", "$", "!", "*", "#", "^", "`", "\t", "é", "日", "--", "  ", "- -"}
	var names []string
	for i := 0; i < 12; i++ {
		var n string
		switch (k + i) % 4 {
		case 0: // one symbol between letters / in front / behind
			sym := alphabet[(k*12+i)%len(alphabet)]
			n = []string{"a" + sym + "b", sym + "ab", "ab" + sym}[r.Intn(3)]
		case 1:
			n = hostileParamNames[(k*12+i)%len(hostileParamNames)]
		case 2:
			for l := 1 + r.Intn(5); l > 0; l-- {
				n += alphabet[r.Intn(len(alphabet))]
			}
		default:
			n = []string{"limit", "page-size", "X-Request-Id", "sort_by", "If-None-Match", "first name", "v1.2", "Content-Type"}[r.Intn(8)]
		}
		names = append(names, n+fmt.Sprintf("z%d", i))
	}
	d := doc{Kind: "doc", Format: "swagger", Stream: "oas2-param-names", ImportOnly: true}
	q := endpoint{Path: "/q", Method: "GET", Resps: []resp{{Code: "200"}}}
	h := endpoint{Path: "/h", Method: "GET", Resps: []resp{{Code: "200"}}}
	for _, n := range names {
		q.Params = append(q.Params, param{Name: n, In: "query", Required: true, Prim: "string"})
		h.Params = append(h.Params, param{Name: n, In: "header", Required: true, Prim: "string"})
	}
	d.Eps = []endpoint{q, h}
	return d, names
}

// methodLine: the line under the path line `<path>:` of the imported text
func methodLine(text, path string) (string, bool) {
	lines := strings.Split(text, "\n")
	for i, l := range lines {
		if strings.TrimSpace(l) == path+":" && i+1 < len(lines) {
			return strings.TrimSpace(lines[i+1]), true
		}
	}
	return "", false
}
