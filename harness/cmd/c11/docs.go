// Document-level streams of C11: generated OpenAPI 2 / OpenAPI 3 / XSD / SQL DDL documents go through the real
// importer.Factory(...).Load; the text must compile with the real parser; the compiled module must contain every
// schema / property / column / path+method the harness wrote (kind, optionality, array-ness, key-ness); a second
// import must give byte-identical text. The oracle knows the document because the harness generated it.
package main

import (
	"encoding/json"
	"fmt"
	"io"
	"net/url"
	"sort"
	"strings"
	"time"

	"github.com/anz-bank/sysl/pkg/importer"
	"github.com/anz-bank/sysl/pkg/parse"
	"github.com/anz-bank/sysl/pkg/sysl"
	"github.com/sirupsen/logrus"
	"github.com/spf13/afero"

	"verifharness/common"
)

// ---------------------------------------------------------------- abstract documents

type ptype struct {
	Kind  string  `json:"kind"` // prim | ref | obj | enum (an inline string enum)
	Prim  string  `json:"prim,omitempty"`
	Ref   string  `json:"ref,omitempty"`
	Obj   *schema `json:"obj,omitempty"`
	Array bool    `json:"array,omitempty"`
	// Array2: an array of arrays of the above (Array is then set too)
	Array2 bool `json:"array2,omitempty"`
}
type prop struct {
	Name     string `json:"name"`
	T        ptype  `json:"t"`
	Required bool   `json:"required,omitempty"`
	Attr     bool   `json:"attr,omitempty"` // XSD attribute
	Key      bool   `json:"key,omitempty"`  // SQL primary key column
	FK       string `json:"fk,omitempty"`   // SQL: "Table.Column"
}
type schema struct {
	Name  string `json:"name"`
	Kind  string `json:"kind"` // object | array | enum | prim | allof | oneof | alias
	Props []prop `json:"props,omitempty"`
	Elem  *ptype `json:"elem,omitempty"` // array element / prim / alias: the definition the $ref names
	// allof: the parts ($ref to an object-like definition, or an inline object), then the own Props / ReqOrder
	Parts []ptype `json:"parts,omitempty"`
	// oneof: the definitions the alternatives refer to
	Alts []string `json:"alts,omitempty"`
	// the order in which `required` is written (OpenAPI): a permutation of the required property names
	ReqOrder []string `json:"req_order,omitempty"`
	Base     string   `json:"base,omitempty"` // XSD extension base
}
type param struct {
	Name     string `json:"name"`
	In       string `json:"in"` // path | query | header
	Required bool   `json:"required,omitempty"`
	Prim     string `json:"prim"`
}
type resp struct {
	Code  string `json:"code"`
	Ref   string `json:"ref,omitempty"`
	Prim  string `json:"prim,omitempty"` // a primitive response schema (instead of Ref)
	Array bool   `json:"array,omitempty"`
}
type endpoint struct {
	Path    string  `json:"path"`
	Method  string  `json:"method"`
	Params  []param `json:"params,omitempty"`
	BodyRef string  `json:"body_ref,omitempty"`
	Resps   []resp  `json:"resps"`
	// request / response media types: OpenAPI 2 operation-level `consumes` / `produces`, OpenAPI 3 the keys of
	// requestBody.content / responses.<code>.content (empty: application/json)
	Consumes []string `json:"consumes,omitempty"`
	Produces []string `json:"produces,omitempty"`
}
type pathLevel struct {
	Path   string  `json:"path"`
	Params []param `json:"params"`
}
type doc struct {
	Kind    string     `json:"kind"` // always "doc"
	Format  string     `json:"format"`
	Stream  string     `json:"stream"`
	Schemas []schema   `json:"schemas"`
	Eps     []endpoint `json:"eps,omitempty"`
	// parameters declared on the path item: every operation of the path inherits them, an operation-level
	// parameter with the same (name, in) overrides
	PathLevel []pathLevel `json:"path_level,omitempty"`
	// document-level `consumes` (OpenAPI 2): the request media types of every operation that has none of its own
	Consumes []string `json:"consumes,omitempty"`
	// Repeat > 0: the worker imports the document that many times more; every text must be byte-identical
	Repeat int `json:"repeat,omitempty"`
	// ImportOnly: the worker imports once and reports the text (fresh-process repetitions)
	ImportOnly bool `json:"import_only,omitempty"`
}

// effConsumes: the request media types of an operation (its own, else the document's, else any / JSON)
func (d doc) effConsumes(e endpoint) []string {
	if len(e.Consumes) > 0 {
		return e.Consumes
	}
	if len(d.Consumes) > 0 && d.Format != "openapi3" {
		return d.Consumes
	}
	if d.Format == "swagger" {
		// OpenAPI 2 without any `consumes`: the body is not tied to a media type
		return []string{"*/*"}
	}
	return []string{"application/json"}
}

// effectiveParams: what OpenAPI says the operation's parameters are (path-level ones unless overridden, then its own)
func (d doc) effectiveParams(e endpoint) []param {
	var out []param
	for _, pl := range d.PathLevel {
		if pl.Path != e.Path {
			continue
		}
		for _, p := range pl.Params {
			over := false
			for _, q := range e.Params {
				if q.Name == p.Name && q.In == p.In {
					over = true
				}
			}
			if !over {
				out = append(out, p)
			}
		}
	}
	return append(out, e.Params...)
}

// expected Sysl primitive of a foreign primitive, per format: kind and bit width
type primExp struct {
	kind string
	bits int
}

var oasPrims = map[string]primExp{
	"string": {"STRING", 0}, "date": {"DATE", 0}, "date-time": {"DATETIME", 0}, "byte": {"BYTES", 0}, "binary": {"BYTES", 0},
	"integer": {"INT", 0}, "int32": {"INT", 32}, "int64": {"INT", 64}, "number": {"FLOAT", 0},
	"float": {"FLOAT", 0}, "double": {"FLOAT", 0}, "boolean": {"BOOL", 0},
}
var oasPrimNames = []string{"string", "date", "date-time", "byte", "binary", "integer", "int32", "int64", "number", "float", "double", "boolean"}

// A primitive may also be spelled "type:format" (any OpenAPI type with any format, or with none: "integer:").
// OpenAPI: `format` is an open-valued hint; the formats the specification defines for a type select a kind
// (string: date, date-time, byte, binary; integer: int32, int64; number: float, double), every other format
// - defined for another type or not defined at all - leaves the kind of the bare type.
var oasTypes = []string{"string", "integer", "number", "boolean"}
var oasBaseKind = map[string]primExp{"string": {"STRING", 0}, "integer": {"INT", 0}, "number": {"FLOAT", 0}, "boolean": {"BOOL", 0}}
var oasDefinedFormats = map[string]map[string]primExp{
	"string":  {"date": {"DATE", 0}, "date-time": {"DATETIME", 0}, "byte": {"BYTES", 0}, "binary": {"BYTES", 0}},
	"integer": {"int32": {"INT", 32}, "int64": {"INT", 64}},
	"number":  {"float": {"FLOAT", 0}, "double": {"FLOAT", 0}},
}

// the formats the importer's table lists (for any type) and formats in common use that it does not list
var oasListedFormats = []string{"int32", "int64", "float", "double", "date", "date-time", "byte", "binary", "uuid", "uri"}
var oasUnlistedFormats = []string{"uint32", "uint64", "int16", "int8", "decimal", "email", "password", "hostname", "ipv4", "time", "currency", "x-custom"}

func splitPrim(p string) (typ, format string, ok bool) {
	if i := strings.IndexByte(p, ':'); i >= 0 {
		return p[:i], p[i+1:], true
	}
	return "", "", false
}

func oasPrimExp(p string) primExp {
	if t, f, ok := splitPrim(p); ok {
		if e, ok := oasDefinedFormats[t][f]; ok {
			return e
		}
		return oasBaseKind[t]
	}
	e, ok := oasPrims[p]
	if !ok {
		panic("prim " + p)
	}
	return e
}

// primMatches: is the compiled field the primitive the foreign type asks for? `string` with format `uuid` may also
// be Sysl's builtin type name uuid (the grammar has no such native type: the compiler reads it as a reference to
// `uuid`, which every consumer treats as the builtin).
func primMatches(p string, e primExp, f fieldProj) bool {
	if f.Kind == e.kind && (e.bits == 0 || f.Bits == e.bits) {
		return true
	}
	if p == "string:uuid" && (f.Kind == "UUID" || f.Kind == "REF" && f.Ref == "uuid") {
		return true
	}
	return false
}

// primClass: the part of a finding key that names the foreign primitive: listed names as they are, type:format
// with the format kept only when OpenAPI defines it for some type (other formats are one class: "other")
func primClass(p string) string {
	t, f, ok := splitPrim(p)
	if !ok {
		return p
	}
	if f == "" {
		return t
	}
	if _, defined := oasDefinedFormats[t][f]; defined {
		// the same class as the short spelling (int64, date-time, ...)
		return f
	}
	if (t == "string" || t == "boolean") && (f == "int32" || f == "int64") {
		// a bit-width format on a type that has no width
		return "non-number+int-width"
	}
	for _, l := range oasListedFormats {
		if f == l {
			return t + "+" + f
		}
	}
	return t + "+unlisted-format"
}

func oasPrimJSON(p string) map[string]interface{} {
	if t, f, ok := splitPrim(p); ok {
		m := map[string]interface{}{"type": t}
		if f != "" {
			m["format"] = f
		}
		return m
	}
	switch p {
	case "string", "integer", "number", "boolean":
		return map[string]interface{}{"type": p}
	case "date", "date-time", "byte", "binary":
		return map[string]interface{}{"type": "string", "format": p}
	case "int32", "int64":
		return map[string]interface{}{"type": "integer", "format": p}
	case "float", "double":
		return map[string]interface{}{"type": "number", "format": p}
	}
	panic("prim " + p)
}

var xsdPrims = map[string]primExp{
	"string": {"STRING", 0}, "integer": {"INT", 0}, "int": {"INT", 0}, "boolean": {"BOOL", 0}, "date": {"DATE", 0},
	// the wider set (stream xsd-builtins): builtins that Sysl has a type for under the same name, string-like
	// builtins, and numeric builtins
	"dateTime": {"DATETIME", 0}, "decimal": {"DECIMAL", 0}, "float": {"FLOAT", 0},
	"time": {"STRING", 0}, "NMTOKEN": {"STRING", 0}, "token": {"STRING", 0}, "anyURI": {"STRING", 0}, "normalizedString": {"STRING", 0},
	"long": {"INT", 0}, "short": {"INT", 0}, "unsignedInt": {"INT", 0}, "positiveInteger": {"INT", 0}, "double": {"FLOAT", 0},
}
var xsdPrimNames = []string{"string", "integer", "int", "boolean", "date"}
var xsdWidePrimNames = []string{"string", "integer", "int", "boolean", "date", "dateTime", "decimal", "float", "time", "NMTOKEN", "token", "anyURI",
	"normalizedString", "long", "short", "unsignedInt", "positiveInteger", "double"}

// xsdNumericDefault: numeric XSD builtins for which the importer has neither a mapping nor a Sysl type of the same
// name: makeXsdBuiltinType's default turns them into string
var xsdNumericDefault = map[string]bool{"long": true, "short": true, "unsignedInt": true, "positiveInteger": true, "double": true}

// ---------------------------------------------------------------- rendering

func refPath(format, name string) string {
	if format == "openapi3" {
		return "#/components/schemas/" + name
	}
	return "#/definitions/" + name
}

func oasType(format string, t ptype) map[string]interface{} {
	var base map[string]interface{}
	switch t.Kind {
	case "prim":
		base = oasPrimJSON(t.Prim)
	case "ref":
		base = map[string]interface{}{"$ref": refPath(format, t.Ref)}
	case "obj":
		base = oasSchema(format, *t.Obj)
	case "enum":
		base = map[string]interface{}{"type": "string", "enum": []string{"A", "B", "C"}}
	}
	if t.Array2 {
		base = map[string]interface{}{"type": "array", "items": base}
	}
	if t.Array {
		return map[string]interface{}{"type": "array", "items": base}
	}
	return base
}

func oasSchema(format string, s schema) map[string]interface{} {
	switch s.Kind {
	case "object":
		props := map[string]interface{}{}
		for _, p := range s.Props {
			props[p.Name] = oasType(format, p.T)
		}
		m := map[string]interface{}{"type": "object", "properties": props}
		if len(s.ReqOrder) > 0 {
			m["required"] = s.ReqOrder
		}
		return m
	case "array":
		return map[string]interface{}{"type": "array", "items": oasType(format, *s.Elem)}
	case "enum":
		return map[string]interface{}{"type": "string", "enum": []string{"A", "B", "C"}}
	case "prim":
		return oasPrimJSON(s.Elem.Prim)
	case "allof":
		var parts []interface{}
		for _, p := range s.Parts {
			parts = append(parts, oasType(format, p))
		}
		m := map[string]interface{}{"allOf": parts}
		if len(s.Props) > 0 {
			props := map[string]interface{}{}
			for _, p := range s.Props {
				props[p.Name] = oasType(format, p.T)
			}
			m["properties"] = props
		}
		if len(s.ReqOrder) > 0 {
			m["required"] = s.ReqOrder
		}
		return m
	case "oneof":
		var alts []interface{}
		for _, a := range s.Alts {
			alts = append(alts, map[string]interface{}{"$ref": refPath(format, a)})
		}
		return map[string]interface{}{"oneOf": alts}
	case "alias":
		return map[string]interface{}{"$ref": refPath(format, s.Elem.Ref)}
	}
	panic("schema kind " + s.Kind)
}

func mediaTypes(l []string) []string {
	if len(l) == 0 {
		return []string{"application/json"}
	}
	return l
}

func renderOAS(d doc) string {
	defs := map[string]interface{}{}
	for _, s := range d.Schemas {
		defs[s.Name] = oasSchema(d.Format, s)
	}
	paths := map[string]interface{}{}
	for _, e := range d.Eps {
		item, _ := paths[e.Path].(map[string]interface{})
		if item == nil {
			item = map[string]interface{}{}
			paths[e.Path] = item
		}
		renderParam := func(p param) interface{} {
			pm := map[string]interface{}{"name": p.Name, "in": p.In}
			if p.Required || p.In == "path" {
				pm["required"] = true
			}
			if d.Format == "openapi3" {
				pm["schema"] = oasPrimJSON(p.Prim)
			} else {
				for k, v := range oasPrimJSON(p.Prim) {
					pm[k] = v
				}
			}
			return pm
		}
		if _, done := item["parameters"]; !done {
			for _, pl := range d.PathLevel {
				if pl.Path == e.Path && len(pl.Params) > 0 {
					var pps []interface{}
					for _, p := range pl.Params {
						pps = append(pps, renderParam(p))
					}
					item["parameters"] = pps
				}
			}
		}
		var ps []interface{}
		for _, p := range e.Params {
			ps = append(ps, renderParam(p))
		}
		op := map[string]interface{}{}
		if e.BodyRef != "" {
			if d.Format == "openapi3" {
				content := map[string]interface{}{}
				for _, mt := range d.effConsumes(e) {
					content[mt] = map[string]interface{}{"schema": map[string]interface{}{"$ref": refPath(d.Format, e.BodyRef)}}
				}
				op["requestBody"] = map[string]interface{}{"required": true, "content": content}
			} else {
				ps = append(ps, map[string]interface{}{"name": "body", "in": "body", "required": true,
					"schema": map[string]interface{}{"$ref": refPath(d.Format, e.BodyRef)}})
			}
		}
		if d.Format != "openapi3" {
			if len(e.Consumes) > 0 {
				op["consumes"] = e.Consumes
			}
			if len(e.Produces) > 0 {
				op["produces"] = e.Produces
			}
		}
		if ps != nil {
			op["parameters"] = ps
		}
		rs := map[string]interface{}{}
		for _, r := range e.Resps {
			rm := map[string]interface{}{"description": "d"}
			if r.Ref != "" || r.Prim != "" {
				var sch interface{}
				if r.Ref != "" {
					sch = map[string]interface{}{"$ref": refPath(d.Format, r.Ref)}
				} else {
					sch = oasPrimJSON(r.Prim)
				}
				if r.Array {
					sch = map[string]interface{}{"type": "array", "items": sch}
				}
				if d.Format == "openapi3" {
					content := map[string]interface{}{}
					for _, mt := range mediaTypes(e.Produces) {
						content[mt] = map[string]interface{}{"schema": sch}
					}
					rm["content"] = content
				} else {
					rm["schema"] = sch
				}
			}
			rs[r.Code] = rm
		}
		op["responses"] = rs
		item[strings.ToLower(e.Method)] = op
	}
	root := map[string]interface{}{"info": map[string]interface{}{"title": "Generated", "version": "1.0"}, "paths": paths}
	if d.Format == "openapi3" {
		root["openapi"] = "3.0.0"
		root["components"] = map[string]interface{}{"schemas": defs}
	} else {
		root["swagger"] = "2.0"
		root["produces"] = []string{"application/json"}
		root["definitions"] = defs
		if len(d.Consumes) > 0 {
			root["consumes"] = d.Consumes
		}
	}
	b, err := json.MarshalIndent(root, "", " ")
	if err != nil {
		panic(err)
	}
	return string(b)
}

func xmlEsc(s string) string {
	r := strings.NewReplacer("&", "&amp;", "<", "&lt;", ">", "&gt;", `"`, "&quot;")
	return r.Replace(s)
}

func xsdTypeName(t ptype) string {
	if t.Kind == "prim" {
		return "xs:" + t.Prim
	}
	return t.Ref
}

func renderXSD(d doc) string {
	var b strings.Builder
	b.WriteString("<?xml version=\"1.0\"?>\n<xs:schema xmlns:xs=\"http://www.w3.org/2001/XMLSchema\">\n")
	if len(d.Schemas) > 0 {
		fmt.Fprintf(&b, "  <xs:element name=\"Root\" type=\"%s\"/>\n", xmlEsc(d.Schemas[0].Name))
	}
	for _, s := range d.Schemas {
		switch s.Kind {
		case "object":
			fmt.Fprintf(&b, "  <xs:complexType name=\"%s\">\n", xmlEsc(s.Name))
			ind := "    "
			if s.Base != "" {
				fmt.Fprintf(&b, "    <xs:complexContent><xs:extension base=\"%s\">\n", xmlEsc(s.Base))
				ind = "      "
			}
			b.WriteString(ind + "<xs:sequence>\n")
			for _, p := range s.Props {
				if p.Attr {
					continue
				}
				occ := ""
				if !p.Required {
					occ += ` minOccurs="0"`
				}
				if p.T.Array {
					occ += ` maxOccurs="unbounded"`
				}
				fmt.Fprintf(&b, "%s  <xs:element name=\"%s\" type=\"%s\"%s/>\n", ind, xmlEsc(p.Name), xmlEsc(xsdTypeName(p.T)), occ)
			}
			b.WriteString(ind + "</xs:sequence>\n")
			for _, p := range s.Props {
				if !p.Attr {
					continue
				}
				use := ""
				if p.Required {
					use = ` use="required"`
				}
				fmt.Fprintf(&b, "%s<xs:attribute name=\"%s\" type=\"%s\"%s/>\n", ind, xmlEsc(p.Name), xmlEsc(xsdTypeName(p.T)), use)
			}
			if s.Base != "" {
				b.WriteString("    </xs:extension></xs:complexContent>\n")
			}
			b.WriteString("  </xs:complexType>\n")
		case "prim":
			fmt.Fprintf(&b, "  <xs:simpleType name=\"%s\"><xs:restriction base=\"xs:%s\"/></xs:simpleType>\n", xmlEsc(s.Name), s.Elem.Prim)
		}
	}
	b.WriteString("</xs:schema>\n")
	return b.String()
}

// SQL: dialect-specific column types
type sqlPrim struct {
	ddl  string
	kind string
	bits int
}

var sqlPrims = map[string]map[string]sqlPrim{
	"postgres": {"string": {"VARCHAR(40)", "STRING", 0}, "text": {"TEXT", "STRING", 0}, "int": {"INT", "INT", 0}, "bigint": {"BIGINT", "INT", 64},
		"date": {"DATE", "DATE", 0}, "bool": {"BOOLEAN", "BOOL", 0}, "numeric": {"NUMERIC", "DECIMAL", 0}, "float": {"FLOAT", "FLOAT", 0}},
	"mysql": {"string": {"VARCHAR(40)", "STRING", 0}, "text": {"TEXT", "STRING", 0}, "int": {"INT", "INT", 0}, "bigint": {"BIGINT", "INT", 64},
		"date": {"DATE", "DATE", 0}, "bool": {"BOOLEAN", "BOOL", 0}, "numeric": {"DECIMAL(10,2)", "DECIMAL", 0}, "float": {"FLOAT", "FLOAT", 0}},
	"spannerSQL": {"string": {"STRING(40)", "STRING", 0}, "text": {"STRING(MAX)", "STRING", 0}, "int": {"INT64", "INT", 64}, "bigint": {"INT64", "INT", 64},
		"date": {"DATE", "DATE", 0}, "bool": {"BOOL", "BOOL", 0}, "numeric": {"NUMERIC", "DECIMAL", 0}, "float": {"FLOAT64", "FLOAT", 64}},
}
var sqlPrimNames = []string{"string", "text", "int", "bigint", "date", "bool", "numeric", "float"}

func renderSQL(d doc) string {
	var b strings.Builder
	pr := sqlPrims[d.Format]
	for _, s := range d.Schemas {
		fmt.Fprintf(&b, "CREATE TABLE %s (\n", s.Name)
		var keys []string
		var lines []string
		for _, p := range s.Props {
			l := fmt.Sprintf("    %s %s", p.Name, pr[p.T.Prim].ddl)
			if p.Required || p.Key {
				l += " NOT NULL"
			}
			lines = append(lines, l)
			if p.Key {
				keys = append(keys, p.Name)
			}
		}
		if d.Format != "spannerSQL" {
			if len(keys) > 0 {
				lines = append(lines, "    PRIMARY KEY ("+strings.Join(keys, ", ")+")")
			}
			for _, p := range s.Props {
				if p.FK != "" {
					tc := strings.SplitN(p.FK, ".", 2)
					lines = append(lines, fmt.Sprintf("    FOREIGN KEY (%s) REFERENCES %s (%s)", p.Name, tc[0], tc[1]))
				}
			}
			b.WriteString(strings.Join(lines, ",\n") + "\n);\n\n")
		} else {
			for _, p := range s.Props {
				if p.FK != "" {
					tc := strings.SplitN(p.FK, ".", 2)
					lines = append(lines, fmt.Sprintf("    CONSTRAINT FK_%s_%s FOREIGN KEY (%s) REFERENCES %s (%s)", s.Name, p.Name, p.Name, tc[0], tc[1]))
				}
			}
			b.WriteString(strings.Join(lines, ",\n") + "\n) PRIMARY KEY (" + strings.Join(keys, ", ") + ");\n\n")
		}
	}
	return b.String()
}

func render(d doc) (text string, fileName string) {
	switch d.Format {
	case "swagger":
		return renderOAS(d), "/gen/spec.json"
	case "openapi3":
		return renderOAS(d), "/gen/spec.json"
	case "xsd":
		return renderXSD(d), "/gen/spec.xsd"
	default:
		return renderSQL(d), "/gen/spec.sql"
	}
}

// ---------------------------------------------------------------- the real importer and compiler

var quietLogger = func() *logrus.Logger {
	l := logrus.New()
	l.SetOutput(io.Discard)
	return l
}()

type importResult struct {
	text     string
	err      string
	panicked bool
}

func runImport(d doc, text, fileName string) (r importResult) {
	defer func() {
		if x := recover(); x != nil {
			r = importResult{err: fmt.Sprint(x), panicked: true}
		}
	}()
	imp, err := importer.Factory(fileName, false, d.Format, []byte(text), quietLogger)
	if err != nil {
		return importResult{err: "factory: " + err.Error()}
	}
	imp, err = imp.Configure(&importer.ImporterArg{AppName: "App", PackageName: ""})
	if err != nil {
		return importResult{err: "configure: " + err.Error()}
	}
	out, err := imp.Load(text)
	if err != nil {
		return importResult{err: err.Error()}
	}
	return importResult{text: out}
}

type compileResult struct {
	mod      *sysl.Module
	err      string
	panicked bool
}

func compile(text string) (r compileResult) {
	defer func() {
		if x := recover(); x != nil {
			r = compileResult{err: fmt.Sprint(x), panicked: true}
		}
	}()
	fs := afero.NewMemMapFs()
	afero.WriteFile(fs, "/imported.sysl", []byte(text), 0o644)
	m, err := parse.NewParser().ParseFromFs("/imported.sysl", fs)
	if err != nil {
		return compileResult{err: err.Error()}
	}
	return compileResult{mod: m}
}

// ---------------------------------------------------------------- projection of the compiled module

type fieldProj struct {
	Kind    string // STRING INT ... | REF | TUPLE | OTHER
	Bits    int
	Ref     string
	Opt     bool
	Seq     bool
	PK      bool
	FK      bool
	JSONTag string
	HasTag  bool
	Pats    []string
	NameAt  string // the attribute `name` (SQL / header parameters)
	Media   string // the attribute `mediatype` (body parameters, fields of a response wrapper type)
}

func bitsOf(t *sysl.Type) int {
	for _, c := range t.GetConstraint() {
		if c.GetBitWidth() != 0 {
			return int(c.GetBitWidth())
		}
	}
	return 0
}

func projField(t *sysl.Type) fieldProj {
	var f fieldProj
	if t == nil {
		f.Kind = "NIL"
		return f
	}
	switch x := t.Type.(type) {
	case *sysl.Type_Primitive_:
		f.Kind = x.Primitive.String()
		f.Bits = bitsOf(t)
	case *sysl.Type_TypeRef:
		f.Kind = "REF"
		f.Ref = strings.Join(x.TypeRef.GetRef().GetPath(), ".")
	case *sysl.Type_Sequence:
		f = projField(x.Sequence)
		f.Seq = true
	case *sysl.Type_List_:
		f = projField(x.List.GetType())
		f.Seq = true
	case *sysl.Type_Set:
		f = projField(x.Set)
		f.Seq = true
	case *sysl.Type_Tuple_:
		f.Kind = "TUPLE"
	default:
		f.Kind = "OTHER"
	}
	f.Opt = t.GetOpt()
	if a, ok := t.GetAttrs()["json_tag"]; ok {
		f.JSONTag, f.HasTag = a.GetS(), true
	}
	if a, ok := t.GetAttrs()["name"]; ok {
		f.NameAt = a.GetS()
	}
	if a, ok := t.GetAttrs()["mediatype"]; ok {
		f.Media = a.GetS()
	}
	if a, ok := t.GetAttrs()["patterns"]; ok {
		for _, e := range a.GetA().GetElt() {
			f.Pats = append(f.Pats, e.GetS())
			if e.GetS() == "pk" {
				f.PK = true
			}
			if e.GetS() == "fk" {
				f.FK = true
			}
		}
	}
	return f
}

func attrDefs(t *sysl.Type) (map[string]*sysl.Type, string) {
	switch x := t.Type.(type) {
	case *sysl.Type_Tuple_:
		return x.Tuple.GetAttrDefs(), "tuple"
	case *sysl.Type_Relation_:
		return x.Relation.GetAttrDefs(), "relation"
	}
	return nil, ""
}

// candidate spellings under which a foreign name may legitimately appear: as it is, with the "_" prefix the writer
// adds to names that do not start like a Name or that start like a builtin type, with the "_" suffix for builtin names
func candidates(n string) []string {
	return []string{n, "_" + n, n + "_", "_" + n + "_"}
}

func findType(app *sysl.Application, name string) (*sysl.Type, string) {
	for _, c := range candidates(name) {
		if t, ok := app.Types[c]; ok {
			return t, c
		}
	}
	return nil, ""
}

// ---------------------------------------------------------------- the oracle

type judgeCtx struct {
	d    doc
	fail func(key, what string)
}

func nameClass(n string) string {
	// an abstract class of a foreign name, for finding keys: which feature of the name matters
	lower := strings.ToLower(n)
	for _, k := range keywordsCI {
		if lower == k {
			return "keyword:" + k
		}
	}
	for _, k := range keywordsCS {
		if n == k {
			return "keyword:" + k
		}
	}
	var odd []string
	seen := map[rune]bool{}
	for _, r := range n {
		if r >= 'a' && r <= 'z' || r >= 'A' && r <= 'Z' || r >= '0' && r <= '9' || r == '_' {
			continue
		}
		if !seen[r] {
			seen[r] = true
			if r > 126 {
				odd = append(odd, "non-ascii")
			} else {
				odd = append(odd, string(r))
			}
		}
	}
	if len(odd) == 0 {
		return "plain"
	}
	sort.Strings(odd)
	return "chars:" + strings.Join(odd, "")
}

func docNameClasses(d doc) string {
	set := map[string]bool{}
	var walk func(s schema)
	walk = func(s schema) {
		if c := nameClass(s.Name); c != "plain" {
			set["type-"+c] = true
		}
		for _, p := range s.Props {
			if c := nameClass(p.Name); c != "plain" {
				if p.T.Obj != nil {
					set["inline-"+c] = true // the name also becomes part of the inline object's type name
				} else {
					set["prop-"+c] = true
				}
			}
			if p.T.Obj != nil {
				walk(*p.T.Obj)
			}
		}
	}
	for _, s := range d.Schemas {
		walk(s)
	}
	for _, e := range d.Eps {
		for _, p := range e.Params {
			if c := paramClass(p); c != "plain" {
				set["param-"+p.In+"-"+c] = true
			}
		}
		for _, seg := range staticSegments(e.Path) {
			if c := nameClass(seg); c != "plain" {
				set["segment-"+c] = true
			}
		}
	}
	var out []string
	for k := range set {
		out = append(out, k)
	}
	sort.Strings(out)
	if len(out) == 0 {
		return "plain-names"
	}
	return strings.Join(out, ",")
}

// paramClass: the class of a parameter name: that of nameClass, a leading digit, plain for everyday header names
func paramClass(p param) string {
	c := nameClass(p.Name)
	if c == "plain" && p.Name != "" && p.Name[0] >= '0' && p.Name[0] <= '9' {
		return "leading-digit"
	}
	if strings.HasPrefix(c, "chars:") && standardHeader(p) {
		return "plain"
	}
	return c
}

// standardHeader: header names like X-Request-Id are everyday names (the older streams use them), not hostile ones
func standardHeader(p param) bool {
	if p.In != "header" {
		return false
	}
	for _, r := range p.Name {
		if !(r >= 'a' && r <= 'z' || r >= 'A' && r <= 'Z' || r >= '0' && r <= '9' || r == '-' || r == '_') {
			return false
		}
	}
	return true
}

// staticSegments: the segments of a path that are not {variables}
func staticSegments(path string) []string {
	var out []string
	for _, seg := range strings.Split(path, "/") {
		if seg == "" || strings.HasPrefix(seg, "{") {
			continue
		}
		out = append(out, seg)
	}
	return out
}

// sameName: is the compiled name the foreign one - as it is, or escaped the way the importer escapes names?
func sameName(compiled, want string) bool {
	if compiled == want {
		return true
	}
	if u, err := url.PathUnescape(compiled); err == nil && u == want {
		return true
	}
	if u, err := url.QueryUnescape(compiled); err == nil && u == want {
		return true
	}
	return false
}

// classSuffix: ":<class>" for a name that is not plain (finding keys name the feature of the name that matters)
func classSuffix(n string) string {
	if c := nameClass(n); c != "plain" {
		return ":" + c
	}
	return ""
}

func expPrim(format, p string) primExp {
	switch format {
	case "swagger", "openapi3":
		return oasPrimExp(p)
	case "xsd":
		return xsdPrims[p]
	}
	sp := sqlPrims[format][p]
	return primExp{sp.kind, sp.bits}
}

// checkField compares one compiled field with what the document said about the property
func (j *judgeCtx) checkField(where string, p prop, f fieldProj, inlineName string) {
	fmtn := j.d.Format
	if f.Opt == p.Required && !p.Key {
		shape := "scalar"
		if p.T.Array {
			shape = "array"
		}
		j.fail("optionality:"+fmtn+":"+shape, fmt.Sprintf("%s: required=%v in the document but opt=%v in the compiled model", where, p.Required, f.Opt))
	}
	if f.Seq != p.T.Array {
		j.fail("arrayness:"+fmtn, fmt.Sprintf("%s: array=%v in the document but sequence=%v in the compiled model", where, p.T.Array, f.Seq))
	}
	switch p.T.Kind {
	case "prim":
		e := expPrim(fmtn, p.T.Prim)
		if p.FK != "" {
			if f.Kind != "REF" || f.Ref != p.FK {
				j.fail("foreign-key:"+fmtn, fmt.Sprintf("%s: foreign key to %s but the compiled field is %s %s", where, p.FK, f.Kind, f.Ref))
			}
		} else if fmtn == "xsd" && xsdNumericDefault[p.T.Prim] && f.Kind == "STRING" {
			j.fail("kind:xsd:numeric-builtin-as-string", fmt.Sprintf("%s: xs:%s is a number, compiled as STRING (no mapping for it, and makeXsdBuiltinType's default is string)", where, p.T.Prim))
		} else if !primMatches(p.T.Prim, e, f) {
			j.fail("kind:"+fmtn+":"+primClass(p.T.Prim), fmt.Sprintf("%s: foreign type %s should be %s/%d, compiled as %s/%d", where, p.T.Prim, e.kind, e.bits, f.Kind, f.Bits))
		}
	case "ref":
		ok := false
		for _, c := range candidates(p.T.Ref) {
			if f.Kind == "REF" && f.Ref == c {
				ok = true
			}
		}
		if !ok {
			j.fail("ref:"+fmtn, fmt.Sprintf("%s: reference to %q, compiled as %s %q", where, p.T.Ref, f.Kind, f.Ref))
		}
	case "obj":
		if f.Kind != "REF" {
			j.fail("inline-object:"+fmtn, fmt.Sprintf("%s: inline object, compiled as %s", where, f.Kind))
		}
	case "enum":
		if f.Kind != "STRING" {
			j.fail("kind:"+fmtn+":inline-enum", fmt.Sprintf("%s: inline string enum, compiled as %s %s", where, f.Kind, f.Ref))
		}
	}
	if p.Key && !f.PK {
		j.fail("keyness:"+fmtn, fmt.Sprintf("%s: primary-key column without ~pk in the compiled model", where))
	}
	if !p.Key && f.PK {
		j.fail("keyness:"+fmtn, fmt.Sprintf("%s: ~pk on a column that is not part of the primary key", where))
	}
}

func (j *judgeCtx) checkObject(app *sysl.Application, s schema, typeKey string, inherited []prop) {
	t := app.Types[typeKey]
	defs, _ := attrDefs(t)
	if defs == nil {
		j.fail("type-shape:"+j.d.Format, fmt.Sprintf("schema %q with %d properties is not a tuple/relation in the compiled model", s.Name, len(s.Props)))
		return
	}
	all := append(append([]prop{}, inherited...), s.Props...)
	for pi, p := range all {
		var ft *sysl.Type
		fkey := ""
		for _, c := range candidates(p.Name) {
			if x, ok := defs[c]; ok {
				ft, fkey = x, c
				break
			}
		}
		if ft == nil {
			// importers that rename a field keep the foreign name in @json_tag (OpenAPI, XSD) or `name` (SQL)
			var ks []string
			for k := range defs {
				ks = append(ks, k)
			}
			sort.Strings(ks)
			for _, k := range ks {
				x := defs[k]
				if a, ok := x.GetAttrs()["json_tag"]; ok && a.GetS() == p.Name && ft == nil {
					ft, fkey = x, k
				}
				if a, ok := x.GetAttrs()["name"]; ok && a.GetS() == p.Name && ft == nil {
					ft, fkey = x, k
				}
			}
		}
		where := fmt.Sprintf("%s.%s", s.Name, p.Name)
		if ft == nil {
			var have []string
			for k := range defs {
				have = append(have, k)
			}
			sort.Strings(have)
			if pi < len(inherited) && p.Attr {
				j.fail("missing-inherited-attribute:"+j.d.Format, fmt.Sprintf("attribute %q of the base type of %q is not in the compiled type (fields: %q)", p.Name, s.Name, have))
				continue
			}
			j.fail("missing-property:"+j.d.Format+":"+nameClass(p.Name), fmt.Sprintf("property %q of %q is not in the compiled type (fields: %q)", p.Name, s.Name, have))
			continue
		}
		f := projField(ft)
		if f.HasTag && f.JSONTag != p.Name {
			j.fail("json-tag:"+j.d.Format+":"+nameClass(p.Name), fmt.Sprintf("%s: @json_tag is %q", where, f.JSONTag))
		}
		if p.T.Array2 && f.Kind == "REF" {
			// an array of arrays: the inner array is a type of its own; the element is what that one holds
			if nt, ok := app.Types[f.Ref]; ok {
				if g := projField(nt); g.Seq {
					f.Kind, f.Bits, f.Ref = g.Kind, g.Bits, g.Ref
				}
			}
		}
		j.checkField(where, p, f, fkey)
		j.checkDepth(app, where, "property", p.T, ft)
		if p.T.Kind == "obj" && f.Kind == "REF" {
			if _, ok := app.Types[f.Ref]; !ok {
				j.fail("inline-object:"+j.d.Format, fmt.Sprintf("%s: inline object type %q is not defined", where, f.Ref))
			} else if len(p.T.Obj.Props) > 0 {
				j.checkObject(app, *p.T.Obj, f.Ref, nil)
			}
		}
	}
	nInhAttr := 0
	for _, p := range inherited {
		if p.Attr {
			nInhAttr++
		}
	}
	if len(defs) != len(all) && !(nInhAttr > 0 && len(defs) == len(all)-nInhAttr) {
		// a property the document does not have
		j.fail("extra-property:"+j.d.Format, fmt.Sprintf("type %q has %d fields for %d properties", s.Name, len(defs), len(all)))
	}
}

func (j *judgeCtx) checkSchemas(app *sysl.Application) {
	byName := map[string]schema{}
	for _, s := range j.d.Schemas {
		byName[s.Name] = s
	}
	inline := inlineTypeNames(j.d)
	plainFail := j.fail
	defer func() { j.fail = plainFail }()
	for _, s := range j.d.Schemas {
		j.fail = plainFail
		if inline[s.Name] {
			// the definition is named like the type the importer generates for an inline object of another
			// definition: whatever is wrong with it is that clash
			j.fail = func(key, what string) {
				plainFail("shadowed-definition:"+j.d.Format+":named-like-inline-type", fmt.Sprintf("definition %q has the name generated for an inline object: %s", s.Name, what))
			}
		}
		t, key := findType(app, s.Name)
		if t == nil {
			var have []string
			for k := range app.Types {
				have = append(have, k)
			}
			sort.Strings(have)
			j.fail("missing-type:"+j.d.Format+":"+nameClass(s.Name)+":"+s.Kind, fmt.Sprintf("schema %q has no type in the compiled model (types: %q)", s.Name, have))
			continue
		}
		if s.Kind == "alias" {
			// a definition that is a $ref to another one: everything the target says, under this name
			tgt := j.resolveAlias(s)
			tgt.Name = s.Name
			s = tgt
		}
		switch s.Kind {
		case "allof":
			eff := j.effProps(s, 0)
			if len(eff) == 0 {
				continue
			}
			j.checkObject(app, schema{Name: s.Name, Kind: "object", Props: eff}, key, nil)
		case "oneof":
			u := t.GetOneOf()
			if u == nil {
				j.fail("type-shape:"+j.d.Format+":oneof", fmt.Sprintf("schema %q (oneOf of %q) is not a union in the compiled model", s.Name, s.Alts))
				continue
			}
			for _, a := range s.Alts {
				ok := false
				for _, m := range u.GetType() {
					f := projField(m)
					for _, c := range candidates(a) {
						if f.Kind == "REF" && f.Ref == c {
							ok = true
						}
					}
				}
				if !ok {
					j.fail("union-member:"+j.d.Format, fmt.Sprintf("schema %q: alternative %q is not a member of the compiled union", s.Name, a))
				}
			}
			if len(u.GetType()) != len(s.Alts) {
				j.fail("union-member:"+j.d.Format+":extra", fmt.Sprintf("schema %q: %d members for %d alternatives", s.Name, len(u.GetType()), len(s.Alts)))
			}
		case "object":
			if len(s.Props) == 0 {
				continue // an empty object (or a derived type that adds nothing: an alias of its base) carries nothing to check
			}
			var inh []prop
			for b := s.Base; b != ""; b = byName[b].Base {
				inh = append(append([]prop{}, byName[b].Props...), inh...)
			}
			j.checkObject(app, s, key, inh)
		case "array":
			f := projField(t)
			p := prop{Name: "(items)", T: *s.Elem, Required: true}
			if s.Elem.Array {
				p.T.Array2 = true
			}
			p.T.Array = true
			j.checkDepth(app, s.Name+"[]", "definition", p.T, t)
			if s.Elem.Kind == "obj" {
				if f.Kind != "REF" || !f.Seq {
					j.fail("inline-object:"+j.d.Format+":array-items", fmt.Sprintf("schema %q: array of inline objects, compiled as %s seq=%v", s.Name, f.Kind, f.Seq))
				} else if depthOnly := s.Elem.Array; !depthOnly {
					if _, ok := app.Types[f.Ref]; !ok {
						j.fail("inline-object:"+j.d.Format+":array-items", fmt.Sprintf("schema %q: the type %q of the items is not defined", s.Name, f.Ref))
					} else if len(s.Elem.Obj.Props) > 0 {
						j.checkObject(app, *s.Elem.Obj, f.Ref, nil)
					}
				}
				continue
			}
			if s.Elem.Array {
				continue // the element is an array itself: the depth check above is what there is to say
			}
			j.checkField(s.Name+"[]", p, f, "")
		case "prim":
			f := projField(t)
			e := expPrim(j.d.Format, s.Elem.Prim)
			if !primMatches(s.Elem.Prim, e, f) {
				j.fail("kind:"+j.d.Format+":definition:"+primClass(s.Elem.Prim), fmt.Sprintf("schema %q: foreign type %s should be %s/%d, compiled as %s/%d %s", s.Name, s.Elem.Prim, e.kind, e.bits, f.Kind, f.Bits, f.Ref))
			}
		case "enum":
			f := projField(t)
			if f.Kind != "STRING" && f.Kind != "OTHER" {
				j.fail("kind:"+j.d.Format+":enum", fmt.Sprintf("enum schema %q compiled as %s", s.Name, f.Kind))
			}
		}
	}
}

func (j *judgeCtx) checkEndpoints(app *sysl.Application) {
	for _, e := range j.d.Eps {
		key := e.Method + " " + e.Path
		ep, ok := app.Endpoints[key]
		if !ok {
			// a path with segments that need escaping: the endpoint is named by the escaped path
			for k, cand := range app.Endpoints {
				if sameName(k, key) {
					ep, ok = cand, true
				}
			}
		}
		if !ok {
			var have []string
			for k := range app.Endpoints {
				have = append(have, k)
			}
			sort.Strings(have)
			segClass := ""
			for _, seg := range staticSegments(e.Path) {
				if c := classSuffix(seg); c != "" {
					segClass = ":segment" + c
				}
			}
			j.fail("missing-endpoint:"+j.d.Format+segClass, fmt.Sprintf("%s is not an endpoint of the compiled model (endpoints: %q)", key, have))
			continue
		}
		rp := ep.GetRestParams()
		if rp == nil || rp.GetMethod().String() != e.Method || !sameName(rp.GetPath(), e.Path) {
			j.fail("endpoint-rest:"+j.d.Format, fmt.Sprintf("%s: rest_params are %v", key, rp))
			continue
		}
		eff := j.d.effectiveParams(e)
		nq, nu := 0, 0
		for _, p := range eff {
			switch p.In {
			case "query":
				nq++
			case "path":
				nu++
			}
		}
		if len(rp.GetQueryParam()) != nq || len(rp.GetUrlParam()) != nu {
			j.fail("extra-param:"+j.d.Format, fmt.Sprintf("%s: %d query and %d path parameters compiled for %d and %d in the document", key, len(rp.GetQueryParam()), len(rp.GetUrlParam()), nq, nu))
		}
		for _, p := range eff {
			exp := oasPrimExp(p.Prim)
			var got *sysl.Type
			switch p.In {
			case "query":
				for _, q := range rp.GetQueryParam() {
					if sameName(q.GetName(), p.Name) {
						got = q.GetType()
					}
				}
			case "path":
				for _, q := range rp.GetUrlParam() {
					if sameName(q.GetName(), p.Name) {
						got = q.GetType()
					}
				}
			case "header":
				for _, q := range ep.GetParam() {
					f := projField(q.GetType())
					if f.NameAt == p.Name {
						got = q.GetType()
					}
				}
			}
			if got == nil {
				twin := false
				for _, q := range eff {
					if q.Name == p.Name && q.In != p.In {
						twin = true
					}
				}
				if twin {
					j.fail("missing-param:"+j.d.Format+":same-name-other-location", fmt.Sprintf("%s: %s parameter %q is missing: another parameter of the same name in a different location replaced it", key, p.In, p.Name))
					continue
				}
				hostile := ""
				if c := paramClass(p); c != "plain" {
					hostile = ":" + c
				}
				var have []string
				for _, q := range rp.GetQueryParam() {
					have = append(have, "query "+q.GetName())
				}
				for _, q := range rp.GetUrlParam() {
					have = append(have, "path "+q.GetName())
				}
				for _, q := range ep.GetParam() {
					have = append(have, "param "+q.GetName())
				}
				j.fail("missing-param:"+j.d.Format+":"+p.In+hostile, fmt.Sprintf("%s: %s parameter %q is missing (compiled: %q)", key, p.In, p.Name, have))
				continue
			}
			f := projField(got)
			if !primMatches(p.Prim, exp, f) {
				j.fail("param-kind:"+j.d.Format+":"+primClass(p.Prim)+":"+p.In, fmt.Sprintf("%s: %s parameter %q of type %s compiled as %s/%d", key, p.In, p.Name, p.Prim, f.Kind, f.Bits))
			}
			if p.In != "path" && f.Opt == p.Required {
				j.fail("param-optionality:"+j.d.Format+":"+p.In, fmt.Sprintf("%s: %s parameter %q required=%v but opt=%v", key, p.In, p.Name, p.Required, f.Opt))
			}
		}
		if e.BodyRef != "" {
			want := resp{Ref: e.BodyRef}
			mts := j.d.effConsumes(e)
			any := false
			for _, mt := range mts {
				ok := false
				for _, q := range ep.GetParam() {
					if carries(app, q.GetType(), want, mt, 0) {
						ok, any = true, true
					}
				}
				if !ok && len(mts) > 1 {
					var have []string
					for _, q := range ep.GetParam() {
						f := projField(q.GetType())
						have = append(have, fmt.Sprintf("%s <: %s%s [%s]", q.GetName(), f.Kind, f.Ref, f.Media))
					}
					k := "missing-body:" + j.d.Format + ":media-type"
					for _, other := range mts {
						if other != mt && mediaIdent(other) == mediaIdent(mt) {
							// the two media types differ only in characters the importer drops when it makes
							// the parameter's name: a finding of its own
							k += ":same-identifier"
							break
						}
					}
					j.fail(k, fmt.Sprintf("%s: %d request media types %q, but no request parameter that carries %q as %s (parameters: %q)", key, len(mts), mts, e.BodyRef, mt, have))
				}
			}
			if !any {
				j.fail("missing-body:"+j.d.Format, fmt.Sprintf("%s: no request parameter of type %q", key, e.BodyRef))
			}
		}
		j.checkResponses(app, key, e, ep)
	}
}

// mediaIdent: the letters and digits of a media type, lower-cased (what is left of it in an identifier)
func mediaIdent(mt string) string {
	var b strings.Builder
	for _, r := range strings.ToLower(mt) {
		if r >= 'a' && r <= 'z' || r >= '0' && r <= '9' {
			b.WriteRune(r)
		}
	}
	return b.String()
}

// the type words the compiler reads as primitives, for response payloads (which the compiled model keeps as text)
var wordKinds = map[string]primExp{"int": {"INT", 0}, "int32": {"INT", 32}, "int64": {"INT", 64}, "float": {"FLOAT", 0}, "float32": {"FLOAT", 32},
	"float64": {"FLOAT", 64}, "string": {"STRING", 0}, "bool": {"BOOL", 0}, "date": {"DATE", 0}, "datetime": {"DATETIME", 0}, "bytes": {"BYTES", 0},
	"decimal": {"DECIMAL", 0}, "any": {"ANY", 0}}

// wordProj: what a type word of a return payload denotes
func wordProj(w string) fieldProj {
	var f fieldProj
	if strings.HasPrefix(w, "sequence of ") {
		f = wordProj(strings.TrimPrefix(w, "sequence of "))
		f.Seq = true
		return f
	}
	if strings.HasPrefix(w, "set of ") {
		f = wordProj(strings.TrimPrefix(w, "set of "))
		f.Seq = true
		return f
	}
	if k, ok := wordKinds[strings.ToLower(w)]; ok {
		return fieldProj{Kind: k.kind, Bits: k.bits}
	}
	return fieldProj{Kind: "REF", Ref: w}
}

// respTypeOK: does a compiled field / payload type carry the response's schema (kind or reference, array-ness)?
func respTypeOK(r resp, f fieldProj) bool {
	if f.Seq != r.Array {
		return false
	}
	if r.Ref != "" {
		for _, c := range candidates(r.Ref) {
			if f.Kind == "REF" && f.Ref == c {
				return true
			}
		}
		return false
	}
	return primMatches(r.Prim, oasPrimExp(r.Prim), f)
}

// carries: does the compiled type t denote the schema r (a $ref or primitive, possibly an array) when the media type
// is mt? Directly; or through the types the importers generate around it: an alias of it, a tuple with a field
// that carries it, a union with a member that carries it. An attribute `mediatype` on the way restricts the path to
// that media type.
func carries(app *sysl.Application, t *sysl.Type, r resp, mt string, depth int) bool {
	if t == nil || depth > 6 {
		return false
	}
	f := projField(t)
	if f.Media != "" && f.Media != mt {
		return false
	}
	if respTypeOK(r, f) {
		return true
	}
	if defs, _ := attrDefs(t); defs != nil {
		for _, ft := range defs {
			if carries(app, ft, r, mt, depth+1) {
				return true
			}
		}
		return false
	}
	if u := t.GetOneOf(); u != nil {
		for _, m := range u.GetType() {
			if carries(app, m, r, mt, depth+1) {
				return true
			}
		}
		return false
	}
	if f.Kind == "REF" && !f.Seq {
		if nt, ok := app.Types[f.Ref]; ok {
			return carries(app, nt, r, mt, depth+1)
		}
	}
	return false
}

func describeType(app *sysl.Application, t *sysl.Type, depth int) string {
	if t == nil || depth > 3 {
		return "?"
	}
	f := projField(t)
	if defs, _ := attrDefs(t); defs != nil {
		var fs []string
		for n, ft := range defs {
			fs = append(fs, n+": "+describeType(app, ft, depth+1))
		}
		sort.Strings(fs)
		return "{" + strings.Join(fs, "; ") + "}"
	}
	if u := t.GetOneOf(); u != nil {
		var ms []string
		for _, m := range u.GetType() {
			ms = append(ms, describeType(app, m, depth+1))
		}
		return "union(" + strings.Join(ms, " | ") + ")"
	}
	out := f.Kind
	if f.Kind == "REF" {
		out = f.Ref
		if nt, ok := app.Types[f.Ref]; ok && depth < 3 {
			out += "=" + describeType(app, nt, depth+1)
		}
	}
	if f.Seq {
		out = "sequence of " + out
	}
	if f.Media != "" {
		out += " [" + f.Media + "]"
	}
	return out
}

func respClass(r resp) string {
	if r.Ref != "" {
		return "ref"
	}
	return primClass(r.Prim)
}

// checkResponses: one return per response of the operation, carrying its type: directly, or - with several
// response media types - through a type that has one field of the response's type per media type.
func (j *judgeCtx) checkResponses(app *sysl.Application, key string, e endpoint, ep *sysl.Endpoint) {
	var have []string
	for _, st := range ep.GetStmt() {
		if st.GetRet() != nil {
			have = append(have, st.GetRet().GetPayload())
		}
	}
	for _, r := range e.Resps {
		// `default` has no status code: the importer writes it as ok / error
		prefixes := []string{r.Code}
		if r.Code == "default" {
			prefixes = []string{"default", "ok", "error"}
		}
		seen, typed, mediaFailed := false, false, false
		for _, pl := range have {
			for _, px := range prefixes {
				if !strings.HasPrefix(pl, px) {
					continue
				}
				rest := pl[len(px):]
				if rest != "" && rest[0] != ' ' {
					continue
				}
				seen = true
				if r.Ref == "" && r.Prim == "" {
					typed = true
					continue
				}
				rest = strings.TrimSpace(rest)
				if !strings.HasPrefix(rest, "<:") {
					continue
				}
				tw := strings.TrimSpace(strings.TrimPrefix(rest, "<:"))
				if i := strings.Index(tw, " ["); i >= 0 {
					tw = tw[:i]
				}
				if respTypeOK(r, wordProj(tw)) {
					typed = true
					continue
				}
				// a named type that carries the response's type for every response media type
				if wt, ok := app.Types[tw]; ok {
					all := true
					for _, mt := range mediaTypes(e.Produces) {
						if !carries(app, wt, r, mt, 0) {
							all = false
							if len(mediaTypes(e.Produces)) > 1 {
								mediaFailed = true
								j.fail("response-media-type:"+j.d.Format+":"+respClass(r), fmt.Sprintf("%s: response %s has %d media types %q; the type %q of its return does not carry the response's type for %s (%s)", key, r.Code, len(mediaTypes(e.Produces)), mediaTypes(e.Produces), tw, mt, describeType(app, wt, 0)))
							}
						}
					}
					if all {
						typed = true
					}
				}
			}
		}
		if !seen {
			j.fail("missing-response:"+j.d.Format, fmt.Sprintf("%s: response %s not among the returns %q", key, r.Code, have))
		} else if !typed && !mediaFailed {
			j.fail("response-type:"+j.d.Format+":"+respClass(r), fmt.Sprintf("%s: response %s (type %q%s, array=%v) is not what its return carries: %q", key, r.Code, r.Ref, r.Prim, r.Array, have))
		}
	}
}

type docObs struct {
	ImpErr   string          `json:"imp_err"`
	ImpText  string          `json:"imp_text"`
	CompErr  string          `json:"comp_err"`
	Same     bool            `json:"same"`
	Failures [][2]string     `json:"failures"` // key, what
	Proj     json.RawMessage `json:"proj,omitempty"`
	EpProj   json.RawMessage `json:"ep_proj,omitempty"`
}

func firstLine(s string) string {
	if i := strings.IndexByte(s, '\n'); i >= 0 {
		s = s[:i]
	}
	if len(s) > 200 {
		s = s[:200]
	}
	return s
}

// judgeDocLocal runs one document through import, compile, projection in THIS process and collects the property
// failures (it is what the worker subprocess executes).
func judgeDocLocal(d doc) docObs {
	text, fn := render(d)
	classes := docNameClasses(d)
	failed := map[string]bool{}
	var o docObs
	j := &judgeCtx{d: d}
	j.fail = func(key, what string) {
		if failed[key] {
			return
		}
		failed[key] = true
		o.Failures = append(o.Failures, [2]string{key, fmt.Sprintf("[%s, %s] %s", d.Format, d.Stream, what)})
	}
	imp := runImport(d, text, fn)
	o.ImpErr, o.ImpText = imp.err, imp.text
	if d.ImportOnly {
		return o
	}
	if imp.panicked {
		j.fail("import-panics:"+d.Format, "the importer panics: "+firstLine(imp.err))
		return o
	}
	if imp.err != "" {
		if strings.Contains(imp.err, "circular schema reference") {
			j.fail("import-fails:"+d.Format+":circular-ref", "import of a document with a recursive schema fails: "+firstLine(imp.err))
			return o
		}
		switch {
		case strings.Contains(imp.err, "duplicate fields exist"):
			// SortWithoutDupl: an allOf part and the own properties declare one property differently
			j.fail("import-fails:"+d.Format+":allof-redeclared-property", "import of a well-formed document fails: "+firstLine(imp.err))
		case strings.Contains(imp.err, "circular reference detected"):
			// the generator's references are acyclic
			j.fail("import-fails:"+d.Format+":false-circular-reference", "import of a document without any circular reference fails: "+firstLine(imp.err))
		default:
			j.fail("import-fails:"+d.Format+":"+classes, "import of a well-formed document fails: "+firstLine(imp.err))
		}
		return o
	}
	comp := compile(imp.text)
	o.CompErr = comp.err
	if comp.panicked {
		j.fail("compile-panics:"+d.Format+":"+classes, "the compiler panics on the imported text: "+firstLine(comp.err))
		return o
	}
	if comp.err != "" {
		j.fail("does-not-compile:"+d.Format+":"+classes, "the imported text does not compile: "+firstLine(comp.err))
		return o
	}
	app := comp.mod.GetApps()["App"]
	if app == nil {
		j.fail("no-app:"+d.Format, "the compiled module has no application App")
		return o
	}
	j.checkSchemas(app)
	j.checkEndpoints(app)
	o.Proj = projectApp(d, app)
	o.EpProj = projectEndpoints(app)
	second := runImport(d, text, fn)
	o.Same = second.text == imp.text && second.err == imp.err
	if !o.Same {
		if strings.Contains(second.err, "circular schema reference") {
			// the same finding as a failing first import: kin-openapi's conversion rejects a recursive schema or
			// not depending on the order in which it happens to visit its maps
			j.fail("import-fails:"+d.Format+":circular-ref", "the second import of a document with a recursive schema fails (the first succeeded): "+firstLine(second.err))
		} else if mediaCollision(d) {
			j.fail("second-import-differs:"+d.Format+":media-same-identifier", "importing the same document again gives different text: two request media types of one operation give the same parameter name, and which body parameter survives depends on the map order")
		} else {
			j.fail("second-import-differs:"+d.Format, "importing the same document again gives different text")
		}
	}
	for i := 0; o.Same && i < d.Repeat; i++ {
		again := runImport(d, text, fn)
		if again.text != imp.text || again.err != imp.err {
			o.Same = false
			if strings.Contains(again.err, "circular schema reference") {
				j.fail("import-fails:"+d.Format+":circular-ref", "a later import of a document with a recursive schema fails (the first succeeded): "+firstLine(again.err))
				break
			}
			if mediaCollision(d) {
				j.fail("second-import-differs:"+d.Format+":media-same-identifier", "importing the same document again gives different text: two request media types of one operation give the same parameter name, and which body parameter survives depends on the map order")
				break
			}
			j.fail("second-import-differs:"+d.Format, fmt.Sprintf("import number %d of the same document in one process gives different text:\n%s", i+3, firstDiff(imp.text, again.text)))
		}
	}
	return o
}

// mediaCollision: an operation with two request media types that differ only in characters the importer drops
func mediaCollision(d doc) bool {
	for _, e := range d.Eps {
		if e.BodyRef == "" {
			continue
		}
		mts := d.effConsumes(e)
		for i := range mts {
			for k := i + 1; k < len(mts); k++ {
				if mediaIdent(mts[i]) == mediaIdent(mts[k]) {
					return true
				}
			}
		}
	}
	return false
}

// firstDiff: the first line in which two texts differ
func firstDiff(a, b string) string {
	la, lb := strings.Split(a, "\n"), strings.Split(b, "\n")
	for i := 0; i < len(la) || i < len(lb); i++ {
		x, y := "", ""
		if i < len(la) {
			x = la[i]
		}
		if i < len(lb) {
			y = lb[i]
		}
		if x != y {
			return fmt.Sprintf("line %d: %q / %q", i+1, strings.TrimSpace(x), strings.TrimSpace(y))
		}
	}
	return "(no difference)"
}

func docWorker(line []byte) interface{} {
	var d doc
	if err := json.Unmarshal(line, &d); err != nil {
		return docObs{ImpErr: "bad request: " + err.Error()}
	}
	return judgeDocLocal(d)
}

var worker *common.Worker

// judgeDoc: the same in a worker subprocess, so that a crash of the importer (stack overflow, os.Exit, hang) is an
// observation and not the end of the run.
func judgeDoc(c *common.Ctx, d doc) docObs {
	var o docObs
	died, timedOut, stderr := worker.Call(d, &o, 120*time.Second)
	return mergeDoc(c, d, o, died, timedOut, stderr)
}

// mergeDoc turns what a worker reported about one document into failures (shrunk / attributed to names).
func mergeDoc(c *common.Ctx, d doc, o docObs, died, timedOut bool, stderr string) docObs {
	if timedOut {
		c.Fail("import-hangs:"+d.Format, fmt.Sprintf("[%s, %s] import + compile did not finish within 120 s", d.Format, d.Stream), d)
		return docObs{ImpErr: "hang"}
	}
	if died {
		site := common.PanicSite(stderr)
		if strings.Contains(stderr, "stack overflow") {
			site = "stack-overflow"
		}
		t := stderr
		if i := strings.Index(t, "fatal error:"); i >= 0 {
			t = t[i:]
		} else if i := strings.Index(t, "panic:"); i >= 0 {
			t = t[i:]
		}
		c.Fail("import-crashes:"+d.Format+":"+site, fmt.Sprintf("[%s, %s] the process dies while importing: %s (at %s)", d.Format, d.Stream, firstLine(t), site), d)
		return docObs{ImpErr: "died"}
	}
	reported := map[string]bool{}
	for _, f := range o.Failures {
		cl := keyClass(f[0])
		if strings.HasPrefix(cl, "kind:") || strings.HasPrefix(cl, "param-kind:") || strings.HasPrefix(cl, "response-type:") {
			// one finding per foreign primitive class, not one per document
			cl = f[0]
		}
		if reported[cl] {
			continue
		}
		reported[cl] = true
		wholeDoc := strings.HasPrefix(cl, "does-not-compile:") || strings.HasPrefix(cl, "import-fails:") || strings.HasPrefix(cl, "compile-panics:")
		if wholeDoc && strings.Count(docNameClasses(d), ",") > 0 {
			// which names are to blame? one tiny document per odd name (cached)
			found := false
			for _, cu := range culprits(c, d, cl) {
				found = true
				c.Fail(cu.f[0], cu.f[1], cu.d)
			}
			if found {
				continue
			}
		}
		arrai := d.Format != "swagger" && d.Format != "xsd"
		if !arrai && (wholeDoc || c.Res.Histogram["shrunk:"+cl] < 4) {
			c.Hist("shrunk:" + cl)
			if small, sf := shrink(c, d, cl, 150); sf[0] != "" {
				c.Fail(sf[0], sf[1], small)
				continue
			}
		}
		c.Fail(f[0], f[1], d)
	}
	return o
}

type culprit struct {
	d doc
	f [2]string
}

var microCache = map[string]*culprit{} // format|role|name -> failing micro document (nil: passes)

func microDoc(format, role, name string) doc {
	d := doc{Kind: "doc", Format: format, Stream: "micro-" + role}
	str := ptype{Kind: "prim", Prim: "string"}
	switch role {
	case "prop":
		d.Schemas = []schema{{Name: "Holder", Kind: "object", Props: []prop{{Name: name, T: str}}}}
	case "inline":
		d.Schemas = []schema{{Name: "Holder", Kind: "object", Props: []prop{{Name: name, T: ptype{Kind: "obj", Obj: &schema{Kind: "object", Props: []prop{{Name: "id", T: str}}}}}}}}
	case "type":
		d.Schemas = []schema{{Name: name, Kind: "object", Props: []prop{{Name: "id", T: str}}},
			{Name: "Holder", Kind: "object", Props: []prop{{Name: "one", T: ptype{Kind: "ref", Ref: name}}, {Name: "many", T: ptype{Kind: "ref", Ref: name, Array: true}}}}}
	}
	return d
}

func culprits(c *common.Ctx, d doc, class string) []culprit {
	type nr struct{ role, name string }
	var names []nr
	seen := map[nr]bool{}
	add := func(role, n string) {
		if nameClass(n) != "plain" && !seen[nr{role, n}] {
			seen[nr{role, n}] = true
			names = append(names, nr{role, n})
		}
	}
	var walk func(s schema)
	walk = func(s schema) {
		for _, p := range s.Props {
			if p.T.Obj != nil {
				add("inline", p.Name)
				walk(*p.T.Obj)
			} else {
				add("prop", p.Name)
			}
		}
	}
	for _, s := range d.Schemas {
		add("type", s.Name)
		walk(s)
	}
	var out []culprit
	for _, n := range names {
		ck := d.Format + "|" + n.role + "|" + n.name
		cu, done := microCache[ck]
		if !done {
			md := microDoc(d.Format, n.role, n.name)
			var o docObs
			died, timedOut, _ := worker.Call(md, &o, 120*time.Second)
			if !died && !timedOut {
				for _, f := range o.Failures {
					if strings.HasPrefix(f[0], "does-not-compile:") || strings.HasPrefix(f[0], "import-fails:") || strings.HasPrefix(f[0], "compile-panics:") {
						cu = &culprit{md, f}
						break
					}
				}
			}
			microCache[ck] = cu
			c.Hist("micro-documents")
		}
		if cu != nil && keyClass(cu.f[0]) == class {
			out = append(out, *cu)
		}
	}
	return out
}

// projectApp: the compiled types as a canonical value (what the Coq import model must reproduce)
type fieldOut struct {
	Name string `json:"n"`
	fieldProj
}
type typeOut struct {
	Name    string     `json:"n"`
	Shape   string     `json:"shape"` // tuple | relation | union | "" (alias: Alias holds the type itself)
	Fields  []fieldOut `json:"fields"`
	Alias   *fieldProj `json:"alias,omitempty"`
	Members []string   `json:"members,omitempty"` // union: the referenced types, in order
}

func projectApp(d doc, app *sysl.Application) json.RawMessage {
	var out []typeOut
	for n, t := range app.Types {
		defs, shape := attrDefs(t)
		x := typeOut{Name: n, Shape: shape}
		if u := t.GetOneOf(); u != nil && defs == nil {
			x.Shape = "union"
			for _, m := range u.GetType() {
				x.Members = append(x.Members, projField(m).Ref)
			}
		} else if defs == nil && shape == "" {
			f := projField(t)
			x.Alias = &f
		}
		for fn, ft := range defs {
			x.Fields = append(x.Fields, fieldOut{fn, projField(ft)})
		}
		sort.Slice(x.Fields, func(i, j int) bool { return x.Fields[i].Name < x.Fields[j].Name })
		out = append(out, x)
	}
	sort.Slice(out, func(i, j int) bool { return out[i].Name < out[j].Name })
	b, _ := json.Marshal(out)
	return b
}

// projectEndpoints: per endpoint, the parameters by location (what Foreign/EndpointSpec.v predicts)
type epOut struct {
	Key    string      `json:"k"`
	Query  []fieldOut  `json:"q"`
	URL    []fieldOut  `json:"u"`
	Header []fieldOut  `json:"h"`
	Body   [][2]string `json:"b"` // body parameters: type, media type
	Rets   []string    `json:"r"` // the payloads of the return statements, in order
}

func projectEndpoints(app *sysl.Application) json.RawMessage {
	var out []epOut
	for k, ep := range app.Endpoints {
		x := epOut{Key: k}
		for _, q := range ep.GetRestParams().GetQueryParam() {
			x.Query = append(x.Query, fieldOut{q.GetName(), projField(q.GetType())})
		}
		for _, q := range ep.GetRestParams().GetUrlParam() {
			x.URL = append(x.URL, fieldOut{q.GetName(), projField(q.GetType())})
		}
		for _, q := range ep.GetParam() {
			f := projField(q.GetType())
			isBody, isHeader := false, false
			for _, pt := range f.Pats {
				isBody = isBody || pt == "body"
				isHeader = isHeader || pt == "header"
			}
			switch {
			case isHeader:
				x.Header = append(x.Header, fieldOut{f.NameAt, f})
			case isBody:
				x.Body = append(x.Body, [2]string{f.Ref, f.Media})
			default:
				x.Body = append(x.Body, [2]string{"?" + q.GetName(), f.Media})
			}
		}
		for _, st := range ep.GetStmt() {
			if st.GetRet() != nil {
				x.Rets = append(x.Rets, st.GetRet().GetPayload())
			}
		}
		out = append(out, x)
	}
	sort.Slice(out, func(i, j int) bool { return out[i].Key < out[j].Key })
	b, _ := json.Marshal(out)
	return b
}

// gOps: the operations with their responses, for Foreign/ResponseSpec.v
func gOps(d doc) string {
	var ops []string
	for _, e := range d.Eps {
		var rs, mts []string
		for _, r := range e.Resps {
			sch := "None"
			switch {
			case r.Ref != "":
				sch = "(Some (FRef " + gb(r.Ref) + "))"
			case r.Prim != "":
				sch = "(Some " + gFtype(ptype{Kind: "prim", Prim: r.Prim}) + ")"
			}
			rs = append(rs, fmt.Sprintf("mkr %s %s %s", gb(r.Code), sch, common.GBool(r.Array)))
		}
		for _, mt := range mediaTypes(e.Produces) {
			mts = append(mts, gb(mt))
		}
		ops = append(ops, fmt.Sprintf("mko %s %s %s %s", gb(e.Path), common.GString(e.Method), common.GList(mts), common.GList(rs)))
	}
	return common.GList(ops)
}

// gRets: the observed return lines per endpoint
func gRets(raw json.RawMessage) (string, bool) {
	var es []epOut
	if raw == nil {
		return "[]", true
	}
	if err := json.Unmarshal(raw, &es); err != nil {
		return "", false
	}
	var out []string
	for _, e := range es {
		var rs []string
		for _, r := range e.Rets {
			rs = append(rs, gb(r))
		}
		out = append(out, fmt.Sprintf("(%s, %s)", gb(e.Key), common.GList(rs)))
	}
	return common.GList(out), true
}

func gParam(p param) string {
	m := oasPrimJSON(p.Prim)
	f, _ := m["format"].(string)
	return fmt.Sprintf("mkq %s %s %s %s %s", gb(p.Name), common.GString(p.In), common.GBool(p.Required || p.In == "path"),
		common.GString(m["type"].(string)), common.GString(f))
}

func gEndpoints(d doc) string {
	var eps []string
	for _, e := range d.Eps {
		var common_, own []string
		for _, pl := range d.PathLevel {
			if pl.Path == e.Path {
				for _, p := range pl.Params {
					common_ = append(common_, gParam(p))
				}
			}
		}
		for _, p := range e.Params {
			own = append(own, gParam(p))
		}
		body := "None"
		if e.BodyRef != "" {
			body = "(Some " + gb(e.BodyRef) + ")"
		}
		var cons []string
		for _, mt := range d.effConsumes(e) {
			cons = append(cons, gb(mt))
		}
		eps = append(eps, fmt.Sprintf("mke %s %s %s %s %s %s", gb(e.Path), common.GString(e.Method), common.GList(common_), common.GList(own), body, common.GList(cons)))
	}
	return common.GList(eps)
}

func gEpProj(raw json.RawMessage) (string, bool) {
	var es []epOut
	if err := json.Unmarshal(raw, &es); err != nil {
		return "", false
	}
	fl := func(fs []fieldOut) string {
		var out []string
		for _, f := range fs {
			out = append(out, fmt.Sprintf("(%s, %s)", gb(f.Name), gField(f.fieldProj)))
		}
		return common.GList(out)
	}
	var out []string
	for _, e := range es {
		var bs []string
		for _, x := range e.Body {
			bs = append(bs, fmt.Sprintf("(%s, %s)", gb(x[0]), gb(x[1])))
		}
		out = append(out, fmt.Sprintf("(%s, mkep %s %s %s %s)", gb(e.Key), fl(e.Query), fl(e.URL), fl(e.Header), common.GList(bs)))
	}
	return common.GList(out), true
}

// ---------------------------------------------------------------- Gallina terms for Foreign/ImportRun.v

func gb(s string) string { return "(b " + common.GBytes(s) + ")" }

func gFtype(t ptype) string {
	if t.Kind == "ref" {
		return "(FRef " + gb(t.Ref) + ")"
	}
	m := oasPrimJSON(t.Prim)
	f, _ := m["format"].(string)
	return fmt.Sprintf("(FPrim %s %s)", common.GString(m["type"].(string)), common.GString(f))
}

var builtinTypeNames = []string{"no_primitive", "empty", "any", "bool", "int", "int32", "int64", "float", "decimal", "string", "bytes", "string_8", "date", "datetime", "xml", "uuid"}

// flatOAS: is the document inside the subset the Coq model covers (no inline objects)?
func flatOAS(d doc) bool {
	for _, s := range d.Schemas {
		switch s.Kind {
		case "allof", "oneof", "alias":
			return false
		}
		for _, p := range s.Props {
			if p.T.Kind == "obj" || p.T.Kind == "enum" || p.T.Array2 {
				return false
			}
		}
		if s.Elem != nil && (s.Elem.Kind == "obj" || s.Elem.Kind == "enum" || s.Elem.Array && s.Kind == "array") {
			return false
		}
	}
	return true
}

func gOasDoc(d doc) string {
	var defs []string
	for _, s := range d.Schemas {
		body := ""
		switch s.Kind {
		case "object":
			var ps, rq []string
			for _, p := range s.Props {
				ps = append(ps, fmt.Sprintf("mkp %s %s %s", gb(p.Name), gFtype(p.T), common.GBool(p.T.Array)))
			}
			for _, r := range s.ReqOrder {
				rq = append(rq, gb(r))
			}
			body = fmt.Sprintf("OObject %s %s", common.GList(ps), common.GList(rq))
		case "array":
			body = "OArray " + gFtype(*s.Elem)
		case "enum":
			body = "OEnum"
		case "prim":
			m := oasPrimJSON(s.Elem.Prim)
			f, _ := m["format"].(string)
			body = fmt.Sprintf("OPrim %s %s", common.GString(m["type"].(string)), common.GString(f))
		}
		defs = append(defs, fmt.Sprintf("(%s, %s)", gb(s.Name), body))
	}
	return common.GList(defs)
}

func gXsdDoc(d doc) string {
	var defs []string
	for _, s := range d.Schemas {
		body := ""
		switch s.Kind {
		case "object":
			var es, as []string
			for _, p := range s.Props {
				if p.Attr {
					as = append(as, fmt.Sprintf("mka %s %s %s", gb(p.Name), common.GString(p.T.Prim), common.GBool(p.Required)))
					continue
				}
				t := "(XPrim " + common.GString(p.T.Prim) + ")"
				if p.T.Kind == "ref" {
					t = "(XRef " + gb(p.T.Ref) + ")"
				}
				es = append(es, fmt.Sprintf("mkx %s %s %s %s", gb(p.Name), t, common.GBool(!p.Required), common.GBool(p.T.Array)))
			}
			base := "None"
			if s.Base != "" {
				base = "(Some " + gb(s.Base) + ")"
			}
			body = fmt.Sprintf("XComplex %s %s %s", base, common.GList(es), common.GList(as))
		case "prim":
			body = "XSimple " + common.GString(s.Elem.Prim)
		}
		defs = append(defs, fmt.Sprintf("(%s, %s)", gb(s.Name), body))
	}
	return common.GList(defs)
}

func gField(f fieldProj) string {
	kind := f.Kind
	return fmt.Sprintf("mkf %s %d %s %s %s", common.GString(kind), f.Bits, gb(f.Ref), common.GBool(f.Opt), common.GBool(f.Seq))
}

func gProj(raw json.RawMessage) (string, bool) {
	var ts []typeOut
	if err := json.Unmarshal(raw, &ts); err != nil {
		return "", false
	}
	var out []string
	for _, t := range ts {
		if t.Shape == "union" {
			return "", false // not in the Coq model
		}
		if t.Alias != nil {
			out = append(out, fmt.Sprintf("(%s, TAlias (%s))", gb(t.Name), gField(*t.Alias)))
			continue
		}
		var fs []string
		for _, f := range t.Fields {
			fs = append(fs, fmt.Sprintf("(%s, %s)", gb(f.Name), gField(f.fieldProj)))
		}
		out = append(out, fmt.Sprintf("(%s, TTuple %s)", gb(t.Name), common.GList(fs)))
	}
	return common.GList(out), true
}
