// Shrinking of a failing document to a small one with the same kind of failure, so that replays are readable and
// finding keys (which name the offending name classes of the MINIMAL document) are narrow.
package main

import (
	"encoding/json"
	"strings"
	"time"

	"verifharness/common"
)

func keyClass(k string) string {
	p := strings.SplitN(k, ":", 3)
	if len(p) >= 2 {
		return p[0] + ":" + p[1]
	}
	return k
}

func cloneDoc(d doc) doc {
	b, _ := json.Marshal(d)
	var o doc
	json.Unmarshal(b, &o)
	return o
}

// variants: one-step reductions of d
func variants(d doc) []doc {
	var out []doc
	for i := range d.Eps {
		v := cloneDoc(d)
		v.Eps = append(v.Eps[:i], v.Eps[i+1:]...)
		out = append(out, v)
	}
	for i := range d.PathLevel {
		for k := range d.PathLevel[i].Params {
			if d.PathLevel[i].Params[k].In == "path" {
				continue
			}
			v := cloneDoc(d)
			v.PathLevel[i].Params = append(v.PathLevel[i].Params[:k], v.PathLevel[i].Params[k+1:]...)
			out = append(out, v)
		}
	}
	for i := range d.Eps {
		e := d.Eps[i]
		for k := range e.Params {
			if e.Params[k].In == "path" {
				continue
			}
			v := cloneDoc(d)
			v.Eps[i].Params = append(v.Eps[i].Params[:k], v.Eps[i].Params[k+1:]...)
			out = append(out, v)
		}
		if len(e.Resps) > 1 {
			for k := range e.Resps {
				v := cloneDoc(d)
				v.Eps[i].Resps = append(v.Eps[i].Resps[:k], v.Eps[i].Resps[k+1:]...)
				out = append(out, v)
			}
		}
		if e.BodyRef != "" {
			v := cloneDoc(d)
			v.Eps[i].BodyRef = ""
			out = append(out, v)
		}
		for k := range e.Consumes {
			if len(e.Consumes) > 2 {
				v := cloneDoc(d)
				v.Eps[i].Consumes = append(v.Eps[i].Consumes[:k], v.Eps[i].Consumes[k+1:]...)
				out = append(out, v)
			}
		}
		for k := range e.Produces {
			if len(e.Produces) > 2 {
				v := cloneDoc(d)
				v.Eps[i].Produces = append(v.Eps[i].Produces[:k], v.Eps[i].Produces[k+1:]...)
				out = append(out, v)
			}
		}
	}
	// drop a schema nobody refers to
	refd := map[string]bool{}
	var walk func(s schema)
	walk = func(s schema) {
		if s.Base != "" {
			refd[s.Base] = true
		}
		if s.Elem != nil && s.Elem.Kind == "ref" {
			refd[s.Elem.Ref] = true
		}
		for _, a := range s.Alts {
			refd[a] = true
		}
		for _, pt := range s.Parts {
			if pt.Kind == "ref" {
				refd[pt.Ref] = true
			}
			if pt.Obj != nil {
				walk(*pt.Obj)
			}
		}
		if s.Elem != nil && s.Elem.Obj != nil {
			walk(*s.Elem.Obj)
		}
		for _, p := range s.Props {
			if p.T.Kind == "ref" {
				refd[p.T.Ref] = true
			}
			if p.FK != "" {
				refd[strings.SplitN(p.FK, ".", 2)[0]] = true
			}
			if p.T.Obj != nil {
				walk(*p.T.Obj)
			}
		}
	}
	for _, s := range d.Schemas {
		walk(s)
	}
	for _, e := range d.Eps {
		refd[e.BodyRef] = true
		for _, r := range e.Resps {
			refd[r.Ref] = true
		}
	}
	for i, s := range d.Schemas {
		if !refd[s.Name] && len(d.Schemas) > 1 {
			v := cloneDoc(d)
			v.Schemas = append(v.Schemas[:i], v.Schemas[i+1:]...)
			out = append(out, v)
		}
	}
	for i, s := range d.Schemas {
		for k, p := range s.Props {
			if len(s.Props) > 1 {
				v := cloneDoc(d)
				vs := &v.Schemas[i]
				vs.Props = append(vs.Props[:k], vs.Props[k+1:]...)
				var ro []string
				for _, n := range vs.ReqOrder {
					if n != p.Name {
						ro = append(ro, n)
					}
				}
				vs.ReqOrder = ro
				out = append(out, v)
			}
			if p.T.Kind != "prim" || p.T.Array {
				v := cloneDoc(d)
				prim := "string"
				if d.Format != "swagger" && d.Format != "openapi3" && d.Format != "xsd" {
					prim = "string"
				}
				v.Schemas[i].Props[k].T = ptype{Kind: "prim", Prim: prim}
				v.Schemas[i].Props[k].FK = ""
				out = append(out, v)
			}
			if p.Attr {
				v := cloneDoc(d)
				v.Schemas[i].Props[k].Attr = false
				out = append(out, v)
			}
		}
		if s.Base != "" {
			v := cloneDoc(d)
			v.Schemas[i].Base = ""
			out = append(out, v)
		}
	}
	return out
}

// shrink returns a smaller document failing with the same key class, and the failure it produces.
func shrink(c *common.Ctx, d doc, class string, budget int) (doc, [2]string) {
	best := d
	var bestF [2]string
	probe := func(x doc) ([2]string, bool) {
		var o docObs
		died, timedOut, _ := worker.Call(x, &o, 120*time.Second)
		if died || timedOut {
			return [2]string{}, false
		}
		for _, f := range o.Failures {
			if keyClass(f[0]) == class || f[0] == class {
				return f, true
			}
		}
		return [2]string{}, false
	}
	for budget > 0 {
		progressed := false
		for _, v := range variants(best) {
			if budget <= 0 {
				break
			}
			budget--
			if f, ok := probe(v); ok {
				best, bestF = v, f
				progressed = true
				break
			}
		}
		if !progressed {
			break
		}
	}
	return best, bestF
}
