// Seeded generator of abstract foreign documents (C11).
package main

import (
	"encoding/json"
	"fmt"
	"net/url"
	"os"
	"strings"
	"sync"
	"time"
	"unicode/utf8"

	"verifharness/common"
)

// names that need escaping, keywords, builtin type names (Appendix B: `" = @ ~ . : + $ &` and keywords)
var hostilePropNames = []string{`a"b`, "x=y", "user@host", "~tmp", "a.b", "ns:tag", "c++", "$ref_", "a&b", "first name", "1st", "-dash", "kebab-case",
	"é", "日本", "a/b", "50%", "q?", "h#1", "semi;colon", "back\\slash", "it's", "(paren)", "[idx]", "{curly}", "a|b", "<lt>", "comma,sep", "star*", "ex!", "_lead", "__", "a_b-c.d",
	"tab\there", `"`, `\"`, `a\`, "="}
var keywordPropNames = []string{"if", "else", "for", "foreach", "while", "until", "loop", "alt", "return", "as", "oneof", "setof", "sequenceof", "GET", "POST", "DELETE", "PATCH", "PUT", "HEAD", "OPTIONS", "TRACE",
	"If", "RETURN", "float32", "float64", "Float32"}
var builtinPropNames = []string{"string", "int", "int32", "int64", "float", "decimal", "bool", "bytes", "date", "datetime", "any", "xml", "uuid", "String", "DATE", "string_8", "empty", "no_primitive", "import", "type", "table"}
var hostileTypeNames = []string{"a.b", "x=y", "Integer", "StringList", "dateRange", "Any", "1st", "kebab-case", "user@host", "first name", "é", "a+b", "If", "int", "Return", "GET", "a:b", "_T", "a\"b"}

// XML NCName: letters, digits, '.', '-', '_' and non-ASCII letters
var xsdHostileNames = []string{"a.b", "kebab-case", "_lead", "é", "日本", "a.b-c_d", "x.", "a--b"}

type genCfg struct {
	format      string
	stream      string
	hostileProp int // chance in 10 that a property name is hostile
	keywordProp int // chance in 10 that a property name is a keyword / builtin
	hostileType int
	minRequired int
	endpoints   bool
	recursive   bool // every object refers to itself
	inline      bool // OpenAPI 2: properties may be inline objects (outside the Coq import model)
	maxOdd      int  // > 0: at most that many hostile / keyword names in the whole document
}

type gen struct {
	r   *common.Rng
	cfg genCfg
	n   int
	odd int
}

func (g *gen) oddAllowed() bool {
	if g.cfg.maxOdd > 0 && g.odd >= g.cfg.maxOdd {
		return false
	}
	return true
}

func (g *gen) fresh(prefix string) string { g.n++; return fmt.Sprintf("%s%d", prefix, g.n) }

func (g *gen) propName(used map[string]bool) string {
	for tries := 0; tries < 50; tries++ {
		var n string
		switch {
		case g.oddAllowed() && g.r.Intn(10) < g.cfg.hostileProp:
			g.odd++
			if g.cfg.format == "xsd" {
				n = xsdHostileNames[g.r.Intn(len(xsdHostileNames))]
			} else {
				n = hostilePropNames[g.r.Intn(len(hostilePropNames))]
			}
		case g.oddAllowed() && g.r.Intn(10) < g.cfg.keywordProp:
			g.odd++
			if g.r.Bool() {
				n = keywordPropNames[g.r.Intn(len(keywordPropNames))]
			} else {
				n = builtinPropNames[g.r.Intn(len(builtinPropNames))]
			}
		default:
			n = []string{"id", "name", "count", "createdAt", "owner", "tags", "price", "active", "note", "ref", "kind", "value", "items", "parent", "code"}[g.r.Intn(15)]
			if used[n] {
				n = g.fresh("p")
			}
		}
		// names differing only by the decorations the writer adds would collide: keep them apart
		clash := false
		for u := range used {
			for _, c := range candidates(u) {
				for _, d := range candidates(n) {
					if c == d {
						clash = true
					}
				}
			}
		}
		if !clash {
			used[n] = true
			return n
		}
	}
	n := g.fresh("p")
	used[n] = true
	return n
}

func (g *gen) primFor() string {
	switch g.cfg.format {
	case "xsd":
		return xsdPrimNames[g.r.Intn(len(xsdPrimNames))]
	case "swagger", "openapi3":
		return oasPrimNames[g.r.Intn(len(oasPrimNames))]
	}
	return sqlPrimNames[g.r.Intn(len(sqlPrimNames))]
}

func (g *gen) ptype(refs []string, depth int, owner string) ptype {
	oas := g.cfg.format == "swagger" || g.cfg.format == "openapi3"
	var t ptype
	switch k := g.r.Intn(10); {
	case k < 5 || len(refs) == 0 && k < 8:
		t = ptype{Kind: "prim", Prim: g.primFor()}
	case k < 8:
		t = ptype{Kind: "ref", Ref: refs[g.r.Intn(len(refs))]}
	case oas && depth < 2 && g.cfg.format == "swagger" && g.cfg.inline:
		o := g.object("", refs, depth+1)
		t = ptype{Kind: "obj", Obj: &o}
	default:
		t = ptype{Kind: "prim", Prim: g.primFor()}
	}
	if g.r.Intn(4) == 0 {
		t.Array = true
	}
	return t
}

func (g *gen) object(name string, refs []string, depth int) schema {
	s := schema{Name: name, Kind: "object"}
	np := 1 + g.r.Intn(7)
	if g.cfg.minRequired > np {
		np = g.cfg.minRequired + g.r.Intn(3)
	}
	used := map[string]bool{}
	for i := 0; i < np; i++ {
		p := prop{Name: g.propName(used), T: g.ptype(refs, depth, name)}
		s.Props = append(s.Props, p)
	}
	// required: a random subset, at least minRequired
	idx := make([]int, np)
	for i := range idx {
		idx[i] = i
	}
	for i := np - 1; i > 0; i-- {
		j := g.r.Intn(i + 1)
		idx[i], idx[j] = idx[j], idx[i]
	}
	nreq := g.r.Intn(np + 1)
	if nreq < g.cfg.minRequired {
		nreq = g.cfg.minRequired
	}
	if nreq > np {
		nreq = np
	}
	for _, i := range idx[:nreq] {
		s.Props[i].Required = true
		s.ReqOrder = append(s.ReqOrder, s.Props[i].Name)
	}
	if g.cfg.format == "xsd" {
		for i := range s.Props {
			if s.Props[i].T.Kind == "prim" && !s.Props[i].T.Array && g.r.Intn(5) == 0 {
				s.Props[i].Attr = true
			}
		}
	}
	return s
}

func (g *gen) typeName(used map[string]bool) string {
	for tries := 0; tries < 30; tries++ {
		var n string
		if g.oddAllowed() && g.r.Intn(10) < g.cfg.hostileType {
			g.odd++
			if g.cfg.format == "xsd" {
				n = xsdHostileNames[g.r.Intn(len(xsdHostileNames))]
			} else {
				n = hostileTypeNames[g.r.Intn(len(hostileTypeNames))]
			}
		} else {
			n = []string{"Pet", "Order", "User", "Item", "Address", "Account", "Thing", "Node", "Event", "Price"}[g.r.Intn(10)]
			if used[n] {
				n = g.fresh("T")
			}
		}
		clash := false
		for u := range used {
			for _, c := range candidates(u) {
				for _, d := range candidates(n) {
					if c == d {
						clash = true
					}
				}
			}
		}
		if !clash {
			used[n] = true
			return n
		}
	}
	n := g.fresh("T")
	used[n] = true
	return n
}

func genDoc(r *common.Rng, cfg genCfg) doc {
	g := &gen{r: r, cfg: cfg}
	d := doc{Kind: "doc", Format: cfg.format, Stream: cfg.stream}
	ns := 2 + r.Intn(4)
	used := map[string]bool{}
	var names []string
	for i := 0; i < ns; i++ {
		names = append(names, g.typeName(used))
	}
	oas := cfg.format == "swagger" || cfg.format == "openapi3"
	var objNames []string
	kinds := make([]string, ns)
	for i := range names {
		kinds[i] = "object"
		if oas && i > 0 {
			switch r.Intn(10) {
			case 0:
				kinds[i] = "array"
			case 1:
				kinds[i] = "enum"
			case 2:
				kinds[i] = "prim"
			}
		}
		if cfg.format == "xsd" && i > 1 && r.Intn(6) == 0 {
			kinds[i] = "prim"
		}
		if kinds[i] == "object" {
			objNames = append(objNames, names[i])
		}
	}
	var earlier []string // references go to EARLIER object schemas only: recursive types have their own stream
	for i, n := range names {
		refs := earlier
		if cfg.recursive && kinds[i] == "object" {
			refs = append(append([]string{}, earlier...), n)
		}
		switch kinds[i] {
		case "object":
			s := g.object(n, refs, 0)
			if cfg.format == "xsd" && i > 0 && r.Intn(5) == 0 {
				// extension of an earlier complex type that itself has no base (one level)
				for k := 0; k < i; k++ {
					if kinds[k] == "object" && d.Schemas[k].Base == "" {
						s.Base = names[k]
						// inherited element names must not clash
						bn := map[string]bool{}
						for _, p := range d.Schemas[k].Props {
							bn[p.Name] = true
						}
						var keep []prop
						for _, p := range s.Props {
							if !bn[p.Name] {
								keep = append(keep, p)
							}
						}
						s.Props = keep
						break
					}
				}
			}
			if cfg.recursive {
				// a fresh name: a derived XSD type must not redeclare an element of its base
				s.Props = append(s.Props, prop{Name: g.fresh("next"), T: ptype{Kind: "ref", Ref: n}})
			}
			if len(s.Props) == 0 {
				s.Base = ""
				s.Props = []prop{{Name: "own", T: ptype{Kind: "prim", Prim: "string"}}}
			}
			d.Schemas = append(d.Schemas, s)
			if !strings.HasPrefix(nameClass(n), "keyword:") {
				// a schema named like a builtin type / keyword is a finding of its own; nothing refers to it
				earlier = append(earlier, n)
			}
		case "array":
			e := g.ptype(earlier, 2, n)
			e.Array = false
			if e.Kind == "obj" {
				e = ptype{Kind: "prim", Prim: "string"}
			}
			d.Schemas = append(d.Schemas, schema{Name: n, Kind: "array", Elem: &e})
		case "enum":
			d.Schemas = append(d.Schemas, schema{Name: n, Kind: "enum"})
		case "prim":
			p := g.primFor()
			if cfg.format == "xsd" {
				p = "string"
			}
			if p == "boolean" {
				p = "string" // a top-level `type: boolean` definition is outside the supported subset (imported as a string alias)
			}
			d.Schemas = append(d.Schemas, schema{Name: n, Kind: "prim", Elem: &ptype{Kind: "prim", Prim: p}})
		}
	}
	objNames = earlier
	if cfg.endpoints && oas && len(objNames) > 0 {
		ne := 1 + r.Intn(4)
		seen := map[string]bool{}
		for i := 0; i < ne; i++ {
			var e endpoint
			base := []string{"/pets", "/orders", "/users", "/v1/items", "/a/b/c"}[r.Intn(5)]
			var params []param
			if r.Bool() {
				base += "/{id}"
				params = append(params, param{Name: "id", In: "path", Required: true, Prim: []string{"string", "integer", "int64"}[r.Intn(3)]})
				if r.Intn(3) == 0 {
					base += "/sub/{subId}"
					params = append(params, param{Name: "subId", In: "path", Required: true, Prim: "string"})
				}
			}
			e.Path = base
			e.Method = []string{"GET", "PUT", "POST", "DELETE", "PATCH"}[r.Intn(5)]
			if seen[e.Method+e.Path] {
				continue
			}
			seen[e.Method+e.Path] = true
			nq := r.Intn(4)
			qn := []string{"limit", "offset", "q", "sort", "since", "flag"}
			for k := 0; k < nq; k++ {
				params = append(params, param{Name: qn[(i+k)%len(qn)] + fmt.Sprint(k), In: "query", Required: r.Intn(3) == 0, Prim: oasPrimNames[r.Intn(len(oasPrimNames))]})
			}
			if r.Intn(3) == 0 {
				params = append(params, param{Name: "X-Request-Id", In: "header", Required: r.Bool(), Prim: "string"})
			}
			e.Params = params
			if (e.Method == "POST" || e.Method == "PUT" || e.Method == "PATCH") && r.Intn(3) > 0 {
				e.BodyRef = objNames[r.Intn(len(objNames))]
			}
			codes := []string{"200", "201", "204", "400", "404", "500"}
			nr := 1 + r.Intn(3)
			cs := map[string]bool{}
			for k := 0; k < nr; k++ {
				c := codes[r.Intn(len(codes))]
				if cs[c] {
					continue
				}
				cs[c] = true
				rr := resp{Code: c}
				if c != "204" && r.Intn(3) > 0 {
					rr.Ref = objNames[r.Intn(len(objNames))]
					rr.Array = r.Intn(4) == 0
				}
				e.Resps = append(e.Resps, rr)
			}
			d.Eps = append(d.Eps, e)
		}
	}
	return d
}

// genSharedParams: OpenAPI 2 paths whose path item declares parameters (path, query, header) that 2-4 methods
// inherit; methods with and without parameters of their own; body parameters of several methods sharing one
// $ref schema; operation-level parameters overriding a path-level one with the same (name, in).
func genSharedParams(r *common.Rng, stream string) doc {
	g := &gen{r: r, cfg: genCfg{format: "swagger", stream: stream}}
	d := doc{Kind: "doc", Format: "swagger", Stream: stream}
	var objs []string
	for _, n := range []string{"Item", "Order", "Note"}[:1+r.Intn(3)] {
		d.Schemas = append(d.Schemas, g.object(n, nil, 0))
		objs = append(objs, n)
	}
	np := 1 + r.Intn(2)
	for pi := 0; pi < np; pi++ {
		path := []string{"/items/{id}", "/orders/{orderId}/lines", "/notes"}[(pi+r.Intn(3))%3]
		dup := false
		for _, pl := range d.PathLevel {
			if pl.Path == path {
				dup = true
			}
		}
		if dup {
			continue
		}
		pl := pathLevel{Path: path}
		switch path {
		case "/items/{id}":
			pl.Params = append(pl.Params, param{Name: "id", In: "path", Required: true, Prim: []string{"string", "int64"}[r.Intn(2)]})
		case "/orders/{orderId}/lines":
			pl.Params = append(pl.Params, param{Name: "orderId", In: "path", Required: true, Prim: "string"})
		}
		if r.Intn(3) > 0 {
			pl.Params = append(pl.Params, param{Name: "trace", In: "query", Required: r.Bool(), Prim: "string"})
		}
		if r.Intn(3) == 0 {
			pl.Params = append(pl.Params, param{Name: "limit", In: "query", Prim: "int32"})
		}
		if r.Intn(3) == 0 {
			pl.Params = append(pl.Params, param{Name: []string{"X-Tenant", "tenant"}[r.Intn(2)], In: "header", Required: true, Prim: "string"})
		}
		if len(pl.Params) == 0 {
			pl.Params = append(pl.Params, param{Name: "trace", In: "query", Prim: "string"})
		}
		d.PathLevel = append(d.PathLevel, pl)
		methods := []string{"GET", "PUT", "POST", "DELETE", "PATCH"}
		for i := len(methods) - 1; i > 0; i-- {
			k := r.Intn(i + 1)
			methods[i], methods[k] = methods[k], methods[i]
		}
		nm := 2 + r.Intn(3)
		shared := objs[r.Intn(len(objs))]
		for _, m := range methods[:nm] {
			e := endpoint{Path: path, Method: m}
			switch r.Intn(4) {
			case 0: // an own query parameter
				e.Params = append(e.Params, param{Name: "own" + m, In: "query", Required: r.Bool(), Prim: "boolean"})
			case 2: // the same NAME as a path-level header parameter, in another location (distinct for OpenAPI)
				if r.Intn(3) == 0 {
					for _, p := range pl.Params {
						if p.In == "header" && !strings.Contains(p.Name, "-") { // a query name with '-' is renamed (convertToSyslSafe)
							e.Params = append(e.Params, param{Name: p.Name, In: "query", Prim: "string"})
							break
						}
					}
				}
			case 1: // overrides a path-level parameter with the same (name, in)
				for _, p := range pl.Params {
					if p.In == "query" {
						e.Params = append(e.Params, param{Name: p.Name, In: "query", Required: !p.Required, Prim: "int64"})
						break
					}
				}
			}
			if m == "PUT" || m == "POST" || m == "PATCH" {
				if r.Intn(4) > 0 {
					e.BodyRef = shared // several methods of the path take the same schema
				} else {
					e.BodyRef = objs[r.Intn(len(objs))]
				}
			}
			e.Resps = []resp{{Code: "200", Ref: objs[r.Intn(len(objs))]}}
			if r.Bool() {
				e.Resps = append(e.Resps, resp{Code: "404"})
			}
			d.Eps = append(d.Eps, e)
		}
	}
	return d
}

// allTypeFormats: every OpenAPI type with no format, with every format the importer's table lists (for any type)
// and with formats in use that it does not list, spelled "type:format"
func allTypeFormats() []string {
	var out []string
	for _, t := range oasTypes {
		out = append(out, t+":")
		for _, f := range oasListedFormats {
			out = append(out, t+":"+f)
		}
		for _, f := range oasUnlistedFormats {
			out = append(out, t+":"+f)
		}
	}
	return out
}

// genTypeFormat: one document that uses each of the given primitives in every position: property, array-item
// property, top-level definition, top-level array definition, path / query / header parameter, response (plain and
// array). No odd names: whatever fails here is about the type.
func genTypeFormat(r *common.Rng, format, stream string, prims []string) doc {
	d := doc{Kind: "doc", Format: format, Stream: stream}
	holder := schema{Name: "Holder", Kind: "object"}
	path := "/tf"
	e := endpoint{Method: []string{"GET", "POST", "PUT"}[r.Intn(3)]}
	for i, p := range prims {
		req := r.Bool()
		holder.Props = append(holder.Props, prop{Name: fmt.Sprintf("p%d", i), T: ptype{Kind: "prim", Prim: p}, Required: req})
		if req {
			holder.ReqOrder = append(holder.ReqOrder, fmt.Sprintf("p%d", i))
		}
		holder.Props = append(holder.Props, prop{Name: fmt.Sprintf("a%d", i), T: ptype{Kind: "prim", Prim: p, Array: true}})
		d.Schemas = append(d.Schemas, schema{Name: fmt.Sprintf("D%d", i), Kind: "prim", Elem: &ptype{Kind: "prim", Prim: p}})
		d.Schemas = append(d.Schemas, schema{Name: fmt.Sprintf("L%d", i), Kind: "array", Elem: &ptype{Kind: "prim", Prim: p}})
		path += fmt.Sprintf("/{k%d}", i)
		e.Params = append(e.Params, param{Name: fmt.Sprintf("k%d", i), In: "path", Required: true, Prim: p})
		e.Params = append(e.Params, param{Name: fmt.Sprintf("q%d", i), In: "query", Required: r.Bool(), Prim: p})
		e.Params = append(e.Params, param{Name: fmt.Sprintf("X-H%d", i), In: "header", Required: r.Bool(), Prim: p})
		e.Resps = append(e.Resps, resp{Code: fmt.Sprint(200 + i), Prim: p, Array: i%2 == 1})
	}
	d.Schemas = append([]schema{holder}, d.Schemas...)
	e.Path = path
	d.Eps = []endpoint{e}
	return d
}

var mediaPool = []string{"application/json", "application/xml", "text/plain", "application/vnd.api+json", "application/octet-stream",
	"text/csv", "application/x-yaml", "multipart/mixed", "application/ld+json", "*/*", "application/json; charset=utf-8"}

func (g *gen) mediaSet(n int) []string {
	idx := make([]int, len(mediaPool))
	for i := range idx {
		idx[i] = i
	}
	for i := len(idx) - 1; i > 0; i-- {
		k := g.r.Intn(i + 1)
		idx[i], idx[k] = idx[k], idx[i]
	}
	var out []string
	for _, i := range idx[:n] {
		out = append(out, mediaPool[i])
	}
	return out
}

// genMediaTypes: operations whose request body can be sent in 2-4 media types (operation-level or document-level
// `consumes`; OpenAPI 3: several entries of requestBody.content) and whose responses come in 1-3 media types;
// responses per status code including `default`, with $ref, array-of-$ref, primitive or no schema.
func genMediaTypes(r *common.Rng, format, stream string) doc {
	g := &gen{r: r, cfg: genCfg{format: format, stream: stream}}
	d := doc{Kind: "doc", Format: format, Stream: stream}
	var objs []string
	for _, n := range []string{"Item", "Order", "Note"}[:1+r.Intn(3)] {
		d.Schemas = append(d.Schemas, g.object(n, nil, 0))
		objs = append(objs, n)
	}
	if format == "swagger" && r.Intn(3) == 0 {
		d.Consumes = g.mediaSet(2 + r.Intn(2))
	}
	np := 1 + r.Intn(3)
	paths := []string{"/items", "/orders/{orderId}", "/notes/{id}/attachments"}
	for pi := 0; pi < np; pi++ {
		path := paths[pi]
		methods := []string{"GET", "PUT", "POST", "DELETE", "PATCH"}
		for i := len(methods) - 1; i > 0; i-- {
			k := r.Intn(i + 1)
			methods[i], methods[k] = methods[k], methods[i]
		}
		for _, m := range methods[:1+r.Intn(3)] {
			e := endpoint{Path: path, Method: m}
			if strings.Contains(path, "{orderId}") {
				e.Params = append(e.Params, param{Name: "orderId", In: "path", Required: true, Prim: "string"})
			}
			if strings.Contains(path, "{id}") {
				e.Params = append(e.Params, param{Name: "id", In: "path", Required: true, Prim: "int64"})
			}
			if r.Intn(3) == 0 {
				e.Params = append(e.Params, param{Name: "verbose", In: "query", Prim: "boolean"})
			}
			if m == "PUT" || m == "POST" || m == "PATCH" {
				e.BodyRef = objs[r.Intn(len(objs))]
				if len(d.Consumes) == 0 || r.Intn(3) == 0 {
					e.Consumes = g.mediaSet(2 + r.Intn(3))
				}
			}
			if r.Intn(4) > 0 {
				e.Produces = g.mediaSet(1 + r.Intn(3))
			}
			codes := []string{"200", "201", "202", "400", "404", "500", "default"}
			seen := map[string]bool{}
			for k, nr := 0, 1+r.Intn(4); k < nr; k++ {
				c := codes[r.Intn(len(codes))]
				if seen[c] {
					continue
				}
				seen[c] = true
				rr := resp{Code: c}
				switch r.Intn(5) {
				case 0:
				case 1:
					rr.Prim = []string{"string", "integer", "int64", "boolean", "number:decimal", "string:email"}[r.Intn(6)]
					rr.Array = r.Intn(3) == 0
				default:
					rr.Ref = objs[r.Intn(len(objs))]
					rr.Array = r.Intn(4) == 0
				}
				e.Resps = append(e.Resps, rr)
			}
			d.Eps = append(d.Eps, e)
		}
	}
	return d
}

// mediaCollisionDoc: two request media types that differ only in a character the importer drops when it names the
// body parameter (known finding; proved: C11_body_media_name_collision_refuted)
func mediaCollisionDoc() doc {
	return doc{Kind: "doc", Format: "swagger", Stream: "oas2-media-name-collision",
		Schemas: []schema{{Name: "Pet", Kind: "object", Props: []prop{{Name: "id", T: ptype{Kind: "prim", Prim: "string"}}}}},
		Eps: []endpoint{{Path: "/pets", Method: "POST", BodyRef: "Pet", Consumes: []string{"application/a+b", "application/a.b"},
			Resps: []resp{{Code: "200", Ref: "Pet"}}}}}
}

// genXsdBuiltins: complex types whose elements and attributes range over the wider set of XSD builtin types
func genXsdBuiltins(r *common.Rng, stream string) doc {
	d := doc{Kind: "doc", Format: "xsd", Stream: stream}
	perm := append([]string{}, xsdWidePrimNames...)
	for i := len(perm) - 1; i > 0; i-- {
		k := r.Intn(i + 1)
		perm[i], perm[k] = perm[k], perm[i]
	}
	for ti, n := range []string{"Root", "Second"} {
		s := schema{Name: n, Kind: "object"}
		for i, p := range perm[ti*9 : ti*9+9] {
			pr := prop{Name: fmt.Sprintf("e%d", i), T: ptype{Kind: "prim", Prim: p}, Required: r.Bool()}
			switch r.Intn(4) {
			case 0:
				pr.Attr = true
			case 1:
				pr.T.Array = true
			}
			s.Props = append(s.Props, pr)
		}
		d.Schemas = append(d.Schemas, s)
	}
	return d
}

// genSQL: tables with typed columns, a primary key (1-2 columns), foreign keys to earlier tables' single-column keys
func genSQL(r *common.Rng, format, stream string) doc {
	d := doc{Kind: "doc", Format: format, Stream: stream}
	nt := 2 + r.Intn(3)
	tn := []string{"Customer", "Account", "Orders", "Item", "Branch", "Ledger"}
	cn := []string{"Name", "Email", "Balance", "Created", "Active", "Amount", "Note", "Score", "Kind", "Ref"}
	type pk struct{ table, col, prim string }
	var pks []pk
	for i := 0; i < nt; i++ {
		s := schema{Name: tn[(i+int(r.Intn(6)))%len(tn)], Kind: "object"}
		dup := false
		for _, o := range d.Schemas {
			if o.Name == s.Name {
				dup = true
			}
		}
		if dup {
			s.Name = fmt.Sprintf("T%d", i)
		}
		keyPrim := []string{"string", "bigint", "int"}[r.Intn(3)]
		s.Props = append(s.Props, prop{Name: s.Name + "ID", T: ptype{Kind: "prim", Prim: keyPrim}, Required: true, Key: true})
		two := r.Intn(4) == 0
		if two {
			s.Props = append(s.Props, prop{Name: "Part", T: ptype{Kind: "prim", Prim: "string"}, Required: true, Key: true})
		}
		nc := 1 + r.Intn(5)
		used := map[string]bool{}
		for k := 0; k < nc; k++ {
			n := cn[r.Intn(len(cn))]
			if used[n] {
				continue
			}
			used[n] = true
			s.Props = append(s.Props, prop{Name: n, T: ptype{Kind: "prim", Prim: sqlPrimNames[r.Intn(len(sqlPrimNames))]}, Required: r.Bool()})
		}
		if len(pks) > 0 && r.Intn(3) > 0 {
			t := pks[r.Intn(len(pks))]
			s.Props = append(s.Props, prop{Name: "Fk" + t.table, T: ptype{Kind: "prim", Prim: t.prim}, Required: r.Bool(), FK: t.table + "." + t.col})
		}
		if !two {
			pks = append(pks, pk{s.Name, s.Name + "ID", keyPrim})
		}
		d.Schemas = append(d.Schemas, s)
	}
	return d
}

// freshImports: the document imported once in each of n FRESH processes; every text must be the one the first
// process produced (Go seeds its map iteration per process and per map: an order that leaks into the text shows as
// a difference between processes even where repeated imports in one process happen to agree)
func freshImports(c *common.Ctx, d doc, n int) {
	d.ImportOnly = true
	texts := make([]string, n)
	var wg sync.WaitGroup
	sem := make(chan struct{}, 8)
	for i := 0; i < n; i++ {
		wg.Add(1)
		go func(i int) {
			defer wg.Done()
			sem <- struct{}{}
			defer func() { <-sem }()
			w := common.NewWorker()
			defer w.Close()
			var o docObs
			died, timedOut, _ := w.Call(d, &o, 120*time.Second)
			if died || timedOut {
				texts[i] = "(process died / hung)"
				return
			}
			texts[i] = o.ImpErr + "\x00" + o.ImpText
		}(i)
	}
	wg.Wait()
	c.HistN("doc-fresh-process-imports", n)
	for i := 1; i < n; i++ {
		if texts[i] != texts[0] {
			d.ImportOnly = false
			key := "second-import-differs:" + d.Format
			if strings.Contains(texts[0]+texts[i], "circular schema reference") {
				key = "import-fails:" + d.Format + ":circular-ref"
			}
			c.Fail(key, fmt.Sprintf("[%s, %s] importing the same document in fresh processes gives different text (process 1 / process %d): %s", d.Format, d.Stream, i+1, firstDiff(texts[0], texts[i])), d)
			return
		}
	}
}

// hasWrapperTypes: a response with a schema and several media types makes the importer generate a type of its own
func hasWrapperTypes(d doc) bool {
	for _, e := range d.Eps {
		if len(e.Produces) > 1 {
			for _, r := range e.Resps {
				if r.Ref != "" || r.Prim != "" {
					return true
				}
			}
		}
	}
	return false
}

// docsStream: the document streams and their budgets per tier.
func docsStream(c *common.Ctx) {
	type plan struct {
		cfg   genCfg
		quick int
		thor  int
	}
	plans := []plan{
		{genCfg{format: "swagger", stream: "oas2-valid", endpoints: true}, 35, 400},
		{genCfg{format: "swagger", stream: "oas2-inline-objects", endpoints: true, inline: true, hostileProp: 1}, 15, 200},
		{genCfg{format: "swagger", stream: "oas2-required3", minRequired: 3}, 20, 200},
		{genCfg{format: "swagger", stream: "oas2-hostile-names", hostileProp: 5, hostileType: 3}, 40, 400},
		{genCfg{format: "swagger", stream: "oas2-keywords", keywordProp: 5}, 20, 200},
		{genCfg{format: "xsd", stream: "xsd-valid"}, 25, 250},
		{genCfg{format: "xsd", stream: "xsd-hostile-names", hostileProp: 4, hostileType: 3, keywordProp: 2}, 20, 200},
	}
	// the arr.ai importers (OpenAPI 3, SQL) take seconds per document: they run in their own workers, in
	// parallel with everything else; their documents are drawn first so that the seed fixes them
	type ares struct {
		d              doc
		o              docObs
		died, timedOut bool
		stderr         string
	}
	var arraiDocs []doc
	na := 1
	if c.Thorough() {
		na = 8
	}
	if c.Search {
		na *= 2
	}
	dialects := []string{"postgres", "mysql", "spannerSQL"}
	for i := 0; i < na; i++ {
		if i%2 == 0 {
			arraiDocs = append(arraiDocs, genDoc(c.Rng, genCfg{format: "openapi3", stream: "oas3-valid", endpoints: true, minRequired: 3 * (i % 2)}))
		} else {
			arraiDocs = append(arraiDocs, genDoc(c.Rng, genCfg{format: "openapi3", stream: "oas3-hostile-names", hostileProp: 4, hostileType: 2, maxOdd: 1}))
		}
		f := dialects[(int(c.Seed)+i)%3]
		arraiDocs = append(arraiDocs, genSQL(c.Rng, f, "sql-"+f))
	}
	if !c.Thorough() && !c.Search {
		arraiDocs = append(arraiDocs, genDoc(c.Rng, genCfg{format: "openapi3", stream: "oas3-hostile-names", hostileProp: 4, hostileType: 2, maxOdd: 1}))
	}
	// OpenAPI 3 through the arr.ai importer: type x format in every position, several request / response media types
	{
		tf := allTypeFormats()
		const per = 8
		ndocs := (len(tf) + per - 1) / per
		pick := []int{int(c.Seed) % ndocs}
		if c.Thorough() || c.Search {
			pick = nil
			for i := 0; i < ndocs; i++ {
				pick = append(pick, i)
			}
		}
		for _, i := range pick {
			hi := (i + 1) * per
			if hi > len(tf) {
				hi = len(tf)
			}
			arraiDocs = append(arraiDocs, genTypeFormat(c.Rng, "openapi3", "oas3-type-format", tf[i*per:hi]))
		}
		nm := 1
		if c.Thorough() {
			nm = 6
		}
		for i := 0; i < nm; i++ {
			md := genMediaTypes(c.Rng, "openapi3", "oas3-media-types")
			md.Repeat = 2
			arraiDocs = append(arraiDocs, md)
		}
	}
	arraiResults := make([]ares, len(arraiDocs))
	var wg sync.WaitGroup
	lanes := 4
	for l := 0; l < lanes; l++ {
		wg.Add(1)
		go func(l int) {
			defer wg.Done()
			w := common.NewWorker()
			defer w.Close()
			for i := l; i < len(arraiDocs); i += lanes {
				r := ares{d: arraiDocs[i]}
				r.died, r.timedOut, r.stderr = w.Call(arraiDocs[i], &r.o, 300*time.Second)
				arraiResults[i] = r
			}
		}(l)
	}
	oc := c.NewCases("C11oas", `From Coq Require Import String List NArith Bool. Import ListNotations.
Require Import Verif.Foreign.NameEscape Verif.Foreign.ImportSpec Verif.Foreign.ResponseSpec Verif.Foreign.ImportRun Verif.Base.Harness.
Local Open Scope string_scope. Local Open Scope N_scope.`, "full_case",
		`Definition M := Eval vm_compute in mismatches full_ok cases. Print M.`, 40)
	defer oc.Close()
	xc := c.NewCases("C11xsd", `From Coq Require Import String List NArith Bool. Import ListNotations.
Require Import Verif.Foreign.NameEscape Verif.Foreign.ImportSpec Verif.Foreign.XsdSpec Verif.Foreign.ImportRun Verif.Base.Harness.
Local Open Scope string_scope. Local Open Scope N_scope.`, "xsd_case",
		`Definition M := Eval vm_compute in mismatches xsd_ok cases. Print M.`, 40)
	defer xc.Close()
	ec := c.NewCases("C11ep", `From Coq Require Import String List NArith Bool. Import ListNotations.
Require Import Verif.Foreign.NameEscape Verif.Foreign.ImportSpec Verif.Foreign.EndpointSpec Verif.Foreign.ImportRun Verif.Base.Harness.
Local Open Scope string_scope. Local Open Scope N_scope.`, "ep_case",
		`Definition M := Eval vm_compute in mismatches ep_ok cases. Print M.`, 40)
	defer ec.Close()
	nc := c.NewCases("C11nested", `From Coq Require Import String List NArith Bool. Import ListNotations.
Require Import Verif.Foreign.NameEscape Verif.Foreign.ImportSpec Verif.Foreign.NestedSpec Verif.Foreign.ImportRun Verif.Foreign.NestedRun Verif.Base.Harness.
Local Open Scope string_scope. Local Open Scope N_scope.`, "nested_case",
		`Definition M := Eval vm_compute in mismatches nested_ok cases. Print M.`, 40)
	defer nc.Close()
	finish := func(d doc, o docObs) {
		if d.Format == "swagger" && o.EpProj != nil && len(d.Eps) > 0 && mediaCollision(d) {
			c.Hist("doc-model:endpoints-not-compared(same-named body parameters: output depends on Go's map order)")
		} else if d.Stream == "oas2-hostile-params" {
			// Foreign/EndpointSpec.v is about parameters with plain names (a header called `a,b` is written raw and
			// read as two parameters); the written names are Foreign/ParamNameSpec.v's
			c.Hist("doc-model:endpoints-not-compared(hostile parameter name)")
		} else if d.Format == "swagger" && o.EpProj != nil && len(d.Eps) > 0 {
			if g, ok := gEpProj(o.EpProj); ok {
				ec.Add(fmt.Sprintf("(%s, %s)", gEndpoints(d), g), d)
				c.Hist("doc-model:endpoints-compared-in-coq")
			}
		}
		if d.Format == "xsd" && o.Proj != nil {
			if g, ok := gProj(o.Proj); ok {
				xc.Add(fmt.Sprintf("(%s, %s)", gXsdDoc(d), g), d)
				c.Hist("doc-model:xsd-compared-in-coq")
			}
		}
		nestedStream := strings.HasPrefix(d.Stream, "oas2-nested")
		if nestedComparable(d) && (nestedStream || !flatOAS(d)) {
			for _, f := range nestedFeatures(d) {
				c.Hist("doc-nested:" + f)
			}
			if o.Proj != nil {
				if g, ok := gProj(o.Proj); ok {
					nc.Add(fmt.Sprintf("(%s, Some %s)", gNestedDoc(d), g), d)
					c.Hist("doc-model:nested-compared-in-coq")
				}
			} else if nestedStream && strings.Contains(o.ImpErr, "duplicate fields exist") {
				nc.Add(fmt.Sprintf("(%s, None)", gNestedDoc(d)), d)
				c.Hist("doc-model:nested-compared-in-coq(import error)")
			}
		}
		if d.Format == "swagger" && o.Proj != nil {
			if !flatOAS(d) {
				c.Hist("doc-model:outside-flat-subset")
			} else if g, ok := gProj(o.Proj); ok {
				if rets, ok := gRets(o.EpProj); ok {
					oc.Add(fmt.Sprintf("((%s, %s), (%s, %s))", gOasDoc(d), gOps(d), g, rets), d)
					c.Hist("doc-model:compared-in-coq")
					if hasWrapperTypes(d) {
						c.Hist("doc-model:compared-in-coq(with generated response types)")
					}
					var ts []typeOut
					json.Unmarshal(o.Proj, &ts)
					for _, t := range ts {
						for _, m := range []string{"GET__", "PUT__", "POST__", "DELETE__", "PATCH__"} {
							if strings.HasPrefix(t.Name, m) {
								c.Hist("doc-model:compared-in-coq(response type renamed with its method)")
							}
						}
					}
				}
			}
		}
		nprops := 0
		for _, s := range d.Schemas {
			nprops += len(s.Props)
		}
		c.Count(fmt.Sprintf("doc|%s|%d", d.Stream, c.Res.Evaluations), nprops > 0)
		c.Hist("doc:" + d.Stream)
		c.HistN("doc-properties:"+d.Format, nprops)
		c.HistN("doc-endpoints:"+d.Format, len(d.Eps))
		switch {
		case o.ImpErr != "":
			c.Hist("doc-outcome:import-error")
		case o.CompErr != "":
			c.Hist("doc-outcome:compile-error")
		default:
			c.Hist("doc-outcome:compiled")
		}
		for _, s := range d.Schemas {
			if len(s.ReqOrder) >= 3 {
				c.Hist("doc-schema:required>=3")
			}
		}
	}
	// every document of the Go-writer path is imported 16 times in one worker process (first + second + 14)
	run := func(d doc) {
		if d.Repeat == 0 {
			d.Repeat = 14
		}
		finish(d, judgeDoc(c, d))
	}
	t0 := time.Now()
	lap := func(what string) {
		c.Res.Notes = append(c.Res.Notes, fmt.Sprintf("%s: %.1fs", what, time.Since(t0).Seconds()))
		t0 = time.Now()
	}
	if os.Getenv("C11_ONLY") == "nested" {
		// development aid: only the nested-schema stream
		plans = nil
	}
	for _, p := range plans {
		n := p.quick
		if c.Thorough() {
			n = p.thor
		}
		if c.Search {
			n *= 2
		}
		for i := 0; i < n; i++ {
			run(genDoc(c.Rng, p.cfg))
		}
		lap(p.cfg.stream)
	}
	// nested schemas: inline objects to depth 3, arrays of arrays, allOf / oneOf, $ref definitions
	{
		n := 40
		if c.Thorough() {
			n = 400
		}
		if c.Search {
			n *= 2
		}
		for i := 0; i < n; i++ {
			run(genNested(c.Rng, "oas2-nested"))
		}
		run(diamondDoc())
		run(shadowedDoc())
		run(redeclaredDoc())
		lap("oas2-nested")
	}
	// hostile parameter names and path segments: one per document, every (role, name) pair in turn
	{
		n := 4 * 26
		if !c.Thorough() && !c.Search {
			n = 36
		}
		off := 0
		if !c.Thorough() {
			off = int(c.Seed) * 36
		}
		for i := 0; i < n; i++ {
			run(genHostileParams(c.Rng, "oas2-hostile-params", off+i))
		}
		lap("oas2-hostile-params")
	}
	// the written names of query and header parameters against Foreign/ParamNameSpec.v (text only: no compile)
	{
		pc := c.NewCases("C11pname", `From Coq Require Import String List NArith Bool. Import ListNotations.
Require Import Verif.Foreign.NameEscape Verif.Foreign.ImportSpec Verif.Foreign.ImportRun Verif.Foreign.ParamNameSpec Verif.Base.Harness.
Local Open Scope string_scope. Local Open Scope N_scope.`, "pname_case",
			`Definition M := Eval vm_compute in mismatches pname_ok cases. Print M.`, 40)
		n := 12
		if c.Thorough() {
			n = 120
		}
		for i := 0; i < n; i++ {
			d, names := genParamNameDoc(c.Rng, int(c.Seed)*7+i)
			var o docObs
			died, timedOut, _ := worker.Call(d, &o, 120*time.Second)
			c.Count(fmt.Sprintf("pname|%d", c.Res.Evaluations), true)
			c.Hist("doc:" + d.Stream)
			if died || timedOut || o.ImpErr != "" {
				c.Fail("import-fails:swagger:param-names", fmt.Sprintf("[swagger, %s] import of a document whose parameters are called %q fails: %s", d.Stream, names, firstLine(o.ImpErr)), d)
				continue
			}
			ql, ok1 := methodLine(o.ImpText, "/q")
			hl, ok2 := methodLine(o.ImpText, "/h")
			if !ok1 || !ok2 {
				c.Fail("missing-endpoint:swagger:param-names", fmt.Sprintf("[swagger, %s] the imported text has no /q or /h endpoint", d.Stream), d)
				continue
			}
			// convertToSyslSafe upper-cases the BYTE after a '-' through strings.ToUpper(string(name[i])): a byte
			// >= 0x80 is taken for a Latin-1 character and written as two bytes, which tears a UTF-8 sequence apart.
			// The Coq model is an ASCII model: such documents are judged here and not compared.
			torn := false
			for _, nm := range names {
				for i := 0; i+1 < len(nm); i++ {
					if nm[i] == '-' && nm[i+1] >= 0x80 {
						torn = true
					}
				}
			}
			if torn {
				c.Hist("param-names:dash-before-non-ascii(not compared)")
				if i := strings.Index(ql, " ?"); i >= 0 {
					for _, part := range strings.Split(strings.TrimSuffix(ql[i+2:], ":"), "&") {
						w := strings.SplitN(part, "=", 2)[0]
						if u, err := url.QueryUnescape(w); err == nil && !utf8.ValidString(u) {
							c.Fail("name-corrupted:swagger:query:dash-before-non-ascii", fmt.Sprintf("[swagger, %s] the query parameter written %q is no longer UTF-8 (parameters: %q): convertToSyslSafe upper-cases the byte behind a '-' as if it were a character", d.Stream, w, names), d)
							break
						}
					}
				}
				continue
			}
			var gn []string
			for _, nm := range names {
				gn = append(gn, gb(nm))
			}
			pc.Add(fmt.Sprintf("(%s, (%s, %s))", common.GList(gn), gb(ql), gb(hl)), d)
			c.HistN("param-names-compared-in-coq", 2*len(names))
		}
		pc.Close()
		lap("oas2-param-names")
	}
	if os.Getenv("C11_ONLY") == "nested" {
		wg.Wait()
		return
	}
	// path-level parameters shared by several methods
	nsh := 25
	if c.Thorough() {
		nsh = 300
	}
	for i := 0; i < nsh; i++ {
		run(genSharedParams(c.Rng, "oas2-shared-path-params"))
	}
	lap("oas2-shared-path-params")
	// OpenAPI type x format: every type with no format, every listed and a dozen unlisted formats, each in every
	// position (property, array item, definition, array definition, path / query / header parameter, response)
	{
		tf := allTypeFormats()
		const per = 6
		for i := 0; i < len(tf); i += per {
			hi := i + per
			if hi > len(tf) {
				hi = len(tf)
			}
			run(genTypeFormat(c.Rng, "swagger", "oas2-type-format", tf[i:hi]))
		}
		if c.Thorough() {
			// random mixtures
			for i := 0; i < 60; i++ {
				var ps []string
				for k := 0; k < 5; k++ {
					ps = append(ps, tf[c.Rng.Intn(len(tf))])
				}
				run(genTypeFormat(c.Rng, "swagger", "oas2-type-format", ps))
			}
		}
		lap("oas2-type-format")
	}
	// request / response media types; the first few documents are also imported in 16 fresh processes each
	{
		n, nfresh := 30, 3
		if c.Thorough() {
			n, nfresh = 300, 16
		}
		if c.Search {
			n *= 2
		}
		for i := 0; i < n; i++ {
			d := genMediaTypes(c.Rng, "swagger", "oas2-media-types")
			run(d)
			if i < nfresh {
				freshImports(c, d, 16)
			}
		}
		run(mediaCollisionDoc())
		lap("oas2-media-types")
	}
	// XSD builtin types
	{
		n := 6
		if c.Thorough() {
			n = 60
		}
		for i := 0; i < n; i++ {
			run(genXsdBuiltins(c.Rng, "xsd-builtins"))
		}
		lap("xsd-builtins")
	}
	// recursive types: their own small stream
	nrec := 6
	if c.Thorough() {
		nrec = 40
	}
	for i := 0; i < nrec; i++ {
		run(genDoc(c.Rng, genCfg{format: "swagger", stream: "oas2-recursive", recursive: true}))
		run(genDoc(c.Rng, genCfg{format: "xsd", stream: "xsd-recursive", recursive: true}))
	}
	lap("recursive")
	wg.Wait()
	lap("waiting for the arr.ai lanes")
	for _, r := range arraiResults {
		finish(r.d, mergeDoc(c, r.d, r.o, r.died, r.timedOut, r.stderr))
	}
}
