// Name-level streams of C11: the real getSyslSafeName (through the `verif` hook), parse.MustUnescape and the
// real lexer on byte strings; the oracle judges "the escaped name is a Name and decodes to the original".
package main

import (
	"fmt"
	"regexp"
	"strings"

	"github.com/antlr/antlr4/runtime/Go/antlr"
	parser "github.com/anz-bank/sysl/pkg/grammar"
	"github.com/anz-bank/sysl/pkg/importer"
	"github.com/anz-bank/sysl/pkg/parse"

	"verifharness/common"
)

// The lexer's Name rule as a Go regexp, written from SyslLexer.g4 by hand (independent of the Coq matcher).
var nameRuleRE = regexp.MustCompile(`^(%[0-9a-fA-F][0-9a-fA-F])*[a-zA-Z_]([-a-zA-Z0-9_]|(%[0-9a-fA-F][0-9a-fA-F]))*$`)

// hostile alphabet for names (Appendix B: " = @ ~ . : + $ & and more)
var hostile = []string{`"`, "=", "@", "~", ".", ":", "+", "$", "&", " ", "%", "/", "-", "_", "a", "Z", "1", "\\", "\t", "?", "#", "<", "[", "é", "\xc2\xa0", "\xff", "'", ",", "{", "|"}

type nameObs struct {
	safe     string
	unesc    string
	panicked bool
}

func mustUnescape(s string) (out string, panicked bool) {
	defer func() {
		if r := recover(); r != nil {
			panicked = true
		}
	}()
	return parse.MustUnescape(s), false
}

func observeName(s string) nameObs {
	safe := importer.VerifGetSyslSafeName(s)
	u, p := mustUnescape(safe)
	return nameObs{safe, u, p}
}

// lexOne: 0 = not exactly one visible token (or lexer error), 1 = one Name, 2 = one TEXT_LINE, 3 = one other token
func lexOne(text string) (kind int, ty int) {
	defer func() {
		if r := recover(); r != nil {
			kind, ty = 0, -1
		}
	}()
	lexer := parser.NewThreadSafeSyslLexer(antlr.NewInputStream(text))
	defer parser.DeleteLexerState(lexer)
	lexer.RemoveErrorListeners()
	var vis []antlr.Token
	for i := 0; i < 20*len(text)+100; i++ {
		t := lexer.NextToken()
		if t.GetTokenType() == antlr.TokenEOF {
			break
		}
		if t.GetChannel() == antlr.TokenHiddenChannel {
			continue
		}
		vis = append(vis, t)
	}
	if len(vis) != 1 || vis[0].GetText() != text {
		return 0, -1
	}
	switch vis[0].GetTokenType() {
	case parser.SyslLexerName:
		return 1, parser.SyslLexerName
	case parser.SyslLexerTEXT_LINE:
		return 2, parser.SyslLexerTEXT_LINE
	}
	return 3, vis[0].GetTokenType()
}

type nameReplay struct {
	Kind  string `json:"kind"` // name | unescape | lex
	Bytes []int  `json:"bytes"`
}

func toInts(s string) []int {
	out := make([]int, len(s))
	for i := 0; i < len(s); i++ {
		out[i] = int(s[i])
	}
	return out
}
func fromInts(b []int) string {
	out := make([]byte, len(b))
	for i, x := range b {
		out[i] = byte(x)
	}
	return string(out)
}

// judgeName: the property on one name, model-independently.
func judgeName(c *common.Ctx, s string, o nameObs) {
	rp := nameReplay{"name", toInts(s)}
	if !nameRuleRE.MatchString(o.safe) {
		bad := ""
		for i := 0; i < len(o.safe); i++ {
			ch := o.safe[i]
			if !(ch == '%' || ch == '-' || ch == '_' || ch >= '0' && ch <= '9' || ch >= 'a' && ch <= 'z' || ch >= 'A' && ch <= 'Z') {
				bad = string(ch)
				break
			}
		}
		c.Fail("name-not-a-Name:"+bad, fmt.Sprintf("getSyslSafeName(%q) = %q does not match the lexer's Name rule (byte %q is emitted raw)", s, o.safe, bad), rp)
		return
	}
	if o.panicked {
		c.Fail("name-unescape-panics", fmt.Sprintf("MustUnescape(getSyslSafeName(%q) = %q) panics", s, o.safe), rp)
		return
	}
	if o.unesc != s && o.unesc != "_"+s {
		if strings.TrimSpace(s) != s && (o.unesc == strings.TrimSpace(s) || o.unesc == strings.TrimSpace("_"+s)) {
			c.Fail("name-unfaithful:outer-whitespace", fmt.Sprintf("the name %q comes back from the compiler as %q: MustUnescape trims white space after decoding %q", s, o.unesc, o.safe), rp)
		} else {
			c.Fail("name-unfaithful", fmt.Sprintf("the name %q comes back from the compiler as %q (written as %q)", s, o.unesc, o.safe), rp)
		}
	}
}

func gOptBytes(s string, none bool) string {
	if none {
		return "None"
	}
	return "(Some " + common.GBytes(s) + ")"
}

const caseHeader = `From Coq Require Import List NArith Bool. Import ListNotations.
Require Import Verif.Foreign.NameEscape Verif.Foreign.Tables Verif.Foreign.Run Verif.Base.Harness.`

func randFrom(r *common.Rng, alpha []string, maxLen int) string {
	n := r.Intn(maxLen + 1)
	var b strings.Builder
	for i := 0; i < n; i++ {
		b.WriteString(alpha[r.Intn(len(alpha))])
	}
	return b.String()
}

func namesStream(c *common.Ctx) {
	cs := c.NewCases("C11name", caseHeader, "name_case",
		`Definition M := Eval vm_compute in mismatches name_ok cases. Print M.`, 1500)
	one := func(s string, toCoq bool, class string) {
		o := observeName(s)
		judgeName(c, s, o)
		nontrivial := o.safe != s
		c.Count("name|"+s, nontrivial)
		c.Hist("name:" + class)
		if toCoq {
			cs.Add(fmt.Sprintf("(%s, %s, %s)", common.GBytes(s), common.GBytes(o.safe), gOptBytes(o.unesc, o.panicked)), nameReplay{"name", toInts(s)})
		}
		if class == "random" {
			c.Sample(map[string]interface{}{"name": s, "safe": o.safe, "unescaped": o.unesc})
		}
	}
	// 1. every single byte, and every byte between two letters
	for b := 0; b < 256; b++ {
		one(string([]byte{byte(b)}), true, "single-byte")
		one("a"+string([]byte{byte(b)})+"b", b%4 == int(c.Seed%4), "byte-in-context")
	}
	one("", true, "empty")
	// 2. all pairs (and triples) of the hostile alphabet
	k := 0
	for _, x := range hostile {
		for _, y := range hostile {
			k++
			one(x+y, k%3 == int(c.Seed%3), "hostile-pair")
			if c.Thorough() || c.Search {
				for _, z := range hostile {
					k++
					one(x+y+z, k%29 == int(c.Seed%29), "hostile-triple")
				}
			}
		}
	}
	if !c.Thorough() && !c.Search {
		// quick: a seeded sample of the triples
		for i := 0; i < 3000; i++ {
			one(hostile[c.Rng.Intn(len(hostile))]+hostile[c.Rng.Intn(len(hostile))]+hostile[c.Rng.Intn(len(hostile))], i%10 == 0, "hostile-triple")
		}
	}
	// 3. keywords and builtin type names, as they are and decorated
	for _, w := range append(append([]string{}, keywordsCI...), keywordsCS...) {
		one(w, true, "keyword")
		one(strings.ToUpper(w), true, "keyword")
		one(w+"x", false, "keyword")
	}
	// 4. random longer names
	nr := 600
	if c.Thorough() {
		nr = 12000
	}
	if c.Search {
		nr *= 3
	}
	mixed := append(append([]string{}, hostile...), "b", "c", "D", "0", "9", "x", "y", "%2", "%zz", "%41", " ", " ")
	for i := 0; i < nr; i++ {
		one(randFrom(c.Rng, mixed, 10), true, "random")
	}
	cs.Close()

	// ---- MustUnescape on arbitrary (also malformed) text: ties path_unescape / trim_space
	us := c.NewCases("C11unesc", caseHeader, "unesc_case",
		`Definition M := Eval vm_compute in mismatches unesc_ok cases. Print M.`, 1500)
	ualpha := []string{"%", "%4", "%41", "%2e", "%G1", "%%", "a", "Z", "_", " ", "\t", "\n", "\v", "\f", "\r", "\xc2\x85", "\xc2\xa0", "\xc2", "\xa0",
		"\xe1\x9a\x80", "\xe2\x80\x80", "\xe2\x80\x8a", "\xe2\x80\x8b", "\xe2\x80\xa8", "\xe2\x80\xaf", "\xe2\x81\x9f", "\xe3\x80\x80", "\xe2\x80", "\x80", "+", "%20", "%09", "%C2%A0", "\xff"}
	nu := 700
	if c.Thorough() {
		nu = 8000
	}
	for i := 0; i < nu; i++ {
		s := randFrom(c.Rng, ualpha, 7)
		u, p := mustUnescape(s)
		c.Count("unesc|"+s, strings.Contains(s, "%") || strings.TrimSpace(s) != s)
		if p {
			c.Hist("unescape:panic")
		} else {
			c.Hist("unescape:ok")
		}
		us.Add(fmt.Sprintf("(%s, %s)", common.GBytes(s), gOptBytes(u, p)), nameReplay{"unescape", toInts(s)})
	}
	us.Close()

	// ---- the real lexer against the Name matcher of the model
	ls := c.NewCases("C11lex", caseHeader, "lex_case",
		`Definition M := Eval vm_compute in mismatches lex_ok cases. Print M.`, 1500)
	lalpha := []string{"a", "b", "Z", "_", "-", "0", "7", "%", "%2E", "%zz", "%4", "%aF", "=", "~", "@", "+", "é", "if", "int", "GET", "for", "x"}
	nl := 700
	if c.Thorough() {
		nl = 8000
	}
	lexCase := func(s string) {
		kind, _ := lexOne(s)
		c.Count("lex|"+s, kind == 1)
		c.Hist(fmt.Sprintf("lex:kind%d", kind))
		ls.Add(fmt.Sprintf("(%s, %d%%N)", common.GBytes(s), kind), nameReplay{"lex", toInts(s)})
	}
	for _, w := range append(append([]string{}, keywordsCI...), keywordsCS...) {
		lexCase(w)
		lexCase(strings.ToUpper(w))
		lexCase(w + "_")
	}
	for i := 0; i < nl; i++ {
		s := randFrom(c.Rng, lalpha, 6)
		if s == "" {
			continue
		}
		lexCase(s)
	}
	ls.Close()
}

// keyword-like token rules of the default lexer mode (kept in step with Gen.ForeignTables.lexer_keywords_* by
// Foreign/Tables.v; here they only steer generation)
var keywordsCI = []string{"alt", "any", "as", "bool", "bytes", "date", "datetime", "decimal", "else", "float", "float32", "float64", "for", "foreach",
	"if", "int", "int32", "int64", "loop", "oneof", "return", "sequenceof", "setof", "string", "until", "while"}
var keywordsCS = []string{"DELETE", "GET", "HEAD", "OPTIONS", "PATCH", "POST", "PUT", "TRACE"}

func replayName(c *common.Ctx, rp nameReplay) {
	s := fromInts(rp.Bytes)
	switch rp.Kind {
	case "name":
		o := observeName(s)
		judgeName(c, s, o)
		fmt.Printf("replay name %q: safe=%q unescaped=%q panicked=%v failures=%d\n", s, o.safe, o.unesc, o.panicked, len(c.Res.Failures))
	case "unescape":
		u, p := mustUnescape(s)
		fmt.Printf("replay MustUnescape(%q) = %q panicked=%v\n", s, u, p)
	case "lex":
		k, ty := lexOne(s)
		fmt.Printf("replay lex %q: kind=%d type=%d\n", s, k, ty)
	}
	c.Count("replay", true)
}
